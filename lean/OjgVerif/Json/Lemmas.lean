import OjgVerif.Json.Tables
/-! Helper lemmas for the JSON machine family: finite facts about the reference transition
function, and "the machine over any `TablesOK` table set is the machine over the reference". -/
namespace OjgVerif.Json
open OjgVerif

theorem Mode.mem_all (m : Mode) : m ∈ Mode.all := by
  cases m <;> decide

/-- lift a Boolean check over all modes and all 256 byte values to a universally quantified fact -/
theorem forall_mode_byte (P : Mode → UInt8 → Bool)
    (h : (Mode.all.all fun m => (List.range 256).all fun i => P m (UInt8.ofNat i)) = true) :
    ∀ m b, P m b = true := by
  intro m b
  simp only [List.all_eq_true, List.mem_range] at h
  have := h m (Mode.mem_all m) b.toNat b.toNat_lt
  simpa using this

theorem escOk_only_in_esc (m : Mode) (b : UInt8) (h : expected m b = .escOk) : m = .esc := by
  have := forall_mode_byte (fun m b => !(expected m b == .escOk) || m == .esc) (by decide +kernel) m b
  simpa [h] using this

theorem close_not_in_comma (b : UInt8) :
    expected .comma b ≠ .closeObject ∧ expected .comma b ≠ .closeArray := by
  have := forall_mode_byte (fun m b => !(m == .comma) || (expected m b != .closeObject && expected m b != .closeArray))
    (by decide +kernel) .comma b
  simpa using this

variable {T : Tables} (hT : TablesOK T) (cfg : Cfg)
include hT

theorem act_eq_ref : T.act = refTables.act :=
  funext fun m => funext fun b => hT.act m b

theorem stepToken_eq_ref (s : St) (b : UInt8) : stepToken T s b = stepToken refTables s b := by
  unfold stepToken
  rw [act_eq_ref hT]

theorem fin_eq_ref_of_close (s : St) (b : UInt8)
    (h : expected s.mode b = .closeObject ∨ expected s.mode b = .closeArray) :
    T.fin s.mode = refTables.fin s.mode := by
  apply hT.fin
  intro hc
  rw [hc] at h
  have := close_not_in_comma b
  rcases h with h | h
  · exact this.1 h
  · exact this.2 h

theorem flushNum_eq_ref_of_close (s : St) (b : UInt8)
    (h : expected s.mode b = .closeObject ∨ expected s.mode b = .closeArray) :
    s.flushNum T = s.flushNum refTables := by
  unfold St.flushNum
  rw [fin_eq_ref_of_close hT s b h]

theorem stepAct_eq_ref (s : St) (b : UInt8) : stepAct T cfg s b = stepAct refTables cfg s b := by
  unfold stepAct
  rw [act_eq_ref hT]
  cases hact : refTables.act s.mode b <;> simp only [stepToken_eq_ref hT]
  case escOk =>
    have hm := escOk_only_in_esc _ _ hact
    rw [hm] at hact
    rw [hT.esc b hact]
    rfl
  case closeObject =>
    rw [fin_eq_ref_of_close hT s b (Or.inl hact), flushNum_eq_ref_of_close hT s b (Or.inl hact)]
  case closeArray =>
    rw [flushNum_eq_ref_of_close hT s b (Or.inr hact)]

end OjgVerif.Json

namespace OjgVerif.Json
open OjgVerif

/-- control invariant: in `after` and `comma` mode a container is open (a complete top-level value
is delivered at once, which leaves `after` mode); the mode a string returns to is `colon` or `after` -/
structure CtlInv (s : St) : Prop where
  after : s.mode = .after → s.starts ≠ []
  comma : s.mode = .comma → s.starts ≠ []
  next : s.nextMode = .colon ∨ s.nextMode = .after

theorem CtlInv.init : CtlInv {} := ⟨(by intro h; cases h), (by intro h; cases h), Or.inr rfl⟩

theorem St.add_ctl {s s' : St} {v : JV} (h : s.add v = .ok s') :
    s'.mode = s.mode ∧ s'.nextMode = s.nextMode ∧ s'.starts = s.starts := by
  unfold St.add at h
  split at h
  · cases h; exact ⟨rfl, rfl, rfl⟩
  · cases h

theorem St.addNum_ctl {s s' : St} (h : s.addNum = .ok s') :
    s'.mode = s.mode ∧ s'.nextMode = s.nextMode ∧ s'.starts = s.starts := St.add_ctl h

theorem afterCommaMode_ne_after (s : St) : afterCommaMode s ≠ .after := by
  unfold afterCommaMode; split <;> simp


theorem Except.bind_ok {ε α β : Type} {x : Except ε α} {f : α → Except ε β} {y : β}
    (h : (x >>= f) = .ok y) : ∃ a, x = .ok a ∧ f a = .ok y := by
  cases x with
  | error e => cases h
  | ok a => exact ⟨a, rfl, h⟩

/-- what `stepAct` guarantees before `deliver` runs -/
structure CtlPre (s : St) (cont : Bool) : Prop where
  after : cont = true → s.mode = .after → s.starts ≠ []
  comma : s.mode = .comma → s.starts ≠ []
  next : s.nextMode = .colon ∨ s.nextMode = .after

theorem afterComma_only_in_after (m : Mode) (b : UInt8) (h : expected m b = .afterComma) : m = .after := by
  have := forall_mode_byte (fun m b => !(expected m b == .afterComma) || m == .after) (by decide +kernel) m b
  simpa [h] using this

theorem St.flushNum_ctl {T : Tables} {s s' : St} (h : s.flushNum T = .ok s') :
    s'.mode = s.mode ∧ s'.nextMode = s.nextMode ∧ s'.starts = s.starts := by
  unfold St.flushNum at h
  split at h
  · exact St.addNum_ctl h
  · cases h; exact ⟨rfl, rfl, rfl⟩

theorem St.popObj_ctl {s s' : St} {rest : List Bool} (h : s.popObj rest = .ok s') :
    s'.mode = s.mode ∧ s'.nextMode = s.nextMode ∧ s'.starts = rest := by
  unfold St.popObj at h
  split at h
  · cases h
  · exact St.add_ctl h

theorem St.popArr_ctl {s s' : St} {rest : List Bool} (h : s.popArr rest = .ok s') :
    s'.mode = s.mode ∧ s'.nextMode = s.nextMode ∧ s'.starts = rest := by
  unfold St.popArr at h
  split at h
  · cases h
  · exact St.add_ctl h

theorem stepToken_ctl (T : Tables) (s s' : St) (b : UInt8) (h : stepToken T s b = .ok s') :
    s'.starts = s.starts ∧ s'.nextMode = s.nextMode ∧ (s'.mode = s.mode ∨ s'.mode = .after) := by
  unfold stepToken at h
  simp only at h
  by_cases h1 : T.act s.mode 114 = .tokenOk
  · rw [if_pos h1] at h
    by_cases h2 : [116, 114, 117, 101].getD (s.ri + 1) 0 = b
    · rw [if_pos h2] at h
      by_cases h3 : 3 ≤ s.ri + 1
      · rw [if_pos h3] at h
        have := St.add_ctl h
        simp_all
      · rw [if_neg h3] at h; cases h; simp
    · rw [if_neg h2] at h; cases h
  · rw [if_neg h1] at h
    by_cases h1' : T.act s.mode 97 = .tokenOk
    · rw [if_pos h1'] at h
      by_cases h2 : [102, 97, 108, 115, 101].getD (s.ri + 1) 0 = b
      · rw [if_pos h2] at h
        by_cases h3 : 4 ≤ s.ri + 1
        · rw [if_pos h3] at h
          have := St.add_ctl h
          simp_all
        · rw [if_neg h3] at h; cases h; simp
      · rw [if_neg h2] at h; cases h
    · rw [if_neg h1'] at h
      by_cases h1'' : (T.act s.mode 117 = .tokenOk && T.act s.mode 108 = .tokenOk) = true
      · rw [if_pos h1''] at h
        by_cases h2 : [110, 117, 108, 108].getD (s.ri + 1) 0 = b
        · rw [if_pos h2] at h
          by_cases h3 : 3 ≤ s.ri + 1
          · rw [if_pos h3] at h
            have := St.add_ctl h
            simp_all
          · rw [if_neg h3] at h; cases h; simp
        · rw [if_neg h2] at h; cases h
      · rw [if_neg h1''] at h; cases h; simp

theorem stepAct_ctl (cfg : Cfg) (s s' : St) (b : UInt8) (cont : Bool) (hi : CtlInv s)
    (h : stepAct refTables cfg s b = .ok (s', cont)) : CtlPre s' cont := by
  have ha := hi.after
  have hc := hi.comma
  have hn := hi.next
  unfold stepAct at h
  split at h
  case h_6 heq =>  -- afterComma
    have hm := afterComma_only_in_after _ _ heq
    simp only [Except.ok.injEq, Prod.mk.injEq] at h; obtain ⟨rfl, rfl⟩ := h
    exact ⟨fun _ h => absurd h (afterCommaMode_ne_after s), fun _ => ha hm, hn⟩
  case h_8 =>  -- numComma
    obtain ⟨s1, h1, h⟩ := Except.bind_ok h
    have := St.addNum_ctl h1
    split at h
    · cases h
    · rename_i hd tl hst
      simp only [pure, Except.pure, Except.ok.injEq, Prod.mk.injEq] at h; obtain ⟨rfl, rfl⟩ := h
      refine ⟨(fun h => nomatch h), fun _ => ?_, by simp_all⟩
      simp [hst]
  case h_12 =>  -- closeObject
    split at h
    · split at h
      · cases h
      · obtain ⟨s1, h1, h⟩ := Except.bind_ok h
        obtain ⟨s2, h2, h⟩ := Except.bind_ok h
        have := St.flushNum_ctl h1
        have := St.popObj_ctl h2
        simp only [pure, Except.pure, Except.ok.injEq, Prod.mk.injEq] at h; obtain ⟨rfl, rfl⟩ := h
        exact ⟨(fun h => nomatch h), (fun h => nomatch h), by simp_all⟩
    · cases h
  case h_18 =>  -- closeArray
    split at h
    · obtain ⟨s1, h1, h⟩ := Except.bind_ok h
      obtain ⟨s2, h2, h⟩ := Except.bind_ok h
      have := St.flushNum_ctl h1
      have := St.popArr_ctl h2
      simp only [pure, Except.pure, Except.ok.injEq, Prod.mk.injEq] at h; obtain ⟨rfl, rfl⟩ := h
      exact ⟨(fun h => nomatch h), (fun h => nomatch h), by simp_all⟩
    · cases h
  case h_25 =>  -- strQuote
    split at h
    · simp only [Except.ok.injEq, Prod.mk.injEq] at h; obtain ⟨rfl, rfl⟩ := h
      refine ⟨(fun h => nomatch h), ?_, hn⟩
      intro hm; rcases hn with h | h <;> simp_all
    · obtain ⟨s1, h1, h⟩ := Except.bind_ok h
      have := St.add_ctl h1
      simp only [pure, Except.pure, Except.ok.injEq, Prod.mk.injEq] at h; obtain ⟨rfl, rfl⟩ := h
      refine ⟨(fun h => nomatch h), ?_, by simp_all⟩
      intro hm; rcases hn with h | h <;> simp_all
  case h_29 =>  -- numSpc
    obtain ⟨s1, h1, h⟩ := Except.bind_ok h
    have := St.addNum_ctl h1
    simp only [pure, Except.pure, Except.ok.injEq, Prod.mk.injEq] at h; obtain ⟨rfl, rfl⟩ := h
    exact ⟨(fun h => nomatch h), (fun h => nomatch h), by simp_all⟩
  case h_30 =>  -- numNewline
    obtain ⟨s1, h1, h⟩ := Except.bind_ok h
    have := St.addNum_ctl h1
    simp only [pure, Except.pure, Except.ok.injEq, Prod.mk.injEq] at h; obtain ⟨rfl, rfl⟩ := h
    exact ⟨(fun h => nomatch h), (fun h => nomatch h), by simp_all⟩
  case h_33 =>  -- uOk
    simp only [Except.ok.injEq, Prod.mk.injEq] at h; obtain ⟨rfl, rfl⟩ := h
    refine ⟨?_, ?_, hn⟩
    · intro _; simp only; split <;> simp_all
    · simp only; split <;> simp_all
  case h_34 =>  -- tokenOk
    obtain ⟨s1, h1, h⟩ := Except.bind_ok h
    have := stepToken_ctl _ _ _ _ h1
    simp only [pure, Except.pure, Except.ok.injEq, Prod.mk.injEq] at h; obtain ⟨rfl, rfl⟩ := h
    refine ⟨(fun h => nomatch h), ?_, by simp_all⟩
    intro hm
    rcases this.2.2 with h | h
    · rw [this.1]; exact hc (h ▸ hm)
    · rw [h] at hm; cases hm
  case h_35 => cases h
  all_goals (simp only [Except.ok.injEq, Prod.mk.injEq] at h; obtain ⟨rfl, rfl⟩ := h; constructor <;> simp_all)


theorem fin_a_eq_ref {T : Tables} (hT : TablesOK T) (m : Mode) :
    decide (T.fin m = .a) = decide (refTables.fin m = .a) := by
  by_cases hm : m = .comma
  · subst hm
    have := hT.finComma.1
    simp [refTables, expectedFin, this]
  · rw [hT.fin m hm]; rfl

theorem deliver_eq_ref {T : Tables} (hT : TablesOK T) (cfg : Cfg) (s : St) :
    deliver T cfg s = deliver refTables cfg s := by
  unfold deliver
  simp only [fin_a_eq_ref hT]

theorem step_eq_ref {T : Tables} (hT : TablesOK T) (cfg : Cfg) (s : St) (b : UInt8) :
    step T cfg s b = step refTables cfg s b := by
  unfold step
  rw [stepAct_eq_ref hT, act_eq_ref hT]
  simp only [deliver_eq_ref hT]

theorem runBytes_eq_ref {T : Tables} (hT : TablesOK T) (cfg : Cfg) (bs : Bytes) (s : St) :
    runBytes T cfg s bs = runBytes refTables cfg s bs := by
  induction bs generalizing s with
  | nil => rfl
  | cons b r ih =>
    simp only [runBytes, step_eq_ref hT]
    split
    · rfl
    · exact ih _

theorem runChunks_eq_ref {T : Tables} (hT : TablesOK T) (cfg : Cfg) (cs : List Bytes) (s : St) :
    runChunks T cfg s cs = runChunks refTables cfg s cs := by
  induction cs generalizing s with
  | nil => rfl
  | cons c r ih =>
    simp only [runChunks, runBytes_eq_ref hT]
    split
    · rfl
    · exact ih _

theorem deliver_ctl (cfg : Cfg) (s : St) (cont : Bool) (h : CtlPre s cont) :
    CtlInv (if cont then s else deliver refTables cfg s) := by
  cases cont with
  | true => exact ⟨h.after rfl, h.comma, h.next⟩
  | false =>
    simp only [Bool.false_eq_true, ↓reduceIte]
    unfold deliver
    split
    · rename_i hc
      refine ⟨?_, ?_, h.next⟩ <;> (simp only; split <;> intro hm <;> cases hm)
    · rename_i hc
      refine ⟨?_, h.comma, h.next⟩
      intro hm hs
      apply hc
      simp [hs, hm, refTables, expectedFin]

theorem step_ctl (cfg : Cfg) (s s' : St) (b : UInt8) (hi : CtlInv s)
    (h : step refTables cfg s b = .ok s') : CtlInv s' := by
  unfold step at h
  split at h
  · cases h
  · rename_i s1 cont h1
    have hp := stepAct_ctl cfg s s1 b cont hi h1
    have hd := deliver_ctl cfg s1 cont hp
    simp only [Except.ok.injEq] at h
    subst h
    exact ⟨hd.after, hd.comma, hd.next⟩

theorem runBytes_ctl (cfg : Cfg) (bs : Bytes) (s s' : St) (hi : CtlInv s)
    (h : runBytes refTables cfg s bs = .ok s') : CtlInv s' := by
  induction bs generalizing s with
  | nil => cases h; exact hi
  | cons b r ih =>
    simp only [runBytes] at h
    split at h
    · cases h
    · rename_i s1 h1
      exact ih s1 (step_ctl cfg s s1 b hi h1) h

theorem runChunks_ctl (cfg : Cfg) (cs : List Bytes) (s s' : St) (hi : CtlInv s)
    (h : runChunks refTables cfg s cs = .ok s') : CtlInv s' := by
  induction cs generalizing s with
  | nil => cases h; exact hi
  | cons c r ih =>
    simp only [runChunks] at h
    split at h
    · cases h
    · rename_i s1 h1
      have h2 := runBytes_ctl cfg c s s1 hi h1
      exact ih { s1 with inFast := false } ⟨h2.after, h2.comma, h2.next⟩ h

theorem finish_eq_ref {T : Tables} (hT : TablesOK T) (s : St) (hi : CtlInv s) :
    finish T s = finish refTables s := by
  unfold finish
  by_cases hm : s.mode = .comma
  · have := hi.comma hm
    have he : s.starts.isEmpty = false := by
      cases hs : s.starts with
      | nil => exact absurd hs this
      | cons _ _ => rfl
    simp [he]
  · rw [hT.fin _ hm]; rfl

/-- **The machine over any table set that passes `TablesOK` is the reference automaton**: same
outcome (documents, values, error line/column/kind) for every configuration and every chunking. -/
theorem run_eq_ref {T : Tables} (hT : TablesOK T) (cfg : Cfg) (chunks : List Bytes) :
    run T cfg chunks = run refTables cfg chunks := by
  unfold run
  simp only
  split
  · exact finish_eq_ref hT _ CtlInv.init
  · split
    · rfl
    · rw [runChunks_eq_ref hT]
      split
      · rfl
      · rename_i s hs
        exact finish_eq_ref hT s (runChunks_ctl cfg _ _ s CtlInv.init hs)
    · rw [runChunks_eq_ref hT]
      split
      · rfl
      · rename_i s hs
        exact finish_eq_ref hT s (runChunks_ctl cfg _ _ s CtlInv.init hs)

/-- position fields -/
def St.at (s : St) : Nat × Nat × Int := (s.line, s.pos, s.nl)

/-- the position an error raised in state `s` carries -/
def Err.isAt (e : Err) (s : St) : Prop := e.line = s.line ∧ e.col = (s.pos : Int) - s.nl

theorem Except.bind_err {ε α β : Type} {x : Except ε α} {f : α → Except ε β} {e : ε}
    (h : (x >>= f) = .error e) : x = .error e ∨ ∃ a, x = .ok a ∧ f a = .error e := by
  cases x with
  | error e' => left; cases h; rfl
  | ok a => right; exact ⟨a, rfl, h⟩

theorem St.add_at (s : St) (v : JV) :
    (∀ s', s.add v = .ok s' → s'.at = s.at) ∧ (∀ e, s.add v = .error e → e.isAt s) := by
  unfold St.add
  split
  · constructor
    · intro s' h; cases h; rfl
    · intro e h; cases h
  · constructor
    · intro s' h; cases h
    · intro e h; cases h; exact ⟨rfl, rfl⟩

theorem St.flushNum_at (T : Tables) (s : St) :
    (∀ s', s.flushNum T = .ok s' → s'.at = s.at) ∧ (∀ e, s.flushNum T = .error e → e.isAt s) := by
  unfold St.flushNum
  split
  · exact St.add_at _ _
  · constructor
    · intro s' h; cases h; rfl
    · intro e h; cases h

theorem St.popObj_at (s : St) (rest : List Bool) :
    (∀ s', s.popObj rest = .ok s' → s'.at = s.at) ∧ (∀ e, s.popObj rest = .error e → e.isAt s) := by
  unfold St.popObj
  split
  · constructor
    · intro s' h; cases h
    · intro e h; cases h; exact ⟨rfl, rfl⟩
  · exact St.add_at _ _

theorem St.popArr_at (s : St) (rest : List Bool) :
    (∀ s', s.popArr rest = .ok s' → s'.at = s.at) ∧ (∀ e, s.popArr rest = .error e → e.isAt s) := by
  unfold St.popArr
  split
  · constructor
    · intro s' h; cases h
    · intro e h; cases h; exact ⟨rfl, rfl⟩
  · exact St.add_at _ _

theorem Err.isAt_of_at {e : Err} {s s' : St} (h : e.isAt s') (hs : s'.at = s.at) : e.isAt s := by
  unfold St.at at hs
  simp only [Prod.mk.injEq] at hs
  obtain ⟨h1, h2, h3⟩ := hs
  exact ⟨h.1.trans h1, by rw [h.2, h2, h3]⟩

theorem stepToken_at (T : Tables) (s : St) (b : UInt8) :
    (∀ s', stepToken T s b = .ok s' → s'.at = s.at) ∧ (∀ e, stepToken T s b = .error e → e.isAt s) := by
  unfold stepToken
  simp only
  constructor
  · intro s' h
    repeat' split at h
    all_goals first
      | (cases h; rfl)
      | (cases h)
      | (have := (St.add_at _ _).1 s' h; exact this)
  · intro e h
    repeat' split at h
    all_goals first
      | (cases h; exact ⟨rfl, rfl⟩)
      | (cases h)
      | (have := (St.add_at _ _).2 e h; exact this)


def isNlAct (a : Act) : Bool := a == .skipNewline || a == .numNewline

theorem stepAct_err_at (T : Tables) (cfg : Cfg) (s : St) (b : UInt8) (e : Err)
    (h : stepAct T cfg s b = .error e) : e.isAt s := by
  unfold stepAct at h
  split at h
  case h_8 =>  -- numComma
    rcases Except.bind_err h with h | ⟨s1, h1, h⟩
    · exact (St.add_at _ _).2 e h
    · have hat := (St.add_at _ _).1 s1 h1
      split at h
      · cases h; exact Err.isAt_of_at ⟨rfl, rfl⟩ hat
      · cases h
  case h_12 =>  -- closeObject
    split at h
    · split at h
      · cases h; exact ⟨rfl, rfl⟩
      · rcases Except.bind_err h with h | ⟨s1, h1, h⟩
        · exact (St.flushNum_at _ _).2 e h
        · have hat := (St.flushNum_at _ _).1 s1 h1
          rcases Except.bind_err h with h | ⟨s2, h2, h⟩
          · exact Err.isAt_of_at ((St.popObj_at _ _).2 e h) hat
          · cases h
    · cases h; exact ⟨rfl, rfl⟩
  case h_18 =>  -- closeArray
    split at h
    · rcases Except.bind_err h with h | ⟨s1, h1, h⟩
      · exact (St.flushNum_at _ _).2 e h
      · have hat := (St.flushNum_at _ _).1 s1 h1
        rcases Except.bind_err h with h | ⟨s2, h2, h⟩
        · exact Err.isAt_of_at ((St.popArr_at _ _).2 e h) hat
        · cases h
    · cases h; exact ⟨rfl, rfl⟩
  case h_25 =>  -- strQuote
    split at h
    · cases h
    · rcases Except.bind_err h with h | ⟨s1, h1, h⟩
      · have := (St.add_at _ _).2 e h; exact this
      · cases h
  case h_29 =>  -- numSpc
    rcases Except.bind_err h with h | ⟨s1, h1, h⟩
    · exact (St.add_at _ _).2 e h
    · cases h
  case h_30 =>  -- numNewline
    rcases Except.bind_err h with h | ⟨s1, h1, h⟩
    · exact (St.add_at _ _).2 e h
    · cases h
  case h_34 =>  -- tokenOk
    rcases Except.bind_err h with h | ⟨s1, h1, h⟩
    · exact (stepToken_at _ _ _).2 e h
    · cases h
  case h_35 =>  -- charErr
    cases h; exact ⟨rfl, rfl⟩
  all_goals (cases h)


/-- effect of one `stepAct` on the position fields: the offset is untouched; a newline action
records the offset as the last newline and bumps the line; every other action leaves both alone -/
theorem stepAct_ok_at (T : Tables) (cfg : Cfg) (s s' : St) (b : UInt8) (c : Bool)
    (h : stepAct T cfg s b = .ok (s', c)) :
    s'.pos = s.pos ∧
    (isNlAct (T.act s.mode b) = true → s'.line = s.line + 1 ∧ s'.nl = s.pos) ∧
    (isNlAct (T.act s.mode b) = false → s'.line = s.line ∧ s'.nl = s.nl) := by
  unfold stepAct at h
  split at h <;> rename_i hact <;> rw [hact] <;> simp only [isNlAct]
  case h_8 =>  -- numComma
    obtain ⟨s1, h1, h⟩ := Except.bind_ok h
    have hat := (St.add_at _ _).1 s1 h1
    simp only [St.at, Prod.mk.injEq] at hat
    split at h
    · cases h
    · simp only [pure, Except.pure, Except.ok.injEq, Prod.mk.injEq] at h; obtain ⟨rfl, rfl⟩ := h
      simp [hat]
  case h_12 =>  -- closeObject
    split at h
    · split at h
      · cases h
      · obtain ⟨s1, h1, h⟩ := Except.bind_ok h
        obtain ⟨s2, h2, h⟩ := Except.bind_ok h
        have hat1 := (St.flushNum_at _ _).1 s1 h1
        have hat2 := (St.popObj_at _ _).1 s2 h2
        simp only [St.at, Prod.mk.injEq] at hat1 hat2
        simp only [pure, Except.pure, Except.ok.injEq, Prod.mk.injEq] at h; obtain ⟨rfl, rfl⟩ := h
        simp [hat1, hat2]
    · cases h
  case h_18 =>  -- closeArray
    split at h
    · obtain ⟨s1, h1, h⟩ := Except.bind_ok h
      obtain ⟨s2, h2, h⟩ := Except.bind_ok h
      have hat1 := (St.flushNum_at _ _).1 s1 h1
      have hat2 := (St.popArr_at _ _).1 s2 h2
      simp only [St.at, Prod.mk.injEq] at hat1 hat2
      simp only [pure, Except.pure, Except.ok.injEq, Prod.mk.injEq] at h; obtain ⟨rfl, rfl⟩ := h
      simp [hat1, hat2]
    · cases h
  case h_25 =>  -- strQuote
    split at h
    · simp only [Except.ok.injEq, Prod.mk.injEq] at h; obtain ⟨rfl, rfl⟩ := h; simp
    · obtain ⟨s1, h1, h⟩ := Except.bind_ok h
      have hat := (St.add_at _ _).1 s1 h1
      simp only [St.at, Prod.mk.injEq] at hat
      simp only [pure, Except.pure, Except.ok.injEq, Prod.mk.injEq] at h; obtain ⟨rfl, rfl⟩ := h
      simp [hat]
  case h_29 =>  -- numSpc
    obtain ⟨s1, h1, h⟩ := Except.bind_ok h
    have hat := (St.add_at _ _).1 s1 h1
    simp only [St.at, Prod.mk.injEq] at hat
    simp only [pure, Except.pure, Except.ok.injEq, Prod.mk.injEq] at h; obtain ⟨rfl, rfl⟩ := h
    simp [hat]
  case h_30 =>  -- numNewline
    obtain ⟨s1, h1, h⟩ := Except.bind_ok h
    have hat := (St.add_at _ _).1 s1 h1
    simp only [St.at, Prod.mk.injEq] at hat
    simp only [pure, Except.pure, Except.ok.injEq, Prod.mk.injEq] at h; obtain ⟨rfl, rfl⟩ := h
    simp [hat]
  case h_34 =>  -- tokenOk
    obtain ⟨s1, h1, h⟩ := Except.bind_ok h
    have hat := (stepToken_at _ _ _).1 s1 h1
    simp only [St.at, Prod.mk.injEq] at hat
    simp only [pure, Except.pure, Except.ok.injEq, Prod.mk.injEq] at h; obtain ⟨rfl, rfl⟩ := h
    simp [hat]
  case h_35 => cases h
  all_goals (simp only [Except.ok.injEq, Prod.mk.injEq] at h; obtain ⟨rfl, rfl⟩ := h; simp)


/-- line / offset / last-newline bookkeeping as a fold over the bytes consumed: this is the reading
of "line and column" the property gives (lines end at '\n', columns count bytes) -/
def track : Nat × Nat × Int → Bytes → Nat × Nat × Int
  | t, [] => t
  | (line, pos, nl), b :: r => if b = 10 then track (line + 1, pos + 1, (pos : Int)) r else track (line, pos + 1, nl) r

theorem track_append (t : Nat × Nat × Int) (a b : Bytes) : track t (a ++ b) = track (track t a) b := by
  induction a generalizing t with
  | nil => rfl
  | cons x r ih =>
    obtain ⟨l, p, n⟩ := t
    simp only [List.cons_append, track]
    split <;> exact ih _

theorem nlAct_iff (m : Mode) (b : UInt8) (h : expected m b ≠ .charErr) :
    isNlAct (expected m b) = decide (b = 10) := by
  have := forall_mode_byte (fun m b => expected m b == .charErr || isNlAct (expected m b) == decide (b = 10))
    (by decide +kernel) m b
  simpa [h] using this

theorem deliver_at (T : Tables) (cfg : Cfg) (s : St) : (deliver T cfg s).at = s.at := by
  unfold deliver; split <;> rfl

theorem step_err_at (T : Tables) (cfg : Cfg) (s : St) (b : UInt8) (e : Err)
    (h : step T cfg s b = .error e) : e.isAt s := by
  unfold step at h
  split at h
  · rename_i e' h1; cases h; exact stepAct_err_at T cfg s b _ h1
  · cases h

theorem step_ok_at (cfg : Cfg) (s s' : St) (b : UInt8) (h : step refTables cfg s b = .ok s') :
    s'.at = track s.at [b] := by
  unfold step at h
  split at h
  · cases h
  · rename_i s1 c h1
    have hne : expected s.mode b ≠ .charErr := by
      intro hc
      unfold stepAct at h1
      have : refTables.act s.mode b = .charErr := hc
      rw [this] at h1
      cases h1
    have hnl := nlAct_iff s.mode b hne
    obtain ⟨hp, hy, hn⟩ := stepAct_ok_at refTables cfg s s1 b c h1
    simp only [Except.ok.injEq] at h
    subst h
    have hd : (if c = true then s1 else deliver refTables cfg s1).at = s1.at := by
      split
      · rfl
      · exact deliver_at _ _ _
    simp only [St.at, Prod.mk.injEq] at hd ⊢
    simp only [track]
    by_cases hb : b = 10
    · have := hy (by rw [show refTables.act s.mode b = expected s.mode b from rfl, hnl]; simp [hb])
      simp [hb, hd, hp, this]
    · have := hn (by rw [show refTables.act s.mode b = expected s.mode b from rfl, hnl]; simp [hb])
      simp [hb, hd, hp, this]

theorem runBytes_ok_at (cfg : Cfg) (bs : Bytes) (s s' : St) (h : runBytes refTables cfg s bs = .ok s') :
    s'.at = track s.at bs := by
  induction bs generalizing s with
  | nil => cases h; rfl
  | cons b r ih =>
    simp only [runBytes] at h
    split at h
    · cases h
    · rename_i s1 h1
      rw [ih s1 h, step_ok_at cfg s s1 b h1]
      exact (track_append s.at [b] r).symm

/-- where the reference automaton stops: the bytes before the stop were all accepted, the error is
raised by the step on byte `b`, and it carries the line/column of `b` -/
theorem runBytes_err_at (cfg : Cfg) (bs : Bytes) (s : St) (e : Err) (h : runBytes refTables cfg s bs = .error e) :
    ∃ pre b post s1, bs = pre ++ b :: post ∧ runBytes refTables cfg s pre = .ok s1 ∧
      step refTables cfg s1 b = .error e ∧
      e.line = (track s.at pre).1 ∧ e.col = ((track s.at pre).2.1 : Int) - (track s.at pre).2.2 := by
  induction bs generalizing s with
  | nil => cases h
  | cons b r ih =>
    simp only [runBytes] at h
    split at h
    · rename_i e' h1
      cases h
      have := step_err_at refTables cfg s b _ h1
      exact ⟨[], b, r, s, rfl, rfl, h1, this.1, this.2⟩
    · rename_i s1 h1
      obtain ⟨pre, b', post, s2, hbs, hrun, hstep, hl, hc⟩ := ih s1 h
      refine ⟨b :: pre, b', post, s2, by rw [hbs]; rfl, ?_, hstep, ?_, ?_⟩
      · simp only [runBytes, h1]; exact hrun
      · rw [hl, step_ok_at cfg s s1 b h1, ← track_append]; rfl
      · rw [hc, step_ok_at cfg s s1 b h1, ← track_append]; rfl

end OjgVerif.Json
