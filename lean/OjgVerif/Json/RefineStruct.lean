import OjgVerif.Json.RefineNum
/-! Refinement, structural part: whitespace, strings as values and keys, arrays, objects, and the
whole text. The grammar is the specification's (`Spec.pValue`) with its two leaf readers made
parameters (`pValueG`), so that the same theorem covers the specification itself
(`Spec.pChars`, `JV.num`) and the machine's reading of leaves (`pCharsM`, `numConv`). -/
namespace OjgVerif.Json
open OjgVerif

/-! ## The grammar with its leaf readers as parameters -/

/-- `Spec.pMember` over a character reader `pc` -/
def pMemberG (pc : Nat → Bytes → Option (Bytes × Bytes)) (pv : Bytes → Option (JV × Bytes)) (bs : Bytes) :
    Option ((Bytes × JV) × Bytes) :=
  match bs with
  | q :: r =>
    if q = 34 then
      match pc r.length r with
      | some (k, r1) =>
        match Spec.skipWs r1 with
        | c :: r2 =>
          if c = 58 then
            match pv (Spec.skipWs r2) with
            | some (v, rest) => some ((k, v), rest)
            | none => none
          else none
        | [] => none
      | none => none
    else none
  | [] => none

/-- `Spec.pMembers` over a member reader -/
def pMembersG (pm : Bytes → Option ((Bytes × JV) × Bytes)) : Nat → Bytes → List (Bytes × JV) → Option (JV × Bytes)
  | 0, _, _ => none
  | k+1, bs, acc =>
    match Spec.skipWs bs with
    | c :: r =>
      if c = 125 then some (.obj acc, r)
      else if c = 44 then
        match pm (Spec.skipWs r) with
        | some ((key, v), rest) => pMembersG pm k rest (kvInsert key v acc)
        | none => none
      else none
    | [] => none

/-- `Spec.pValue` over a character reader `pc` and a number conversion `nc` -/
def pValueG (pc : Nat → Bytes → Option (Bytes × Bytes)) (nc : Bytes → JV) : Nat → Bytes → Option (JV × Bytes)
  | 0, _ => none
  | f+1, bs =>
    match bs with
    | [] => none
    | b :: r =>
      if b = 110 then (Spec.startsWith r [117, 108, 108]).map fun rest => (.null, rest)
      else if b = 116 then (Spec.startsWith r [114, 117, 101]).map fun rest => (.bool true, rest)
      else if b = 102 then (Spec.startsWith r [97, 108, 115, 101]).map fun rest => (.bool false, rest)
      else if b = 34 then (pc r.length r).map fun p => (.str p.1, p.2)
      else if b = 45 || Spec.isDigit b then (Spec.pNumber (b :: r)).map fun p => (nc p.1, p.2)
      else if b = 91 then
        match Spec.skipWs r with
        | c :: r' =>
          if c = 93 then some (.arr [], r')
          else match pValueG pc nc f (c :: r') with
            | some (v, rest) => Spec.pElems (pValueG pc nc f) (rest.length + 1) rest [v]
            | none => none
        | [] => none
      else if b = 123 then
        match Spec.skipWs r with
        | c :: r' =>
          if c = 125 then some (.obj [], r')
          else match pMemberG pc (pValueG pc nc f) (c :: r') with
            | some ((k, v), rest) => pMembersG (pMemberG pc (pValueG pc nc f)) (rest.length + 1) rest [(k, v)]
            | none => none
        | [] => none
      else none

theorem pMember_eq_G (pv : Bytes → Option (JV × Bytes)) (bs : Bytes) :
    Spec.pMember pv bs = pMemberG Spec.pChars pv bs := rfl

theorem pMembers_eq_G (pv : Bytes → Option (JV × Bytes)) (k : Nat) : ∀ (bs : Bytes) (acc : List (Bytes × JV)),
    Spec.pMembers pv k bs acc = pMembersG (pMemberG Spec.pChars pv) k bs acc := by
  induction k with
  | zero => intro bs acc; rfl
  | succ k ih =>
    intro bs acc
    simp only [Spec.pMembers, pMembersG, pMember_eq_G]
    cases Spec.skipWs bs with
    | nil => rfl
    | cons c r =>
      simp only
      by_cases h1 : c = 125
      · simp only [h1, ↓reduceIte]
      · by_cases h2 : c = 44
        · simp only [h1, h2, ↓reduceIte]
          cases pMemberG Spec.pChars pv (Spec.skipWs r) with
          | none => rfl
          | some p => obtain ⟨⟨key, v⟩, rest⟩ := p; exact ih _ _
        · simp only [h1, h2, ↓reduceIte]

/-- the specification's value parser is the generic one over its own leaf readers -/
theorem pValue_eq_G (f : Nat) : ∀ bs, Spec.pValue f bs = pValueG Spec.pChars JV.num f bs := by
  induction f with
  | zero => intro bs; rfl
  | succ f ih =>
    intro bs
    have hfun : Spec.pValue f = pValueG Spec.pChars JV.num f := funext ih
    cases bs with
    | nil => rfl
    | cons b r =>
      simp only [Spec.pValue, pValueG, hfun, pMember_eq_G, pMembers_eq_G]
      rfl

/-! ## Whitespace -/

/-- the fields the invariants look at are unchanged -/
structure Core (s s' : St) : Prop where
  mode : s'.mode = s.mode
  next : s'.nextMode = s.nextMode
  starts : s'.starts = s.starts
  stack : s'.stack = s.stack
  docs : s'.docs = s.docs
  inFast : s.inFast = false → s'.inFast = false

theorem Core.refl (s : St) : Core s s := ⟨rfl, rfl, rfl, rfl, rfl, id⟩

theorem Core.trans {a b c : St} (h1 : Core a b) (h2 : Core b c) : Core a c :=
  ⟨h2.mode.trans h1.mode, h2.next.trans h1.next, h2.starts.trans h1.starts, h2.stack.trans h1.stack,
   h2.docs.trans h1.docs, fun h => h2.inFast (h1.inFast h)⟩

theorem Core.wf {s s' : St} (h : Core s s') (hw : WF s) : WF s' :=
  hw.of_core h.mode h.next h.starts h.stack

/-- modes in which the machine skips whitespace -/
def wsMode (m : Mode) : Bool :=
  m == .value || m == .comma || m == .after || m == .space || m == .key1 || m == .key || m == .colon

theorem ws_act (m : Mode) (b : UInt8) (hm : wsMode m = true) (hb : Spec.isWs b = true) :
    expected m b = .skipChar ∨ expected m b = .skipNewline := by
  have := forall_mode_byte (fun m b => !(wsMode m && Spec.isWs b) || (expected m b == .skipChar) || (expected m b == .skipNewline))
    (by decide +kernel) m b
  simpa [hm, hb] using this

theorem step_ws (s : St) (b : UInt8) (hm : wsMode s.mode = true) (hb : Spec.isWs b = true) :
    ∃ s', step refTables cfg1 s b = .ok s' ∧ Core s s' ∧ s'.inFast = false := by
  have hact0 : refTables.act s.mode b = expected s.mode b := rfl
  rcases ws_act s.mode b hm hb with h | h
  · refine ⟨{ s with pos := s.pos + 1, inFast := false }, ?_, ⟨rfl, rfl, rfl, rfl, rfl, fun _ => rfl⟩, rfl⟩
    unfold step stepAct
    simp only [hact0, h, ↓reduceIte]
  · refine ⟨{ s with line := s.line + 1, nl := s.pos, pos := s.pos + 1, inFast := false }, ?_,
      ⟨rfl, rfl, rfl, rfl, rfl, fun _ => rfl⟩, rfl⟩
    unfold step stepAct
    simp only [hact0, h, ↓reduceIte]

/-- **Whitespace.** In a mode between tokens the machine skips exactly what `skipWs` skips. -/
theorem exec_ws (bs : Bytes) : ∀ (s : St), wsMode s.mode = true →
    ∃ s', Core s s' ∧ exec s bs = exec s' (Spec.skipWs bs) := by
  induction bs with
  | nil => intro s _; exact ⟨s, Core.refl s, rfl⟩
  | cons b r ih =>
    intro s hm
    by_cases hb : Spec.isWs b = true
    · obtain ⟨s1, hs1, hc1, _⟩ := step_ws s b hm hb
      obtain ⟨s2, hc2, he2⟩ := ih s1 (by rw [hc1.mode]; exact hm)
      refine ⟨s2, hc1.trans hc2, ?_⟩
      rw [exec_cons, hs1]
      simp only [Spec.skipWs, hb, ↓reduceIte]
      exact he2
    · refine ⟨s, Core.refl s, ?_⟩
      simp only [Spec.skipWs, hb, Bool.false_eq_true, ↓reduceIte]

theorem skipWs_head (bs : Bytes) (c : UInt8) (r : Bytes) (h : Spec.skipWs bs = c :: r) : Spec.isWs c = false := by
  induction bs with
  | nil => simp [Spec.skipWs] at h
  | cons b t ih =>
    simp only [Spec.skipWs] at h
    by_cases hb : Spec.isWs b = true
    · simp only [hb, ↓reduceIte] at h; exact ih h
    · simp only [hb, Bool.false_eq_true, ↓reduceIte, List.cons.injEq] at h
      rw [← h.1]; simpa using hb

theorem skipWs_length (bs : Bytes) : (Spec.skipWs bs).length ≤ bs.length := by
  induction bs with
  | nil => simp [Spec.skipWs]
  | cons b t ih =>
    simp only [Spec.skipWs]
    split
    · simp only [List.length_cons]; omega
    · simp


/-! ## Strings as values and as keys -/

theorem hex4_length (bs : Bytes) (u : Nat) (rest : Bytes) (h : Spec.hex4 bs = some (u, rest)) :
    rest.length + 4 = bs.length := by
  rw [hex4_eq_hexN] at h
  exact hexN_length 4 0 bs u rest h

theorem pCharsM_succ_cons (f : Nat) (b : UInt8) (r : Bytes) : pCharsM (f + 1) (b :: r) =
    if b = 34 then some ([], r)
    else if b = 92 then
      match r with
      | [] => none
      | e :: r' =>
        if e = 117 then
          match Spec.hex4 r' with
          | none => none
          | some (u, r'') => (pCharsM f r'').map fun p => (Spec.utf8Enc u ++ p.1, p.2)
        else
          match Spec.escByte e with
          | some c => (pCharsM f r').map fun p => (c :: p.1, p.2)
          | none => none
    else if b < 32 then none
    else (pCharsM f r).map fun p => (b :: p.1, p.2) := rfl

/-- more fuel than input bytes changes nothing -/
theorem pCharsM_fuel (f : Nat) : ∀ bs : Bytes, bs.length ≤ f → pCharsM f bs = pCharsM (f + 1) bs := by
  induction f with
  | zero =>
    intro bs h
    have : bs = [] := List.eq_nil_of_length_eq_zero (by omega)
    subst this; rfl
  | succ f ih =>
    intro bs h
    cases bs with
    | nil => rfl
    | cons b r =>
      simp only [List.length_cons] at h
      rw [pCharsM_succ_cons, pCharsM_succ_cons]
      by_cases h34 : b = 34
      · simp only [h34, ↓reduceIte]
      · simp only [h34, ↓reduceIte]
        by_cases h92 : b = 92
        · simp only [h92, ↓reduceIte]
          cases r with
          | nil => rfl
          | cons e r' =>
            simp only [List.length_cons] at h
            simp only
            by_cases h117 : e = 117
            · simp only [h117, ↓reduceIte]
              cases hh : Spec.hex4 r' with
              | none => rfl
              | some p =>
                obtain ⟨u, r''⟩ := p
                have := hex4_length r' u r'' hh
                simp only
                rw [ih r'' (by omega)]
            · simp only [h117, ↓reduceIte]
              cases Spec.escByte e with
              | none => rfl
              | some c => simp only; rw [ih r' (by omega)]
        · simp only [h92, ↓reduceIte]
          by_cases hlt : b < 32
          · simp only [hlt, ↓reduceIte]
          · simp only [hlt, ↓reduceIte]; rw [ih r (by omega)]

theorem valueStart_quote (m : Mode) (hm : m = .value ∨ m = .comma) : expected m 34 = .valQuote := by
  rcases hm with h | h <;> subst h <;> rfl

/-- **Strings as values.** -/
theorem exec_string (s0 : St) (hv : ValPos s0) (r : Bytes) :
    (∀ str rest, pCharsM r.length r = some (str, rest) →
      ∃ s', Added s0 (.str str) s' ∧ exec s0 (34 :: r) = exec s' rest) ∧
    (pCharsM r.length r = none → exec s0 (34 :: r) = none) := by
  have hact0 : refTables.act s0.mode 34 = .valQuote := valueStart_quote s0.mode hv.mode
  have hstep : step refTables cfg1 s0 34 =
      .ok ({ s0 with tmp := [], mode := .string, nextMode := .after, pos := s0.pos + 1, inFast := false } : St) := by
    unfold step stepAct
    simp only [hact0, ↓reduceIte]
  have hin : InStr ({ s0 with tmp := [], mode := .string, nextMode := .after, pos := s0.pos + 1, inFast := false } : St)
      ({ s0 with tmp := [], mode := .string, nextMode := .after, pos := s0.pos + 1, inFast := false } : St) [] :=
    ⟨rfl, rfl, rfl, rfl, rfl, rfl, rfl⟩
  obtain ⟨h1, h2⟩ := exec_chars (r.length + 1) _ _ [] r hin (by omega)
  rw [← pCharsM_fuel r.length r (Nat.le_refl _)] at h1 h2
  have hsh : Shape s0.starts s0.stack true := by
    have := hv.wf.shape; rw [needVal_of_valpos hv] at this; exact this
  refine ⟨fun str rest hp => ?_, fun hp => ?_⟩
  · obtain ⟨s2, hin2, hex⟩ := h1 str rest hp
    have hnext : s2.nextMode = .after := hin2.next
    obtain ⟨st', hadd, hadded⟩ := added_of_add s0 s2 (.str str) hv.wf hsh
      ⟨hin2.starts, hin2.stack, hin2.docs⟩ (Or.inr hnext) hin2.inFast
    have hd : (deliver refTables cfg1 { s2 with mode := .after, stack := st' }).inFast = false := by
      unfold deliver; split <;> simp [hin2.inFast]
    refine ⟨{ deliver refTables cfg1 { s2 with mode := .after, stack := st' } with
        pos := (deliver refTables cfg1 { s2 with mode := .after, stack := st' }).pos + 1, inFast := false }, ?_, ?_⟩
    · exact hadded.of_core rfl rfl rfl rfl rfl hd.symm
    · rw [exec_cons, hstep]
      simp only
      rw [hex, exec_cons]
      have hq : step refTables cfg1 s2 34 =
          .ok { deliver refTables cfg1 { s2 with mode := .after, stack := st' } with
            pos := (deliver refTables cfg1 { s2 with mode := .after, stack := st' }).pos + 1, inFast := false } := by
        have hact : refTables.act s2.mode 34 = .strQuote := by rw [hin2.mode]; rfl
        have hnm : refTables.act s2.nextMode 58 ≠ .colonColon := by rw [hnext]; decide
        have htmp : s2.tmp.reverse = str := by rw [hin2.tmp]; simp
        have hadd' : ({ s2 with mode := s2.nextMode } : St).add (.str s2.tmp.reverse) =
            .ok { s2 with mode := .after, stack := st' } := by
          rw [htmp]
          have e : ({ s2 with mode := s2.nextMode } : St) = { s2 with mode := .after } := by simp only [hnext]
          rw [e]; exact hadd
        unfold step stepAct
        simp only [hact, hnm, ↓reduceIte, hadd', bind, Except.bind, pure, Except.pure, Bool.false_eq_true]
      rw [hq]
  · rw [exec_cons, hstep]
    exact h2 hp


/-! ## Errors -/

theorem exec_charErr (s : St) (b : UInt8) (r : Bytes) (h : expected s.mode b = .charErr) :
    exec s (b :: r) = none := by
  have hact0 : refTables.act s.mode b = .charErr := h
  have : ∃ e, step refTables cfg1 s b = .error e := by
    unfold step stepAct
    simp only [hact0]
    exact ⟨_, rfl⟩
  obtain ⟨e, he⟩ := this
  rw [exec_cons, he]

theorem exec_closeArr_bad (s : St) (r : Bytes) (h : expected s.mode 93 = .closeArray)
    (hs : ∀ ss, s.starts ≠ true :: ss) : exec s (93 :: r) = none := by
  have hact0 : refTables.act s.mode 93 = .closeArray := h
  have : ∃ e, step refTables cfg1 s 93 = .error e := by
    unfold step stepAct
    simp only [hact0]
    cases hst : s.starts with
    | nil => exact ⟨_, rfl⟩
    | cons x ss =>
      cases x with
      | true => exact absurd hst (hs ss)
      | false => exact ⟨_, rfl⟩
  obtain ⟨e, he⟩ := this
  rw [exec_cons, he]

theorem exec_closeObj_bad (s : St) (r : Bytes) (h : expected s.mode 125 = .closeObject)
    (hs : (∀ ss, s.starts ≠ false :: ss) ∨ expectedFin s.mode = .v) : exec s (125 :: r) = none := by
  have hact0 : refTables.act s.mode 125 = .closeObject := h
  have : ∃ e, step refTables cfg1 s 125 = .error e := by
    unfold step stepAct
    simp only [hact0]
    cases hst : s.starts with
    | nil => exact ⟨_, rfl⟩
    | cons x ss =>
      cases x with
      | true => exact ⟨_, rfl⟩
      | false =>
        rcases hs with hs | hs
        · exact absurd hst (hs ss)
        · have : refTables.fin s.mode = .v := hs
          simp only [this, ↓reduceIte]
          exact ⟨_, rfl⟩
  obtain ⟨e, he⟩ := this
  rw [exec_cons, he]

theorem exec_nil_open (s : St) (h : s.starts ≠ []) : exec s [] = none := by
  obtain ⟨x, ss, hst⟩ := List.exists_cons_of_ne_nil h
  obtain ⟨e, he⟩ := finish_open s x ss hst
  unfold exec
  simp only [runBytes, he]

/-! ## Containers -/

/-- inside an array opened in value position `s0`, just behind an element; `acc` newest first -/
structure InArr (s0 s : St) (acc : List JV) : Prop where
  wf : WF s
  mode : s.mode = .after
  starts : s.starts = true :: s0.starts
  stack : s.stack = acc.map Item.val ++ .arrMark :: s0.stack
  docs : s.docs = s0.docs
  inFast : s.inFast = false

/-- inside an object opened in value position `s0`, just behind a member -/
structure InObj (s0 s : St) (kvs : List (Bytes × JV)) : Prop where
  wf : WF s
  mode : s.mode = .after
  starts : s.starts = false :: s0.starts
  stack : s.stack = .obj kvs :: s0.stack
  docs : s.docs = s0.docs
  inFast : s.inFast = false

theorem splitAtMark_vals (acc : List JV) (below : List Item) (out : List JV) :
    splitAtMark (acc.map Item.val ++ .arrMark :: below) out = some (acc.reverse ++ out, below) := by
  induction acc generalizing out with
  | nil => simp [splitAtMark]
  | cons v r ih =>
    simp only [List.map_cons, List.cons_append, splitAtMark, Item.toJV]
    rw [ih]; simp

theorem addItem_vals (v : JV) (acc : List JV) (below : List Item) :
    addItem v (acc.map Item.val ++ .arrMark :: below) = .ok (.val v :: (acc.map Item.val ++ .arrMark :: below)) := by
  cases acc with
  | nil => rfl
  | cons a r => rfl

theorem add_of_withMode {s1 : St} {m : Mode} {v : JV} {st' : List Item}
    (h : ({ s1 with mode := m } : St).add v = .ok { s1 with mode := m, stack := st' }) :
    s1.add v = .ok { s1 with stack := st' } := by
  unfold St.add at h ⊢
  simp only at h
  cases ha : addItem v s1.stack with
  | error w => rw [ha] at h; cases h
  | ok st =>
    rw [ha] at h
    simp only [Except.ok.injEq, St.mk.injEq] at h
    rw [h.2.2.2.1]

/-- **An array closes.** -/
theorem exec_closeArr (s0 s : St) (acc : List JV) (hv : ValPos s0) (hwf : WF s)
    (hm : s.mode = .after ∨ s.mode = .value) (hst : s.starts = true :: s0.starts)
    (hsk : s.stack = acc.map Item.val ++ .arrMark :: s0.stack) (hd : s.docs = s0.docs)
    (hinf : s.inFast = false) (rest : Bytes) :
    ∃ s', Added s0 (.arr acc.reverse) s' ∧ exec s (93 :: rest) = exec s' rest := by
  have hsh : Shape s0.starts s0.stack true := by
    have := hv.wf.shape; rw [needVal_of_valpos hv] at this; exact this
  obtain ⟨st', hadd, hadded⟩ := added_of_add s0 ({ s with starts := s0.starts, stack := s0.stack } : St)
    (.arr acc.reverse) hv.wf hsh ⟨rfl, rfl, hd⟩ hwf.ctl.next hinf
  have hadd1 := add_of_withMode hadd
  have hact0 : refTables.act s.mode 93 = .closeArray := by rcases hm with h | h <;> (rw [h]; rfl)
  have hfl : s.flushNum refTables = .ok s := by
    unfold St.flushNum
    have : refTables.fin s.mode ≠ .n := by rcases hm with h | h <;> (rw [h]; decide)
    simp [this]
  have hpop : s.popArr s0.starts = .ok ({ s with starts := s0.starts, stack := st' } : St) := by
    unfold St.popArr
    rw [hsk, splitAtMark_vals]
    simp only [List.append_nil]
    exact hadd1
  have hdi : (deliver refTables cfg1 ({ s with starts := s0.starts, stack := st', mode := .after } : St)).inFast = false := by
    unfold deliver; split <;> simp [hinf]
  refine ⟨{ deliver refTables cfg1 ({ s with starts := s0.starts, stack := st', mode := .after } : St) with
      pos := (deliver refTables cfg1 ({ s with starts := s0.starts, stack := st', mode := .after } : St)).pos + 1,
      inFast := false }, hadded.of_core rfl rfl rfl rfl rfl hdi.symm, ?_⟩
  rw [exec_cons]
  have : step refTables cfg1 s 93 = .ok { deliver refTables cfg1 ({ s with starts := s0.starts, stack := st', mode := .after } : St) with
      pos := (deliver refTables cfg1 ({ s with starts := s0.starts, stack := st', mode := .after } : St)).pos + 1,
      inFast := false } := by
    unfold step stepAct
    simp only [hact0, hst, hfl, hpop, bind, Except.bind, pure, Except.pure, Bool.false_eq_true, ↓reduceIte]
  rw [this]

/-- **An object closes.** -/
theorem exec_closeObj (s0 s : St) (kvs : List (Bytes × JV)) (hv : ValPos s0) (hwf : WF s)
    (hm : s.mode = .after ∨ s.mode = .key1) (hst : s.starts = false :: s0.starts)
    (hsk : s.stack = .obj kvs :: s0.stack) (hd : s.docs = s0.docs)
    (hinf : s.inFast = false) (rest : Bytes) :
    ∃ s', Added s0 (.obj kvs) s' ∧ exec s (125 :: rest) = exec s' rest := by
  have hsh : Shape s0.starts s0.stack true := by
    have := hv.wf.shape; rw [needVal_of_valpos hv] at this; exact this
  obtain ⟨st', hadd, hadded⟩ := added_of_add s0 ({ s with starts := s0.starts, stack := s0.stack } : St)
    (.obj kvs) hv.wf hsh ⟨rfl, rfl, hd⟩ hwf.ctl.next hinf
  have hadd1 := add_of_withMode hadd
  have hact0 : refTables.act s.mode 125 = .closeObject := by rcases hm with h | h <;> (rw [h]; rfl)
  have hfl : s.flushNum refTables = .ok s := by
    unfold St.flushNum
    have : refTables.fin s.mode ≠ .n := by rcases hm with h | h <;> (rw [h]; decide)
    simp [this]
  have hnv : refTables.fin s.mode ≠ .v := by rcases hm with h | h <;> (rw [h]; decide)
  have hpop : s.popObj s0.starts = .ok ({ s with starts := s0.starts, stack := st' } : St) := by
    unfold St.popObj
    rw [hsk]
    exact hadd1
  have hdi : (deliver refTables cfg1 ({ s with starts := s0.starts, stack := st', mode := .after } : St)).inFast = false := by
    unfold deliver; split <;> simp [hinf]
  refine ⟨{ deliver refTables cfg1 ({ s with starts := s0.starts, stack := st', mode := .after } : St) with
      pos := (deliver refTables cfg1 ({ s with starts := s0.starts, stack := st', mode := .after } : St)).pos + 1,
      inFast := false }, hadded.of_core rfl rfl rfl rfl rfl hdi.symm, ?_⟩
  rw [exec_cons]
  have : step refTables cfg1 s 125 = .ok { deliver refTables cfg1 ({ s with starts := s0.starts, stack := st', mode := .after } : St) with
      pos := (deliver refTables cfg1 ({ s with starts := s0.starts, stack := st', mode := .after } : St)).pos + 1,
      inFast := false } := by
    unfold step stepAct
    simp only [hact0, hst, hnv, hfl, hpop, bind, Except.bind, pure, Except.pure, Bool.false_eq_true, ↓reduceIte]
  rw [this]


/-! ## Opening brackets, commas, colons, keys -/

theorem step_openArr (s0 : St) (hv : ValPos s0) :
    step refTables cfg1 s0 91 = .ok ({ s0 with starts := true :: s0.starts, stack := .arrMark :: s0.stack, mode := .value, pos := s0.pos + 1, inFast := false } : St) := by
  have hact0 : refTables.act s0.mode 91 = .openArray := by rcases hv.mode with h | h <;> (rw [h]; rfl)
  unfold step stepAct
  simp only [hact0, ↓reduceIte]

theorem step_openObj (s0 : St) (hv : ValPos s0) :
    step refTables cfg1 s0 123 = .ok ({ s0 with starts := false :: s0.starts, mode := .key1, stack := .obj [] :: s0.stack, pos := s0.pos + 1, inFast := false } : St) := by
  have hact0 : refTables.act s0.mode 123 = .openObject := by rcases hv.mode with h | h <;> (rw [h]; rfl)
  unfold step stepAct
  simp only [hact0, ↓reduceIte]

theorem step_afterComma (s : St) (hm : s.mode = .after) :
    step refTables cfg1 s 44 = .ok ({ s with mode := afterCommaMode s, pos := s.pos + 1, inFast := false } : St) := by
  have hact0 : refTables.act s.mode 44 = .afterComma := by rw [hm]; rfl
  unfold step stepAct
  simp only [hact0, ↓reduceIte]

theorem step_colon (s : St) (hm : s.mode = .colon) :
    step refTables cfg1 s 58 = .ok ({ s with mode := .value, pos := s.pos + 1, inFast := false } : St) := by
  have hact0 : refTables.act s.mode 58 = .colonColon := by rw [hm]; rfl
  unfold step stepAct
  simp only [hact0, ↓reduceIte]

/-- where a member key may start, inside the object with members `kvs` opened at `s0` -/
structure KeyPos (s0 s : St) (kvs : List (Bytes × JV)) : Prop where
  wf : WF s
  mode : s.mode = .key1 ∨ s.mode = .key
  starts : s.starts = false :: s0.starts
  stack : s.stack = .obj kvs :: s0.stack
  docs : s.docs = s0.docs
  inFast : s.inFast = false

/-- behind a member key `k`, before the colon -/
structure ColonPos (s0 s : St) (k : Bytes) (kvs : List (Bytes × JV)) : Prop where
  wf : WF s
  mode : s.mode = .colon
  starts : s.starts = false :: s0.starts
  stack : s.stack = .key k :: .obj kvs :: s0.stack
  docs : s.docs = s0.docs
  inFast : s.inFast = false

theorem wf_colon (s s0 : St) (k : Bytes) (kvs : List (Bytes × JV)) (hm : s.mode = .colon)
    (hn : s.nextMode = .colon) (hst : s.starts = false :: s0.starts)
    (hsk : s.stack = .key k :: .obj kvs :: s0.stack) (hsh0 : Shape s0.starts s0.stack true) : WF s := by
  refine ⟨⟨?_, ?_, Or.inl hn⟩, fun _ => ⟨s0.starts, hst⟩, ?_, ?_⟩
  · intro h; rw [hm] at h; cases h
  · intro h; rw [hm] at h; cases h
  · intro h; rw [hm] at h; cases h
  · rw [hst, hsk, hm, hn]
    simp only [Shape, needVal, ↓reduceIte]
    exact ⟨k, kvs, s0.stack, rfl, hsh0⟩

theorem pCharsM_length (f : Nat) : ∀ (bs str rest : Bytes), pCharsM f bs = some (str, rest) → rest.length < bs.length := by
  induction f with
  | zero => intro bs str rest h; cases h
  | succ f ih =>
    intro bs str rest h
    cases bs with
    | nil => cases h
    | cons b r =>
      rw [pCharsM_succ_cons] at h
      simp only [List.length_cons]
      by_cases h34 : b = 34
      · simp only [h34, ↓reduceIte, Option.some.injEq, Prod.mk.injEq] at h
        rw [← h.2]; omega
      · simp only [h34, ↓reduceIte] at h
        by_cases h92 : b = 92
        · simp only [h92, ↓reduceIte] at h
          cases r with
          | nil => cases h
          | cons e r' =>
            simp only at h
            simp only [List.length_cons]
            by_cases h117 : e = 117
            · simp only [h117, ↓reduceIte] at h
              cases hh : Spec.hex4 r' with
              | none => rw [hh] at h; cases h
              | some p =>
                obtain ⟨u, r''⟩ := p
                rw [hh] at h
                simp only at h
                have hl := hex4_length r' u r'' hh
                cases hp : pCharsM f r'' with
                | none => rw [hp] at h; cases h
                | some q =>
                  rw [hp] at h
                  simp only [Option.map_some, Option.some.injEq, Prod.mk.injEq] at h
                  have := ih r'' q.1 q.2 hp
                  rw [← h.2]; omega
            · simp only [h117, ↓reduceIte] at h
              cases hc : Spec.escByte e with
              | none => rw [hc] at h; cases h
              | some c =>
                rw [hc] at h
                simp only at h
                cases hp : pCharsM f r' with
                | none => rw [hp] at h; cases h
                | some q =>
                  rw [hp] at h
                  simp only [Option.map_some, Option.some.injEq, Prod.mk.injEq] at h
                  have := ih r' q.1 q.2 hp
                  rw [← h.2]; omega
        · simp only [h92, ↓reduceIte] at h
          by_cases hlt : b < 32
          · simp only [hlt, ↓reduceIte] at h; cases h
          · simp only [hlt, ↓reduceIte] at h
            cases hp : pCharsM f r with
            | none => rw [hp] at h; cases h
            | some q =>
              rw [hp] at h
              simp only [Option.map_some, Option.some.injEq, Prod.mk.injEq] at h
              have := ih r q.1 q.2 hp
              rw [← h.2]; omega

/-- **Strings as member keys.** -/
theorem exec_key (s0 s : St) (kvs : List (Bytes × JV)) (hsh0 : Shape s0.starts s0.stack true)
    (hk : KeyPos s0 s kvs) (r : Bytes) :
    (∀ k r1, pCharsM r.length r = some (k, r1) →
      ∃ s', ColonPos s0 s' k kvs ∧ exec s (34 :: r) = exec s' r1) ∧
    (pCharsM r.length r = none → exec s (34 :: r) = none) := by
  have hact0 : refTables.act s.mode 34 = .keyQuote := by rcases hk.mode with h | h <;> (rw [h]; rfl)
  have hstep : step refTables cfg1 s 34 =
      .ok ({ s with tmp := [], mode := .string, nextMode := .colon, pos := s.pos + 1, inFast := false } : St) := by
    unfold step stepAct
    simp only [hact0, ↓reduceIte]
  have hin : InStr ({ s with tmp := [], mode := .string, nextMode := .colon, pos := s.pos + 1, inFast := false } : St)
      ({ s with tmp := [], mode := .string, nextMode := .colon, pos := s.pos + 1, inFast := false } : St) [] :=
    ⟨rfl, rfl, rfl, rfl, rfl, rfl, rfl⟩
  obtain ⟨h1, h2⟩ := exec_chars (r.length + 1) _ _ [] r hin (by omega)
  rw [← pCharsM_fuel r.length r (Nat.le_refl _)] at h1 h2
  refine ⟨fun k r1 hp => ?_, fun hp => ?_⟩
  · obtain ⟨s2, hin2, hex⟩ := h1 k r1 hp
    have hnext : s2.nextMode = .colon := hin2.next
    have hst2 : s2.starts = s.starts := hin2.starts
    have hsk2 : s2.stack = s.stack := hin2.stack
    have hd2 : s2.docs = s.docs := hin2.docs
    have htmp : s2.tmp.reverse = k := by rw [hin2.tmp]; simp
    refine ⟨({ s2 with mode := .colon, stack := .key k :: s2.stack, pos := s2.pos + 1, inFast := false } : St), ?_, ?_⟩
    · refine ⟨?_, rfl, by simp only [hst2, hk.starts], by simp only [hsk2, hk.stack], by simp only [hd2, hk.docs], rfl⟩
      exact wf_colon _ s0 k kvs rfl hnext (by simp only [hst2, hk.starts]) (by simp only [hsk2, hk.stack]) hsh0
    · rw [exec_cons, hstep]
      simp only
      rw [hex, exec_cons]
      have hq : step refTables cfg1 s2 34 =
          .ok ({ s2 with mode := .colon, stack := .key k :: s2.stack, pos := s2.pos + 1, inFast := false } : St) := by
        have hact : refTables.act s2.mode 34 = .strQuote := by rw [hin2.mode]; rfl
        have hnm : refTables.act s2.nextMode 58 = .colonColon := by rw [hnext]; rfl
        unfold step stepAct
        simp only [hact, hnm, ↓reduceIte, Bool.false_eq_true, htmp]
        rw [deliver_id _ (by simp only [hnext]; decide)]
        simp only [hnext]
      rw [hq]
  · rw [exec_cons, hstep]
    exact h2 hp


/-! ## The value lemma and its loops -/

/-- side conditions on the input at a value position: the specification calls its value reader only
behind skipped whitespace, and never on the `]` of an empty array -/
structure HeadOK (s0 : St) (bs : Bytes) : Prop where
  nil : bs = [] → s0.starts ≠ []
  ws : ∀ b r, bs = b :: r → Spec.isWs b = false
  close : ∀ r, bs = 93 :: r → ¬ (s0.mode = .value ∧ ∃ ss, s0.starts = true :: ss)

/-- the value lemma for a value reader `pv`, complete on inputs of at most `n` bytes -/
def ValueOK (pv : Bytes → Option (JV × Bytes)) (n : Nat) : Prop :=
  ∀ (s0 : St) (bs : Bytes), ValPos s0 → s0.inFast = false → HeadOK s0 bs →
    (∀ v rest, pv bs = some (v, rest) →
      rest.length < bs.length ∧ ∃ s', Added s0 v s' ∧ exec s0 bs = exec s' rest) ∧
    (pv bs = none → bs.length ≤ n → exec s0 bs = none)

theorem added_in_arr {s0 sIn s' : St} {acc : List JV} {v : JV} (hst : sIn.starts = true :: s0.starts)
    (hsk : sIn.stack = acc.map Item.val ++ .arrMark :: s0.stack) (hd : sIn.docs = s0.docs)
    (h : Added sIn v s') : InArr s0 s' (v :: acc) := by
  obtain ⟨hw, hs, hc, hi⟩ := h
  rw [hst] at hc
  simp only at hc
  obtain ⟨hm, hdoc, hadd⟩ := hc
  rw [hsk, addItem_vals] at hadd
  simp only [Except.ok.injEq] at hadd
  exact ⟨hw, hm, hs.trans hst, by rw [← hadd]; rfl, hdoc.trans hd, hi⟩

theorem added_in_obj {s0 sIn s' : St} {k : Bytes} {kvs : List (Bytes × JV)} {v : JV}
    (hst : sIn.starts = false :: s0.starts)
    (hsk : sIn.stack = .key k :: .obj kvs :: s0.stack) (hd : sIn.docs = s0.docs)
    (h : Added sIn v s') : InObj s0 s' (kvInsert k v kvs) := by
  obtain ⟨hw, hs, hc, hi⟩ := h
  rw [hst] at hc
  simp only at hc
  obtain ⟨hm, hdoc, hadd⟩ := hc
  rw [hsk] at hadd
  simp only [addItem, Except.ok.injEq] at hadd
  exact ⟨hw, hm, hs.trans hst, hadd.symm, hdoc.trans hd, hi⟩

theorem after_other (c : UInt8) (hws : Spec.isWs c = false) (h44 : c ≠ 44) (h93 : c ≠ 93) (h125 : c ≠ 125) :
    expected .after c = .charErr := by
  have := forall_mode_byte (fun m b => !(m == .after) || Spec.isWs b || b == 44 || b == 93 || b == 125 ||
      (expected m b == .charErr)) (by decide +kernel) .after c
  simpa [hws, h44, h93, h125] using this

theorem key_other (m : Mode) (c : UInt8) (hm : m = .key1 ∨ m = .key) (hws : Spec.isWs c = false) (h34 : c ≠ 34)
    (h125 : m = .key1 → c ≠ 125) : expected m c = .charErr := by
  have := forall_mode_byte (fun m b => !(m == .key1 || m == .key) || Spec.isWs b || b == 34 ||
      (m == .key1 && b == 125) || (expected m b == .charErr)) (by decide +kernel) m c
  rcases hm with h | h <;> subst h
  · simpa [hws, h34, h125 rfl] using this
  · simpa [hws, h34] using this

theorem colon_other (c : UInt8) (hws : Spec.isWs c = false) (h58 : c ≠ 58) : expected .colon c = .charErr := by
  have := forall_mode_byte (fun m b => !(m == .colon) || Spec.isWs b || b == 58 ||
      (expected m b == .charErr)) (by decide +kernel) .colon c
  simpa [hws, h58] using this

theorem value_other (m : Mode) (c : UInt8) (hm : m = .value ∨ m = .comma) (hws : Spec.isWs c = false)
    (h1 : c ≠ 110) (h2 : c ≠ 116) (h3 : c ≠ 102) (h4 : c ≠ 34) (h5 : (c = 45 || Spec.isDigit c) = false)
    (h6 : c ≠ 91) (h7 : c ≠ 123) :
    expected m c = .charErr ∨ (m = .value ∧ (c = 93 ∨ c = 125)) := by
  have := forall_mode_byte (fun m b => !(m == .value || m == .comma) || Spec.isWs b || b == 110 || b == 116 ||
      b == 102 || b == 34 || (b == 45 || Spec.isDigit b) || b == 91 || b == 123 ||
      (expected m b == .charErr) || (m == .value && (b == 93 || b == 125))) (by decide +kernel) m c
  simp only [Bool.or_eq_false_iff, decide_eq_false_iff_not] at h5
  rcases hm with h | h <;> subst h
  · simp [hws, h1, h2, h3, h4, h5.1, h5.2, h6, h7] at this
    rcases this with h | h | h
    · exact Or.inl h
    · exact Or.inr ⟨rfl, Or.inl h⟩
    · exact Or.inr ⟨rfl, Or.inr h⟩
  · simp [hws, h1, h2, h3, h4, h5.1, h5.2, h6, h7] at this
    exact Or.inl this

/-- **Array elements.** From behind an element, the machine follows `Spec.pElems`. -/
theorem exec_elems (pv : Bytes → Option (JV × Bytes)) (n : Nat) (hpv : ValueOK pv n) (s0 : St) (hv : ValPos s0) :
    ∀ (k : Nat) (s : St) (acc : List JV) (bs : Bytes), InArr s0 s acc →
      (∀ v rest, Spec.pElems pv k bs acc = some (v, rest) →
        rest.length < bs.length ∧ ∃ s', Added s0 v s' ∧ exec s bs = exec s' rest) ∧
      (Spec.pElems pv k bs acc = none → bs.length < k → bs.length ≤ n → exec s bs = none) := by
  intro k
  induction k with
  | zero => intro s acc bs _; exact ⟨(fun _ _ h => nomatch h), fun _ h => absurd h (Nat.not_lt_zero _)⟩
  | succ k ih =>
    intro s acc bs hin
    obtain ⟨s1, hc1, he1⟩ := exec_ws bs s (by rw [hin.mode]; rfl)
    have hlen := skipWs_length bs
    have hm1 : s1.mode = .after := hc1.mode.trans hin.mode
    have hst1 : s1.starts = true :: s0.starts := hc1.starts.trans hin.starts
    simp only [Spec.pElems]
    cases hsk : Spec.skipWs bs with
    | nil =>
      simp only
      refine ⟨(fun _ _ h => nomatch h), fun _ _ _ => ?_⟩
      rw [he1, hsk]
      exact exec_nil_open s1 (by rw [hst1]; simp)
    | cons c r =>
      rw [hsk] at he1 hlen
      simp only [List.length_cons] at hlen
      simp only
      by_cases h93 : c = 93
      · subst h93
        simp only [↓reduceIte]
        refine ⟨fun v rest h => ?_, (fun h => nomatch h)⟩
        simp only [Option.some.injEq, Prod.mk.injEq] at h
        obtain ⟨rfl, rfl⟩ := h
        obtain ⟨s', hadd, hex⟩ := exec_closeArr s0 s1 acc hv (hc1.wf hin.wf) (Or.inl hm1) hst1
          (hc1.stack.trans hin.stack) (hc1.docs.trans hin.docs) (hc1.inFast hin.inFast) r
        exact ⟨by omega, s', hadd, by rw [he1, hex]⟩
      · simp only [h93, ↓reduceIte]
        by_cases h44 : c = 44
        · subst h44
          simp only [↓reduceIte]
          have hstep := step_afterComma s1 hm1
          have hacm : afterCommaMode s1 = .comma := by unfold afterCommaMode; rw [hst1]
          rw [hacm] at hstep
          have hwf2 : WF ({ s1 with mode := .comma, pos := s1.pos + 1, inFast := false } : St) :=
            (step_wf cfg1 s1 44 (hc1.wf hin.wf)).2 _ hstep
          obtain ⟨s3, hc3, he3⟩ := exec_ws r ({ s1 with mode := .comma, pos := s1.pos + 1, inFast := false } : St) rfl
          have hv3 : ValPos s3 := ⟨hc3.wf hwf2, Or.inr hc3.mode⟩
          have hl3 := skipWs_length r
          have hst3 : s3.starts = true :: s0.starts := hc3.starts.trans hst1
          have hhead : HeadOK s3 (Spec.skipWs r) :=
            ⟨fun _ => by rw [hst3]; simp, fun b t h => skipWs_head r b t h,
             fun t _ h => by have := h.1; rw [hc3.mode] at this; cases this⟩
          obtain ⟨hp1, hp2⟩ := hpv s3 (Spec.skipWs r) hv3 (hc3.inFast rfl) hhead
          have hchain : exec s bs = exec s3 (Spec.skipWs r) := by rw [he1, exec_cons, hstep]; exact he3
          cases hpvr : pv (Spec.skipWs r) with
          | none =>
            simp only
            refine ⟨(fun _ _ h => nomatch h), fun _ hk hn => ?_⟩
            rw [hchain]; exact hp2 hpvr (by omega)
          | some p =>
            obtain ⟨v, rest⟩ := p
            simp only
            obtain ⟨hlr, s4, hadd4, hex4⟩ := hp1 v rest hpvr
            have hin4 : InArr s0 s4 (v :: acc) :=
              added_in_arr hst3 (hc3.stack.trans (hc1.stack.trans hin.stack)) (hc3.docs.trans (hc1.docs.trans hin.docs)) hadd4
            obtain ⟨i1, i2⟩ := ih s4 (v :: acc) rest hin4
            refine ⟨fun w rest' h => ?_, fun h hk hn => ?_⟩
            · obtain ⟨hl', s', hadd', hex'⟩ := i1 w rest' h
              exact ⟨by omega, s', hadd', by rw [hchain, hex4, hex']⟩
            · rw [hchain, hex4]; exact i2 h (by omega) (by omega)
        · simp only [h44, ↓reduceIte]
          refine ⟨(fun _ _ h => nomatch h), fun _ _ _ => ?_⟩
          rw [he1]
          by_cases h125 : c = 125
          · subst h125
            exact exec_closeObj_bad s1 r (by rw [hm1]; rfl) (Or.inl (fun ss h => by rw [hst1] at h; cases h))
          · exact exec_charErr s1 c r (by rw [hm1]; exact after_other c (skipWs_head bs c r hsk) h44 h93 h125)

/-- **One member.** From a key position, the machine follows `pMemberG`. -/
theorem exec_member (pv : Bytes → Option (JV × Bytes)) (n : Nat) (hpv : ValueOK pv n) (s0 : St) (hv : ValPos s0)
    (s : St) (kvs : List (Bytes × JV)) (hk : KeyPos s0 s kvs) (bs : Bytes)
    (hws : ∀ b r, bs = b :: r → Spec.isWs b = false) (h125 : ∀ r, bs = 125 :: r → s.mode ≠ .key1) :
    (∀ k v rest, pMemberG pCharsM pv bs = some ((k, v), rest) →
      rest.length < bs.length ∧ ∃ s', InObj s0 s' (kvInsert k v kvs) ∧ exec s bs = exec s' rest) ∧
    (pMemberG pCharsM pv bs = none → bs.length ≤ n → exec s bs = none) := by
  have hsh0 : Shape s0.starts s0.stack true := by
    have := hv.wf.shape; rw [needVal_of_valpos hv] at this; exact this
  cases bs with
  | nil =>
    simp only [pMemberG]
    exact ⟨(fun _ _ _ h => nomatch h), fun _ _ => exec_nil_open s (by rw [hk.starts]; simp)⟩
  | cons q r =>
    simp only [pMemberG]
    by_cases h34 : q = 34
    · subst h34
      simp only [↓reduceIte]
      obtain ⟨k1, k2⟩ := exec_key s0 s kvs hsh0 hk r
      cases hpc : pCharsM r.length r with
      | none =>
        simp only
        exact ⟨(fun _ _ _ h => nomatch h), fun _ _ => k2 hpc⟩
      | some p =>
        obtain ⟨key, r1⟩ := p
        simp only
        have hl1 := pCharsM_length r.length r key r1 hpc
        obtain ⟨s1, hcp, hex1⟩ := k1 key r1 hpc
        obtain ⟨s2, hc2, he2⟩ := exec_ws r1 s1 (by rw [hcp.mode]; rfl)
        have hl2 := skipWs_length r1
        have hm2 : s2.mode = .colon := hc2.mode.trans hcp.mode
        have hst2 : s2.starts = false :: s0.starts := hc2.starts.trans hcp.starts
        cases hsk : Spec.skipWs r1 with
        | nil =>
          simp only
          refine ⟨(fun _ _ _ h => nomatch h), fun _ _ => ?_⟩
          rw [hex1, he2, hsk]
          exact exec_nil_open s2 (by rw [hst2]; simp)
        | cons c r2 =>
          rw [hsk] at he2 hl2
          simp only [List.length_cons] at hl2
          simp only
          by_cases h58 : c = 58
          · subst h58
            simp only [↓reduceIte]
            have hstep := step_colon s2 hm2
            have hwf3 : WF ({ s2 with mode := .value, pos := s2.pos + 1, inFast := false } : St) :=
              (step_wf cfg1 s2 58 (hc2.wf hcp.wf)).2 _ hstep
            obtain ⟨s4, hc4, he4⟩ := exec_ws r2 ({ s2 with mode := .value, pos := s2.pos + 1, inFast := false } : St) rfl
            have hv4 : ValPos s4 := ⟨hc4.wf hwf3, Or.inl hc4.mode⟩
            have hl4 := skipWs_length r2
            have hst4 : s4.starts = false :: s0.starts := hc4.starts.trans hst2
            have hhead : HeadOK s4 (Spec.skipWs r2) :=
              ⟨fun _ => by rw [hst4]; simp, fun b t h => skipWs_head r2 b t h,
               fun t _ h => by obtain ⟨_, ss, hss⟩ := h; rw [hst4] at hss; cases hss⟩
            obtain ⟨hp1, hp2⟩ := hpv s4 (Spec.skipWs r2) hv4 (hc4.inFast rfl) hhead
            have hchain : exec s (34 :: r) = exec s4 (Spec.skipWs r2) := by
              rw [hex1, he2, exec_cons, hstep]; exact he4
            cases hpvr : pv (Spec.skipWs r2) with
            | none =>
              simp only
              refine ⟨(fun _ _ _ h => nomatch h), fun _ hn => ?_⟩
              rw [hchain]
              simp only [List.length_cons] at hn
              exact hp2 hpvr (by omega)
            | some p =>
              obtain ⟨v, rest⟩ := p
              simp only
              obtain ⟨hlr, s5, hadd5, hex5⟩ := hp1 v rest hpvr
              refine ⟨fun k' v' rest' h => ?_, (fun h => nomatch h)⟩
              simp only [Option.some.injEq, Prod.mk.injEq] at h
              obtain ⟨⟨rfl, rfl⟩, rfl⟩ := h
              have hin5 : InObj s0 s5 (kvInsert key v kvs) :=
                added_in_obj hst4 (hc4.stack.trans (hc2.stack.trans hcp.stack))
                  (hc4.docs.trans (hc2.docs.trans hcp.docs)) hadd5
              refine ⟨by simp only [List.length_cons]; omega, s5, hin5, by rw [hchain, hex5]⟩
          · simp only [h58, ↓reduceIte]
            refine ⟨(fun _ _ _ h => nomatch h), fun _ _ => ?_⟩
            rw [hex1, he2]
            exact exec_charErr s2 c r2 (by rw [hm2]; exact colon_other c (skipWs_head r1 c r2 hsk) h58)
    · simp only [h34, ↓reduceIte]
      refine ⟨(fun _ _ _ h => nomatch h), fun _ _ => ?_⟩
      apply exec_charErr
      apply key_other s.mode q hk.mode (hws q r rfl) h34
      intro hm hq
      exact h125 r (by rw [hq]) hm

/-- **Object members.** From behind a member, the machine follows `pMembersG`. -/
theorem exec_members (pv : Bytes → Option (JV × Bytes)) (n : Nat) (hpv : ValueOK pv n) (s0 : St) (hv : ValPos s0) :
    ∀ (k : Nat) (s : St) (kvs : List (Bytes × JV)) (bs : Bytes), InObj s0 s kvs →
      (∀ v rest, pMembersG (pMemberG pCharsM pv) k bs kvs = some (v, rest) →
        rest.length < bs.length ∧ ∃ s', Added s0 v s' ∧ exec s bs = exec s' rest) ∧
      (pMembersG (pMemberG pCharsM pv) k bs kvs = none → bs.length < k → bs.length ≤ n → exec s bs = none) := by
  intro k
  induction k with
  | zero => intro s kvs bs _; exact ⟨(fun _ _ h => nomatch h), fun _ h => absurd h (Nat.not_lt_zero _)⟩
  | succ k ih =>
    intro s kvs bs hin
    obtain ⟨s1, hc1, he1⟩ := exec_ws bs s (by rw [hin.mode]; rfl)
    have hlen := skipWs_length bs
    have hm1 : s1.mode = .after := hc1.mode.trans hin.mode
    have hst1 : s1.starts = false :: s0.starts := hc1.starts.trans hin.starts
    simp only [pMembersG]
    cases hsk : Spec.skipWs bs with
    | nil =>
      simp only
      refine ⟨(fun _ _ h => nomatch h), fun _ _ _ => ?_⟩
      rw [he1, hsk]
      exact exec_nil_open s1 (by rw [hst1]; simp)
    | cons c r =>
      rw [hsk] at he1 hlen
      simp only [List.length_cons] at hlen
      simp only
      by_cases h125 : c = 125
      · subst h125
        simp only [↓reduceIte]
        refine ⟨fun v rest h => ?_, (fun h => nomatch h)⟩
        simp only [Option.some.injEq, Prod.mk.injEq] at h
        obtain ⟨rfl, rfl⟩ := h
        obtain ⟨s', hadd, hex⟩ := exec_closeObj s0 s1 kvs hv (hc1.wf hin.wf) (Or.inl hm1) hst1
          (hc1.stack.trans hin.stack) (hc1.docs.trans hin.docs) (hc1.inFast hin.inFast) r
        exact ⟨by omega, s', hadd, by rw [he1, hex]⟩
      · simp only [h125, ↓reduceIte]
        by_cases h44 : c = 44
        · subst h44
          simp only [↓reduceIte]
          have hstep := step_afterComma s1 hm1
          have hacm : afterCommaMode s1 = .key := by unfold afterCommaMode; rw [hst1]
          rw [hacm] at hstep
          have hwf2 : WF ({ s1 with mode := .key, pos := s1.pos + 1, inFast := false } : St) :=
            (step_wf cfg1 s1 44 (hc1.wf hin.wf)).2 _ hstep
          obtain ⟨s3, hc3, he3⟩ := exec_ws r ({ s1 with mode := .key, pos := s1.pos + 1, inFast := false } : St) rfl
          have hl3 := skipWs_length r
          have hk3 : KeyPos s0 s3 kvs :=
            ⟨hc3.wf hwf2, Or.inr hc3.mode, hc3.starts.trans hst1, hc3.stack.trans (hc1.stack.trans hin.stack),
             hc3.docs.trans (hc1.docs.trans hin.docs), hc3.inFast rfl⟩
          obtain ⟨hp1, hp2⟩ := exec_member pv n hpv s0 hv s3 kvs hk3 (Spec.skipWs r)
            (fun b t h => skipWs_head r b t h) (fun t _ h => by rw [hc3.mode] at h; cases h)
          have hchain : exec s bs = exec s3 (Spec.skipWs r) := by rw [he1, exec_cons, hstep]; exact he3
          cases hpm : pMemberG pCharsM pv (Spec.skipWs r) with
          | none =>
            simp only
            refine ⟨(fun _ _ h => nomatch h), fun _ hk hn => ?_⟩
            rw [hchain]; exact hp2 hpm (by omega)
          | some p =>
            obtain ⟨⟨key, v⟩, rest⟩ := p
            simp only
            obtain ⟨hlr, s4, hin4, hex4⟩ := hp1 key v rest hpm
            obtain ⟨i1, i2⟩ := ih s4 (kvInsert key v kvs) rest hin4
            refine ⟨fun w rest' h => ?_, fun h hk hn => ?_⟩
            · obtain ⟨hl', s', hadd', hex'⟩ := i1 w rest' h
              exact ⟨by omega, s', hadd', by rw [hchain, hex4, hex']⟩
            · rw [hchain, hex4]; exact i2 h (by omega) (by omega)
        · simp only [h44, ↓reduceIte]
          refine ⟨(fun _ _ h => nomatch h), fun _ _ _ => ?_⟩
          rw [he1]
          by_cases h93 : c = 93
          · subst h93
            exact exec_closeArr_bad s1 r (by rw [hm1]; rfl) (fun ss h => by rw [hst1] at h; cases h)
          · exact exec_charErr s1 c r (by rw [hm1]; exact after_other c (skipWs_head bs c r hsk) h44 h93 h125)


/-- the machine-level value reader: the specification's grammar over the machine's leaf readers -/
abbrev pValueM : Nat → Bytes → Option (JV × Bytes) := pValueG pCharsM numConv

/-- **Values.** From any value position the machine follows the grammar: it consumes exactly one
value and stands behind it with the value added, or rejects the input. -/
theorem valueOK_all : ∀ f : Nat, ValueOK (pValueM f) f := by
  intro f
  induction f with
  | zero =>
    intro s0 bs hv hinf hh
    refine ⟨(fun _ _ h => nomatch h), fun _ hl => ?_⟩
    have : bs = [] := List.eq_nil_of_length_eq_zero (by omega)
    subst this
    exact exec_nil_open s0 (hh.nil rfl)
  | succ f ih =>
    intro s0 bs hv hinf hh
    cases bs with
    | nil =>
      exact ⟨(fun _ _ h => nomatch h), fun _ _ => exec_nil_open s0 (hh.nil rfl)⟩
    | cons b r =>
      have hws : Spec.isWs b = false := hh.ws b r rfl
      simp only [pValueM, pValueG]
      by_cases h1 : b = 110
      · subst h1
        simp only [↓reduceIte]
        obtain ⟨l1, l2⟩ := exec_literal s0 hv 110 .null [110, 117, 108, 108] .null r (Or.inl ⟨rfl, rfl, rfl, rfl⟩)
        simp only [List.tail_cons] at l1 l2
        cases hsw : Spec.startsWith r [117, 108, 108] with
        | none => exact ⟨(fun _ _ h => nomatch h), fun _ _ => l2 hsw⟩
        | some rest =>
          refine ⟨fun v rest' h => ?_, (fun h => nomatch h)⟩
          simp only [Option.map_some, Option.some.injEq, Prod.mk.injEq] at h
          obtain ⟨rfl, rfl⟩ := h
          have := (startsWith_some r _ rest).mp hsw
          exact ⟨by rw [this]; simp only [List.cons_append, List.nil_append, List.length_cons]; omega, l1 rest hsw⟩
      · simp only [h1, ↓reduceIte]
        by_cases h2 : b = 116
        · subst h2
          simp only [↓reduceIte]
          obtain ⟨l1, l2⟩ := exec_literal s0 hv 116 .true_ [116, 114, 117, 101] (.bool true) r
            (Or.inr (Or.inl ⟨rfl, rfl, rfl, rfl⟩))
          simp only [List.tail_cons] at l1 l2
          cases hsw : Spec.startsWith r [114, 117, 101] with
          | none => exact ⟨(fun _ _ h => nomatch h), fun _ _ => l2 hsw⟩
          | some rest =>
            refine ⟨fun v rest' h => ?_, (fun h => nomatch h)⟩
            simp only [Option.map_some, Option.some.injEq, Prod.mk.injEq] at h
            obtain ⟨rfl, rfl⟩ := h
            have := (startsWith_some r _ rest).mp hsw
            exact ⟨by rw [this]; simp only [List.cons_append, List.nil_append, List.length_cons]; omega, l1 rest hsw⟩
        · simp only [h2, ↓reduceIte]
          by_cases h3 : b = 102
          · subst h3
            simp only [↓reduceIte]
            obtain ⟨l1, l2⟩ := exec_literal s0 hv 102 .false_ [102, 97, 108, 115, 101] (.bool false) r
              (Or.inr (Or.inr ⟨rfl, rfl, rfl, rfl⟩))
            simp only [List.tail_cons] at l1 l2
            cases hsw : Spec.startsWith r [97, 108, 115, 101] with
            | none => exact ⟨(fun _ _ h => nomatch h), fun _ _ => l2 hsw⟩
            | some rest =>
              refine ⟨fun v rest' h => ?_, (fun h => nomatch h)⟩
              simp only [Option.map_some, Option.some.injEq, Prod.mk.injEq] at h
              obtain ⟨rfl, rfl⟩ := h
              have := (startsWith_some r _ rest).mp hsw
              exact ⟨by rw [this]; simp only [List.cons_append, List.nil_append, List.length_cons]; omega, l1 rest hsw⟩
          · simp only [h3, ↓reduceIte]
            by_cases h4 : b = 34
            · subst h4
              simp only [↓reduceIte]
              obtain ⟨l1, l2⟩ := exec_string s0 hv r
              cases hpc : pCharsM r.length r with
              | none => exact ⟨(fun _ _ h => nomatch h), fun _ _ => l2 hpc⟩
              | some p =>
                obtain ⟨str, rest⟩ := p
                refine ⟨fun v rest' h => ?_, (fun h => nomatch h)⟩
                simp only [Option.map_some, Option.some.injEq, Prod.mk.injEq] at h
                obtain ⟨rfl, rfl⟩ := h
                have := pCharsM_length r.length r str rest hpc
                exact ⟨by simp only [List.length_cons]; omega, l1 str rest hpc⟩
            · simp only [h4, ↓reduceIte]
              by_cases h5 : (b = 45 || Spec.isDigit b) = true
              · simp only [h5, ↓reduceIte]
                have hb : b = 45 ∨ Spec.isDigit b = true := by simpa using h5
                obtain ⟨l1, l2⟩ := exec_number_conv s0 hv hinf b r hb
                cases hpn : Spec.pNumber (b :: r) with
                | none => exact ⟨(fun _ _ h => nomatch h), fun _ _ => l2 hpn⟩
                | some p =>
                  obtain ⟨lit, rest⟩ := p
                  refine ⟨fun v rest' h => ?_, (fun h => nomatch h)⟩
                  simp only [Option.map_some, Option.some.injEq, Prod.mk.injEq] at h
                  obtain ⟨rfl, rfl⟩ := h
                  exact l1 lit rest hpn
              · have h5' : (b = 45 || Spec.isDigit b) = false := by simpa using h5
                simp only [h5', Bool.false_eq_true, ↓reduceIte]
                by_cases h6 : b = 91
                · -- array
                  subst h6
                  simp only [↓reduceIte]
                  have hstep := step_openArr s0 hv
                  have hwf1 := (step_wf cfg1 s0 91 hv.wf).2 _ hstep
                  obtain ⟨s2, hc2, he2⟩ := exec_ws r _ (by rfl : wsMode ({ s0 with starts := true :: s0.starts, stack := .arrMark :: s0.stack, mode := .value, pos := s0.pos + 1, inFast := false } : St).mode = true)
                  have hl2 := skipWs_length r
                  have hst2 : s2.starts = true :: s0.starts := hc2.starts
                  have hsk2 : s2.stack = ([] : List JV).map Item.val ++ .arrMark :: s0.stack := hc2.stack
                  have hd2 : s2.docs = s0.docs := hc2.docs
                  have hm2 : s2.mode = .value := hc2.mode
                  have hchain : exec s0 (91 :: r) = exec s2 (Spec.skipWs r) := by rw [exec_cons, hstep]; exact he2
                  cases hsk : Spec.skipWs r with
                  | nil =>
                    simp only
                    refine ⟨(fun _ _ h => nomatch h), fun _ _ => ?_⟩
                    rw [hchain, hsk]
                    exact exec_nil_open s2 (by rw [hst2]; simp)
                  | cons c r' =>
                    rw [hsk] at hchain hl2
                    simp only [List.length_cons] at hl2
                    simp only
                    by_cases h93 : c = 93
                    · subst h93
                      simp only [↓reduceIte]
                      refine ⟨fun v rest h => ?_, (fun h => nomatch h)⟩
                      simp only [Option.some.injEq, Prod.mk.injEq] at h
                      obtain ⟨rfl, rfl⟩ := h
                      obtain ⟨s', hadd, hex⟩ := exec_closeArr s0 s2 [] hv (hc2.wf hwf1) (Or.inr hm2) hst2 hsk2 hd2
                        (hc2.inFast rfl) r'
                      exact ⟨by simp only [List.length_cons]; omega, s', hadd, by rw [hchain, hex]⟩
                    · simp only [h93, ↓reduceIte]
                      have hv2 : ValPos s2 := ⟨hc2.wf hwf1, Or.inl hm2⟩
                      have hhead : HeadOK s2 (c :: r') :=
                        ⟨(fun h => nomatch h), fun b t h => by
                            simp only [List.cons.injEq] at h; rw [← h.1]; exact skipWs_head r c r' hsk,
                         fun t h _ => by simp only [List.cons.injEq] at h; exact h93 h.1⟩
                      obtain ⟨hp1, hp2⟩ := ih s2 (c :: r') hv2 (hc2.inFast rfl) hhead
                      cases hpvr : pValueG pCharsM numConv f (c :: r') with
                      | none =>
                        simp only
                        refine ⟨(fun _ _ h => nomatch h), fun _ hn => ?_⟩
                        rw [hchain]
                        simp only [List.length_cons] at hn ⊢
                        exact hp2 hpvr (by simp only [List.length_cons]; omega)
                      | some p =>
                        obtain ⟨v, rest⟩ := p
                        simp only
                        obtain ⟨hlr, s3, hadd3, hex3⟩ := hp1 v rest hpvr
                        have hin3 : InArr s0 s3 [v] := added_in_arr hst2 hsk2 hd2 hadd3
                        obtain ⟨e1, e2⟩ := exec_elems (pValueG pCharsM numConv f) f ih s0 hv (rest.length + 1) s3 [v] rest hin3
                        simp only [List.length_cons] at hlr
                        refine ⟨fun w rest' h => ?_, fun h hn => ?_⟩
                        · obtain ⟨hl', s', hadd', hex'⟩ := e1 w rest' h
                          exact ⟨by simp only [List.length_cons]; omega, s', hadd', by rw [hchain, hex3, hex']⟩
                        · rw [hchain, hex3]
                          simp only [List.length_cons] at hn
                          exact e2 h (by omega) (by omega)
                · simp only [h6, ↓reduceIte]
                  by_cases h7 : b = 123
                  · -- object
                    subst h7
                    simp only [↓reduceIte]
                    have hstep := step_openObj s0 hv
                    have hwf1 := (step_wf cfg1 s0 123 hv.wf).2 _ hstep
                    obtain ⟨s2, hc2, he2⟩ := exec_ws r _ (by rfl : wsMode ({ s0 with starts := false :: s0.starts, mode := .key1, stack := .obj [] :: s0.stack, pos := s0.pos + 1, inFast := false } : St).mode = true)
                    have hl2 := skipWs_length r
                    have hst2 : s2.starts = false :: s0.starts := hc2.starts
                    have hsk2 : s2.stack = .obj [] :: s0.stack := hc2.stack
                    have hd2 : s2.docs = s0.docs := hc2.docs
                    have hm2 : s2.mode = .key1 := hc2.mode
                    have hchain : exec s0 (123 :: r) = exec s2 (Spec.skipWs r) := by rw [exec_cons, hstep]; exact he2
                    cases hsk : Spec.skipWs r with
                    | nil =>
                      simp only
                      refine ⟨(fun _ _ h => nomatch h), fun _ _ => ?_⟩
                      rw [hchain, hsk]
                      exact exec_nil_open s2 (by rw [hst2]; simp)
                    | cons c r' =>
                      rw [hsk] at hchain hl2
                      simp only [List.length_cons] at hl2
                      simp only
                      by_cases h125 : c = 125
                      · subst h125
                        simp only [↓reduceIte]
                        refine ⟨fun v rest h => ?_, (fun h => nomatch h)⟩
                        simp only [Option.some.injEq, Prod.mk.injEq] at h
                        obtain ⟨rfl, rfl⟩ := h
                        obtain ⟨s', hadd, hex⟩ := exec_closeObj s0 s2 [] hv (hc2.wf hwf1) (Or.inr hm2) hst2 hsk2 hd2
                          (hc2.inFast rfl) r'
                        exact ⟨by simp only [List.length_cons]; omega, s', hadd, by rw [hchain, hex]⟩
                      · simp only [h125, ↓reduceIte]
                        have hk2 : KeyPos s0 s2 [] := ⟨hc2.wf hwf1, Or.inl hm2, hst2, hsk2, hd2, hc2.inFast rfl⟩
                        obtain ⟨hp1, hp2⟩ := exec_member (pValueG pCharsM numConv f) f ih s0 hv s2 [] hk2 (c :: r')
                          (fun b t h => by simp only [List.cons.injEq] at h; rw [← h.1]; exact skipWs_head r c r' hsk)
                          (fun t h _ => by simp only [List.cons.injEq] at h; exact h125 h.1)
                        cases hpm : pMemberG pCharsM (pValueG pCharsM numConv f) (c :: r') with
                        | none =>
                          simp only
                          refine ⟨(fun _ _ h => nomatch h), fun _ hn => ?_⟩
                          rw [hchain]
                          simp only [List.length_cons] at hn
                          exact hp2 hpm (by simp only [List.length_cons]; omega)
                        | some p =>
                          obtain ⟨⟨key, v⟩, rest⟩ := p
                          simp only
                          obtain ⟨hlr, s3, hin3, hex3⟩ := hp1 key v rest hpm
                          have hkv : kvInsert key v [] = [(key, v)] := rfl
                          rw [hkv] at hin3
                          obtain ⟨e1, e2⟩ := exec_members (pValueG pCharsM numConv f) f ih s0 hv (rest.length + 1) s3 [(key, v)] rest hin3
                          simp only [List.length_cons] at hlr
                          refine ⟨fun w rest' h => ?_, fun h hn => ?_⟩
                          · obtain ⟨hl', s', hadd', hex'⟩ := e1 w rest' h
                            exact ⟨by simp only [List.length_cons]; omega, s', hadd', by rw [hchain, hex3, hex']⟩
                          · rw [hchain, hex3]
                            simp only [List.length_cons] at hn
                            exact e2 h (by omega) (by omega)
                  · simp only [h7, ↓reduceIte]
                    refine ⟨(fun _ _ h => nomatch h), fun _ _ => ?_⟩
                    rcases value_other s0.mode b hv.mode hws h1 h2 h3 h4 h5' h6 h7 with h | ⟨hm, h | h⟩
                    · exact exec_charErr s0 b r h
                    · subst h
                      apply exec_closeArr_bad s0 r (by rw [hm]; rfl)
                      intro ss hss
                      exact hh.close r rfl ⟨hm, ss, hss⟩
                    · subst h
                      exact exec_closeObj_bad s0 r (by rw [hm]; rfl) (Or.inr (by rw [hm]; rfl))


/-! ## The whole text -/

/-- the specification's whole-text reader over the machine's leaf readers -/
def parseTextM (bs : Bytes) : Spec.Doc :=
  match Spec.skipWs bs with
  | [] => .none
  | b :: r =>
    match pValueM (bs.length + 1) (b :: r) with
    | some (v, rest) => if (Spec.skipWs rest).isEmpty then .one v else .bad
    | none => .bad

/-- what the machine returns for a `Doc` -/
def Spec.Doc.result : Spec.Doc → Option (List JV)
  | .none => Option.some []
  | .one v => Option.some [v]
  | .bad => Option.none

theorem finish_value_top (s : St) (hst : s.starts = []) (hm : s.mode = .value) :
    finish refTables s = .ok s.docs.reverse := by
  unfold finish
  have h1 : refTables.fin s.mode = .v := by rw [hm]; rfl
  simp [hst, h1]

theorem space_other (c : UInt8) (hws : Spec.isWs c = false) : expected .space c = .charErr := by
  have := forall_mode_byte (fun m b => !(m == .space) || Spec.isWs b || (expected m b == .charErr))
    (by decide +kernel) .space c
  simpa [hws] using this

/-- **The reference automaton implements the grammar.** Started in its initial state on any byte
string and told that the input has ended, the machine returns exactly what the grammar denotes:
no document for an empty or blank text, the one value of a JSON text (with the machine's reading of
string escapes and numbers at the leaves), and an error for everything else. -/
theorem exec_text (bs : Bytes) : exec {} bs = (parseTextM bs).result := by
  obtain ⟨s1, hc1, he1⟩ := exec_ws bs {} rfl
  have hwf1 : WF s1 := hc1.wf WF.init
  have hst1 : s1.starts = [] := hc1.starts
  have hm1 : s1.mode = .value := hc1.mode
  have hd1 : s1.docs = [] := hc1.docs
  rw [he1]
  unfold parseTextM
  cases hsk : Spec.skipWs bs with
  | nil =>
    simp only [Spec.Doc.result]
    unfold exec
    simp only [runBytes, finish_value_top s1 hst1 hm1, hd1, List.reverse_nil]
  | cons b r =>
    simp only
    have hl := skipWs_length bs
    rw [hsk] at hl
    have hv1 : ValPos s1 := ⟨hwf1, Or.inl hm1⟩
    have hhead : HeadOK s1 (b :: r) :=
      ⟨(fun h => nomatch h), fun c t h => by
          simp only [List.cons.injEq] at h; rw [← h.1]; exact skipWs_head bs b r hsk,
       fun t _ h => by obtain ⟨_, ss, hss⟩ := h; rw [hst1] at hss; cases hss⟩
    obtain ⟨hp1, hp2⟩ := valueOK_all (bs.length + 1) s1 (b :: r) hv1 (hc1.inFast rfl) hhead
    cases hpv : pValueM (bs.length + 1) (b :: r) with
    | none =>
      simp only [Spec.Doc.result]
      exact hp2 hpv (by omega)
    | some p =>
      obtain ⟨v, rest⟩ := p
      simp only
      obtain ⟨_, s2, hadd, hex⟩ := hp1 v rest hpv
      obtain ⟨hw2, hs2, hc, _⟩ := hadd
      rw [hst1] at hc hs2
      simp only at hc
      obtain ⟨hm2, _, hd2⟩ := hc
      rw [hd1] at hd2
      obtain ⟨s3, hc3, he3⟩ := exec_ws rest s2 (by rw [hm2]; rfl)
      rw [hex, he3]
      cases hsr : Spec.skipWs rest with
      | nil =>
        simp only [List.isEmpty_nil, ↓reduceIte, Spec.Doc.result]
        unfold exec
        simp only [runBytes]
        rw [finish_space s3 (hc3.starts.trans hs2) (hc3.mode.trans hm2), hc3.docs, hd2]
        rfl
      | cons c t =>
        simp only [List.isEmpty_cons, Bool.false_eq_true, ↓reduceIte, Spec.Doc.result]
        exact exec_charErr s3 c t (by rw [hc3.mode, hm2]; exact space_other c (skipWs_head rest c t hsr))

end OjgVerif.Json
