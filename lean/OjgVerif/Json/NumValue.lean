import OjgVerif.Json.Spec
import OjgVerif.Json.NumLemmas
/-! # The number a decimal text denotes (repo-independent) and the anatomy of a number literal

`decVal` reads a decimal text `-? D+ (. D+)? ([eE] [+-]? D+)?` (all of it, or `none`) as a pair
(mantissa, power of ten): sign, all digits of the integer and fraction part taken together as one
integer, exponent minus the number of fraction digits. Two pairs denote the same number when they
agree after scaling to the smaller exponent (`SameNumber`, integers only).

`Parts` is a literal cut into sign, integer digits, optional fraction digits and optional exponent;
`render` writes it back, `pval` is its value, and `decVal (render p) = some (pval p)`
(`decVal_render`). Nothing in this file mentions the accumulator of `gen/number.go`. -/
namespace OjgVerif.Json
open OjgVerif

/-- every byte is an ASCII digit -/
def Dig (ds : Bytes) : Prop := ∀ d ∈ ds, Spec.isDigit d = true

/-! ## Denotation of a decimal text -/

/-- a non-empty all-digit string as a natural number -/
def decDigits (r : Bytes) : Option Nat :=
  if r.isEmpty || !(r.all Spec.isDigit) then none else some (natOf r)

/-- optional exponent part up to the end of the text: `[eE] [+-]? D+`; absent means 0 -/
def decExp : Bytes → Option Int
  | [] => some 0
  | e :: r =>
    if e = 101 || e = 69 then
      match r with
      | [] => none
      | s :: r' =>
        if s = 45 then (decDigits r').map fun v => -(v : Int)
        else if s = 43 then (decDigits r').map fun v => (v : Int)
        else (decDigits (s :: r')).map fun v => (v : Int)
    else none

/-- what follows the integer digits: optional `. D+`, optional exponent; returns the fraction digits
and the exponent -/
def decFracExp : Bytes → Option (Bytes × Int)
  | [] => some ([], 0)
  | c :: r =>
    if c = 46 then
      if (Spec.takeDigits r).1.isEmpty then none
      else (decExp (Spec.takeDigits r).2).map fun e => ((Spec.takeDigits r).1, e)
    else (decExp (c :: r)).map fun e => ([], e)

/-- unsigned decimal text: (all digits as one natural number, exponent − number of fraction digits) -/
def decUnsigned (bs : Bytes) : Option (Nat × Int) :=
  if (Spec.takeDigits bs).1.isEmpty then none
  else (decFracExp (Spec.takeDigits bs).2).map fun p =>
    (natOf ((Spec.takeDigits bs).1 ++ p.1), p.2 - (p.1.length : Int))

/-- **Denotation.** `decVal t = some (m, e)`: the text `t` is a decimal number and denotes `m · 10^e` -/
def decVal : Bytes → Option (Int × Int)
  | [] => none
  | b :: r =>
    if b = 45 then (decUnsigned r).map fun p => (-(p.1 : Int), p.2)
    else (decUnsigned (b :: r)).map fun p => ((p.1 : Int), p.2)

/-- `m₁ · 10^e₁ = m₂ · 10^e₂`, stated over the integers by scaling both to the smaller exponent -/
def SameNumber (a b : Int × Int) : Prop :=
  a.1 * 10 ^ (a.2 - min a.2 b.2).toNat = b.1 * 10 ^ (b.2 - min a.2 b.2).toNat

instance (a b : Int × Int) : Decidable (SameNumber a b) := by unfold SameNumber; infer_instance

/-- both texts are numbers and denote the same number -/
def SameNumberO : Option (Int × Int) → Option (Int × Int) → Prop
  | some a, some b => SameNumber a b
  | _, _ => False

instance (a b : Option (Int × Int)) : Decidable (SameNumberO a b) := by
  unfold SameNumberO; split <;> infer_instance

theorem SameNumber.refl (a : Int × Int) : SameNumber a a := rfl

theorem SameNumberO.of_eq {a b : Option (Int × Int)} {v : Int × Int} (ha : a = some v) (hb : b = some v) :
    SameNumberO a b := by subst ha hb; exact SameNumber.refl v

example : decVal "-12.0340e+07".toUTF8.toList = some (-120340, 3) := by decide +kernel
example : decVal "1E400".toUTF8.toList = some (1, 400) := by decide +kernel
example : decVal "0.000000000000000000001".toUTF8.toList = some (1, -21) := by decide +kernel
example : decVal "1.".toUTF8.toList = none ∧ decVal "1e".toUTF8.toList = none ∧ decVal "-".toUTF8.toList = none
    ∧ decVal "1.5x".toUTF8.toList = none ∧ decVal "+1".toUTF8.toList = none := by decide +kernel
example : SameNumber (-120340, 3) (-12034, 4) ∧ SameNumber (15, -1) (1500, -3) ∧ ¬ SameNumber (15, -1) (15, 0) := by decide

/-! ## Anatomy of a literal -/

/-- exponent part: the `e`/`E` byte, the sign bytes (none, `+` or `-`), the digits -/
structure ExpPart where
  e : UInt8
  sg : Bytes
  es : Bytes

/-- sign, integer digits, optional fraction digits, optional exponent part -/
structure Parts where
  neg : Bool
  ip : Bytes
  fo : Option Bytes
  eo : Option ExpPart

def sgnTxt (neg : Bool) : Bytes := if neg then [45] else []

def fracTxt : Option Bytes → Bytes
  | none => []
  | some fs => 46 :: fs

def expTxt : Option ExpPart → Bytes
  | none => []
  | some x => x.e :: (x.sg ++ x.es)

/-- the literal written out -/
def render (p : Parts) : Bytes := sgnTxt p.neg ++ (p.ip ++ (fracTxt p.fo ++ expTxt p.eo))

def fracLen : Option Bytes → Nat
  | none => 0
  | some fs => fs.length

def fracNat : Option Bytes → Nat
  | none => 0
  | some fs => natOf fs

def expNat : Option ExpPart → Nat
  | none => 0
  | some x => natOf x.es

def expNeg : Option ExpPart → Bool
  | none => false
  | some x => decide (x.sg = [45])

def expVal (eo : Option ExpPart) : Int := if expNeg eo then -(expNat eo : Int) else (expNat eo : Int)

/-- magnitude of the mantissa: integer digits followed by the fraction digits -/
def mantNat (p : Parts) : Nat := natOf p.ip * 10 ^ fracLen p.fo + fracNat p.fo

/-- value of the parts: (signed mantissa, exponent − number of fraction digits) -/
def pval (p : Parts) : Int × Int :=
  (if p.neg then -(mantNat p : Int) else (mantNat p : Int), expVal p.eo - (fracLen p.fo : Int))

/-- well-formed exponent part -/
def ExpPart.WF (x : ExpPart) : Prop :=
  (x.e = 101 ∨ x.e = 69) ∧ (x.sg = [] ∨ x.sg = [43] ∨ x.sg = [45]) ∧ Dig x.es ∧ x.es ≠ []

/-- well-formed parts: digit runs are digit runs and none is empty (leading zeros are allowed) -/
def Parts.WF (p : Parts) : Prop :=
  Dig p.ip ∧ p.ip ≠ [] ∧ (∀ fs, p.fo = some fs → Dig fs ∧ fs ≠ []) ∧ (∀ x, p.eo = some x → x.WF)

/-! ## `decVal (render p) = some (pval p)` -/

theorem Dig.nil : Dig [] := fun _ h => nomatch h

theorem Dig.cons {d : UInt8} {r : Bytes} (hd : Spec.isDigit d = true) (hr : Dig r) : Dig (d :: r) := by
  intro x hx
  rcases List.mem_cons.mp hx with h | h
  · rw [h]; exact hd
  · exact hr x h

theorem Dig.head {d : UInt8} {r : Bytes} (h : Dig (d :: r)) : Spec.isDigit d = true := h d List.mem_cons_self

theorem Dig.tail {d : UInt8} {r : Bytes} (h : Dig (d :: r)) : Dig r := fun x hx => h x (List.mem_cons_of_mem _ hx)

theorem Dig.append {a b : Bytes} (ha : Dig a) (hb : Dig b) : Dig (a ++ b) := by
  intro x hx
  rcases List.mem_append.mp hx with h | h
  · exact ha x h
  · exact hb x h

theorem Dig.snoc {a : Bytes} {b : UInt8} (ha : Dig a) (hb : Spec.isDigit b = true) : Dig (a ++ [b]) :=
  ha.append (Dig.cons hb Dig.nil)

theorem Dig.all {ds : Bytes} (h : Dig ds) : ds.all Spec.isDigit = true := by
  simp only [List.all_eq_true]; exact h

/-- the byte after a digit run is not a digit -/
def NoDig (r : Bytes) : Prop := ∀ x t, r = x :: t → Spec.isDigit x = false

theorem takeDigits_append (ds r : Bytes) (hds : Dig ds) (hr : NoDig r) : Spec.takeDigits (ds ++ r) = (ds, r) := by
  induction ds with
  | nil =>
    cases r with
    | nil => rfl
    | cons x t => simp only [List.nil_append, Spec.takeDigits, hr x t rfl, Bool.false_eq_true, ↓reduceIte]
  | cons d ds ih =>
    simp only [List.cons_append, Spec.takeDigits, hds.head, ↓reduceIte, ih hds.tail]

theorem decDigits_dig (ds : Bytes) (hds : Dig ds) (hne : ds ≠ []) : decDigits ds = some (natOf ds) := by
  unfold decDigits
  have : ds.isEmpty = false := by cases ds with | nil => exact absurd rfl hne | cons _ _ => rfl
  simp [this, hds.all]

theorem digit_ne (d : UInt8) (hd : Spec.isDigit d = true) : d ≠ 45 ∧ d ≠ 43 ∧ d ≠ 46 ∧ d ≠ 101 ∧ d ≠ 69 := by
  refine ⟨?_, ?_, ?_, ?_, ?_⟩ <;> (intro h; subst h; revert hd; decide)

theorem decExp_expTxt (eo : Option ExpPart) (h : ∀ x, eo = some x → x.WF) : decExp (expTxt eo) = some (expVal eo) := by
  cases eo with
  | none => rfl
  | some x =>
    obtain ⟨he, hsg, hdig, hne⟩ := h x rfl
    have he' : (x.e = 101 || x.e = 69) = true := by simpa using he
    obtain ⟨d, ds, hes⟩ := List.exists_cons_of_ne_nil hne
    simp only [expTxt, decExp, he', ↓reduceIte]
    rcases hsg with hs | hs | hs
    · -- no sign: the first exponent digit is neither `-` nor `+`
      have hd : Spec.isDigit d = true := by rw [hes] at hdig; exact hdig.head
      have hn := digit_ne d hd
      simp only [hs, List.nil_append, hes, hn.1, hn.2.1, ↓reduceIte]
      rw [← hes, decDigits_dig _ hdig hne]
      simp [expVal, expNeg, expNat, hs]
    · simp only [hs, List.cons_append, List.nil_append, show ((43 : UInt8) = 45) = False by decide, ↓reduceIte]
      rw [decDigits_dig _ hdig hne]
      simp [expVal, expNeg, expNat, hs]
    · simp only [hs, List.cons_append, List.nil_append, ↓reduceIte]
      rw [decDigits_dig _ hdig hne]
      simp [expVal, expNeg, expNat, hs]

theorem noDig_expTxt (eo : Option ExpPart) (h : ∀ x, eo = some x → x.WF) : NoDig (expTxt eo) := by
  intro y t hy
  cases eo with
  | none => cases hy
  | some x =>
    simp only [expTxt, List.cons.injEq] at hy
    obtain ⟨he, _⟩ := h x rfl
    rw [← hy.1]
    rcases he with h | h <;> rw [h] <;> decide

theorem expTxt_head_ne (eo : Option ExpPart) (h : ∀ x, eo = some x → x.WF) (c : UInt8) (r : Bytes)
    (hc : expTxt eo = c :: r) : c ≠ 46 := by
  cases eo with
  | none => cases hc
  | some x =>
    simp only [expTxt, List.cons.injEq] at hc
    obtain ⟨he, _⟩ := h x rfl
    rw [← hc.1]
    rcases he with h | h <;> rw [h] <;> decide

theorem decFracExp_txt (fo : Option Bytes) (eo : Option ExpPart)
    (hf : ∀ fs, fo = some fs → Dig fs ∧ fs ≠ []) (he : ∀ x, eo = some x → x.WF) :
    decFracExp (fracTxt fo ++ expTxt eo) = some ((fo.getD []), expVal eo) := by
  cases fo with
  | none =>
    simp only [fracTxt, List.nil_append, Option.getD_none]
    cases hx : expTxt eo with
    | nil =>
      cases eo with
      | none => rfl
      | some x => simp [expTxt] at hx
    | cons c r =>
      have hc := expTxt_head_ne eo he c r hx
      simp only [decFracExp, hc, ↓reduceIte]
      rw [← hx, decExp_expTxt eo he]; rfl
  | some fs =>
    obtain ⟨hd, hne⟩ := hf fs rfl
    have htd := takeDigits_append fs (expTxt eo) hd (noDig_expTxt eo he)
    have hemp : fs.isEmpty = false := by cases fs with | nil => exact absurd rfl hne | cons _ _ => rfl
    simp only [fracTxt, List.cons_append, decFracExp, ↓reduceIte, htd, hemp, Bool.false_eq_true,
      decExp_expTxt eo he, Option.map_some, Option.getD_some]

theorem noDig_fracExp (fo : Option Bytes) (eo : Option ExpPart) (he : ∀ x, eo = some x → x.WF) :
    NoDig (fracTxt fo ++ expTxt eo) := by
  cases fo with
  | none => simpa [fracTxt] using noDig_expTxt eo he
  | some fs =>
    intro y t hy
    simp only [fracTxt, List.cons_append, List.cons.injEq] at hy
    rw [← hy.1]; decide

theorem decUnsigned_txt (ip : Bytes) (fo : Option Bytes) (eo : Option ExpPart) (hip : Dig ip) (hne : ip ≠ [])
    (hf : ∀ fs, fo = some fs → Dig fs ∧ fs ≠ []) (he : ∀ x, eo = some x → x.WF) :
    decUnsigned (ip ++ (fracTxt fo ++ expTxt eo)) =
      some (natOf ip * 10 ^ fracLen fo + fracNat fo, expVal eo - (fracLen fo : Int)) := by
  have htd := takeDigits_append ip _ hip (noDig_fracExp fo eo he)
  have hemp : ip.isEmpty = false := by cases ip with | nil => exact absurd rfl hne | cons _ _ => rfl
  simp only [decUnsigned, htd, hemp, Bool.false_eq_true, ↓reduceIte, decFracExp_txt fo eo hf he, Option.map_some]
  cases fo with
  | none => simp [fracLen, fracNat]
  | some fs => simp [fracLen, fracNat, natOf_append]

/-- **The written literal denotes the value of its parts.** -/
theorem decVal_render (p : Parts) (h : p.WF) : decVal (render p) = some (pval p) := by
  obtain ⟨hip, hne, hf, he⟩ := h
  have hu := decUnsigned_txt p.ip p.fo p.eo hip hne hf he
  unfold render pval mantNat
  cases hn : p.neg with
  | true =>
    simp only [sgnTxt, ↓reduceIte, List.cons_append, List.nil_append, decVal, hu, Option.map_some]
  | false =>
    obtain ⟨d, ds, hd⟩ := List.exists_cons_of_ne_nil hne
    have hd45 : d ≠ 45 := (digit_ne d (by rw [hd] at hip; exact hip.head)).1
    simp only [sgnTxt, Bool.false_eq_true, ↓reduceIte, List.nil_append]
    rw [hd] at hu ⊢
    simp only [List.cons_append] at hu ⊢
    simp only [decVal, hd45, ↓reduceIte, hu, Option.map_some]

end OjgVerif.Json
