import OjgVerif.Json.BufLit
/-! # The integer loop of `valDigit` against the byte machine with the pinned fast loop -/
namespace OjgVerif.Json
open OjgVerif

variable {T : Tables} (hT : TablesOK T) (cfg : Cfg)

theorem valDigit_is_digit (md : Mode) (b : UInt8) (h : expected md b = .valDigit) :
    expected .digit b = .numDigit := by
  have := forall_mode_byte (fun md b => !(expected md b == .valDigit) || expected .digit b == .numDigit)
    (by decide +kernel) md b
  simpa [h] using this

include hT in
theorem step_valDigit (m : St) (b : UInt8) (h : T.act m.mode b = .valDigit) :
    step T cfg m b = .ok { m with mode := .digit, num := { m.num.reset with i := (b - 48).toUInt64 },
                                  inFast := cfg.fastInt, pos := m.pos + 1 } := by
  have hfin : T.fin .digit ≠ .a := by rw [hT.fin .digit (by decide)]; decide
  unfold step stepAct
  simp only [h, Bool.false_eq_true, ↓reduceIte]
  rw [deliver_id_of T cfg _ (by simp only; exact hfin)]

include hT in
theorem step_numDigit_fast (m : St) (c : UInt8) (hm : m.mode = .digit) (hf : m.inFast = true)
    (h : T.act .digit c = .numDigit) :
    step T cfg m c = .ok { m with
      num := if BigLimit ≤ m.num.i then m.num.fillBig.addDigit c
             else { m.num with i := m.num.i * 10 + (c - 48).toUInt64 },
      inFast := !(decide (BigLimit ≤ m.num.i)), pos := m.pos + 1 } := by
  have hfin : T.fin .digit ≠ .a := by rw [hT.fin .digit (by decide)]; decide
  unfold step stepAct
  simp only [hm, h, hf, Bool.false_eq_true, ↓reduceIte, Bool.true_and]
  rw [deliver_id_of T cfg _ (by simp only [hm]; exact hfin)]

theorem St.eta_num (m : St) (n : Num) (f : Bool) (hn : m.num = n) (hf : m.inFast = f) :
    ({ m with num := n, pos := m.pos + 0, inFast := f } : St) = m := by
  obtain ⟨_, _, _, _, _, _, _, _, _, _, _, _, _⟩ := m
  simp only at hn hf; subst hn hf; rfl

include hT in
/-- the explicit integer loop is the byte machine's pinned loop over the digits it consumes -/
theorem intRun (l : Bytes) : ∀ (j : Nat) (n : Num) (acc : Nat × UInt8) (m : St),
    m.mode = .digit → m.inFast = true → m.num = n →
    ∃ (pre rest : Bytes) (fl : Bool), l = pre ++ rest ∧
      runBytes T cfg m pre = .ok { m with num := (intLoop T l j n acc).1, pos := m.pos + pre.length, inFast := fl } ∧
      (l ≠ [] → j + pre.length = (intLoop T l j n acc).2.1 +
          (if T.act .digit (intLoop T l j n acc).2.2 = .numDigit then 1 else 0)) ∧
      (l = [] → (intLoop T l j n acc).2 = acc) ∧
      (fl = true → ∀ c, rest.head? = some c → T.act .digit c ≠ .numDigit) ∧
      ((intLoop T l j n acc).1.big = [] →
        (intLoop T l j n acc).1.frac = n.frac ∧ (intLoop T l j n acc).1.div = n.div) := by
  induction l with
  | nil =>
    intro j n acc m hm hf hn
    refine ⟨[], [], true, rfl, ?_, fun h => absurd rfl h, fun _ => rfl, ?_, fun _ => ⟨rfl, rfl⟩⟩
    · simp only [runBytes, intLoop, List.length_nil]
      exact congrArg Except.ok (St.eta_num m n true hn hf).symm
    · intro _ c hc; cases hc
  | cons c r ih =>
    intro j n acc m hm hf hn
    unfold intLoop
    by_cases hd : T.act .digit c = .numDigit
    · simp only [hd, ↓reduceIte]
      by_cases hl : BigLimit ≤ n.i
      · simp only [hl, ↓reduceIte]
        refine ⟨[c], r, false, rfl, ?_, fun _ => ?_, (fun h => (by cases h)), (fun h => (by cases h)), fun hb => ?_⟩
        · simp only [runBytes]
          rw [step_numDigit_fast hT cfg m c hm hf hd]
          simp only [hn, hl, ↓reduceIte, decide_true, Bool.not_true, List.length_cons, List.length_nil, Nat.zero_add]
        · simp only [hd, ↓reduceIte, List.length_cons, List.length_nil]
        · exfalso
          unfold Num.addDigit at hb
          have : 0 < n.fillBig.big.length := List.length_pos_iff.mpr (fillBig_big_ne_nil _)
          simp only [this, ↓reduceIte] at hb; simp at hb
      · simp only [hl, ↓reduceIte]
        obtain ⟨pre, rest, fl, hsplit, hrun, hoff, hnil, hside, hkeep⟩ :=
          ih (j + 1) { n with i := n.i * 10 + (c - 48).toUInt64 } (j, c)
            ({ m with num := { n with i := n.i * 10 + (c - 48).toUInt64 }, inFast := true, pos := m.pos + 1 } : St)
            hm rfl rfl
        refine ⟨c :: pre, rest, fl, (by rw [hsplit]; rfl), ?_, fun _ => ?_, (fun h => (by cases h)), hside, hkeep⟩
        · simp only [runBytes]
          rw [step_numDigit_fast hT cfg m c hm hf hd]
          simp only [hn, hl, ↓reduceIte, decide_false, Bool.not_false]
          rw [hrun]
          simp only [List.length_cons, Except.ok.injEq, St.mk.injEq, true_and, and_true]
          omega
        · by_cases hr : r = []
          · subst hr
            have hp : pre = [] := by
              cases pre with
              | nil => rfl
              | cons x xs => simp at hsplit
            subst hp
            rw [hnil rfl]
            simp only [hd, ↓reduceIte, List.length_cons, List.length_nil]
          · have := hoff hr
            simp only [List.length_cons]
            omega
    · simp only [hd, ↓reduceIte]
      refine ⟨[], c :: r, true, rfl, ?_, fun _ => ?_, (fun h => (by cases h)), ?_, fun _ => ⟨trivial, trivial⟩⟩
      · simp only [runBytes, List.length_nil]
        exact congrArg Except.ok (St.eta_num m n true hn hf).symm
      · simp only [hd, ↓reduceIte, List.length_nil]
      · intro _ x hx
        simp only [List.head?_cons, Option.some.injEq] at hx
        subst hx; exact hd


theorem nf_set_num {a b : St} (h : a.nf = b.nf) (md : Mode) (hs : usesStr md = false) (hr : usesRi md = false)
    (hn : usesRn md = false) (n : Num) (p : Nat) (f1 f2 : Bool) :
    ({ a with mode := md, num := n, pos := p, inFast := f1 } : St).nf =
    ({ b with mode := md, num := n, pos := p, inFast := f2 } : St).nf := by
  obtain ⟨e1, e2, e3, e4, e5, e6, e7, e8⟩ := nf_fields h
  obtain ⟨am, anm, ast, ask, ado, atm, ari, arn, anu, ali, apo, anl, afa⟩ := a
  obtain ⟨bm, bnm, bst, bsk, bdo, btm, bri, brn, bnu, bli, bpo, bnl, bfa⟩ := b
  simp only at e1 e2 e3 e4 e5 e6 e7 e8
  subst e1 e2 e3 e4 e5 e6 e7 e8
  simp only [St.nf, St.clr, St.cn, hs, hr, hn, cond_false]

include hT in
/-- **the integer loop** -/
theorem iter_int (fp : FP) (hint : fp.int = true) (hfast : cfg.fastInt = true) (buf : Bytes) (s m : St)
    (off i : Nat) (b : UInt8) (hb : buf[off]? = some b) (hrel : Rel s m)
    (hact : T.act s.mode b = .valDigit) :
    IterOK T cfg buf m off (iterBuf T cfg fp buf s off i b) := by
  obtain ⟨hdrop, hl⟩ := drop_of_getElem? buf off b hb
  obtain ⟨emode, -, -, -, enum, -, epos, -⟩ := nf_fields hrel.nf
  have hactm : T.act m.mode b = .valDigit := by rw [← emode]; exact hact
  have hbd : T.act .digit b = .numDigit := by
    rw [hT.act] at hact ⊢; exact valDigit_is_digit _ _ hact
  have hfin : T.fin .digit ≠ .a := by rw [hT.fin .digit (by decide)]; decide
  have hstep := step_valDigit hT cfg m b hactm
  rw [hfast] at hstep
  obtain ⟨pre, rest, fl, hsplit, hrun, hoff, hnil, hsd, hkeep⟩ :=
    intRun hT cfg (buf.drop (off + 1)) 0 { m.num.reset with i := (b - 48).toUInt64 } (i, b)
      ({ m with mode := .digit, num := { m.num.reset with i := (b - 48).toUInt64 }, inFast := true, pos := m.pos + 1 } : St)
      rfl rfl rfl
  have hrunm : runBytes T cfg m (buf.drop off) = runBytes T cfg
      ({ m with mode := .digit, num := (intLoop T (buf.drop (off + 1)) 0 { m.num.reset with i := (b - 48).toUInt64 } (i, b)).1,
                pos := m.pos + 1 + pre.length, inFast := fl } : St) rest := by
    rw [hdrop]
    conv => lhs; unfold runBytes
    rw [hstep]
    simp only
    conv => lhs; rw [hsplit]
    rw [C03.runBytes_append, hrun]
  unfold iterBuf caseBuf
  simp only [hact, hint, ↓reduceIte, sliceOf_tail buf off hl]
  have hreset : s.num.reset = m.num.reset := rfl
  rw [hreset]
  generalize hR : intLoop T (buf.drop (off + 1)) 0 { m.num.reset with i := (b - 48).toUInt64 } (i, b) = R at *
  simp only [Bool.false_eq_true, ↓reduceIte]
  rw [deliver_id_of T cfg _ (by simp only; exact hfin)]
  simp only [IterOK]
  have hnm : NumInv ({ m with mode := .digit, num := R.1, pos := m.pos + 1 + pre.length, inFast := fl } : St) := by
    intro _ hb0
    have := hkeep hb0
    exact ⟨this.1, this.2⟩
  by_cases hsl : buf.drop (off + 1) = []
  · -- the digit is the last byte of the buffer: `i`, `b` are stale, the loop ends
    have hacc := hnil hsl
    have hp : pre = [] ∧ rest = [] := by
      rw [hsl] at hsplit
      cases pre with
      | nil => exact ⟨rfl, by simpa using hsplit.symm⟩
      | cons x xs => simp at hsplit
    obtain ⟨hp1, hp2⟩ := hp
    subst hp1 hp2
    have hlen : buf.length ≤ off + 1 := List.drop_eq_nil_iff.mp hsl
    have hR2 : R.2 = (i, b) := hacc
    have hR21 : R.2.1 = i := by rw [hR2]
    have hR22 : R.2.2 = b := by rw [hR2]
    simp only [hR21, hR22, hbd, ↓reduceIte]
    have hmin : min (off + 1 + i + 1) buf.length - off = 1 := by omega
    refine ⟨by omega, ({ m with mode := .digit, num := R.1, pos := m.pos + 1 + ([] : Bytes).length, inFast := fl } : St),
      hrunm.trans (by rw [drop_nil_of_le buf (off + 1 + i + 1) (by omega)]), ⟨?_, hrel.flag, hrel.ns, hrel.nm⟩, ?_, fun _ => hnm⟩
    · simp only [hmin, List.length_nil, Nat.add_zero]
      rw [← epos]
      exact nf_set_num hrel.nf .digit rfl rfl rfl _ _ _ _
    · intro _ c hc
      rw [List.getElem?_eq_none (by omega)] at hc; cases hc
  · have hk := hoff hsl
    simp only [Nat.zero_add] at hk
    have hlenk : off + 1 + pre.length + rest.length = buf.length := by
      have h2 := congrArg List.length hsplit
      simp only [List.length_drop, List.length_append] at h2
      have : buf.drop (off + 1) ≠ [] := hsl
      have h3 : off + 1 < buf.length := by
        rcases Nat.lt_or_ge (off + 1) buf.length with h | h
        · exact h
        · exact absurd (List.drop_eq_nil_iff.mpr h) hsl
      omega
    have hdr : buf.drop (off + 1 + pre.length) = rest := by
      rw [← List.drop_drop, hsplit, List.drop_left]
    have hoff2 : (if T.act .digit R.2.2 = .numDigit then off + 1 else off) + R.2.1 + 1 = off + 1 + pre.length := by
      by_cases hD : T.act .digit R.2.2 = .numDigit
      · simp only [hD, ↓reduceIte] at hk ⊢; omega
      · simp only [hD, ↓reduceIte] at hk ⊢; omega
    rw [hoff2]
    have hmin : min (off + 1 + pre.length) buf.length - off = pre.length + 1 := by omega
    refine ⟨by omega, ({ m with mode := .digit, num := R.1, pos := m.pos + 1 + pre.length, inFast := fl } : St),
      hrunm.trans (by rw [hdr]), ⟨?_, hrel.flag, hrel.ns, hrel.nm⟩, ?_, fun _ => hnm⟩
    · simp only [hmin]
      rw [show m.pos + 1 + pre.length = s.pos + (pre.length + 1) by omega]
      exact nf_set_num hrel.nf .digit rfl rfl rfl _ _ _ _
    · intro hf c hc
      simp only at hf
      have : rest.head? = some c := by
        rw [← hdr, List.head?_drop]; exact hc
      exact hsd hf c this

end OjgVerif.Json
