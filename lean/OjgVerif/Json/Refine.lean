import OjgVerif.Json.Wf
import OjgVerif.Json.Spec
/-! Refinement of the RFC 8259 recursive-descent specification (`Json/Spec.lean`) by the reference
automaton: work in progress towards `exec {} bs = specExec bs`. Everything in this file is proved;
the final theorem is not there yet (see Props/C01 for what is claimed). -/
namespace OjgVerif.Json
open OjgVerif

/-- single-document, byte-at-a-time configuration (oj.Validator / oj.Tokenizer; the parsers differ
only by the pinned integer fast loop) -/
def cfg1 : Cfg := {}

/-- outcome of running the reference automaton from state `s` over `bs` and ending the input -/
def exec (s : St) (bs : Bytes) : Option (List JV) :=
  match runBytes refTables cfg1 s bs with
  | .error _ => none
  | .ok s' =>
    match finish refTables s' with
    | .error _ => none
    | .ok docs => some docs

theorem exec_cons (s : St) (b : UInt8) (r : Bytes) :
    exec s (b :: r) = match step refTables cfg1 s b with
      | .error _ => none
      | .ok s' => exec s' r := by
  unfold exec
  simp only [runBytes]
  cases step refTables cfg1 s b <;> rfl

theorem exec_append (s : St) (a b : Bytes) :
    exec s (a ++ b) = match runBytes refTables cfg1 s a with
      | .error _ => none
      | .ok s' => exec s' b := by
  induction a generalizing s with
  | nil => rfl
  | cons x r ih =>
    simp only [List.cons_append, exec_cons, runBytes]
    cases step refTables cfg1 s x with
    | error e => rfl
    | ok s' => exact ih s'

end OjgVerif.Json

namespace OjgVerif.Json
open OjgVerif

/-- the machine is where a value may start -/
structure ValPos (s : St) : Prop where
  wf : WF s
  mode : s.mode = .value ∨ s.mode = .comma

/-- `s'` is `s` after the value `v` has been completed: added to the enclosing container, or
delivered as the document at top level -/
def Added (s : St) (v : JV) (s' : St) : Prop :=
  WF s' ∧ s'.starts = s.starts ∧
  (match s.starts with
   | [] => s'.mode = .space ∧ s'.stack = [] ∧ s'.docs = v :: s.docs
   | _ :: _ => s'.mode = .after ∧ s'.docs = s.docs ∧ addItem v s.stack = .ok s'.stack) ∧
  s'.inFast = false

theorem needVal_of_valpos {s : St} (h : ValPos s) : needVal s.mode s.nextMode = true := by
  rcases h.mode with h | h <;> simp [needVal, h]

/-- completing a value from any state whose build stack expects one: the generic tail of every
"add, switch to after mode, deliver" sequence -/
theorem added_of_add (s0 s1 : St) (v : JV) (hw0 : WF s0)
    (hsh : Shape s0.starts s0.stack true)
    (hs1 : s1.starts = s0.starts ∧ s1.stack = s0.stack ∧ s1.docs = s0.docs)
    (hnext : s1.nextMode = .colon ∨ s1.nextMode = .after) (hinf : s1.inFast = false) :
    ∃ st', ({ s1 with mode := .after } : St).add v = .ok { s1 with mode := .after, stack := st' } ∧
      Added s0 v (deliver refTables cfg1 { s1 with mode := .after, stack := st' }) := by
  obtain ⟨hst, hsk, hdoc⟩ := hs1
  have hsh1 : Shape ({ s1 with mode := Mode.after } : St).starts ({ s1 with mode := Mode.after } : St).stack true := by
    simp only [hst, hsk]; exact hsh
  obtain ⟨st', hadd, hsa⟩ := St.add_ok { s1 with mode := .after } v hsh1
  refine ⟨st', hadd, ?_⟩
  have hadd' : addItem v s0.stack = .ok st' := by
    unfold St.add at hadd
    simp only [hsk] at hadd
    cases ha : addItem v s0.stack with
    | error w => rw [ha] at hadd; cases hadd
    | ok x => rw [ha] at hadd; simp only [Except.ok.injEq, St.mk.injEq] at hadd; rw [hadd.2.2.2.1]
  -- WF of the delivered state via the generic lemma
  have hpre : WFpre ({ s1 with mode := .after, stack := st' } : St) false := by
    refine ⟨⟨(fun h => nomatch h), (fun h => nomatch h), hnext⟩, ?_, (fun h => nomatch h), fun hnn => ?_⟩
    · intro h; rcases h with h | h | h | ⟨h | h | h, _⟩ <;> cases h
    · have hne : s1.starts ≠ [] := fun h0 => hnn ⟨h0, rfl⟩
      exact hsa.shape hne
  have hwf := deliver_wf cfg1 _ false hpre
  simp only [Bool.false_eq_true, ↓reduceIte] at hwf
  refine ⟨hwf, ?_, ?_, ?_⟩
  rotate_right
  · unfold deliver; split <;> simp [hinf]
  · unfold deliver; split <;> simp [hst]
  · cases hs : s0.starts with
    | nil =>
      have : ({ s1 with mode := .after, stack := st' } : St).starts.isEmpty = true := by simp [hst, hs]
      unfold deliver
      simp only [this, refTables, expectedFin, decide_true, Bool.and_self, ↓reduceIte, cfg1]
      obtain ⟨w, hw⟩ : ∃ w, st' = [.val w] := by
        have := hsa; simp only [hst, hs, ShapeAdded] at this; exact this
      have hv : w = v := by
        rw [hs] at hsh
        simp only [Shape] at hsh
        rw [hsh, hw] at hadd'
        simp only [addItem, Except.ok.injEq, List.cons.injEq, Item.val.injEq, and_true] at hadd'
        exact hadd'.symm
      subst hw; subst hv
      simp [hdoc, Item.toJV]
    | cons x ss =>
      have : ({ s1 with mode := .after, stack := st' } : St).starts.isEmpty = false := by simp [hst, hs]
      unfold deliver
      simp only [this, Bool.false_and, Bool.false_eq_true, ↓reduceIte]
      simp [hdoc, hadd']

end OjgVerif.Json

namespace OjgVerif.Json
open OjgVerif

/-- a literal mode, its word and its value -/
structure LitSpec (m : Mode) (w : Bytes) (v : JV) : Prop where
  tok : ∀ (s : St) (x : UInt8), s.mode = m → ∃ k, stepToken refTables s x =
      if w.getD (s.ri + 1) 0 = x then
        (if w.length - 1 ≤ s.ri + 1 then ({ s with ri := s.ri + 1, mode := .after } : St).add v
         else .ok { s with ri := s.ri + 1 })
      else .error (s.err k)
  act : ∀ x, expected m x = .tokenOk ∨ expected m x = .charErr
  fin : expectedFin m = .absent
  nv : ∀ nm, needVal m nm = true
  notAfter : m ≠ .after

theorem litSpec_null : LitSpec .null [110, 117, 108, 108] .null where
  tok := by
    intro s x hm
    refine ⟨.expNull, ?_⟩
    unfold stepToken
    have h1 : refTables.act s.mode 114 ≠ .tokenOk := by rw [hm]; decide
    have h2 : refTables.act s.mode 97 ≠ .tokenOk := by rw [hm]; decide
    have h3 : (refTables.act s.mode 117 = .tokenOk && refTables.act s.mode 108 = .tokenOk) = true := by rw [hm]; decide
    simp only [h1, h2, h3, ↓reduceIte, List.length_cons, List.length_nil]
  act := by
    intro x
    simp only [expected]
    split <;> simp
  fin := rfl
  nv := fun _ => rfl
  notAfter := by decide

theorem litSpec_true : LitSpec .true_ [116, 114, 117, 101] (.bool true) where
  tok := by
    intro s x hm
    refine ⟨.expTrue, ?_⟩
    unfold stepToken
    have h1 : refTables.act s.mode 114 = .tokenOk := by rw [hm]; decide
    simp only [h1, ↓reduceIte, List.length_cons, List.length_nil]
  act := by
    intro x
    simp only [expected]
    split <;> simp
  fin := rfl
  nv := fun _ => rfl
  notAfter := by decide

theorem litSpec_false : LitSpec .false_ [102, 97, 108, 115, 101] (.bool false) where
  tok := by
    intro s x hm
    refine ⟨.expFalse, ?_⟩
    unfold stepToken
    have h1 : refTables.act s.mode 114 ≠ .tokenOk := by rw [hm]; decide
    have h2 : refTables.act s.mode 97 = .tokenOk := by rw [hm]; decide
    simp only [h1, h2, ↓reduceIte, List.length_cons, List.length_nil]
  act := by
    intro x
    simp only [expected]
    split <;> simp
  fin := rfl
  nv := fun _ => rfl
  notAfter := by decide


/-- the machine is inside a literal that started in value position `s0` -/
structure InLit (m : Mode) (s0 s : St) : Prop where
  mode : s.mode = m
  starts : s.starts = s0.starts
  stack : s.stack = s0.stack
  docs : s.docs = s0.docs
  next : s.nextMode = .colon ∨ s.nextMode = .after
  inFast : s.inFast = false

/-- one byte inside a literal: a wrong byte is an error -/
theorem lit_step_bad {m : Mode} {w : Bytes} {v : JV} (L : LitSpec m w v) (s : St) (x : UInt8)
    (hm : s.mode = m) (hx : w.getD (s.ri + 1) 0 ≠ x) : ∃ e, step refTables cfg1 s x = .error e := by
  unfold step stepAct
  rcases L.act x with ha | ha
  · have : refTables.act s.mode x = .tokenOk := by rw [hm]; exact ha
    obtain ⟨k, htok⟩ := L.tok s x hm
    simp only [this, htok, hx, ↓reduceIte, bind, Except.bind]
    exact ⟨_, rfl⟩
  · have : refTables.act s.mode x = .charErr := by rw [hm]; exact ha
    simp only [this]
    exact ⟨_, rfl⟩

/-- one byte inside a literal: the expected letter, not the last one -/
theorem lit_step_mid {m : Mode} {w : Bytes} {v : JV} (L : LitSpec m w v) (s : St) (x : UInt8)
    (hm : s.mode = m) (hx : w.getD (s.ri + 1) 0 = x) (hact : expected m x = .tokenOk)
    (hlast : ¬ (w.length - 1 ≤ s.ri + 1)) :
    step refTables cfg1 s x = .ok { s with ri := s.ri + 1, pos := s.pos + 1, inFast := false } := by
  unfold step stepAct
  have : refTables.act s.mode x = .tokenOk := by rw [hm]; exact hact
  obtain ⟨k, htok⟩ := L.tok s x hm
  simp only [this, htok, hx, hlast, ↓reduceIte, bind, Except.bind, pure, Except.pure, Bool.false_eq_true]
  have hd : deliver refTables cfg1 { s with ri := s.ri + 1 } = { s with ri := s.ri + 1 } := by
    unfold deliver
    have : refTables.fin s.mode ≠ .a := by rw [hm]; show expectedFin m ≠ .a; rw [L.fin]; decide
    simp [this]
  rw [hd]


/-- `WF` only looks at mode, nextMode, starts and stack -/
theorem WF.of_core {s s' : St} (h : WF s) (hm : s'.mode = s.mode) (hn : s'.nextMode = s.nextMode)
    (hs : s'.starts = s.starts) (hk : s'.stack = s.stack) : WF s' := by
  refine ⟨⟨?_, ?_, ?_⟩, ?_, ?_, ?_⟩
  · rw [hm, hs]; exact h.ctl.after
  · rw [hm, hs]; exact h.ctl.comma
  · rw [hn]; exact h.ctl.next
  · rw [hm, hn, hs]; exact h.obj
  · rw [hm, hs]; exact h.arr
  · rw [hm, hn, hs, hk]; exact h.shape

theorem Added.of_core {s0 s1 s2 : St} {v : JV} (h : Added s0 v s1) (hm : s2.mode = s1.mode)
    (hn : s2.nextMode = s1.nextMode) (hs : s2.starts = s1.starts) (hk : s2.stack = s1.stack)
    (hd : s2.docs = s1.docs) (hf : s2.inFast = s1.inFast) : Added s0 v s2 := by
  obtain ⟨hw, hst, hc, hi⟩ := h
  refine ⟨hw.of_core hm hn hs hk, hs.trans hst, ?_, hf.trans hi⟩
  cases h0 : s0.starts with
  | nil => rw [h0] at hc; simp only at hc ⊢; rw [hm, hk, hd]; exact hc
  | cons x ss => rw [h0] at hc; simp only at hc ⊢; rw [hm, hk, hd]; exact hc

/-- one byte inside a literal: the last letter completes the value -/
theorem lit_step_last {m : Mode} {w : Bytes} {v : JV} (L : LitSpec m w v) (s0 s : St) (x : UInt8)
    (hv : ValPos s0) (hin : InLit m s0 s) (hx : w.getD (s.ri + 1) 0 = x) (hact : expected m x = .tokenOk)
    (hlast : w.length - 1 ≤ s.ri + 1) :
    ∃ s', step refTables cfg1 s x = .ok s' ∧ Added s0 v s' := by
  have hsh : Shape s0.starts s0.stack true := by
    have := hv.wf.shape; rw [needVal_of_valpos hv] at this; exact this
  obtain ⟨st', hadd, hadded⟩ := added_of_add s0 { s with ri := s.ri + 1 } v hv.wf hsh
    ⟨hin.starts, hin.stack, hin.docs⟩ hin.next hin.inFast
  unfold step stepAct
  have : refTables.act s.mode x = .tokenOk := by rw [hin.mode]; exact hact
  obtain ⟨k, htok⟩ := L.tok s x hin.mode
  simp only [this, htok, hx, hlast, ↓reduceIte, bind, Except.bind, pure, Except.pure, Bool.false_eq_true]
  have hadd' : ({ s with ri := s.ri + 1, mode := Mode.after } : St).add v =
      .ok { s with ri := s.ri + 1, mode := Mode.after, stack := st' } := hadd
  rw [hadd']
  simp only
  exact ⟨_, rfl, hadded.of_core rfl rfl rfl rfl rfl (by simp only; unfold deliver; split <;> simp [hin.inFast])⟩


theorem drop_eq_getD_cons (w : Bytes) (k : Nat) (h : k < w.length) : w.drop k = w.getD k 0 :: w.drop (k + 1) := by
  rw [List.drop_eq_getElem_cons h]
  simp [List.getD, List.getElem?_eq_getElem h]

theorem exec_nil_of_absent (s : St) (h : expectedFin s.mode = .absent) : exec s [] = none := by
  unfold exec
  simp only [runBytes]
  unfold finish
  have : refTables.fin s.mode = .absent := h
  simp [this]

/-- running the rest of a literal: success adds the value; anything else is rejected -/
theorem lit_exec {m : Mode} {w : Bytes} {v : JV} (L : LitSpec m w v)
    (hlet : ∀ i, 1 ≤ i → i < w.length → expected m (w.getD i 0) = .tokenOk)
    (s0 : St) (hv : ValPos s0) :
    ∀ (n : Nat) (s : St), InLit m s0 s → s.ri + 1 + n + 1 = w.length →
      (∀ rest, ∃ s', Added s0 v s' ∧ exec s (w.drop (s.ri + 1) ++ rest) = exec s' rest) ∧
      (∀ bs, ¬ (w.drop (s.ri + 1)) <+: bs → exec s bs = none) := by
  intro n
  induction n with
  | zero =>
    intro s hin hlen
    have hk : s.ri + 1 < w.length := by omega
    have hdrop : w.drop (s.ri + 1) = [w.getD (s.ri + 1) 0] := by
      rw [drop_eq_getD_cons w _ hk]
      have : w.drop (s.ri + 1 + 1) = [] := List.drop_eq_nil_of_le (by omega)
      rw [this]
    have hact := hlet (s.ri + 1) (by omega) hk
    obtain ⟨s', hstep, hadded⟩ := lit_step_last L s0 s _ hv hin rfl hact (by omega)
    constructor
    · intro rest
      refine ⟨s', hadded, ?_⟩
      rw [hdrop]
      simp only [List.singleton_append, exec_cons, hstep]
    · intro bs hpre
      rw [hdrop] at hpre
      cases bs with
      | nil => exact exec_nil_of_absent s (by rw [hin.mode]; exact L.fin)
      | cons y r =>
        have hy : w.getD (s.ri + 1) 0 ≠ y := by
          intro h; apply hpre; rw [h]; exact ⟨r, rfl⟩
        obtain ⟨e, he⟩ := lit_step_bad L s y hin.mode hy
        rw [exec_cons, he]
  | succ n ih =>
    intro s hin hlen
    have hk : s.ri + 1 < w.length := by omega
    have hdrop := drop_eq_getD_cons w _ hk
    have hact := hlet (s.ri + 1) (by omega) hk
    have hstep := lit_step_mid L s _ hin.mode rfl hact (by omega)
    have hin1 : InLit m s0 { s with ri := s.ri + 1, pos := s.pos + 1, inFast := false } :=
      ⟨hin.mode, hin.starts, hin.stack, hin.docs, hin.next, rfl⟩
    obtain ⟨ih1, ih2⟩ := ih _ hin1 (by simp only; omega)
    constructor
    · intro rest
      obtain ⟨s', hadded, hex⟩ := ih1 rest
      refine ⟨s', hadded, ?_⟩
      rw [hdrop]
      simp only [List.cons_append, exec_cons, hstep]
      exact hex
    · intro bs hpre
      rw [hdrop] at hpre
      cases bs with
      | nil => exact exec_nil_of_absent s (by rw [hin.mode]; exact L.fin)
      | cons y r =>
        by_cases hy : w.getD (s.ri + 1) 0 = y
        · rw [exec_cons, ← hy, hstep]
          apply ih2
          intro hp
          apply hpre
          rw [← hy]
          obtain ⟨t, ht⟩ := hp
          exact ⟨t, by simp only [List.cons_append]; rw [ht]⟩
        · obtain ⟨e, he⟩ := lit_step_bad L s y hin.mode hy
          rw [exec_cons, he]


theorem startsWith_some (bs p rest : Bytes) : Spec.startsWith bs p = some rest ↔ bs = p ++ rest := by
  induction p generalizing bs with
  | nil => cases bs <;> simp [Spec.startsWith, eq_comm]
  | cons x q ih =>
    cases bs with
    | nil => simp [Spec.startsWith]
    | cons b r =>
      simp only [Spec.startsWith]
      by_cases hb : b = x
      · subst hb; simp [ih]
      · simp only [hb, ↓reduceIte, List.cons_append, List.cons.injEq, false_and]
        exact ⟨(fun h => nomatch h), (fun h => nomatch h)⟩

theorem startsWith_none (bs p : Bytes) : Spec.startsWith bs p = none ↔ ¬ p <+: bs := by
  constructor
  · intro h ⟨t, ht⟩
    have := (startsWith_some bs p t).mpr ht.symm
    rw [h] at this; cases this
  · intro h
    cases hs : Spec.startsWith bs p with
    | none => rfl
    | some rest => exact absurd ⟨rest, ((startsWith_some bs p rest).mp hs).symm⟩ h

/-- the first byte of a literal in value position -/
theorem step_valLit (s : St) (h : ValPos s) (b : UInt8) (m : Mode)
    (hact : ∀ md, md = Mode.value ∨ md = Mode.comma → expected md b =
      (if m = .null then Act.valNull else if m = .true_ then Act.valTrue else Act.valFalse))
    (hm : m = .null ∨ m = .true_ ∨ m = .false_) :
    step refTables cfg1 s b = .ok { s with mode := m, ri := 0, pos := s.pos + 1, inFast := false } := by
  have ha := hact s.mode h.mode
  unfold step stepAct
  have hd : ∀ md, md = Mode.null ∨ md = Mode.true_ ∨ md = Mode.false_ →
      deliver refTables cfg1 { s with mode := md, ri := 0 } = { s with mode := md, ri := 0 } := by
    intro md hmd
    unfold deliver
    rcases hmd with h | h | h <;> simp [refTables, expectedFin, h]
  rcases hm with hm | hm | hm <;> subst hm <;>
    simp only [show refTables.act s.mode b = _ from ha, Bool.false_eq_true, ↓reduceIte, reduceCtorEq] <;>
    rw [hd _ (by simp)]

/-- **Literals.** In value position, `null` / `true` / `false` add their value; any other
continuation of the first letter is rejected. -/
theorem exec_literal (s0 : St) (hv : ValPos s0) (b : UInt8) (m : Mode) (w : Bytes) (v : JV) (r : Bytes)
    (hcase : (b = 110 ∧ m = .null ∧ w = [110, 117, 108, 108] ∧ v = .null) ∨
             (b = 116 ∧ m = .true_ ∧ w = [116, 114, 117, 101] ∧ v = .bool true) ∨
             (b = 102 ∧ m = .false_ ∧ w = [102, 97, 108, 115, 101] ∧ v = .bool false)) :
    (∀ rest, Spec.startsWith r w.tail = some rest → ∃ s', Added s0 v s' ∧ exec s0 (b :: r) = exec s' rest) ∧
    (Spec.startsWith r w.tail = none → exec s0 (b :: r) = none) := by
  have key : ∀ (L : LitSpec m w v) (hlet : ∀ i, 1 ≤ i → i < w.length → expected m (w.getD i 0) = .tokenOk)
      (hlen : 3 ≤ w.length)
      (hstep : step refTables cfg1 s0 b = .ok { s0 with mode := m, ri := 0, pos := s0.pos + 1, inFast := false }),
      (∀ rest, Spec.startsWith r w.tail = some rest → ∃ s', Added s0 v s' ∧ exec s0 (b :: r) = exec s' rest) ∧
      (Spec.startsWith r w.tail = none → exec s0 (b :: r) = none) := by
    intro L hlet hlen hstep
    have hin : InLit m s0 { s0 with mode := m, ri := 0, pos := s0.pos + 1, inFast := false } :=
      ⟨rfl, rfl, rfl, rfl, hv.wf.ctl.next, rfl⟩
    obtain ⟨h1, h2⟩ := lit_exec L hlet s0 hv (w.length - 2) _ hin (by simp only; omega)
    have htail : w.drop (0 + 1) = w.tail := by cases w <;> rfl
    simp only [htail] at h1 h2
    constructor
    · intro rest hs
      obtain ⟨s', hadded, hex⟩ := h1 rest
      refine ⟨s', hadded, ?_⟩
      rw [(startsWith_some r w.tail rest).mp hs, exec_cons, hstep]
      exact hex
    · intro hs
      rw [exec_cons, hstep]
      exact h2 r ((startsWith_none r w.tail).mp hs)
  rcases hcase with ⟨rfl, rfl, rfl, rfl⟩ | ⟨rfl, rfl, rfl, rfl⟩ | ⟨rfl, rfl, rfl, rfl⟩
  · refine key litSpec_null ?_ (by decide) ?_
    · intro i h1 h2
      simp only [List.length_cons, List.length_nil] at h2
      have : i = 1 ∨ i = 2 ∨ i = 3 := by omega
      rcases this with h | h | h <;> subst h <;> decide
    · exact step_valLit s0 hv 110 .null (by intro md h; rcases h with h | h <;> subst h <;> decide) (Or.inl rfl)
  · refine key litSpec_true ?_ (by decide) ?_
    · intro i h1 h2
      simp only [List.length_cons, List.length_nil] at h2
      have : i = 1 ∨ i = 2 ∨ i = 3 := by omega
      rcases this with h | h | h <;> subst h <;> decide
    · exact step_valLit s0 hv 116 .true_ (by intro md h; rcases h with h | h <;> subst h <;> decide) (Or.inr (Or.inl rfl))
  · refine key litSpec_false ?_ (by decide) ?_
    · intro i h1 h2
      simp only [List.length_cons, List.length_nil] at h2
      have : i = 1 ∨ i = 2 ∨ i = 3 ∨ i = 4 := by omega
      rcases this with h | h | h | h <;> subst h <;> decide
    · exact step_valLit s0 hv 102 .false_ (by intro md h; rcases h with h | h <;> subst h <;> decide) (Or.inr (Or.inr rfl))


end OjgVerif.Json

namespace OjgVerif.Json
open OjgVerif

/-- the specification's string reader without surrogate pairing: what the machines implement
(known finding C02-surrogate); `Spec.pChars` differs only in combining `\uD8xx\uDCxx` -/
def pCharsM : Nat → Bytes → Option (Bytes × Bytes)
  | 0, _ => none
  | f+1, bs =>
    match bs with
    | [] => none
    | b :: r =>
      if b = 34 then some ([], r)
      else if b = 92 then
        match r with
        | [] => none
        | e :: r' =>
          if e = 117 then
            match Spec.hex4 r' with
            | none => none
            | some (u, r'') => (pCharsM f r'').map fun p => (Spec.utf8Enc u ++ p.1, p.2)
          else
            match Spec.escByte e with
            | some c => (pCharsM f r').map fun p => (c :: p.1, p.2)
            | none => none
      else if b < 32 then none
      else (pCharsM f r).map fun p => (b :: p.1, p.2)

/-- inside a string that started from state `s0` (key or value), `acc` bytes decoded so far -/
structure InStr (s0 s : St) (acc : Bytes) : Prop where
  mode : s.mode = .string
  tmp : s.tmp = acc.reverse
  starts : s.starts = s0.starts
  stack : s.stack = s0.stack
  docs : s.docs = s0.docs
  next : s.nextMode = s0.nextMode
  inFast : s.inFast = false

theorem deliver_id (s : St) (h : expectedFin s.mode ≠ .a) : deliver refTables cfg1 s = s := by
  unfold deliver
  have : refTables.fin s.mode ≠ .a := h
  simp [this]

/-- a plain character -/
theorem step_strOk (s : St) (b : UInt8) (hm : s.mode = .string) (hb : b ≠ 34 ∧ b ≠ 92 ∧ ¬ b < 32) :
    step refTables cfg1 s b = .ok { s with tmp := b :: s.tmp, pos := s.pos + 1, inFast := false } := by
  have hact : refTables.act s.mode b = .strOk := by
    rw [hm]; show expected .string b = _
    simp [expected, hb.1, hb.2.1, hb.2.2]
  unfold step stepAct
  simp only [hact, Bool.false_eq_true, ↓reduceIte]
  rw [deliver_id _ (by simp only [hm]; decide)]

theorem step_strCtl (s : St) (b : UInt8) (hm : s.mode = .string) (hb : b ≠ 34 ∧ b ≠ 92 ∧ b < 32) :
    ∃ e, step refTables cfg1 s b = .error e := by
  have hact : refTables.act s.mode b = .charErr := by
    rw [hm]; show expected .string b = _
    simp [expected, hb.1, hb.2.1, hb.2.2]
  unfold step stepAct
  simp only [hact]
  exact ⟨_, rfl⟩

/-- state after the backslash of an escape -/
def sEsc (s : St) : St := { s with mode := Mode.esc, pos := s.pos + 1, inFast := false }

theorem step_strSlash (s : St) (hm : s.mode = .string) :
    step refTables cfg1 s 92 = .ok (sEsc s) := by
  unfold sEsc
  have hact : refTables.act s.mode 92 = .strSlash := by rw [hm]; rfl
  unfold step stepAct
  simp only [hact, ↓reduceIte]

theorem step_escOk (s : St) (e c : UInt8) (hm : s.mode = .esc) (he : Spec.escByte e = some c) :
    step refTables cfg1 s e = .ok { s with tmp := c :: s.tmp, mode := .string, pos := s.pos + 1, inFast := false } := by
  have h2 : expected .esc e = .escOk ∧ unesc e = c := by
    unfold Spec.escByte at he
    simp only [expected, unesc]
    repeat' split at he
    all_goals first
      | (cases he; rename_i h; subst h; decide)
      | (cases he)
  have hact : refTables.act s.mode e = .escOk := by rw [hm]; exact h2.1
  have hesc : refTables.escByte e = c := h2.2
  unfold step stepAct
  simp only [hact, ↓reduceIte, hesc]


theorem step_escBad (s : St) (e : UInt8) (hm : s.mode = .esc) (he : Spec.escByte e = none) (hu : e ≠ 117) :
    ∃ err, step refTables cfg1 s e = .error err := by
  have hact : refTables.act s.mode e = .charErr := by
    rw [hm]; show expected .esc e = _
    unfold Spec.escByte at he
    simp only [expected]
    repeat' split at he
    all_goals first
      | cases he
      | skip
    rename_i h1 h2 h3 h4 h5 h6 h7 h8
    simp [h1, h2, h3, h4, h5, h6, h7, h8, hu]
  unfold step stepAct
  simp only [hact]
  exact ⟨_, rfl⟩

theorem step_escU (s : St) (hm : s.mode = .esc) :
    step refTables cfg1 s 117 = .ok { s with mode := .u, rn := 0, ri := 0, pos := s.pos + 1, inFast := false } := by
  have hact : refTables.act s.mode 117 = .escU := by rw [hm]; rfl
  unfold step stepAct
  simp only [hact, ↓reduceIte]

theorem hexNib_eq (b : UInt8) : hexDigitVal b = Spec.hexNib b ∨ Spec.isHex b = false := by
  unfold hexDigitVal Spec.hexNib Spec.isHex
  by_cases h1 : (48 ≤ b && b ≤ 57) = true
  · simp [h1]
  · by_cases h2 : (97 ≤ b && b ≤ 102) = true
    · simp [h1, h2]
    · by_cases h3 : (65 ≤ b && b ≤ 70) = true
      · simp [h1, h2, h3]
      · right; simp [h1, h2, h3]

theorem expected_u (b : UInt8) : expected .u b = if Spec.isHex b then .uOk else .charErr := rfl

/-- one hex digit of a `\uXXXX` escape (not the fourth) -/
theorem step_uMid (s : St) (b : UInt8) (hm : s.mode = .u) (hb : Spec.isHex b = true) (hri : s.ri + 1 ≠ 4) :
    step refTables cfg1 s b = .ok { s with ri := s.ri + 1, rn := s.rn * 16 + Spec.hexNib b, pos := s.pos + 1, inFast := false } := by
  have hact : refTables.act s.mode b = .uOk := by rw [hm]; show expected .u b = _; rw [expected_u, hb]; rfl
  have hn : hexDigitVal b = Spec.hexNib b := by
    rcases hexNib_eq b with h | h
    · exact h
    · rw [hb] at h; cases h
  unfold step stepAct
  simp only [hact, ↓reduceIte, hri, hn]

/-- the fourth hex digit: the rune is encoded and appended -/
theorem step_uLast (s : St) (b : UInt8) (hm : s.mode = .u) (hb : Spec.isHex b = true) (hri : s.ri + 1 = 4) :
    step refTables cfg1 s b = .ok ({ s with ri := s.ri + 1, rn := s.rn * 16 + Spec.hexNib b, tmp := (Spec.utf8Enc (s.rn * 16 + Spec.hexNib b)).reverse ++ s.tmp, mode := Mode.string, pos := s.pos + 1, inFast := false } : St) := by
  have hact : refTables.act s.mode b = .uOk := by rw [hm]; show expected .u b = _; rw [expected_u, hb]; rfl
  have hn : hexDigitVal b = Spec.hexNib b := by
    rcases hexNib_eq b with h | h
    · exact h
    · rw [hb] at h; cases h
  have henc : ∀ r, utf8Enc r = Spec.utf8Enc r := fun _ => rfl
  unfold step stepAct
  simp only [hact, ↓reduceIte, hri, hn, henc]

theorem step_uBad (s : St) (b : UInt8) (hm : s.mode = .u) (hb : Spec.isHex b = false) :
    ∃ e, step refTables cfg1 s b = .error e := by
  have hact : refTables.act s.mode b = .charErr := by
    rw [hm]; show expected .u b = _; rw [expected_u, hb]; rfl
  unfold step stepAct
  simp only [hact]
  exact ⟨_, rfl⟩


/-- `k` hex digits continuing the rune `acc` -/
def hexN : Nat → Nat → Bytes → Option (Nat × Bytes)
  | 0, acc, bs => some (acc, bs)
  | _ + 1, _, [] => none
  | k + 1, acc, b :: r => if Spec.isHex b then hexN k (acc * 16 + Spec.hexNib b) r else none

theorem hex4_eq_hexN (bs : Bytes) : Spec.hex4 bs = hexN 4 0 bs := by
  match bs with
  | [] => rfl
  | [a] => simp only [Spec.hex4, hexN]; split <;> rfl
  | [a, b] => simp only [Spec.hex4, hexN]; split <;> (try split) <;> rfl
  | [a, b, c] => simp only [Spec.hex4, hexN]; split <;> (try split) <;> (try split) <;> rfl
  | a :: b :: c :: d :: r =>
    simp only [Spec.hex4, hexN]
    by_cases ha : Spec.isHex a = true <;> by_cases hb : Spec.isHex b = true <;>
      by_cases hc : Spec.isHex c = true <;> by_cases hd : Spec.isHex d = true <;> simp [ha, hb, hc, hd]

/-- the hex digits of a unicode escape: all of them, or a rejection -/
theorem exec_hexN (k : Nat) : ∀ (s : St), s.mode = .u → s.ri + k = 4 → 1 ≤ k → ∀ bs,
    exec s bs = match hexN k s.rn bs with
      | none => none
      | some (u, rest) =>
        exec ({ s with ri := 4, rn := u, tmp := (Spec.utf8Enc u).reverse ++ s.tmp, mode := Mode.string, pos := s.pos + k, inFast := false } : St) rest := by
  induction k with
  | zero => intro s _ _ h; omega
  | succ k ih =>
    intro s hm hri hk bs
    cases bs with
    | nil => simp only [hexN]; exact exec_nil_of_absent s (by rw [hm]; rfl)
    | cons b r =>
      simp only [hexN]
      by_cases hb : Spec.isHex b = true
      · simp only [hb, ↓reduceIte]
        by_cases hk0 : k = 0
        · subst hk0
          rw [exec_cons, step_uLast s b hm hb (by omega)]
          simp only [hexN]
          have : s.ri + 1 = 4 := by omega
          rw [this]
        · rw [exec_cons, step_uMid s b hm hb (by omega)]
          simp only
          have := ih ({ s with ri := s.ri + 1, rn := s.rn * 16 + Spec.hexNib b, pos := s.pos + 1, inFast := false } : St)
            hm (by simp only; omega) (by omega) r
          rw [this]
          simp only
          cases hexN k (s.rn * 16 + Spec.hexNib b) r with
          | none => rfl
          | some p =>
            simp only
            have : s.pos + 1 + k = s.pos + (k + 1) := by omega
            rw [this]
      · have hb' : Spec.isHex b = false := by simpa using hb
        obtain ⟨e, he⟩ := step_uBad s b hm hb'
        rw [exec_cons, he]
        simp [hb']


theorem hexN_length (k acc : Nat) (bs : Bytes) (u : Nat) (rest : Bytes) (h : hexN k acc bs = some (u, rest)) :
    rest.length + k = bs.length := by
  induction k generalizing acc bs with
  | zero => simp only [hexN, Option.some.injEq, Prod.mk.injEq] at h; rw [h.2]; rfl
  | succ k ih =>
    cases bs with
    | nil => simp [hexN] at h
    | cons b r =>
      simp only [hexN] at h
      split at h
      · have := ih _ _ h; simp only [List.length_cons]; omega
      · cases h

/-- state after a complete unicode escape that decoded the rune `u` -/
def sUni (s : St) (u : Nat) : St :=
  { s with ri := 4, rn := u, tmp := (Spec.utf8Enc u).reverse ++ s.tmp, mode := Mode.string, pos := s.pos + 1 + 1 + 4, inFast := false }
/-- state after a simple escape that stands for the byte `c` -/
def sEscOk (s : St) (c : UInt8) : St :=
  { s with tmp := c :: s.tmp, mode := Mode.string, pos := s.pos + 1 + 1, inFast := false }
/-- state after a plain character -/
def sChr (s : St) (b : UInt8) : St := { s with tmp := b :: s.tmp, pos := s.pos + 1, inFast := false }

theorem exec_uni (s : St) (hm : s.mode = .string) (r' : Bytes) :
    exec s (92 :: 117 :: r') = match hexN 4 0 r' with
      | none => none
      | some (u, rest) => exec (sUni s u) rest := by
  rw [exec_cons, step_strSlash s hm]
  simp only
  rw [exec_cons, step_escU (sEsc s) rfl]
  simp only
  exact exec_hexN 4 _ rfl rfl (by omega) r'

theorem exec_escOk (s : St) (hm : s.mode = .string) (e c : UInt8) (hc : Spec.escByte e = some c) (r' : Bytes) :
    exec s (92 :: e :: r') = exec (sEscOk s c) r' := by
  rw [exec_cons, step_strSlash s hm]
  simp only
  rw [exec_cons, step_escOk (sEsc s) e c rfl hc]
  rfl

theorem exec_escBad (s : St) (hm : s.mode = .string) (e : UInt8) (hc : Spec.escByte e = none) (hu : e ≠ 117)
    (r' : Bytes) : exec s (92 :: e :: r') = none := by
  obtain ⟨err, he⟩ := step_escBad (sEsc s) e rfl hc hu
  rw [exec_cons, step_strSlash s hm]
  simp only
  rw [exec_cons]
  show (match step refTables cfg1 (sEsc s) e with | .error _ => none | .ok s' => exec s' r') = none
  rw [he]

theorem pCharsM_map_some {f : Nat} {r : Bytes} {g : Bytes → Bytes} {str rest : Bytes}
    (h : (pCharsM f r).map (fun p => (g p.1, p.2)) = some (str, rest)) :
    ∃ q, pCharsM f r = some (q, rest) ∧ str = g q := by
  cases hp : pCharsM f r with
  | none => rw [hp] at h; cases h
  | some q =>
    rw [hp] at h
    simp only [Option.map_some, Option.some.injEq, Prod.mk.injEq] at h
    exact ⟨q.1, by rw [← h.2], h.1.symm⟩

theorem pCharsM_map_none {f : Nat} {r : Bytes} {g : Bytes × Bytes → Bytes × Bytes}
    (h : (pCharsM f r).map g = none) : pCharsM f r = none := by
  cases hp : pCharsM f r with
  | none => rfl
  | some q => rw [hp] at h; cases h

/-- **Strings.** From inside a string (opening quote consumed, `acc` decoded so far) the machine
follows the specification's character reader: on success it stands before the closing quote with
exactly the decoded bytes pending; otherwise the input is rejected. -/
theorem exec_chars (fuel : Nat) : ∀ (s0 s : St) (acc bs : Bytes), InStr s0 s acc → bs.length < fuel →
    (∀ str rest, pCharsM fuel bs = some (str, rest) →
      ∃ s2, InStr s0 s2 (acc ++ str) ∧ exec s bs = exec s2 (34 :: rest)) ∧
    (pCharsM fuel bs = none → exec s bs = none) := by
  induction fuel with
  | zero => intro _ _ _ bs _ h; omega
  | succ f ih =>
    intro s0 s acc bs hin hlen
    have hm := hin.mode
    cases bs with
    | nil =>
      simp only [pCharsM]
      exact ⟨(fun _ _ h => nomatch h), fun _ => exec_nil_of_absent s (by rw [hm]; rfl)⟩
    | cons b r =>
      have hlr : r.length < f := by simp only [List.length_cons] at hlen; omega
      simp only [pCharsM]
      by_cases hq : b = 34
      · subst hq
        simp only [↓reduceIte]
        refine ⟨fun str rest h => ?_, (fun h => nomatch h)⟩
        simp only [Option.some.injEq, Prod.mk.injEq] at h
        obtain ⟨rfl, rfl⟩ := h
        exact ⟨s, by simpa using hin, rfl⟩
      · simp only [hq, ↓reduceIte]
        by_cases hs : b = 92
        · subst hs
          simp only [↓reduceIte]
          cases r with
          | nil =>
            refine ⟨(fun _ _ h => nomatch h), fun _ => ?_⟩
            rw [exec_cons, step_strSlash s hm]
            exact exec_nil_of_absent _ (by rfl)
          | cons e r' =>
            simp only
            by_cases hu : e = 117
            · subst hu
              simp only [↓reduceIte]
              rw [hex4_eq_hexN, exec_uni s hm]
              cases hh : hexN 4 0 r' with
              | none => exact ⟨(fun _ _ h => nomatch h), fun _ => rfl⟩
              | some p =>
                obtain ⟨u, r''⟩ := p
                simp only
                have hl := hexN_length 4 0 r' u r'' hh
                have hin2 : InStr s0 (sUni s u) (acc ++ Spec.utf8Enc u) :=
                  ⟨rfl, by simp [sUni, hin.tmp], hin.starts, hin.stack, hin.docs, hin.next, rfl⟩
                obtain ⟨ih1, ih2⟩ := ih s0 _ (acc ++ Spec.utf8Enc u) r'' hin2 (by simp only [List.length_cons] at hlr; omega)
                constructor
                · intro str rest h
                  obtain ⟨q, hq1, rfl⟩ := pCharsM_map_some (g := fun x => Spec.utf8Enc u ++ x) h
                  obtain ⟨s2, hin3, hex⟩ := ih1 q rest hq1
                  exact ⟨s2, by simpa [List.append_assoc] using hin3, hex⟩
                · intro h
                  exact ih2 (pCharsM_map_none h)
            · simp only [hu, ↓reduceIte]
              cases hc : Spec.escByte e with
              | none => exact ⟨(fun _ _ h => nomatch h), fun _ => exec_escBad s hm e hc hu r'⟩
              | some c =>
                simp only
                have hin2 : InStr s0 (sEscOk s c) (acc ++ [c]) :=
                  ⟨rfl, by simp [sEscOk, hin.tmp], hin.starts, hin.stack, hin.docs, hin.next, rfl⟩
                obtain ⟨ih1, ih2⟩ := ih s0 _ (acc ++ [c]) r' hin2 (by simp only [List.length_cons] at hlr; omega)
                rw [exec_escOk s hm e c hc]
                constructor
                · intro str rest h
                  obtain ⟨q, hq1, rfl⟩ := pCharsM_map_some (g := fun x => c :: x) h
                  obtain ⟨s2, hin3, hex⟩ := ih1 q rest hq1
                  exact ⟨s2, by simpa [List.append_assoc] using hin3, hex⟩
                · intro h
                  exact ih2 (pCharsM_map_none h)
        · simp only [hs, ↓reduceIte]
          by_cases hctl : b < 32
          · simp only [hctl, ↓reduceIte]
            refine ⟨(fun _ _ h => nomatch h), fun _ => ?_⟩
            obtain ⟨e, he⟩ := step_strCtl s b hm ⟨hq, hs, hctl⟩
            rw [exec_cons, he]
          · simp only [hctl, ↓reduceIte]
            have hin2 : InStr s0 (sChr s b) (acc ++ [b]) :=
              ⟨hm, by simp [sChr, hin.tmp], hin.starts, hin.stack, hin.docs, hin.next, rfl⟩
            obtain ⟨ih1, ih2⟩ := ih s0 _ (acc ++ [b]) r hin2 hlr
            rw [exec_cons, step_strOk s b hm ⟨hq, hs, hctl⟩]
            constructor
            · intro str rest h
              obtain ⟨q, hq1, rfl⟩ := pCharsM_map_some (g := fun x => b :: x) h
              obtain ⟨s2, hin3, hex⟩ := ih1 q rest hq1
              exact ⟨s2, by simpa [List.append_assoc] using hin3, hex⟩
            · intro h
              exact ih2 (pCharsM_map_none h)


end OjgVerif.Json

namespace OjgVerif.Json
open OjgVerif

/-- the number-internal transitions of the machine on the accumulator alone -/
def numStep (m : Mode) (n : Num) (b : UInt8) : Option (Mode × Num) :=
  match expected m b with
  | .val0 => some (.zero, n.reset)
  | .valDigit => some (.digit, { n.reset with i := (b - 48).toUInt64 })
  | .valNeg => some (.neg, { n.reset with neg := true })
  | .numZero => some (.zero, n)
  | .negDigit => some (.digit, n.addDigit b)
  | .numDigit => some (.digit, n.addDigit b)
  | .numDot => some (.dot, if 0 < n.big.length then { n with big := n.big ++ [b] } else n)
  | .numFrac => some (.frac, n.addFrac b)
  | .fracE => some (.expSign, if 0 < n.big.length then { n with big := n.big ++ [b] } else n)
  | .expSign => some (.expZero, { n with big := if 0 < n.big.length then n.big ++ [b] else n.big,
                                          negExp := n.negExp || b = 45 })
  | .expDigit => some (.exp, n.addExp b)
  | _ => none

/-- a number-internal step of the machine changes only mode, accumulator and offset -/
theorem step_num (s : St) (b : UInt8) (m' : Mode) (n' : Num) (hinf : s.inFast = false)
    (h : numStep s.mode s.num b = some (m', n')) :
    step refTables cfg1 s b = .ok { s with mode := m', num := n', pos := s.pos + 1, inFast := false } := by
  unfold numStep at h
  have hact0 : refTables.act s.mode b = expected s.mode b := rfl
  have hsrc := src_ok s.mode b
  unfold step stepAct
  rw [hact0]
  cases hact : expected s.mode b <;> simp only [hact] at h ⊢ <;> cases h
  all_goals simp only [Bool.false_eq_true, ↓reduceIte, hinf, Bool.false_and]
  case numDigit =>
    rw [hact] at hsrc
    simp only [srcModes, List.mem_singleton] at hsrc
    rw [deliver_id _ (by simp only [hsrc]; decide)]
    simp only [hsrc]
  case numDot =>
    by_cases hb : 0 < s.num.big.length
    · simp only [hb, decide_true, ↓reduceIte]
    · simp only [hb, decide_false, Bool.false_eq_true, ↓reduceIte]
      rw [deliver_id _ (by simp only; decide)]
  all_goals (try (rw [deliver_id _ (by simp only; decide)]))
  all_goals (try rfl)


/-- run number-internal steps as long as possible: final mode, accumulator and unread input -/
def numScan : Mode → Num → Bytes → Mode × Num × Bytes
  | m, n, [] => (m, n, [])
  | m, n, b :: r =>
    match numStep m n b with
    | some (m', n') => numScan m' n' r
    | none => (m, n, b :: r)

/-- state after a number scan -/
def sScan (s : St) (bs : Bytes) : St :=
  { s with mode := (numScan s.mode s.num bs).1, num := (numScan s.mode s.num bs).2.1,
           pos := s.pos + (bs.length - (numScan s.mode s.num bs).2.2.length), inFast := false }

theorem numScan_length (m : Mode) (n : Num) (bs : Bytes) : (numScan m n bs).2.2.length ≤ bs.length := by
  induction bs generalizing m n with
  | nil => simp [numScan]
  | cons b r ih =>
    simp only [numScan]
    split
    · rename_i m' n' _
      have := ih m' n'; simp only [List.length_cons]; omega
    · simp

theorem exec_scan (bs : Bytes) : ∀ (s : St), s.inFast = false →
    exec s bs = exec (sScan s bs) (numScan s.mode s.num bs).2.2 := by
  induction bs with
  | nil =>
    intro s hinf
    have : sScan s [] = s := by
      unfold sScan; simp only [numScan, List.length_nil, Nat.sub_self, Nat.add_zero]
      cases s; simp_all
    rw [this]; rfl
  | cons b r ih =>
    intro s hinf
    cases hst : numStep s.mode s.num b with
    | none =>
      have : sScan s (b :: r) = s := by
        unfold sScan; simp only [numScan, hst, Nat.sub_self, Nat.add_zero]
        cases s; simp_all
      rw [this]; simp only [numScan, hst]
    | some p =>
      obtain ⟨m', n'⟩ := p
      rw [exec_cons, step_num s b m' n' hinf hst]
      simp only
      rw [ih _ rfl]
      have hl := numScan_length m' n' r
      have hs : sScan ({ s with mode := m', num := n', pos := s.pos + 1, inFast := false } : St) r = sScan s (b :: r) := by
        unfold sScan
        simp only [numScan, hst, List.length_cons]
        have : s.pos + 1 + (r.length - (numScan m' n' r).2.2.length) = s.pos + (r.length + 1 - (numScan m' n' r).2.2.length) := by omega
        rw [this]
      rw [hs]
      simp only [numScan, hst]


/-- a complete number is pending in state `s`, which started in value position `s0` -/
structure InNum (s0 s : St) : Prop where
  fin : s.mode = .zero ∨ s.mode = .digit ∨ s.mode = .frac ∨ s.mode = .exp
  starts : s.starts = s0.starts
  stack : s.stack = s0.stack
  docs : s.docs = s0.docs
  next : s.nextMode = .colon ∨ s.nextMode = .after
  inFast : s.inFast = false

def isFinalNum (m : Mode) : Bool := m == .zero || m == .digit || m == .frac || m == .exp

/-- what follows a number: how the same byte reads in `after` / `space` mode -/
theorem numEnd_facts (m : Mode) (h : UInt8) (hm : isFinalNum m = true) :
    (expected m h = .numSpc → expected .after h = .skipChar ∧ expected .space h = .skipChar) ∧
    (expected m h = .numNewline → expected .after h = .skipNewline ∧ expected .space h = .skipNewline) ∧
    (expected m h = .numComma → expected .after h = .afterComma ∧ expected .space h = .charErr) ∧
    (expected m h = .closeArray → expected .after h = .closeArray ∧ expected .space h = .charErr) ∧
    (expected m h = .closeObject → expected .after h = .closeObject ∧ expected .space h = .charErr) ∧
    (expected m h = .charErr → expected .after h = .charErr ∧ expected .space h = .charErr) := by
  have := forall_mode_byte (fun m h => !isFinalNum m ||
      ((!(expected m h == .numSpc) || (expected .after h == .skipChar && expected .space h == .skipChar)) &&
       (!(expected m h == .numNewline) || (expected .after h == .skipNewline && expected .space h == .skipNewline)) &&
       (!(expected m h == .numComma) || (expected .after h == .afterComma && expected .space h == .charErr)) &&
       (!(expected m h == .closeArray) || (expected .after h == .closeArray && expected .space h == .charErr)) &&
       (!(expected m h == .closeObject) || (expected .after h == .closeObject && expected .space h == .charErr)) &&
       (!(expected m h == .charErr) || (expected .after h == .charErr && expected .space h == .charErr))))
    (by decide +kernel) m h
  simp only [hm, Bool.not_true, Bool.false_or, Bool.and_eq_true, Bool.or_eq_true, Bool.not_eq_eq_eq_not,
    beq_iff_eq, bne_iff_ne, ne_eq] at this
  obtain ⟨⟨⟨⟨⟨h1, h2⟩, h3⟩, h4⟩, h5⟩, h6⟩ := this
  refine ⟨?_, ?_, ?_, ?_, ?_, ?_⟩ <;> intro hh
  · rcases h1 with h | h; exact absurd hh (by simpa using h); exact h
  · rcases h2 with h | h; exact absurd hh (by simpa using h); exact h
  · rcases h3 with h | h; exact absurd hh (by simpa using h); exact h
  · rcases h4 with h | h; exact absurd hh (by simpa using h); exact h
  · rcases h5 with h | h; exact absurd hh (by simpa using h); exact h
  · rcases h6 with h | h; exact absurd hh (by simpa using h); exact h


theorem St.add_withMode (s : St) (m : Mode) (v : JV) :
    ({ s with mode := m } : St).add v = match s.add v with
      | .error e => .error e
      | .ok x => .ok { x with mode := m } := by
  unfold St.add
  cases addItem v s.stack <;> rfl

theorem St.popArr_withMode (s : St) (m : Mode) (rest : List Bool) :
    ({ s with mode := m } : St).popArr rest = match s.popArr rest with
      | .error e => .error e
      | .ok x => .ok { x with mode := m } := by
  unfold St.popArr
  simp only
  cases splitAtMark s.stack [] with
  | none => rfl
  | some p => exact St.add_withMode { s with starts := rest, stack := p.2 } m (.arr p.1)

theorem St.popObj_withMode (s : St) (m : Mode) (rest : List Bool) :
    ({ s with mode := m } : St).popObj rest = match s.popObj rest with
      | .error e => .error e
      | .ok x => .ok { x with mode := m } := by
  unfold St.popObj
  simp only
  cases s.stack with
  | nil => rfl
  | cons top below => exact St.add_withMode { s with starts := rest, stack := below } m top.toJV

/-- the state with the pending number added: what every number-ending transition starts from -/
def sNumAdded (s : St) (st' : List Item) : St := { s with mode := Mode.after, stack := st' }


theorem deliver_after (s : St) (hm : s.mode = .after) :
    deliver refTables cfg1 s =
      if s.starts.isEmpty then
        { s with docs := (match s.stack.getLast? with | some it => it.toJV | none => JV.null) :: s.docs,
                 stack := [], mode := Mode.space }
      else s := by
  unfold deliver
  have : refTables.fin s.mode = .a := by rw [hm]; rfl
  simp only [this, decide_true, Bool.and_true, cfg1]
  rfl

theorem finish_num (s : St) (st' : List Item) (hst : s.starts = []) (hfin : refTables.fin s.mode = .n)
    (hadd : s.addNum = .ok { s with stack := st' }) :
    finish refTables s = .ok ((match st'.getLast? with | some it => it.toJV | none => JV.null) :: s.docs).reverse := by
  unfold finish
  have h1 : refTables.fin s.mode ≠ .absent := by rw [hfin]; decide
  simp only [hst, List.isEmpty_nil, Bool.not_true, Bool.false_or, hfin, hadd, ↓reduceIte]
  rfl

theorem finish_space (s : St) (hst : s.starts = []) (hm : s.mode = .space) :
    finish refTables s = .ok s.docs.reverse := by
  unfold finish
  have h1 : refTables.fin s.mode = .s := by rw [hm]; rfl
  simp [hst, h1]

theorem finish_open (s : St) (x : Bool) (ss : List Bool) (hst : s.starts = x :: ss) :
    ∃ e, finish refTables s = .error e := by
  unfold finish
  simp [hst]

/-- **A number ends.** In a final number mode, with input that does not continue the number, the
machine behaves exactly as if the number had been added as a complete value first. -/
theorem exec_numEnd (s0 s : St) (hv : ValPos s0) (hin : InNum s0 s) (rest : Bytes)
    (hrest : rest = [] ∨ ∃ h t, rest = h :: t ∧ numStep s.mode s.num h = none) :
    ∃ s', Added s0 s.num.asNum.toJV s' ∧ exec s rest = exec s' rest := by
  have hsh : Shape s0.starts s0.stack true := by
    have := hv.wf.shape; rw [needVal_of_valpos hv] at this; exact this
  obtain ⟨st', hadd, hadded⟩ := added_of_add s0 s s.num.asNum.toJV hv.wf hsh ⟨hin.starts, hin.stack, hin.docs⟩ hin.next hin.inFast
  have haddN : s.addNum = .ok { s with stack := st' } := by
    have h1 := St.add_withMode s .after s.num.asNum.toJV
    rw [hadd] at h1
    unfold St.addNum
    cases hs : s.add s.num.asNum.toJV with
    | error e => rw [hs] at h1; cases h1
    | ok x =>
      rw [hs] at h1
      simp only [Except.ok.injEq] at h1
      unfold St.add at hs
      cases ha : addItem s.num.asNum.toJV s.stack with
      | error w => rw [ha] at hs; cases hs
      | ok st =>
        rw [ha] at hs
        simp only [Except.ok.injEq] at hs
        subst hs
        simp only [St.mk.injEq] at h1
        rw [h1.2.2.2.1]
  refine ⟨deliver refTables cfg1 (sNumAdded s st'), hadded, ?_⟩
  have hfinN : refTables.fin s.mode = .n := by
    rcases hin.fin with h | h | h | h <;> (rw [h]; rfl)
  have hfinal : isFinalNum s.mode = true := by
    rcases hin.fin with h | h | h | h <;> simp [isFinalNum, h]
  have hdA := deliver_after (sNumAdded s st') rfl
  rcases hrest with hnil | ⟨h, t, hht, hnone⟩
  · -- end of input
    subst hnil
    unfold exec
    simp only [runBytes]
    cases hst : s.starts with
    | nil =>
      have he : (sNumAdded s st').starts.isEmpty = true := by simp [sNumAdded, hst]
      rw [hdA]
      simp only [he, ↓reduceIte]
      rw [finish_num s st' hst hfinN haddN, finish_space _ (by simp [sNumAdded, hst]) rfl]
      rfl
    | cons x ss =>
      have he : (sNumAdded s st').starts.isEmpty = false := by simp [sNumAdded, hst]
      rw [hdA]
      simp only [he, Bool.false_eq_true, ↓reduceIte]
      obtain ⟨e1, h1⟩ := finish_open s x ss hst
      obtain ⟨e2, h2⟩ := finish_open (sNumAdded s st') x ss (by simp [sNumAdded, hst])
      rw [h1, h2]
  · -- a byte follows
    subst hht
    have hsrc := src_ok s.mode h
    have hfacts := numEnd_facts s.mode h hfinal
    have hact0 : refTables.act s.mode h = expected s.mode h := rfl
    rw [exec_cons, exec_cons]
    -- the delivered state, concretely
    obtain ⟨S, hS, hSm, hSpos, hSinf⟩ : ∃ S, deliver refTables cfg1 (sNumAdded s st') = S ∧
        ((s.starts = [] ∧ S.mode = .space) ∨ (s.starts ≠ [] ∧ S = sNumAdded s st')) ∧ S.pos = s.pos ∧ S.inFast = false := by
      refine ⟨_, rfl, ?_, ?_, ?_⟩
      · rw [hdA]
        cases hst : s.starts with
        | nil => left; simp [sNumAdded, hst]
        | cons x ss => right; simp [sNumAdded, hst]
      · rw [hdA]; split <;> rfl
      · rw [hdA]; split <;> simp [sNumAdded, hin.inFast]
    rw [hS]
    have hreadS : ∀ a1 a2, expected .after h = a1 → expected .space h = a2 →
        refTables.act S.mode h = (if s.starts = [] then a2 else a1) := by
      intro a1 a2 h1 h2
      rcases hSm with ⟨h0, hm⟩ | ⟨h0, hm⟩
      · rw [hm, if_pos h0]; exact h2
      · rw [hm, if_neg h0]; exact h1
    cases hact : expected s.mode h
    case numSpc =>
      obtain ⟨ha, hsp⟩ := hfacts.1 hact
      have hl : step refTables cfg1 s h = .ok { S with pos := S.pos + 1, inFast := false } := by
        unfold step stepAct
        simp only [hact0, hact, haddN, bind, Except.bind, pure, Except.pure, Bool.false_eq_true, ↓reduceIte]
        rw [← hS]; rfl
      have hr : step refTables cfg1 S h = .ok { S with pos := S.pos + 1, inFast := false } := by
        have : refTables.act S.mode h = .skipChar := by rw [hreadS _ _ ha hsp]; split <;> rfl
        unfold step stepAct
        simp only [this, ↓reduceIte]
      rw [hl, hr]
    case numNewline =>
      obtain ⟨ha, hsp⟩ := hfacts.2.1 hact
      have hl : step refTables cfg1 s h = .ok { S with line := S.line + 1, nl := S.pos, pos := S.pos + 1, inFast := false } := by
        unfold step stepAct
        simp only [hact0, hact, haddN, bind, Except.bind, pure, Except.pure, Bool.false_eq_true, ↓reduceIte]
        rw [← hS, hdA]
        have hd2 := deliver_after ({ s with stack := st', line := s.line + 1, nl := (s.pos : Int), mode := Mode.after } : St) rfl
        rw [hd2]
        simp only [sNumAdded]
        by_cases he : s.starts.isEmpty = true
        · simp [he]
        · simp [he]
      have hr : step refTables cfg1 S h = .ok { S with line := S.line + 1, nl := S.pos, pos := S.pos + 1, inFast := false } := by
        have : refTables.act S.mode h = .skipNewline := by rw [hreadS _ _ ha hsp]; split <;> rfl
        unfold step stepAct
        simp only [this, ↓reduceIte]
      rw [hl, hr]
    case charErr =>
      obtain ⟨ha, hsp⟩ := hfacts.2.2.2.2.2 hact
      have hl : ∃ e, step refTables cfg1 s h = .error e := by
        unfold step stepAct
        simp only [hact0, hact]
        exact ⟨_, rfl⟩
      have hr : ∃ e, step refTables cfg1 S h = .error e := by
        have : refTables.act S.mode h = .charErr := by rw [hreadS _ _ ha hsp]; split <;> rfl
        unfold step stepAct
        simp only [this]
        exact ⟨_, rfl⟩
      obtain ⟨e1, h1⟩ := hl
      obtain ⟨e2, h2⟩ := hr
      rw [h1, h2]
    case numComma =>
      obtain ⟨ha, hsp⟩ := hfacts.2.2.1 hact
      rcases hSm with ⟨h0, hm⟩ | ⟨h0, hm⟩
      · -- top level: both reject
        have hl : ∃ e, step refTables cfg1 s h = .error e := by
          unfold step stepAct
          simp only [hact0, hact, haddN, bind, Except.bind, h0]
          exact ⟨_, rfl⟩
        have hr : ∃ e, step refTables cfg1 S h = .error e := by
          have : refTables.act S.mode h = .charErr := by rw [hm]; exact hsp
          unfold step stepAct
          simp only [this]
          exact ⟨_, rfl⟩
        obtain ⟨e1, h1⟩ := hl
        obtain ⟨e2, h2⟩ := hr
        rw [h1, h2]
      · subst hm
        obtain ⟨x, ss, hst⟩ := List.exists_cons_of_ne_nil h0
        have hne : ∀ t : St, t.starts = x :: ss → expectedFin (afterCommaMode t) ≠ .a := by
          intro t ht
          unfold afterCommaMode; rw [ht]; cases x <;> simp [expectedFin]
        have hl : step refTables cfg1 s h = .ok { sNumAdded s st' with mode := afterCommaMode (sNumAdded s st'), pos := s.pos + 1, inFast := false } := by
          unfold step stepAct
          simp only [hact0, hact, haddN, bind, Except.bind, pure, Except.pure, hst, Bool.false_eq_true, ↓reduceIte]
          rw [deliver_id _ (by simp only; exact hne _ rfl)]
          simp only [sNumAdded, afterCommaMode, hst]
        have hr : step refTables cfg1 (sNumAdded s st') h = .ok { sNumAdded s st' with mode := afterCommaMode (sNumAdded s st'), pos := s.pos + 1, inFast := false } := by
          have : refTables.act (sNumAdded s st').mode h = .afterComma := ha
          unfold step stepAct
          simp only [this, ↓reduceIte]
          simp only [sNumAdded, afterCommaMode, hst]
        rw [hl, hr]
    case closeArray =>
      obtain ⟨ha, hsp⟩ := hfacts.2.2.2.1 hact
      rcases hSm with ⟨h0, hm⟩ | ⟨h0, hm⟩
      · have hl : ∃ e, step refTables cfg1 s h = .error e := by
          unfold step stepAct
          simp only [hact0, hact, h0]
          exact ⟨_, rfl⟩
        have hr : ∃ e, step refTables cfg1 S h = .error e := by
          have : refTables.act S.mode h = .charErr := by rw [hm]; exact hsp
          unfold step stepAct
          simp only [this]
          exact ⟨_, rfl⟩
        obtain ⟨e1, h1⟩ := hl
        obtain ⟨e2, h2⟩ := hr
        rw [h1, h2]
      · subst hm
        obtain ⟨x, ss, hst⟩ := List.exists_cons_of_ne_nil h0
        have hactA : refTables.act (sNumAdded s st').mode h = .closeArray := ha
        have hflA : (sNumAdded s st').flushNum refTables = .ok (sNumAdded s st') := by
          unfold St.flushNum
          have : refTables.fin (sNumAdded s st').mode ≠ .n := by simp only [sNumAdded]; decide
          simp [this]
        have hflS : s.flushNum refTables = .ok { s with stack := st' } := by
          unfold St.flushNum; rw [if_pos hfinN]; exact haddN
        have hpop := St.popArr_withMode ({ s with stack := st' } : St) .after ss
        cases x with
        | false =>
          have hl : ∃ e, step refTables cfg1 s h = .error e := by
            unfold step stepAct
            simp only [hact0, hact, hst]
            exact ⟨_, rfl⟩
          have hr : ∃ e, step refTables cfg1 (sNumAdded s st') h = .error e := by
            unfold step stepAct
            simp only [hactA]
            simp only [sNumAdded, hst]
            exact ⟨_, rfl⟩
          obtain ⟨e1, h1⟩ := hl
          obtain ⟨e2, h2⟩ := hr
          rw [h1, h2]
        | true =>
          have heq : step refTables cfg1 s h = step refTables cfg1 (sNumAdded s st') h := by
            have hst2 : (sNumAdded s st').starts = true :: ss := hst
            have hpop2 : (sNumAdded s st').popArr ss = _ := hpop
            unfold step stepAct
            rw [hact0, hact, hactA]
            simp only [hst, hst2, hflS, hflA, bind, Except.bind, pure, Except.pure, hpop2]
            generalize St.popArr _ ss = r
            cases r <;> rfl
          rw [heq]
    case closeObject =>
      obtain ⟨ha, hsp⟩ := hfacts.2.2.2.2.1 hact
      rcases hSm with ⟨h0, hm⟩ | ⟨h0, hm⟩
      · have hl : ∃ e, step refTables cfg1 s h = .error e := by
          unfold step stepAct
          simp only [hact0, hact, h0]
          exact ⟨_, rfl⟩
        have hr : ∃ e, step refTables cfg1 S h = .error e := by
          have : refTables.act S.mode h = .charErr := by rw [hm]; exact hsp
          unfold step stepAct
          simp only [this]
          exact ⟨_, rfl⟩
        obtain ⟨e1, h1⟩ := hl
        obtain ⟨e2, h2⟩ := hr
        rw [h1, h2]
      · subst hm
        obtain ⟨x, ss, hst⟩ := List.exists_cons_of_ne_nil h0
        have hactA : refTables.act (sNumAdded s st').mode h = .closeObject := ha
        have hflA : (sNumAdded s st').flushNum refTables = .ok (sNumAdded s st') := by
          unfold St.flushNum
          have : refTables.fin (sNumAdded s st').mode ≠ .n := by simp only [sNumAdded]; decide
          simp [this]
        have hflS : s.flushNum refTables = .ok { s with stack := st' } := by
          unfold St.flushNum; rw [if_pos hfinN]; exact haddN
        have hpop := St.popObj_withMode ({ s with stack := st' } : St) .after ss
        have hvS : refTables.fin s.mode ≠ .v := by rw [hfinN]; decide
        have hvA : refTables.fin (sNumAdded s st').mode ≠ .v := by simp only [sNumAdded]; decide
        cases x with
        | true =>
          have hl : ∃ e, step refTables cfg1 s h = .error e := by
            unfold step stepAct
            simp only [hact0, hact, hst]
            exact ⟨_, rfl⟩
          have hr : ∃ e, step refTables cfg1 (sNumAdded s st') h = .error e := by
            unfold step stepAct
            simp only [hactA]
            simp only [sNumAdded, hst]
            exact ⟨_, rfl⟩
          obtain ⟨e1, h1⟩ := hl
          obtain ⟨e2, h2⟩ := hr
          rw [h1, h2]
        | false =>
          have heq : step refTables cfg1 s h = step refTables cfg1 (sNumAdded s st') h := by
            have hst2 : (sNumAdded s st').starts = false :: ss := hst
            have hpop2 : (sNumAdded s st').popObj ss = _ := hpop
            unfold step stepAct
            rw [hact0, hact, hactA]
            simp only [hst, hst2, hvS, hvA, ↓reduceIte, hflS, hflA, bind, Except.bind, pure, Except.pure, hpop2]
            generalize St.popObj _ ss = r
            cases r <;> rfl
          rw [heq]
    all_goals (
      exfalso
      first
      | (simp [numStep, hact] at hnone; done)
      | (rw [hact] at hsrc; simp only [srcModes, List.mem_cons, List.not_mem_nil, or_false] at hsrc; done)
      | (rw [hact] at hsrc; simp only [srcModes, List.mem_cons, List.not_mem_nil, or_false] at hsrc
         rcases hin.fin with hq | hq | hq | hq <;> simp [hq] at hsrc))


end OjgVerif.Json
