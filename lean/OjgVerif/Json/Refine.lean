import OjgVerif.Json.Wf
import OjgVerif.Json.Spec
/-! Refinement of the RFC 8259 recursive-descent specification (`Json/Spec.lean`) by the reference
automaton: work in progress towards `exec {} bs = specExec bs`. Everything in this file is proved;
the final theorem is not there yet (see Props/C01 for what is claimed). -/
namespace OjgVerif.Json
open OjgVerif

/-- single-document, byte-at-a-time configuration (oj.Validator / oj.Tokenizer; the parsers differ
only by the pinned integer fast loop) -/
def cfg1 : Cfg := {}

/-- outcome of running the reference automaton from state `s` over `bs` and ending the input -/
def exec (s : St) (bs : Bytes) : Option (List JV) :=
  match runBytes refTables cfg1 s bs with
  | .error _ => none
  | .ok s' =>
    match finish refTables s' with
    | .error _ => none
    | .ok docs => some docs

theorem exec_cons (s : St) (b : UInt8) (r : Bytes) :
    exec s (b :: r) = match step refTables cfg1 s b with
      | .error _ => none
      | .ok s' => exec s' r := by
  unfold exec
  simp only [runBytes]
  cases step refTables cfg1 s b <;> rfl

theorem exec_append (s : St) (a b : Bytes) :
    exec s (a ++ b) = match runBytes refTables cfg1 s a with
      | .error _ => none
      | .ok s' => exec s' b := by
  induction a generalizing s with
  | nil => rfl
  | cons x r ih =>
    simp only [List.cons_append, exec_cons, runBytes]
    cases step refTables cfg1 s x with
    | error e => rfl
    | ok s' => exact ih s'

end OjgVerif.Json

namespace OjgVerif.Json
open OjgVerif

/-- the machine is where a value may start -/
structure ValPos (s : St) : Prop where
  wf : WF s
  mode : s.mode = .value ∨ s.mode = .comma

/-- `s'` is `s` after the value `v` has been completed: added to the enclosing container, or
delivered as the document at top level -/
def Added (s : St) (v : JV) (s' : St) : Prop :=
  WF s' ∧ s'.starts = s.starts ∧
  (match s.starts with
   | [] => s'.mode = .space ∧ s'.stack = [] ∧ s'.docs = v :: s.docs
   | _ :: _ => s'.mode = .after ∧ s'.docs = s.docs ∧ addItem v s.stack = .ok s'.stack)

theorem needVal_of_valpos {s : St} (h : ValPos s) : needVal s.mode s.nextMode = true := by
  rcases h.mode with h | h <;> simp [needVal, h]

/-- completing a value from any state whose build stack expects one: the generic tail of every
"add, switch to after mode, deliver" sequence -/
theorem added_of_add (s0 s1 : St) (v : JV) (hw0 : WF s0)
    (hsh : Shape s0.starts s0.stack true)
    (hs1 : s1.starts = s0.starts ∧ s1.stack = s0.stack ∧ s1.docs = s0.docs)
    (hnext : s1.nextMode = .colon ∨ s1.nextMode = .after) :
    ∃ st', ({ s1 with mode := .after } : St).add v = .ok { s1 with mode := .after, stack := st' } ∧
      Added s0 v (deliver refTables cfg1 { s1 with mode := .after, stack := st' }) := by
  obtain ⟨hst, hsk, hdoc⟩ := hs1
  have hsh1 : Shape ({ s1 with mode := Mode.after } : St).starts ({ s1 with mode := Mode.after } : St).stack true := by
    simp only [hst, hsk]; exact hsh
  obtain ⟨st', hadd, hsa⟩ := St.add_ok { s1 with mode := .after } v hsh1
  refine ⟨st', hadd, ?_⟩
  have hadd' : addItem v s0.stack = .ok st' := by
    unfold St.add at hadd
    simp only [hsk] at hadd
    cases ha : addItem v s0.stack with
    | error w => rw [ha] at hadd; cases hadd
    | ok x => rw [ha] at hadd; simp only [Except.ok.injEq, St.mk.injEq] at hadd; rw [hadd.2.2.2.1]
  -- WF of the delivered state via the generic lemma
  have hpre : WFpre ({ s1 with mode := .after, stack := st' } : St) false := by
    refine ⟨⟨(fun h => nomatch h), (fun h => nomatch h), hnext⟩, ?_, (fun h => nomatch h), fun hnn => ?_⟩
    · intro h; rcases h with h | h | h | ⟨h | h | h, _⟩ <;> cases h
    · have hne : s1.starts ≠ [] := fun h0 => hnn ⟨h0, rfl⟩
      exact hsa.shape hne
  have hwf := deliver_wf cfg1 _ false hpre
  simp only [Bool.false_eq_true, ↓reduceIte] at hwf
  refine ⟨hwf, ?_, ?_⟩
  · unfold deliver; split <;> simp [hst]
  · cases hs : s0.starts with
    | nil =>
      have : ({ s1 with mode := .after, stack := st' } : St).starts.isEmpty = true := by simp [hst, hs]
      unfold deliver
      simp only [this, refTables, expectedFin, decide_true, Bool.and_self, ↓reduceIte, cfg1]
      obtain ⟨w, hw⟩ : ∃ w, st' = [.val w] := by
        have := hsa; simp only [hst, hs, ShapeAdded] at this; exact this
      have hv : w = v := by
        rw [hs] at hsh
        simp only [Shape] at hsh
        rw [hsh, hw] at hadd'
        simp only [addItem, Except.ok.injEq, List.cons.injEq, Item.val.injEq, and_true] at hadd'
        exact hadd'.symm
      subst hw; subst hv
      simp [hdoc, Item.toJV]
    | cons x ss =>
      have : ({ s1 with mode := .after, stack := st' } : St).starts.isEmpty = false := by simp [hst, hs]
      unfold deliver
      simp only [this, Bool.false_and, Bool.false_eq_true, ↓reduceIte]
      simp [hdoc, hadd']

end OjgVerif.Json
