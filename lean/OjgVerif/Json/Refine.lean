import OjgVerif.Json.Wf
import OjgVerif.Json.Spec
/-! Refinement of the RFC 8259 recursive-descent specification (`Json/Spec.lean`) by the reference
automaton: work in progress towards `exec {} bs = specExec bs`. Everything in this file is proved;
the final theorem is not there yet (see Props/C01 for what is claimed). -/
namespace OjgVerif.Json
open OjgVerif

/-- single-document, byte-at-a-time configuration (oj.Validator / oj.Tokenizer; the parsers differ
only by the pinned integer fast loop) -/
def cfg1 : Cfg := {}

/-- outcome of running the reference automaton from state `s` over `bs` and ending the input -/
def exec (s : St) (bs : Bytes) : Option (List JV) :=
  match runBytes refTables cfg1 s bs with
  | .error _ => none
  | .ok s' =>
    match finish refTables s' with
    | .error _ => none
    | .ok docs => some docs

theorem exec_cons (s : St) (b : UInt8) (r : Bytes) :
    exec s (b :: r) = match step refTables cfg1 s b with
      | .error _ => none
      | .ok s' => exec s' r := by
  unfold exec
  simp only [runBytes]
  cases step refTables cfg1 s b <;> rfl

theorem exec_append (s : St) (a b : Bytes) :
    exec s (a ++ b) = match runBytes refTables cfg1 s a with
      | .error _ => none
      | .ok s' => exec s' b := by
  induction a generalizing s with
  | nil => rfl
  | cons x r ih =>
    simp only [List.cons_append, exec_cons, runBytes]
    cases step refTables cfg1 s x with
    | error e => rfl
    | ok s' => exact ih s'

end OjgVerif.Json

namespace OjgVerif.Json
open OjgVerif

/-- the machine is where a value may start -/
structure ValPos (s : St) : Prop where
  wf : WF s
  mode : s.mode = .value ∨ s.mode = .comma

/-- `s'` is `s` after the value `v` has been completed: added to the enclosing container, or
delivered as the document at top level -/
def Added (s : St) (v : JV) (s' : St) : Prop :=
  WF s' ∧ s'.starts = s.starts ∧
  (match s.starts with
   | [] => s'.mode = .space ∧ s'.stack = [] ∧ s'.docs = v :: s.docs
   | _ :: _ => s'.mode = .after ∧ s'.docs = s.docs ∧ addItem v s.stack = .ok s'.stack)

theorem needVal_of_valpos {s : St} (h : ValPos s) : needVal s.mode s.nextMode = true := by
  rcases h.mode with h | h <;> simp [needVal, h]

/-- completing a value from any state whose build stack expects one: the generic tail of every
"add, switch to after mode, deliver" sequence -/
theorem added_of_add (s0 s1 : St) (v : JV) (hw0 : WF s0)
    (hsh : Shape s0.starts s0.stack true)
    (hs1 : s1.starts = s0.starts ∧ s1.stack = s0.stack ∧ s1.docs = s0.docs)
    (hnext : s1.nextMode = .colon ∨ s1.nextMode = .after) :
    ∃ st', ({ s1 with mode := .after } : St).add v = .ok { s1 with mode := .after, stack := st' } ∧
      Added s0 v (deliver refTables cfg1 { s1 with mode := .after, stack := st' }) := by
  obtain ⟨hst, hsk, hdoc⟩ := hs1
  have hsh1 : Shape ({ s1 with mode := Mode.after } : St).starts ({ s1 with mode := Mode.after } : St).stack true := by
    simp only [hst, hsk]; exact hsh
  obtain ⟨st', hadd, hsa⟩ := St.add_ok { s1 with mode := .after } v hsh1
  refine ⟨st', hadd, ?_⟩
  have hadd' : addItem v s0.stack = .ok st' := by
    unfold St.add at hadd
    simp only [hsk] at hadd
    cases ha : addItem v s0.stack with
    | error w => rw [ha] at hadd; cases hadd
    | ok x => rw [ha] at hadd; simp only [Except.ok.injEq, St.mk.injEq] at hadd; rw [hadd.2.2.2.1]
  -- WF of the delivered state via the generic lemma
  have hpre : WFpre ({ s1 with mode := .after, stack := st' } : St) false := by
    refine ⟨⟨(fun h => nomatch h), (fun h => nomatch h), hnext⟩, ?_, (fun h => nomatch h), fun hnn => ?_⟩
    · intro h; rcases h with h | h | h | ⟨h | h | h, _⟩ <;> cases h
    · have hne : s1.starts ≠ [] := fun h0 => hnn ⟨h0, rfl⟩
      exact hsa.shape hne
  have hwf := deliver_wf cfg1 _ false hpre
  simp only [Bool.false_eq_true, ↓reduceIte] at hwf
  refine ⟨hwf, ?_, ?_⟩
  · unfold deliver; split <;> simp [hst]
  · cases hs : s0.starts with
    | nil =>
      have : ({ s1 with mode := .after, stack := st' } : St).starts.isEmpty = true := by simp [hst, hs]
      unfold deliver
      simp only [this, refTables, expectedFin, decide_true, Bool.and_self, ↓reduceIte, cfg1]
      obtain ⟨w, hw⟩ : ∃ w, st' = [.val w] := by
        have := hsa; simp only [hst, hs, ShapeAdded] at this; exact this
      have hv : w = v := by
        rw [hs] at hsh
        simp only [Shape] at hsh
        rw [hsh, hw] at hadd'
        simp only [addItem, Except.ok.injEq, List.cons.injEq, Item.val.injEq, and_true] at hadd'
        exact hadd'.symm
      subst hw; subst hv
      simp [hdoc, Item.toJV]
    | cons x ss =>
      have : ({ s1 with mode := .after, stack := st' } : St).starts.isEmpty = false := by simp [hst, hs]
      unfold deliver
      simp only [this, Bool.false_and, Bool.false_eq_true, ↓reduceIte]
      simp [hdoc, hadd']

end OjgVerif.Json

namespace OjgVerif.Json
open OjgVerif

/-- a literal mode, its word and its value -/
structure LitSpec (m : Mode) (w : Bytes) (v : JV) : Prop where
  tok : ∀ (s : St) (x : UInt8), s.mode = m → ∃ k, stepToken refTables s x =
      if w.getD (s.ri + 1) 0 = x then
        (if w.length - 1 ≤ s.ri + 1 then ({ s with ri := s.ri + 1, mode := .after } : St).add v
         else .ok { s with ri := s.ri + 1 })
      else .error (s.err k)
  act : ∀ x, expected m x = .tokenOk ∨ expected m x = .charErr
  fin : expectedFin m = .absent
  nv : ∀ nm, needVal m nm = true
  notAfter : m ≠ .after

theorem litSpec_null : LitSpec .null [110, 117, 108, 108] .null where
  tok := by
    intro s x hm
    refine ⟨.expNull, ?_⟩
    unfold stepToken
    have h1 : refTables.act s.mode 114 ≠ .tokenOk := by rw [hm]; decide
    have h2 : refTables.act s.mode 97 ≠ .tokenOk := by rw [hm]; decide
    have h3 : (refTables.act s.mode 117 = .tokenOk && refTables.act s.mode 108 = .tokenOk) = true := by rw [hm]; decide
    simp only [h1, h2, h3, ↓reduceIte, List.length_cons, List.length_nil]
  act := by
    intro x
    simp only [expected]
    split <;> simp
  fin := rfl
  nv := fun _ => rfl
  notAfter := by decide

theorem litSpec_true : LitSpec .true_ [116, 114, 117, 101] (.bool true) where
  tok := by
    intro s x hm
    refine ⟨.expTrue, ?_⟩
    unfold stepToken
    have h1 : refTables.act s.mode 114 = .tokenOk := by rw [hm]; decide
    simp only [h1, ↓reduceIte, List.length_cons, List.length_nil]
  act := by
    intro x
    simp only [expected]
    split <;> simp
  fin := rfl
  nv := fun _ => rfl
  notAfter := by decide

theorem litSpec_false : LitSpec .false_ [102, 97, 108, 115, 101] (.bool false) where
  tok := by
    intro s x hm
    refine ⟨.expFalse, ?_⟩
    unfold stepToken
    have h1 : refTables.act s.mode 114 ≠ .tokenOk := by rw [hm]; decide
    have h2 : refTables.act s.mode 97 = .tokenOk := by rw [hm]; decide
    simp only [h1, h2, ↓reduceIte, List.length_cons, List.length_nil]
  act := by
    intro x
    simp only [expected]
    split <;> simp
  fin := rfl
  nv := fun _ => rfl
  notAfter := by decide


/-- the machine is inside a literal that started in value position `s0` -/
structure InLit (m : Mode) (s0 s : St) : Prop where
  mode : s.mode = m
  starts : s.starts = s0.starts
  stack : s.stack = s0.stack
  docs : s.docs = s0.docs
  next : s.nextMode = .colon ∨ s.nextMode = .after

/-- one byte inside a literal: a wrong byte is an error -/
theorem lit_step_bad {m : Mode} {w : Bytes} {v : JV} (L : LitSpec m w v) (s : St) (x : UInt8)
    (hm : s.mode = m) (hx : w.getD (s.ri + 1) 0 ≠ x) : ∃ e, step refTables cfg1 s x = .error e := by
  unfold step stepAct
  rcases L.act x with ha | ha
  · have : refTables.act s.mode x = .tokenOk := by rw [hm]; exact ha
    obtain ⟨k, htok⟩ := L.tok s x hm
    simp only [this, htok, hx, ↓reduceIte, bind, Except.bind]
    exact ⟨_, rfl⟩
  · have : refTables.act s.mode x = .charErr := by rw [hm]; exact ha
    simp only [this]
    exact ⟨_, rfl⟩

/-- one byte inside a literal: the expected letter, not the last one -/
theorem lit_step_mid {m : Mode} {w : Bytes} {v : JV} (L : LitSpec m w v) (s : St) (x : UInt8)
    (hm : s.mode = m) (hx : w.getD (s.ri + 1) 0 = x) (hact : expected m x = .tokenOk)
    (hlast : ¬ (w.length - 1 ≤ s.ri + 1)) :
    step refTables cfg1 s x = .ok { s with ri := s.ri + 1, pos := s.pos + 1, inFast := false } := by
  unfold step stepAct
  have : refTables.act s.mode x = .tokenOk := by rw [hm]; exact hact
  obtain ⟨k, htok⟩ := L.tok s x hm
  simp only [this, htok, hx, hlast, ↓reduceIte, bind, Except.bind, pure, Except.pure, Bool.false_eq_true]
  have hd : deliver refTables cfg1 { s with ri := s.ri + 1 } = { s with ri := s.ri + 1 } := by
    unfold deliver
    have : refTables.fin s.mode ≠ .a := by rw [hm]; show expectedFin m ≠ .a; rw [L.fin]; decide
    simp [this]
  rw [hd]


/-- `WF` only looks at mode, nextMode, starts and stack -/
theorem WF.of_core {s s' : St} (h : WF s) (hm : s'.mode = s.mode) (hn : s'.nextMode = s.nextMode)
    (hs : s'.starts = s.starts) (hk : s'.stack = s.stack) : WF s' := by
  refine ⟨⟨?_, ?_, ?_⟩, ?_, ?_, ?_⟩
  · rw [hm, hs]; exact h.ctl.after
  · rw [hm, hs]; exact h.ctl.comma
  · rw [hn]; exact h.ctl.next
  · rw [hm, hn, hs]; exact h.obj
  · rw [hm, hs]; exact h.arr
  · rw [hm, hn, hs, hk]; exact h.shape

theorem Added.of_core {s0 s1 s2 : St} {v : JV} (h : Added s0 v s1) (hm : s2.mode = s1.mode)
    (hn : s2.nextMode = s1.nextMode) (hs : s2.starts = s1.starts) (hk : s2.stack = s1.stack)
    (hd : s2.docs = s1.docs) : Added s0 v s2 := by
  obtain ⟨hw, hst, hc⟩ := h
  refine ⟨hw.of_core hm hn hs hk, hs.trans hst, ?_⟩
  cases h0 : s0.starts with
  | nil => rw [h0] at hc; simp only at hc ⊢; rw [hm, hk, hd]; exact hc
  | cons x ss => rw [h0] at hc; simp only at hc ⊢; rw [hm, hk, hd]; exact hc

/-- one byte inside a literal: the last letter completes the value -/
theorem lit_step_last {m : Mode} {w : Bytes} {v : JV} (L : LitSpec m w v) (s0 s : St) (x : UInt8)
    (hv : ValPos s0) (hin : InLit m s0 s) (hx : w.getD (s.ri + 1) 0 = x) (hact : expected m x = .tokenOk)
    (hlast : w.length - 1 ≤ s.ri + 1) :
    ∃ s', step refTables cfg1 s x = .ok s' ∧ Added s0 v s' := by
  have hsh : Shape s0.starts s0.stack true := by
    have := hv.wf.shape; rw [needVal_of_valpos hv] at this; exact this
  obtain ⟨st', hadd, hadded⟩ := added_of_add s0 { s with ri := s.ri + 1 } v hv.wf hsh
    ⟨hin.starts, hin.stack, hin.docs⟩ hin.next
  unfold step stepAct
  have : refTables.act s.mode x = .tokenOk := by rw [hin.mode]; exact hact
  obtain ⟨k, htok⟩ := L.tok s x hin.mode
  simp only [this, htok, hx, hlast, ↓reduceIte, bind, Except.bind, pure, Except.pure, Bool.false_eq_true]
  have hadd' : ({ s with ri := s.ri + 1, mode := Mode.after } : St).add v =
      .ok { s with ri := s.ri + 1, mode := Mode.after, stack := st' } := hadd
  rw [hadd']
  simp only
  exact ⟨_, rfl, hadded.of_core rfl rfl rfl rfl rfl⟩


theorem drop_eq_getD_cons (w : Bytes) (k : Nat) (h : k < w.length) : w.drop k = w.getD k 0 :: w.drop (k + 1) := by
  rw [List.drop_eq_getElem_cons h]
  simp [List.getD, List.getElem?_eq_getElem h]

theorem exec_nil_of_absent (s : St) (h : expectedFin s.mode = .absent) : exec s [] = none := by
  unfold exec
  simp only [runBytes]
  unfold finish
  have : refTables.fin s.mode = .absent := h
  simp [this]

/-- running the rest of a literal: success adds the value; anything else is rejected -/
theorem lit_exec {m : Mode} {w : Bytes} {v : JV} (L : LitSpec m w v)
    (hlet : ∀ i, 1 ≤ i → i < w.length → expected m (w.getD i 0) = .tokenOk)
    (s0 : St) (hv : ValPos s0) :
    ∀ (n : Nat) (s : St), InLit m s0 s → s.ri + 1 + n + 1 = w.length →
      (∀ rest, ∃ s', Added s0 v s' ∧ exec s (w.drop (s.ri + 1) ++ rest) = exec s' rest) ∧
      (∀ bs, ¬ (w.drop (s.ri + 1)) <+: bs → exec s bs = none) := by
  intro n
  induction n with
  | zero =>
    intro s hin hlen
    have hk : s.ri + 1 < w.length := by omega
    have hdrop : w.drop (s.ri + 1) = [w.getD (s.ri + 1) 0] := by
      rw [drop_eq_getD_cons w _ hk]
      have : w.drop (s.ri + 1 + 1) = [] := List.drop_eq_nil_of_le (by omega)
      rw [this]
    have hact := hlet (s.ri + 1) (by omega) hk
    obtain ⟨s', hstep, hadded⟩ := lit_step_last L s0 s _ hv hin rfl hact (by omega)
    constructor
    · intro rest
      refine ⟨s', hadded, ?_⟩
      rw [hdrop]
      simp only [List.singleton_append, exec_cons, hstep]
    · intro bs hpre
      rw [hdrop] at hpre
      cases bs with
      | nil => exact exec_nil_of_absent s (by rw [hin.mode]; exact L.fin)
      | cons y r =>
        have hy : w.getD (s.ri + 1) 0 ≠ y := by
          intro h; apply hpre; rw [h]; exact ⟨r, rfl⟩
        obtain ⟨e, he⟩ := lit_step_bad L s y hin.mode hy
        rw [exec_cons, he]
  | succ n ih =>
    intro s hin hlen
    have hk : s.ri + 1 < w.length := by omega
    have hdrop := drop_eq_getD_cons w _ hk
    have hact := hlet (s.ri + 1) (by omega) hk
    have hstep := lit_step_mid L s _ hin.mode rfl hact (by omega)
    have hin1 : InLit m s0 { s with ri := s.ri + 1, pos := s.pos + 1, inFast := false } :=
      ⟨hin.mode, hin.starts, hin.stack, hin.docs, hin.next⟩
    obtain ⟨ih1, ih2⟩ := ih _ hin1 (by simp only; omega)
    constructor
    · intro rest
      obtain ⟨s', hadded, hex⟩ := ih1 rest
      refine ⟨s', hadded, ?_⟩
      rw [hdrop]
      simp only [List.cons_append, exec_cons, hstep]
      exact hex
    · intro bs hpre
      rw [hdrop] at hpre
      cases bs with
      | nil => exact exec_nil_of_absent s (by rw [hin.mode]; exact L.fin)
      | cons y r =>
        by_cases hy : w.getD (s.ri + 1) 0 = y
        · rw [exec_cons, ← hy, hstep]
          apply ih2
          intro hp
          apply hpre
          rw [← hy]
          obtain ⟨t, ht⟩ := hp
          exact ⟨t, by simp only [List.cons_append]; rw [ht]⟩
        · obtain ⟨e, he⟩ := lit_step_bad L s y hin.mode hy
          rw [exec_cons, he]


theorem startsWith_some (bs p rest : Bytes) : Spec.startsWith bs p = some rest ↔ bs = p ++ rest := by
  induction p generalizing bs with
  | nil => cases bs <;> simp [Spec.startsWith, eq_comm]
  | cons x q ih =>
    cases bs with
    | nil => simp [Spec.startsWith]
    | cons b r =>
      simp only [Spec.startsWith]
      by_cases hb : b = x
      · subst hb; simp [ih]
      · simp only [hb, ↓reduceIte, List.cons_append, List.cons.injEq, false_and]
        exact ⟨(fun h => nomatch h), (fun h => nomatch h)⟩

theorem startsWith_none (bs p : Bytes) : Spec.startsWith bs p = none ↔ ¬ p <+: bs := by
  constructor
  · intro h ⟨t, ht⟩
    have := (startsWith_some bs p t).mpr ht.symm
    rw [h] at this; cases this
  · intro h
    cases hs : Spec.startsWith bs p with
    | none => rfl
    | some rest => exact absurd ⟨rest, ((startsWith_some bs p rest).mp hs).symm⟩ h

/-- the first byte of a literal in value position -/
theorem step_valLit (s : St) (h : ValPos s) (b : UInt8) (m : Mode)
    (hact : ∀ md, md = Mode.value ∨ md = Mode.comma → expected md b =
      (if m = .null then Act.valNull else if m = .true_ then Act.valTrue else Act.valFalse))
    (hm : m = .null ∨ m = .true_ ∨ m = .false_) :
    step refTables cfg1 s b = .ok { s with mode := m, ri := 0, pos := s.pos + 1, inFast := false } := by
  have ha := hact s.mode h.mode
  unfold step stepAct
  have hd : ∀ md, md = Mode.null ∨ md = Mode.true_ ∨ md = Mode.false_ →
      deliver refTables cfg1 { s with mode := md, ri := 0 } = { s with mode := md, ri := 0 } := by
    intro md hmd
    unfold deliver
    rcases hmd with h | h | h <;> simp [refTables, expectedFin, h]
  rcases hm with hm | hm | hm <;> subst hm <;>
    simp only [show refTables.act s.mode b = _ from ha, Bool.false_eq_true, ↓reduceIte, reduceCtorEq] <;>
    rw [hd _ (by simp)]

/-- **Literals.** In value position, `null` / `true` / `false` add their value; any other
continuation of the first letter is rejected. -/
theorem exec_literal (s0 : St) (hv : ValPos s0) (b : UInt8) (m : Mode) (w : Bytes) (v : JV) (r : Bytes)
    (hcase : (b = 110 ∧ m = .null ∧ w = [110, 117, 108, 108] ∧ v = .null) ∨
             (b = 116 ∧ m = .true_ ∧ w = [116, 114, 117, 101] ∧ v = .bool true) ∨
             (b = 102 ∧ m = .false_ ∧ w = [102, 97, 108, 115, 101] ∧ v = .bool false)) :
    (∀ rest, Spec.startsWith r w.tail = some rest → ∃ s', Added s0 v s' ∧ exec s0 (b :: r) = exec s' rest) ∧
    (Spec.startsWith r w.tail = none → exec s0 (b :: r) = none) := by
  have key : ∀ (L : LitSpec m w v) (hlet : ∀ i, 1 ≤ i → i < w.length → expected m (w.getD i 0) = .tokenOk)
      (hlen : 3 ≤ w.length)
      (hstep : step refTables cfg1 s0 b = .ok { s0 with mode := m, ri := 0, pos := s0.pos + 1, inFast := false }),
      (∀ rest, Spec.startsWith r w.tail = some rest → ∃ s', Added s0 v s' ∧ exec s0 (b :: r) = exec s' rest) ∧
      (Spec.startsWith r w.tail = none → exec s0 (b :: r) = none) := by
    intro L hlet hlen hstep
    have hin : InLit m s0 { s0 with mode := m, ri := 0, pos := s0.pos + 1, inFast := false } :=
      ⟨rfl, rfl, rfl, rfl, hv.wf.ctl.next⟩
    obtain ⟨h1, h2⟩ := lit_exec L hlet s0 hv (w.length - 2) _ hin (by simp only; omega)
    have htail : w.drop (0 + 1) = w.tail := by cases w <;> rfl
    simp only [htail] at h1 h2
    constructor
    · intro rest hs
      obtain ⟨s', hadded, hex⟩ := h1 rest
      refine ⟨s', hadded, ?_⟩
      rw [(startsWith_some r w.tail rest).mp hs, exec_cons, hstep]
      exact hex
    · intro hs
      rw [exec_cons, hstep]
      exact h2 r ((startsWith_none r w.tail).mp hs)
  rcases hcase with ⟨rfl, rfl, rfl, rfl⟩ | ⟨rfl, rfl, rfl, rfl⟩ | ⟨rfl, rfl, rfl, rfl⟩
  · refine key litSpec_null ?_ (by decide) ?_
    · intro i h1 h2
      simp only [List.length_cons, List.length_nil] at h2
      have : i = 1 ∨ i = 2 ∨ i = 3 := by omega
      rcases this with h | h | h <;> subst h <;> decide
    · exact step_valLit s0 hv 110 .null (by intro md h; rcases h with h | h <;> subst h <;> decide) (Or.inl rfl)
  · refine key litSpec_true ?_ (by decide) ?_
    · intro i h1 h2
      simp only [List.length_cons, List.length_nil] at h2
      have : i = 1 ∨ i = 2 ∨ i = 3 := by omega
      rcases this with h | h | h <;> subst h <;> decide
    · exact step_valLit s0 hv 116 .true_ (by intro md h; rcases h with h | h <;> subst h <;> decide) (Or.inr (Or.inl rfl))
  · refine key litSpec_false ?_ (by decide) ?_
    · intro i h1 h2
      simp only [List.length_cons, List.length_nil] at h2
      have : i = 1 ∨ i = 2 ∨ i = 3 ∨ i = 4 := by omega
      rcases this with h | h | h | h <;> subst h <;> decide
    · exact step_valLit s0 hv 102 .false_ (by intro md h; rcases h with h | h <;> subst h <;> decide) (Or.inr (Or.inr rfl))


end OjgVerif.Json
