import OjgVerif.Json.Number
/-! Exactness of the `gen.Number` accumulators under `uint64` wrap-around arithmetic: while the
number is held in the integer accumulators no multiplication has wrapped and the accumulators hold
exactly the digits read; the switch to the text form happens exactly when the value no longer fits. -/
namespace OjgVerif.Json
open OjgVerif

def isDigitB (b : UInt8) : Prop := 48 ≤ b.toNat ∧ b.toNat ≤ 57
def dval (b : UInt8) : Nat := b.toNat - 48

/-- value of a digit string -/
def natOf (ds : Bytes) : Nat := ds.foldl (fun a b => a * 10 + dval b) 0

theorem natOf_snoc (ds : Bytes) (d : UInt8) : natOf (ds ++ [d]) = natOf ds * 10 + dval d := by
  simp [natOf, List.foldl_append]

theorem fmtNatAux_ne_nil (fuel n : Nat) (acc : Bytes) (h : 0 < fuel) : fmtNatAux fuel n acc ≠ [] := by
  induction fuel generalizing n acc with
  | zero => omega
  | succ f ih =>
    unfold fmtNatAux
    split
    · simp
    · by_cases hf : 0 < f
      · exact ih _ _ hf
      · have : f = 0 := by omega
        subst this
        -- fuel 1 with n ≥ 10 cannot happen from `fmtNat`, but the result is still the accumulator
        simp [fmtNatAux]

theorem fmtNat_ne_nil (n : Nat) : fmtNat n ≠ [] := fmtNatAux_ne_nil _ _ _ (by omega)

theorem fillBig_big_ne_nil (n : Num) : n.fillBig.big ≠ [] := by
  unfold Num.fillBig
  simp only
  have h1 : ∀ (p : Bytes), p ++ fmtNat n.i.toNat ≠ [] := fun p => by simp [fmtNat_ne_nil]
  split <;> split <;> (try split) <;> simp [fmtNat_ne_nil]

theorem digit_toUInt64 (b : UInt8) (hb : isDigitB b) : ((b - 48).toUInt64).toNat = dval b := by
  have h48 : (48 : UInt8) ≤ b := by rw [UInt8.le_iff_toNat_le]; exact hb.1
  simp only [UInt8.toNat_toUInt64, UInt8.toNat_sub_of_le _ _ h48]
  rfl

/-- integer part: the accumulator is exact as long as the value fits int64, and the number is in text
form exactly when it does not -/
def IntInv (n : Num) (v : Nat) : Prop :=
  (v ≤ 9223372036854775807 → n.big = [] ∧ n.i.toNat = v) ∧ (9223372036854775807 < v → n.big ≠ [])

theorem addDigit_inv (n : Num) (b : UInt8) (v : Nat) (hb : isDigitB b) (h : IntInv n v) :
    IntInv (n.addDigit b) (v * 10 + dval b) := by
  have hd : dval b ≤ 9 := by unfold dval; have := hb.2; omega
  unfold Num.addDigit
  by_cases hbig : 0 < n.big.length
  · -- already text: it stays text, and the value was already too large
    simp only [hbig, ↓reduceIte]
    have hne : n.big ≠ [] := by intro h0; rw [h0] at hbig; simp at hbig
    have hv : 9223372036854775807 < v := by
      rcases Nat.lt_or_ge 9223372036854775807 v with hc | hc
      · exact hc
      · exact absurd (h.1 hc).1 hne
    exact ⟨fun hle => by omega, fun _ => by simp⟩
  · simp only [hbig, ↓reduceIte]
    have hnil : n.big = [] := by
      cases hb' : n.big with
      | nil => rfl
      | cons _ _ => rw [hb'] at hbig; simp at hbig
    have hv : v ≤ 9223372036854775807 := by
      rcases Nat.lt_or_ge 9223372036854775807 v with hc | hc
      · exact absurd hnil (h.2 hc)
      · exact hc
    have hi := (h.1 hv).2
    by_cases hle : n.i ≤ BigLimit
    · simp only [hle, ↓reduceIte]
      have hle' : n.i.toNat ≤ 922337203685477580 := by
        rw [UInt64.le_iff_toNat_le] at hle; exact hle
      have hval : (n.i * 10 + (b - 48).toUInt64).toNat = v * 10 + dval b := by
        simp only [UInt64.toNat_add, UInt64.toNat_mul, digit_toUInt64 b hb]
        have : (10 : UInt64).toNat = 10 := rfl
        rw [this, hi]
        omega
      by_cases hmax : MaxInt64 < n.i * 10 + (b - 48).toUInt64
      · simp only [hmax, ↓reduceIte]
        rw [UInt64.lt_iff_toNat_lt, hval] at hmax
        have hm : MaxInt64.toNat = 9223372036854775807 := rfl
        exact ⟨fun hle2 => by omega, fun _ => fillBig_big_ne_nil _⟩
      · simp only [hmax, ↓reduceIte]
        rw [UInt64.lt_iff_toNat_lt, hval] at hmax
        have hm : MaxInt64.toNat = 9223372036854775807 := rfl
        exact ⟨fun _ => ⟨hnil, hval⟩, fun hgt => by omega⟩
    · simp only [hle, ↓reduceIte]
      have hgt : 922337203685477580 < n.i.toNat := by
        rw [UInt64.le_iff_toNat_le] at hle
        have : BigLimit.toNat = 922337203685477580 := rfl
        omega
      exact ⟨fun hle2 => by omega, fun _ => by simp⟩

theorem foldl_addDigit_inv (ds : Bytes) (n : Num) (v : Nat) (hds : ∀ d ∈ ds, isDigitB d) (h : IntInv n v) :
    IntInv (ds.foldl Num.addDigit n) (ds.foldl (fun a b => a * 10 + dval b) v) := by
  induction ds generalizing n v with
  | nil => exact h
  | cons d r ih =>
    simp only [List.foldl_cons]
    exact ih _ _ (fun x hx => hds x (List.mem_cons_of_mem _ hx))
      (addDigit_inv n d v (hds d List.mem_cons_self) h)

/-- **Integers are exact.** Feeding the digits of an integer literal to `AddDigit` from a reset
accumulator: if the value fits int64 the accumulator holds exactly that value and the number is not
in text form (so it comes back as an int64 equal to the literal); otherwise it is in text form. No
multiplication wraps around 2^64 on the way. -/
theorem int_exact (ds : Bytes) (hds : ∀ d ∈ ds, isDigitB d) :
    IntInv (ds.foldl Num.addDigit {}) (natOf ds) := by
  apply foldl_addDigit_inv ds {} 0 hds
  exact ⟨fun _ => ⟨rfl, rfl⟩, fun h => by omega⟩

/-- the tokenizer's old fast loop (multiply first, test afterwards) wrapped: the step relation above
fails for it. Kept as the witness of the defect fixed in /repo (see known_findings.json, fixed). -/
def tokDigitOld (n : Num) (b : UInt8) : Num :=
  let n' := { n with i := n.i * 10 + (b - 48).toUInt64 }
  if MaxInt64 < n'.i then n'.fillBig else n'

theorem tokDigitOld_wraps :
    (tokDigitOld { i := 5000000000000000000 } 48).i.toNat ≠ 50000000000000000000 ∧
    (tokDigitOld { i := 5000000000000000000 } 48).big =
      [49, 51, 49, 48, 54, 53, 49, 49, 56, 53, 50, 53, 56, 48, 56, 57, 54, 55, 54, 56] := by decide

/-! ## Fraction and exponent accumulators -/

theorem foldl_natOf (a : Nat) (ds : Bytes) :
    ds.foldl (fun a b => a * 10 + dval b) a = a * 10 ^ ds.length + natOf ds := by
  induction ds generalizing a with
  | nil => simp [natOf]
  | cons d r ih =>
    simp only [List.foldl_cons, natOf, List.length_cons]
    rw [ih (a * 10 + dval d), ih (0 * 10 + dval d)]
    simp only [Nat.pow_succ, Nat.zero_mul, Nat.zero_add]
    rw [Nat.add_mul, Nat.mul_assoc, Nat.mul_comm 10 (10 ^ r.length)]
    omega

theorem natOf_cons (d : UInt8) (r : Bytes) : natOf (d :: r) = dval d * 10 ^ r.length + natOf r := by
  have := foldl_natOf (0 * 10 + dval d) r
  show List.foldl (fun a b => a * 10 + dval b) (0 * 10 + dval d) r = _
  rw [this]; simp

theorem natOf_append (a b : Bytes) : natOf (a ++ b) = natOf a * 10 ^ b.length + natOf b := by
  simp only [natOf, List.foldl_append]
  exact foldl_natOf _ b

theorem natOf_lt_pow (ds : Bytes) (hds : ∀ d ∈ ds, isDigitB d) : natOf ds < 10 ^ ds.length := by
  induction ds with
  | nil => simp [natOf]
  | cons d r ih =>
    rw [natOf_cons]
    have hr := ih (fun x hx => hds x (List.mem_cons_of_mem _ hx))
    have hd : dval d ≤ 9 := by
      have := (hds d List.mem_cons_self).2; unfold dval; omega
    simp only [List.length_cons, Nat.pow_succ]
    have : dval d * 10 ^ r.length ≤ 9 * 10 ^ r.length := Nat.mul_le_mul_right _ hd
    omega

theorem pow10_le_bigLimit (k : Nat) (h : 10 ^ k ≤ 922337203685477580) : k ≤ 17 := by
  rcases Nat.lt_or_ge 17 k with hk | hk
  · have : 10 ^ 18 ≤ 10 ^ k := Nat.pow_le_pow_right (by omega) hk
    have h18 : (10 : Nat) ^ 18 = 1000000000000000000 := by decide
    omega
  · exact hk

/-- fraction: while the number is not in text form, `Frac` holds the fraction digits read, `Div` is
10^(number of fraction digits), at most 18 of them — nothing has wrapped -/
def FracInv (n : Num) (fs : Bytes) : Prop :=
  n.big = [] → n.frac.toNat = natOf fs ∧ n.div.toNat = 10 ^ fs.length ∧ fs.length ≤ 18

theorem addFrac_inv (n : Num) (b : UInt8) (fs : Bytes) (hb : isDigitB b) (hfs : ∀ d ∈ fs, isDigitB d)
    (h : FracInv n fs) : FracInv (n.addFrac b) (fs ++ [b]) := by
  have hd : dval b ≤ 9 := by unfold dval; have := hb.2; omega
  unfold Num.addFrac
  by_cases hbig : 0 < n.big.length
  · simp only [hbig, ↓reduceIte]
    intro h0; simp at h0
  · simp only [hbig, ↓reduceIte]
    have hnil : n.big = [] := by
      cases hb' : n.big with
      | nil => rfl
      | cons _ _ => rw [hb'] at hbig; simp at hbig
    obtain ⟨hf, hdv, hk⟩ := h hnil
    by_cases hc : (decide (n.frac ≤ BigLimit) && decide (n.div ≤ BigLimit)) = true
    · simp only [hc, ↓reduceIte]
      simp only [Bool.and_eq_true, decide_eq_true_eq] at hc
      have hdle : n.div.toNat ≤ 922337203685477580 := by
        have := hc.2; rw [UInt64.le_iff_toNat_le] at this; exact this
      have hk17 : fs.length ≤ 17 := pow10_le_bigLimit _ (hdv ▸ hdle)
      have hflt := natOf_lt_pow fs hfs
      have hfrac : (n.frac * 10 + (b - 48).toUInt64).toNat = natOf (fs ++ [b]) := by
        simp only [UInt64.toNat_add, UInt64.toNat_mul, digit_toUInt64 b hb, natOf_snoc]
        have : (10 : UInt64).toNat = 10 := rfl
        rw [this, hf]
        omega
      have hdiv : (n.div * 10).toNat = 10 ^ (fs ++ [b]).length := by
        simp only [UInt64.toNat_mul, List.length_append, List.length_singleton, Nat.pow_succ]
        have : (10 : UInt64).toNat = 10 := rfl
        rw [this, hdv]
        omega
      split
      · intro h0; exact absurd h0 (fillBig_big_ne_nil _)
      · intro _
        refine ⟨hfrac, hdiv, ?_⟩
        simp only [List.length_append, List.length_singleton]; omega
    · simp only [hc]
      intro h0; simp at h0

/-- exponent: while the number is not in text form `Exp` holds the exponent digits read and is at
most 1022 -/
def ExpInv (n : Num) (es : Bytes) : Prop :=
  n.big = [] → n.exp.toNat = natOf es ∧ natOf es ≤ 1022

theorem addExp_inv (n : Num) (b : UInt8) (es : Bytes) (hb : isDigitB b) (h : ExpInv n es) :
    ExpInv (n.addExp b) (es ++ [b]) := by
  have hd : dval b ≤ 9 := by unfold dval; have := hb.2; omega
  unfold Num.addExp
  by_cases hbig : 0 < n.big.length
  · simp only [hbig, ↓reduceIte]
    intro h0; simp at h0
  · simp only [hbig, ↓reduceIte]
    have hnil : n.big = [] := by
      cases hb' : n.big with
      | nil => rfl
      | cons _ _ => rw [hb'] at hbig; simp at hbig
    obtain ⟨he, _⟩ := h hnil
    by_cases hc : n.exp ≤ 102
    · simp only [hc, ↓reduceIte]
      have hle : n.exp.toNat ≤ 102 := by rw [UInt64.le_iff_toNat_le] at hc; exact hc
      have hexp : (n.exp * 10 + (b - 48).toUInt64).toNat = natOf (es ++ [b]) := by
        simp only [UInt64.toNat_add, UInt64.toNat_mul, digit_toUInt64 b hb, natOf_snoc]
        have : (10 : UInt64).toNat = 10 := rfl
        rw [this, he]
        omega
      split
      · intro h0; exact absurd h0 (fillBig_big_ne_nil _)
      · rename_i hgt
        intro _
        refine ⟨hexp, ?_⟩
        rw [← hexp]
        have : ¬ ((1022 : UInt64) < n.exp * 10 + (b - 48).toUInt64) := hgt
        rw [UInt64.lt_iff_toNat_lt] at this
        have h1022 : (1022 : UInt64).toNat = 1022 := rfl
        omega
    · simp only [hc, ↓reduceIte]
      intro h0; simp at h0

/-! ## `strconv.FormatUint` model: the rendering denotes the number -/

theorem dval_ofNat (k : Nat) (hk : k ≤ 9) : dval (UInt8.ofNat (48 + k)) = k := by
  unfold dval
  have : (UInt8.ofNat (48 + k)).toNat = 48 + k := by
    simp only [UInt8.toNat_ofNat']
    omega
  omega

theorem fmtNatAux_natOf (fuel n : Nat) (acc : Bytes) (h : n < 10 ^ fuel) :
    natOf (fmtNatAux fuel n acc) = n * 10 ^ acc.length + natOf acc := by
  induction fuel generalizing n acc with
  | zero =>
    have : n = 0 := by simpa using h
    subst this
    simp [fmtNatAux]
  | succ f ih =>
    unfold fmtNatAux
    split
    · rename_i hlt
      rw [natOf_cons, dval_ofNat n (by omega)]
    · rename_i hge
      have hdiv : n / 10 < 10 ^ f := by
        rw [Nat.pow_succ] at h
        omega
      rw [ih (n / 10) _ hdiv, natOf_cons, dval_ofNat (n % 10) (by omega)]
      simp only [List.length_cons, Nat.pow_succ]
      have := Nat.div_add_mod n 10
      rw [Nat.mul_comm (10 ^ acc.length) 10, ← Nat.mul_assoc]
      have h2 : n / 10 * 10 * 10 ^ acc.length + n % 10 * 10 ^ acc.length = n * 10 ^ acc.length := by
        rw [← Nat.add_mul]; congr 1; omega
      omega

theorem lt_pow_succ (n : Nat) : n < 10 ^ (n + 1) := by
  induction n with
  | zero => simp
  | succ k ih => rw [Nat.pow_succ]; omega

/-- **`FormatUint` round trip**: the digits written for `n` denote `n` -/
theorem natOf_fmtNat (n : Nat) : natOf (fmtNat n) = n := by
  unfold fmtNat
  rw [fmtNatAux_natOf _ _ _ (lt_pow_succ n)]
  simp [natOf]

theorem fillBig_frame (n : Num) :
    n.fillBig.div = n.div ∧ n.fillBig.exp = n.exp ∧ n.fillBig.frac = n.frac ∧ n.fillBig.i = n.i := by
  unfold Num.fillBig
  exact ⟨rfl, rfl, rfl, rfl⟩

/-- `AddDigit` touches only `I` and the text buffer -/
theorem addDigit_frame (n : Num) (d : UInt8) :
    (n.addDigit d).div = n.div ∧ (n.addDigit d).exp = n.exp ∧ (n.addDigit d).frac = n.frac := by
  unfold Num.addDigit
  split
  · exact ⟨rfl, rfl, rfl⟩
  · split
    · simp only
      split
      · have := fillBig_frame { n with i := n.i * 10 + (d - 48).toUInt64 }
        exact ⟨this.1, this.2.1, this.2.2.1⟩
      · exact ⟨rfl, rfl, rfl⟩
    · have := fillBig_frame n
      exact ⟨this.1, this.2.1, this.2.2.1⟩

theorem foldl_addDigit_frame (ds : Bytes) (n : Num) :
    (ds.foldl Num.addDigit n).div = n.div ∧ (ds.foldl Num.addDigit n).exp = n.exp := by
  induction ds generalizing n with
  | nil => exact ⟨rfl, rfl⟩
  | cons d r ih =>
    simp only [List.foldl_cons]
    have h1 := ih (n.addDigit d)
    have h2 := addDigit_frame n d
    exact ⟨h1.1.trans h2.1, h1.2.trans h2.2.1⟩

end OjgVerif.Json
