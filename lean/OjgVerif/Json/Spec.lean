import OjgVerif.Common.Bytes
/-! # Specification: RFC 8259 JSON texts over bytes (repo-independent)

A committed LL(1) recursive-descent reading of RFC 8259 §2–§7, with the two
deviations property C01 grants: bytes ≥ 0x80 inside strings pass unvalidated,
and BOM / emptiness are handled by `Doc` below. Numbers are kept as their
literal text (`JV.num`), strings are unescaped to bytes (surrogate pairs
combined, a lone surrogate becomes U+FFFD as `utf8.EncodeRune` does). -/
namespace OjgVerif.Json.Spec
open OjgVerif

def isWs (b : UInt8) : Bool := b = 32 || b = 9 || b = 10 || b = 13
def isDigit (b : UInt8) : Bool := 48 ≤ b && b ≤ 57
def isDigit19 (b : UInt8) : Bool := 49 ≤ b && b ≤ 57
def isHex (b : UInt8) : Bool := (48 ≤ b && b ≤ 57) || (97 ≤ b && b ≤ 102) || (65 ≤ b && b ≤ 70)

def hexNib (b : UInt8) : Nat :=
  if 48 ≤ b && b ≤ 57 then b.toNat - 48
  else if 97 ≤ b && b ≤ 102 then b.toNat - 87
  else b.toNat - 55

/-- UTF-8 encoding as `utf8.EncodeRune`: surrogates and out-of-range become U+FFFD -/
def utf8Enc (r : Nat) : Bytes :=
  if r < 0x80 then [UInt8.ofNat r]
  else if r < 0x800 then [UInt8.ofNat (0xC0 + r / 64), UInt8.ofNat (0x80 + r % 64)]
  else if (0xD800 ≤ r ∧ r < 0xE000) ∨ 0x10FFFF < r then [0xEF, 0xBF, 0xBD]
  else if r < 0x10000 then
    [UInt8.ofNat (0xE0 + r / 4096), UInt8.ofNat (0x80 + r / 64 % 64), UInt8.ofNat (0x80 + r % 64)]
  else
    [UInt8.ofNat (0xF0 + r / 262144), UInt8.ofNat (0x80 + r / 4096 % 64),
     UInt8.ofNat (0x80 + r / 64 % 64), UInt8.ofNat (0x80 + r % 64)]

def skipWs : Bytes → Bytes
  | b :: r => if isWs b then skipWs r else b :: r
  | [] => []

def takeDigits : Bytes → Bytes × Bytes
  | b :: r => if isDigit b then let p := takeDigits r; (b :: p.1, p.2) else ([], b :: r)
  | [] => ([], [])

/-- four hex digits -/
def hex4 : Bytes → Option (Nat × Bytes)
  | a :: b :: c :: d :: r =>
    if isHex a && isHex b && isHex c && isHex d then
      some (((hexNib a * 16 + hexNib b) * 16 + hexNib c) * 16 + hexNib d, r)
    else none
  | _ => none

def escByte (b : UInt8) : Option UInt8 :=
  if b = 34 then some 34 else if b = 92 then some 92 else if b = 47 then some 47
  else if b = 98 then some 8 else if b = 102 then some 12 else if b = 110 then some 10
  else if b = 114 then some 13 else if b = 116 then some 9 else none

/-- the characters of a string after the opening quote; returns the unescaped bytes and the rest
after the closing quote. Fuel = length of the input. -/
def pChars : Nat → Bytes → Option (Bytes × Bytes)
  | 0, _ => none
  | f+1, bs =>
    match bs with
    | [] => none
    | b :: r =>
      if b = 34 then some ([], r)
      else if b = 92 then
        match r with
        | [] => none
        | e :: r' =>
          if e = 117 then
            match hex4 r' with
            | none => none
            | some (u, r'') =>
              if 0xD800 ≤ u ∧ u < 0xDC00 then
                -- high surrogate: combine with a directly following low surrogate escape
                match r'' with
                | 92 :: 117 :: r3 =>
                  match hex4 r3 with
                  | some (lo, r4) =>
                    if 0xDC00 ≤ lo ∧ lo < 0xE000 then
                      (pChars f r4).map fun p => (utf8Enc (0x10000 + (u - 0xD800) * 1024 + (lo - 0xDC00)) ++ p.1, p.2)
                    else (pChars f r'').map fun p => (utf8Enc u ++ p.1, p.2)
                  | none => (pChars f r'').map fun p => (utf8Enc u ++ p.1, p.2)
                | _ => (pChars f r'').map fun p => (utf8Enc u ++ p.1, p.2)
              else (pChars f r'').map fun p => (utf8Enc u ++ p.1, p.2)
          else
            match escByte e with
            | some c => (pChars f r').map fun p => (c :: p.1, p.2)
            | none => none
      else if b < 32 then none
      else (pChars f r).map fun p => (b :: p.1, p.2)

/-- integer part `0 | [1-9][0-9]*` -/
def pInt : Bytes → Option (Bytes × Bytes)
  | [] => none
  | d :: r =>
    if d = 48 then some ([48], r)
    else if isDigit19 d then some (d :: (takeDigits r).1, (takeDigits r).2)
    else none

/-- optional fraction `. [0-9]+` -/
def pFrac : Bytes → Option (Bytes × Bytes)
  | [] => some ([], [])
  | c :: r =>
    if c = 46 then
      if (takeDigits r).1.isEmpty then none else some (46 :: (takeDigits r).1, (takeDigits r).2)
    else some ([], c :: r)

/-- optional sign of an exponent -/
def pExpSign : Bytes → Bytes × Bytes
  | [] => ([], [])
  | s :: r => if s = 43 || s = 45 then ([s], r) else ([], s :: r)

/-- optional exponent `[eE] [+-]? [0-9]+` -/
def pExp : Bytes → Option (Bytes × Bytes)
  | [] => some ([], [])
  | e :: r =>
    if e = 101 || e = 69 then
      if (takeDigits (pExpSign r).2).1.isEmpty then none
      else some (e :: (pExpSign r).1 ++ (takeDigits (pExpSign r).2).1, (takeDigits (pExpSign r).2).2)
    else some ([], e :: r)

/-- number literal without sign -/
def pUnsigned (bs : Bytes) : Option (Bytes × Bytes) :=
  match pInt bs with
  | none => none
  | some (ip, r1) =>
    match pFrac r1 with
    | none => none
    | some (fp, r2) =>
      match pExp r2 with
      | none => none
      | some (ep, r3) => some (ip ++ fp ++ ep, r3)

/-- number literal at the head of the input: returns literal and rest -/
def pNumber : Bytes → Option (Bytes × Bytes)
  | [] => none
  | b :: r =>
    if b = 45 then (pUnsigned r).map fun p => (45 :: p.1, p.2)
    else pUnsigned (b :: r)

def startsWith : Bytes → Bytes → Option Bytes
  | bs, [] => some bs
  | [], _ :: _ => none
  | b :: r, p :: q => if b = p then startsWith r q else none

/-- array tail after the first element: `ws (',' ws value ws)* ']'` -/
def pElems (pv : Bytes → Option (JV × Bytes)) : Nat → Bytes → List JV → Option (JV × Bytes)
  | 0, _, _ => none
  | k+1, bs, acc =>
    match skipWs bs with
    | c :: r =>
      if c = 93 then some (.arr acc.reverse, r)
      else if c = 44 then
        match pv (skipWs r) with
        | some (v, rest) => pElems pv k rest (v :: acc)
        | none => none
      else none
    | [] => none

/-- one member `string ws ':' ws value` starting at the opening quote -/
def pMember (pv : Bytes → Option (JV × Bytes)) (bs : Bytes) : Option ((Bytes × JV) × Bytes) :=
  match bs with
  | q :: r =>
    if q = 34 then
      match pChars r.length r with
      | some (k, r1) =>
        match skipWs r1 with
        | c :: r2 =>
          if c = 58 then
            match pv (skipWs r2) with
            | some (v, rest) => some ((k, v), rest)
            | none => none
          else none
        | [] => none
      | none => none
    else none
  | [] => none

/-- object tail after the first member: `ws (',' ws member ws)* '}'` -/
def pMembers (pv : Bytes → Option (JV × Bytes)) : Nat → Bytes → List (Bytes × JV) → Option (JV × Bytes)
  | 0, _, _ => none
  | k+1, bs, acc =>
    match skipWs bs with
    | c :: r =>
      if c = 125 then some (.obj acc, r)
      else if c = 44 then
        match pMember pv (skipWs r) with
        | some ((key, v), rest) => pMembers pv k rest (kvInsert key v acc)
        | none => none
      else none
    | [] => none

/-- one JSON value at the head of the input (no leading whitespace) -/
def pValue : Nat → Bytes → Option (JV × Bytes)
  | 0, _ => none
  | f+1, bs =>
    match bs with
    | [] => none
    | b :: r =>
      if b = 110 then (startsWith r [117, 108, 108]).map fun rest => (.null, rest)
      else if b = 116 then (startsWith r [114, 117, 101]).map fun rest => (.bool true, rest)
      else if b = 102 then (startsWith r [97, 108, 115, 101]).map fun rest => (.bool false, rest)
      else if b = 34 then (pChars r.length r).map fun p => (.str p.1, p.2)
      else if b = 45 || isDigit b then (pNumber (b :: r)).map fun p => (.num p.1, p.2)
      else if b = 91 then
        match skipWs r with
        | c :: r' =>
          if c = 93 then some (.arr [], r')
          else match pValue f (c :: r') with
            | some (v, rest) => pElems (pValue f) (rest.length + 1) rest [v]
            | none => none
        | [] => none
      else if b = 123 then
        match skipWs r with
        | c :: r' =>
          if c = 125 then some (.obj [], r')
          else match pMember (pValue f) (c :: r') with
            | some ((k, v), rest) => pMembers (pValue f) (rest.length + 1) rest [(k, v)]
            | none => none
        | [] => none
      else none

/-- A BOM is recognised only when at least one more byte follows it (formalisation choice: the
property's words do not say what a BOM followed by nothing is; every front-end rejects it). -/
def stripBOM : Bytes → Bytes
  | 0xEF :: 0xBB :: 0xBF :: b :: r => b :: r
  | bs => bs

inductive Doc where
  | none            -- empty or whitespace only: "no document"
  | one (v : JV)    -- exactly one JSON text
  | bad
  deriving Inhabited

/-- exactly one JSON text surrounded by whitespace (no BOM handling) -/
def parseText (bs : Bytes) : Doc :=
  match skipWs bs with
  | [] => .none
  | b :: r =>
    match pValue (bs.length + 1) (b :: r) with
    | some (v, rest) => if (skipWs rest).isEmpty then .one v else .bad
    | none => .bad

/-- C01's language: optional BOM, then `parseText` -/
def parseDoc (bs : Bytes) : Doc := parseText (stripBOM bs)

def accepts (bs : Bytes) : Bool :=
  match parseDoc bs with
  | .bad => false
  | _ => true

end OjgVerif.Json.Spec
