import OjgVerif.Json.Ctl
import OjgVerif.Json.Refine
/-! Viable prefixes (C09): every prefix the machine accepts can be completed to an accepted text, so
the byte at which the machine rejects is the first byte after which the input can no longer be
extended to a valid JSON text. -/
namespace OjgVerif.Json
open OjgVerif

def litOf (m : Mode) : Bytes :=
  match m with
  | .null => [110, 117, 108, 108]
  | .true_ => [116, 114, 117, 101]
  | .false_ => [102, 97, 108, 115, 101]
  | _ => []

/-- control-level condition under which a byte is accepted -/
def okCtl (c : Ctl) (b : UInt8) : Bool :=
  match expected c.mode b with
  | .charErr | .unknown => false
  | .closeArray => match c.starts with | true :: _ => true | _ => false
  | .closeObject => (match c.starts with | false :: _ => true | _ => false) && expectedFin c.mode != .v
  | .numComma => !c.starts.isEmpty
  | .tokenOk => (litOf c.mode).getD (c.ri + 1) 0 == b
  | _ => true

theorem add_err_fault {s : St} {v : JV} {e : Err} (h : s.add v = .error e) : e.kind.isFault = true := by
  unfold St.add at h
  cases ha : addItem v s.stack with
  | ok st => rw [ha] at h; cases h
  | error w => rw [ha] at h; cases h; rfl

theorem popObj_err_fault {s : St} {rest : List Bool} {e : Err} (h : s.popObj rest = .error e) :
    e.kind.isFault = true := by
  unfold St.popObj at h
  cases hs : s.stack with
  | nil => rw [hs] at h; cases h; rfl
  | cons top below => rw [hs] at h; exact add_err_fault h

theorem popArr_err_fault {s : St} {rest : List Bool} {e : Err} (h : s.popArr rest = .error e) :
    e.kind.isFault = true := by
  unfold St.popArr at h
  cases hs : splitAtMark s.stack [] with
  | none => rw [hs] at h; cases h; rfl
  | some p => rw [hs] at h; exact add_err_fault h

theorem flushNum_err_fault {s : St} {e : Err} (h : s.flushNum refTables = .error e) : e.kind.isFault = true := by
  unfold St.flushNum at h
  split at h
  · exact add_err_fault h
  · cases h

theorem stepToken_err (s : St) (b : UInt8) (e : Err) (hm : s.mode = .null ∨ s.mode = .true_ ∨ s.mode = .false_)
    (hb : (litOf s.mode).getD (s.ri + 1) 0 = b) (h : stepToken refTables s b = .error e) :
    e.kind.isFault = true := by
  unfold stepToken at h
  rcases hm with hm | hm | hm
  · have h1 : refTables.act s.mode 114 ≠ .tokenOk := by rw [hm]; decide
    have h2 : refTables.act s.mode 97 ≠ .tokenOk := by rw [hm]; decide
    have h3 : (decide (refTables.act s.mode 117 = .tokenOk) && decide (refTables.act s.mode 108 = .tokenOk)) = true := by
      rw [hm]; decide
    rw [hm] at hb
    simp only [h1, h2, h3, ↓reduceIte, litOf] at h hb
    simp only [hb, ↓reduceIte] at h
    split at h
    · exact add_err_fault h
    · cases h
  · have h1 : refTables.act s.mode 114 = .tokenOk := by rw [hm]; decide
    rw [hm] at hb
    simp only [h1, ↓reduceIte, litOf] at h hb
    simp only [hb, ↓reduceIte] at h
    split at h
    · exact add_err_fault h
    · cases h
  · have h1 : refTables.act s.mode 114 ≠ .tokenOk := by rw [hm]; decide
    have h2 : refTables.act s.mode 97 = .tokenOk := by rw [hm]; decide
    rw [hm] at hb
    simp only [h1, h2, ↓reduceIte, litOf] at h hb
    simp only [hb, ↓reduceIte] at h
    split at h
    · exact add_err_fault h
    · cases h

/-- under the control-level condition the only possible errors of the action switch are faults -/
theorem stepAct_err_fault (s : St) (b : UInt8) (e : Err) (hok : okCtl s.ctl b = true)
    (h : stepAct refTables cfg1 s b = .error e) : e.kind.isFault = true := by
  have hsrc := src_ok s.mode b
  have hact0 : refTables.act s.mode b = expected s.mode b := rfl
  have hm : s.ctl.mode = s.mode := rfl
  have hst : s.ctl.starts = s.starts := rfl
  have hri : s.ctl.ri = s.ri := rfl
  unfold okCtl at hok
  rw [hm] at hok
  unfold stepAct at h
  rw [hact0] at h
  cases hact : expected s.mode b <;> rw [hact] at h hok hsrc <;> simp only at h hok
  case numComma =>
    simp only [bind, Except.bind] at h
    cases ha : s.addNum with
    | error e' => rw [ha] at h; cases h; exact add_err_fault ha
    | ok s1 =>
      rw [ha] at h
      simp only at h
      have : s1.starts = s.starts := by
        have := St.add_ctl' ha; simp only [St.ctl, Ctl.mk.injEq] at this; exact this.2.2.2
      rw [this] at h
      rw [hst] at hok
      cases hs : s.starts with
      | nil => rw [hs] at hok; simp at hok
      | cons x ss => rw [hs] at h; cases h
  case closeObject =>
    rw [hst] at hok
    simp only [Bool.and_eq_true, bne_iff_ne, ne_eq] at hok
    cases hs : s.starts with
    | nil => rw [hs] at hok; simp at hok
    | cons x ss =>
      cases x with
      | true => rw [hs] at hok; simp at hok
      | false =>
        rw [hs] at h
        simp only at h
        have hv : refTables.fin s.mode ≠ .v := hok.2
        simp only [hv, ↓reduceIte, bind, Except.bind] at h
        cases h1 : s.flushNum refTables with
        | error e' => rw [h1] at h; cases h; exact flushNum_err_fault h1
        | ok s1 =>
          rw [h1] at h
          simp only at h
          cases h2 : s1.popObj ss with
          | error e' => rw [h2] at h; cases h; exact popObj_err_fault h2
          | ok s2 => rw [h2] at h; cases h
  case closeArray =>
    rw [hst] at hok
    cases hs : s.starts with
    | nil => rw [hs] at hok; simp at hok
    | cons x ss =>
      cases x with
      | false => rw [hs] at hok; simp at hok
      | true =>
        rw [hs] at h
        simp only [bind, Except.bind] at h
        cases h1 : s.flushNum refTables with
        | error e' => rw [h1] at h; cases h; exact flushNum_err_fault h1
        | ok s1 =>
          rw [h1] at h
          simp only at h
          cases h2 : s1.popArr ss with
          | error e' => rw [h2] at h; cases h; exact popArr_err_fault h2
          | ok s2 => rw [h2] at h; cases h
  case strQuote =>
    split at h
    · cases h
    · simp only [bind, Except.bind] at h
      cases ha : ({ s with mode := s.nextMode } : St).add (.str s.tmp.reverse) with
      | error e' => rw [ha] at h; cases h; exact add_err_fault ha
      | ok s1 => rw [ha] at h; cases h
  case numSpc =>
    simp only [bind, Except.bind] at h
    cases ha : s.addNum with
    | error e' => rw [ha] at h; cases h; exact add_err_fault ha
    | ok s1 => rw [ha] at h; cases h
  case numNewline =>
    simp only [bind, Except.bind] at h
    cases ha : s.addNum with
    | error e' => rw [ha] at h; cases h; exact add_err_fault ha
    | ok s1 => rw [ha] at h; cases h
  case tokenOk =>
    simp only [bind, Except.bind] at h
    have hmm : s.mode = .null ∨ s.mode = .true_ ∨ s.mode = .false_ := by simpa [srcModes] using hsrc
    cases ha : stepToken refTables s b with
    | error e' =>
      rw [ha] at h; cases h
      rw [hri] at hok
      exact stepToken_err s b e hmm (by simpa using hok) ha
    | ok s1 => rw [ha] at h; cases h
  case charErr => simp at hok
  case unknown => simp at hok
  all_goals (cases h)

/-- **A byte that passes the control-level test is accepted.** -/
theorem step_ok_of_okCtl (s : St) (b : UInt8) (hw : WF s) (hok : okCtl s.ctl b = true) :
    ∃ s', step refTables cfg1 s b = .ok s' ∧ WF s' ∧ s'.ctl = stepCtl s.ctl b := by
  cases hs : step refTables cfg1 s b with
  | ok s' => exact ⟨s', rfl, (step_wf cfg1 s b hw).2 s' hs, step_ctlEq cfg1 rfl s s' b hs⟩
  | error e =>
    exfalso
    have hnf := (step_wf cfg1 s b hw).1 e hs
    unfold step at hs
    cases hst : stepAct refTables cfg1 s b with
    | ok p => rw [hst] at hs; cases hs
    | error e' =>
      rw [hst] at hs; cases hs
      have := stepAct_err_fault s b e hok hst
      rw [this] at hnf; cases hnf


/-- the control automaton over a byte string -/
def runCtl (c : Ctl) : Bytes → Option Ctl
  | [] => some c
  | b :: r => if okCtl c b then runCtl (stepCtl c b) r else none

theorem runCtl_append (c : Ctl) (a b : Bytes) :
    runCtl c (a ++ b) = (runCtl c a).bind fun c' => runCtl c' b := by
  induction a generalizing c with
  | nil => rfl
  | cons x r ih =>
    simp only [List.cons_append, runCtl]
    split
    · exact ih _
    · rfl

theorem runBytes_of_runCtl (bs : Bytes) : ∀ (s : St) (c' : Ctl), WF s → runCtl s.ctl bs = some c' →
    ∃ s', runBytes refTables cfg1 s bs = .ok s' ∧ WF s' ∧ s'.ctl = c' := by
  induction bs with
  | nil => intro s c' hw h; simp only [runCtl, Option.some.injEq] at h; exact ⟨s, rfl, hw, h⟩
  | cons b r ih =>
    intro s c' hw h
    simp only [runCtl] at h
    split at h
    · rename_i hok
      obtain ⟨s1, hs1, hw1, hc1⟩ := step_ok_of_okCtl s b hw hok
      rw [← hc1] at h
      obtain ⟨s', hs', hw', hc'⟩ := ih s1 c' hw1 h
      exact ⟨s', by simp only [runBytes, hs1]; exact hs', hw', hc'⟩
    · cases h

/-- control-level condition under which the end of the input is accepted -/
def finOk (c : Ctl) : Bool := c.starts.isEmpty && expectedFin c.mode != .absent

theorem finish_ok_of_finOk (s : St) (hw : WF s) (h : finOk s.ctl = true) :
    ∃ docs, finish refTables s = .ok docs := by
  cases hf : finish refTables s with
  | ok docs => exact ⟨docs, rfl⟩
  | error e =>
    exfalso
    have hnf := finish_wf s hw e hf
    simp only [finOk, St.ctl, Bool.and_eq_true, bne_iff_ne, ne_eq] at h
    unfold finish at hf
    have h1 : refTables.fin s.mode ≠ .absent := h.2
    simp only [h.1, Bool.not_true, Bool.false_or, decide_eq_true_eq, h1, ↓reduceIte] at hf
    split at hf
    · cases ha : s.addNum with
      | error e' =>
        rw [ha] at hf; cases hf
        have := add_err_fault ha
        rw [this] at hnf; cases hnf
      | ok s1 => rw [ha] at hf; cases hf
    · cases hf


/-- what reachable states satisfy beyond `WF`: the literal / escape counter is in range and `space`
mode occurs at top level only -/
structure RInv (c : Ctl) : Prop where
  lit3 : c.mode = .null ∨ c.mode = .true_ → c.ri ≤ 2
  lit4 : c.mode = .false_ → c.ri ≤ 3
  hex : c.mode = .u → c.ri ≤ 3
  space : c.mode = .space → c.starts = []
  next : c.nextMode = .colon ∨ c.nextMode = .after

theorem RInv.init : RInv ({} : St).ctl :=
  ⟨(by intro h; rcases h with h | h <;> cases h), (by intro h; cases h), (by intro h; cases h), fun _ => rfl,
   Or.inr rfl⟩

theorem rinv_deliver (c : Ctl) (h : RInv c) : RInv (deliverCtl c) := by
  unfold deliverCtl
  split
  · rename_i hc
    simp only [Bool.and_eq_true, List.isEmpty_iff, decide_eq_true_eq] at hc
    exact ⟨(by intro h; rcases h with h | h <;> cases h), (by intro h; cases h), (by intro h; cases h),
      fun _ => hc.1, h.next⟩
  · exact h

theorem rinv_step (c : Ctl) (b : UInt8) (h : RInv c) : RInv (stepCtl c b) := by
  have hsrc := src_ok c.mode b
  unfold stepCtl
  have key : RInv (actCtl (expected c.mode b) c) := by
    cases hact : expected c.mode b <;> rw [hact] at hsrc <;> simp only [actCtl]
    case tokenOk =>
      have hm : c.mode = .null ∨ c.mode = .true_ ∨ c.mode = .false_ := by simpa [srcModes] using hsrc
      by_cases hdone : (c.mode = .false_ ∧ 4 ≤ c.ri + 1) ∨ (c.mode ≠ .false_ ∧ 3 ≤ c.ri + 1)
      · simp only [hdone, ↓reduceIte]
        exact ⟨(by intro h; rcases h with h | h <;> cases h), (by intro h; cases h), (by intro h; cases h),
          (by intro h; cases h), h.next⟩
      · simp only [hdone, ↓reduceIte]
        refine ⟨fun hn => ?_, fun hf => ?_, fun hu => ?_, fun hs => ?_, h.next⟩
        · have hnf : c.mode ≠ .false_ := by rcases hn with hn | hn <;> (rw [hn]; decide)
          have := h.lit3 hn
          by_cases h3 : 3 ≤ c.ri + 1
          · exact absurd (Or.inr ⟨hnf, h3⟩) hdone
          · simp only; omega
        · by_cases h4 : 4 ≤ c.ri + 1
          · exact absurd (Or.inl ⟨hf, h4⟩) hdone
          · simp only; omega
        · rcases hm with hm | hm | hm <;> (rw [hm] at hu; cases hu)
        · rcases hm with hm | hm | hm <;> (rw [hm] at hs; cases hs)
    case uOk =>
      have hm : c.mode = .u := by simpa [srcModes] using hsrc
      have h3 := h.hex hm
      by_cases h4 : c.ri + 1 = 4
      · simp only [h4, ↓reduceIte]
        exact ⟨(by intro h; rcases h with h | h <;> cases h), (by intro h; cases h), (by intro h; cases h),
          (by intro h; cases h), h.next⟩
      · simp only [h4, ↓reduceIte]
        refine ⟨fun hn => ?_, fun hf => ?_, fun _ => ?_, fun hs => ?_, h.next⟩
        · rcases hn with hn | hn <;> (rw [hm] at hn; cases hn)
        · rw [hm] at hf; cases hf
        · simp only; omega
        · rw [hm] at hs; cases hs
    case strQuote =>
      rcases h.next with hn | hn <;> rw [hn] <;>
        exact ⟨(by intro h; rcases h with h | h <;> cases h), (by intro h; cases h), (by intro h; cases h),
          (by intro h; cases h), by simp [hn]⟩
    case afterComma =>
      refine ⟨?_, ?_, ?_, ?_, h.next⟩ <;> (unfold afterCommaModeL; split <;> simp)
    case numComma =>
      refine ⟨?_, ?_, ?_, ?_, h.next⟩ <;> (unfold afterCommaModeL; split <;> simp)
    all_goals first
      | exact h
      | exact ⟨by simp, by simp, by simp, by simp, by first | exact h.next | simp⟩
  split
  · exact key
  · exact rinv_deliver _ key

theorem runCtl_rinv (bs : Bytes) : ∀ (c c' : Ctl), RInv c → runCtl c bs = some c' → RInv c' := by
  induction bs with
  | nil => intro c c' h hr; simp only [runCtl, Option.some.injEq] at hr; rw [← hr]; exact h
  | cons b r ih =>
    intro c c' h hr
    simp only [runCtl] at hr
    split at hr
    · exact ih _ _ (rinv_step c b h) hr
    · cases hr

/-- reachable states satisfy the invariants -/
theorem reach_inv (p : Bytes) : ∀ (s s' : St), WF s → RInv s.ctl → runBytes refTables cfg1 s p = .ok s' →
    WF s' ∧ RInv s'.ctl := by
  induction p with
  | nil => intro s s' hw hr h; cases h; exact ⟨hw, hr⟩
  | cons b r ih =>
    intro s s' hw hr h
    simp only [runBytes] at h
    cases hs : step refTables cfg1 s b with
    | error e => rw [hs] at h; cases h
    | ok s1 =>
      rw [hs] at h
      have hw1 := (step_wf cfg1 s b hw).2 s1 hs
      have hc1 := step_ctlEq cfg1 rfl s s1 b hs
      exact ih s1 s' hw1 (by rw [hc1]; exact rinv_step _ _ hr) h


/-- the control part of `WF` -/
structure CtlWF (c : Ctl) : Prop where
  after : c.mode = .after → c.starts ≠ []
  comma : c.mode = .comma → ∃ ss, c.starts = true :: ss
  obj : (c.mode = .key1 ∨ c.mode = .key ∨ c.mode = .colon ∨
          ((c.mode = .string ∨ c.mode = .esc ∨ c.mode = .u) ∧ c.nextMode = .colon)) →
        ∃ ss, c.starts = false :: ss

theorem CtlWF.of_wf {s : St} (hw : WF s) : CtlWF s.ctl :=
  ⟨hw.ctl.after, hw.arr, hw.obj⟩

/-- nothing is pending but closing brackets (or nothing at all) -/
def Done (c : Ctl) : Prop :=
  (c.mode = .after ∧ c.starts ≠ []) ∨ (c.mode = .zero ∨ c.mode = .digit ∨ c.mode = .frac ∨ c.mode = .exp) ∨
  (c.mode = .key1 ∧ ∃ ss, c.starts = false :: ss) ∨ ((c.mode = .space ∨ c.mode = .value) ∧ c.starts = [])

def closers (st : List Bool) : Bytes := st.map fun x => if x then 93 else 125

/-- one closing bracket from a `Done` state -/
theorem close_one (c : Ctl) (x : Bool) (ss : List Bool) (hst : c.starts = x :: ss) (hd : Done c) :
    okCtl c (if x then 93 else 125) = true ∧
    (stepCtl c (if x then 93 else 125)).starts = ss ∧ Done (stepCtl c (if x then 93 else 125)) := by
  have fin_after : ∀ (m : Mode), m = .after ∨ m = .zero ∨ m = .digit ∨ m = .frac ∨ m = .exp ∨ m = .key1 →
      expectedFin m ≠ .v := by
    intro m hm; rcases hm with h | h | h | h | h | h <;> (rw [h]; decide)
  have result : ∀ (a : Act), (a = .closeArray ∨ a = .closeObject) →
      expected c.mode (if x then 93 else 125) = a →
      (stepCtl c (if x then 93 else 125)).starts = ss ∧ Done (stepCtl c (if x then 93 else 125)) := by
    intro a ha hact
    have hcont : contOf a = false := by rcases ha with h | h <;> (rw [h]; rfl)
    have hac : actCtl a c = { c with starts := ss, mode := .after } := by
      rcases ha with h | h <;> (rw [h]; simp only [actCtl, hst, List.tail_cons])
    unfold stepCtl
    rw [hact, hcont, hac]
    simp only [Bool.false_eq_true, ↓reduceIte]
    unfold deliverCtl
    cases ss with
    | nil =>
      simp only [List.isEmpty_nil, expectedFin, decide_true, Bool.and_self, ↓reduceIte]
      exact ⟨trivial, Or.inr (Or.inr (Or.inr ⟨Or.inl rfl, rfl⟩))⟩
    | cons y t =>
      simp only [List.isEmpty_cons, Bool.false_and, Bool.false_eq_true, ↓reduceIte]
      exact ⟨trivial, Or.inl ⟨rfl, by simp⟩⟩
  -- which modes, which action
  have hmode : c.mode = .after ∨ c.mode = .zero ∨ c.mode = .digit ∨ c.mode = .frac ∨ c.mode = .exp ∨
      (c.mode = .key1 ∧ x = false) := by
    rcases hd with ⟨h, _⟩ | (h | h | h | h) | ⟨h, ss', hs'⟩ | ⟨_, h⟩
    · exact Or.inl h
    · exact Or.inr (Or.inl h)
    · exact Or.inr (Or.inr (Or.inl h))
    · exact Or.inr (Or.inr (Or.inr (Or.inl h)))
    · exact Or.inr (Or.inr (Or.inr (Or.inr (Or.inl h))))
    · rw [hst] at hs'; simp only [List.cons.injEq] at hs'
      exact Or.inr (Or.inr (Or.inr (Or.inr (Or.inr ⟨h, hs'.1⟩))))
    · rw [hst] at h; cases h
  have hfin : expectedFin c.mode ≠ .v := by
    apply fin_after
    rcases hmode with h | h | h | h | h | ⟨h, _⟩
    · exact Or.inl h
    · exact Or.inr (Or.inl h)
    · exact Or.inr (Or.inr (Or.inl h))
    · exact Or.inr (Or.inr (Or.inr (Or.inl h)))
    · exact Or.inr (Or.inr (Or.inr (Or.inr (Or.inl h))))
    · exact Or.inr (Or.inr (Or.inr (Or.inr (Or.inr h))))
  cases x with
  | true =>
    have hact : expected c.mode 93 = .closeArray := by
      rcases hmode with h | h | h | h | h | ⟨_, h⟩
      · rw [h]; rfl
      · rw [h]; rfl
      · rw [h]; rfl
      · rw [h]; rfl
      · rw [h]; rfl
      · cases h
    refine ⟨?_, result .closeArray (Or.inl rfl) hact⟩
    simp only [↓reduceIte, okCtl, hact, hst]
  | false =>
    have hact : expected c.mode 125 = .closeObject := by
      rcases hmode with h | h | h | h | h | ⟨h, _⟩ <;> (rw [h]; rfl)
    refine ⟨?_, result .closeObject (Or.inr rfl) hact⟩
    simp only [Bool.false_eq_true, ↓reduceIte, okCtl, hact, hst, Bool.true_and, bne_iff_ne, ne_eq]
    exact hfin

/-- closing every open container from a `Done` state ends in an accepting state -/
theorem close_all : ∀ (st : List Bool) (c : Ctl), c.starts = st → Done c →
    ∃ c', runCtl c (closers st) = some c' ∧ finOk c' = true := by
  intro st
  induction st with
  | nil =>
    intro c hst hd
    refine ⟨c, rfl, ?_⟩
    simp only [finOk, hst, List.isEmpty_nil, Bool.true_and, bne_iff_ne, ne_eq]
    rcases hd with ⟨_, h⟩ | (h | h | h | h) | ⟨_, ss, h⟩ | ⟨h | h, _⟩
    · exact absurd hst h
    · rw [h]; decide
    · rw [h]; decide
    · rw [h]; decide
    · rw [h]; decide
    · rw [hst] at h; cases h
    · rw [h]; decide
    · rw [h]; decide
  | cons x ss ih =>
    intro c hst hd
    obtain ⟨hok, hs1, hd1⟩ := close_one c x ss hst hd
    obtain ⟨c', hrun, hfin⟩ := ih _ hs1 hd1
    refine ⟨c', ?_, hfin⟩
    simp only [closers, List.map_cons, runCtl, hok, ↓reduceIte]
    exact hrun


/-- the pending token can be completed without touching the container stack -/
def Completable (c : Ctl) : Prop := ∃ bs c1, runCtl c bs = some c1 ∧ c1.starts = c.starts ∧ Done c1

theorem completable_done (c : Ctl) (h : Done c) : Completable c := ⟨[], c, rfl, rfl, h⟩

theorem completable_step (c : Ctl) (b : UInt8) (c1 : Ctl) (hok : okCtl c b = true) (hstep : stepCtl c b = c1)
    (hs : c1.starts = c.starts) (h : Completable c1) : Completable c := by
  obtain ⟨bs, c2, hrun, hst, hd⟩ := h
  refine ⟨b :: bs, c2, ?_, hst.trans hs, hd⟩
  simp only [runCtl, hok, ↓reduceIte, hstep]
  exact hrun

theorem completable_num (c : Ctl) (h : c.mode = .zero ∨ c.mode = .digit ∨ c.mode = .frac ∨ c.mode = .exp) :
    Completable c := completable_done c (Or.inr (Or.inl h))

/-- a mode from which the digit `0` leads to a complete number -/
theorem completable_zero (c : Ctl)
    (h : c.mode = .value ∨ c.mode = .comma ∨ c.mode = .neg ∨ c.mode = .dot ∨ c.mode = .expSign ∨ c.mode = .expZero) :
    Completable c := by
  rcases h with h | h | h | h | h | h
  · exact completable_step c 48 { c with mode := .zero } (by simp [okCtl, h, show expected .value 48 = .val0 from rfl])
      (by simp [stepCtl, h, show expected .value 48 = .val0 from rfl, actCtl, contOf, deliverCtl, expectedFin]) rfl
      (completable_num _ (Or.inl rfl))
  · exact completable_step c 48 { c with mode := .zero } (by simp [okCtl, h, show expected .comma 48 = .val0 from rfl])
      (by simp [stepCtl, h, show expected .comma 48 = .val0 from rfl, actCtl, contOf, deliverCtl, expectedFin]) rfl
      (completable_num _ (Or.inl rfl))
  · exact completable_step c 48 { c with mode := .zero } (by simp [okCtl, h, show expected .neg 48 = .numZero from rfl])
      (by simp [stepCtl, h, show expected .neg 48 = .numZero from rfl, actCtl, contOf, deliverCtl, expectedFin]) rfl
      (completable_num _ (Or.inl rfl))
  · exact completable_step c 48 { c with mode := .frac } (by simp [okCtl, h, show expected .dot 48 = .numFrac from rfl])
      (by simp [stepCtl, h, show expected .dot 48 = .numFrac from rfl, actCtl, contOf, deliverCtl, expectedFin]) rfl
      (completable_num _ (Or.inr (Or.inr (Or.inl rfl))))
  · exact completable_step c 48 { c with mode := .exp } (by simp [okCtl, h, show expected .expSign 48 = .expDigit from rfl])
      (by simp [stepCtl, h, show expected .expSign 48 = .expDigit from rfl, actCtl, contOf, deliverCtl, expectedFin]) rfl
      (completable_num _ (Or.inr (Or.inr (Or.inr rfl))))
  · exact completable_step c 48 { c with mode := .exp } (by simp [okCtl, h, show expected .expZero 48 = .expDigit from rfl])
      (by simp [stepCtl, h, show expected .expZero 48 = .expDigit from rfl, actCtl, contOf, deliverCtl, expectedFin]) rfl
      (completable_num _ (Or.inr (Or.inr (Or.inr rfl))))

theorem completable_colon (c : Ctl) (h : c.mode = .colon) : Completable c :=
  completable_step c 58 { c with mode := .value } (by simp [okCtl, h, show expected .colon 58 = .colonColon from rfl])
    (by simp [stepCtl, h, show expected .colon 58 = .colonColon from rfl, actCtl, contOf]) rfl
    (completable_zero _ (Or.inl rfl))

/-- a value has just been completed: `after` inside a container, `space` at top level -/
theorem completable_afterValue (c : Ctl) (h : c.mode = .after) : Completable (deliverCtl c) := by
  unfold deliverCtl
  cases hs : c.starts with
  | nil =>
    simp only [List.isEmpty_nil, h, expectedFin, decide_true, Bool.and_self, ↓reduceIte]
    exact completable_done _ (Or.inr (Or.inr (Or.inr ⟨Or.inl rfl, rfl⟩)))
  | cons x ss =>
    simp only [List.isEmpty_cons, Bool.false_and, Bool.false_eq_true, ↓reduceIte]
    exact completable_done _ (Or.inl ⟨h, by rw [hs]; simp⟩)

theorem deliverCtl_starts (c : Ctl) : (deliverCtl c).starts = c.starts := by
  unfold deliverCtl; split <;> rfl

theorem completable_string (c : Ctl) (h : c.mode = .string) (hn : c.nextMode = .colon ∨ c.nextMode = .after) :
    Completable c := by
  have hact : expected c.mode 34 = .strQuote := by rw [h]; rfl
  rcases hn with hn | hn
  · exact completable_step c 34 { c with mode := .colon } (by simp [okCtl, hact])
      (by simp [stepCtl, hact, actCtl, contOf, hn, deliverCtl, expectedFin]) rfl
      (completable_colon _ rfl)
  · exact completable_step c 34 (deliverCtl { c with mode := .after }) (by simp [okCtl, hact])
      (by simp [stepCtl, hact, actCtl, contOf, hn]) (deliverCtl_starts _)
      (completable_afterValue _ rfl)

theorem completable_esc (c : Ctl) (h : c.mode = .esc) (hn : c.nextMode = .colon ∨ c.nextMode = .after) :
    Completable c :=
  completable_step c 110 { c with mode := .string } (by simp [okCtl, h, show expected .esc 110 = .escOk from rfl])
    (by simp [stepCtl, h, show expected .esc 110 = .escOk from rfl, actCtl, contOf]) rfl
    (completable_string _ rfl hn)

theorem completable_u (k : Nat) : ∀ (c : Ctl), c.mode = .u → c.ri + k = 3 →
    (c.nextMode = .colon ∨ c.nextMode = .after) → Completable c := by
  induction k with
  | zero =>
    intro c h hri hn
    have hact : expected c.mode 48 = .uOk := by rw [h]; rfl
    have h4 : c.ri + 1 = 4 := by omega
    exact completable_step c 48 { c with ri := c.ri + 1, mode := .string } (by simp [okCtl, hact])
      (by simp [stepCtl, hact, actCtl, contOf, h4]) rfl (completable_string _ rfl hn)
  | succ k ih =>
    intro c h hri hn
    have hact : expected c.mode 48 = .uOk := by rw [h]; rfl
    have h4 : ¬ c.ri + 1 = 4 := by omega
    exact completable_step c 48 { c with ri := c.ri + 1 } (by simp [okCtl, hact])
      (by simp [stepCtl, hact, actCtl, contOf, h4]) rfl (ih _ h (by simp only; omega) hn)

theorem completable_key (c : Ctl) (h : c.mode = .key) : Completable c :=
  completable_step c 34 { c with mode := .string, nextMode := .colon }
    (by simp [okCtl, h, show expected .key 34 = .keyQuote from rfl])
    (by simp [stepCtl, h, show expected .key 34 = .keyQuote from rfl, actCtl, contOf]) rfl
    (completable_string _ rfl (Or.inl rfl))


/-- the next letter of a pending literal is accepted as a literal letter -/
theorem lit_letter (m : Mode) (ri : Nat)
    (h : ((m = .null ∨ m = .true_) ∧ ri ≤ 2) ∨ (m = .false_ ∧ ri ≤ 3)) :
    expected m ((litOf m).getD (ri + 1) 0) = .tokenOk := by
  rcases h with ⟨hm | hm, hr⟩ | ⟨hm, hr⟩ <;> subst hm
  · have : ri = 0 ∨ ri = 1 ∨ ri = 2 := by omega
    rcases this with h | h | h <;> subst h <;> rfl
  · have : ri = 0 ∨ ri = 1 ∨ ri = 2 := by omega
    rcases this with h | h | h <;> subst h <;> rfl
  · have : ri = 0 ∨ ri = 1 ∨ ri = 2 ∨ ri = 3 := by omega
    rcases this with h | h | h | h <;> subst h <;> rfl

theorem completable_lit (k : Nat) : ∀ (c : Ctl),
    (((c.mode = .null ∨ c.mode = .true_) ∧ c.ri + k = 2) ∨ (c.mode = .false_ ∧ c.ri + k = 3)) →
    Completable c := by
  induction k with
  | zero =>
    intro c h
    have hl : ((c.mode = .null ∨ c.mode = .true_) ∧ c.ri ≤ 2) ∨ (c.mode = .false_ ∧ c.ri ≤ 3) := by
      rcases h with ⟨hm, hr⟩ | ⟨hm, hr⟩
      · exact Or.inl ⟨hm, by omega⟩
      · exact Or.inr ⟨hm, by omega⟩
    have hact := lit_letter c.mode c.ri hl
    have hdone : (c.mode = .false_ ∧ 4 ≤ c.ri + 1) ∨ (c.mode ≠ .false_ ∧ 3 ≤ c.ri + 1) := by
      rcases h with ⟨hm, hr⟩ | ⟨hm, hr⟩
      · right; exact ⟨by rcases hm with hm | hm <;> (rw [hm]; decide), by omega⟩
      · left; exact ⟨hm, by omega⟩
    refine completable_step c ((litOf c.mode).getD (c.ri + 1) 0)
      (deliverCtl { c with ri := c.ri + 1, mode := .after }) (by unfold okCtl; rw [hact]; exact beq_self_eq_true _) ?_
      (deliverCtl_starts _) (completable_afterValue _ rfl)
    simp only [stepCtl, hact, contOf, Bool.false_eq_true, ↓reduceIte, actCtl, hdone]
  | succ k ih =>
    intro c h
    have hl : ((c.mode = .null ∨ c.mode = .true_) ∧ c.ri ≤ 2) ∨ (c.mode = .false_ ∧ c.ri ≤ 3) := by
      rcases h with ⟨hm, hr⟩ | ⟨hm, hr⟩
      · exact Or.inl ⟨hm, by omega⟩
      · exact Or.inr ⟨hm, by omega⟩
    have hact := lit_letter c.mode c.ri hl
    have hdone : ¬ ((c.mode = .false_ ∧ 4 ≤ c.ri + 1) ∨ (c.mode ≠ .false_ ∧ 3 ≤ c.ri + 1)) := by
      rcases h with ⟨hm, hr⟩ | ⟨hm, hr⟩
      · intro hd
        rcases hd with ⟨hf, _⟩ | ⟨_, h3⟩
        · rcases hm with hm | hm <;> (rw [hm] at hf; cases hf)
        · omega
      · intro hd
        rcases hd with ⟨_, h4⟩ | ⟨hnf, _⟩
        · omega
        · exact hnf hm
    have hfin : expectedFin c.mode ≠ .a := by
      rcases h with ⟨hm | hm, _⟩ | ⟨hm, _⟩ <;> (rw [hm]; decide)
    refine completable_step c ((litOf c.mode).getD (c.ri + 1) 0) { c with ri := c.ri + 1 }
      (by unfold okCtl; rw [hact]; exact beq_self_eq_true _) ?_ rfl (ih _ ?_)
    · simp only [stepCtl, hact, contOf, Bool.false_eq_true, ↓reduceIte, actCtl, hdone, deliverCtl]
      simp [hfin]
    · rcases h with ⟨hm, hr⟩ | ⟨hm, hr⟩
      · exact Or.inl ⟨hm, by simp only; omega⟩
      · exact Or.inr ⟨hm, by simp only; omega⟩

/-- **Every reachable control state can complete its pending token.** -/
theorem completable_all (c : Ctl) (hw : CtlWF c) (hr : RInv c) : Completable c := by
  cases hm : c.mode
  case value =>
    cases hs : c.starts with
    | nil => exact completable_done c (Or.inr (Or.inr (Or.inr ⟨Or.inr hm, hs⟩)))
    | cons x ss => exact completable_zero c (Or.inl hm)
  case comma => exact completable_zero c (Or.inr (Or.inl hm))
  case after => exact completable_done c (Or.inl ⟨hm, hw.after hm⟩)
  case key1 => exact completable_done c (Or.inr (Or.inr (Or.inl ⟨hm, hw.obj (Or.inl hm)⟩)))
  case key => exact completable_key c hm
  case colon => exact completable_colon c hm
  case null => exact completable_lit (2 - c.ri) c (Or.inl ⟨Or.inl hm, by have := hr.lit3 (Or.inl hm); omega⟩)
  case true_ => exact completable_lit (2 - c.ri) c (Or.inl ⟨Or.inr hm, by have := hr.lit3 (Or.inr hm); omega⟩)
  case false_ => exact completable_lit (3 - c.ri) c (Or.inr ⟨hm, by have := hr.lit4 hm; omega⟩)
  case neg => exact completable_zero c (Or.inr (Or.inr (Or.inl hm)))
  case zero => exact completable_num c (Or.inl hm)
  case digit => exact completable_num c (Or.inr (Or.inl hm))
  case dot => exact completable_zero c (Or.inr (Or.inr (Or.inr (Or.inl hm))))
  case frac => exact completable_num c (Or.inr (Or.inr (Or.inl hm)))
  case expSign => exact completable_zero c (Or.inr (Or.inr (Or.inr (Or.inr (Or.inl hm)))))
  case expZero => exact completable_zero c (Or.inr (Or.inr (Or.inr (Or.inr (Or.inr hm)))))
  case exp => exact completable_num c (Or.inr (Or.inr (Or.inr hm)))
  case string => exact completable_string c hm hr.next
  case esc => exact completable_esc c hm hr.next
  case u => exact completable_u (3 - c.ri) c hm (by have := hr.hex hm; omega) hr.next
  case space => exact completable_done c (Or.inr (Or.inr (Or.inr ⟨Or.inl hm, hr.space hm⟩)))

/-- **Viability at control level**: from every reachable control state some input leads to acceptance. -/
theorem viable_ctl (c : Ctl) (hw : CtlWF c) (hr : RInv c) : ∃ bs c', runCtl c bs = some c' ∧ finOk c' = true := by
  obtain ⟨bs, c1, hrun, hst, hd⟩ := completable_all c hw hr
  obtain ⟨c', hrun', hfin⟩ := close_all c1.starts c1 rfl hd
  refine ⟨bs ++ closers c1.starts, c', ?_, hfin⟩
  rw [runCtl_append, hrun]
  exact hrun'

/-- **Viable prefixes.** From every state the machine can reach, some continuation of the input is
accepted. -/
theorem viable_state (s : St) (hw : WF s) (hr : RInv s.ctl) :
    ∃ q docs, exec s q = some docs := by
  obtain ⟨q, c', hrun, hfin⟩ := viable_ctl s.ctl (CtlWF.of_wf hw) hr
  obtain ⟨s', hs', hw', hc'⟩ := runBytes_of_runCtl q s c' hw hrun
  obtain ⟨docs, hdocs⟩ := finish_ok_of_finOk s' hw' (by rw [hc']; exact hfin)
  refine ⟨q, docs, ?_⟩
  unfold exec
  simp only [hs', hdocs]

end OjgVerif.Json
