import OjgVerif.Json.Number
/-! # Model of the table-driven strict-JSON machines (oj.Parser, oj.Validator, oj.Tokenizer+Builder,
gen.Parser): one Lean branch per Go `case`, byte at a time (the Go fast paths — literal compare,
string scan, digit loops, whitespace skip after newline — are tied to this byte-level model by the
correspondence run). The tables are a parameter; `OjgVerif.Json.Tables*` instantiates them with the
regenerated `Gen` data. -/
namespace OjgVerif.Json
open OjgVerif

inductive Mode where
  | value | null | true_ | false_ | comma | after | key1 | key | colon | neg | zero | digit | dot
  | frac | expSign | expZero | exp | string | esc | u | space
  deriving DecidableEq, Repr, Inhabited

def Mode.all : List Mode :=
  [.value, .null, .true_, .false_, .comma, .after, .key1, .key, .colon, .neg, .zero, .digit, .dot,
   .frac, .expSign, .expZero, .exp, .string, .esc, .u, .space]

inductive Act where
  | skipChar | skipNewline | valNull | valTrue | valFalse | valNeg | val0 | valDigit | valQuote
  | openArray | openObject | closeArray | closeObject | afterComma | keyQuote | colonColon
  | numSpc | numNewline | numDot | numComma | numFrac | fracE | expSign | expDigit | strQuote
  | negDigit | strSlash | escOk | uOk | tokenOk | numDigit | numZero | strOk | escU | charErr
  | unknown
  deriving DecidableEq, Repr, Inhabited

/-- the 257th byte of a mode table: how input may end / what is pending in that mode -/
inductive EndMark where
  | absent   -- table has 256 entries: input may not end here
  | v | a | n | s | other
  deriving DecidableEq, Repr, Inhabited

structure Tables where
  act : Mode → UInt8 → Act
  fin : Mode → EndMark
  escByte : UInt8 → UInt8

inductive Item where
  | val (v : JV)
  | key (k : Bytes)
  | arrMark
  | obj (kvs : List (Bytes × JV))
  deriving Inhabited

def Item.toJV : Item → JV
  | .val v => v
  | .key k => .str k
  | .arrMark => .arr []
  | .obj kvs => .obj kvs

inductive ErrKind where
  | byte | objClose | arrClose | comma | incomplete | expTrue | expFalse | expNull
  | fault (what : String)
  deriving DecidableEq, Repr, Inhabited

structure Err where
  line : Nat
  col : Int
  kind : ErrKind
  deriving Repr, Inhabited

structure Cfg where
  onlyOne : Bool := true
  fastInt : Bool := false     -- oj.Parser/gen.Parser: the pinned integer fast loop (see `stepAct`, numDigit)
  reader : Bool := false      -- io.Reader entry point (BOM rule differs)
  deriving Inhabited

structure St where
  mode : Mode := .value
  nextMode : Mode := .after
  starts : List Bool := []     -- container stack, innermost first; true = array
  stack : List Item := []      -- build stack, top first
  docs : List JV := []         -- documents delivered so far, newest first
  tmp : Bytes := []            -- pending string bytes, newest first (reversed)
  ri : Nat := 0
  rn : Nat := 0
  num : Num := {}
  line : Nat := 1
  pos : Nat := 0               -- absolute offset of the byte being read
  nl : Int := -1               -- absolute offset of the last newline
  inFast : Bool := false       -- inside the integer fast loop that `valDigit` starts (same read buffer)
  deriving Inhabited

def St.err (s : St) (k : ErrKind) : Err := { line := s.line, col := (s.pos : Int) - s.nl, kind := k }

/-- `p.add(n)` -/
def addItem (n : JV) : List Item → Except String (List Item)
  | .key k :: .obj kvs :: rest => .ok (.obj (kvInsert k n kvs) :: rest)
  | .key _ :: _ :: _ => .error "nil map write"
  | st => .ok (.val n :: st)

/-- items above the innermost array mark (in document order) and the stack below the mark -/
def splitAtMark : List Item → List JV → Option (List JV × List Item)
  | [], _ => none
  | .arrMark :: rest, acc => some (acc, rest)
  | it :: rest, acc => splitAtMark rest (it.toJV :: acc)

def hexDigitVal (b : UInt8) : Nat :=
  if 48 ≤ b && b ≤ 57 then b.toNat - 48
  else if 97 ≤ b && b ≤ 102 then b.toNat - 87
  else if 65 ≤ b && b ≤ 70 then b.toNat - 55
  else 0

/-- UTF-8 encoding as `utf8.EncodeRune` (same function as the specification uses) -/
def utf8Enc (r : Nat) : Bytes :=
  if r < 0x80 then [UInt8.ofNat r]
  else if r < 0x800 then [UInt8.ofNat (0xC0 + r / 64), UInt8.ofNat (0x80 + r % 64)]
  else if (0xD800 ≤ r ∧ r < 0xE000) ∨ 0x10FFFF < r then [0xEF, 0xBF, 0xBD]
  else if r < 0x10000 then
    [UInt8.ofNat (0xE0 + r / 4096), UInt8.ofNat (0x80 + r / 64 % 64), UInt8.ofNat (0x80 + r % 64)]
  else
    [UInt8.ofNat (0xF0 + r / 262144), UInt8.ofNat (0x80 + r / 4096 % 64),
     UInt8.ofNat (0x80 + r / 64 % 64), UInt8.ofNat (0x80 + r % 64)]

variable (T : Tables) (cfg : Cfg)

/-- `p.add(n)` lifted to the state; a fault becomes an error of kind `fault` -/
def St.add (s : St) (n : JV) : Except Err St :=
  match addItem n s.stack with
  | .ok st => .ok { s with stack := st }
  | .error w => .error (s.err (.fault w))

def St.addNum (s : St) : Except Err St :=
  s.add s.num.asNum.toJV

/-- mode after a comma: key mode inside an object, comma mode inside an array -/
def afterCommaMode (s : St) : Mode :=
  match s.starts with
  | false :: _ => .key
  | _ => .comma

/-- the literal a `tokenOk` byte continues; mirrors the three `p.mode[c] == tokenOk` tests -/
def stepToken (s : St) (b : UInt8) : Except Err St :=
  let ri := s.ri + 1
  if T.act s.mode 114 = .tokenOk then          -- 'r': true
    if [116, 114, 117, 101].getD ri 0 = b then
      if 3 ≤ ri then ({ s with ri := ri, mode := .after } : St).add (.bool true)
      else .ok { s with ri := ri }
    else .error (s.err .expTrue)
  else if T.act s.mode 97 = .tokenOk then      -- 'a': false
    if [102, 97, 108, 115, 101].getD ri 0 = b then
      if 4 ≤ ri then ({ s with ri := ri, mode := .after } : St).add (.bool false)
      else .ok { s with ri := ri }
    else .error (s.err .expFalse)
  else if T.act s.mode 117 = .tokenOk && T.act s.mode 108 = .tokenOk then   -- 'u','l': null
    if [110, 117, 108, 108].getD ri 0 = b then
      if 3 ≤ ri then ({ s with ri := ri, mode := .after } : St).add .null
      else .ok { s with ri := ri }
    else .error (s.err .expNull)
  else .ok s

/-- `if 256 < len(p.mode) && p.mode[256] == 'n' { p.add(p.num.AsNum()) }` -/
def St.flushNum (s : St) : Except Err St :=
  if T.fin s.mode = .n then s.addNum else .ok s

/-- close-object tail: pop the map and add it to what is below -/
def St.popObj (s : St) (rest : List Bool) : Except Err St :=
  match s.stack with
  | [] => .error (s.err (.fault "index out of range"))
  | top :: below => ({ s with starts := rest, stack := below } : St).add top.toJV

/-- close-array tail: copy the elements above the array's placeholder and add the slice below it -/
def St.popArr (s : St) (rest : List Bool) : Except Err St :=
  match splitAtMark s.stack [] with
  | none => .error (s.err (.fault "slice bounds out of range"))
  | some (elems, below) => ({ s with starts := rest, stack := below } : St).add (.arr elems)

/-- the `switch p.mode[b]` of `parseBuffer`; the Boolean is "the case ends with `continue`" -/
def stepAct (s : St) (b : UInt8) : Except Err (St × Bool) :=
  match T.act s.mode b with
  | .skipNewline => .ok ({ s with line := s.line + 1, nl := s.pos }, true)
  | .colonColon => .ok ({ s with mode := .value }, true)
  | .skipChar => .ok (s, true)
  | .strOk => .ok ({ s with tmp := b :: s.tmp }, false)
  | .keyQuote => .ok ({ s with tmp := [], mode := .string, nextMode := .colon }, true)
  | .afterComma => .ok ({ s with mode := afterCommaMode s }, true)
  | .valQuote => .ok ({ s with tmp := [], mode := .string, nextMode := .after }, true)
  | .numComma => do
    let s' ← s.addNum
    match s'.starts with
    | [] => .error (s'.err .comma)
    | _ :: _ => pure ({ s' with mode := afterCommaMode s' }, false)
  | .strSlash => .ok ({ s with mode := .esc }, true)
  | .escOk => .ok ({ s with tmp := T.escByte b :: s.tmp, mode := .string }, true)
  | .openObject => .ok ({ s with starts := false :: s.starts, mode := .key1, stack := .obj [] :: s.stack }, true)
  | .closeObject =>
    match s.starts with
    | false :: rest =>
      if T.fin s.mode = .v then .error (s.err .objClose)
      else do
        let s1 ← s.flushNum T
        let s2 ← s1.popObj rest
        pure ({ s2 with mode := .after }, false)
    | _ => .error (s.err .objClose)
  | .val0 => .ok ({ s with mode := .zero, num := s.num.reset }, false)
  | .valDigit =>
    .ok ({ s with mode := .digit, num := { s.num.reset with i := (b - 48).toUInt64 }, inFast := cfg.fastInt }, false)
  | .valNeg => .ok ({ s with mode := .neg, num := { s.num.reset with neg := true } }, true)
  | .escU => .ok ({ s with mode := .u, rn := 0, ri := 0 }, true)
  | .openArray => .ok ({ s with starts := true :: s.starts, stack := .arrMark :: s.stack, mode := .value }, true)
  | .closeArray =>
    match s.starts with
    | true :: rest => do
      let s1 ← s.flushNum T
      let s2 ← s1.popArr rest
      pure ({ s2 with mode := .after }, false)
    | _ => .error (s.err .arrClose)
  | .valNull => .ok ({ s with mode := .null, ri := 0 }, false)
  | .valTrue => .ok ({ s with mode := .true_, ri := 0 }, false)
  | .valFalse => .ok ({ s with mode := .false_, ri := 0 }, false)
  | .numDot =>
    .ok ({ s with num := if 0 < s.num.big.length then { s.num with big := s.num.big ++ [b] } else s.num, mode := .dot },
      decide (0 < s.num.big.length))
  | .numFrac => .ok ({ s with num := s.num.addFrac b, mode := .frac }, false)
  | .fracE =>
    .ok ({ s with num := if 0 < s.num.big.length then { s.num with big := s.num.big ++ [b] } else s.num, mode := .expSign }, true)
  | .strQuote =>
    if T.act s.nextMode 58 = .colonColon then
      .ok ({ s with mode := s.nextMode, stack := .key s.tmp.reverse :: s.stack }, false)
    else do
      let s' ← ({ s with mode := s.nextMode } : St).add (.str s.tmp.reverse)
      pure (s', false)
  | .numZero => .ok ({ s with mode := .zero }, false)
  | .numDigit =>
    -- Inside the fast loop of the parsers (digits that follow the first one in the same read buffer)
    -- the switch to text happens as soon as `BigLimit <= I`, one digit earlier than `AddDigit`
    -- would: 19-digit integers from 9223372036854775800 up come back as text. The suite pins this
    -- (known findings C02-int19, C03-int19); the model carries it so that the tie stays exact.
    .ok ({ s with
      num := if s.inFast then
               (if BigLimit ≤ s.num.i then s.num.fillBig.addDigit b
                else { s.num with i := s.num.i * 10 + (b - 48).toUInt64 })
             else s.num.addDigit b,
      inFast := s.inFast && !(BigLimit ≤ s.num.i) }, false)
  | .negDigit => .ok ({ s with num := s.num.addDigit b, mode := .digit }, false)
  | .numSpc => do
    let s' ← s.addNum
    pure ({ s' with mode := .after }, false)
  | .numNewline => do
    let s' ← s.addNum
    pure ({ s' with line := s'.line + 1, nl := s'.pos, mode := .after }, false)
  | .expSign =>
    .ok ({ s with mode := .expZero,
                  num := { s.num with big := if 0 < s.num.big.length then s.num.big ++ [b] else s.num.big,
                                      negExp := s.num.negExp || b = 45 } }, true)
  | .expDigit => .ok ({ s with num := s.num.addExp b, mode := .exp }, false)
  | .uOk =>
    .ok ({ s with ri := s.ri + 1, rn := s.rn * 16 + hexDigitVal b,
                  tmp := if s.ri + 1 = 4 then (utf8Enc (s.rn * 16 + hexDigitVal b)).reverse ++ s.tmp else s.tmp,
                  mode := if s.ri + 1 = 4 then .string else s.mode }, true)
  | .tokenOk => do
    let s' ← stepToken T s b
    pure (s', false)
  | .charErr =>
    -- `byteError` picks the message by the mode table
    .error (s.err (match s.mode with
      | .null => .expNull
      | .true_ => .expTrue
      | .false_ => .expFalse
      | _ => .byte))
  | .unknown => .ok (s, false)

/-- after the switch: a complete top-level value is delivered -/
def deliver (s : St) : St :=
  if s.starts.isEmpty && T.fin s.mode = .a then
    let d := match s.stack.getLast? with
      | some it => it.toJV
      | none => .null
    { s with docs := d :: s.docs, stack := [], mode := if cfg.onlyOne then .space else .value }
  else s

/-- one byte -/
def step (s : St) (b : UInt8) : Except Err St :=
  match stepAct T cfg s b with
  | .error e => .error e
  | .ok (s', cont) =>
    let s'' := if cont then s' else deliver T cfg s'
    let keep := match T.act s.mode b with
      | .numDigit => s''.inFast
      | .valDigit => s''.inFast
      | _ => false
    .ok { s'' with pos := s''.pos + 1, inFast := keep }

def runBytes (s : St) : Bytes → Except Err St
  | [] => .ok s
  | b :: r =>
    match step T cfg s b with
    | .error e => .error e
    | .ok s' => runBytes s' r

/-- end of input (`last`) -/
def finish (s : St) : Except Err (List JV) :=
  if !s.starts.isEmpty || T.fin s.mode = .absent then .error (s.err .incomplete)
  else if T.fin s.mode = .n then
    match s.addNum with
    | .error e => .error e
    | .ok s' =>
      let d := match s'.stack.getLast? with
        | some it => it.toJV
        | none => .null
      .ok (d :: s'.docs).reverse
  else .ok s.docs.reverse

/-- BOM rule of the `[]byte` entry points: `3 < len(buf) && buf[0] == 0xEF` -/
inductive BomRes where
  | strip (rest : Bytes)
  | keep
  | bad

def bomRule (bs : Bytes) : BomRes :=
  match bs with
  | 0xEF :: b1 :: b2 :: r =>
    if r.isEmpty then .keep
    else if b1 = 0xBB && b2 = 0xBF then .strip r else .bad
  | _ => .keep

/-- BOM rule of the reader entry points: a first buffer of more than three bytes that starts with a
BOM loses it; nothing else is looked at (no "expected BOM" error) -/
def bomRuleReader (bs : Bytes) : BomRes :=
  match bs with
  | 0xEF :: 0xBB :: 0xBF :: r => if r.isEmpty then .keep else .strip r
  | _ => .keep

/-- the reader entry points top the first read up until four bytes are there when it starts with 0xEF -/
def topUpAux (acc : Bytes) : List Bytes → List Bytes
  | [] => [acc]
  | d :: rest =>
    if acc.length < 4 && acc.head? = some 0xEF then topUpAux (acc ++ d) rest else acc :: d :: rest

def topUp : List Bytes → List Bytes
  | [] => []
  | c :: cs => topUpAux c cs

/-- the read buffers one after the other; a buffer boundary ends the integer fast loop -/
def runChunks (s : St) : List Bytes → Except Err St
  | [] => .ok s
  | c :: rest =>
    match runBytes T cfg s c with
    | .error e => .error e
    | .ok s' => runChunks { s' with inFast := false } rest

/-- entry point: list of documents delivered, or an error. `chunks` are the successive read results
(one chunk for the `[]byte` entry points). -/
def run (chunks : List Bytes) : Except Err (List JV) :=
  let cs := if cfg.reader then topUp (chunks.filter (!·.isEmpty)) else chunks
  match cs with
  | [] => finish T {}
  | c :: rest =>
    match (if cfg.reader then bomRuleReader c else bomRule c) with
    | .bad => .error { line := 1, col := 3, kind := .byte }
    | .strip r =>
      match runChunks T cfg {} (r :: rest) with
      | .error e => .error e
      | .ok s => finish T s
    | .keep =>
      match runChunks T cfg {} (c :: rest) with
      | .error e => .error e
      | .ok s => finish T s

end OjgVerif.Json
