import OjgVerif.Json.RefineNum
import OjgVerif.Json.NumLemmas
/-! What the machine makes of a plain integer literal: `numConv` (the conversion that appears in the
refinement theorems) on `-? (0 | [1-9][0-9]*)` is the int64 equal to the literal whenever it fits. -/
namespace OjgVerif.Json
open OjgVerif

theorem isDigitB_of_isDigit (d : UInt8) (h : Spec.isDigit d = true) : isDigitB d := by
  unfold Spec.isDigit at h
  simp only [Bool.and_eq_true, decide_eq_true_eq] at h
  have h1 := h.1; have h2 := h.2
  rw [UInt8.le_iff_toNat_le] at h1 h2
  exact ⟨by simpa using h1, by simpa using h2⟩

theorem fillBig_neg (n : Num) : n.fillBig.neg = n.neg := by unfold Num.fillBig; rfl

theorem addDigit_neg (n : Num) (d : UInt8) : (n.addDigit d).neg = n.neg := by
  unfold Num.addDigit
  split
  · rfl
  · split
    · simp only
      split
      · exact fillBig_neg _
      · rfl
    · simp only [fillBig_neg]

theorem foldl_addDigit_neg (ds : Bytes) (n : Num) : (ds.foldl Num.addDigit n).neg = n.neg := by
  induction ds generalizing n with
  | nil => rfl
  | cons d r ih => simp only [List.foldl_cons]; rw [ih, addDigit_neg]

/-- an accumulator that holds an integer that fits converts to exactly that integer -/
theorem asNum_of_inv (n : Num) (v : Nat) (h : IntInv n v) (hfit : v ≤ 9223372036854775807)
    (hdiv : n.div = 1) (hexp : n.exp = 0) :
    n.asNum = .int (if n.neg then -(v : Int) else (v : Int)) := by
  obtain ⟨hbig, hi⟩ := h.1 hfit
  unfold Num.asNum
  simp only [hbig, List.length_nil, Nat.lt_irrefl, ↓reduceIte, hdiv, hexp]
  have hlt : n.i.toNat < 9223372036854775808 := by omega
  have h64 : toInt64 n.i = (v : Int) := by unfold toInt64; rw [if_pos hlt, hi]
  simp only [decide_true, Bool.and_self, ↓reduceIte, h64]
  cases n.neg with
  | false => simp
  | true =>
    have : (v : Int) ≠ -9223372036854775808 := by omega
    simp [negInt64, this]

theorem numStep_digit (n : Num) (d : UInt8) (hd : Spec.isDigit d = true) :
    numStep .digit n d = some (.digit, n.addDigit d) := by
  have : expected .digit d = .numDigit := by
    have := forall_mode_byte (fun m b => !(m == .digit && Spec.isDigit b) || (expected m b == .numDigit))
      (by decide +kernel) .digit d
    simpa [hd] using this
  simp [numStep, this]

theorem numScan_digitRun : ∀ (ds : Bytes) (n : Num), (∀ d ∈ ds, Spec.isDigit d = true) →
    numScan .digit n ds = (.digit, ds.foldl Num.addDigit n, []) := by
  intro ds
  induction ds with
  | nil => intro n _; rfl
  | cons d r ih =>
    intro n h
    simp only [numScan, numStep_digit n d (h d List.mem_cons_self), List.foldl_cons]
    exact ih _ (fun x hx => h x (List.mem_cons_of_mem _ hx))

theorem expected_value_digit19 (d : UInt8) (hd : Spec.isDigit19 d = true) : expected .value d = .valDigit := by
  have := forall_mode_byte (fun m b => !(m == .value && Spec.isDigit19 b) || (expected m b == .valDigit))
    (by decide +kernel) .value d
  simpa [hd] using this

theorem expected_neg_digit19 (d : UInt8) (hd : Spec.isDigit19 d = true) : expected .neg d = .negDigit := by
  have := forall_mode_byte (fun m b => !(m == .neg && Spec.isDigit19 b) || (expected m b == .negDigit))
    (by decide +kernel) .neg d
  simpa [hd] using this

/-- **A plain non-negative integer literal that fits int64 is that int64.** -/
theorem numConv_nat (d : UInt8) (ds : Bytes) (hd : Spec.isDigit19 d = true)
    (hds : ∀ x ∈ ds, Spec.isDigit x = true) (hfit : natOf (d :: ds) ≤ 9223372036854775807) :
    numConv (d :: ds) = .int (natOf (d :: ds)) := by
  have hdB : isDigitB d := isDigitB_of_isDigit d (isDigit19_isDigit d hd)
  have hdsB : ∀ x ∈ ds, isDigitB x := fun x hx => isDigitB_of_isDigit x (hds x hx)
  unfold numConv
  have hstep : numStep .value {} d = some (.digit, ({ ({} : Num).reset with i := (d - 48).toUInt64 } : Num)) := by
    simp [numStep, expected_value_digit19 d hd]
  simp only [numScan, hstep, numScan_digitRun ds _ hds]
  have h0 : IntInv ({ ({} : Num).reset with i := (d - 48).toUInt64 } : Num) (0 * 10 + dval d) := by
    have hd9 : dval d ≤ 9 := by unfold dval; have := hdB.2; omega
    refine ⟨fun _ => ⟨rfl, ?_⟩, fun h => by omega⟩
    simp only [Num.reset, digit_toUInt64 d hdB]; omega
  have hinv := foldl_addDigit_inv ds _ _ hdsB h0
  have hfr := foldl_addDigit_frame ds ({ ({} : Num).reset with i := (d - 48).toUInt64 } : Num)
  have hneg := foldl_addDigit_neg ds ({ ({} : Num).reset with i := (d - 48).toUInt64 } : Num)
  have hv : ds.foldl (fun a b => a * 10 + dval b) (0 * 10 + dval d) = natOf (d :: ds) := by
    simp [natOf]
  rw [hv] at hinv
  rw [asNum_of_inv _ _ hinv hfit hfr.1 hfr.2, hneg]
  rfl

/-- **A plain negative integer literal whose magnitude fits int64 is that int64.** -/
theorem numConv_neg (d : UInt8) (ds : Bytes) (hd : Spec.isDigit19 d = true)
    (hds : ∀ x ∈ ds, Spec.isDigit x = true) (hfit : natOf (d :: ds) ≤ 9223372036854775807) :
    numConv (45 :: d :: ds) = .int (-(natOf (d :: ds) : Int)) := by
  have hdB : isDigitB d := isDigitB_of_isDigit d (isDigit19_isDigit d hd)
  have hdsB : ∀ x ∈ ds, isDigitB x := fun x hx => isDigitB_of_isDigit x (hds x hx)
  unfold numConv
  have hstep0 : numStep .value {} 45 = some (.neg, ({ ({} : Num).reset with neg := true } : Num)) := by
    simp [numStep, show expected .value 45 = .valNeg from rfl]
  have hstep1 : numStep .neg ({ ({} : Num).reset with neg := true } : Num) d =
      some (.digit, ({ ({} : Num).reset with neg := true } : Num).addDigit d) := by
    simp [numStep, expected_neg_digit19 d hd]
  simp only [numScan, hstep0, hstep1, numScan_digitRun ds _ hds]
  have h0 : IntInv ({ ({} : Num).reset with neg := true } : Num) 0 :=
    ⟨fun _ => ⟨rfl, rfl⟩, fun h => by omega⟩
  have h1 := addDigit_inv _ d 0 hdB h0
  have hinv := foldl_addDigit_inv ds _ _ hdsB h1
  have hfr := foldl_addDigit_frame ds (({ ({} : Num).reset with neg := true } : Num).addDigit d)
  have hfr1 := addDigit_frame ({ ({} : Num).reset with neg := true } : Num) d
  have hneg := foldl_addDigit_neg ds (({ ({} : Num).reset with neg := true } : Num).addDigit d)
  have hneg1 := addDigit_neg ({ ({} : Num).reset with neg := true } : Num) d
  have hv : ds.foldl (fun a b => a * 10 + dval b) (0 * 10 + dval d) = natOf (d :: ds) := by
    simp [natOf]
  rw [hv] at hinv
  rw [asNum_of_inv _ _ hinv hfit (hfr.1.trans hfr1.1) (hfr.2.trans hfr1.2.1), hneg, hneg1]
  rfl

/-- zero, with or without sign -/
theorem numConv_zero : numConv [48] = .int 0 ∧ numConv [45, 48] = .int 0 := by
  constructor <;> rfl

end OjgVerif.Json
