import OjgVerif.Json.Machine
import OjgVerif.Json.Tables
/-! Value erasure: the control behaviour of the machine (which inputs are accepted, where an error is
reported and of what kind, how many documents are delivered) does not depend on the values it builds,
on the number accumulator, or on the parsers' integer fast loop. -/
namespace OjgVerif.Json
open OjgVerif

def Item.erase : Item → Item
  | .val _ => .val .null
  | .key _ => .key []
  | .arrMark => .arrMark
  | .obj _ => .obj []

abbrev eraseStack (st : List Item) : List Item := st.map Item.erase

/-- forget values, member names, the number accumulator and the fast-loop flag -/
def St.erase (s : St) : St :=
  { s with stack := eraseStack s.stack, docs := s.docs.map (fun _ => JV.null), num := {}, inFast := false,
           tmp := [], rn := 0 }

@[simp] theorem Item.erase_val (v : JV) : (Item.val v).erase = .val .null := rfl
@[simp] theorem Item.erase_key (k : Bytes) : (Item.key k).erase = .key [] := rfl
@[simp] theorem Item.erase_arrMark : Item.arrMark.erase = .arrMark := rfl
@[simp] theorem Item.erase_obj (kvs : List (Bytes × JV)) : (Item.obj kvs).erase = .obj [] := rfl

@[simp] theorem Item.erase_erase (it : Item) : it.erase.erase = it.erase := by cases it <;> rfl

@[simp] theorem eraseStack_idem (st : List Item) : eraseStack (eraseStack st) = eraseStack st := by
  simp [eraseStack, List.map_map, Function.comp_def]

@[simp] theorem St.erase_erase (s : St) : s.erase.erase = s.erase := by
  simp [St.erase, List.map_map, Function.comp_def]

@[simp] theorem St.erase_mode (s : St) : s.erase.mode = s.mode := rfl
@[simp] theorem St.erase_nextMode (s : St) : s.erase.nextMode = s.nextMode := rfl
@[simp] theorem St.erase_starts (s : St) : s.erase.starts = s.starts := rfl
@[simp] theorem St.erase_ri (s : St) : s.erase.ri = s.ri := rfl
@[simp] theorem St.erase_err (s : St) (k : ErrKind) : s.erase.err k = s.err k := rfl

/-- result of an operation up to erasure -/
def eraseR : Except Err St → Except Err St
  | .ok s => .ok s.erase
  | .error e => .error e

theorem addItem_erase (v w : JV) (st : List Item) :
    (match addItem v st with | .ok x => Except.ok (eraseStack x) | .error e => .error e) =
    (match addItem w (eraseStack st) with | .ok x => Except.ok (eraseStack x) | .error e => .error e) := by
  match st with
  | [] => rfl
  | [it] => cases it <;> rfl
  | it :: it2 :: rest =>
    cases it <;> cases it2 <;> simp [addItem, eraseStack, List.map_map, Function.comp_def]

theorem St.add_erase (s : St) (v w : JV) : eraseR (s.add v) = eraseR (s.erase.add w) := by
  unfold St.add
  have h := addItem_erase v w s.stack
  have hs : s.erase.stack = eraseStack s.stack := rfl
  rw [hs]
  cases h1 : addItem v s.stack <;> cases h2 : addItem w (eraseStack s.stack) <;> rw [h1, h2] at h <;>
    simp only [Except.ok.injEq, Except.error.injEq, reduceCtorEq] at h
  · simp only [eraseR, St.erase_err, h]
  · simp only [eraseR, St.erase, h, List.map_map, Function.comp_def]


theorem eraseR_rel {f : St → Except Err St} (hf : ∀ s, eraseR (f s) = eraseR (f s.erase)) {s t : St}
    (h : s.erase = t.erase) : eraseR (f s) = eraseR (f t) := by
  rw [hf s, hf t, h]

theorem St.addNum_erase (s : St) : eraseR s.addNum = eraseR s.erase.addNum := by
  unfold St.addNum; exact St.add_erase s _ _

theorem splitAtMark_erase (st : List Item) : ∀ (acc acc' : List JV),
    (match splitAtMark st acc with | some p => some (eraseStack p.2) | none => none) =
    (match splitAtMark (eraseStack st) acc' with | some p => some (eraseStack p.2) | none => none) := by
  induction st with
  | nil => intro _ _; rfl
  | cons it rest ih =>
    intro acc acc'
    cases it with
    | arrMark => simp [splitAtMark, eraseStack]
    | val v => simpa [splitAtMark, eraseStack] using ih _ _
    | key k => simpa [splitAtMark, eraseStack] using ih _ _
    | obj kvs => simpa [splitAtMark, eraseStack] using ih _ _

theorem St.popArr_erase (s : St) (rest : List Bool) : eraseR (s.popArr rest) = eraseR (s.erase.popArr rest) := by
  unfold St.popArr
  have h := splitAtMark_erase s.stack [] []
  have hs : s.erase.stack = eraseStack s.stack := rfl
  rw [hs]
  cases h1 : splitAtMark s.stack [] <;> cases h2 : splitAtMark (eraseStack s.stack) [] <;> rw [h1, h2] at h <;>
    simp only [Option.some.injEq, reduceCtorEq] at h
  · rfl
  · rename_i p q
    simp only
    have := St.add_erase ({ s with starts := rest, stack := p.2 } : St) (.arr p.1) (.arr q.1)
    rw [this]
    have e : ({ s with starts := rest, stack := p.2 } : St).erase = ({ s.erase with starts := rest, stack := q.2 } : St).erase := by
      simp only [St.erase, List.map_map, Function.comp_def]
      have h' : eraseStack p.2 = eraseStack q.2 := h
      simp only [eraseStack] at h'
      simp [h', List.map_map, Function.comp_def]
    rw [St.add_erase ({ s.erase with starts := rest, stack := q.2 } : St) (.arr q.1) (.arr q.1), e]

theorem St.popObj_erase (s : St) (rest : List Bool) : eraseR (s.popObj rest) = eraseR (s.erase.popObj rest) := by
  unfold St.popObj
  have hs : s.erase.stack = eraseStack s.stack := rfl
  rw [hs]
  cases h : s.stack with
  | nil => rfl
  | cons top below =>
    simp only [eraseStack, List.map_cons]
    have := St.add_erase ({ s with starts := rest, stack := below } : St) top.toJV top.erase.toJV
    rw [this]
    rw [St.add_erase ({ s.erase with starts := rest, stack := below.map Item.erase } : St) top.erase.toJV top.erase.toJV]
    have e : ({ s with starts := rest, stack := below } : St).erase =
        ({ s.erase with starts := rest, stack := below.map Item.erase } : St).erase := by
      simp [St.erase, List.map_map, Function.comp_def]
    rw [e]

theorem St.flushNum_erase (T : Tables) (s : St) : eraseR (s.flushNum T) = eraseR (s.erase.flushNum T) := by
  unfold St.flushNum
  simp only [St.erase_mode]
  by_cases h : T.fin s.mode = .n
  · simp only [h, ↓reduceIte]; exact St.addNum_erase s
  · simp only [h, ↓reduceIte, eraseR, St.erase_erase]


theorem stepToken_congr (T : Tables) (s t : St) (b : UInt8) (hm : t.mode = s.mode) (hri : t.ri = s.ri)
    (herr : ∀ k, t.err k = s.err k)
    (hadd : ∀ (m : Mode) (v : JV), eraseR (({ s with ri := s.ri + 1, mode := m } : St).add v) =
      eraseR (({ t with ri := s.ri + 1, mode := m } : St).add v))
    (hok : eraseR (.ok ({ s with ri := s.ri + 1 } : St)) = eraseR (.ok ({ t with ri := s.ri + 1, mode := s.mode } : St)))
    (hid : eraseR (.ok s) = eraseR (.ok t)) :
    eraseR (stepToken T s b) = eraseR (stepToken T t b) := by
  unfold stepToken
  rw [hm, hri]
  simp only [herr]
  by_cases h1 : T.act s.mode 114 = .tokenOk
  · simp only [h1, ↓reduceIte]
    by_cases h2 : [116, 114, 117, 101].getD (s.ri + 1) 0 = b
    · simp only [h2, ↓reduceIte]
      by_cases h3 : 3 ≤ s.ri + 1
      · simp only [h3, ↓reduceIte]; exact hadd _ _
      · simp only [h3, ↓reduceIte]; exact hok
    · simp only [h2, ↓reduceIte]
  · simp only [h1, ↓reduceIte]
    by_cases h4 : T.act s.mode 97 = .tokenOk
    · simp only [h4, ↓reduceIte]
      by_cases h2 : [102, 97, 108, 115, 101].getD (s.ri + 1) 0 = b
      · simp only [h2, ↓reduceIte]
        by_cases h3 : 4 ≤ s.ri + 1
        · simp only [h3, ↓reduceIte]; exact hadd _ _
        · simp only [h3, ↓reduceIte]; exact hok
      · simp only [h2, ↓reduceIte]
    · simp only [h4, ↓reduceIte]
      cases h5 : (decide (T.act s.mode 117 = .tokenOk) && decide (T.act s.mode 108 = .tokenOk))
      · simp only [Bool.false_eq_true, ↓reduceIte]; exact hid
      · simp only [↓reduceIte]
        by_cases h2 : [110, 117, 108, 108].getD (s.ri + 1) 0 = b
        · simp only [h2, ↓reduceIte]
          by_cases h3 : 3 ≤ s.ri + 1
          · simp only [h3, ↓reduceIte]; exact hadd _ _
          · simp only [h3, ↓reduceIte]; exact hok
        · simp only [h2, ↓reduceIte]

theorem stepToken_erase (T : Tables) (s : St) (b : UInt8) :
    eraseR (stepToken T s b) = eraseR (stepToken T s.erase b) := by
  apply stepToken_congr T s s.erase b rfl rfl (fun _ => rfl)
  · intro m v
    rw [St.add_erase _ v v, St.add_erase ({ s.erase with ri := s.ri + 1, mode := m } : St) v v]
    congr 2
    simp [St.erase, List.map_map, Function.comp_def]
  · simp [eraseR, St.erase, List.map_map, Function.comp_def]
  · simp [eraseR]

/-- result of the action switch up to erasure -/
def eraseRB : Except Err (St × Bool) → Except Err (St × Bool)
  | .ok p => .ok (p.1.erase, p.2)
  | .error e => .error e

theorem bind_erase {x y : Except Err St} {k k' : St → Except Err (St × Bool)} (hxy : eraseR x = eraseR y)
    (hk : ∀ a b : St, a.erase = b.erase → eraseRB (k a) = eraseRB (k' b)) :
    eraseRB (x >>= k) = eraseRB (y >>= k') := by
  cases x with
  | error e => cases y with
    | error e' => simp only [eraseR, Except.error.injEq] at hxy; subst hxy; rfl
    | ok b => simp [eraseR] at hxy
  | ok a => cases y with
    | error e' => simp [eraseR] at hxy
    | ok b =>
      simp only [eraseR, Except.ok.injEq] at hxy
      exact hk a b hxy

theorem erase_eq_of {a b : St} (h : a.erase = b.erase) :
    a.mode = b.mode ∧ a.nextMode = b.nextMode ∧ a.starts = b.starts ∧ a.ri = b.ri ∧ a.line = b.line ∧
    a.pos = b.pos ∧ a.nl = b.nl ∧ eraseStack a.stack = eraseStack b.stack ∧
    a.docs.map (fun _ => JV.null) = b.docs.map (fun _ => JV.null) := by
  simp only [St.erase, St.mk.injEq] at h
  obtain ⟨h1, h2, h3, h4, h5, _, h7, _, _, h10, h11, h12, _⟩ := h
  exact ⟨h1, h2, h3, h7, h10, h11, h12, h4, h5⟩


theorem deliver_rel (T : Tables) (cfg cfg' : Cfg) (ho : cfg.onlyOne = cfg'.onlyOne) {a b : St}
    (h : a.erase = b.erase) : (deliver T cfg a).erase = (deliver T cfg' b).erase := by
  obtain ⟨h1, h2, h3, h4, h5, h6, h7, h8, h9⟩ := erase_eq_of h
  unfold deliver
  rw [h1, h3, ho]
  split
  · simp only [St.erase, St.mk.injEq, List.map_cons, List.map_nil, eraseStack, h2, h3, h4, h5, h6, h7, h9, and_self]
  · exact h

/-- the action switch followed by the delivery test -/
def stepD (T : Tables) (cfg : Cfg) (s : St) (b : UInt8) : Except Err St :=
  match stepAct T cfg s b with
  | .error e => .error e
  | .ok (s', cont) => .ok (if cont then s' else deliver T cfg s')

theorem fin_rel (T : Tables) (cfg cfg' : Cfg) (ho : cfg.onlyOne = cfg'.onlyOne) {a b : St} (h : a.erase = b.erase)
    (c : Bool) : eraseR (.ok (if c then a else deliver T cfg a)) = eraseR (.ok (if c then b else deliver T cfg' b)) := by
  cases c
  · simp only [Bool.false_eq_true, ↓reduceIte, eraseR, deliver_rel T cfg cfg' ho h]
  · simp only [↓reduceIte, eraseR, h]

theorem deliver_id_of (T : Tables) (cfg : Cfg) (s : St) (h : T.fin s.mode ≠ .a) : deliver T cfg s = s := by
  unfold deliver; simp [h]


/-- closing the proof of a "pure" action: both sides are `.ok (state, cont)` with the same `cont` -/
theorem stepD_pure (cfg cfg' : Cfg) (ho : cfg.onlyOne = cfg'.onlyOne) (a b : St) (c : Bool) (h : a.erase = b.erase) :
    eraseR (match (Except.ok (a, c) : Except Err (St × Bool)) with
      | .error e => .error e
      | .ok (s', cont) => .ok (if cont then s' else deliver refTables cfg s')) =
    eraseR (match (Except.ok (b, c) : Except Err (St × Bool)) with
      | .error e => .error e
      | .ok (s', cont) => .ok (if cont then s' else deliver refTables cfg' s')) :=
  fin_rel refTables cfg cfg' ho h c

/-- closing the proof of an action that first runs a fallible state operation -/
theorem stepD_bind (cfg cfg' : Cfg) (ho : cfg.onlyOne = cfg'.onlyOne) {x y : Except Err St}
    {k k' : St → Except Err (St × Bool)} (hxy : eraseR x = eraseR y)
    (hk : ∀ a b : St, a.erase = b.erase →
      eraseR (match k a with
        | .error e => .error e
        | .ok (s', cont) => .ok (if cont then s' else deliver refTables cfg s')) =
      eraseR (match k' b with
        | .error e => .error e
        | .ok (s', cont) => .ok (if cont then s' else deliver refTables cfg' s'))) :
    eraseR (match x >>= k with
      | .error e => .error e
      | .ok (s', cont) => .ok (if cont then s' else deliver refTables cfg s')) =
    eraseR (match y >>= k' with
      | .error e => .error e
      | .ok (s', cont) => .ok (if cont then s' else deliver refTables cfg' s')) := by
  cases x with
  | error e => cases y with
    | error e' => simp only [eraseR, Except.error.injEq] at hxy; subst hxy; rfl
    | ok b => simp [eraseR] at hxy
  | ok a => cases y with
    | error e' => simp [eraseR] at hxy
    | ok b =>
      simp only [eraseR, Except.ok.injEq] at hxy
      exact hk a b hxy

theorem upd_rel {a b : St} (h : a.erase = b.erase) (m : Mode) :
    ({ a with mode := m } : St).erase = ({ b with mode := m } : St).erase := by
  obtain ⟨h1, h2, h3, h4, h5, h6, h7, h8, h9⟩ := erase_eq_of h
  simp only [St.erase, St.mk.injEq, eraseStack, h2, h3, h4, h5, h6, h7, h9, and_self, true_and]
  exact ⟨h8, trivial⟩

/-- **One byte, up to erasure.** The action switch and delivery test commute with value erasure,
whatever the integer-loop setting. -/
theorem stepD_erase (cfg cfg' : Cfg) (ho : cfg.onlyOne = cfg'.onlyOne) (s : St) (b : UInt8) :
    eraseR (stepD refTables cfg s b) = eraseR (stepD refTables cfg' s.erase b) := by
  unfold stepD stepAct
  simp only [St.erase_mode, St.erase_err]
  cases hact : refTables.act s.mode b
  case numComma =>
    simp only
    apply stepD_bind cfg cfg' ho (St.addNum_erase s)
    intro a b hab
    obtain ⟨h1, h2, h3, h4, h5, h6, h7, h8, h9⟩ := erase_eq_of hab
    rw [h3]
    cases hst : b.starts with
    | nil =>
      simp only
      have : a.err .comma = b.err .comma := by simp [St.err, h5, h6, h7]
      rw [this]
    | cons x ss =>
      simp only [pure, Except.pure]
      apply fin_rel refTables cfg cfg' ho _ false
      simp only [St.erase, St.mk.injEq, eraseStack, afterCommaMode, h3, hst, h2, h4, h5, h6, h7, h9, and_self, true_and]
      exact ⟨h8, trivial⟩
  case closeObject =>
    simp only [St.erase_starts]
    cases hst : s.starts with
    | nil => rfl
    | cons x ss =>
      cases x with
      | true => rfl
      | false =>
        simp only
        by_cases hv : refTables.fin s.mode = .v
        · simp only [hv, ↓reduceIte]
        · simp only [hv, ↓reduceIte]
          apply stepD_bind cfg cfg' ho (St.flushNum_erase refTables s)
          intro a b hab
          apply stepD_bind cfg cfg' ho (eraseR_rel (fun t => St.popObj_erase t ss) hab)
          intro a2 b2 hab2
          exact fin_rel refTables cfg cfg' ho (upd_rel hab2 _) false
  case closeArray =>
    simp only [St.erase_starts]
    cases hst : s.starts with
    | nil => rfl
    | cons x ss =>
      cases x with
      | false => rfl
      | true =>
        simp only
        apply stepD_bind cfg cfg' ho (St.flushNum_erase refTables s)
        intro a b hab
        apply stepD_bind cfg cfg' ho (eraseR_rel (fun t => St.popArr_erase t ss) hab)
        intro a2 b2 hab2
        exact fin_rel refTables cfg cfg' ho (upd_rel hab2 _) false
  case strQuote =>
    simp only [St.erase_nextMode]
    by_cases hc : refTables.act s.nextMode 58 = .colonColon
    · simp only [hc, ↓reduceIte]
      apply stepD_pure cfg cfg' ho
      simp [St.erase, List.map_map, Function.comp_def]
    · simp only [hc, ↓reduceIte]
      have h1 : eraseR (({ s with mode := s.nextMode } : St).add (.str s.tmp.reverse)) =
          eraseR (({ s.erase with mode := s.nextMode } : St).add (.str s.erase.tmp.reverse)) := by
        rw [St.add_erase _ _ JV.null, St.add_erase ({ s.erase with mode := s.nextMode } : St) _ JV.null]
        congr 2
        simp [St.erase, List.map_map, Function.comp_def]
      apply stepD_bind cfg cfg' ho h1
      intro a b hab
      exact fin_rel refTables cfg cfg' ho hab false
  case numSpc =>
    simp only
    apply stepD_bind cfg cfg' ho (St.addNum_erase s)
    intro a b hab
    exact fin_rel refTables cfg cfg' ho (upd_rel hab _) false
  case numNewline =>
    simp only
    apply stepD_bind cfg cfg' ho (St.addNum_erase s)
    intro a b hab
    obtain ⟨h1, h2, h3, h4, h5, h6, h7, h8, h9⟩ := erase_eq_of hab
    apply fin_rel refTables cfg cfg' ho _ false
    simp only [St.erase, St.mk.injEq, eraseStack, h2, h3, h4, h5, h6, h7, h9, and_self, true_and]
    exact ⟨h8, trivial⟩
  case tokenOk =>
    simp only
    apply stepD_bind cfg cfg' ho (stepToken_erase refTables s b)
    intro a b hab
    exact fin_rel refTables cfg cfg' ho hab false
  case numDot =>
    simp only
    -- the continue flag depends on the accumulator; in dot mode nothing is ever delivered
    have hd : ∀ (c : Cfg) (t : St), t.mode = .dot → deliver refTables c t = t := by
      intro c t ht; apply deliver_id_of; rw [ht]; decide
    have e1 : ∀ (c : Cfg) (t : St) (f : Bool), t.mode = .dot → (if f then t else deliver refTables c t) = t := by
      intro c t f ht; cases f <;> simp [hd c t ht]
    rw [e1 _ _ _ rfl, e1 _ _ _ rfl]
    simp [eraseR, St.erase, List.map_map, Function.comp_def]
  case charErr =>
    simp only [eraseR]
  all_goals (
    apply stepD_pure cfg cfg' ho
    simp [St.erase, List.map_map, Function.comp_def, afterCommaMode])


theorem step_eq_stepD (T : Tables) (cfg : Cfg) (s : St) (b : UInt8) :
    eraseR (step T cfg s b) = match eraseR (stepD T cfg s b) with
      | .ok t => .ok ({ t with pos := t.pos + 1 } : St)
      | .error e => .error e := by
  unfold step stepD
  cases stepAct T cfg s b with
  | error e => rfl
  | ok p =>
    obtain ⟨s', c⟩ := p
    simp only [eraseR, St.erase]

theorem step_erase (cfg cfg' : Cfg) (ho : cfg.onlyOne = cfg'.onlyOne) (s : St) (b : UInt8) :
    eraseR (step refTables cfg s b) = eraseR (step refTables cfg' s.erase b) := by
  rw [step_eq_stepD, step_eq_stepD, stepD_erase cfg cfg' ho]

theorem step_rel (cfg cfg' : Cfg) (ho : cfg.onlyOne = cfg'.onlyOne) {a b : St} (h : a.erase = b.erase) (x : UInt8) :
    eraseR (step refTables cfg a x) = eraseR (step refTables cfg' b x) := by
  rw [step_erase cfg cfg' ho a x, h, ← step_erase cfg' cfg' rfl b x]

theorem runBytes_rel (cfg cfg' : Cfg) (ho : cfg.onlyOne = cfg'.onlyOne) (bs : Bytes) : ∀ {a b : St},
    a.erase = b.erase → eraseR (runBytes refTables cfg a bs) = eraseR (runBytes refTables cfg' b bs) := by
  induction bs with
  | nil => intro a b h; simp only [runBytes, eraseR, h]
  | cons x r ih =>
    intro a b h
    simp only [runBytes]
    have hs := step_rel cfg cfg' ho h x
    cases h1 : step refTables cfg a x <;> cases h2 : step refTables cfg' b x <;> rw [h1, h2] at hs <;>
      simp only [eraseR, Except.ok.injEq, Except.error.injEq, reduceCtorEq] at hs
    · simp only [eraseR, hs]
    · exact ih hs

theorem runChunks_rel (cfg cfg' : Cfg) (ho : cfg.onlyOne = cfg'.onlyOne) (cs : List Bytes) : ∀ {a b : St},
    a.erase = b.erase → eraseR (runChunks refTables cfg a cs) = eraseR (runChunks refTables cfg' b cs) := by
  induction cs with
  | nil => intro a b h; simp only [runChunks, eraseR, h]
  | cons c r ih =>
    intro a b h
    simp only [runChunks]
    have hs := runBytes_rel cfg cfg' ho c h
    cases h1 : runBytes refTables cfg a c <;> cases h2 : runBytes refTables cfg' b c <;> rw [h1, h2] at hs <;>
      simp only [eraseR, Except.ok.injEq, Except.error.injEq, reduceCtorEq] at hs
    · simp only [eraseR, hs]
    · apply ih
      obtain ⟨g1, g2, g3, g4, g5, g6, g7, g8, g9⟩ := erase_eq_of hs
      simp only [St.erase, St.mk.injEq, eraseStack, g1, g2, g3, g4, g5, g6, g7, g9, and_self, true_and]
      exact ⟨g8, trivial⟩

/-- outcome without the values: the error, or the number of documents -/
def outcome : Except Err (List JV) → Except Err Nat
  | .ok docs => .ok docs.length
  | .error e => .error e

theorem finish_rel {a b : St} (h : a.erase = b.erase) :
    outcome (finish refTables a) = outcome (finish refTables b) := by
  obtain ⟨g1, g2, g3, g4, g5, g6, g7, g8, g9⟩ := erase_eq_of h
  have herr : ∀ k, a.err k = b.err k := by intro k; simp [St.err, g5, g6, g7]
  have hlen : a.docs.length = b.docs.length := by
    have := congrArg List.length g9; simpa using this
  unfold finish
  rw [g1, g3, herr]
  split
  · rfl
  · split
    · have hn := eraseR_rel (fun t => St.addNum_erase t) h
      cases h1 : a.addNum <;> cases h2 : b.addNum <;> rw [h1, h2] at hn <;>
        simp only [eraseR, Except.ok.injEq, Except.error.injEq, reduceCtorEq] at hn
      · simp only [outcome, hn]
      · obtain ⟨_, _, _, _, _, _, _, _, k9⟩ := erase_eq_of hn
        have : (List.length ‹St›.docs) = (List.length ‹St›.docs) := rfl
        simp only [outcome, List.length_reverse, List.length_cons, Except.ok.injEq, Nat.add_right_cancel_iff]
        have := congrArg List.length k9; simpa using this
    · simp only [outcome, List.length_reverse, hlen]

/-- **The values do not steer the machine.** Two configurations that differ only in the parsers'
integer fast loop accept the same inputs under the same chunkings, deliver the same number of
documents, and report the same error (kind, line, column) otherwise. -/
theorem run_outcome_fastInt (cfg cfg' : Cfg) (ho : cfg.onlyOne = cfg'.onlyOne) (hr : cfg.reader = cfg'.reader)
    (chunks : List Bytes) : outcome (run refTables cfg chunks) = outcome (run refTables cfg' chunks) := by
  have key : ∀ cs : List Bytes, outcome (match runChunks refTables cfg {} cs with
        | .error e => .error e
        | .ok s => finish refTables s) =
      outcome (match runChunks refTables cfg' {} cs with
        | .error e => .error e
        | .ok s => finish refTables s) := by
    intro cs
    have hs := runChunks_rel cfg cfg' ho cs (a := {}) (b := {}) rfl
    cases h1 : runChunks refTables cfg {} cs <;> cases h2 : runChunks refTables cfg' {} cs <;> rw [h1, h2] at hs <;>
      simp only [eraseR, Except.ok.injEq, Except.error.injEq, reduceCtorEq] at hs
    · simp only [outcome, hs]
    · exact finish_rel hs
  unfold run
  rw [hr]
  simp only
  generalize (if cfg'.reader = true then topUp (chunks.filter (!·.isEmpty)) else chunks) = cs
  cases cs with
  | nil => rfl
  | cons c rest =>
    simp only
    cases (if cfg'.reader = true then bomRuleReader c else bomRule c) with
    | bad => rfl
    | strip r => exact key _
    | keep => exact key _

end OjgVerif.Json
