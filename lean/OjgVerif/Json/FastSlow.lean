import OjgVerif.Json.Erase
import OjgVerif.Json.Refine
import OjgVerif.Json.NumLemmas
import OjgVerif.Json.RefineSpec
import OjgVerif.Props.C03
/-! The parsers' pinned integer fast loop against the byte-at-a-time machine, WITH values: the two
machines build exactly the same state — same values, same documents — on every input unless a digit
arrives in the fast loop while the accumulator equals `BigLimit` exactly (known finding C02-int19:
the 19-digit integers 9223372036854775800 … 807). `Json/Erase.lean` shows that even then acceptance,
document count and errors are the same. -/
namespace OjgVerif.Json
open OjgVerif

/-- forget the fast-loop flag -/
def St.clr (s : St) : St := { s with inFast := false }

def clrR : Except Err St → Except Err St
  | .ok s => .ok s.clr
  | .error e => .error e

def clrRB : Except Err (St × Bool) → Except Err (St × Bool)
  | .ok p => .ok (p.1.clr, p.2)
  | .error e => .error e

@[simp] theorem St.clr_clr (s : St) : s.clr.clr = s.clr := rfl
@[simp] theorem St.clr_mode (s : St) : s.clr.mode = s.mode := rfl
@[simp] theorem St.clr_err (s : St) (k : ErrKind) : s.clr.err k = s.err k := rfl

theorem St.add_clr (s : St) (v : JV) : clrR (s.add v) = s.clr.add v := by
  unfold St.add
  simp only [St.clr]
  cases addItem v s.stack <;> rfl

theorem St.addNum_clr (s : St) : clrR s.addNum = s.clr.addNum := St.add_clr s _

theorem St.popObj_clr (s : St) (rest : List Bool) : clrR (s.popObj rest) = s.clr.popObj rest := by
  unfold St.popObj
  simp only [St.clr]
  cases s.stack with
  | nil => rfl
  | cons top below => exact St.add_clr ({ s with starts := rest, stack := below } : St) top.toJV

theorem St.popArr_clr (s : St) (rest : List Bool) : clrR (s.popArr rest) = s.clr.popArr rest := by
  unfold St.popArr
  simp only [St.clr]
  cases splitAtMark s.stack [] with
  | none => rfl
  | some p => exact St.add_clr ({ s with starts := rest, stack := p.2 } : St) (.arr p.1)

theorem St.flushNum_clr (T : Tables) (s : St) : clrR (s.flushNum T) = s.clr.flushNum T := by
  unfold St.flushNum
  simp only [St.clr_mode]
  by_cases h : T.fin s.mode = .n
  · simp only [h, ↓reduceIte]; exact St.addNum_clr s
  · simp only [h, ↓reduceIte]; rfl

theorem stepToken_congr_clr (T : Tables) (s t : St) (b : UInt8) (hm : t.mode = s.mode) (hri : t.ri = s.ri)
    (herr : ∀ k, t.err k = s.err k)
    (hadd : ∀ (m : Mode) (v : JV), clrR (({ s with ri := s.ri + 1, mode := m } : St).add v) =
      ({ t with ri := s.ri + 1, mode := m } : St).add v)
    (hok : clrR (.ok ({ s with ri := s.ri + 1 } : St)) = .ok ({ t with ri := s.ri + 1, mode := s.mode } : St))
    (hid : clrR (.ok s) = .ok t) :
    clrR (stepToken T s b) = stepToken T t b := by
  unfold stepToken
  rw [hm, hri]
  simp only [herr]
  by_cases h1 : T.act s.mode 114 = .tokenOk
  · simp only [h1, ↓reduceIte]
    by_cases h2 : [116, 114, 117, 101].getD (s.ri + 1) 0 = b
    · simp only [h2, ↓reduceIte]
      by_cases h3 : 3 ≤ s.ri + 1
      · simp only [h3, ↓reduceIte]; exact hadd _ _
      · simp only [h3, ↓reduceIte]; exact hok
    · simp only [h2, ↓reduceIte]; rfl
  · simp only [h1, ↓reduceIte]
    by_cases h4 : T.act s.mode 97 = .tokenOk
    · simp only [h4, ↓reduceIte]
      by_cases h2 : [102, 97, 108, 115, 101].getD (s.ri + 1) 0 = b
      · simp only [h2, ↓reduceIte]
        by_cases h3 : 4 ≤ s.ri + 1
        · simp only [h3, ↓reduceIte]; exact hadd _ _
        · simp only [h3, ↓reduceIte]; exact hok
      · simp only [h2, ↓reduceIte]; rfl
    · simp only [h4, ↓reduceIte]
      cases h5 : (decide (T.act s.mode 117 = .tokenOk) && decide (T.act s.mode 108 = .tokenOk))
      · simp only [Bool.false_eq_true, ↓reduceIte]; exact hid
      · simp only [↓reduceIte]
        by_cases h2 : [110, 117, 108, 108].getD (s.ri + 1) 0 = b
        · simp only [h2, ↓reduceIte]
          by_cases h3 : 3 ≤ s.ri + 1
          · simp only [h3, ↓reduceIte]; exact hadd _ _
          · simp only [h3, ↓reduceIte]; exact hok
        · simp only [h2, ↓reduceIte]; rfl

theorem stepToken_clr (T : Tables) (s : St) (b : UInt8) : clrR (stepToken T s b) = stepToken T s.clr b :=
  stepToken_congr_clr T s s.clr b rfl rfl (fun _ => rfl)
    (fun m v => St.add_clr ({ s with ri := s.ri + 1, mode := m } : St) v) rfl rfl

theorem clr_bind {x : Except Err St} {y : Except Err St} {k k' : St → Except Err (St × Bool)}
    (hxy : clrR x = y) (hk : ∀ a : St, clrRB (k a) = k' a.clr) : clrRB (x >>= k) = (y >>= k') := by
  cases x with
  | error e => rw [← hxy]; rfl
  | ok a => rw [← hxy]; exact hk a

/-- outside the two digit actions the action switch does not look at the fast-loop flag or at the
fast-loop setting -/
theorem stepAct_clr (T : Tables) (cfg cfg' : Cfg) (s : St) (b : UInt8)
    (hd : T.act s.mode b ≠ .numDigit) (hv : T.act s.mode b ≠ .valDigit) :
    clrRB (stepAct T cfg s b) = stepAct T cfg' s.clr b := by
  unfold stepAct
  simp only [St.clr_mode, St.clr_err]
  cases hact : T.act s.mode b <;> rw [hact] at hd hv
  case numDigit => exact absurd rfl hd
  case valDigit => exact absurd rfl hv
  case numComma =>
    simp only
    apply clr_bind (St.addNum_clr s)
    intro a
    have : a.clr.starts = a.starts := rfl
    rw [this]
    cases a.starts with
    | nil => rfl
    | cons x ss => rfl
  case closeObject =>
    simp only
    have : s.clr.starts = s.starts := rfl
    rw [this]
    cases s.starts with
    | nil => rfl
    | cons x ss =>
      cases x with
      | true => rfl
      | false =>
        simp only
        by_cases hfv : T.fin s.mode = .v
        · simp only [hfv, ↓reduceIte]; rfl
        · simp only [hfv, ↓reduceIte]
          apply clr_bind (St.flushNum_clr T s)
          intro a
          apply clr_bind (St.popObj_clr a ss)
          intro a2; rfl
  case closeArray =>
    simp only
    have : s.clr.starts = s.starts := rfl
    rw [this]
    cases s.starts with
    | nil => rfl
    | cons x ss =>
      cases x with
      | false => rfl
      | true =>
        simp only
        apply clr_bind (St.flushNum_clr T s)
        intro a
        apply clr_bind (St.popArr_clr a ss)
        intro a2; rfl
  case strQuote =>
    simp only
    have : s.clr.nextMode = s.nextMode := rfl
    rw [this]
    by_cases hc : T.act s.nextMode 58 = .colonColon
    · simp only [hc, ↓reduceIte]; rfl
    · simp only [hc, ↓reduceIte]
      apply clr_bind (St.add_clr ({ s with mode := s.nextMode } : St) _)
      intro a; rfl
  case numSpc =>
    simp only
    apply clr_bind (St.addNum_clr s)
    intro a; rfl
  case numNewline =>
    simp only
    apply clr_bind (St.addNum_clr s)
    intro a; rfl
  case tokenOk =>
    simp only
    apply clr_bind (stepToken_clr T s b)
    intro a; rfl
  all_goals rfl


/-- the fast loop's digit step is `AddDigit` unless the accumulator equals `BigLimit` exactly -/
theorem fast_digit_eq_slow (n : Num) (b : UInt8) (hbig : n.big = []) (hne : n.i ≠ BigLimit) (hb : isDigitB b) :
    (if BigLimit ≤ n.i then n.fillBig.addDigit b else ({ n with i := n.i * 10 + (b - 48).toUInt64 } : Num)) =
      n.addDigit b := by
  have hd : dval b ≤ 9 := by unfold dval; have := hb.2; omega
  have hBL : BigLimit.toNat = 922337203685477580 := rfl
  unfold Num.addDigit
  simp only [hbig, List.length_nil, Nat.lt_irrefl, ↓reduceIte]
  by_cases hle : BigLimit ≤ n.i
  · -- above the limit (not equal): both switch to text and append the digit
    have hgt : ¬ n.i ≤ BigLimit := by
      intro h2
      apply hne
      apply UInt64.toNat_inj.mp
      rw [UInt64.le_iff_toNat_le] at hle h2
      omega
    simp only [hle, hgt, ↓reduceIte]
    have : 0 < n.fillBig.big.length := by
      have := fillBig_big_ne_nil n
      cases hx : n.fillBig.big with
      | nil => exact absurd hx this
      | cons _ _ => simp
    rw [if_pos this]
  · have hlt : n.i.toNat < 922337203685477580 := by
      rw [UInt64.le_iff_toNat_le] at hle; omega
    have hle2 : n.i ≤ BigLimit := by rw [UInt64.le_iff_toNat_le]; omega
    have hval : (n.i * 10 + (b - 48).toUInt64).toNat = n.i.toNat * 10 + dval b := by
      simp only [UInt64.toNat_add, UInt64.toNat_mul, digit_toUInt64 b hb]
      have : (10 : UInt64).toNat = 10 := rfl
      rw [this]; omega
    have hmax : ¬ MaxInt64 < n.i * 10 + (b - 48).toUInt64 := by
      rw [UInt64.lt_iff_toNat_lt, hval]
      have hm : MaxInt64.toNat = 9223372036854775807 := rfl
      omega
    simp only [hle, hle2, hmax, ↓reduceIte]

/-- a digit reaches the fast loop while the accumulator equals `BigLimit` -/
def Hit (s : St) (b : UInt8) : Prop := s.inFast = true ∧ expected s.mode b = .numDigit ∧ s.num.i = BigLimit

/-- inside the fast loop the number is not in text form -/
def FastInv (s : St) : Prop := s.inFast = true → s.num.big = []

theorem numDigit_isDigit (m : Mode) (b : UInt8) (h : expected m b = .numDigit) : isDigitB b := by
  have := forall_mode_byte (fun m b => !(expected m b == .numDigit) || (48 ≤ b && b ≤ 57)) (by decide +kernel) m b
  simp only [h, beq_self_eq_true, Bool.not_true, Bool.false_or, Bool.and_eq_true, decide_eq_true_eq] at this
  have h1 := this.1; have h2 := this.2
  rw [UInt8.le_iff_toNat_le] at h1 h2
  exact ⟨by simpa using h1, by simpa using h2⟩

/-- configuration of the parsers: the pinned integer fast loop is on -/
def cfgFast : Cfg := { fastInt := true }

/-- **One byte, with values.** Unless a digit hits the fast loop at `BigLimit`, the parsers' machine
and the byte-at-a-time machine make the same step. -/
theorem step_fast_slow (s : St) (b : UInt8) (hinv : FastInv s) (hno : ¬ Hit s b) :
    clrR (step refTables cfgFast s b) = clrR (step refTables cfg1 s.clr b) := by
  have hact0 : refTables.act s.mode b = expected s.mode b := rfl
  by_cases hd : expected s.mode b = .numDigit
  · -- the digit action
    have hb := numDigit_isDigit s.mode b hd
    unfold step stepAct
    simp only [St.clr_mode, hact0, hd]
    have hnum : (if s.inFast = true then
          (if BigLimit ≤ s.num.i then s.num.fillBig.addDigit b
           else ({ s.num with i := s.num.i * 10 + (b - 48).toUInt64 } : Num))
        else s.num.addDigit b) = s.num.addDigit b := by
      by_cases hf : s.inFast = true
      · simp only [hf, ↓reduceIte]
        exact fast_digit_eq_slow s.num b (hinv hf) (fun h => hno ⟨hf, hd, h⟩) hb
      · have hf' : s.inFast = false := by simpa using hf
        simp only [hf', Bool.false_eq_true, ↓reduceIte]
    have hclr : s.clr.inFast = false := rfl
    have hcn : s.clr.num = s.num := rfl
    simp only [hnum, hclr, hcn, Bool.false_eq_true, ↓reduceIte, Bool.false_and]
    have hm : s.mode = .digit := by
      have := src_ok s.mode b; rw [hd] at this; simpa [srcModes] using this
    have hdel : ∀ (c : Cfg) (x : St), expectedFin x.mode ≠ .a → deliver refTables c x = x := by
      intro c x hx; unfold deliver
      have : refTables.fin x.mode ≠ .a := hx
      simp [this]
    rw [hdel cfgFast _ (by simp only [hm]; decide), hdel cfg1 _ (by simp only [St.clr, hm]; decide)]
    simp [clrR, St.clr]
  · by_cases hv : expected s.mode b = .valDigit
    · unfold step stepAct
      simp only [St.clr_mode, hact0, hv]
      have hdel : ∀ (c : Cfg) (x : St), expectedFin x.mode ≠ .a → deliver refTables c x = x := by
        intro c x hx; unfold deliver
        have : refTables.fin x.mode ≠ .a := hx
        simp [this]
      rw [hdel cfgFast _ (by simp only; decide), hdel cfg1 _ (by simp only; decide)]
      simp [clrR, St.clr, cfgFast, cfg1]
    · -- every other action ignores the flag and the setting
      have hsa := stepAct_clr refTables cfgFast cfg1 s b (by rw [hact0]; exact hd) (by rw [hact0]; exact hv)
      unfold step
      rw [← hsa]
      simp only [St.clr_mode, hact0]
      cases hst : stepAct refTables cfgFast s b with
      | error e => rfl
      | ok p =>
        obtain ⟨s1, c⟩ := p
        simp only [clrRB]
        have hdl : ∀ x : St, (deliver refTables cfg1 x.clr) = (deliver refTables cfgFast x).clr := by
          intro x
          have e : deliver refTables cfgFast x = deliver refTables cfg1 x := rfl
          rw [e]
          unfold deliver
          have hc : (x.clr.starts.isEmpty && decide (refTables.fin x.clr.mode = EndMark.a)) =
              (x.starts.isEmpty && decide (refTables.fin x.mode = EndMark.a)) := rfl
          rw [hc]
          cases (x.starts.isEmpty && decide (refTables.fin x.mode = EndMark.a)) <;> rfl
        cases c
        · simp only [Bool.false_eq_true, ↓reduceIte, hdl, clrR]; rfl
        · simp only [↓reduceIte, clrR]; rfl


theorem deliver_inFast_num (c : Cfg) (x : St) :
    (deliver refTables c x).inFast = x.inFast ∧ (deliver refTables c x).num = x.num := by
  unfold deliver; split <;> exact ⟨rfl, rfl⟩

/-- the flag survives a step only inside the digit loop, where the number is still an integer -/
theorem step_fastInv (s s' : St) (b : UInt8) (hinv : FastInv s)
    (h : step refTables cfgFast s b = .ok s') : FastInv s' := by
  have hact0 : refTables.act s.mode b = expected s.mode b := rfl
  unfold step at h
  cases hst : stepAct refTables cfgFast s b with
  | error e => rw [hst] at h; cases h
  | ok p =>
    obtain ⟨s1, c⟩ := p
    rw [hst] at h
    simp only [Except.ok.injEq, hact0] at h
    intro hf
    rw [← h] at hf ⊢
    simp only at hf ⊢
    have hD := deliver_inFast_num cfgFast s1
    have hsel : (if c = true then s1 else deliver refTables cfgFast s1).inFast = s1.inFast ∧
        (if c = true then s1 else deliver refTables cfgFast s1).num = s1.num := by
      cases c
      · simpa using hD
      · exact ⟨rfl, rfl⟩
    rw [hsel.2]
    unfold stepAct at hst
    rw [hact0] at hst
    cases hact : expected s.mode b <;> rw [hact] at hst hf <;> simp only at hst hf
    case numDigit =>
      simp only [Except.ok.injEq, Prod.mk.injEq] at hst
      rw [hsel.1, ← hst.1] at hf
      simp only [Bool.and_eq_true, Bool.not_eq_eq_eq_not, Bool.not_true, decide_eq_false_iff_not] at hf
      rw [← hst.1]
      simp only [hf.1, ↓reduceIte]
      have : ¬ BigLimit ≤ s.num.i := hf.2
      simp only [this, ↓reduceIte]
      exact hinv hf.1
    case valDigit =>
      simp only [Except.ok.injEq, Prod.mk.injEq] at hst
      rw [← hst.1]
      rfl
    all_goals (cases hf)

/-- no digit reaches the fast loop at `BigLimit` anywhere on the run -/
def NoHitRun : St → Bytes → Prop
  | _, [] => True
  | s, b :: r => ¬ Hit s b ∧ match step refTables cfgFast s b with
    | .ok s' => NoHitRun s' r
    | .error _ => True

/-- **The run, with values.** -/
theorem runBytes_fast_slow (bs : Bytes) : ∀ (s : St), FastInv s → NoHitRun s bs →
    clrR (runBytes refTables cfgFast s bs) = clrR (runBytes refTables cfg1 s.clr bs) := by
  induction bs with
  | nil => intro s _ _; rfl
  | cons b r ih =>
    intro s hinv hno
    obtain ⟨hnh, hrest⟩ := hno
    have hs := step_fast_slow s b hinv hnh
    simp only [runBytes]
    cases h1 : step refTables cfgFast s b with
    | error e =>
      rw [h1] at hs
      cases h2 : step refTables cfg1 s.clr b with
      | error e' => rw [h2] at hs; simp only [clrR, Except.error.injEq] at hs; simp only [clrR, hs]
      | ok t => rw [h2] at hs; simp [clrR] at hs
    | ok s1 =>
      rw [h1] at hs hrest
      cases h2 : step refTables cfg1 s.clr b with
      | error e' => rw [h2] at hs; simp [clrR] at hs
      | ok t =>
        rw [h2] at hs
        simp only [clrR, Except.ok.injEq] at hs
        simp only
        have ht : t = s1.clr := by
          have hti : t.inFast = false := C03.step_inFast refTables cfg1 rfl s.clr t b rfl h2
          have : t.clr = t := by cases t; simp_all [St.clr]
          rw [← this, ← hs]
        rw [ht]
        exact ih s1 (step_fastInv s s1 b hinv h1) hrest

/-- **C02 for the parsers.** On every input on which no digit reaches the fast loop while the
accumulator equals `BigLimit` (the condition under which known finding C02-int19 shows), the parsers'
machine returns exactly what the byte-at-a-time machine returns: the same documents with the same
values, or the same error. -/
theorem exec_fast_eq_slow (bs : Bytes) (h : NoHitRun {} bs) :
    (match runBytes refTables cfgFast {} bs with
      | .error e => Except.error e
      | .ok s => finish refTables s) =
    (match runBytes refTables cfg1 {} bs with
      | .error e => Except.error e
      | .ok s => finish refTables s) := by
  have hrun := runBytes_fast_slow bs {} (fun h => nomatch h) h
  have hc : ({} : St).clr = {} := rfl
  rw [hc] at hrun
  cases h1 : runBytes refTables cfgFast {} bs with
  | error e =>
    rw [h1] at hrun
    cases h2 : runBytes refTables cfg1 {} bs with
    | error e' => rw [h2] at hrun; simp only [clrR, Except.error.injEq] at hrun; rw [hrun]
    | ok t => rw [h2] at hrun; simp [clrR] at hrun
  | ok s1 =>
    rw [h1] at hrun
    cases h2 : runBytes refTables cfg1 {} bs with
    | error e' => rw [h2] at hrun; simp [clrR] at hrun
    | ok t =>
      rw [h2] at hrun
      simp only [clrR, Except.ok.injEq] at hrun
      simp only
      have e1 : finish refTables s1 = finish refTables s1.clr := (finish_inFast s1 false).symm
      have e2 : finish refTables t = finish refTables t.clr := (finish_inFast t false).symm
      rw [e1, e2, hrun]


/-- executable form of `NoHitRun` -/
def noHitRunB : St → Bytes → Bool
  | _, [] => true
  | s, b :: r =>
    !(s.inFast && (expected s.mode b == .numDigit) && (s.num.i == BigLimit)) &&
    match step refTables cfgFast s b with
    | .ok s' => noHitRunB s' r
    | .error _ => true

theorem noHitRun_of_B (bs : Bytes) : ∀ s : St, noHitRunB s bs = true → NoHitRun s bs := by
  induction bs with
  | nil => intro _ _; trivial
  | cons b r ih =>
    intro s h
    simp only [noHitRunB, Bool.and_eq_true, Bool.not_eq_eq_eq_not, Bool.not_true, Bool.and_eq_false_imp,
      beq_iff_eq] at h
    refine ⟨fun hh => ?_, ?_⟩
    · have := h.1 ⟨hh.1, hh.2.1⟩
      simp only [beq_eq_false_iff_ne, ne_eq] at this
      exact this hh.2.2
    · cases hs : step refTables cfgFast s b with
      | error e => trivial
      | ok s' => rw [hs] at h; exact ih s' h.2

end OjgVerif.Json
