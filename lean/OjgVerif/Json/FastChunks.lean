import OjgVerif.Json.FastSlow
/-! The parsers' integer fast loop under an arbitrary chunking of the reader.

`Json/FastSlow.lean` compares the fast loop with the byte-at-a-time machine on one buffer. Here the
same comparison over any list of read buffers (a buffer boundary ends the loop, so the hit condition
depends on the chunking), through the whole entry point `run` with its BOM rules. Consequence
(`Props/C03Fast.lean`): chunk independence for the PARSERS, with the exact exclusion of known finding
C03-int19. -/
namespace OjgVerif.Json
open OjgVerif

/-- the machine's step does not read the `reader` flag -/
theorem step_reader (T : Tables) (c : Cfg) (r : Bool) (s : St) (b : UInt8) :
    step T { c with reader := r } s b = step T c s b := rfl

theorem runBytes_reader (T : Tables) (c : Cfg) (r : Bool) (bs : Bytes) : ∀ s : St,
    runBytes T { c with reader := r } s bs = runBytes T c s bs := by
  induction bs with
  | nil => intro s; rfl
  | cons b t ih =>
    intro s
    simp only [runBytes, step_reader]
    cases step T c s b with
    | error e => rfl
    | ok s1 => exact ih s1

theorem runChunks_reader (T : Tables) (c : Cfg) (r : Bool) (cs : List Bytes) : ∀ s : St,
    runChunks T { c with reader := r } s cs = runChunks T c s cs := by
  induction cs with
  | nil => intro s; rfl
  | cons x t ih =>
    intro s
    simp only [runChunks, runBytes_reader]
    cases runBytes T c s x with
    | error e => rfl
    | ok s1 => exact ih _

/-- no digit reaches the fast loop at `BigLimit` anywhere on the chunked run -/
def NoHitChunks : St → List Bytes → Prop
  | _, [] => True
  | s, c :: rest => NoHitRun s c ∧ match runBytes refTables cfgFast s c with
    | .ok s' => NoHitChunks s'.clr rest
    | .error _ => True

theorem clr_clr (s : St) : s.clr.clr = s.clr := rfl

theorem fastInv_clr (s : St) : FastInv s.clr := fun h => nomatch h

/-- **The chunked run, with values.** -/
theorem runChunks_fast_slow (cs : List Bytes) : ∀ (s : St), FastInv s → NoHitChunks s cs →
    clrR (runChunks refTables cfgFast s cs) = clrR (runChunks refTables cfg1 s.clr cs) := by
  induction cs with
  | nil => intro s _ _; rfl
  | cons c rest ih =>
    intro s hinv hno
    obtain ⟨hc, hrest⟩ := hno
    have hb := runBytes_fast_slow c s hinv hc
    simp only [runChunks]
    cases h1 : runBytes refTables cfgFast s c with
    | error e =>
      rw [h1] at hb
      cases h2 : runBytes refTables cfg1 s.clr c with
      | error e' => rw [h2] at hb; simp only [clrR, Except.error.injEq] at hb; simp only [clrR, hb]
      | ok t => rw [h2] at hb; simp [clrR] at hb
    | ok s1 =>
      rw [h1] at hb hrest
      cases h2 : runBytes refTables cfg1 s.clr c with
      | error e' => rw [h2] at hb; simp [clrR] at hb
      | ok t =>
        rw [h2] at hb
        simp only [clrR, Except.ok.injEq] at hb
        simp only
        have e1 : ({ s1 with inFast := false } : St) = s1.clr := rfl
        have e2 : ({ t with inFast := false } : St) = s1.clr := by
          have : ({ t with inFast := false } : St) = t.clr := rfl
          rw [this, hb]
        rw [e1, e2]
        have := ih s1.clr (fastInv_clr s1) hrest
        rw [clr_clr] at this
        exact this

/-- the tail of an entry-point call once the BOM decision is made: fast loop = byte-at-a-time -/
theorem afterBom_fast_slow (cs : List Bytes) (h : NoHitChunks {} cs) :
    C03.afterBom refTables cfgFast cs = C03.afterBom refTables cfg1 cs := by
  unfold C03.afterBom
  have hrun := runChunks_fast_slow cs {} (fun h => nomatch h) h
  have hc : ({} : St).clr = {} := rfl
  rw [hc] at hrun
  cases h1 : runChunks refTables cfgFast {} cs with
  | error e =>
    rw [h1] at hrun
    cases h2 : runChunks refTables cfg1 {} cs with
    | error e' => rw [h2] at hrun; simp only [clrR, Except.error.injEq] at hrun; rw [hrun]
    | ok t => rw [h2] at hrun; simp [clrR] at hrun
  | ok s1 =>
    rw [h1] at hrun
    cases h2 : runChunks refTables cfg1 {} cs with
    | error e' => rw [h2] at hrun; simp [clrR] at hrun
    | ok t =>
      rw [h2] at hrun
      simp only [clrR, Except.ok.injEq] at hrun
      simp only
      have e1 : finish refTables s1 = finish refTables s1.clr := (finish_inFast s1 false).symm
      have e2 : finish refTables t = finish refTables t.clr := (finish_inFast t false).symm
      rw [e1, e2, hrun]

/-- the chunk list the machine sees in one entry-point call (`none`: the call ends before the
machine starts — nothing delivered, or a bad BOM) -/
def effChunks (rd : Bool) (chunks : List Bytes) : Option (List Bytes) :=
  match (if rd then topUp (chunks.filter (!·.isEmpty)) else chunks) with
  | [] => none
  | c :: rest =>
    match (if rd then bomRuleReader c else bomRule c) with
    | .bad => none
    | .strip r => some (r :: rest)
    | .keep => some (c :: rest)

/-- no digit reaches the fast loop at `BigLimit` during this call -/
def NoHitCall (rd : Bool) (chunks : List Bytes) : Prop :=
  match effChunks rd chunks with
  | none => True
  | some cs => NoHitChunks {} cs

def cfgParser (rd : Bool) : Cfg := { fastInt := true, reader := rd }
def cfgBytewise (rd : Bool) : Cfg := { reader := rd }

theorem run_afterBom (T : Tables) (cfg : Cfg) (chunks : List Bytes) :
    run T cfg chunks =
      match (if cfg.reader then topUp (chunks.filter (!·.isEmpty)) else chunks) with
      | [] => finish T {}
      | c :: rest =>
        match (if cfg.reader then bomRuleReader c else bomRule c) with
        | .bad => .error { line := 1, col := 3, kind := .byte }
        | .strip r => C03.afterBom T cfg (r :: rest)
        | .keep => C03.afterBom T cfg (c :: rest) := by
  unfold run C03.afterBom
  simp only
  cases (if cfg.reader then topUp (chunks.filter (!·.isEmpty)) else chunks) with
  | nil => rfl
  | cons c rest =>
    simp only
    cases (if cfg.reader then bomRuleReader c else bomRule c) <;> rfl

theorem afterBom_reader (T : Tables) (c : Cfg) (r : Bool) (cs : List Bytes) :
    C03.afterBom T { c with reader := r } cs = C03.afterBom T c cs := by
  unfold C03.afterBom
  rw [runChunks_reader]

/-- **A whole call: the parser is the byte-at-a-time machine unless the hit occurs.** Either entry
point (`rd`: reader or `[]byte`), any chunking, BOM rules included. -/
theorem run_fast_eq_slow (rd : Bool) (chunks : List Bytes) (h : NoHitCall rd chunks) :
    run refTables (cfgParser rd) chunks = run refTables (cfgBytewise rd) chunks := by
  rw [run_afterBom, run_afterBom]
  unfold NoHitCall effChunks at h
  have hr1 : (cfgParser rd).reader = rd := rfl
  have hr2 : (cfgBytewise rd).reader = rd := rfl
  rw [hr1, hr2]
  have e1 : ∀ cs, C03.afterBom refTables (cfgParser rd) cs = C03.afterBom refTables cfgFast cs :=
    fun cs => afterBom_reader refTables cfgFast rd cs
  have e2 : ∀ cs, C03.afterBom refTables (cfgBytewise rd) cs = C03.afterBom refTables cfg1 cs :=
    fun cs => afterBom_reader refTables cfg1 rd cs
  cases hcs : (if rd = true then topUp (chunks.filter (!·.isEmpty)) else chunks) with
  | nil => rfl
  | cons c rest =>
    rw [hcs] at h
    simp only at h ⊢
    cases hb : (if rd = true then bomRuleReader c else bomRule c) with
    | bad => rfl
    | strip r =>
      rw [hb] at h
      simp only at h ⊢
      rw [e1, e2]; exact afterBom_fast_slow _ h
    | keep =>
      rw [hb] at h
      simp only at h ⊢
      rw [e1, e2]; exact afterBom_fast_slow _ h

/-- executable form of `NoHitChunks` / `NoHitCall` -/
def noHitChunksB : St → List Bytes → Bool
  | _, [] => true
  | s, c :: rest => noHitRunB s c && match runBytes refTables cfgFast s c with
    | .ok s' => noHitChunksB s'.clr rest
    | .error _ => true

theorem noHitChunks_of_B (cs : List Bytes) : ∀ s : St, noHitChunksB s cs = true → NoHitChunks s cs := by
  induction cs with
  | nil => intro s _; trivial
  | cons c rest ih =>
    intro s h
    simp only [noHitChunksB, Bool.and_eq_true] at h
    refine ⟨noHitRun_of_B c s h.1, ?_⟩
    cases h1 : runBytes refTables cfgFast s c with
    | error e => trivial
    | ok s1 =>
      have h2 := h.2
      rw [h1] at h2
      exact ih _ h2

def noHitCallB (rd : Bool) (chunks : List Bytes) : Bool :=
  match effChunks rd chunks with
  | none => true
  | some cs => noHitChunksB {} cs

theorem noHitCall_of_B (rd : Bool) (chunks : List Bytes) (h : noHitCallB rd chunks = true) :
    NoHitCall rd chunks := by
  unfold noHitCallB at h
  unfold NoHitCall
  cases he : effChunks rd chunks with
  | none => trivial
  | some cs => rw [he] at h; exact noHitChunks_of_B cs {} h

end OjgVerif.Json
