import OjgVerif.Json.BufSim
import OjgVerif.Json.FastSlow
import OjgVerif.Json.Ctl
/-! # One byte of the byte machine up to dead fields and the integer-loop flag

`step_cn` (a state and its normal form make the same step), `step_clr` (outside the integer loop a
step ignores the flag and the fast-loop setting) and their combination `slow_rel`: from related
states the buffer model's delegated case and the parsers' byte machine make related steps. -/
namespace OjgVerif.Json
open OjgVerif

/-- `p.nextMode` is only ever `afterMap` or `colonMap` -/
def NmOK (s : St) : Prop := s.nextMode = .after ∨ s.nextMode = .colon

theorem NmOK.init : NmOK {} := Or.inl rfl

theorem actCtl_nextMode (a : Act) (c : Ctl) :
    (actCtl a c).nextMode = c.nextMode ∨ (actCtl a c).nextMode = .after ∨ (actCtl a c).nextMode = .colon := by
  cases a <;> simp [actCtl]

theorem deliver_nextMode (T : Tables) (cfg : Cfg) (s : St) : (deliver T cfg s).nextMode = s.nextMode := by
  unfold deliver; split <;> rfl

theorem stepAct_nm {T : Tables} (hT : TablesOK T) (cfg : Cfg) (s s' : St) (b : UInt8) (c : Bool)
    (h : stepAct T cfg s b = .ok (s', c)) (hn : NmOK s) : NmOK s' := by
  rw [stepAct_eq_ref hT] at h
  have := stepAct_ctl_eq cfg s s' b c h
  have h2 : s'.nextMode = (actCtl (expected s.mode b) s.ctl).nextMode := by
    rw [← this]; rfl
  unfold NmOK at *
  rw [h2]
  rcases actCtl_nextMode (expected s.mode b) s.ctl with e | e | e
  · rw [e]; exact hn
  · exact Or.inl e
  · exact Or.inr e

theorem step_nm {T : Tables} (hT : TablesOK T) (cfg : Cfg) (s s' : St) (b : UInt8)
    (h : step T cfg s b = .ok s') (hn : NmOK s) : NmOK s' := by
  unfold step at h
  cases hst : stepAct T cfg s b with
  | error e => rw [hst] at h; cases h
  | ok p =>
    obtain ⟨s1, c⟩ := p
    rw [hst] at h
    simp only [Except.ok.injEq] at h
    have h1 := stepAct_nm hT cfg s s1 b c hst hn
    have : s'.nextMode = s1.nextMode := by
      rw [← h]
      cases c
      · exact deliver_nextMode T cfg s1
      · rfl
    unfold NmOK at *; rw [this]; exact h1

theorem deliver_cn (T : Tables) (cfg : Cfg) (s : St) : (deliver T cfg s).cn = (deliver T cfg s.cn).cn := by
  unfold deliver
  have hc : (s.cn.starts.isEmpty && decide (T.fin s.cn.mode = EndMark.a)) =
      (s.starts.isEmpty && decide (T.fin s.mode = EndMark.a)) := rfl
  rw [hc]
  cases (s.starts.isEmpty && decide (T.fin s.mode = EndMark.a))
  · simp only [Bool.false_eq_true, ↓reduceIte]; exact (St.cn_cn s).symm
  · simp only [↓reduceIte]
    cases cfg.onlyOne <;> rfl

theorem deliver_cn_rel (T : Tables) (cfg : Cfg) {a b : St} (h : a.cn = b.cn) :
    (deliver T cfg a).cn = (deliver T cfg b).cn := by
  rw [deliver_cn T cfg a, deliver_cn T cfg b, h]

theorem cn_upd {x y : St} (h : x.cn = y.cn) (p : Nat) (f : Bool) :
    ({ x with pos := p, inFast := f } : St).cn = ({ y with pos := p, inFast := f } : St).cn := by
  show ({ x.cn with pos := p, inFast := f } : St) = ({ y.cn with pos := p, inFast := f } : St)
  rw [h]

/-- **the byte machine cannot tell a state from its normal form** -/
theorem step_cn {T : Tables} (hT : TablesOK T) (cfg : Cfg) (s : St) (b : UInt8) (hnm : NmOK s) :
    cnR (step T cfg s b) = cnR (step T cfg s.cn b) := by
  have h := stepAct_cn hT cfg s b hnm
  unfold step
  simp only [St.cn_mode]
  cases h1 : stepAct T cfg s b with
  | error e =>
    cases h2 : stepAct T cfg s.cn b with
    | error e' => rw [h1, h2] at h; simp only [cnRB] at h; cases h; rfl
    | ok q => rw [h1, h2] at h; simp [cnRB] at h
  | ok p =>
    cases h2 : stepAct T cfg s.cn b with
    | error e' => rw [h1, h2] at h; simp [cnRB] at h
    | ok q =>
      rw [h1, h2] at h
      obtain ⟨a, c⟩ := p
      obtain ⟨a', c'⟩ := q
      simp only [cnRB, Except.ok.injEq, Prod.mk.injEq] at h
      obtain ⟨hab, hc⟩ := h
      subst hc
      simp only [cnR]
      have hd : (if c = true then a else deliver T cfg a).cn = (if c = true then a' else deliver T cfg a').cn := by
        cases c
        · exact deliver_cn_rel T cfg hab
        · exact hab
      revert hd
      generalize (if c = true then a else deliver T cfg a) = x
      generalize (if c = true then a' else deliver T cfg a') = y
      intro hd
      have hf := (cn_fields hd).2.2.2.2.2.2.2.2
      have hp := (cn_fields hd).2.2.2.2.2.2.1
      rw [hf, hp]
      exact congrArg Except.ok (cn_upd hd _ _)


/-! ## The flag of the pinned integer loop -/

theorem deliver_clr (T : Tables) (cfg cfg' : Cfg) (ho : cfg.onlyOne = cfg'.onlyOne) (x : St) :
    deliver T cfg' x.clr = (deliver T cfg x).clr := by
  unfold deliver
  have hc : (x.clr.starts.isEmpty && decide (T.fin x.clr.mode = EndMark.a)) =
      (x.starts.isEmpty && decide (T.fin x.mode = EndMark.a)) := rfl
  rw [hc, ho]
  cases (x.starts.isEmpty && decide (T.fin x.mode = EndMark.a)) <;> rfl

theorem clr_of_false (m : St) (h : m.inFast = false) : m.clr = m := by
  obtain ⟨_, _, _, _, _, _, _, _, _, _, _, _, f⟩ := m
  simp only at h; subst h; rfl

/-- outside the integer loop a byte step does not look at the flag or at the fast-loop setting -/
theorem step_clr (T : Tables) (cfg cfg' : Cfg) (ho : cfg.onlyOne = cfg'.onlyOne) (m : St) (b : UInt8)
    (hd : T.act m.mode b = .numDigit → m.inFast = false)
    (hv : T.act m.mode b = .valDigit → cfg.fastInt = cfg'.fastInt) :
    clrR (step T cfg m b) = clrR (step T cfg' m.clr b) := by
  by_cases hvd : T.act m.mode b = .valDigit
  · have hf := hv hvd
    unfold step stepAct
    simp only [St.clr_mode, hvd, hf]
    rw [show deliver T cfg = deliver T cfg' from by funext x; unfold deliver; rw [ho]]
    rfl
  have hv : T.act m.mode b ≠ .valDigit := hvd
  by_cases hnd : T.act m.mode b = .numDigit
  · rw [clr_of_false m (hd hnd)]
    unfold step stepAct
    simp only [hnd]
    rw [show deliver T cfg = deliver T cfg' from by funext x; unfold deliver; rw [ho]]
  · have hsa := stepAct_clr T cfg cfg' m b hnd hv
    unfold step
    rw [← hsa]
    simp only [St.clr_mode]
    cases hst : stepAct T cfg m b with
    | error e => rfl
    | ok p =>
      obtain ⟨s1, c⟩ := p
      simp only [clrRB]
      cases c
      · simp only [Bool.false_eq_true, ↓reduceIte, deliver_clr T cfg cfg' ho, clrR]
        cases T.act m.mode b <;> rfl
      · simp only [↓reduceIte, clrR]
        cases T.act m.mode b <;> rfl

/-- normal form of a state: integer-loop flag and dead fields forgotten -/
def St.nf (s : St) : St := s.clr.cn

def nfR : Except Err St → Except Err St
  | .ok s => .ok s.nf
  | .error e => .error e

theorem nfR_eq (x : Except Err St) : nfR x = cnR (clrR x) := by cases x <;> rfl

theorem clr_cn (s : St) : s.cn.clr = s.clr.cn := rfl

theorem clrR_cnR (x : Except Err St) : clrR (cnR x) = cnR (clrR x) := by cases x <;> rfl

theorem NmOK_clr {s : St} (h : NmOK s) : NmOK s.clr := h

/-- **one delegated byte**: from related states — the buffer model's (flag off) and the byte machine's
— the byte machine with the integer loop switched off and the parsers' byte machine make related steps,
unless the byte is a digit inside the pinned loop or starts a number -/
theorem slow_rel {T : Tables} (hT : TablesOK T) (cfg : Cfg) (s m : St) (b : UInt8)
    (hrel : s.nf = m.nf) (hsf : s.inFast = false) (hs : NmOK s) (hm : NmOK m)
    (hd : T.act m.mode b = .numDigit → m.inFast = false)
    (hv : T.act m.mode b = .valDigit → cfg.fastInt = false) :
    nfR (step T cfg.slow s b) = nfR (step T cfg m b) := by
  have e1 : clrR (step T cfg m b) = clrR (step T cfg.slow m.clr b) := step_clr T cfg cfg.slow rfl m b hd hv
  have e2 : clrR (step T cfg.slow s b) = clrR (step T cfg.slow s.clr b) := by
    rw [clr_of_false s hsf]
  rw [nfR_eq, nfR_eq, e1, e2]
  have c1 := step_cn hT cfg.slow s.clr b (NmOK_clr hs)
  have c2 := step_cn hT cfg.slow m.clr b (NmOK_clr hm)
  rw [← clrR_cnR, ← clrR_cnR, c1, c2]
  have : s.clr.cn = m.clr.cn := hrel
  rw [this]

end OjgVerif.Json
