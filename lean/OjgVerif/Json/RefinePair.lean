import OjgVerif.Json.RefineTree
/-! Where exactly the machine's strings are the RFC's strings.

`pCharsX` is the character reader that REFUSES a string in which a high-surrogate escape is directly
followed by a low-surrogate escape (`\uD8xx\uDCxx`) and otherwise reads like both `Spec.pChars` (the
RFC reading, which combines such a pair) and `pCharsM` (what the machines implement, which does not:
known finding C02-surrogate). Whatever the refusing grammar returns, both return (`Le`), hence: on
every text without such a pair inside a string the machine's tree IS the RFC tree; the known finding
is exactly the complement. -/
namespace OjgVerif.Json
open OjgVerif

/-- does a low-surrogate escape `\uDC00..\uDFFF` start here? -/
def lowEscHere : Bytes → Bool
  | 92 :: 117 :: r3 =>
    match Spec.hex4 r3 with
    | some (lo, _) => decide (0xDC00 ≤ lo ∧ lo < 0xE000)
    | none => false
  | _ => false

/-- the string reader that refuses a surrogate PAIR escape -/
def pCharsX : Nat → Bytes → Option (Bytes × Bytes)
  | 0, _ => none
  | f+1, bs =>
    match bs with
    | [] => none
    | b :: r =>
      if b = 34 then some ([], r)
      else if b = 92 then
        match r with
        | [] => none
        | e :: r' =>
          if e = 117 then
            match Spec.hex4 r' with
            | none => none
            | some (u, r'') =>
              if (0xD800 ≤ u ∧ u < 0xDC00) ∧ lowEscHere r'' = true then none
              else (pCharsX f r'').map fun p => (Spec.utf8Enc u ++ p.1, p.2)
          else
            match Spec.escByte e with
            | some c => (pCharsX f r').map fun p => (c :: p.1, p.2)
            | none => none
      else if b < 32 then none
      else (pCharsX f r).map fun p => (b :: p.1, p.2)

theorem pCharsX_succ_cons (f : Nat) (b : UInt8) (r : Bytes) : pCharsX (f + 1) (b :: r) =
    if b = 34 then some ([], r)
    else if b = 92 then
      match r with
      | [] => none
      | e :: r' =>
        if e = 117 then
          match Spec.hex4 r' with
          | none => none
          | some (u, r'') =>
            if (0xD800 ≤ u ∧ u < 0xDC00) ∧ lowEscHere r'' = true then none
            else (pCharsX f r'').map fun p => (Spec.utf8Enc u ++ p.1, p.2)
        else
          match Spec.escByte e with
          | some c => (pCharsX f r').map fun p => (c :: p.1, p.2)
          | none => none
    else if b < 32 then none
    else (pCharsX f r).map fun p => (b :: p.1, p.2) := rfl

/-- whatever `p` returns, `q` returns -/
def Le {α : Type} (p q : Option α) : Prop := ∀ x, p = some x → q = some x

theorem Le.none {α : Type} (q : Option α) : Le (none : Option α) q := fun _ h => nomatch h
theorem Le.refl {α : Type} (p : Option α) : Le p p := fun _ h => h

theorem Le.map {α β : Type} {p q : Option α} (g : α → β) (h : Le p q) : Le (p.map g) (q.map g) := by
  intro x hx
  cases p with
  | none => simp at hx
  | some a => rw [h a rfl]; exact hx

/-- the refusing reader against the machine's reader -/
theorem pCharsX_le_M : ∀ (f : Nat) (bs : Bytes), Le (pCharsX f bs) (pCharsM f bs) := by
  intro f
  induction f with
  | zero => intro bs; exact Le.none _
  | succ f ih =>
    intro bs
    cases bs with
    | nil => exact Le.none _
    | cons b r =>
      rw [pCharsX_succ_cons, pCharsM_succ_cons]
      by_cases h34 : b = 34
      · simp only [h34, ↓reduceIte]; exact Le.refl _
      · simp only [h34, ↓reduceIte]
        by_cases h92 : b = 92
        · simp only [h92, ↓reduceIte]
          cases r with
          | nil => exact Le.none _
          | cons e r' =>
            simp only
            by_cases h117 : e = 117
            · simp only [h117, ↓reduceIte]
              cases Spec.hex4 r' with
              | none => exact Le.none _
              | some p =>
                obtain ⟨u, r''⟩ := p
                simp only
                by_cases hx : (0xD800 ≤ u ∧ u < 0xDC00) ∧ lowEscHere r'' = true
                · simp only [hx, and_self, ↓reduceIte]; exact Le.none _
                · simp only [hx, ↓reduceIte]; exact (ih r'').map _
            · simp only [h117, ↓reduceIte]
              cases Spec.escByte e with
              | none => exact Le.none _
              | some c => exact (ih r').map _
        · simp only [h92, ↓reduceIte]
          by_cases hlt : b < 32
          · simp only [hlt, ↓reduceIte]; exact Le.none _
          · simp only [hlt, ↓reduceIte]; exact (ih r).map _

/-- the refusing reader against the RFC reader -/
theorem pCharsX_le_spec : ∀ (f : Nat) (bs : Bytes), Le (pCharsX f bs) (Spec.pChars f bs) := by
  intro f
  induction f with
  | zero => intro bs; exact Le.none _
  | succ f ih =>
    intro bs
    cases bs with
    | nil => exact Le.none _
    | cons b r =>
      rw [pCharsX_succ_cons, pChars_succ_cons]
      by_cases h34 : b = 34
      · simp only [h34, ↓reduceIte]; exact Le.refl _
      · simp only [h34, ↓reduceIte]
        by_cases h92 : b = 92
        · simp only [h92, ↓reduceIte]
          cases r with
          | nil => exact Le.none _
          | cons e r' =>
            simp only
            by_cases h117 : e = 117
            · simp only [h117, ↓reduceIte]
              cases Spec.hex4 r' with
              | none => exact Le.none _
              | some p =>
                obtain ⟨u, r''⟩ := p
                simp only
                have plain : Le ((pCharsX f r'').map fun p => (Spec.utf8Enc u ++ p.1, p.2))
                    ((Spec.pChars f r'').map fun p => (Spec.utf8Enc u ++ p.1, p.2)) := (ih r'').map _
                by_cases hhi : 0xD800 ≤ u ∧ u < 0xDC00
                · by_cases hlow : lowEscHere r'' = true
                  · have hx : (0xD800 ≤ u ∧ u < 0xDC00) ∧ lowEscHere r'' = true := ⟨hhi, hlow⟩
                    simp only [hx, and_self, ↓reduceIte]; exact Le.none _
                  · have hx : ¬ ((0xD800 ≤ u ∧ u < 0xDC00) ∧ lowEscHere r'' = true) := fun h => hlow h.2
                    rw [if_neg hx]
                    simp only [hhi, and_self, ↓reduceIte]
                    -- the RFC reader finds no low surrogate escape either
                    match r'', hlow, plain with
                    | [], _, plain => exact plain
                    | [_], _, plain =>
                      split
                      · rename_i heq; simp at heq
                      · exact plain
                    | x :: y :: r3, hlow, plain =>
                      by_cases hxy : x = 92 ∧ y = 117
                      · obtain ⟨rfl, rfl⟩ := hxy
                        simp only
                        simp only [lowEscHere] at hlow
                        cases hh2 : Spec.hex4 r3 with
                        | none => exact plain
                        | some q =>
                          obtain ⟨lo, r4⟩ := q
                          simp only [hh2, decide_eq_true_eq] at hlow
                          simp only [hlow, ↓reduceIte]
                          exact plain
                      · split
                        · rename_i heq; simp only [List.cons.injEq] at heq; exact absurd ⟨heq.1, heq.2.1⟩ hxy
                        · exact plain
                · have hx : ¬ ((0xD800 ≤ u ∧ u < 0xDC00) ∧ lowEscHere r'' = true) := fun h => hhi h.1
                  rw [if_neg hx]
                  simp only [hhi, ↓reduceIte]; exact plain
            · simp only [h117, ↓reduceIte]
              cases Spec.escByte e with
              | none => exact Le.none _
              | some c => exact (ih r').map _
        · simp only [h92, ↓reduceIte]
          by_cases hlt : b < 32
          · simp only [hlt, ↓reduceIte]; exact Le.none _
          · simp only [hlt, ↓reduceIte]; exact (ih r).map _

/-! ## The grammar is monotone in its string reader -/

theorem pElems_le (pv1 pv2 : Bytes → Option (JV × Bytes)) (h : ∀ bs, Le (pv1 bs) (pv2 bs)) :
    ∀ (k : Nat) (bs : Bytes) (a : List JV), Le (Spec.pElems pv1 k bs a) (Spec.pElems pv2 k bs a) := by
  intro k
  induction k with
  | zero => intro bs a; exact Le.none _
  | succ k ih =>
    intro bs a
    simp only [Spec.pElems]
    cases Spec.skipWs bs with
    | nil => exact Le.none _
    | cons c r =>
      simp only
      by_cases h93 : c = 93
      · simp only [h93, ↓reduceIte]; exact Le.refl _
      · simp only [h93, ↓reduceIte]
        by_cases h44 : c = 44
        · simp only [h44, ↓reduceIte]
          cases e1 : pv1 (Spec.skipWs r) with
          | none => exact Le.none _
          | some p =>
            obtain ⟨v, rest⟩ := p
            rw [h _ _ e1]; exact ih rest _
        · simp only [h44, ↓reduceIte]; exact Le.none _

theorem pMemberG_le (pc1 pc2 : Nat → Bytes → Option (Bytes × Bytes)) (pv1 pv2 : Bytes → Option (JV × Bytes))
    (hpc : ∀ f r, Le (pc1 f r) (pc2 f r)) (hpv : ∀ bs, Le (pv1 bs) (pv2 bs)) :
    ∀ bs, Le (pMemberG pc1 pv1 bs) (pMemberG pc2 pv2 bs) := by
  intro bs
  cases bs with
  | nil => exact Le.none _
  | cons q r =>
    simp only [pMemberG]
    by_cases h34 : q = 34
    · simp only [h34, ↓reduceIte]
      cases e1 : pc1 r.length r with
      | none => exact Le.none _
      | some p =>
        obtain ⟨k, r1⟩ := p
        rw [hpc _ _ _ e1]
        simp only
        cases Spec.skipWs r1 with
        | nil => exact Le.none _
        | cons c r2 =>
          simp only
          by_cases h58 : c = 58
          · simp only [h58, ↓reduceIte]
            cases e2 : pv1 (Spec.skipWs r2) with
            | none => exact Le.none _
            | some p2 =>
              obtain ⟨v, rest⟩ := p2
              rw [hpv _ _ e2]; exact Le.refl _
          · simp only [h58, ↓reduceIte]; exact Le.none _
    · simp only [h34, ↓reduceIte]; exact Le.none _

theorem pMembersG_le (pm1 pm2 : Bytes → Option ((Bytes × JV) × Bytes)) (h : ∀ bs, Le (pm1 bs) (pm2 bs)) :
    ∀ (k : Nat) (bs : Bytes) (a : List (Bytes × JV)), Le (pMembersG pm1 k bs a) (pMembersG pm2 k bs a) := by
  intro k
  induction k with
  | zero => intro bs a; exact Le.none _
  | succ k ih =>
    intro bs a
    simp only [pMembersG]
    cases Spec.skipWs bs with
    | nil => exact Le.none _
    | cons c r =>
      simp only
      by_cases h125 : c = 125
      · simp only [h125, ↓reduceIte]; exact Le.refl _
      · simp only [h125, ↓reduceIte]
        by_cases h44 : c = 44
        · simp only [h44, ↓reduceIte]
          cases e1 : pm1 (Spec.skipWs r) with
          | none => exact Le.none _
          | some p =>
            obtain ⟨⟨key, v⟩, rest⟩ := p
            rw [h _ _ e1]; exact ih rest _
        · simp only [h44, ↓reduceIte]; exact Le.none _

/-- **The grammar is monotone in its string reader.** -/
theorem pValueG_le (pc1 pc2 : Nat → Bytes → Option (Bytes × Bytes)) (nc : Bytes → JV)
    (hpc : ∀ f r, Le (pc1 f r) (pc2 f r)) :
    ∀ (f : Nat) (bs : Bytes), Le (pValueG pc1 nc f bs) (pValueG pc2 nc f bs) := by
  intro f
  induction f with
  | zero => intro bs; exact Le.none _
  | succ f ih =>
    intro bs
    cases bs with
    | nil => exact Le.none _
    | cons b r =>
      simp only [pValueG]
      by_cases h1 : b = 110
      · simp only [h1, ↓reduceIte]; exact Le.refl _
      · simp only [h1, ↓reduceIte]
        by_cases h2 : b = 116
        · simp only [h2, ↓reduceIte]; exact Le.refl _
        · simp only [h2, ↓reduceIte]
          by_cases h3 : b = 102
          · simp only [h3, ↓reduceIte]; exact Le.refl _
          · simp only [h3, ↓reduceIte]
            by_cases h4 : b = 34
            · simp only [h4, ↓reduceIte]; exact (hpc _ r).map _
            · simp only [h4, ↓reduceIte]
              by_cases h5 : (b = 45 || Spec.isDigit b) = true
              · simp only [h5, ↓reduceIte]; exact Le.refl _
              · simp only [h5, Bool.false_eq_true, ↓reduceIte]
                by_cases h6 : b = 91
                · simp only [h6, ↓reduceIte]
                  cases Spec.skipWs r with
                  | nil => exact Le.none _
                  | cons c r' =>
                    simp only
                    by_cases h93 : c = 93
                    · simp only [h93, ↓reduceIte]; exact Le.refl _
                    · simp only [h93, ↓reduceIte]
                      cases e1 : pValueG pc1 nc f (c :: r') with
                      | none => exact Le.none _
                      | some p =>
                        obtain ⟨v, rest⟩ := p
                        rw [ih _ _ e1]; exact pElems_le _ _ ih _ _ _
                · simp only [h6, ↓reduceIte]
                  by_cases h7 : b = 123
                  · simp only [h7, ↓reduceIte]
                    cases Spec.skipWs r with
                    | nil => exact Le.none _
                    | cons c r' =>
                      simp only
                      by_cases h125 : c = 125
                      · simp only [h125, ↓reduceIte]; exact Le.refl _
                      · simp only [h125, ↓reduceIte]
                        have hm := pMemberG_le pc1 pc2 _ _ hpc ih
                        cases e1 : pMemberG pc1 (pValueG pc1 nc f) (c :: r') with
                        | none => exact Le.none _
                        | some p =>
                          obtain ⟨⟨key, v⟩, rest⟩ := p
                          rw [hm _ _ e1]; exact pMembersG_le _ _ hm _ _ _
                  · simp only [h7, ↓reduceIte]; exact Le.none _

/-- the grammar over the refusing string reader, numbers kept as literals: one JSON text in which no
string holds a surrogate pair escape -/
def parseTextX (bs : Bytes) : Spec.Doc :=
  match Spec.skipWs bs with
  | [] => .none
  | b :: r =>
    match pValueG pCharsX JV.num (bs.length + 1) (b :: r) with
    | some (v, rest) => if (Spec.skipWs rest).isEmpty then .one v else .bad
    | none => .bad

/-- **Without a surrogate pair escape the machine's reading is the RFC's.** If the refusing grammar
denotes `v` for a text, so do the specification (`Spec.parseText`) and the grammar over the
machine's string reader (`parseTextS`). -/
theorem pairfree_tree (bs : Bytes) (v : JV) (h : parseTextX bs = .one v) :
    Spec.parseText bs = .one v ∧ parseTextS bs = .one v := by
  unfold parseTextX at h
  unfold Spec.parseText parseTextS
  cases hsk : Spec.skipWs bs with
  | nil => rw [hsk] at h; simp at h
  | cons b r =>
    rw [hsk] at h
    simp only at h ⊢
    cases e : pValueG pCharsX JV.num (bs.length + 1) (b :: r) with
    | none => rw [e] at h; simp at h
    | some p =>
      obtain ⟨w, rest⟩ := p
      rw [e] at h
      simp only at h
      rw [pValue_eq_G, pValueG_le pCharsX Spec.pChars JV.num pCharsX_le_spec _ _ _ e,
        pValueG_le pCharsX pCharsM JV.num pCharsX_le_M _ _ _ e]
      exact ⟨h, h⟩

/-- blank texts are blank for all three -/
theorem pairfree_blank (bs : Bytes) (h : parseTextX bs = .none) :
    Spec.parseText bs = .none ∧ parseTextS bs = .none := by
  unfold parseTextX at h
  unfold Spec.parseText parseTextS
  cases hsk : Spec.skipWs bs with
  | nil => exact ⟨rfl, rfl⟩
  | cons b r =>
    rw [hsk] at h
    simp only at h
    cases e : pValueG pCharsX JV.num (bs.length + 1) (b :: r) with
    | none => rw [e] at h; simp at h
    | some p =>
      obtain ⟨w, rest⟩ := p
      rw [e] at h
      simp only at h
      split at h <;> simp at h

end OjgVerif.Json
