import OjgVerif.Json.Machine
import OjgVerif.Gen.Oj
import OjgVerif.Gen.GenPkg
/-! # The regenerated mode tables of `oj/maps.go` and `gen/maps.go` as `Tables`, and the readable
reference `expected` they are compared with (`TablesOK`). -/
namespace OjgVerif.Json
open OjgVerif

/-- the action-code constants of one package -/
structure Codes where
  skipChar : UInt8
  skipNewline : UInt8
  valNull : UInt8
  valTrue : UInt8
  valFalse : UInt8
  valNeg : UInt8
  val0 : UInt8
  valDigit : UInt8
  valQuote : UInt8
  openArray : UInt8
  openObject : UInt8
  closeArray : UInt8
  closeObject : UInt8
  afterComma : UInt8
  keyQuote : UInt8
  colonColon : UInt8
  numSpc : UInt8
  numNewline : UInt8
  numDot : UInt8
  numComma : UInt8
  numFrac : UInt8
  fracE : UInt8
  expSign : UInt8
  expDigit : UInt8
  strQuote : UInt8
  negDigit : UInt8
  strSlash : UInt8
  escOk : UInt8
  uOk : UInt8
  tokenOk : UInt8
  numDigit : UInt8
  numZero : UInt8
  strOk : UInt8
  escU : UInt8
  charErr : UInt8

/-- which `case` of the Go `switch` a table byte selects (first match, as `switch` does) -/
def Codes.decode (c : Codes) (x : UInt8) : Act :=
  if x = c.skipNewline then .skipNewline
  else if x = c.colonColon then .colonColon
  else if x = c.skipChar then .skipChar
  else if x = c.strOk then .strOk
  else if x = c.keyQuote then .keyQuote
  else if x = c.afterComma then .afterComma
  else if x = c.valQuote then .valQuote
  else if x = c.numComma then .numComma
  else if x = c.strSlash then .strSlash
  else if x = c.escOk then .escOk
  else if x = c.openObject then .openObject
  else if x = c.closeObject then .closeObject
  else if x = c.val0 then .val0
  else if x = c.valDigit then .valDigit
  else if x = c.valNeg then .valNeg
  else if x = c.escU then .escU
  else if x = c.openArray then .openArray
  else if x = c.closeArray then .closeArray
  else if x = c.valNull then .valNull
  else if x = c.valTrue then .valTrue
  else if x = c.valFalse then .valFalse
  else if x = c.numDot then .numDot
  else if x = c.numFrac then .numFrac
  else if x = c.fracE then .fracE
  else if x = c.strQuote then .strQuote
  else if x = c.numZero then .numZero
  else if x = c.numDigit then .numDigit
  else if x = c.negDigit then .negDigit
  else if x = c.numSpc then .numSpc
  else if x = c.numNewline then .numNewline
  else if x = c.expSign then .expSign
  else if x = c.expDigit then .expDigit
  else if x = c.uOk then .uOk
  else if x = c.tokenOk then .tokenOk
  else if x = c.charErr then .charErr
  else .unknown

def decodeFin (t : Array UInt8) : EndMark :=
  if t.size ≤ 256 then .absent
  else
    let x := t.getD 256 0
    if x = 118 then .v else if x = 97 then .a else if x = 110 then .n else if x = 115 then .s else .other

def mkTables (c : Codes) (tbl : Mode → Array UInt8) (esc : Array UInt8) : Tables where
  act m b := c.decode ((tbl m).getD b.toNat 0)
  fin m := decodeFin (tbl m)
  escByte b := esc.getD b.toNat 0

open OjgVerif.Gen in
def ojCodes : Codes where
  skipChar := Oj.skipChar
  skipNewline := Oj.skipNewline
  valNull := Oj.valNull
  valTrue := Oj.valTrue
  valFalse := Oj.valFalse
  valNeg := Oj.valNeg
  val0 := Oj.val0
  valDigit := Oj.valDigit
  valQuote := Oj.valQuote
  openArray := Oj.openArray
  openObject := Oj.openObject
  closeArray := Oj.closeArray
  closeObject := Oj.closeObject
  afterComma := Oj.afterComma
  keyQuote := Oj.keyQuote
  colonColon := Oj.colonColon
  numSpc := Oj.numSpc
  numNewline := Oj.numNewline
  numDot := Oj.numDot
  numComma := Oj.numComma
  numFrac := Oj.numFrac
  fracE := Oj.fracE
  expSign := Oj.expSign
  expDigit := Oj.expDigit
  strQuote := Oj.strQuote
  negDigit := Oj.negDigit
  strSlash := Oj.strSlash
  escOk := Oj.escOk
  uOk := Oj.uOk
  tokenOk := Oj.tokenOk
  numDigit := Oj.numDigit
  numZero := Oj.numZero
  strOk := Oj.strOk
  escU := Oj.escU
  charErr := Oj.charErr

open OjgVerif.Gen in
def ojTbl : Mode → Array UInt8
  | .value => Oj.valueMap | .null => Oj.nullMap | .true_ => Oj.trueMap | .false_ => Oj.falseMap
  | .comma => Oj.commaMap | .after => Oj.afterMap | .key1 => Oj.key1Map | .key => Oj.keyMap
  | .colon => Oj.colonMap | .neg => Oj.negMap | .zero => Oj.zeroMap | .digit => Oj.digitMap
  | .dot => Oj.dotMap | .frac => Oj.fracMap | .expSign => Oj.expSignMap | .expZero => Oj.expZeroMap
  | .exp => Oj.expMap | .string => Oj.stringMap | .esc => Oj.escMap | .u => Oj.uMap | .space => Oj.spaceMap

def ojTables : Tables := mkTables ojCodes ojTbl OjgVerif.Gen.Oj.escByteMap

open OjgVerif.Gen in
def genCodes : Codes where
  skipChar := GenPkg.skipChar
  skipNewline := GenPkg.skipNewline
  valNull := GenPkg.valNull
  valTrue := GenPkg.valTrue
  valFalse := GenPkg.valFalse
  valNeg := GenPkg.valNeg
  val0 := GenPkg.val0
  valDigit := GenPkg.valDigit
  valQuote := GenPkg.valQuote
  openArray := GenPkg.openArray
  openObject := GenPkg.openObject
  closeArray := GenPkg.closeArray
  closeObject := GenPkg.closeObject
  afterComma := GenPkg.afterComma
  keyQuote := GenPkg.keyQuote
  colonColon := GenPkg.colonColon
  numSpc := GenPkg.numSpc
  numNewline := GenPkg.numNewline
  numDot := GenPkg.numDot
  numComma := GenPkg.numComma
  numFrac := GenPkg.numFrac
  fracE := GenPkg.fracE
  expSign := GenPkg.expSign
  expDigit := GenPkg.expDigit
  strQuote := GenPkg.strQuote
  negDigit := GenPkg.negDigit
  strSlash := GenPkg.strSlash
  escOk := GenPkg.escOk
  uOk := GenPkg.uOk
  tokenOk := GenPkg.tokenOk
  numDigit := GenPkg.numDigit
  numZero := GenPkg.numZero
  strOk := GenPkg.strOk
  escU := GenPkg.escU
  charErr := GenPkg.charErr

open OjgVerif.Gen in
def genTbl : Mode → Array UInt8
  | .value => GenPkg.valueMap | .null => GenPkg.nullMap | .true_ => GenPkg.trueMap | .false_ => GenPkg.falseMap
  | .comma => GenPkg.commaMap | .after => GenPkg.afterMap | .key1 => GenPkg.key1Map | .key => GenPkg.keyMap
  | .colon => GenPkg.colonMap | .neg => GenPkg.negMap | .zero => GenPkg.zeroMap | .digit => GenPkg.digitMap
  | .dot => GenPkg.dotMap | .frac => GenPkg.fracMap | .expSign => GenPkg.expSignMap | .expZero => GenPkg.expZeroMap
  | .exp => GenPkg.expMap | .string => GenPkg.stringMap | .esc => GenPkg.escMap | .u => GenPkg.uMap | .space => GenPkg.spaceMap

def genTables : Tables := mkTables genCodes genTbl OjgVerif.Gen.GenPkg.escByteMap

/-! ## The reference: transitions as byte predicates (no tables) -/

def isWsNoNl (b : UInt8) : Bool := b = 32 || b = 9 || b = 13
def isDigit (b : UInt8) : Bool := 48 ≤ b && b ≤ 57
def isDigit19 (b : UInt8) : Bool := 49 ≤ b && b ≤ 57
def isHex (b : UInt8) : Bool := (48 ≤ b && b ≤ 57) || (97 ≤ b && b ≤ 102) || (65 ≤ b && b ≤ 70)
def isE (b : UInt8) : Bool := b = 101 || b = 69

/-- value-start classes shared by `value` and `comma` modes -/
def expectedValueStart (b : UInt8) : Act :=
  if isWsNoNl b then .skipChar
  else if b = 10 then .skipNewline
  else if b = 34 then .valQuote
  else if b = 45 then .valNeg
  else if b = 48 then .val0
  else if isDigit19 b then .valDigit
  else if b = 91 then .openArray
  else if b = 123 then .openObject
  else if b = 102 then .valFalse
  else if b = 110 then .valNull
  else if b = 116 then .valTrue
  else .charErr

/-- what ends a number: whitespace, newline, comma, closers -/
def expectedNumEnd (b : UInt8) : Act :=
  if isWsNoNl b then .numSpc
  else if b = 10 then .numNewline
  else if b = 44 then .numComma
  else if b = 93 then .closeArray
  else if b = 125 then .closeObject
  else .charErr

def expected (m : Mode) (b : UInt8) : Act :=
  match m with
  | .value =>
    if b = 93 then .closeArray          -- legal only directly after '[': enforced by the stack test
    else if b = 125 then .closeObject   -- never legal: the branch answers "unexpected object close"
    else expectedValueStart b
  | .comma => expectedValueStart b
  | .after =>
    if isWsNoNl b then .skipChar
    else if b = 10 then .skipNewline
    else if b = 44 then .afterComma
    else if b = 93 then .closeArray
    else if b = 125 then .closeObject
    else .charErr
  | .key1 =>
    if isWsNoNl b then .skipChar
    else if b = 10 then .skipNewline
    else if b = 34 then .keyQuote
    else if b = 125 then .closeObject
    else .charErr
  | .key =>
    if isWsNoNl b then .skipChar
    else if b = 10 then .skipNewline
    else if b = 34 then .keyQuote
    else .charErr
  | .colon =>
    if isWsNoNl b then .skipChar
    else if b = 10 then .skipNewline
    else if b = 58 then .colonColon
    else .charErr
  | .null => if b = 117 || b = 108 then .tokenOk else .charErr
  | .true_ => if b = 114 || b = 117 || b = 101 then .tokenOk else .charErr
  | .false_ => if b = 97 || b = 108 || b = 115 || b = 101 then .tokenOk else .charErr
  | .neg => if b = 48 then .numZero else if isDigit19 b then .negDigit else .charErr
  | .zero => if b = 46 then .numDot else if isE b then .fracE else expectedNumEnd b
  | .digit =>
    if isDigit b then .numDigit else if b = 46 then .numDot else if isE b then .fracE else expectedNumEnd b
  | .dot => if isDigit b then .numFrac else .charErr
  | .frac => if isDigit b then .numFrac else if isE b then .fracE else expectedNumEnd b
  | .expSign => if b = 43 || b = 45 then .expSign else if isDigit b then .expDigit else .charErr
  | .expZero => if isDigit b then .expDigit else .charErr
  | .exp => if isDigit b then .expDigit else expectedNumEnd b
  | .string =>
    if b = 34 then .strQuote else if b = 92 then .strSlash else if b < 32 then .charErr else .strOk
  | .esc =>
    if b = 34 || b = 47 || b = 92 || b = 98 || b = 102 || b = 110 || b = 114 || b = 116 then .escOk
    else if b = 117 then .escU
    else .charErr
  | .u => if isHex b then .uOk else .charErr
  | .space => if isWsNoNl b then .skipChar else if b = 10 then .skipNewline else .charErr

def expectedFin : Mode → EndMark
  | .value => .v
  | .after => .a
  | .zero | .digit | .frac | .exp => .n
  | .space => .s
  | _ => .absent

def unesc (b : UInt8) : UInt8 :=
  if b = 98 then 8 else if b = 102 then 12 else if b = 110 then 10 else if b = 114 then 13
  else if b = 116 then 9 else b

/-- the reference tables: the machine over them is the reference automaton `RA` -/
def refTables : Tables where
  act := expected
  fin := expectedFin
  escByte := unesc

/-- a table set agrees with the reference wherever the machine reads it. The `comma` end marker is
excluded: it is only read under `depth == 0`, which never holds in comma mode (see `Props.C01`). -/
structure TablesOK (T : Tables) : Prop where
  act : ∀ m b, T.act m b = expected m b
  fin : ∀ m, m ≠ .comma → T.fin m = expectedFin m
  finComma : T.fin .comma ≠ .a ∧ T.fin .comma ≠ .n ∧ T.fin .comma ≠ .v
  esc : ∀ b, expected .esc b = .escOk → T.escByte b = unesc b

/-- cells where a table set differs from the reference (diagnostics for the runner) -/
def tableDiffs (T : Tables) : List (Mode × Nat × Act × Act) :=
  Mode.all.flatMap fun m =>
    (List.range 256).filterMap fun i =>
      let b := UInt8.ofNat i
      if T.act m b = expected m b then none else some (m, i, T.act m b, expected m b)

def finDiffs (T : Tables) : List (Mode × EndMark × EndMark) :=
  Mode.all.filterMap fun m => if T.fin m = expectedFin m then none else some (m, T.fin m, expectedFin m)

end OjgVerif.Json
