import OjgVerif.Json.Machine
import OjgVerif.Gen.JsonSwitch
/-! Structural tie between the hand-written machine model and the four Go `switch x.mode[b]`
statements it was transcribed from. `Gen/JsonSwitch.lean` is regenerated from the Go source on every
run (tools/extract/jsonswitch.go): for every case clause its labels, the receiver fields assigned
anywhere in the clause and the receiver methods called in it.

* `stepAct_frame`: the model's branch for an action changes at most the fields `Act.touches` lists
  (a theorem about the model).
* `*_order`: the case labels of each Go switch, in source order, are the order `Codes.decode` assumes
  (first match wins, as in a Go switch).
* `*_no_dropped_write`: every field the model's branch changes is written (or handed to the method
  that writes it) in the Go case — a dropped reset or assignment breaks this.
* `*_no_stray_write`: the Go case writes nothing else, but for the listed scratch buffers. -/
namespace OjgVerif.Json
open OjgVerif

inductive Fld where
  | mode | nextMode | starts | stack | tmp | ri | rn | num | line | nl
  deriving DecidableEq, Repr

def Act.goName : Act → String
  | .skipChar => "skipChar" | .skipNewline => "skipNewline" | .valNull => "valNull" | .valTrue => "valTrue"
  | .valFalse => "valFalse" | .valNeg => "valNeg" | .val0 => "val0" | .valDigit => "valDigit"
  | .valQuote => "valQuote" | .openArray => "openArray" | .openObject => "openObject"
  | .closeArray => "closeArray" | .closeObject => "closeObject" | .afterComma => "afterComma"
  | .keyQuote => "keyQuote" | .colonColon => "colonColon" | .numSpc => "numSpc" | .numNewline => "numNewline"
  | .numDot => "numDot" | .numComma => "numComma" | .numFrac => "numFrac" | .fracE => "fracE"
  | .expSign => "expSign" | .expDigit => "expDigit" | .strQuote => "strQuote" | .negDigit => "negDigit"
  | .strSlash => "strSlash" | .escOk => "escOk" | .uOk => "uOk" | .tokenOk => "tokenOk"
  | .numDigit => "numDigit" | .numZero => "numZero" | .strOk => "strOk" | .escU => "escU"
  | .charErr => "charErr" | .unknown => "unknown"

/-- the order in which `Codes.decode` tests the codes = the order of the `case`s it stands for -/
def decodeOrder : List Act :=
  [.skipNewline, .colonColon, .skipChar, .strOk, .keyQuote, .afterComma, .valQuote, .numComma, .strSlash,
   .escOk, .openObject, .closeObject, .val0, .valDigit, .valNeg, .escU, .openArray, .closeArray, .valNull,
   .valTrue, .valFalse, .numDot, .numFrac, .fracE, .strQuote, .numZero, .numDigit, .negDigit, .numSpc,
   .numNewline, .expSign, .expDigit, .uOk, .tokenOk, .charErr]

/-- the fields of the state the model's branch for an action may change (`pos`, `docs` and the
fast-loop flag are handled outside the switch) -/
def Act.touches : Act → List Fld
  | .skipNewline => [.line, .nl]
  | .colonColon => [.mode]
  | .skipChar => []
  | .strOk => [.tmp]
  | .keyQuote => [.tmp, .mode, .nextMode]
  | .afterComma => [.mode]
  | .valQuote => [.tmp, .mode, .nextMode]
  | .numComma => [.stack, .mode]
  | .strSlash => [.mode]
  | .escOk => [.tmp, .mode]
  | .openObject => [.starts, .mode, .stack]
  | .closeObject => [.stack, .starts, .mode]
  | .val0 => [.mode, .num]
  | .valDigit => [.mode, .num]
  | .valNeg => [.mode, .num]
  | .escU => [.mode, .rn, .ri]
  | .openArray => [.starts, .stack, .mode]
  | .closeArray => [.stack, .starts, .mode]
  | .valNull => [.mode, .ri]
  | .valTrue => [.mode, .ri]
  | .valFalse => [.mode, .ri]
  | .numDot => [.num, .mode]
  | .numFrac => [.num, .mode]
  | .fracE => [.num, .mode]
  | .strQuote => [.mode, .stack]
  | .numZero => [.mode]
  | .numDigit => [.num]
  | .negDigit => [.num, .mode]
  | .numSpc => [.stack, .mode]
  | .numNewline => [.stack, .line, .nl, .mode]
  | .expSign => [.mode, .num]
  | .expDigit => [.num, .mode]
  | .uOk => [.ri, .rn, .tmp, .mode]
  | .tokenOk => [.ri, .mode, .stack]
  | .charErr => []
  | .unknown => []

/-- what a state keeps when only the fields in `t` may change -/
def Keeps (t : List Fld) (s s' : St) : Prop :=
  (Fld.mode ∉ t → s'.mode = s.mode) ∧ (Fld.nextMode ∉ t → s'.nextMode = s.nextMode) ∧
  (Fld.starts ∉ t → s'.starts = s.starts) ∧ (Fld.stack ∉ t → s'.stack = s.stack) ∧
  (Fld.tmp ∉ t → s'.tmp = s.tmp) ∧ (Fld.ri ∉ t → s'.ri = s.ri) ∧ (Fld.rn ∉ t → s'.rn = s.rn) ∧
  (Fld.num ∉ t → s'.num = s.num) ∧ (Fld.line ∉ t → s'.line = s.line) ∧ (Fld.nl ∉ t → s'.nl = s.nl) ∧
  s'.docs = s.docs ∧ s'.pos = s.pos

theorem Keeps.refl (t : List Fld) (s : St) : Keeps t s s :=
  ⟨fun _ => rfl, fun _ => rfl, fun _ => rfl, fun _ => rfl, fun _ => rfl, fun _ => rfl, fun _ => rfl,
   fun _ => rfl, fun _ => rfl, fun _ => rfl, rfl, rfl⟩

theorem St.add_keeps {s s' : St} {v : JV} (h : s.add v = .ok s') : s' = { s with stack := s'.stack } := by
  unfold St.add at h
  cases ha : addItem v s.stack with
  | error w => rw [ha] at h; cases h
  | ok st => rw [ha] at h; cases h; rfl


theorem keeps_of_add {t : List Fld} {s0 s s' : St} {v : JV} (hk : Keeps t s0 s) (hst : Fld.stack ∈ t)
    (h : s.add v = .ok s') : Keeps t s0 s' := by
  have e := St.add_keeps h
  obtain ⟨k1, k2, k3, k4, k5, k6, k7, k8, k9, k10, k11, k12⟩ := hk
  rw [e]
  exact ⟨k1, k2, k3, fun hn => absurd hst hn, k5, k6, k7, k8, k9, k10, k11, k12⟩

theorem keeps_mono {t : List Fld} {s0 s : St} (f : St → St) (hk : Keeps t s0 s)
    (hf : Keeps t s (f s)) : Keeps t s0 (f s) := by
  obtain ⟨k1, k2, k3, k4, k5, k6, k7, k8, k9, k10, k11, k12⟩ := hk
  obtain ⟨f1, f2, f3, f4, f5, f6, f7, f8, f9, f10, f11, f12⟩ := hf
  exact ⟨fun h => (f1 h).trans (k1 h), fun h => (f2 h).trans (k2 h), fun h => (f3 h).trans (k3 h),
    fun h => (f4 h).trans (k4 h), fun h => (f5 h).trans (k5 h), fun h => (f6 h).trans (k6 h),
    fun h => (f7 h).trans (k7 h), fun h => (f8 h).trans (k8 h), fun h => (f9 h).trans (k9 h),
    fun h => (f10 h).trans (k10 h), f11.trans k11, f12.trans k12⟩

theorem stepToken_keeps (T : Tables) (s s' : St) (b : UInt8) (h : stepToken T s b = .ok s') :
    Keeps [.ri, .mode, .stack] s s' := by
  unfold stepToken at h
  have hadd : ∀ (m : Mode) (v : JV) (x : St), ({ s with ri := s.ri + 1, mode := m } : St).add v = .ok x →
      Keeps [.ri, .mode, .stack] s x := by
    intro m v x hx
    refine keeps_of_add (s := ({ s with ri := s.ri + 1, mode := m } : St)) ?_ (by simp) hx
    simp [Keeps]
  have hok : Keeps [.ri, .mode, .stack] s ({ s with ri := s.ri + 1 } : St) := by simp [Keeps]
  simp only at h
  split at h
  · split at h
    · split at h
      · exact hadd _ _ _ h
      · cases h; exact hok
    · cases h
  · split at h
    · split at h
      · split at h
        · exact hadd _ _ _ h
        · cases h; exact hok
      · cases h
    · split at h
      · split at h
        · split at h
          · exact hadd _ _ _ h
          · cases h; exact hok
        · cases h
      · cases h; exact Keeps.refl _ _

theorem popObj_keeps {s s' : St} {rest : List Bool} (h : s.popObj rest = .ok s') :
    Keeps [.stack, .starts, .mode] s s' := by
  unfold St.popObj at h
  cases hs : s.stack with
  | nil => rw [hs] at h; cases h
  | cons top below =>
    rw [hs] at h
    refine keeps_of_add (s := ({ s with starts := rest, stack := below } : St)) ?_ (by simp) h
    simp [Keeps]

theorem popArr_keeps {s s' : St} {rest : List Bool} (h : s.popArr rest = .ok s') :
    Keeps [.stack, .starts, .mode] s s' := by
  unfold St.popArr at h
  cases hs : splitAtMark s.stack [] with
  | none => rw [hs] at h; cases h
  | some p =>
    rw [hs] at h
    refine keeps_of_add (s := ({ s with starts := rest, stack := p.2 } : St)) ?_ (by simp) h
    simp [Keeps]

theorem flushNum_keeps (T : Tables) {s s' : St} (h : s.flushNum T = .ok s') :
    Keeps [.stack, .starts, .mode] s s' := by
  unfold St.flushNum at h
  split at h
  · exact keeps_of_add (Keeps.refl _ s) (by simp) h
  · cases h; exact Keeps.refl _ _

/-- **Frame of the model.** The branch of the action switch taken on a byte changes at most the
fields listed for that action. -/
theorem stepAct_frame (T : Tables) (cfg : Cfg) (s s' : St) (b : UInt8) (c : Bool)
    (h : stepAct T cfg s b = .ok (s', c)) : Keeps (T.act s.mode b).touches s s' := by
  unfold stepAct at h
  cases hact : T.act s.mode b <;> rw [hact] at h <;> simp only [Act.touches] at h ⊢
  case numComma =>
    simp only [bind, Except.bind] at h
    cases ha : s.addNum with
    | error e => rw [ha] at h; cases h
    | ok s1 =>
      rw [ha] at h
      have k1 : Keeps [.stack, .mode] s s1 := keeps_of_add (Keeps.refl _ s) (by simp) ha
      simp only at h
      split at h
      · cases h
      · simp only [pure, Except.pure, Except.ok.injEq, Prod.mk.injEq] at h
        rw [← h.1]
        exact keeps_mono (fun x => { x with mode := afterCommaMode x }) k1 (by simp [Keeps])
  case closeObject =>
    split at h
    · split at h
      · cases h
      · simp only [bind, Except.bind] at h
        cases h1 : s.flushNum T with
        | error e => rw [h1] at h; cases h
        | ok s1 =>
          rw [h1] at h
          simp only at h
          rename_i rest _ _
          cases h2 : s1.popObj rest with
          | error e => rw [h2] at h; cases h
          | ok s2 =>
            rw [h2] at h
            simp only [pure, Except.pure, Except.ok.injEq, Prod.mk.injEq] at h
            rw [← h.1]
            have k := keeps_mono (fun x => x) (flushNum_keeps T h1) (Keeps.refl _ s1)
            have k2 : Keeps [.stack, .starts, .mode] s s2 := by
              obtain ⟨a1, a2, a3, a4, a5, a6, a7, a8, a9, a10, a11, a12⟩ := flushNum_keeps T h1
              obtain ⟨b1, b2, b3, b4, b5, b6, b7, b8, b9, b10, b11, b12⟩ := popObj_keeps h2
              exact ⟨fun h => (b1 h).trans (a1 h), fun h => (b2 h).trans (a2 h), fun h => (b3 h).trans (a3 h),
                fun h => (b4 h).trans (a4 h), fun h => (b5 h).trans (a5 h), fun h => (b6 h).trans (a6 h),
                fun h => (b7 h).trans (a7 h), fun h => (b8 h).trans (a8 h), fun h => (b9 h).trans (a9 h),
                fun h => (b10 h).trans (a10 h), b11.trans a11, b12.trans a12⟩
            exact keeps_mono (fun x => { x with mode := Mode.after }) k2 (by simp [Keeps])
    · cases h
  case closeArray =>
    split at h
    · simp only [bind, Except.bind] at h
      cases h1 : s.flushNum T with
      | error e => rw [h1] at h; cases h
      | ok s1 =>
        rw [h1] at h
        simp only at h
        rename_i rest _
        cases h2 : s1.popArr rest with
        | error e => rw [h2] at h; cases h
        | ok s2 =>
          rw [h2] at h
          simp only [pure, Except.pure, Except.ok.injEq, Prod.mk.injEq] at h
          rw [← h.1]
          have k2 : Keeps [.stack, .starts, .mode] s s2 := by
            obtain ⟨a1, a2, a3, a4, a5, a6, a7, a8, a9, a10, a11, a12⟩ := flushNum_keeps T h1
            obtain ⟨b1, b2, b3, b4, b5, b6, b7, b8, b9, b10, b11, b12⟩ := popArr_keeps h2
            exact ⟨fun h => (b1 h).trans (a1 h), fun h => (b2 h).trans (a2 h), fun h => (b3 h).trans (a3 h),
              fun h => (b4 h).trans (a4 h), fun h => (b5 h).trans (a5 h), fun h => (b6 h).trans (a6 h),
              fun h => (b7 h).trans (a7 h), fun h => (b8 h).trans (a8 h), fun h => (b9 h).trans (a9 h),
              fun h => (b10 h).trans (a10 h), b11.trans a11, b12.trans a12⟩
          exact keeps_mono (fun x => { x with mode := Mode.after }) k2 (by simp [Keeps])
    · cases h
  case strQuote =>
    split at h
    · cases h; simp [Keeps]
    · simp only [bind, Except.bind] at h
      cases ha : ({ s with mode := s.nextMode } : St).add (.str s.tmp.reverse) with
      | error e => rw [ha] at h; cases h
      | ok s1 =>
        rw [ha] at h
        simp only [pure, Except.pure, Except.ok.injEq, Prod.mk.injEq] at h
        rw [← h.1]
        exact keeps_of_add (s := ({ s with mode := s.nextMode } : St)) (by simp [Keeps]) (by simp) ha
  case numSpc =>
    simp only [bind, Except.bind] at h
    cases ha : s.addNum with
    | error e => rw [ha] at h; cases h
    | ok s1 =>
      rw [ha] at h
      simp only [pure, Except.pure, Except.ok.injEq, Prod.mk.injEq] at h
      rw [← h.1]
      have k1 : Keeps [.stack, .mode] s s1 := keeps_of_add (Keeps.refl _ s) (by simp) ha
      exact keeps_mono (fun x => { x with mode := Mode.after }) k1 (by simp [Keeps])
  case numNewline =>
    simp only [bind, Except.bind] at h
    cases ha : s.addNum with
    | error e => rw [ha] at h; cases h
    | ok s1 =>
      rw [ha] at h
      simp only [pure, Except.pure, Except.ok.injEq, Prod.mk.injEq] at h
      rw [← h.1]
      have k1 : Keeps [.stack, .line, .nl, .mode] s s1 := keeps_of_add (Keeps.refl _ s) (by simp) ha
      exact keeps_mono (fun x => { x with line := x.line + 1, nl := x.pos, mode := Mode.after }) k1 (by simp [Keeps])
  case tokenOk =>
    simp only [bind, Except.bind] at h
    cases ha : stepToken T s b with
    | error e => rw [ha] at h; cases h
    | ok s1 =>
      rw [ha] at h
      simp only [pure, Except.pure, Except.ok.injEq, Prod.mk.injEq] at h
      rw [← h.1]
      exact stepToken_keeps T s s1 b ha
  case charErr => cases h
  all_goals (
    simp only [Except.ok.injEq, Prod.mk.injEq] at h
    rw [← h.1]
    simp [Keeps])


/-! ## The Go switches against the model -/

open Gen.JsonSwitch in
/-- labels of a switch in source order -/
def labelsOf (cs : List Gen.JsonSwitch.Case) : List String := cs.flatMap (·.labels)

inductive Machine where
  | parser      -- oj.Parser, gen.Parser: build values on `stack` through `add`
  | tokenizer   -- oj.Tokenizer: no build stack, values go to the handler
  | validator   -- oj.Validator: no values; its `stack` is the container stack
  deriving DecidableEq

/-- what counts, in a Go case clause, as carrying out the model's change of a field: an assignment to
one of `writes`, or a call of one of `calls` on the receiver; `none`: the machine has no such state -/
def evidence : Machine → Fld → Option (List String × List String)
  | _, .mode => some (["mode"], [])
  | _, .nextMode => some (["nextMode"], [])
  | _, .ri => some (["ri"], [])
  | _, .line => some (["line"], [])
  | _, .nl => some (["noff"], [])
  | .parser, .starts => some (["starts"], [])
  | .parser, .stack => some (["stack"], ["add"])
  | .parser, .tmp => some (["tmp"], [])
  | .parser, .rn => some (["rn"], [])
  | .parser, .num => some (["num"], ["num"])
  | .tokenizer, .starts => some (["starts"], [])
  | .tokenizer, .stack => some ([], ["handler", "handleNum"])
  | .tokenizer, .tmp => some (["tmp"], [])
  | .tokenizer, .rn => some (["rn"], [])
  | .tokenizer, .num => some (["num"], ["num"])
  | .validator, .starts => some (["stack"], [])
  | .validator, .stack => none
  | .validator, .tmp => none
  | .validator, .rn => none
  | .validator, .num => none

def Act.ofName (n : String) : Option Act := decodeOrder.find? (fun a => a.goName == n)

/-- no dropped write: every field the model's branch changes is written, or handed to the method
that writes it, in the Go case -/
def caseCovers (m : Machine) (c : Gen.JsonSwitch.Case) : Bool :=
  c.labels.all fun l =>
    match Act.ofName l with
    | none => false
    | some a => a.touches.all fun f =>
      match evidence m f with
      | none => true
      | some (ws, ks) => c.writes.any (fun w => ws.contains w) || c.calls.any (fun k => ks.contains k)

/-- scratch buffers and fast-path extras a Go case may write beyond the model's fields -/
def extraWrites (m : Machine) (a : Act) : List String :=
  match m, a with
  | .parser, .openObject => ["maps", "mi"]      -- reuse cache of map values
  | .parser, .keyQuote => ["stack"]             -- fast path: the whole key is in the buffer
  | .parser, .uOk => ["runeBytes"]
  | .tokenizer, .uOk => ["runeBytes"]
  | _, _ => []

/-- no stray write: the Go case assigns only fields the model's branch changes, and the extras -/
def caseWithin (m : Machine) (c : Gen.JsonSwitch.Case) : Bool :=
  c.labels.all fun l =>
    match Act.ofName l with
    | none => false
    | some a => c.writes.all fun w =>
      (extraWrites m a).contains w ||
      a.touches.any fun f =>
        match evidence m f with
        | none => false
        | some (ws, _) => ws.contains w

theorem ojParser_order : labelsOf Gen.JsonSwitch.ojParser = decodeOrder.map Act.goName := by decide
theorem ojValidator_order : labelsOf Gen.JsonSwitch.ojValidator = decodeOrder.map Act.goName := by decide
theorem ojTokenizer_order : labelsOf Gen.JsonSwitch.ojTokenizer = decodeOrder.map Act.goName := by decide
theorem genParser_order : labelsOf Gen.JsonSwitch.genParser = decodeOrder.map Act.goName := by decide

theorem ojParser_no_dropped_write : Gen.JsonSwitch.ojParser.all (caseCovers .parser) = true := by decide
theorem genParser_no_dropped_write : Gen.JsonSwitch.genParser.all (caseCovers .parser) = true := by decide
theorem ojTokenizer_no_dropped_write : Gen.JsonSwitch.ojTokenizer.all (caseCovers .tokenizer) = true := by decide
theorem ojValidator_no_dropped_write : Gen.JsonSwitch.ojValidator.all (caseCovers .validator) = true := by decide

theorem ojParser_no_stray_write : Gen.JsonSwitch.ojParser.all (caseWithin .parser) = true := by decide
theorem genParser_no_stray_write : Gen.JsonSwitch.genParser.all (caseWithin .parser) = true := by decide
theorem ojTokenizer_no_stray_write : Gen.JsonSwitch.ojTokenizer.all (caseWithin .tokenizer) = true := by decide
theorem ojValidator_no_stray_write : Gen.JsonSwitch.ojValidator.all (caseWithin .validator) = true := by decide

end OjgVerif.Json
