import OjgVerif.Json.BufVal
/-! # The tokenizer's buffer loop is the byte machine -/
namespace OjgVerif.Json
open OjgVerif

variable {T : Tables} (hT : TablesOK T) (cfg : Cfg)

include hT in
theorem step_numDigit_slow (m : St) (c : UInt8) (hm : m.mode = .digit) (hf : m.inFast = false)
    (h : T.act .digit c = .numDigit) :
    step T cfg m c = .ok { m with num := m.num.addDigit c, pos := m.pos + 1, inFast := false } := by
  have hfin : T.fin .digit ≠ .a := by rw [hT.fin .digit (by decide)]; decide
  unfold step stepAct
  simp only [hm, h, hf, Bool.false_eq_true, ↓reduceIte, Bool.false_and]
  rw [deliver_id_of T cfg _ (by simp only [hm]; exact hfin)]

theorem St.eta_num3 (m : St) (n : Num) (hn : m.num = n) (hf : m.inFast = false) :
    ({ m with num := n, pos := m.pos + 0, inFast := false } : St) = m := by
  obtain ⟨_, _, _, _, _, _, _, _, _, _, _, _, _⟩ := m
  simp only at hn hf; subst hn hf; rfl

include hT in
/-- the tokenizer's integer loop is the byte machine's `AddDigit` over the digits it consumes -/
theorem intRunT (l : Bytes) : ∀ (j : Nat) (n : Num) (acc : Nat × UInt8) (m : St),
    m.mode = .digit → m.inFast = false → m.num = n → n.big = [] →
    ∃ (pre rest : Bytes), l = pre ++ rest ∧
      runBytes T cfg m pre = .ok { m with num := (intLoopT T l j n acc).1, pos := m.pos + pre.length, inFast := false } ∧
      (l ≠ [] → j + pre.length = (intLoopT T l j n acc).2.1 +
          (if T.act .digit (intLoopT T l j n acc).2.2 = .numDigit then 1 else 0)) ∧
      (l = [] → (intLoopT T l j n acc).2 = acc) ∧
      ((intLoopT T l j n acc).1.big = [] →
        (intLoopT T l j n acc).1.frac = n.frac ∧ (intLoopT T l j n acc).1.div = n.div) := by
  induction l with
  | nil =>
    intro j n acc m hm hf hn hb
    refine ⟨[], [], rfl, ?_, fun h => absurd rfl h, fun _ => rfl, fun _ => ⟨rfl, rfl⟩⟩
    simp only [runBytes, intLoopT, List.length_nil]
    exact congrArg Except.ok (St.eta_num3 m n hn hf).symm
  | cons c r ih =>
    intro j n acc m hm hf hn hb
    unfold intLoopT
    by_cases hd : T.act .digit c = .numDigit
    · simp only [hd, ↓reduceIte]
      have hdig : isDigitB c := numDigit_isDigit .digit c (by rw [← hT.act]; exact hd)
      have hstep := step_numDigit_slow hT cfg m c hm hf hd
      rw [hn] at hstep
      -- the state after this digit, whichever branch computed it
      have hrec : ∀ (n' : Num), n' = n.addDigit c → n'.big = [] →
          ∃ (pre rest : Bytes), c :: r = pre ++ rest ∧
            runBytes T cfg m pre = .ok { m with num := (intLoopT T r (j + 1) n' (j, c)).1, pos := m.pos + pre.length, inFast := false } ∧
            (j + pre.length = (intLoopT T r (j + 1) n' (j, c)).2.1 +
              (if T.act .digit (intLoopT T r (j + 1) n' (j, c)).2.2 = .numDigit then 1 else 0)) ∧
            ((intLoopT T r (j + 1) n' (j, c)).1.big = [] →
              (intLoopT T r (j + 1) n' (j, c)).1.frac = n.frac ∧ (intLoopT T r (j + 1) n' (j, c)).1.div = n.div) := by
        intro n' hn' hb'
        obtain ⟨pre, rest, hsplit, hrun, hoff, hnil, hkeep⟩ :=
          ih (j + 1) n' (j, c) ({ m with num := n', pos := m.pos + 1, inFast := false } : St) hm rfl rfl hb'
        refine ⟨c :: pre, rest, by rw [hsplit]; rfl, ?_, ?_, ?_⟩
        · simp only [runBytes]
          rw [hstep, ← hn']
          simp only
          rw [hrun]
          simp only [List.length_cons, Except.ok.injEq, St.mk.injEq, true_and, and_true]
          omega
        · by_cases hr : r = []
          · subst hr
            have hp : pre = [] := by
              cases pre with
              | nil => rfl
              | cons x xs => simp at hsplit
            subst hp
            rw [hnil rfl]
            simp only [hd, ↓reduceIte, List.length_cons, List.length_nil]
          · have := hoff hr
            simp only [List.length_cons]
            omega
        · intro hz
          have h1 := hkeep hz
          have h2 := addDigit_keeps n c (by rw [← hn']; exact hb')
          rw [← hn'] at h2
          exact ⟨h1.1.trans h2.1, h1.2.trans h2.2⟩
      by_cases hl : BigLimit ≤ n.i
      · simp only [hl, ↓reduceIte]
        by_cases hbig : 0 < (n.addDigit c).big.length
        · simp only [hbig, ↓reduceIte]
          refine ⟨[c], r, rfl, ?_, fun _ => ?_, (fun h => (by cases h)), fun hz => ?_⟩
          · simp only [runBytes]
            rw [hstep]
            simp only [List.length_cons, List.length_nil, Nat.zero_add]
          · simp only [hd, ↓reduceIte, List.length_cons, List.length_nil]
          · rw [hz] at hbig; simp at hbig
        · simp only [hbig, ↓reduceIte]
          have hb' : (n.addDigit c).big = [] := by
            cases hx : (n.addDigit c).big with
            | nil => rfl
            | cons x xs => rw [hx] at hbig; simp at hbig
          obtain ⟨pre, rest, h1, h2, h3, h4⟩ := hrec (n.addDigit c) rfl hb'
          exact ⟨pre, rest, h1, h2, fun _ => h3, (fun h => (by cases h)), h4⟩
      · simp only [hl, ↓reduceIte]
        have hne : n.i ≠ BigLimit := by
          intro h; apply hl; rw [h]; exact UInt64.le_refl _
        have heq := fast_digit_eq_slow n c hb hne hdig
        simp only [hl, ↓reduceIte] at heq
        obtain ⟨pre, rest, h1, h2, h3, h4⟩ := hrec { n with i := n.i * 10 + (c - 48).toUInt64 } heq (by exact hb)
        exact ⟨pre, rest, h1, h2, fun _ => h3, (fun h => (by cases h)), h4⟩
    · simp only [hd, ↓reduceIte]
      refine ⟨[], c :: r, rfl, ?_, fun _ => ?_, (fun h => (by cases h)), fun _ => ⟨trivial, trivial⟩⟩
      · simp only [runBytes, List.length_nil]
        exact congrArg Except.ok (St.eta_num3 m n hn hf).symm
      · simp only [hd, ↓reduceIte, List.length_nil]


include hT in
theorem step_valDigit_slow (hfi : cfg.fastInt = false) (m : St) (b : UInt8) (h : T.act m.mode b = .valDigit) :
    step T cfg m b = .ok { m with mode := .digit, num := { m.num.reset with i := (b - 48).toUInt64 },
                                  inFast := false, pos := m.pos + 1 } := by
  rw [step_valDigit hT cfg m b h, hfi]

include hT in
/-- **the tokenizer's integer loop** -/
theorem iter_intT (hfi : cfg.fastInt = false) (buf : Bytes) (s m : St)
    (off i : Nat) (b : UInt8) (hb : buf[off]? = some b) (hrel : Rel s m)
    (hact : T.act s.mode b = .valDigit) :
    IterOK T cfg buf m off (wrapIter T cfg buf off (caseDigitT T buf s off i b)) := by
  obtain ⟨hdrop, hl⟩ := drop_of_getElem? buf off b hb
  obtain ⟨emode, -, -, -, enum, -, epos, -⟩ := nf_fields hrel.nf
  have hactm : T.act m.mode b = .valDigit := by rw [← emode]; exact hact
  have hbd : T.act .digit b = .numDigit := by
    rw [hT.act] at hact ⊢; exact valDigit_is_digit _ _ hact
  have hfin : T.fin .digit ≠ .a := by rw [hT.fin .digit (by decide)]; decide
  have hstep := step_valDigit_slow hT cfg hfi m b hactm
  obtain ⟨pre, rest, hsplit, hrun, hoff, hnil, hkeep⟩ :=
    intRunT hT cfg (buf.drop (off + 1)) 0 { m.num.reset with i := (b - 48).toUInt64 } (i, b)
      ({ m with mode := .digit, num := { m.num.reset with i := (b - 48).toUInt64 }, inFast := false, pos := m.pos + 1 } : St)
      rfl rfl rfl rfl
  have hrunm : runBytes T cfg m (buf.drop off) = runBytes T cfg
      ({ m with mode := .digit, num := (intLoopT T (buf.drop (off + 1)) 0 { m.num.reset with i := (b - 48).toUInt64 } (i, b)).1,
                pos := m.pos + 1 + pre.length, inFast := false } : St) rest := by
    rw [hdrop]
    conv => lhs; unfold runBytes
    rw [hstep]
    simp only
    conv => lhs; rw [hsplit]
    rw [C03.runBytes_append, hrun]
  unfold caseDigitT
  simp only [sliceOf_tail buf off hl]
  have hreset : s.num.reset = m.num.reset := rfl
  rw [hreset]
  generalize hR : intLoopT T (buf.drop (off + 1)) 0 { m.num.reset with i := (b - 48).toUInt64 } (i, b) = R at *
  simp only [wrapIter, Bool.false_eq_true, ↓reduceIte]
  rw [deliver_id_of T cfg _ (by simp only; exact hfin)]
  simp only [IterOK]
  have hnm : NumInv ({ m with mode := .digit, num := R.1, pos := m.pos + 1 + pre.length, inFast := false } : St) := by
    intro _ hb0
    have := hkeep hb0
    exact ⟨this.1, this.2⟩
  by_cases hsl : buf.drop (off + 1) = []
  · have hacc := hnil hsl
    have hp : pre = [] ∧ rest = [] := by
      rw [hsl] at hsplit
      cases pre with
      | nil => exact ⟨rfl, by simpa using hsplit.symm⟩
      | cons x xs => simp at hsplit
    obtain ⟨hp1, hp2⟩ := hp
    subst hp1 hp2
    have hlen : buf.length ≤ off + 1 := List.drop_eq_nil_iff.mp hsl
    have hR21 : R.2.1 = i := by rw [hacc]
    have hR22 : R.2.2 = b := by rw [hacc]
    simp only [hR21, hR22, hbd, ↓reduceIte]
    have hmin : min (off + 1 + i + 1) buf.length - off = 1 := by omega
    refine ⟨by omega, ({ m with mode := .digit, num := R.1, pos := m.pos + 1 + ([] : Bytes).length, inFast := false } : St),
      hrunm.trans (by rw [drop_nil_of_le buf (off + 1 + i + 1) (by omega)]), ⟨?_, hrel.flag, hrel.ns, hrel.nm⟩, ?_, fun _ => hnm⟩
    · simp only [hmin, List.length_nil, Nat.add_zero]
      rw [← epos]
      exact nf_set_num hrel.nf .digit rfl rfl rfl _ _ _ _
    · intro hf; cases hf
  · have hk := hoff hsl
    simp only [Nat.zero_add] at hk
    have hlenk : off + 1 + pre.length + rest.length = buf.length := by
      have h2 := congrArg List.length hsplit
      simp only [List.length_drop, List.length_append] at h2
      have h3 : off + 1 < buf.length := by
        rcases Nat.lt_or_ge (off + 1) buf.length with h | h
        · exact h
        · exact absurd (List.drop_eq_nil_iff.mpr h) hsl
      omega
    have hdr : buf.drop (off + 1 + pre.length) = rest := by
      rw [← List.drop_drop, hsplit, List.drop_left]
    have hoff2 : (if T.act .digit R.2.2 = .numDigit then off + 1 else off) + R.2.1 + 1 = off + 1 + pre.length := by
      by_cases hD : T.act .digit R.2.2 = .numDigit
      · simp only [hD, ↓reduceIte] at hk ⊢; omega
      · simp only [hD, ↓reduceIte] at hk ⊢; omega
    rw [hoff2]
    have hmin : min (off + 1 + pre.length) buf.length - off = pre.length + 1 := by omega
    refine ⟨by omega, ({ m with mode := .digit, num := R.1, pos := m.pos + 1 + pre.length, inFast := false } : St),
      hrunm.trans (by rw [hdr]), ⟨?_, hrel.flag, hrel.ns, hrel.nm⟩, ?_, fun _ => hnm⟩
    · simp only [hmin]
      rw [show m.pos + 1 + pre.length = s.pos + (pre.length + 1) by omega]
      exact nf_set_num hrel.nf .digit rfl rfl rfl _ _ _ _
    · intro hf; cases hf

include hT in
theorem iter_specT (hfi : cfg.fastInt = false) (buf : Bytes) (s m : St) (off i : Nat) (b : UInt8)
    (hb : buf[off]? = some b) (hrel : Rel s m) (hside : Side T buf m off) (hinv : NumInv m) :
    IterOK T cfg buf m off (iterBufT T cfg buf s off i b) := by
  have hfp : cfg.fastInt = fpT.int := hfi
  unfold iterBufT
  cases hact : T.act s.mode b
  case valDigit => exact iter_intT hT cfg hfi buf s m off i b hb hrel hact
  all_goals exact iter_spec hT cfg fpT hfp buf s m off i b hb hrel hside hinv

include hT in
/-- **`runBufT_eq_fold`**: one call of `tokenizeBuffer` on one buffer is the fold of `step` over it -/
theorem runBufT_eq_fold (hfi : cfg.fastInt = false) (s m : St) (buf : Bytes)
    (hrel : Rel s m) (hflag : m.inFast = false) (hinv : NumInv m) :
    Sim2 (runBufT T cfg s buf) (runBytes T cfg m buf) := by
  have := loopG_sim T cfg buf (iterBufT T cfg buf)
    (fun s m off i b hb hr hs hi => iter_specT hT cfg hfi buf s m off i b hb hr hs hi)
    buf.length 0 s m 0 (by omega) hrel (side_of_flag T buf m 0 hflag) hinv
  simpa [runBufT] using this

include hT in
theorem chunksG_sim (rb : St → Bytes → Except Err St)
    (hrb : ∀ (s m : St) (buf : Bytes), Rel s m → m.inFast = false → NumInv m → Sim2 (rb s buf) (runBytes T cfg m buf))
    (cs : List Bytes) : ∀ (s m : St), Rel s m → m.inFast = false → NumInv m →
    Sim2 (runChunksG rb s cs) (runChunks T cfg m cs) := by
  induction cs with
  | nil => intro s m hrel _ _; exact hrel
  | cons c rest ih =>
    intro s m hrel hflag hinv
    unfold runChunksG runChunks
    have h1 := hrb s m c hrel hflag hinv
    cases hx : rb s c with
    | error e =>
      cases hy : runBytes T cfg m c with
      | error e' => rw [hx, hy] at h1; exact h1
      | ok m' => rw [hx, hy] at h1; exact h1.elim
    | ok s' =>
      cases hy : runBytes T cfg m c with
      | error e' => rw [hx, hy] at h1; exact h1.elim
      | ok m' =>
        rw [hx, hy] at h1
        simp only
        have hinv' := runBytes_inv hT cfg c m m' hy hrel.nm hinv
        have hrel' : Rel s' ({ m' with inFast := false } : St) :=
          ⟨h1.nf, h1.flag, h1.ns, h1.nm⟩
        exact ih s' _ hrel' rfl (numInv_same rfl rfl hinv'.2)

include hT in
theorem runG_eq_run (rb : St → Bytes → Except Err St)
    (hrb : ∀ (s m : St) (buf : Bytes), Rel s m → m.inFast = false → NumInv m → Sim2 (rb s buf) (runBytes T cfg m buf))
    (chunks : List Bytes) : runG T cfg rb chunks = run T cfg chunks := by
  unfold runG run
  simp only
  generalize (if cfg.reader = true then topUp (chunks.filter (!·.isEmpty)) else chunks) = cs
  cases cs with
  | nil => rfl
  | cons c rest =>
    simp only
    generalize (if cfg.reader = true then bomRuleReader c else bomRule c) = br
    cases br with
    | bad => rfl
    | strip r =>
      simp only
      have h := chunksG_sim hT cfg rb hrb (r :: rest) {} {} rel_init rfl NumInv.init
      cases hx : runChunksG rb {} (r :: rest) <;> cases hy : runChunks T cfg {} (r :: rest) <;>
        rw [hx, hy] at h <;> simp only [Sim2] at h
      · rw [h]
      · exact finish_nf T h.nf
    | keep =>
      simp only
      have h := chunksG_sim hT cfg rb hrb (c :: rest) {} {} rel_init rfl NumInv.init
      cases hx : runChunksG rb {} (c :: rest) <;> cases hy : runChunks T cfg {} (c :: rest) <;>
        rw [hx, hy] at h <;> simp only [Sim2] at h
      · rw [h]
      · exact finish_nf T h.nf

include hT in
/-- **the tokenizer's entry points over the buffer-level model are those over the byte machine** -/
theorem runBT_eq_run (hfi : cfg.fastInt = false) (chunks : List Bytes) :
    runBT T cfg chunks = run T cfg chunks :=
  runG_eq_run hT cfg (runBufT T cfg) (fun s m buf hr hf hi => runBufT_eq_fold hT cfg hfi s m buf hr hf hi) chunks

end OjgVerif.Json
