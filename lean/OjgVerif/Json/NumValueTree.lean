import OjgVerif.Json.RefineTree
/-! # Every number leaf of a specification tree is a literal read by `Spec.pNumber`

`JV.NumsAll Q v`: every number literal (`.num lit` leaf) of the specification tree `v` satisfies `Q`.
The grammar `pValueG pc JV.num` (the trees of `parseTextS`, the right-hand side of `run_structure`)
produces `.num` leaves only from `Spec.pNumber`, so a property of all literals `Spec.pNumber` reads
holds at every number of every document (`pValueG_numsAll`, `parseTextS_numsAll`). -/
namespace OjgVerif.Json
open OjgVerif

mutual
  /-- `Q` holds of every number literal in the tree -/
  def JV.NumsAll (Q : Bytes → Prop) : JV → Prop
    | .num lit => Q lit
    | .arr xs => JV.NumsAllList Q xs
    | .obj kvs => JV.NumsAllKvs Q kvs
    | .null => True
    | .bool _ => True
    | .int _ => True
    | .flt _ => True
    | .big _ => True
    | .str _ => True
  def JV.NumsAllList (Q : Bytes → Prop) : List JV → Prop
    | [] => True
    | x :: r => JV.NumsAll Q x ∧ JV.NumsAllList Q r
  def JV.NumsAllKvs (Q : Bytes → Prop) : List (Bytes × JV) → Prop
    | [] => True
    | (_, v) :: r => JV.NumsAll Q v ∧ JV.NumsAllKvs Q r
end

theorem numsAllList_append (Q : Bytes → Prop) (a b : List JV) :
    JV.NumsAllList Q (a ++ b) ↔ JV.NumsAllList Q a ∧ JV.NumsAllList Q b := by
  induction a with
  | nil => simp [JV.NumsAllList]
  | cons x r ih => simp [JV.NumsAllList, ih, and_assoc]

theorem numsAllList_reverse (Q : Bytes → Prop) (a : List JV) (h : JV.NumsAllList Q a) :
    JV.NumsAllList Q a.reverse := by
  induction a with
  | nil => exact h
  | cons x r ih =>
    rw [List.reverse_cons, numsAllList_append]
    exact ⟨ih h.2, h.1, trivial⟩

theorem numsAllKvs_insert (Q : Bytes → Prop) (k : Bytes) (v : JV) (kvs : List (Bytes × JV))
    (hv : JV.NumsAll Q v) (h : JV.NumsAllKvs Q kvs) : JV.NumsAllKvs Q (kvInsert k v kvs) := by
  induction kvs with
  | nil => exact ⟨hv, trivial⟩
  | cons p r ih =>
    obtain ⟨k', v'⟩ := p
    simp only [kvInsert]
    by_cases hk : k' = k
    · simp only [hk, ↓reduceIte]; exact ⟨hv, h.2⟩
    · simp only [hk, ↓reduceIte]; exact ⟨h.1, ih h.2⟩

/-- every tree a value reader returns has `Q` at all its numbers -/
def PvAll (Q : Bytes → Prop) (pv : Bytes → Option (JV × Bytes)) : Prop :=
  ∀ bs v rest, pv bs = some (v, rest) → JV.NumsAll Q v

theorem pElems_numsAll (Q : Bytes → Prop) (pv : Bytes → Option (JV × Bytes)) (hpv : PvAll Q pv) :
    ∀ (k : Nat) (bs : Bytes) (acc : List JV) (v : JV) (rest : Bytes), JV.NumsAllList Q acc →
      Spec.pElems pv k bs acc = some (v, rest) → JV.NumsAll Q v := by
  intro k
  induction k with
  | zero => intro bs acc v rest _ h; cases h
  | succ k ih =>
    intro bs acc v rest hacc h
    simp only [Spec.pElems] at h
    cases hs : Spec.skipWs bs with
    | nil => rw [hs] at h; cases h
    | cons c r =>
      rw [hs] at h
      simp only at h
      by_cases h93 : c = 93
      · simp only [h93, ↓reduceIte, Option.some.injEq, Prod.mk.injEq] at h
        rw [← h.1]
        exact numsAllList_reverse Q acc hacc
      · simp only [h93, ↓reduceIte] at h
        by_cases h44 : c = 44
        · simp only [h44, ↓reduceIte] at h
          cases hp : pv (Spec.skipWs r) with
          | none => rw [hp] at h; cases h
          | some p =>
            obtain ⟨v1, rest1⟩ := p
            rw [hp] at h
            exact ih rest1 (v1 :: acc) v rest ⟨hpv _ _ _ hp, hacc⟩ h
        · simp [h44] at h

theorem pMemberG_numsAll (Q : Bytes → Prop) (pc : Nat → Bytes → Option (Bytes × Bytes))
    (pv : Bytes → Option (JV × Bytes)) (hpv : PvAll Q pv) (bs : Bytes) (k : Bytes) (v : JV) (rest : Bytes)
    (h : pMemberG pc pv bs = some ((k, v), rest)) : JV.NumsAll Q v := by
  cases bs with
  | nil => cases h
  | cons q r =>
    simp only [pMemberG] at h
    by_cases h34 : q = 34
    · simp only [h34, ↓reduceIte] at h
      cases hc : pc r.length r with
      | none => rw [hc] at h; cases h
      | some p =>
        obtain ⟨key, r1⟩ := p
        rw [hc] at h
        simp only at h
        cases hs : Spec.skipWs r1 with
        | nil => rw [hs] at h; cases h
        | cons c r2 =>
          rw [hs] at h
          simp only at h
          by_cases h58 : c = 58
          · simp only [h58, ↓reduceIte] at h
            cases hp : pv (Spec.skipWs r2) with
            | none => rw [hp] at h; cases h
            | some p =>
              obtain ⟨v1, rest1⟩ := p
              rw [hp] at h
              simp only [Option.some.injEq, Prod.mk.injEq] at h
              rw [← h.1.2]
              exact hpv _ _ _ hp
          · simp [h58] at h
    · simp [h34] at h

theorem pMembersG_numsAll (Q : Bytes → Prop) (pm : Bytes → Option ((Bytes × JV) × Bytes))
    (hpm : ∀ bs k v rest, pm bs = some ((k, v), rest) → JV.NumsAll Q v) :
    ∀ (n : Nat) (bs : Bytes) (acc : List (Bytes × JV)) (v : JV) (rest : Bytes), JV.NumsAllKvs Q acc →
      pMembersG pm n bs acc = some (v, rest) → JV.NumsAll Q v := by
  intro n
  induction n with
  | zero => intro bs acc v rest _ h; cases h
  | succ n ih =>
    intro bs acc v rest hacc h
    simp only [pMembersG] at h
    cases hs : Spec.skipWs bs with
    | nil => rw [hs] at h; cases h
    | cons c r =>
      rw [hs] at h
      simp only at h
      by_cases h125 : c = 125
      · simp only [h125, ↓reduceIte, Option.some.injEq, Prod.mk.injEq] at h
        rw [← h.1]
        exact hacc
      · simp only [h125, ↓reduceIte] at h
        by_cases h44 : c = 44
        · simp only [h44, ↓reduceIte] at h
          cases hp : pm (Spec.skipWs r) with
          | none => rw [hp] at h; cases h
          | some p =>
            obtain ⟨⟨key, v1⟩, rest1⟩ := p
            rw [hp] at h
            exact ih rest1 _ v rest (numsAllKvs_insert Q key v1 acc (hpm _ _ _ _ hp) hacc) h
        · simp [h44] at h

/-- **every number leaf comes from `Spec.pNumber`**: a property of all literals the specification reads
holds at every number of every tree of the grammar -/
theorem pValueG_numsAll (Q : Bytes → Prop) (hQ : ∀ bs lit rest, Spec.pNumber bs = some (lit, rest) → Q lit)
    (pc : Nat → Bytes → Option (Bytes × Bytes)) : ∀ f, PvAll Q (pValueG pc JV.num f) := by
  intro f
  induction f with
  | zero => intro bs v rest h; cases h
  | succ f ih =>
    intro bs v rest h
    cases bs with
    | nil => cases h
    | cons b r =>
      simp only [pValueG] at h
      by_cases h1 : b = 110
      · simp only [h1, ↓reduceIte] at h
        cases hs : Spec.startsWith r [117, 108, 108] with
        | none => rw [hs] at h; cases h
        | some x => rw [hs] at h; cases h; trivial
      · simp only [h1, ↓reduceIte] at h
        by_cases h2 : b = 116
        · simp only [h2, ↓reduceIte] at h
          cases hs : Spec.startsWith r [114, 117, 101] with
          | none => rw [hs] at h; cases h
          | some x => rw [hs] at h; cases h; trivial
        · simp only [h2, ↓reduceIte] at h
          by_cases h3 : b = 102
          · simp only [h3, ↓reduceIte] at h
            cases hs : Spec.startsWith r [97, 108, 115, 101] with
            | none => rw [hs] at h; cases h
            | some x => rw [hs] at h; cases h; trivial
          · simp only [h3, ↓reduceIte] at h
            by_cases h4 : b = 34
            · simp only [h4, ↓reduceIte] at h
              cases hs : pc r.length r with
              | none => rw [hs] at h; cases h
              | some x => rw [hs] at h; cases h; trivial
            · simp only [h4, ↓reduceIte] at h
              by_cases h5 : (b = 45 || Spec.isDigit b) = true
              · simp only [h5, ↓reduceIte] at h
                cases hs : Spec.pNumber (b :: r) with
                | none => rw [hs] at h; cases h
                | some x =>
                  rw [hs] at h
                  cases h
                  exact hQ (b :: r) x.1 x.2 hs
              · simp only [h5, Bool.false_eq_true, ↓reduceIte] at h
                by_cases h6 : b = 91
                · simp only [h6, ↓reduceIte] at h
                  cases hs : Spec.skipWs r with
                  | nil => rw [hs] at h; cases h
                  | cons c r' =>
                    rw [hs] at h
                    simp only at h
                    by_cases h93 : c = 93
                    · simp only [h93, ↓reduceIte] at h; cases h; trivial
                    · simp only [h93, ↓reduceIte] at h
                      cases hp : pValueG pc JV.num f (c :: r') with
                      | none => rw [hp] at h; cases h
                      | some p =>
                        obtain ⟨v1, rest1⟩ := p
                        rw [hp] at h
                        exact pElems_numsAll Q _ ih _ rest1 [v1] v rest ⟨ih _ _ _ hp, trivial⟩ h
                · simp only [h6, ↓reduceIte] at h
                  by_cases h7 : b = 123
                  · simp only [h7, ↓reduceIte] at h
                    cases hs : Spec.skipWs r with
                    | nil => rw [hs] at h; cases h
                    | cons c r' =>
                      rw [hs] at h
                      simp only at h
                      by_cases h125 : c = 125
                      · simp only [h125, ↓reduceIte] at h; cases h; trivial
                      · simp only [h125, ↓reduceIte] at h
                        have hm := pMemberG_numsAll Q pc _ ih
                        cases hp : pMemberG pc (pValueG pc JV.num f) (c :: r') with
                        | none => rw [hp] at h; cases h
                        | some p =>
                          obtain ⟨⟨key, v1⟩, rest1⟩ := p
                          rw [hp] at h
                          exact pMembersG_numsAll Q _ (fun bs k v rest => hm bs k v rest) _ rest1 [(key, v1)] v rest
                            ⟨hm _ _ _ _ hp, trivial⟩ h
                  · simp [h7] at h

/-- the same for a whole document -/
theorem parseTextS_numsAll (Q : Bytes → Prop) (hQ : ∀ bs lit rest, Spec.pNumber bs = some (lit, rest) → Q lit)
    (bs : Bytes) (v : JV) (h : parseTextS bs = .one v) : JV.NumsAll Q v := by
  unfold parseTextS at h
  cases hs : Spec.skipWs bs with
  | nil => rw [hs] at h; cases h
  | cons b r =>
    rw [hs] at h
    simp only at h
    cases hp : pValueG pCharsM JV.num (bs.length + 1) (b :: r) with
    | none => rw [hp] at h; cases h
    | some p =>
      obtain ⟨v1, rest⟩ := p
      rw [hp] at h
      simp only at h
      by_cases he : (Spec.skipWs rest).isEmpty = true
      · simp only [he, ↓reduceIte, Spec.Doc.one.injEq] at h
        rw [← h]
        exact pValueG_numsAll Q hQ pCharsM _ _ _ _ hp
      · simp [he] at h

end OjgVerif.Json
