import OjgVerif.Json.Machine
/-! # Buffer-level model of `(*oj.Parser).parseBuffer` (oj/parser.go): ONE call on ONE read buffer

`Json/Machine.lean` is the byte-at-a-time machine (one branch per Go `case`). This file transcribes the
`for off = 0; off < len(buf); off++ { b = buf[off]; switch p.mode[b] { … } }` loop itself, INCLUDING
the inner fast paths and their buffer-end guards:

* `skipNewline` / `numNewline`: the whitespace skip `for i, b = range buf[off+1:] { if spaceMap[b] != skipChar { break } }`;
* `keyQuote` / `valQuote`: the guard `len(buf) <= start`, the scan of plain bytes up to the first byte that
  is not `strOk` in `stringMap`, the closing-quote test, the slices `buf[start:off]` / `buf[start:off+1]`;
* `valNull` / `valTrue` / `valFalse`: the look-ahead `off+4 <= len(buf) && string(buf[off:off+4]) == "null"`;
* `valDigit`: the integer loop with its `BigLimit <= I` exit;
* `numDot`: the fraction loop with its `BigLimit < Div` exit and the `Div == 1` mode choice.

Go's `for i, b = range s` ASSIGNS the outer variables `i` and `b` at the start of every iteration: on an
empty slice they keep their old (stale) values, after a `break` they hold the breaking element, after
exhaustion the last element. `rangeWhile` has exactly that semantics and the local `i` is threaded
through the whole buffer loop (`loopBuf`), as in the Go function. Slice expressions are partial
(`sliceOf`): an out-of-range slice is the outcome `fault "slice bounds out of range"`, not a default value.

All other cases are the byte machine's branch (`step` with the integer fast loop switched off — the
loop is explicit here). The flags `FP` switch single fast paths off (then the case is the byte
machine's); `FP.all` is oj.Parser. `Json/BufLemmas*.lean` prove `runBuf = fold of step`. -/
namespace OjgVerif.Json
open OjgVerif

/-- which fast paths the transcribed function has (all of them for oj.Parser) -/
structure FP where
  ws : Bool := true      -- whitespace skip after a newline (skipNewline, numNewline)
  str : Bool := true     -- string scan (keyQuote, valQuote)
  lit : Bool := true     -- literal look-ahead (valNull, valTrue, valFalse)
  int : Bool := true     -- integer loop (valDigit)
  frac : Bool := true    -- fraction loop (numDot)
  deriving DecidableEq, Repr, Inhabited

def FP.all : FP := {}
def FP.none : FP := ⟨false, false, false, false, false⟩

/-- Go slice expression `buf[lo:hi]`: defined only for `lo ≤ hi ≤ len(buf)` -/
def sliceOf (buf : Bytes) (lo hi : Nat) : Option Bytes :=
  if lo ≤ hi ∧ hi ≤ buf.length then some ((buf.take hi).drop lo) else none

/-- `for i, b = range sl { if !(p b) { break } }` started with the current values of `i` and `b`:
the pair after the loop. `j` is the index of the head of the list. -/
def rangeWhile (p : UInt8 → Bool) : Bytes → Nat → Nat × UInt8 → Nat × UInt8
  | [], _, acc => acc
  | c :: r, j, _ => if p c then rangeWhile p r (j + 1) (j, c) else (j, c)

/-- the literal texts of the look-ahead compares (tied to the source by `Gen/JsonFast.lean`) -/
def litNull : Bytes := [110, 117, 108, 108]
def litTrue : Bytes := [116, 114, 117, 101]
def litFalse : Bytes := [102, 97, 108, 115, 101]

def sliceFault (s : St) : Err := s.err (.fault "slice bounds out of range")

/-- `off+n <= len(buf) && string(buf[off:off+n]) == lit` with `n = len(lit)` -/
def litAhead (s : St) (buf : Bytes) (off : Nat) (lit : Bytes) : Except Err Bool :=
  if off + lit.length ≤ buf.length then
    match sliceOf buf off (off + lit.length) with
    | none => .error (sliceFault s)
    | some sl => .ok (sl == lit)
  else .ok false

/-- state, `off` and `i` after the `switch` of one iteration, and whether the case ended with `continue` -/
structure It where
  s : St
  off : Nat
  i : Nat
  cont : Bool

variable (T : Tables) (cfg : Cfg) (fp : FP)

/-- the configuration the delegated cases run under: the integer loop is explicit in this model -/
def Cfg.slow (c : Cfg) : Cfg := { c with fastInt := false }

/-- the integer loop of `valDigit`:
```
for i, b = range buf[off+1:] {
    if digitMap[b] != numDigit { break }
    if gen.BigLimit <= p.num.I { p.num.FillBig(); p.num.AddDigit(b); break }
    p.num.I = p.num.I*10 + uint64(b-'0')
}
```
returns the accumulator and the loop variables -/
def intLoop : Bytes → Nat → Num → Nat × UInt8 → Num × Nat × UInt8
  | [], _, n, acc => (n, acc)
  | c :: r, j, n, _ =>
    if T.act .digit c = .numDigit then
      if BigLimit ≤ n.i then (n.fillBig.addDigit c, j, c)
      else intLoop r (j + 1) { n with i := n.i * 10 + (c - 48).toUInt64 } (j, c)
    else (n, j, c)

/-- the fraction loop of `numDot`:
```
for i, b = range buf[off+1:] {
    if digitMap[b] != numDigit { break }
    if gen.BigLimit < p.num.Div { p.num.AddFrac(b); break }
    p.num.Frac = p.num.Frac*10 + uint64(b-'0')
    p.num.Div *= 10.0
}
``` -/
def fracLoop : Bytes → Nat → Num → Nat × UInt8 → Num × Nat × UInt8
  | [], _, n, acc => (n, acc)
  | c :: r, j, n, _ =>
    if T.act .digit c = .numDigit then
      if BigLimit < n.div then (n.addFrac c, j, c)
      else fracLoop r (j + 1) { n with frac := n.frac * 10 + (c - 48).toUInt64, div := n.div * 10 } (j, c)
    else (n, j, c)

/-- a state whose "current offset" is `k` bytes further on (for `newError`-style positions and `p.noff`) -/
def St.fwd (s : St) (k : Nat) : St := { s with pos := s.pos + k }

/-- the string scan shared by `keyQuote` and `valQuote`; `isKey` selects what is done with the result -/
def caseQuote (isKey : Bool) (buf : Bytes) (s : St) (off i : Nat) (b : UInt8) : Except Err It :=
  let start := off + 1
  let nm : Mode := if isKey then .colon else .after
  if buf.length ≤ start then
    .ok ⟨{ s with tmp := [], mode := .string, nextMode := nm }, off, i, true⟩
  else
    match sliceOf buf (off + 1) buf.length with
    | none => .error (sliceFault s)
    | some sl =>
      let r := rangeWhile (fun c => T.act .string c = .strOk) sl 0 (i, b)
      let off1 := off + r.1
      if r.2 = 34 then
        let off2 := off1 + 1
        match sliceOf buf start off2 with
        | none => .error (sliceFault (s.fwd (off2 - off)))
        | some str =>
          if isKey then
            .ok ⟨{ s with stack := .key str :: s.stack, mode := .colon }, off2, r.1, true⟩
          else
            match (s.fwd (off2 - off)).add (.str str) with
            | .error e => .error e
            | .ok s' => .ok ⟨{ s' with pos := s.pos, mode := .after }, off2, r.1, false⟩
      else
        match sliceOf buf start (off1 + 1) with
        | none => .error (sliceFault (s.fwd (off1 - off)))
        | some str =>
          .ok ⟨{ s with tmp := str.reverse, mode := .string, nextMode := nm }, off1, r.1, true⟩

/-- the literal look-ahead shared by `valNull`, `valTrue`, `valFalse` -/
def caseLit (lit : Bytes) (v : JV) (slowMode : Mode) (buf : Bytes) (s : St) (off i : Nat) : Except Err It :=
  match litAhead s buf off lit with
  | .error e => .error e
  | .ok true =>
    let k := lit.length - 1
    match (({ s with mode := .after } : St).fwd k).add v with
    | .error e => .error e
    | .ok s' => .ok ⟨{ s' with pos := s.pos }, off + k, i, false⟩
  | .ok false => .ok ⟨{ s with mode := slowMode, ri := 0 }, off, i, false⟩

/-- the byte machine's branch for this byte, as an iteration result (`deliver` and the position step are
applied by `iterBuf`) -/
def caseSlow (s : St) (off i : Nat) (b : UInt8) : Except Err It :=
  match stepAct T cfg.slow s b with
  | .error e => .error e
  | .ok (s', c) => .ok ⟨{ s' with inFast := false }, off, i, c⟩

/-- the `switch p.mode[b]` of `parseBuffer` for the byte `b = buf[off]` -/
def caseBuf (buf : Bytes) (s : St) (off i : Nat) (b : UInt8) : Except Err It :=
  match T.act s.mode b with
  | .skipNewline =>
    if fp.ws then
      match sliceOf buf (off + 1) buf.length with
      | none => .error (sliceFault s)
      | some sl =>
        let r := rangeWhile (fun c => T.act .space c = .skipChar) sl 0 (i, b)
        .ok ⟨{ s with line := s.line + 1, nl := s.pos }, off + r.1, r.1, true⟩
    else caseSlow T cfg s off i b
  | .numNewline =>
    if fp.ws then
      match s.addNum with
      | .error e => .error e
      | .ok s' =>
        match sliceOf buf (off + 1) buf.length with
        | none => .error (sliceFault s)
        | some sl =>
          let r := rangeWhile (fun c => T.act .space c = .skipChar) sl 0 (i, b)
          .ok ⟨{ s' with line := s'.line + 1, nl := s'.pos, mode := .after }, off + r.1, r.1, false⟩
    else caseSlow T cfg s off i b
  | .keyQuote => if fp.str then caseQuote T true buf s off i b else caseSlow T cfg s off i b
  | .valQuote => if fp.str then caseQuote T false buf s off i b else caseSlow T cfg s off i b
  | .valNull => if fp.lit then caseLit litNull .null .null buf s off i else caseSlow T cfg s off i b
  | .valTrue => if fp.lit then caseLit litTrue (.bool true) .true_ buf s off i else caseSlow T cfg s off i b
  | .valFalse => if fp.lit then caseLit litFalse (.bool false) .false_ buf s off i else caseSlow T cfg s off i b
  | .valDigit =>
    if fp.int then
      match sliceOf buf (off + 1) buf.length with
      | none => .error (sliceFault s)
      | some sl =>
        let n0 : Num := { s.num.reset with i := (b - 48).toUInt64 }
        let r := intLoop T sl 0 n0 (i, b)
        let off1 := if T.act .digit r.2.2 = .numDigit then off + 1 else off
        .ok ⟨{ s with mode := .digit, num := r.1 }, off1 + r.2.1, r.2.1, false⟩
    else caseSlow T cfg s off i b
  | .numDot =>
    if fp.frac then
      if 0 < s.num.big.length then
        .ok ⟨{ s with num := { s.num with big := s.num.big ++ [b] }, mode := .dot }, off, i, true⟩
      else
        match sliceOf buf (off + 1) buf.length with
        | none => .error (sliceFault s)
        | some sl =>
          let r := fracLoop T sl 0 s.num (i, b)
          let off1 := off + r.2.1
          let off2 := if T.act .digit r.2.2 = .numDigit then off1 + 1 else off1
          .ok ⟨{ s with num := r.1, mode := if r.1.div = 1 then .dot else .frac }, off2, r.2.1, false⟩
    else caseSlow T cfg s off i b
  | _ => caseSlow T cfg s off i b

/-- one iteration of the buffer loop: the switch, the delivery test behind it (skipped by `continue`),
and `off++`. The ghost position is the absolute offset of the next byte to read, at most the end of
the buffer. -/
def iterBuf (buf : Bytes) (s : St) (off i : Nat) (b : UInt8) : Except Err (St × Nat × Nat) :=
  match caseBuf T cfg fp buf s off i b with
  | .error e => .error e
  | .ok r =>
    let s1 := if r.cont then r.s else deliver T cfg r.s
    .ok ({ s1 with pos := s1.pos + (min (r.off + 1) buf.length - off) }, r.off + 1, r.i)

/-- `for off = …; off < len(buf); off++ { b = buf[off]; … }`; the fuel is `len(buf)` -/
def loopBuf (buf : Bytes) : Nat → St → Nat → Nat → Except Err St
  | 0, s, _, _ => .ok s
  | fuel + 1, s, off, i =>
    match buf[off]? with
    | none => .ok s
    | some b =>
      match iterBuf T cfg fp buf s off i b with
      | .error e => .error e
      | .ok (s', off', i') => loopBuf buf fuel s' off' i'

/-- one call `parseBuffer(buf, false)` from state `s` (`off` and `i` start at 0) -/
def runBuf (s : St) (buf : Bytes) : Except Err St :=
  loopBuf T cfg fp buf buf.length s 0 0

/-- the read buffers one after the other, as `runChunks` -/
def runBufChunks (s : St) : List Bytes → Except Err St
  | [] => .ok s
  | c :: rest =>
    match runBuf T cfg fp s c with
    | .error e => .error e
    | .ok s' => runBufChunks s' rest

/-- the entry points over the buffer-level model: as `run`, with `runBufChunks` for `runChunks` -/
def runB (chunks : List Bytes) : Except Err (List JV) :=
  let cs := if cfg.reader then topUp (chunks.filter (!·.isEmpty)) else chunks
  match cs with
  | [] => finish T {}
  | c :: rest =>
    match (if cfg.reader then bomRuleReader c else bomRule c) with
    | .bad => .error { line := 1, col := 3, kind := .byte }
    | .strip r =>
      match runBufChunks T cfg fp {} (r :: rest) with
      | .error e => .error e
      | .ok s => finish T s
    | .keep =>
      match runBufChunks T cfg fp {} (c :: rest) with
      | .error e => .error e
      | .ok s => finish T s

end OjgVerif.Json
