import OjgVerif.Json.BufModel
import OjgVerif.Json.BufModelV
import OjgVerif.Json.SwitchFacts
import OjgVerif.Gen.JsonFast
/-! # The buffer-level model against the source of the fast paths

`Gen/JsonFast.lean` is regenerated from /repo on every run by tools/extract/jsonfast.go: the header of the
buffer loop of `(*oj.Parser).parseBuffer` / `(*gen.Parser).parseBuffer`, the printed statements of the nine
case clauses that have a fast path, the numbers of the three literal look-aheads and the break tests of
the six `for i, b = range buf[off+1:]` loops (the extractor fails if one of them declares new variables
with `:=`, ranges over another slice, or does not start with `if T[b] != code { break }`).

* `*_fast_is_source`, `*_loop_is_source`: the statements are, line by line, the text `Json/BufModel.lean` was
  transcribed from. A changed guard (`off+4 <= len(buf)` → `off+3 <= len(buf)`), bound, slice expression,
  `off` adjustment or a dropped assignment in a fast path breaks this proof.
* `lits_are_source`: the model's literal texts, look-ahead lengths and `off` increments are the numbers
  read off the source (`caseLit` uses `lit.length` for both bounds and `lit.length - 1` for the increment).
* `loops_are_source`: the tables and codes of the six range loops are those of `caseBuf` (`T.act .space c =
  .skipChar` twice, `T.act .string c = .strOk` twice, `T.act .digit c = .numDigit` twice, in source order). -/
namespace OjgVerif.Json
open OjgVerif

/-- the fast-path clauses of (*oj.Parser).parseBuffer the model was transcribed from -/
def expectedFastOj : List (String × List String) := [
  ("skipNewline", ["p.line++", "p.noff = off", "for i, b = range buf[off+1:] {", "if spaceMap[b] != skipChar {", "break", "}", "}", "off += i", "continue"]),
  ("keyQuote", ["start := off + 1", "if len(buf) <= start {", "p.tmp = p.tmp[:0]", "p.mode = stringMap", "p.nextMode = colonMap", "continue", "}", "for i, b = range buf[off+1:] {", "if stringMap[b] != strOk {", "break", "}", "}", "off += i", "if b == '\"' {", "off++", "p.stack = append(p.stack, gen.Key(buf[start:off]))", "p.mode = colonMap", "} else {", "p.tmp = p.tmp[:0]", "p.tmp = append(p.tmp, buf[start:off+1]...)", "p.mode = stringMap", "p.nextMode = colonMap", "}", "continue"]),
  ("valQuote", ["start := off + 1", "if len(buf) <= start {", "p.tmp = p.tmp[:0]", "p.mode = stringMap", "p.nextMode = afterMap", "continue", "}", "for i, b = range buf[off+1:] {", "if stringMap[b] != strOk {", "break", "}", "}", "off += i", "if b == '\"' {", "off++", "p.add(string(buf[start:off]))", "p.mode = afterMap", "} else {", "p.tmp = p.tmp[:0]", "p.tmp = append(p.tmp, buf[start:off+1]...)", "p.mode = stringMap", "p.nextMode = afterMap", "continue", "}"]),
  ("valDigit", ["p.num.Reset()", "p.mode = digitMap", "p.num.I = uint64(b - '0')", "for i, b = range buf[off+1:] {", "if digitMap[b] != numDigit {", "break", "}", "if gen.BigLimit <= p.num.I {", "p.num.FillBig()", "p.num.AddDigit(b)", "break", "}", "p.num.I = p.num.I*10 + uint64(b-'0')", "}", "if digitMap[b] == numDigit {", "off++", "}", "off += i"]),
  ("valNull", ["if off+4 <= len(buf) && string(buf[off:off+4]) == \"null\" {", "off += 3", "p.mode = afterMap", "p.add(nil)", "} else {", "p.mode = nullMap", "p.ri = 0", "}"]),
  ("valTrue", ["if off+4 <= len(buf) && string(buf[off:off+4]) == \"true\" {", "off += 3", "p.mode = afterMap", "p.add(true)", "} else {", "p.mode = trueMap", "p.ri = 0", "}"]),
  ("valFalse", ["if off+5 <= len(buf) && string(buf[off:off+5]) == \"false\" {", "off += 4", "p.mode = afterMap", "p.add(false)", "} else {", "p.mode = falseMap", "p.ri = 0", "}"]),
  ("numDot", ["if 0 < len(p.num.BigBuf) {", "p.num.BigBuf = append(p.num.BigBuf, b)", "p.mode = dotMap", "continue", "}", "for i, b = range buf[off+1:] {", "if digitMap[b] != numDigit {", "break", "}", "if gen.BigLimit < p.num.Div {", "p.num.AddFrac(b)", "break", "}", "p.num.Frac = p.num.Frac*10 + uint64(b-'0')", "p.num.Div *= 10.0", "}", "off += i", "if digitMap[b] == numDigit {", "off++", "}", "if p.num.Div == 1 {", "p.mode = dotMap", "} else {", "p.mode = fracMap", "}"]),
  ("numNewline", ["p.add(p.num.AsNum())", "p.line++", "p.noff = off", "p.mode = afterMap", "for i, b = range buf[off+1:] {", "if spaceMap[b] != skipChar {", "break", "}", "}", "off += i"])
]

/-- the same clauses of (*gen.Parser).parseBuffer: the same statements over gen's own types -/
def expectedFastGen : List (String × List String) := [
  ("skipNewline", ["p.line++", "p.noff = off", "for i, b = range buf[off+1:] {", "if spaceMap[b] != skipChar {", "break", "}", "}", "off += i", "continue"]),
  ("keyQuote", ["start := off + 1", "if len(buf) <= start {", "p.tmp = p.tmp[:0]", "p.mode = stringMap", "p.nextMode = colonMap", "continue", "}", "for i, b = range buf[off+1:] {", "if stringMap[b] != strOk {", "break", "}", "}", "off += i", "if b == '\"' {", "off++", "p.stack = append(p.stack, Key(buf[start:off]))", "p.mode = colonMap", "} else {", "p.tmp = p.tmp[:0]", "p.tmp = append(p.tmp, buf[start:off+1]...)", "p.mode = stringMap", "p.nextMode = colonMap", "}", "continue"]),
  ("valQuote", ["start := off + 1", "if len(buf) <= start {", "p.tmp = p.tmp[:0]", "p.mode = stringMap", "p.nextMode = afterMap", "continue", "}", "for i, b = range buf[off+1:] {", "if stringMap[b] != strOk {", "break", "}", "}", "off += i", "if b == '\"' {", "off++", "p.add(String(buf[start:off]))", "p.mode = afterMap", "} else {", "p.tmp = p.tmp[:0]", "p.tmp = append(p.tmp, buf[start:off+1]...)", "p.mode = stringMap", "p.nextMode = afterMap", "continue", "}"]),
  ("valDigit", ["p.num.Reset()", "p.mode = digitMap", "p.num.I = uint64(b - '0')", "for i, b = range buf[off+1:] {", "if digitMap[b] != numDigit {", "break", "}", "if BigLimit <= p.num.I {", "p.num.FillBig()", "p.num.AddDigit(b)", "break", "}", "p.num.I = p.num.I*10 + uint64(b-'0')", "}", "if digitMap[b] == numDigit {", "off++", "}", "off += i"]),
  ("valNull", ["if off+4 <= len(buf) && string(buf[off:off+4]) == \"null\" {", "off += 3", "p.mode = afterMap", "p.add(nil)", "} else {", "p.mode = nullMap", "p.ri = 0", "}"]),
  ("valTrue", ["if off+4 <= len(buf) && string(buf[off:off+4]) == \"true\" {", "off += 3", "p.mode = afterMap", "p.add(True)", "} else {", "p.mode = trueMap", "p.ri = 0", "}"]),
  ("valFalse", ["if off+5 <= len(buf) && string(buf[off:off+5]) == \"false\" {", "off += 4", "p.mode = afterMap", "p.add(False)", "} else {", "p.mode = falseMap", "p.ri = 0", "}"]),
  ("numDot", ["if 0 < len(p.num.BigBuf) {", "p.num.BigBuf = append(p.num.BigBuf, b)", "p.mode = dotMap", "continue", "}", "for i, b = range buf[off+1:] {", "if digitMap[b] != numDigit {", "break", "}", "if BigLimit < p.num.Div {", "p.num.AddFrac(b)", "break", "}", "p.num.Frac = p.num.Frac*10 + uint64(b-'0')", "p.num.Div *= 10.0", "}", "off += i", "if digitMap[b] == numDigit {", "off++", "}", "if p.num.Div == 1 {", "p.mode = dotMap", "} else {", "p.mode = fracMap", "}"]),
  ("numNewline", ["p.add(p.num.AsNode())", "p.line++", "p.noff = off", "p.mode = afterMap", "for i, b = range buf[off+1:] {", "if spaceMap[b] != skipChar {", "break", "}", "}", "off += i"])
]

def expectedLoop : List String := ["off = 0", "off < len(buf)", "off++", "b = buf[off]"]

theorem ojParser_fast_is_source : Gen.JsonFast.ojParserFast = expectedFastOj := by decide +kernel
theorem genParser_fast_is_source : Gen.JsonFast.genParserFast = expectedFastGen := by decide +kernel
theorem ojParser_loop_is_source : Gen.JsonFast.ojParserLoop = expectedLoop := by decide +kernel
theorem genParser_loop_is_source : Gen.JsonFast.genParserLoop = expectedLoop := by decide +kernel

/-- what `caseLit` does with a literal: both bounds are its length, the increment one less -/
def litFact (label : String) (lit : Bytes) : Gen.JsonFast.Lit :=
  ⟨label, lit, lit.length, lit.length, lit.length - 1⟩

theorem ojParser_lits_are_source :
    Gen.JsonFast.ojParserLits = [litFact "valNull" litNull, litFact "valTrue" litTrue, litFact "valFalse" litFalse] := by
  decide +kernel

theorem genParser_lits_are_source :
    Gen.JsonFast.genParserLits = [litFact "valNull" litNull, litFact "valTrue" litTrue, litFact "valFalse" litFalse] := by
  decide +kernel

def Mode.mapName : Mode → String
  | .value => "valueMap" | .null => "nullMap" | .true_ => "trueMap" | .false_ => "falseMap"
  | .comma => "commaMap" | .after => "afterMap" | .key1 => "key1Map" | .key => "keyMap"
  | .colon => "colonMap" | .neg => "negMap" | .zero => "zeroMap" | .digit => "digitMap"
  | .dot => "dotMap" | .frac => "fracMap" | .expSign => "expSignMap" | .expZero => "expZeroMap"
  | .exp => "expMap" | .string => "stringMap" | .esc => "escMap" | .u => "uMap" | .space => "spaceMap"

/-- table and action of the break test of each range loop of `caseBuf`, in the order of the Go source
(skipNewline, keyQuote, valQuote, valDigit, numDot, numNewline) -/
def modelLoops : List (Mode × Act) :=
  [(.space, .skipChar), (.string, .strOk), (.string, .strOk), (.digit, .numDigit), (.digit, .numDigit), (.space, .skipChar)]

theorem ojParser_loops_are_source :
    Gen.JsonFast.ojParserRangeLoops = modelLoops.map (fun p => (p.1.mapName, p.2.goName)) := by decide +kernel

theorem genParser_loops_are_source :
    Gen.JsonFast.genParserRangeLoops = modelLoops.map (fun p => (p.1.mapName, p.2.goName)) := by decide +kernel

/-- the same nine clauses of (*oj.Validator).validateBuffer (`Json/BufModelV.lean`: `caseQuoteV`, `i = 0` in
`numNewline`, no loops in `valDigit` / `numDot`) -/
def expectedFastValidator : List (String × List String) := [
  ("skipNewline", ["p.line++", "p.noff = off", "for i, b = range buf[off+1:] {", "if spaceMap[b] != skipChar {", "break", "}", "}", "off += i", "continue"]),
  ("keyQuote", ["i = 0", "for i, b = range buf[off+1:] {", "if stringMap[b] != strOk {", "break", "}", "}", "off += i", "if b == '\"' && 0 < i {", "off++", "p.mode = colonMap", "} else {", "p.mode = stringMap", "p.nextMode = colonMap", "}", "continue"]),
  ("valQuote", ["i = 0", "for i, b = range buf[off+1:] {", "if stringMap[b] != strOk {", "break", "}", "}", "off += i", "if b == '\"' && 0 < i {", "off++", "p.mode = afterMap", "} else {", "p.mode = stringMap", "p.nextMode = afterMap", "continue", "}"]),
  ("valDigit", ["p.mode = digitMap", "continue"]),
  ("valNull", ["if off+4 <= len(buf) && string(buf[off:off+4]) == \"null\" {", "off += 3", "p.mode = afterMap", "} else {", "p.mode = nullMap", "p.ri = 0", "}"]),
  ("valTrue", ["if off+4 <= len(buf) && string(buf[off:off+4]) == \"true\" {", "off += 3", "p.mode = afterMap", "} else {", "p.mode = trueMap", "p.ri = 0", "}"]),
  ("valFalse", ["if off+5 <= len(buf) && string(buf[off:off+5]) == \"false\" {", "off += 4", "p.mode = afterMap", "} else {", "p.mode = falseMap", "p.ri = 0", "}"]),
  ("numDot", ["p.mode = dotMap", "continue"]),
  ("numNewline", ["p.line++", "p.noff = off", "p.mode = afterMap", "i = 0", "for i, b = range buf[off+1:] {", "if spaceMap[b] != skipChar {", "break", "}", "}", "off += i"])
]

/-- … and of (*oj.Tokenizer).tokenizeBuffer (`intLoopT` in `valDigit`, the parser's statements elsewhere) -/
def expectedFastTokenizer : List (String × List String) := [
  ("skipNewline", ["t.line++", "t.noff = off", "for i, b = range buf[off+1:] {", "if spaceMap[b] != skipChar {", "break", "}", "}", "off += i", "continue"]),
  ("keyQuote", ["start := off + 1", "if len(buf) <= start {", "t.tmp = t.tmp[:0]", "t.mode = stringMap", "t.nextMode = colonMap", "continue", "}", "for i, b = range buf[off+1:] {", "if stringMap[b] != strOk {", "break", "}", "}", "off += i", "if b == '\"' {", "off++", "t.handler.Key(string(buf[start:off]))", "t.mode = colonMap", "} else {", "t.tmp = t.tmp[:0]", "t.tmp = append(t.tmp, buf[start:off+1]...)", "t.mode = stringMap", "t.nextMode = colonMap", "}", "continue"]),
  ("valQuote", ["start := off + 1", "if len(buf) <= start {", "t.tmp = t.tmp[:0]", "t.mode = stringMap", "t.nextMode = afterMap", "continue", "}", "for i, b = range buf[off+1:] {", "if stringMap[b] != strOk {", "break", "}", "}", "off += i", "if b == '\"' {", "off++", "t.handler.String(string(buf[start:off]))", "t.mode = afterMap", "} else {", "t.tmp = t.tmp[:0]", "t.tmp = append(t.tmp, buf[start:off+1]...)", "t.mode = stringMap", "t.nextMode = afterMap", "continue", "}"]),
  ("valDigit", ["t.num.Reset()", "t.mode = digitMap", "t.num.I = uint64(b - '0')", "for i, b = range buf[off+1:] {", "if digitMap[b] != numDigit {", "break", "}", "if gen.BigLimit <= t.num.I {", "t.num.AddDigit(b)", "if 0 < len(t.num.BigBuf) {", "break", "}", "continue", "}", "t.num.I = t.num.I*10 + uint64(b-'0')", "}", "if digitMap[b] == numDigit {", "off++", "}", "off += i"]),
  ("valNull", ["if off+4 <= len(buf) && string(buf[off:off+4]) == \"null\" {", "off += 3", "t.mode = afterMap", "t.handler.Null()", "} else {", "t.mode = nullMap", "t.ri = 0", "}"]),
  ("valTrue", ["if off+4 <= len(buf) && string(buf[off:off+4]) == \"true\" {", "off += 3", "t.mode = afterMap", "t.handler.Bool(true)", "} else {", "t.mode = trueMap", "t.ri = 0", "}"]),
  ("valFalse", ["if off+5 <= len(buf) && string(buf[off:off+5]) == \"false\" {", "off += 4", "t.mode = afterMap", "t.handler.Bool(false)", "} else {", "t.mode = falseMap", "t.ri = 0", "}"]),
  ("numDot", ["if 0 < len(t.num.BigBuf) {", "t.num.BigBuf = append(t.num.BigBuf, b)", "t.mode = dotMap", "continue", "}", "for i, b = range buf[off+1:] {", "if digitMap[b] != numDigit {", "break", "}", "if gen.BigLimit < t.num.Div {", "t.num.AddFrac(b)", "break", "}", "t.num.Frac = t.num.Frac*10 + uint64(b-'0')", "t.num.Div *= 10.0", "}", "off += i", "if digitMap[b] == numDigit {", "off++", "}", "if t.num.Div == 1 {", "t.mode = dotMap", "} else {", "t.mode = fracMap", "}"]),
  ("numNewline", ["t.handleNum()", "t.line++", "t.noff = off", "t.mode = afterMap", "for i, b = range buf[off+1:] {", "if spaceMap[b] != skipChar {", "break", "}", "}", "off += i"])
]

theorem ojValidator_fast_is_source : Gen.JsonFast.ojValidatorFast = expectedFastValidator := by decide +kernel
theorem ojTokenizer_fast_is_source : Gen.JsonFast.ojTokenizerFast = expectedFastTokenizer := by decide +kernel
theorem ojValidator_loop_is_source : Gen.JsonFast.ojValidatorLoop = expectedLoop := by decide +kernel
theorem ojTokenizer_loop_is_source : Gen.JsonFast.ojTokenizerLoop = expectedLoop := by decide +kernel

theorem ojValidator_lits_are_source :
    Gen.JsonFast.ojValidatorLits = [litFact "valNull" litNull, litFact "valTrue" litTrue, litFact "valFalse" litFalse] := by
  decide +kernel

theorem ojTokenizer_lits_are_source :
    Gen.JsonFast.ojTokenizerLits = [litFact "valNull" litNull, litFact "valTrue" litTrue, litFact "valFalse" litFalse] := by
  decide +kernel

/-- the validator has four range loops (no digit loops) -/
def modelLoopsV : List (Mode × Act) :=
  [(.space, .skipChar), (.string, .strOk), (.string, .strOk), (.space, .skipChar)]

theorem ojValidator_loops_are_source :
    Gen.JsonFast.ojValidatorRangeLoops = modelLoopsV.map (fun p => (p.1.mapName, p.2.goName)) := by decide +kernel

theorem ojTokenizer_loops_are_source :
    Gen.JsonFast.ojTokenizerRangeLoops = modelLoops.map (fun p => (p.1.mapName, p.2.goName)) := by decide +kernel

end OjgVerif.Json
