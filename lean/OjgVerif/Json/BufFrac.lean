import OjgVerif.Json.BufInt
/-! # The fraction loop of `numDot` against the byte machine -/
namespace OjgVerif.Json
open OjgVerif

variable {T : Tables} (hT : TablesOK T) (cfg : Cfg)

/-- the accumulator is not in text form and the fraction digits read so far are below `Div` -/
def FracOK (n : Num) : Prop := n.big = [] ∧ n.frac.toNat < n.div.toNat

/-- below the limit the loop's own arithmetic is `AddFrac` -/
theorem fast_frac_eq (n : Num) (c : UInt8) (hok : FracOK n) (hlim : ¬ BigLimit < n.div) (hc : isDigitB c) :
    n.addFrac c = { n with frac := n.frac * 10 + (c - 48).toUInt64, div := n.div * 10 } ∧
    FracOK { n with frac := n.frac * 10 + (c - 48).toUInt64, div := n.div * 10 } ∧
    n.div * 10 ≠ 1 := by
  obtain ⟨hbig, hlt⟩ := hok
  have hd : dval c ≤ 9 := by unfold dval; have := hc.2; omega
  have hBL : BigLimit.toNat = 922337203685477580 := rfl
  have hdiv : n.div.toNat ≤ 922337203685477580 := by
    rw [UInt64.lt_iff_toNat_lt] at hlim; omega
  have hdle : n.div ≤ BigLimit := by rw [UInt64.le_iff_toNat_le]; omega
  have hfle : n.frac ≤ BigLimit := by rw [UInt64.le_iff_toNat_le]; omega
  have h10 : (10 : UInt64).toNat = 10 := rfl
  have hfv : (n.frac * 10 + (c - 48).toUInt64).toNat = n.frac.toNat * 10 + dval c := by
    simp only [UInt64.toNat_add, UInt64.toNat_mul, digit_toUInt64 c hc, h10]; omega
  have hdv : (n.div * 10).toNat = n.div.toNat * 10 := by
    simp only [UInt64.toNat_mul, h10]; omega
  have hmax : ¬ MaxInt64 < n.frac * 10 + (c - 48).toUInt64 := by
    rw [UInt64.lt_iff_toNat_lt, hfv]
    have hm : MaxInt64.toNat = 9223372036854775807 := rfl
    omega
  refine ⟨?_, ⟨hbig, ?_⟩, ?_⟩
  · unfold Num.addFrac
    simp only [hbig, List.length_nil, Nat.lt_irrefl, ↓reduceIte, hfle, hdle, decide_true, Bool.and_self, hmax]
  · show (n.frac * 10 + (c - 48).toUInt64).toNat < (n.div * 10).toNat
    rw [hfv, hdv]; omega
  · intro h1
    have := congrArg UInt64.toNat h1
    rw [hdv] at this
    have h1' : (1 : UInt64).toNat = 1 := rfl
    omega

/-- at the limit `AddFrac` switches to text: `Div` stays above the limit -/
theorem addFrac_at_limit (n : Num) (c : UInt8) (hbig : n.big = []) (hlim : BigLimit < n.div) :
    (n.addFrac c).div = n.div ∧ (n.addFrac c).big ≠ [] := by
  have hnd : ¬ n.div ≤ BigLimit := by
    rw [UInt64.lt_iff_toNat_lt] at hlim; rw [UInt64.le_iff_toNat_le]; omega
  unfold Num.addFrac
  simp only [hbig, List.length_nil, Nat.lt_irrefl, ↓reduceIte, hnd, decide_false, Bool.and_false, Bool.false_eq_true]
  refine ⟨?_, by simp⟩
  unfold Num.fillBig; rfl

theorem digit_frac_facts (c : UInt8) (h : expected .digit c = .numDigit) :
    expected .dot c = .numFrac ∧ expected .frac c = .numFrac := by
  have := forall_mode_byte (fun _ c => !(expected .digit c == .numDigit) ||
      (expected .dot c == .numFrac && expected .frac c == .numFrac)) (by decide +kernel) .digit c
  simpa [h] using this


include hT in
theorem step_numFrac (m : St) (c : UInt8) (hm : m.mode = .dot ∨ m.mode = .frac) (h : T.act m.mode c = .numFrac) :
    step T cfg m c = .ok { m with num := m.num.addFrac c, mode := .frac, pos := m.pos + 1, inFast := false } := by
  have hfin : T.fin .frac ≠ .a := by rw [hT.fin .frac (by decide)]; decide
  unfold step stepAct
  simp only [h, Bool.false_eq_true, ↓reduceIte]
  rw [deliver_id_of T cfg _ (by simp only; exact hfin)]

include hT in
theorem step_numDot (m : St) (b : UInt8) (h : T.act m.mode b = .numDot) (hbig : m.num.big = []) :
    step T cfg m b = .ok { m with mode := .dot, pos := m.pos + 1, inFast := false } := by
  have hfin : T.fin .dot ≠ .a := by rw [hT.fin .dot (by decide)]; decide
  unfold step stepAct
  simp only [h, hbig, List.length_nil, Nat.lt_irrefl, ↓reduceIte, decide_false, Bool.false_eq_true]
  rw [deliver_id_of T cfg _ (by simp only; exact hfin)]

theorem St.eta_num2 (m : St) (n : Num) (hn : m.num = n) (hf : m.inFast = false) :
    ({ m with num := n, mode := m.mode, pos := m.pos + 0 } : St) = m := by
  obtain ⟨_, _, _, _, _, _, _, _, _, _, _, _, _⟩ := m
  simp only at hn hf; subst hn; rfl

include hT in
/-- the explicit fraction loop is the byte machine over the digits it consumes -/
theorem fracRun (l : Bytes) : ∀ (j : Nat) (n : Num) (acc : Nat × UInt8) (m : St),
    (m.mode = .dot ∨ m.mode = .frac) → m.inFast = false → m.num = n → FracOK n →
    ∃ (pre rest : Bytes), l = pre ++ rest ∧
      runBytes T cfg m pre = .ok { m with num := (fracLoop T l j n acc).1,
                                          mode := if pre = [] then m.mode else .frac, pos := m.pos + pre.length } ∧
      (l ≠ [] → j + pre.length = (fracLoop T l j n acc).2.1 +
          (if T.act .digit (fracLoop T l j n acc).2.2 = .numDigit then 1 else 0)) ∧
      (l = [] → (fracLoop T l j n acc).2 = acc) ∧
      (pre = [] → (fracLoop T l j n acc).1 = n) ∧
      (pre ≠ [] → (fracLoop T l j n acc).1.div ≠ 1) := by
  induction l with
  | nil =>
    intro j n acc m hm hf hn hok
    refine ⟨[], [], rfl, ?_, fun h => absurd rfl h, fun _ => rfl, fun _ => rfl, fun h => absurd rfl h⟩
    simp only [runBytes, fracLoop, List.length_nil, ↓reduceIte]
    exact congrArg Except.ok (St.eta_num2 m n hn hf).symm
  | cons c r ih =>
    intro j n acc m hm hf hn hok
    unfold fracLoop
    by_cases hd : T.act .digit c = .numDigit
    · simp only [hd, ↓reduceIte]
      have hdig : isDigitB c := numDigit_isDigit .digit c (by rw [← hT.act]; exact hd)
      have hfr := digit_frac_facts c (by rw [← hT.act]; exact hd)
      have hact : T.act m.mode c = .numFrac := by
        rw [hT.act]; rcases hm with hm | hm <;> rw [hm]
        · exact hfr.1
        · exact hfr.2
      by_cases hl : BigLimit < n.div
      · simp only [hl, ↓reduceIte]
        refine ⟨[c], r, rfl, ?_, fun _ => ?_, (fun h => (by cases h)), (fun h => (by cases h)), fun _ => ?_⟩
        · simp only [runBytes]
          rw [step_numFrac hT cfg m c hm hact]
          simp only [hn, List.length_cons, List.length_nil, Nat.zero_add, List.cons_ne_self, ↓reduceIte]
          obtain ⟨_, _, _, _, _, _, _, _, _, _, _, _, f⟩ := m
          simp only at hf; subst hf; rfl
        · simp only [hd, ↓reduceIte, List.length_cons, List.length_nil]
        · have := addFrac_at_limit n c hok.1 hl
          rw [this.1]
          intro h1
          rw [h1] at hl
          exact absurd hl (by decide)
      · simp only [hl, ↓reduceIte]
        obtain ⟨heq, hok', hne1⟩ := fast_frac_eq n c hok hl hdig
        obtain ⟨pre, rest, hsplit, hrun, hoff, hnil, hsame, hdiv⟩ :=
          ih (j + 1) { n with frac := n.frac * 10 + (c - 48).toUInt64, div := n.div * 10 } (j, c)
            ({ m with num := { n with frac := n.frac * 10 + (c - 48).toUInt64, div := n.div * 10 },
                      mode := .frac, pos := m.pos + 1, inFast := false } : St)
            (Or.inr rfl) rfl rfl hok'
        refine ⟨c :: pre, rest, (by rw [hsplit]; rfl), ?_, fun _ => ?_, (fun h => (by cases h)), (fun h => (by cases h)), fun _ => ?_⟩
        · simp only [runBytes]
          rw [step_numFrac hT cfg m c hm hact]
          simp only [hn, heq]
          rw [hrun]
          simp only [List.length_cons, reduceCtorEq, ↓reduceIte, ite_self, Except.ok.injEq, St.mk.injEq, true_and, and_true]
          refine ⟨by omega, ?_⟩
          obtain ⟨_, _, _, _, _, _, _, _, _, _, _, _, f⟩ := m
          simp only at hf; exact hf.symm
        · by_cases hr : r = []
          · subst hr
            have hp : pre = [] := by
              cases pre with
              | nil => rfl
              | cons x xs => simp at hsplit
            subst hp
            rw [hnil rfl]
            simp only [hd, ↓reduceIte, List.length_cons, List.length_nil]
          · have := hoff hr
            simp only [List.length_cons]
            omega
        · by_cases hp : pre = []
          · rw [hsame hp]; exact hne1
          · exact hdiv hp
    · simp only [hd, ↓reduceIte]
      refine ⟨[], c :: r, rfl, ?_, fun _ => ?_, (fun h => (by cases h)), fun _ => trivial, fun h => absurd rfl h⟩
      · simp only [runBytes, List.length_nil, ↓reduceIte]
        exact congrArg Except.ok (St.eta_num2 m n hn hf).symm
      · simp only [hd, ↓reduceIte, List.length_nil]


theorem numDot_not_digit (md : Mode) (b : UInt8) (h : expected md b = .numDot) : expected .digit b ≠ .numDigit := by
  have := forall_mode_byte (fun md b => !(expected md b == .numDot) || !(expected .digit b == .numDigit))
    (by decide +kernel) md b
  simpa [h] using this

include hT in
/-- **the fraction loop** -/
theorem iter_frac (fp : FP) (hfrac : fp.frac = true) (buf : Bytes) (s m : St)
    (off i : Nat) (b : UInt8) (hb : buf[off]? = some b) (hrel : Rel s m) (hside : Side T buf m off)
    (hinv : NumInv m) (hact : T.act s.mode b = .numDot) :
    IterOK T cfg buf m off (iterBuf T cfg fp buf s off i b) := by
  obtain ⟨hdrop, hl⟩ := drop_of_getElem? buf off b hb
  obtain ⟨emode, -, -, -, enum, -, epos, -⟩ := nf_fields hrel.nf
  have hactm : T.act m.mode b = .numDot := by rw [← emode]; exact hact
  by_cases hbig : 0 < s.num.big.length
  · -- already in text form: the byte machine's branch (`continue`)
    refine iter_slow hT cfg fp buf s m off i b hb hrel hside ?_ (by intro h; rw [hactm] at h; cases h)
    unfold caseBuf caseSlow stepAct
    simp only [hact, hfrac, ↓reduceIte, hbig, decide_true]
    rw [hrel.flag]
  · have hb0 : m.num.big = [] := by
      rw [← enum]
      cases hx : s.num.big with
      | nil => rfl
      | cons x xs => rw [hx] at hbig; simp at hbig
    have hmm : m.mode = .zero ∨ m.mode = .digit := (num_mode_facts m.mode b).2.2.2 (by rw [← hT.act]; exact hactm)
    have hfd := hinv (by rcases hmm with h | h <;> simp [numMode, h]) hb0
    have hok : FracOK m.num := by
      refine ⟨hb0, ?_⟩
      rw [hfd.1, hfd.2]; decide
    have hbnd : T.act .digit b ≠ .numDigit := by
      rw [hT.act] at hactm ⊢; exact numDot_not_digit _ _ hactm
    have hfinD : T.fin .dot ≠ .a := by rw [hT.fin .dot (by decide)]; decide
    have hfinF : T.fin .frac ≠ .a := by rw [hT.fin .frac (by decide)]; decide
    have hstep := step_numDot hT cfg m b hactm hb0
    obtain ⟨pre, rest, hsplit, hrun, hoff, hnil, hsame, hdiv⟩ :=
      fracRun hT cfg (buf.drop (off + 1)) 0 m.num (i, b)
        ({ m with mode := .dot, pos := m.pos + 1, inFast := false } : St) (Or.inl rfl) rfl rfl hok
    generalize hR : fracLoop T (buf.drop (off + 1)) 0 m.num (i, b) = R at *
    have hmodeR : (if pre = [] then Mode.dot else Mode.frac) = (if R.1.div = 1 then Mode.dot else Mode.frac) := by
      by_cases hp : pre = []
      · rw [hsame hp]; simp only [hp, ↓reduceIte, hfd.2]
      · simp only [hp, ↓reduceIte, hdiv hp]
    have hrunm : runBytes T cfg m (buf.drop off) = runBytes T cfg
        ({ m with mode := if R.1.div = 1 then .dot else .frac, num := R.1, pos := m.pos + 1 + pre.length, inFast := false } : St) rest := by
      rw [hdrop]
      conv => lhs; unfold runBytes
      rw [hstep]
      simp only
      conv => lhs; rw [hsplit]
      rw [C03.runBytes_append, hrun, ← hmodeR]
    have hdead : usesStr (if R.1.div = 1 then Mode.dot else Mode.frac) = false ∧
        usesRi (if R.1.div = 1 then Mode.dot else Mode.frac) = false ∧
        usesRn (if R.1.div = 1 then Mode.dot else Mode.frac) = false := by
      split <;> exact ⟨rfl, rfl, rfl⟩
    have hfinR : T.fin (if R.1.div = 1 then Mode.dot else Mode.frac) ≠ .a := by
      split <;> assumption
    have hnm : NumInv ({ m with mode := if R.1.div = 1 then .dot else .frac, num := R.1, pos := m.pos + 1 + pre.length, inFast := false } : St) := by
      apply numInv_of_mode
      simp only
      intro hm'
      split at hm' <;> rcases hm' with hm' | hm' | hm' <;> cases hm'
    unfold iterBuf caseBuf
    have hbigf : ¬ (0 < s.num.big.length) := hbig
    simp only [hact, hfrac, ↓reduceIte, hbigf, sliceOf_tail buf off hl]
    rw [enum, hR]
    simp only [Bool.false_eq_true, ↓reduceIte]
    rw [deliver_id_of T cfg _ (by simp only; exact hfinR)]
    simp only [IterOK]
    by_cases hsl : buf.drop (off + 1) = []
    · have hacc := hnil hsl
      have hp : pre = [] ∧ rest = [] := by
        rw [hsl] at hsplit
        cases pre with
        | nil => exact ⟨rfl, by simpa using hsplit.symm⟩
        | cons x xs => simp at hsplit
      obtain ⟨hp1, hp2⟩ := hp
      subst hp1 hp2
      have hlen : buf.length ≤ off + 1 := List.drop_eq_nil_iff.mp hsl
      have hR21 : R.2.1 = i := by rw [hacc]
      have hR22 : R.2.2 = b := by rw [hacc]
      simp only [hR21, hR22, hbnd, ↓reduceIte]
      have hmin : min (off + i + 1) buf.length - off = 1 := by omega
      refine ⟨by omega, ({ m with mode := if R.1.div = 1 then .dot else .frac, num := R.1, pos := m.pos + 1 + ([] : Bytes).length, inFast := false } : St),
        hrunm.trans (by rw [drop_nil_of_le buf (off + i + 1) (by omega)]), ⟨?_, hrel.flag, hrel.ns, hrel.nm⟩, ?_, fun _ => hnm⟩
      · simp only [hmin, List.length_nil, Nat.add_zero]
        rw [← epos]
        exact nf_set_num hrel.nf _ hdead.1 hdead.2.1 hdead.2.2 _ _ _ _
      · intro hf; cases hf
    · have hk := hoff hsl
      simp only [Nat.zero_add] at hk
      have hlenk : off + 1 + pre.length + rest.length = buf.length := by
        have h2 := congrArg List.length hsplit
        simp only [List.length_drop, List.length_append] at h2
        have h3 : off + 1 < buf.length := by
          rcases Nat.lt_or_ge (off + 1) buf.length with h | h
          · exact h
          · exact absurd (List.drop_eq_nil_iff.mpr h) hsl
        omega
      have hdr : buf.drop (off + 1 + pre.length) = rest := by
        rw [← List.drop_drop, hsplit, List.drop_left]
      have hoff2 : (if T.act .digit R.2.2 = .numDigit then off + R.2.1 + 1 else off + R.2.1) + 1 = off + 1 + pre.length := by
        by_cases hD : T.act .digit R.2.2 = .numDigit
        · simp only [hD, ↓reduceIte] at hk ⊢; omega
        · simp only [hD, ↓reduceIte] at hk ⊢; omega
      rw [hoff2]
      have hmin : min (off + 1 + pre.length) buf.length - off = pre.length + 1 := by omega
      refine ⟨by omega, ({ m with mode := if R.1.div = 1 then .dot else .frac, num := R.1, pos := m.pos + 1 + pre.length, inFast := false } : St),
        hrunm.trans (by rw [hdr]), ⟨?_, hrel.flag, hrel.ns, hrel.nm⟩, ?_, fun _ => hnm⟩
      · simp only [hmin]
        rw [show m.pos + 1 + pre.length = s.pos + (pre.length + 1) by omega]
        exact nf_set_num hrel.nf _ hdead.1 hdead.2.1 hdead.2.2 _ _ _ _
      · intro hf; cases hf

end OjgVerif.Json
