import OjgVerif.JPMutW.Lemmas
/-! # The traversal of the models, one level: `visitD` and `modSeq` as a simultaneous edit of members

`visitD` re-reads a member, applies the rest of the path and writes the member back, one step after the
other. When the steps are pairwise different this is `mapKids`: every visited member is replaced by the
result of the rest of the path on it, the others stay — in whatever order the steps are listed. -/
namespace OjgVerif.JPMut
open OjgVerif OjgVerif.JPath

/-! ## `putChild` -/

theorem set_eq_mapArr (v : JV) : ∀ (xs : List JV) (i o : Nat),
    xs.set i v = mapArr (fun l' c => if l' = Loc.idx (o + i) then v else c) o xs
  | [], _, _ => rfl
  | x :: r, 0, o => by
    simp only [List.set_cons_zero, mapArr, Nat.add_zero, if_true]
    congr 1
    have e : mapArr (fun l' c => if l' = Loc.idx o then v else c) (o + 1) r = mapArr (fun _ c => c) (o + 1) r := by
      apply mapArr_congr
      intro j y _
      have : Loc.idx (o + 1 + j) ≠ Loc.idx o := by
        intro h; injection h with h; omega
      simp [this]
    rw [e, mapArr_id]
  | x :: r, i + 1, o => by
    simp only [List.set_cons_succ, mapArr]
    have hne : Loc.idx o ≠ Loc.idx (o + (i + 1)) := by
      intro h; injection h with h; omega
    simp only [hne, if_false]
    congr 1
    have := set_eq_mapArr v r i (o + 1)
    have e : o + 1 + i = o + (i + 1) := by omega
    rw [e] at this
    exact this

theorem kvInsert_eq_map (k : Bytes) (v : JV) : ∀ (kvs : List (Bytes × JV)), (keysOf kvs).Nodup → k ∈ keysOf kvs →
    kvInsert k v kvs = kvs.map fun m => (m.1, if Loc.key m.1 = Loc.key k then v else m.2)
  | [], _, h => by simp [keysOf] at h
  | m :: r, hn, hk => by
    simp only [keysOf, List.map_cons, List.nodup_cons] at hn
    cases m with
    | mk k' v' =>
    by_cases e : k' = k
    · subst e
      simp only [kvInsert, if_true, List.map_cons]
      congr 1
      symm
      calc r.map (fun m => (m.1, if Loc.key m.1 = Loc.key k' then v else m.2))
          = r.map (fun m => m) := by
            apply List.map_congr_left
            intro m' hm'
            have : m'.1 ≠ k' := by
              intro h'; exact hn.1 (by rw [← h']; exact List.mem_map_of_mem (f := (·.1)) hm')
            have : Loc.key m'.1 ≠ Loc.key k' := by intro h'; injection h' with h'; exact this h'
            simp [this]
        _ = r := by simp
    · have hk' : k ∈ keysOf r := by
        simp only [keysOf, List.map_cons, List.mem_cons] at hk
        rcases hk with h | h
        · exact absurd h.symm e
        · exact h
      have hne : Loc.key k' ≠ Loc.key k := by intro h'; injection h' with h'; exact e h'
      simp only [kvInsert, e, if_false, List.map_cons, hne]
      congr 1
      exact kvInsert_eq_map k v r hn.2 hk'

theorem lookup_isSome_mem : ∀ (kvs : List (Bytes × JV)) (k : Bytes) (c : JV), lookup k kvs = some c → k ∈ keysOf kvs := by
  intro kvs k c h
  have := lookup_mem kvs k c h
  exact List.mem_map_of_mem (f := (·.1)) this

/-- writing an existing member back is a one-point `mapKids` -/
theorem putChild_eq_mapKids (l : Loc) (v : JV) (d c : JV) (hn : TopNodup d) (h : child? l d = some c) :
    putChild l v d = mapKids (fun l' c' => if l' = l then v else c') d := by
  cases d with
  | arr xs =>
    cases l with
    | idx i =>
      simp only [putChild, mapKids]
      have := set_eq_mapArr v xs i 0
      simp only [Nat.zero_add] at this
      rw [this]
    | key k => simp [child?] at h
  | obj kvs =>
    cases l with
    | idx i => simp [child?] at h
    | key k =>
      simp only [putChild, mapKids]
      rw [kvInsert_eq_map k v kvs hn (lookup_isSome_mem kvs k c (by simpa [child?] using h))]
  | _ => cases l <;> simp [child?] at h

theorem mapArr_comp (g g' : Loc → JV → JV) : ∀ (xs : List JV) (i : Nat),
    mapArr g i (mapArr g' i xs) = mapArr (fun l c => g l (g' l c)) i xs
  | [], _ => rfl
  | x :: r, i => by simp [mapArr, mapArr_comp g g' r (i + 1)]

theorem mapKids_comp (g g' : Loc → JV → JV) (d : JV) :
    mapKids g (mapKids g' d) = mapKids (fun l c => g l (g' l c)) d := by
  cases d with
  | arr xs => simp [mapKids, mapArr_comp]
  | obj kvs => simp [mapKids, List.map_map, Function.comp_def]
  | _ => rfl

theorem TopNodup_mapKids (g : Loc → JV → JV) (d : JV) (h : TopNodup d) : TopNodup (mapKids g d) := by
  cases d with
  | obj kvs => simpa [mapKids, TopNodup, keysOf, List.map_map, Function.comp_def] using h
  | _ => simp [mapKids, TopNodup]

theorem kvInsert_self (k : Bytes) (c : JV) : ∀ (kvs : List (Bytes × JV)), lookup k kvs = some c → kvInsert k c kvs = kvs
  | [], h => by simp [lookup] at h
  | m :: r, h => by
    cases m with
    | mk k' v' =>
    simp only [lookup] at h
    by_cases e : k' = k
    · simp only [e, if_true, Option.some.injEq] at h
      simp [kvInsert, e, h]
    · simp only [e, if_false] at h
      simp [kvInsert, e, kvInsert_self k c r h]

/-- writing back what is there changes nothing -/
theorem putChild_self (l : Loc) (d c : JV) (h : child? l d = some c) : putChild l c d = d := by
  cases d with
  | arr xs =>
    cases l with
    | idx i =>
      simp only [child?] at h
      simp only [putChild]
      congr 1
      apply List.ext_getElem?
      intro j
      by_cases e : i = j
      · subst e
        obtain ⟨hl, he⟩ := List.getElem?_eq_some_iff.1 h
        simp [hl, he]
      · simp [e]
    | key k => simp [child?] at h
  | obj kvs =>
    cases l with
    | idx i => simp [child?] at h
    | key k => simp only [putChild]; rw [kvInsert_self k c kvs (by simpa [child?] using h)]
  | _ => cases l <;> simp [child?] at h

/-! ## `visitD` -/

/-- the member is handed on -/
def pass (cont : Bool) (c : JV) : Bool := !(cont && !isContainer c)

/-- `visitD` on pairwise different steps, as long as it runs to its end: every visited member is replaced
by what the rest of the path makes of it, and every one of those runs ended normally -/
theorem visitD_go (cont sib : Bool) (k : Bool → JV → R) (hk : ∀ fl c, k fl c = k false c) :
    ∀ (steps : List Loc) (fl : Bool) (d : JV), steps.Nodup → TopNodup d →
      (visitD cont sib k fl steps d).st = .go →
      (visitD cont sib k fl steps d).d =
          mapKids (fun l c => if l ∈ steps ∧ pass cont c = true then (k false c).d else c) d ∧
        ∀ l ∈ steps, ∀ c, child? l d = some c → pass cont c = true → (k false c).st = .go
  | [], fl, d, _, _, _ => by
    simp only [visitD, List.not_mem_nil, false_and, if_false]
    exact ⟨(mapKids_id d).symm, fun l h => by cases h⟩
  | l :: ls, fl, d, hnd, htn, hgo => by
    have hnd' := (List.nodup_cons.1 hnd)
    cases hc : child? l d with
    | none =>
      simp only [visitD, hc] at hgo ⊢
      obtain ⟨h1, h2⟩ := visitD_go cont sib k hk ls fl d hnd'.2 htn hgo
      refine ⟨?_, ?_⟩
      · rw [h1]
        apply mapKids_congr d htn
        intro l' c' hc'
        have : l' ≠ l := by intro e; rw [e, hc] at hc'; cases hc'
        simp [this]
      · intro l' hl' c' hc' hp
        rcases List.mem_cons.1 hl' with e | e
        · rw [e, hc] at hc'; cases hc'
        · exact h2 l' e c' hc' hp
    | some c =>
      by_cases hp : (cont && !isContainer c) = true
      · simp only [visitD, hc, hp, if_true] at hgo ⊢
        obtain ⟨h1, h2⟩ := visitD_go cont sib k hk ls fl d hnd'.2 htn hgo
        refine ⟨?_, ?_⟩
        · rw [h1]
          apply mapKids_congr d htn
          intro l' c' hc'
          by_cases e : l' = l
          · subst e
            rw [hc] at hc'; cases hc'
            have : pass cont c = false := by simp [pass, hp]
            simp [this]
          · simp [e]
        · intro l' hl' c' hc' hp'
          rcases List.mem_cons.1 hl' with e | e
          · rw [e, hc] at hc'; cases hc'
            simp [pass, hp] at hp'
          · exact h2 l' e c' hc' hp'
      · have hp' : (cont && !isContainer c) = false := by simpa using hp
        simp only [visitD, hc, hp', Bool.false_eq_true, if_false] at hgo ⊢
        rw [hk (fl && sib) c] at hgo ⊢
        cases hst : (k false c).st with
        | go =>
          simp only [hst] at hgo ⊢
          have htn' : TopNodup (putChild l (k false c).d d) := by
            rw [putChild_eq_mapKids l _ d c htn hc]; exact TopNodup_mapKids _ d htn
          obtain ⟨h1, h2⟩ := visitD_go cont sib k hk ls (fl || isContainer c) _ hnd'.2 htn' hgo
          have hother : ∀ l', l' ≠ l → child? l' (putChild l (k false c).d d) = child? l' d := by
            intro l' hne
            rw [putChild_eq_mapKids l _ d c htn hc, child?_mapKids]
            cases child? l' d <;> simp [hne]
          refine ⟨?_, ?_⟩
          · rw [h1, putChild_eq_mapKids l _ d c htn hc, mapKids_comp]
            apply mapKids_congr d htn
            intro l' c' hc'
            by_cases e : l' = l
            · subst e
              rw [hc] at hc'; cases hc'
              have : pass cont c = true := by simp [pass, hp']
              simp [this, hnd'.1]
            · simp [e]
          · intro l' hl' c' hc' hpc
            rcases List.mem_cons.1 hl' with e | e
            · rw [e, hc] at hc'; cases hc'; exact hst
            · have hne : l' ≠ l := by intro e'; rw [e'] at e; exact hnd'.1 e
              exact h2 l' e c' (by rw [hother l' hne]; exact hc') hpc
        | stop => simp [hst] at hgo
        | err e => simp [hst] at hgo
        | fault => simp [hst] at hgo
        | stale => simp [hst] at hgo

/-- when every run of the rest of the path ends normally, so does `visitD` -/
theorem visitD_st (cont sib : Bool) (k : Bool → JV → R) (hgo : ∀ fl c, (k fl c).st = .go) :
    ∀ (steps : List Loc) (fl : Bool) (d : JV), (visitD cont sib k fl steps d).st = .go
  | [], _, _ => rfl
  | l :: ls, fl, d => by
    simp only [visitD]
    cases child? l d with
    | none => exact visitD_st cont sib k hgo ls fl d
    | some c =>
      by_cases hp : (cont && !isContainer c) = true
      · simp only [hp, if_true]; exact visitD_st cont sib k hgo ls fl d
      · simp only [hp, if_false, hgo]
        exact visitD_st cont sib k hgo ls _ _

end OjgVerif.JPMut
