import OjgVerif.JPMutW.Model
/-! # Lemmas about the specification's simultaneous edits (`updAll`, `delAll`, `remAll`)

* one level at a time: an edit at a set of locations is the edit of every member at the locations below
  it (`mapKids`), followed by the edit of the value itself when "here" is in the set;
* the edits depend on the *set* of locations only;
* frame: a location that is not at, above or below a location of the set holds what it held;
* hit: a location of the set that has no other location of the set above or below it holds the edited value. -/
namespace OjgVerif.JPMut
open OjgVerif OjgVerif.JPath

/-! ## well-formed data: member names are unique -/

def keysOf (kvs : List (Bytes × JV)) : List Bytes := kvs.map (·.1)

mutual
  /-- every object of the value has pairwise different member names -/
  def WF : JV → Prop
    | .arr xs => WFL xs
    | .obj kvs => (keysOf kvs).Nodup ∧ WFK kvs
    | .null => True
    | .bool _ => True
    | .int _ => True
    | .flt _ => True
    | .big _ => True
    | .num _ => True
    | .str _ => True
  def WFL : List JV → Prop
    | [] => True
    | x :: r => WF x ∧ WFL r
  def WFK : List (Bytes × JV) → Prop
    | [] => True
    | m :: r => WF m.2 ∧ WFK r
end

theorem WFL_mem : ∀ (xs : List JV), WFL xs → ∀ x ∈ xs, WF x
  | [], _, _, h => by cases h
  | y :: r, hw, x, h => by
    simp only [WFL] at hw
    cases h with
    | head => exact hw.1
    | tail _ h' => exact WFL_mem r hw.2 x h'

theorem WFK_mem : ∀ (kvs : List (Bytes × JV)), WFK kvs → ∀ m ∈ kvs, WF m.2
  | [], _, _, h => by cases h
  | y :: r, hw, x, h => by
    simp only [WFK] at hw
    cases h with
    | head => exact hw.1
    | tail _ h' => exact WFK_mem r hw.2 x h'

theorem lookup_mem : ∀ (kvs : List (Bytes × JV)) (k : Bytes) (c : JV), lookup k kvs = some c → (k, c) ∈ kvs
  | [], _, _, h => by simp [lookup] at h
  | m :: r, k, c, h => by
    simp only [lookup] at h
    by_cases hk : m.1 = k
    · simp only [hk, if_true, Option.some.injEq] at h
      have : m = (k, c) := by cases m; simp_all
      simp [this]
    · simp only [hk, if_false] at h
      exact List.mem_cons_of_mem _ (lookup_mem r k c h)

theorem lookup_of_mem_nodup : ∀ (kvs : List (Bytes × JV)), (keysOf kvs).Nodup → ∀ m ∈ kvs, lookup m.1 kvs = some m.2
  | [], _, _, h => by cases h
  | y :: r, hn, m, h => by
    simp only [keysOf, List.map_cons, List.nodup_cons] at hn
    cases h with
    | head => simp [lookup]
    | tail _ h' =>
      have hne : y.1 ≠ m.1 := by
        intro he
        exact hn.1 (by rw [he]; exact List.mem_map_of_mem h')
      simp only [lookup, hne, if_false]
      exact lookup_of_mem_nodup r hn.2 m h'

/-- a member of a well-formed value is well-formed -/
theorem WF_child (l : Loc) (d c : JV) (hw : WF d) (h : child? l d = some c) : WF c := by
  cases d with
  | arr xs =>
    cases l with
    | idx i =>
      simp only [child?] at h
      exact WFL_mem xs (by simpa [WF] using hw) c (List.mem_of_getElem? h)
    | key k => simp [child?] at h
  | obj kvs =>
    cases l with
    | idx i => simp [child?] at h
    | key k =>
      simp only [child?] at h
      simp only [WF] at hw
      exact WFK_mem kvs hw.2 (k, c) (lookup_mem kvs k c h)
  | _ => cases l <;> simp [child?] at h

/-! ## one level -/

def mapArr (g : Loc → JV → JV) : Nat → List JV → List JV
  | _, [] => []
  | i, x :: r => g (.idx i) x :: mapArr g (i + 1) r

/-- apply `g` to every member of a container (given its location step) -/
def mapKids (g : Loc → JV → JV) : JV → JV
  | .arr xs => .arr (mapArr g 0 xs)
  | .obj kvs => .obj (kvs.map fun m => (m.1, g (.key m.1) m.2))
  | d => d

theorem mapArr_getElem? (g : Loc → JV → JV) : ∀ (xs : List JV) (i j : Nat),
    (mapArr g i xs)[j]? = (xs[j]?).map (g (.idx (i + j)))
  | [], _, _ => by simp [mapArr]
  | x :: r, i, 0 => by simp [mapArr]
  | x :: r, i, j + 1 => by
    simp only [mapArr, List.getElem?_cons_succ]
    rw [mapArr_getElem? g r (i + 1) j]
    have : i + 1 + j = i + (j + 1) := by omega
    rw [this]

theorem lookup_map (g : Loc → JV → JV) (k : Bytes) : ∀ kvs : List (Bytes × JV),
    lookup k (kvs.map fun m => (m.1, g (.key m.1) m.2)) = (lookup k kvs).map (g (.key k))
  | [] => rfl
  | m :: r => by
    simp only [List.map_cons, lookup]
    by_cases h : m.1 = k
    · simp [h]
    · simp [h, lookup_map g k r]

theorem child?_mapKids (g : Loc → JV → JV) (l : Loc) (d : JV) :
    child? l (mapKids g d) = (child? l d).map (g l) := by
  cases d with
  | arr xs =>
    cases l with
    | idx i => simp [mapKids, child?, mapArr_getElem?]
    | key k => simp [mapKids, child?]
  | obj kvs =>
    cases l with
    | idx i => simp [mapKids, child?]
    | key k => simp [mapKids, child?, lookup_map]
  | _ => cases l <;> simp [mapKids, child?]

theorem mapArr_congr {g g' : Loc → JV → JV} : ∀ (xs : List JV) (i : Nat),
    (∀ j x, xs[j]? = some x → g (.idx (i + j)) x = g' (.idx (i + j)) x) → mapArr g i xs = mapArr g' i xs
  | [], _, _ => rfl
  | x :: r, i, h => by
    simp only [mapArr]
    have h0 := h 0 x (by simp)
    simp only [Nat.add_zero] at h0
    rw [h0, mapArr_congr r (i + 1)]
    intro j y hy
    have := h (j + 1) y (by simpa using hy)
    have e : i + 1 + j = i + (j + 1) := by omega
    rw [e]; exact this

/-- the value has pairwise different member names at its top level -/
def TopNodup : JV → Prop
  | .obj kvs => (keysOf kvs).Nodup
  | _ => True

theorem WF_top (d : JV) (h : WF d) : TopNodup d := by
  cases d <;> simp_all [WF, TopNodup]

/-- `mapKids` only looks at `g` on the members that exist -/
theorem mapKids_congr {g g' : Loc → JV → JV} (d : JV) (hn : TopNodup d)
    (h : ∀ l c, child? l d = some c → g l c = g' l c) : mapKids g d = mapKids g' d := by
  cases d with
  | arr xs =>
    simp only [mapKids]
    rw [mapArr_congr xs 0]
    intro j x hx
    simpa using h (.idx j) x (by simpa [child?] using hx)
  | obj kvs =>
    simp only [mapKids]
    congr 1
    apply List.map_congr_left
    intro m hm
    rw [h (.key m.1) m.2 (by simpa [child?] using lookup_of_mem_nodup kvs hn m hm)]
  | _ => rfl

theorem mapArr_id : ∀ (xs : List JV) (i : Nat), mapArr (fun _ c => c) i xs = xs
  | [], _ => rfl
  | x :: r, i => by simp [mapArr, mapArr_id r (i + 1)]

theorem mapKids_id (d : JV) : mapKids (fun _ c => c) d = d := by
  cases d with
  | arr xs => simp [mapKids, mapArr_id]
  | obj kvs =>
    simp only [mapKids]
    congr 1
    induction kvs with
    | nil => rfl
    | cons m r ih => simp [ih]
  | _ => rfl

/-! ## location sets -/

theorem hasNil_iff (T : List Path) : hasNil T = true ↔ [] ∈ T := by
  simp only [hasNil, List.any_eq_true, List.isEmpty_iff]
  constructor
  · rintro ⟨p, hp, rfl⟩; exact hp
  · intro h; exact ⟨[], h, rfl⟩

theorem mem_strip (l : Loc) (T : List Path) (q : Path) : q ∈ strip l T ↔ l :: q ∈ T := by
  simp only [strip, List.mem_filterMap]
  constructor
  · rintro ⟨p, hp, h⟩
    cases p with
    | nil => simp at h
    | cons l' q' =>
      by_cases e : l' = l
      · simp only [e, if_true, Option.some.injEq] at h
        subst h; subst e; exact hp
      · simp [e] at h
  · intro h
    exact ⟨l :: q, h, by simp⟩

/-- the two lists name the same set of locations -/
def SameSet (T T' : List Path) : Prop := ∀ p, p ∈ T ↔ p ∈ T'

theorem SameSet.nil_eq {T T' : List Path} (h : SameSet T T') : hasNil T = hasNil T' := by
  have := h []
  rw [← hasNil_iff, ← hasNil_iff] at this
  cases h1 : hasNil T <;> cases h2 : hasNil T' <;> simp_all

theorem SameSet.strip_same {T T' : List Path} (h : SameSet T T') (l : Loc) : SameSet (strip l T) (strip l T') := by
  intro q
  rw [mem_strip, mem_strip]
  exact h _

theorem SameSet.contains_eq {T T' : List Path} (h : SameSet T T') (p : Path) : T.contains p = T'.contains p := by
  have := h p
  cases h1 : T.contains p <;> cases h2 : T'.contains p <;> simp_all

/-! ## `updAll` -/

theorem updArr_eq (m : JV → JV) (T : List Path) : ∀ (xs : List JV) (i : Nat),
    updArr m T i xs = mapArr (fun l c => updAll m (strip l T) c) i xs
  | [], _ => rfl
  | x :: r, i => by simp [updArr, mapArr, updArr_eq m T r (i + 1)]

theorem updObj_eq (m : JV → JV) (T : List Path) : ∀ (kvs : List (Bytes × JV)),
    updObj m T kvs = kvs.map fun kv => (kv.1, updAll m (strip (.key kv.1) T) kv.2)
  | [] => rfl
  | kv :: r => by simp [updObj, updObj_eq m T r]

/-- one level of `updAll`: the members at the locations below them, then the value itself -/
theorem updAll_eq (m : JV → JV) (T : List Path) (d : JV) :
    updAll m T d = if hasNil T then m (mapKids (fun l c => updAll m (strip l T) c) d)
                   else mapKids (fun l c => updAll m (strip l T) c) d := by
  cases d <;> simp [updAll, mapKids, updArr_eq, updObj_eq]

theorem strip_nil (l : Loc) : strip l [] = [] := rfl

mutual
  theorem updAll_nil (m : JV → JV) : ∀ (d : JV), updAll m [] d = d
    | .arr xs => by simp [updAll, hasNil, updArr_nil m xs 0]
    | .obj kvs => by simp [updAll, hasNil, updObj_nil m kvs]
    | .null => by simp [updAll, hasNil]
    | .bool _ => by simp [updAll, hasNil]
    | .int _ => by simp [updAll, hasNil]
    | .flt _ => by simp [updAll, hasNil]
    | .big _ => by simp [updAll, hasNil]
    | .num _ => by simp [updAll, hasNil]
    | .str _ => by simp [updAll, hasNil]
  theorem updArr_nil (m : JV → JV) : ∀ (xs : List JV) (i : Nat), updArr m [] i xs = xs
    | [], _ => rfl
    | x :: r, i => by simp [updArr, strip_nil, updAll_nil m x, updArr_nil m r (i + 1)]
  theorem updObj_nil (m : JV → JV) : ∀ (kvs : List (Bytes × JV)), updObj m [] kvs = kvs
    | [] => rfl
    | kv :: r => by simp [updObj, strip_nil, updAll_nil m kv.2, updObj_nil m r]
end

mutual
  /-- the edit depends on the set of locations only -/
  theorem updAll_congr (m : JV → JV) : ∀ (d : JV) (T T' : List Path), SameSet T T' → updAll m T d = updAll m T' d
    | .arr xs, T, T', h => by simp [updAll, h.nil_eq, updArr_congr m xs T T' h 0]
    | .obj kvs, T, T', h => by simp [updAll, h.nil_eq, updObj_congr m kvs T T' h]
    | .null, T, T', h => by simp [updAll, h.nil_eq]
    | .bool _, T, T', h => by simp [updAll, h.nil_eq]
    | .int _, T, T', h => by simp [updAll, h.nil_eq]
    | .flt _, T, T', h => by simp [updAll, h.nil_eq]
    | .big _, T, T', h => by simp [updAll, h.nil_eq]
    | .num _, T, T', h => by simp [updAll, h.nil_eq]
    | .str _, T, T', h => by simp [updAll, h.nil_eq]
  theorem updArr_congr (m : JV → JV) : ∀ (xs : List JV) (T T' : List Path), SameSet T T' → ∀ i, updArr m T i xs = updArr m T' i xs
    | [], _, _, _, _ => rfl
    | x :: r, T, T', h, i => by
      simp [updArr, updAll_congr m x _ _ (h.strip_same (.idx i)), updArr_congr m r T T' h (i + 1)]
  theorem updObj_congr (m : JV → JV) : ∀ (kvs : List (Bytes × JV)) (T T' : List Path), SameSet T T' → updObj m T kvs = updObj m T' kvs
    | [], _, _, _ => rfl
    | kv :: r, T, T', h => by
      simp [updObj, updAll_congr m kv.2 _ _ (h.strip_same (.key kv.1)), updObj_congr m r T T' h]
end

/-! ## frame and hit of `updAll` -/

theorem touched_nil (T : List Path) : touched T [] = !T.isEmpty := by
  cases T with
  | nil => rfl
  | cons p r => simp [touched]

theorem isPrefixOf_cons_cons (l : Loc) (p q : Path) : (l :: p).isPrefixOf (l :: q) = p.isPrefixOf q := by
  simp [List.isPrefixOf]

theorem touched_strip (l : Loc) (T : List Path) (q : Path) (h : touched T (l :: q) = false) :
    touched (strip l T) q = false := by
  simp only [touched, List.any_eq_false, Bool.or_eq_true, not_or, Bool.not_eq_true] at h ⊢
  intro p hp
  have := h (l :: p) ((mem_strip l T p).1 hp)
  simpa [isPrefixOf_cons_cons] using this

theorem not_hasNil_of_untouched (T : List Path) (l : Loc) (q : Path) (h : touched T (l :: q) = false) :
    hasNil T = false := by
  cases hn : hasNil T with
  | false => rfl
  | true =>
    have := (hasNil_iff T).1 hn
    simp only [touched, List.any_eq_false, Bool.or_eq_true, not_or, Bool.not_eq_true] at h
    have := h [] this
    simp [List.isPrefixOf] at this

theorem valAt_cons (l : Loc) (p : Path) (d : JV) : valAt (l :: p) d = (child? l d).bind (valAt p) := by
  simp only [valAt]
  cases child? l d <;> rfl

/-- frame: what is not at, above or below an edited location is untouched -/
theorem updAll_frame (m : JV → JV) : ∀ (q : Path) (T : List Path) (d : JV), touched T q = false →
    valAt q (updAll m T d) = valAt q d
  | [], T, d, h => by
    rw [touched_nil] at h
    have : T = [] := by cases T <;> simp_all
    subst this
    rw [updAll_nil]
  | l :: q, T, d, h => by
    rw [updAll_eq, not_hasNil_of_untouched T l q h]
    simp only [Bool.false_eq_true, if_false, valAt_cons, child?_mapKids]
    cases hc : child? l d with
    | none => rfl
    | some c =>
      simp only [Option.map_some, Option.bind_some]
      exact updAll_frame m q (strip l T) c (touched_strip l T q h)

/-- `p` is the only location of `T` at, above or below `p` -/
def Alone (T : List Path) (p : Path) : Prop := ∀ p' ∈ T, (p'.isPrefixOf p = true ∨ p.isPrefixOf p' = true) → p' = p

theorem Alone.strip_alone {T : List Path} {l : Loc} {p : Path} (h : Alone T (l :: p)) : Alone (strip l T) p := by
  intro p' hp' hc
  have := h (l :: p') ((mem_strip l T p').1 hp') (by simpa [isPrefixOf_cons_cons] using hc)
  simpa using this

/-- hit: an edited location that stands alone holds the edited value -/
theorem updAll_hit (m : JV → JV) : ∀ (p : Path) (T : List Path) (d : JV), p ∈ T → Alone T p →
    valAt p (updAll m T d) = (valAt p d).map m
  | [], T, d, hp, ha => by
    have hall : ∀ p' ∈ T, p' = [] := fun p' h' => ha p' h' (Or.inr (by simp [List.isPrefixOf]))
    have hs : ∀ l, strip l T = [] := by
      intro l
      cases hst : strip l T with
      | nil => rfl
      | cons q r =>
        have : q ∈ strip l T := by rw [hst]; simp
        have := hall _ ((mem_strip l T q).1 this)
        simp at this
    rw [updAll_eq, (hasNil_iff T).2 hp]
    simp only [if_true, hs, updAll_nil, mapKids_id, valAt, Option.map_some]
  | l :: p, T, d, hp, ha => by
    have hn : hasNil T = false := by
      cases hn : hasNil T with
      | false => rfl
      | true =>
        have := ha [] ((hasNil_iff T).1 hn) (Or.inl (by simp [List.isPrefixOf]))
        simp at this
    rw [updAll_eq, hn]
    simp only [Bool.false_eq_true, if_false, valAt_cons, child?_mapKids]
    cases hc : child? l d with
    | none => rfl
    | some c =>
      simp only [Option.map_some, Option.bind_some]
      exact updAll_hit m p (strip l T) c ((mem_strip l T p).2 hp) ha.strip_alone

end OjgVerif.JPMut
