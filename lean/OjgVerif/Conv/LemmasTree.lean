import OjgVerif.Conv.Model
/-! Facts about value trees (`T.pure`, `T.toForm`, `T.keeps`): mutual recursion over the nested
inductive type. -/
namespace OjgVerif.Conv

theorem toForm_isNull (f : Form) (t : T) : (t.toForm f).isNull = t.isNull := by
  cases t <;> simp [T.toForm, T.isNull]

mutual
  theorem toForm_toForm (f g : Form) : ∀ t : T, (t.toForm f).toForm g = t.toForm g
    | .null => rfl
    | .bool _ _ => rfl
    | .int _ _ => rfl
    | .flt _ _ => rfl
    | .str _ _ => rfl
    | .big _ _ => rfl
    | .arr _ xs => by simp [T.toForm, toFormList_toFormList f g xs]
    | .obj _ kvs => by simp [T.toForm, toFormKvs_toFormKvs f g kvs]
  theorem toFormList_toFormList (f g : Form) :
      ∀ xs : List T, T.toFormList g (T.toFormList f xs) = T.toFormList g xs
    | [] => rfl
    | x :: xs => by simp [T.toFormList, toForm_toForm f g x, toFormList_toFormList f g xs]
  theorem toFormKvs_toFormKvs (f g : Form) :
      ∀ xs : List (String × T), T.toFormKvs g (T.toFormKvs f xs) = T.toFormKvs g xs
    | [] => rfl
    | (k, x) :: xs => by simp [T.toFormKvs, toForm_toForm f g x, toFormKvs_toFormKvs f g xs]
end

mutual
  theorem toForm_of_pure (f : Form) : ∀ t : T, t.pure f = true → t.toForm f = t
    | .null, _ => rfl
    | .bool g _, h => by simp [T.pure] at h; simp [T.toForm, h]
    | .int g _, h => by simp [T.pure] at h; simp [T.toForm, h]
    | .flt g _, h => by simp [T.pure] at h; simp [T.toForm, h]
    | .str g _, h => by simp [T.pure] at h; simp [T.toForm, h]
    | .big g _, h => by simp [T.pure] at h
    | .arr g xs, h => by
      simp [T.pure] at h; simp [T.toForm, h.1, toFormList_of_pure f xs h.2]
    | .obj g kvs, h => by
      simp [T.pure] at h; simp [T.toForm, h.1, toFormKvs_of_pure f kvs h.2]
  theorem toFormList_of_pure (f : Form) : ∀ xs : List T, T.pureList f xs = true → T.toFormList f xs = xs
    | [], _ => rfl
    | x :: xs, h => by
      simp [T.pureList] at h
      simp [T.toFormList, toForm_of_pure f x h.1, toFormList_of_pure f xs h.2]
  theorem toFormKvs_of_pure (f : Form) :
      ∀ xs : List (String × T), T.pureKvs f xs = true → T.toFormKvs f xs = xs
    | [], _ => rfl
    | (k, x) :: xs, h => by
      simp [T.pureKvs] at h
      simp [T.toFormKvs, toForm_of_pure f x h.1, toFormKvs_of_pure f xs h.2]
end

mutual
  theorem pure_toForm (f f' : Form) : ∀ t : T, t.pure f' = true → (t.toForm f).pure f = true
    | .null, _ => rfl
    | .bool g _, _ => by simp [T.toForm, T.pure]
    | .int g _, _ => by simp [T.toForm, T.pure]
    | .flt g _, _ => by simp [T.toForm, T.pure]
    | .str g _, _ => by simp [T.toForm, T.pure]
    | .big g _, h => by simp [T.pure] at h
    | .arr g xs, h => by
      simp [T.pure] at h; simp [T.toForm, T.pure, pureList_toFormList f f' xs h.2]
    | .obj g kvs, h => by
      simp [T.pure] at h; simp [T.toForm, T.pure, pureKvs_toFormKvs f f' kvs h.2]
  theorem pureList_toFormList (f f' : Form) :
      ∀ xs : List T, T.pureList f' xs = true → T.pureList f (T.toFormList f xs) = true
    | [], _ => rfl
    | x :: xs, h => by
      simp [T.pureList] at h
      simp [T.toFormList, T.pureList, pure_toForm f f' x h.1, pureList_toFormList f f' xs h.2]
  theorem pureKvs_toFormKvs (f f' : Form) :
      ∀ xs : List (String × T), T.pureKvs f' xs = true → T.pureKvs f (T.toFormKvs f xs) = true
    | [], _ => rfl
    | (k, x) :: xs, h => by
      simp [T.pureKvs] at h
      simp [T.toFormKvs, T.pureKvs, pure_toForm f f' x h.1, pureKvs_toFormKvs f f' xs h.2]
end

/-- if some invariant of the options rules out dropping and survives the recursive calls, every
member is kept -/
structure KeepInv (k : Kind) (P : Opt → Prop) : Prop where
  drop : ∀ o, P o → k.dropsNil o = false
  arr : ∀ o, P o → P (k.arrOpt o)
  map : ∀ o, P o → P (k.mapOpt o)

mutual
  theorem keeps_of_inv {k : Kind} {P : Opt → Prop} (inv : KeepInv k P) :
      ∀ (t : T) (o : Opt), P o → t.keeps k o = true
    | .null, _, _ => rfl
    | .bool _ _, _, _ => rfl
    | .int _ _, _, _ => rfl
    | .flt _ _, _, _ => rfl
    | .str _ _, _, _ => rfl
    | .big _ _, _, _ => rfl
    | .arr _ xs, o, h => by simp [T.keeps, keepsList_of_inv inv xs _ (inv.arr o h)]
    | .obj _ kvs, o, h => by simp [T.keeps, keepsKvs_of_inv inv kvs o h]
  theorem keepsList_of_inv {k : Kind} {P : Opt → Prop} (inv : KeepInv k P) :
      ∀ (xs : List T) (o : Opt), P o → T.keepsList k o xs = true
    | [], _, _ => rfl
    | x :: xs, o, h => by simp [T.keepsList, keeps_of_inv inv x o h, keepsList_of_inv inv xs o h]
  theorem keepsKvs_of_inv {k : Kind} {P : Opt → Prop} (inv : KeepInv k P) :
      ∀ (xs : List (String × T)) (o : Opt), P o → T.keepsKvs k o xs = true
    | [], _, _ => rfl
    | (_, x) :: xs, o, h => by
      simp [T.keepsKvs, inv.drop o h, keeps_of_inv inv x _ (inv.map o h), keepsKvs_of_inv inv xs o h]
end

end OjgVerif.Conv
