import OjgVerif.Conv.Model
/-! Facts about value trees (`T.pure`, `T.toForm`, `T.keeps`): mutual recursion over the nested
inductive type. -/
namespace OjgVerif.Conv

theorem toForm_isNull (f : Form) (b : Bool) (t : T) : (t.toForm f b).isNull = t.isNull := by
  cases t <;> cases b <;> simp [T.toForm, T.isNull]

mutual
  theorem toForm_toForm (f g : Form) (b1 b2 : Bool) :
      ∀ t : T, (t.toForm f b1).toForm g b2 = t.toForm g (b1 || b2)
    | .null => rfl
    | .bool _ _ => rfl
    | .int _ _ => rfl
    | .flt _ _ => rfl
    | .str _ _ => rfl
    | .big _ _ => rfl
    | .nilArr _ => by cases b1 <;> cases b2 <;> simp [T.toForm, T.toFormList]
    | .nilObj _ => by cases b1 <;> cases b2 <;> simp [T.toForm, T.toFormKvs]
    | .arr _ xs => by simp [T.toForm, toFormList_toFormList f g b1 b2 xs]
    | .obj _ kvs => by simp [T.toForm, toFormKvs_toFormKvs f g b1 b2 kvs]
  theorem toFormList_toFormList (f g : Form) (b1 b2 : Bool) :
      ∀ xs : List T, T.toFormList g b2 (T.toFormList f b1 xs) = T.toFormList g (b1 || b2) xs
    | [] => rfl
    | x :: xs => by
      simp [T.toFormList, toForm_toForm f g b1 b2 x, toFormList_toFormList f g b1 b2 xs]
  theorem toFormKvs_toFormKvs (f g : Form) (b1 b2 : Bool) :
      ∀ xs : List (String × T), T.toFormKvs g b2 (T.toFormKvs f b1 xs) = T.toFormKvs g (b1 || b2) xs
    | [] => rfl
    | (k, x) :: xs => by
      simp [T.toFormKvs, toForm_toForm f g b1 b2 x, toFormKvs_toFormKvs f g b1 b2 xs]
end

mutual
  /-- writing a value in the form it already has changes nothing — provided nil containers are not
  filled (`b = false`) or there are none -/
  theorem toForm_of_pure (f : Form) (b : Bool) :
      ∀ t : T, t.pure f = true → (b = false ∨ t.noNil = true) → t.toForm f b = t
    | .null, _, _ => rfl
    | .bool g _, h, _ => by simp [T.pure] at h; simp [T.toForm, h]
    | .int g _, h, _ => by simp [T.pure] at h; simp [T.toForm, h]
    | .flt g _, h, _ => by simp [T.pure] at h; simp [T.toForm, h]
    | .str g _, h, _ => by simp [T.pure] at h; simp [T.toForm, h]
    | .big g _, h, _ => by simp [T.pure] at h
    | .nilArr g, h, h2 => by
      simp [T.pure] at h; simp [T.noNil] at h2; simp [T.toForm, h, h2]
    | .nilObj g, h, h2 => by
      simp [T.pure] at h; simp [T.noNil] at h2; simp [T.toForm, h, h2]
    | .arr g xs, h, h2 => by
      simp [T.pure] at h; simp only [T.noNil] at h2
      simp [T.toForm, h.1, toFormList_of_pure f b xs h.2 h2]
    | .obj g kvs, h, h2 => by
      simp [T.pure] at h; simp only [T.noNil] at h2
      simp [T.toForm, h.1, toFormKvs_of_pure f b kvs h.2 h2]
  theorem toFormList_of_pure (f : Form) (b : Bool) :
      ∀ xs : List T, T.pureList f xs = true → (b = false ∨ T.noNilList xs = true) →
        T.toFormList f b xs = xs
    | [], _, _ => rfl
    | x :: xs, h, h2 => by
      simp [T.pureList] at h
      have hx : b = false ∨ x.noNil = true := h2.imp id fun h' => by simp [T.noNilList] at h'; exact h'.1
      have hr : b = false ∨ T.noNilList xs = true := h2.imp id fun h' => by simp [T.noNilList] at h'; exact h'.2
      simp [T.toFormList, toForm_of_pure f b x h.1 hx, toFormList_of_pure f b xs h.2 hr]
  theorem toFormKvs_of_pure (f : Form) (b : Bool) :
      ∀ xs : List (String × T), T.pureKvs f xs = true → (b = false ∨ T.noNilKvs xs = true) →
        T.toFormKvs f b xs = xs
    | [], _, _ => rfl
    | (k, x) :: xs, h, h2 => by
      simp [T.pureKvs] at h
      have hx : b = false ∨ x.noNil = true := h2.imp id fun h' => by simp [T.noNilKvs] at h'; exact h'.1
      have hr : b = false ∨ T.noNilKvs xs = true := h2.imp id fun h' => by simp [T.noNilKvs] at h'; exact h'.2
      simp [T.toFormKvs, toForm_of_pure f b x h.1 hx, toFormKvs_of_pure f b xs h.2 hr]
end

mutual
  theorem pure_toForm (f f' : Form) (b : Bool) : ∀ t : T, t.pure f' = true → (t.toForm f b).pure f = true
    | .null, _ => rfl
    | .bool g _, _ => by simp [T.toForm, T.pure]
    | .int g _, _ => by simp [T.toForm, T.pure]
    | .flt g _, _ => by simp [T.toForm, T.pure]
    | .str g _, _ => by simp [T.toForm, T.pure]
    | .big g _, h => by simp [T.pure] at h
    | .nilArr g, _ => by cases b <;> simp [T.toForm, T.pure, T.pureList]
    | .nilObj g, _ => by cases b <;> simp [T.toForm, T.pure, T.pureKvs]
    | .arr g xs, h => by
      simp [T.pure] at h; simp [T.toForm, T.pure, pureList_toFormList f f' b xs h.2]
    | .obj g kvs, h => by
      simp [T.pure] at h; simp [T.toForm, T.pure, pureKvs_toFormKvs f f' b kvs h.2]
  theorem pureList_toFormList (f f' : Form) (b : Bool) :
      ∀ xs : List T, T.pureList f' xs = true → T.pureList f (T.toFormList f b xs) = true
    | [], _ => rfl
    | x :: xs, h => by
      simp [T.pureList] at h
      simp [T.toFormList, T.pureList, pure_toForm f f' b x h.1, pureList_toFormList f f' b xs h.2]
  theorem pureKvs_toFormKvs (f f' : Form) (b : Bool) :
      ∀ xs : List (String × T), T.pureKvs f' xs = true → T.pureKvs f (T.toFormKvs f b xs) = true
    | [], _ => rfl
    | (k, x) :: xs, h => by
      simp [T.pureKvs] at h
      simp [T.toFormKvs, T.pureKvs, pure_toForm f f' b x h.1, pureKvs_toFormKvs f f' b xs h.2]
end

/-- if some invariant of the options rules out dropping and survives the recursive calls, every
member is kept -/
structure KeepInv (k : Kind) (P : Opt → Prop) : Prop where
  drop : ∀ o, P o → k.dropsNil o = false
  arr : ∀ o, P o → P (k.arrOpt o)
  map : ∀ o, P o → P (k.mapOpt o)

mutual
  theorem keeps_of_inv {k : Kind} {P : Opt → Prop} (inv : KeepInv k P) :
      ∀ (t : T) (o : Opt), P o → t.keeps k o = true
    | .null, _, _ => rfl
    | .bool _ _, _, _ => rfl
    | .int _ _, _, _ => rfl
    | .flt _ _, _, _ => rfl
    | .str _ _, _, _ => rfl
    | .big _ _, _, _ => rfl
    | .nilArr _, _, _ => rfl
    | .nilObj _, _, _ => rfl
    | .arr _ xs, o, h => by simp [T.keeps, keepsList_of_inv inv xs _ (inv.arr o h)]
    | .obj _ kvs, o, h => by simp [T.keeps, keepsKvs_of_inv inv kvs o h]
  theorem keepsList_of_inv {k : Kind} {P : Opt → Prop} (inv : KeepInv k P) :
      ∀ (xs : List T) (o : Opt), P o → T.keepsList k o xs = true
    | [], _, _ => rfl
    | x :: xs, o, h => by simp [T.keepsList, keeps_of_inv inv x o h, keepsList_of_inv inv xs o h]
  theorem keepsKvs_of_inv {k : Kind} {P : Opt → Prop} (inv : KeepInv k P) :
      ∀ (xs : List (String × T)) (o : Opt), P o → T.keepsKvs k o xs = true
    | [], _, _ => rfl
    | (_, x) :: xs, o, h => by
      simp [T.keepsKvs, inv.drop o h, keeps_of_inv inv x _ (inv.map o h), keepsKvs_of_inv inv xs o h]
end

end OjgVerif.Conv
