import OjgVerif.Conv.Model
/-! Helper lemmas of the `conv` family: `mapOpt`, heap extension, the frame rule for `denote`/`owns`,
`Reach` versus `owns`. -/
namespace OjgVerif.Conv

/-! ## mapOpt -/

theorem mapOpt_cons_some {α β : Type} {d : α → Option β} {x : α} {xs : List α} {ys : List β} :
    mapOpt d (x :: xs) = some ys ↔ ∃ y ys', d x = some y ∧ mapOpt d xs = some ys' ∧ ys = y :: ys' := by
  constructor
  · intro h
    simp only [mapOpt] at h
    cases hx : d x with
    | none => simp [hx] at h
    | some y =>
      cases hr : mapOpt d xs with
      | none => simp [hx, hr] at h
      | some ys' =>
        simp [hx, hr] at h
        exact ⟨y, ys', rfl, rfl, h.symm⟩
  · rintro ⟨y, ys', hx, hr, rfl⟩
    simp [mapOpt, hx, hr]

theorem mapOptKv_cons_some {α β : Type} {d : α → Option β} {k : String} {x : α}
    {xs : List (String × α)} {ys : List (String × β)} :
    mapOptKv d ((k, x) :: xs) = some ys ↔
      ∃ y ys', d x = some y ∧ mapOptKv d xs = some ys' ∧ ys = (k, y) :: ys' := by
  constructor
  · intro h
    simp only [mapOptKv] at h
    cases hx : d x with
    | none => simp [hx] at h
    | some y =>
      cases hr : mapOptKv d xs with
      | none => simp [hx, hr] at h
      | some ys' =>
        simp [hx, hr] at h
        exact ⟨y, ys', rfl, rfl, h.symm⟩
  · rintro ⟨y, ys', hx, hr, rfl⟩
    simp [mapOptKv, hx, hr]

theorem mapOpt_mono {α β : Type} {d d' : α → Option β} :
    ∀ {xs : List α} {ys : List β}, (∀ x y, x ∈ xs → d x = some y → d' x = some y) →
      mapOpt d xs = some ys → mapOpt d' xs = some ys
  | [], _, _, h => by simpa [mapOpt] using h
  | x :: xs, ys, hm, h => by
    obtain ⟨y, ys', hx, hr, rfl⟩ := mapOpt_cons_some.1 h
    exact mapOpt_cons_some.2 ⟨y, ys', hm x y (by simp) hx,
      mapOpt_mono (fun x' y' hx' => hm x' y' (by simp [hx'])) hr, rfl⟩

theorem mapOptKv_mono {α β : Type} {d d' : α → Option β} :
    ∀ {xs : List (String × α)} {ys : List (String × β)},
      (∀ x y, x ∈ xs.map (·.2) → d x = some y → d' x = some y) →
      mapOptKv d xs = some ys → mapOptKv d' xs = some ys
  | [], _, _, h => by simpa [mapOptKv] using h
  | (k, x) :: xs, ys, hm, h => by
    obtain ⟨y, ys', hx, hr, rfl⟩ := mapOptKv_cons_some.1 h
    exact mapOptKv_cons_some.2 ⟨y, ys', hm x y (by simp) hx,
      mapOptKv_mono (fun x' y' hx' => hm x' y' (by simp at hx' ⊢; exact Or.inr hx')) hr, rfl⟩

theorem mapOpt_congr {α β : Type} {d d' : α → Option β} :
    ∀ {xs : List α}, (∀ x, x ∈ xs → d x = d' x) → mapOpt d xs = mapOpt d' xs
  | [], _ => rfl
  | x :: xs, h => by
    simp only [mapOpt]
    rw [h x (by simp), mapOpt_congr (fun x' hx' => h x' (by simp [hx']))]

theorem mapOptKv_congr {α β : Type} {d d' : α → Option β} :
    ∀ {xs : List (String × α)}, (∀ x, x ∈ xs.map (·.2) → d x = d' x) → mapOptKv d xs = mapOptKv d' xs
  | [], _ => rfl
  | (k, x) :: xs, h => by
    simp only [mapOptKv]
    rw [h x (by simp), mapOptKv_congr (fun x' hx' => h x' (by simp at hx' ⊢; exact Or.inr hx'))]

/-! ## heap extension -/

structure Ext (H H' : Heap) : Prop where
  len : H.length ≤ H'.length
  get : ∀ (a : Nat) (c : Cell), H[a]? = some c → H'[a]? = some c

theorem Ext.refl (H : Heap) : Ext H H := ⟨Nat.le_refl _, fun _ _ h => h⟩

theorem Ext.trans {H1 H2 H3 : Heap} (a : Ext H1 H2) (b : Ext H2 H3) : Ext H1 H3 :=
  ⟨Nat.le_trans a.len b.len, fun x c h => b.get x c (a.get x c h)⟩

theorem Ext.append (H : Heap) (l : List Cell) : Ext H (H ++ l) :=
  ⟨by simp, fun a c h => by
    have hl : a < H.length := by
      rcases Nat.lt_or_ge a H.length with h' | h'
      · exact h'
      · rw [List.getElem?_eq_none h'] at h; cases h
    rw [List.getElem?_append_left hl]; exact h⟩

/-- old cells are untouched by an extension -/
theorem Ext.old {H H' : Heap} (e : Ext H H') {a : Addr} (h : a < H.length) : H'[a]? = H[a]? := by
  have : H[a]? = some H[a] := List.getElem?_eq_getElem h
  rw [this]; exact e.get a _ this

theorem getElem?_lt {H : Heap} {a : Addr} {c : Cell} (h : H[a]? = some c) : a < H.length := by
  rcases Nat.lt_or_ge a H.length with h' | h'
  · exact h'
  · rw [List.getElem?_eq_none h'] at h; cases h

theorem get_append_new (H : Heap) (c : Cell) : (H ++ [c])[H.length]? = some c := by
  simp

/-! ## unfolding `denote` and `owns` at containers -/

theorem denote_arr_some {n : Nat} {H : Heap} {f : Form} {a : Addr} {t : T} :
    denote (n + 1) H (.arr f a) = some t ↔
      ∃ xs ts, H[a]? = some (.arr xs) ∧ mapOpt (denote n H) xs = some ts ∧ t = .arr f ts := by
  simp only [denote]
  constructor
  · intro h
    cases hc : H[a]? with
    | none => simp [hc] at h
    | some c =>
      cases c with
      | obj kvs => simp [hc] at h
      | arr xs =>
        cases hm : mapOpt (denote n H) xs with
        | none => simp [hc, hm] at h
        | some ts =>
          simp [hc, hm] at h
          exact ⟨xs, ts, rfl, hm, h.symm⟩
  · rintro ⟨xs, ts, hc, hm, rfl⟩
    simp [hc, hm]

theorem denote_obj_some {n : Nat} {H : Heap} {f : Form} {a : Addr} {t : T} :
    denote (n + 1) H (.obj f a) = some t ↔
      ∃ kvs ts, H[a]? = some (.obj kvs) ∧ mapOptKv (denote n H) kvs = some ts ∧ t = .obj f ts := by
  simp only [denote]
  constructor
  · intro h
    cases hc : H[a]? with
    | none => simp [hc] at h
    | some c =>
      cases c with
      | arr xs => simp [hc] at h
      | obj kvs =>
        cases hm : mapOptKv (denote n H) kvs with
        | none => simp [hc, hm] at h
        | some ts =>
          simp [hc, hm] at h
          exact ⟨kvs, ts, rfl, hm, h.symm⟩
  · rintro ⟨kvs, ts, hc, hm, rfl⟩
    simp [hc, hm]

theorem owns_arr_some {n : Nat} {H : Heap} {f : Form} {a : Addr} {S : List Addr} :
    owns (n + 1) H (.arr f a) = some S ↔
      ∃ xs Ss, H[a]? = some (.arr xs) ∧ mapOpt (owns n H) xs = some Ss ∧ S = a :: Ss.flatten := by
  simp only [owns]
  constructor
  · intro h
    cases hc : H[a]? with
    | none => simp [hc] at h
    | some c =>
      cases c with
      | obj kvs => simp [hc] at h
      | arr xs =>
        cases hm : mapOpt (owns n H) xs with
        | none => simp [hc, hm] at h
        | some Ss =>
          simp [hc, hm] at h
          exact ⟨xs, Ss, rfl, hm, h.symm⟩
  · rintro ⟨xs, Ss, hc, hm, rfl⟩
    simp [hc, hm]

theorem owns_obj_some {n : Nat} {H : Heap} {f : Form} {a : Addr} {S : List Addr} :
    owns (n + 1) H (.obj f a) = some S ↔
      ∃ kvs Ss, H[a]? = some (.obj kvs) ∧ mapOpt (owns n H) (kvs.map (·.2)) = some Ss ∧
        S = a :: Ss.flatten := by
  simp only [owns]
  constructor
  · intro h
    cases hc : H[a]? with
    | none => simp [hc] at h
    | some c =>
      cases c with
      | arr xs => simp [hc] at h
      | obj kvs =>
        cases hm : mapOpt (owns n H) (kvs.map (·.2)) with
        | none => simp [hc, hm] at h
        | some Ss =>
          simp [hc, hm] at h
          exact ⟨kvs, Ss, rfl, hm, h.symm⟩
  · rintro ⟨kvs, Ss, hc, hm, rfl⟩
    simp [hc, hm]

/-! ## denote / owns under extension -/

theorem denote_ext {H H' : Heap} (e : Ext H H') :
    ∀ (n : Nat) (r : Ref) (t : T), denote n H r = some t → denote n H' r = some t
  | 0, r, t, h => by simpa [denote] using h
  | n + 1, r, t, h => by
    cases r with
    | arr f a =>
      obtain ⟨xs, ts, hc, hm, rfl⟩ := denote_arr_some.1 h
      exact denote_arr_some.2 ⟨xs, ts, e.get a _ hc,
        mapOpt_mono (fun x y _ hx => denote_ext e n x y hx) hm, rfl⟩
    | obj f a =>
      obtain ⟨kvs, ts, hc, hm, rfl⟩ := denote_obj_some.1 h
      exact denote_obj_some.2 ⟨kvs, ts, e.get a _ hc,
        mapOptKv_mono (fun x y _ hx => denote_ext e n x y hx) hm, rfl⟩
    | _ => simpa [denote] using h

theorem owns_ext {H H' : Heap} (e : Ext H H') :
    ∀ (n : Nat) (r : Ref) (S : List Addr), owns n H r = some S → owns n H' r = some S
  | 0, r, S, h => by simpa [owns] using h
  | n + 1, r, S, h => by
    cases r with
    | arr f a =>
      obtain ⟨xs, Ss, hc, hm, rfl⟩ := owns_arr_some.1 h
      exact owns_arr_some.2 ⟨xs, Ss, e.get a _ hc,
        mapOpt_mono (fun x y _ hx => owns_ext e n x y hx) hm, rfl⟩
    | obj f a =>
      obtain ⟨kvs, Ss, hc, hm, rfl⟩ := owns_obj_some.1 h
      exact owns_obj_some.2 ⟨kvs, Ss, e.get a _ hc,
        mapOpt_mono (fun x y _ hx => owns_ext e n x y hx) hm, rfl⟩
    | _ => simpa [owns] using h

/-! ## more about mapOpt -/

theorem mapOpt_mem {α β : Type} {d : α → Option β} :
    ∀ {xs : List α} {ys : List β}, mapOpt d xs = some ys → ∀ x, x ∈ xs → ∃ y, d x = some y ∧ y ∈ ys
  | [], _, _, x, hx => by cases hx
  | x0 :: xs, ys, h, x, hx => by
    obtain ⟨y, ys', h0, hr, rfl⟩ := mapOpt_cons_some.1 h
    rcases List.mem_cons.1 hx with rfl | hx'
    · exact ⟨y, h0, by simp⟩
    · obtain ⟨y', hy', hm⟩ := mapOpt_mem hr x hx'
      exact ⟨y', hy', by simp [hm]⟩

theorem mapOpt_mem_inv {α β : Type} {d : α → Option β} :
    ∀ {xs : List α} {ys : List β}, mapOpt d xs = some ys → ∀ y, y ∈ ys → ∃ x, x ∈ xs ∧ d x = some y
  | [], ys, h, y, hy => by simp [mapOpt] at h; subst h; cases hy
  | x0 :: xs, ys, h, y, hy => by
    obtain ⟨y0, ys', h0, hr, rfl⟩ := mapOpt_cons_some.1 h
    rcases List.mem_cons.1 hy with rfl | hy'
    · exact ⟨x0, by simp, h0⟩
    · obtain ⟨x, hx, hd⟩ := mapOpt_mem_inv hr y hy'
      exact ⟨x, by simp [hx], hd⟩

theorem mapOptKv_mem {α β : Type} {d : α → Option β} :
    ∀ {xs : List (String × α)} {ys : List (String × β)}, mapOptKv d xs = some ys →
      ∀ x, x ∈ xs.map (·.2) → ∃ y, d x = some y
  | [], _, _, x, hx => by cases hx
  | (k, x0) :: xs, ys, h, x, hx => by
    obtain ⟨y, ys', h0, hr, rfl⟩ := mapOptKv_cons_some.1 h
    simp only [List.map_cons, List.mem_cons] at hx
    rcases hx with rfl | hx'
    · exact ⟨y, h0⟩
    · exact mapOptKv_mem hr x hx'

theorem mapOpt_exists {α β : Type} {d : α → Option β} :
    ∀ {xs : List α}, (∀ x, x ∈ xs → ∃ y, d x = some y) → ∃ ys, mapOpt d xs = some ys
  | [], _ => ⟨[], rfl⟩
  | x :: xs, h => by
    obtain ⟨y, hy⟩ := h x (by simp)
    obtain ⟨ys, hys⟩ := mapOpt_exists (xs := xs) fun x' hx' => h x' (by simp [hx'])
    exact ⟨y :: ys, mapOpt_cons_some.2 ⟨y, ys, hy, hys, rfl⟩⟩

theorem mem_flatten_of {Ss : List (List Addr)} {S : List Addr} {a : Addr} (hS : S ∈ Ss) (ha : a ∈ S) :
    a ∈ Ss.flatten := List.mem_flatten.2 ⟨S, hS, ha⟩

/-! ## sizes, existence -/

theorem owns_scalar {n : Nat} {H : Heap} {r : Ref} {S : List Addr} (hr : r.addr? = none)
    (h : owns n H r = some S) : S = [] := by
  cases n <;> cases r <;> simp_all [owns, denoteScalar, Ref.addr?]

theorem owns_lt : ∀ (n : Nat) (H : Heap) (r : Ref) (S : List Addr), owns n H r = some S →
    ∀ a, a ∈ S → a < H.length
  | 0, H, r, S, h, a, ha => by
    cases r <;> simp_all [owns, denoteScalar]
  | n + 1, H, r, S, h, a, ha => by
    cases r with
    | arr f a0 =>
      obtain ⟨xs, Ss, hc, hm, rfl⟩ := owns_arr_some.1 h
      rcases List.mem_cons.1 ha with rfl | ha'
      · exact getElem?_lt hc
      · obtain ⟨Sx, hSx, hax⟩ := List.mem_flatten.1 ha'
        obtain ⟨x, _, hd⟩ := mapOpt_mem_inv hm Sx hSx
        exact owns_lt n H x Sx hd a hax
    | obj f a0 =>
      obtain ⟨kvs, Ss, hc, hm, rfl⟩ := owns_obj_some.1 h
      rcases List.mem_cons.1 ha with rfl | ha'
      · exact getElem?_lt hc
      · obtain ⟨Sx, hSx, hax⟩ := List.mem_flatten.1 ha'
        obtain ⟨x, _, hd⟩ := mapOpt_mem_inv hm Sx hSx
        exact owns_lt n H x Sx hd a hax
    | _ => simp_all [owns, denoteScalar]

/-- a root that denotes a value has a finite traversal -/
theorem denote_owns : ∀ (n : Nat) (H : Heap) (r : Ref) (t : T), denote n H r = some t →
    ∃ S, owns n H r = some S
  | 0, H, r, t, h => by
    cases r <;> simp_all [owns, denote, denoteScalar]
  | n + 1, H, r, t, h => by
    cases r with
    | arr f a0 =>
      obtain ⟨xs, ts, hc, hm, rfl⟩ := denote_arr_some.1 h
      obtain ⟨Ss, hSs⟩ := mapOpt_exists (d := owns n H) (xs := xs) fun x hx => by
        obtain ⟨y, hy, _⟩ := mapOpt_mem hm x hx
        exact denote_owns n H x y hy
      exact ⟨_, owns_arr_some.2 ⟨xs, Ss, hc, hSs, rfl⟩⟩
    | obj f a0 =>
      obtain ⟨kvs, ts, hc, hm, rfl⟩ := denote_obj_some.1 h
      obtain ⟨Ss, hSs⟩ := mapOpt_exists (d := owns n H) (xs := kvs.map (·.2)) fun x hx => by
        obtain ⟨y, hy⟩ := mapOptKv_mem hm x hx
        exact denote_owns n H x y hy
      exact ⟨_, owns_obj_some.2 ⟨kvs, Ss, hc, hSs, rfl⟩⟩
    | _ => simp_all [owns, denote, denoteScalar]

/-! ## the frame rule: `denote` and `owns` of a root depend on the cells it owns only -/

theorem frame {H H2 : Heap} : ∀ (n : Nat) (r : Ref) (S : List Addr), owns n H r = some S →
    (∀ a, a ∈ S → H2[a]? = H[a]?) → owns n H2 r = some S ∧ denote n H2 r = denote n H r
  | 0, r, S, h, _ => ⟨by simpa [owns] using h, by simp [denote]⟩
  | n + 1, r, S, h, hag => by
    cases r with
    | arr f a0 =>
      obtain ⟨xs, Ss, hc, hm, rfl⟩ := owns_arr_some.1 h
      have hc2 : H2[a0]? = some (.arr xs) := by rw [hag a0 (by simp), hc]
      have hx : ∀ x, x ∈ xs → owns n H2 x = owns n H x ∧ denote n H2 x = denote n H x := by
        intro x hx
        obtain ⟨Sx, hSx, hmem⟩ := mapOpt_mem hm x hx
        have := frame n x Sx hSx fun a ha => hag a (by simp [mem_flatten_of hmem ha])
        exact ⟨by rw [this.1, hSx], this.2⟩
      have hd : mapOpt (denote n H2) xs = mapOpt (denote n H) xs := mapOpt_congr fun x hx' => (hx x hx').2
      refine ⟨owns_arr_some.2 ⟨xs, Ss, hc2, ?_, rfl⟩, ?_⟩
      · rw [mapOpt_congr fun x hx' => (hx x hx').1]; exact hm
      · simp only [denote, hc, hc2, hd]
    | obj f a0 =>
      obtain ⟨kvs, Ss, hc, hm, rfl⟩ := owns_obj_some.1 h
      have hc2 : H2[a0]? = some (.obj kvs) := by rw [hag a0 (by simp), hc]
      have hx : ∀ x, x ∈ kvs.map (·.2) → owns n H2 x = owns n H x ∧ denote n H2 x = denote n H x := by
        intro x hx
        obtain ⟨Sx, hSx, hmem⟩ := mapOpt_mem hm x hx
        have := frame n x Sx hSx fun a ha => hag a (by simp [mem_flatten_of hmem ha])
        exact ⟨by rw [this.1, hSx], this.2⟩
      have hd : mapOptKv (denote n H2) kvs = mapOptKv (denote n H) kvs :=
        mapOptKv_congr fun x hx' => (hx x hx').2
      refine ⟨owns_obj_some.2 ⟨kvs, Ss, hc2, ?_, rfl⟩, ?_⟩
      · rw [mapOpt_congr fun x hx' => (hx x hx').1]; exact hm
      · simp only [denote, hc, hc2, hd]
    | _ => exact ⟨by simpa [owns] using h, by simp [denote]⟩

theorem frame_list {H H2 : Heap} {n : Nat} {xs : List Ref} {Ss : List (List Addr)}
    (hm : mapOpt (owns n H) xs = some Ss) (hag : ∀ a, a ∈ Ss.flatten → H2[a]? = H[a]?) :
    mapOpt (owns n H2) xs = some Ss ∧ mapOpt (denote n H2) xs = mapOpt (denote n H) xs := by
  have hx : ∀ x, x ∈ xs → owns n H2 x = owns n H x ∧ denote n H2 x = denote n H x := by
    intro x hx
    obtain ⟨Sx, hSx, hmem⟩ := mapOpt_mem hm x hx
    have := frame n x Sx hSx fun a ha => hag a (mem_flatten_of hmem ha)
    exact ⟨by rw [this.1, hSx], this.2⟩
  exact ⟨by rw [mapOpt_congr fun x hx' => (hx x hx').1]; exact hm,
    mapOpt_congr fun x hx' => (hx x hx').2⟩

theorem frame_kvs {H H2 : Heap} {n : Nat} {kvs : List (String × Ref)} {Ss : List (List Addr)}
    (hm : mapOpt (owns n H) (kvs.map (·.2)) = some Ss) (hag : ∀ a, a ∈ Ss.flatten → H2[a]? = H[a]?) :
    mapOpt (owns n H2) (kvs.map (·.2)) = some Ss ∧
      mapOptKv (denote n H2) kvs = mapOptKv (denote n H) kvs := by
  have hx : ∀ x, x ∈ kvs.map (·.2) → owns n H2 x = owns n H x ∧ denote n H2 x = denote n H x := by
    intro x hx
    obtain ⟨Sx, hSx, hmem⟩ := mapOpt_mem hm x hx
    have := frame n x Sx hSx fun a ha => hag a (mem_flatten_of hmem ha)
    exact ⟨by rw [this.1, hSx], this.2⟩
  exact ⟨by rw [mapOpt_congr fun x hx' => (hx x hx').1]; exact hm,
    mapOptKv_congr fun x hx' => (hx x hx').2⟩

/-! ## `Reach` is what `owns` enumerates -/

theorem cell_of_addr {r : Ref} {a : Addr} (h : r.addr? = some a) :
    (∃ f, r = .arr f a) ∨ (∃ f, r = .obj f a) := by
  cases r <;> simp_all [Ref.addr?]

theorem reach_mem_owns {H : Heap} {r : Ref} {a : Addr} (hr : Reach H r a) :
    ∀ (n : Nat) (S : List Addr), owns n H r = some S → a ∈ S := by
  induction hr with
  | here hadr =>
    intro n S h
    cases n with
    | zero => rcases cell_of_addr hadr with ⟨f, rfl⟩ | ⟨f, rfl⟩ <;> simp [owns, denoteScalar] at h
    | succ n =>
      rcases cell_of_addr hadr with ⟨f, rfl⟩ | ⟨f, rfl⟩
      · obtain ⟨xs, Ss, _, _, rfl⟩ := owns_arr_some.1 h; simp
      · obtain ⟨kvs, Ss, _, _, rfl⟩ := owns_obj_some.1 h; simp
  | step hadr hc hmem _ ih =>
    intro n S h
    cases n with
    | zero => rcases cell_of_addr hadr with ⟨f, rfl⟩ | ⟨f, rfl⟩ <;> simp [owns, denoteScalar] at h
    | succ n =>
      rcases cell_of_addr hadr with ⟨f, rfl⟩ | ⟨f, rfl⟩
      · obtain ⟨xs, Ss, hc', hm, rfl⟩ := owns_arr_some.1 h
        rw [hc] at hc'; cases hc'
        obtain ⟨Sx, hSx, hin⟩ := mapOpt_mem hm _ hmem
        exact List.mem_cons_of_mem _ (mem_flatten_of hin (ih n Sx hSx))
      · obtain ⟨kvs, Ss, hc', hm, rfl⟩ := owns_obj_some.1 h
        rw [hc] at hc'; cases hc'
        obtain ⟨Sx, hSx, hin⟩ := mapOpt_mem hm _ hmem
        exact List.mem_cons_of_mem _ (mem_flatten_of hin (ih n Sx hSx))

theorem owns_mem_reach {H : Heap} : ∀ (n : Nat) (r : Ref) (S : List Addr), owns n H r = some S →
    ∀ a, a ∈ S → Reach H r a
  | 0, r, S, h, a, ha => by cases r <;> simp_all [owns, denoteScalar]
  | n + 1, r, S, h, a, ha => by
    cases r with
    | arr f a0 =>
      obtain ⟨xs, Ss, hc, hm, rfl⟩ := owns_arr_some.1 h
      rcases List.mem_cons.1 ha with rfl | ha'
      · exact .here rfl
      · obtain ⟨Sx, hSx, hax⟩ := List.mem_flatten.1 ha'
        obtain ⟨x, hx, hd⟩ := mapOpt_mem_inv hm Sx hSx
        exact .step (r := .arr f a0) rfl hc hx (owns_mem_reach n x Sx hd a hax)
    | obj f a0 =>
      obtain ⟨kvs, Ss, hc, hm, rfl⟩ := owns_obj_some.1 h
      rcases List.mem_cons.1 ha with rfl | ha'
      · exact .here rfl
      · obtain ⟨Sx, hSx, hax⟩ := List.mem_flatten.1 ha'
        obtain ⟨x, hx, hd⟩ := mapOpt_mem_inv hm Sx hSx
        exact .step (r := .obj f a0) rfl hc hx (owns_mem_reach n x Sx hd a hax)
    | _ => simp_all [owns, denoteScalar]

end OjgVerif.Conv
