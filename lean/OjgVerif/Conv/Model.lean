import OjgVerif.Conv.Spec
import OjgVerif.Gen.Conv
/-! Executable heap model of the conversions between simple and generic data (property C18).

Seven Go functions share one traversal shape — a type switch with scalar clauses, a slice clause
that ranges over the elements and a map clause that ranges over the members — and differ in the
per-clause tables below (`Kind.*`, `scalar`, `nilContainer`, `foreign`, `omits`):

| `Kind`      | Go                                              | storage                     |
|-------------|-------------------------------------------------|-----------------------------|
| `generify`  | `alt.Generify`            alt/generifier.go     | allocates (`make`, `gen.Object{}`) |
| `genAlter`  | `alt.GenAlter`            alt/generifier.go     | reuses the cell (`unsafe.Pointer` cast) |
| `simplify`  | `Node.Simplify`           gen/array.go, gen/object.go, gen/<scalar>.go | allocates |
| `nodeAlter` | `Node.Alter`              same files            | reuses the cell             |
| `genDup`    | `Node.Dup`                same files            | allocates                   |
| `decompose` | `alt.Decompose` = `alt.Dup`  alt/decompose.go   | allocates                   |
| `altAlter`  | `alt.Alter`               alt/decompose.go      | reuses the cell             |

A copying variant appends a fresh cell for every container it builds; an in-place variant writes the
converted elements back into the cell it was given and returns a reference to the SAME address seen
through the other static type. The element stores of one `range` loop are committed together after
the loop; this is indistinguishable from storing one by one unless a container is reachable from its
own elements, and on such cyclic data neither the Go code nor the model terminates (fuel runs out).

Regression tripwires over the source lines the model depends on are read from the source
(`Gen/Conv.lean`, written by tools/extract/conv.go): which recursive calls hand `opt` on (as first
examined, `GenAlter` called itself on slice elements WITHOUT its options, so below a slice the package
defaults applied — fixed in the repository since; the model follows whatever the source says), whether
there is a `json.Number` clause, `alt.DefaultOptions` after `init`, the writers' Simplifier clause, and
for every container arm whether it builds a container or writes into its argument
(`Kind.sourceArms`, `Kind.armAgrees`; `C18.inPlace_matches_source`), and for the member loops of
`Simplify` / `Dup` of gen.Array and gen.Object how each member is stored into the new container
(`Kind.elemFns`, `elemDisciplineAgrees`; `C18.copy_elements_match_source`). -/
namespace OjgVerif.Conv
open OjgVerif.Gen.Conv

/-- the two option fields the conversions look at (`ojg.Options.OmitNil`, `.OmitEmpty`) -/
structure Opt where
  omitNil : Bool
  omitEmpty : Bool
  deriving DecidableEq, Repr, Inhabited

/-- `alt.DefaultOptions` (after alt's `init`) -/
def altDefault : Opt := ⟨altDefaultOmitNil, altDefaultOmitEmpty⟩

inductive Kind where
  | generify | genAlter | simplify | nodeAlter | genDup | decompose | altAlter
  deriving DecidableEq, Repr, Inhabited

/-- static type of the containers the function converts -/
def Kind.src : Kind → Form
  | .generify | .genAlter | .decompose | .altAlter => .simple
  | .simplify | .nodeAlter | .genDup => .gen

/-- static type of the containers it returns -/
def Kind.dst : Kind → Form
  | .generify | .genAlter | .genDup => .gen
  | .simplify | .nodeAlter | .decompose | .altAlter => .simple

def Kind.inPlace : Kind → Bool
  | .genAlter | .nodeAlter | .altAlter => true
  | _ => false

/-- the Go arms a kind stands for, as (function, arm) keys of `Gen.Conv.containerArms` -/
def Kind.sourceArms : Kind → List (String × String)
  | .generify => [("Generify", "[]any"), ("Generify", "map[string]any")]
  | .genAlter => [("GenAlter", "[]any"), ("GenAlter", "map[string]any")]
  | .decompose => [("decompose", "[]any"), ("decompose", "map[string]any")]
  | .altAlter => [("alter", "[]any"), ("alter", "map[string]any")]
  | .simplify => [("Array.Simplify", "Array"), ("Object.Simplify", "Object")]
  | .nodeAlter => [("Array.Alter", "Array"), ("Object.Alter", "Object")]
  | .genDup => [("Array.Dup", "Array"), ("Object.Dup", "Object")]

/-- what the source says about one arm: (builds a container, writes into its argument) -/
def armFacts (fn arm : String) : Option (Bool × Bool) :=
  match containerArms.find? (fun e => e.1 == fn && e.2.1 == arm) with
  | some e => some e.2.2
  | none => none

/-- the arm is classified by the source exactly as the `Kind.inPlace` table says: an in-place kind
writes into its argument and builds nothing, a copying kind builds a container and does not write
into its argument -/
def Kind.armAgrees (k : Kind) (fa : String × String) : Bool :=
  match armFacts fa.1 fa.2 with
  | some (builds, writes) => builds == !k.inPlace && writes == k.inPlace
  | none => false

/-- the Go methods whose member loop a copying kind on generic data stands for (keys of
`Gen.Conv.elemStores`) -/
def Kind.elemFns : Kind → List String
  | .simplify => ["Array.Simplify", "Object.Simplify"]
  | .genDup => ["Array.Dup", "Object.Dup"]
  | _ => []

/-- The copy discipline of the model against the member loop of the source. In the model every member
of a container, WHATEVER its kind, goes through the recursive conversion (`forEach (conv k n _)`,
`forEachKv (conv k n _) _`): a container member of either sort gets a fresh cell, a scalar is carried
over as an immutable value, nil stays nil. The source agrees if every store into the container being
built is unconditional (apart from the `m == nil` test) and stores either nil for a nil member or the
result of the dynamically dispatched `m.<Method>()`; a store of the member itself ("shared"), a store
under a type switch on the member (some kinds converted, others not) or under another condition does
not. -/
def elemDisciplineAgrees (fn : String) : Bool :=
  let ss := elemStores.filter (fun s => s.1 == fn)
  ss.any (fun s => s.2.2 == "rec") &&
    ss.all (fun s => s.2.1 == "" && (s.2.2 == "rec" || s.2.2 == "nil"))

/-- a nil slice / nil map comes back as a new empty container (`make(gen.Array, len(tv))`,
`gen.Object{}`, `make([]any, len(tv))`, `map[string]any{}`); the other conversions hand nil on
(`var dup []any; if n != nil {…}; return dup`, the cast of a nil slice, an empty range loop) -/
def Kind.fillsNil : Kind → Bool
  | .generify | .decompose => true
  | _ => false

/-- options handed to the recursive call on a slice element -/
def Kind.arrOpt (k : Kind) (opt : Opt) : Opt :=
  match k with
  | .generify => if generifyArrPassesOpt then opt else altDefault
  | .genAlter => if genAlterArrPassesOpt then opt else altDefault
  | _ => opt

/-- options handed to the recursive call on a map member -/
def Kind.mapOpt (k : Kind) (opt : Opt) : Opt :=
  match k with
  | .generify => if generifyMapPassesOpt then opt else altDefault
  | .genAlter => if genAlterMapPassesOpt then opt else altDefault
  | _ => opt

/-- scalar clauses of the type switches (`none`: a value the Go function cannot be applied to, or a
route that is not modelled) -/
def scalar (k : Kind) (r : Ref) : Option Ref :=
  match k, r with
  | _, .null => some .null                       -- `if v != nil` / `if m == nil` guards
  -- alt.Generify / alt.GenAlter: `case bool` and `case gen.Bool` etc. give the node type
  | .generify, .bool _ b => some (.bool .gen b)
  | .generify, .int _ i => some (.int .gen i)
  | .generify, .flt _ x => some (.flt .gen x)
  | .generify, .str _ s => some (.str .gen s)
  | .generify, .big .gen s => some (.big .gen s)     -- default: `v.(gen.Node)`
  | .generify, .big .simple s =>                      -- json.Number: no clause → reflection on a
    some (if generifyBigCase then .big .gen s else .null)  -- string kind → nil (finding C18-generify-number)
  | .genAlter, .bool _ b => some (.bool .gen b)
  | .genAlter, .int _ i => some (.int .gen i)
  | .genAlter, .flt _ x => some (.flt .gen x)
  | .genAlter, .str _ s => some (.str .gen s)
  | .genAlter, .big .gen s => some (.big .gen s)
  | .genAlter, .big .simple s => some (if genAlterBigCase then .big .gen s else .null)
  -- Node.Simplify / Node.Alter: methods of the node types only
  | .simplify, .bool .gen b => some (.bool .simple b)
  | .simplify, .int .gen i => some (.int .simple i)
  | .simplify, .flt .gen x => some (.flt .simple x)
  | .simplify, .str .gen s => some (.str .simple s)
  | .simplify, .big .gen s => some (.str .simple s)   -- Big.Simplify: `string(n)`
  | .nodeAlter, .bool .gen b => some (.bool .simple b)
  | .nodeAlter, .int .gen i => some (.int .simple i)
  | .nodeAlter, .flt .gen x => some (.flt .simple x)
  | .nodeAlter, .str .gen s => some (.str .simple s)
  | .nodeAlter, .big .gen s => some (.str .simple s)
  -- Node.Dup: scalars return themselves
  | .genDup, .bool .gen b => some (.bool .gen b)
  | .genDup, .int .gen i => some (.int .gen i)
  | .genDup, .flt .gen x => some (.flt .gen x)
  | .genDup, .str .gen s => some (.str .gen s)
  | .genDup, .big .gen s => some (.big .gen s)
  -- alt.decompose / alt.alter: `case nil, bool, int64, float64, string:` unchanged;
  -- json.Number reaches reflectValue, kind String → plain string;
  -- node scalars are Simplifiers: `decompose(simp.Simplify())`
  | .decompose, .bool _ b => some (.bool .simple b)
  | .decompose, .int _ i => some (.int .simple i)
  | .decompose, .flt _ x => some (.flt .simple x)
  | .decompose, .str _ s => some (.str .simple s)
  | .decompose, .big _ s => some (.str .simple s)
  | .altAlter, .bool _ b => some (.bool .simple b)
  | .altAlter, .int _ i => some (.int .simple i)
  | .altAlter, .flt _ x => some (.flt .simple x)
  | .altAlter, .str _ s => some (.str .simple s)
  | .altAlter, .big _ s => some (.str .simple s)
  | _, _ => none

/-- a container (or nil container) of the form the function does not convert -/
def foreign (k : Kind) (H : Heap) (r : Ref) : Option (Heap × Ref) :=
  match k with
  | .generify | .genAlter => some (H, r)   -- default clause: `v.(gen.Node)` → returned as it is (shared)
  | _ => none                               -- not a Node / Simplifier route not modelled

/-- nil slice (`isArr`) or nil map of the form the function converts -/
def nilContainer (k : Kind) (H : Heap) (isArr : Bool) : Heap × Ref :=
  if k.fillsNil then
    if isArr then (H ++ [.arr []], .arr k.dst H.length) else (H ++ [.obj []], .obj k.dst H.length)
  else
    (H, if isArr then .nilArr k.dst else .nilObj k.dst)

/-- `condMapSet` of alt/decompose.go and the identical switch in `alter` -/
def condOmit (opt : Opt) (H : Heap) (y : Ref) : Bool :=
  match y with
  | .null => opt.omitNil || opt.omitEmpty
  | .str .simple s => opt.omitEmpty && s.isEmpty
  | .nilArr .simple => opt.omitEmpty
  | .nilObj .simple => opt.omitEmpty
  | .arr .simple a =>
    opt.omitEmpty && (match H[a]? with | some (.arr xs) => xs.isEmpty | _ => false)
  | .obj .simple a =>
    opt.omitEmpty && (match H[a]? with | some (.obj kvs) => kvs.isEmpty | _ => false)
  | .bool .simple b => opt.omitEmpty && !b
  | .int .simple i => opt.omitEmpty && i == 0
  | _ => false

/-- the rows of `condOmit`, clause by clause, in the notation of `Gen.Conv.omitTable`: Go type of the
converted member `x`, condition under which it is left out. No row for `float64`, `json.Number`,
`time.Time` or a node of package gen: those are always stored. -/
def condOmitRows : List (String × String) :=
  [("nil", "opt.OmitNil || opt.OmitEmpty"),          -- `.null`
   ("string", "opt.OmitEmpty && len(x) == 0"),        -- `.str .simple s`
   ("[]any", "opt.OmitEmpty && len(x) == 0"),         -- `.arr .simple a` with an empty cell, `.nilArr .simple`
   ("map[string]any", "opt.OmitEmpty && len(x) == 0"),-- `.obj .simple a` with an empty cell, `.nilObj .simple`
   ("bool", "opt.OmitEmpty && !x"),                   -- `.bool .simple b`
   ("int64", "opt.OmitEmpty && x == 0")]              -- `.int .simple i`

/-- the source's table for function `fn` -/
def omitRowsOf (fn : String) : List (String × String) :=
  (omitTable.filter (fun r => r.1 == fn)).map (·.2)

/-- is the converted member value `y` left out of the resulting map? -/
def omits (k : Kind) (opt : Opt) (H : Heap) (y : Ref) : Bool :=
  match k with
  | .generify | .genAlter => y == .null && opt.omitNil     -- `if g != nil || !opt.OmitNil`
  | .decompose | .altAlter => condOmit opt H y
  | _ => false

/-- `for i, m := range tv { out[i] = rec(m) }`, threading the heap -/
def forEach (rec : Heap → Ref → Option (Heap × Ref)) : Heap → List Ref → Option (Heap × List Ref)
  | H, [] => some (H, [])
  | H, x :: xs =>
    match rec H x with
    | none => none
    | some (H1, y) =>
      match forEach rec H1 xs with
      | none => none
      | some (H2, ys) => some (H2, y :: ys)

/-- `for k, m := range tv { g := rec(m); if keep { out[k] = g } }` -/
def forEachKv (rec : Heap → Ref → Option (Heap × Ref)) (om : Heap → Ref → Bool) :
    Heap → List (String × Ref) → Option (Heap × List (String × Ref))
  | H, [] => some (H, [])
  | H, (key, x) :: xs =>
    match rec H x with
    | none => none
    | some (H1, y) =>
      match forEachKv rec om H1 xs with
      | none => none
      | some (H2, ys) => some (H2, if om H1 y then ys else (key, y) :: ys)

/-- store the finished container: a fresh cell (copying) or the old one (in place) -/
def commit (k : Kind) (H : Heap) (a : Addr) (c : Cell) : Heap × Addr :=
  if k.inPlace then (H.set a c, a) else (H ++ [c], H.length)

/-- the conversions; `n` bounds the nesting depth (Go recursion) -/
def conv (k : Kind) : Nat → Opt → Heap → Ref → Option (Heap × Ref)
  | 0, _, H, r =>
    match scalar k r with
    | some r' => some (H, r')
    | none => none
  | n + 1, opt, H, r =>
    match r with
    | .nilArr f => if f = k.src then some (nilContainer k H true) else foreign k H r
    | .nilObj f => if f = k.src then some (nilContainer k H false) else foreign k H r
    | .arr f a =>
      if f = k.src then
        match H[a]? with
        | some (.arr xs) =>
          match forEach (conv k n (k.arrOpt opt)) H xs with
          | some (H1, ys) => some ((commit k H1 a (.arr ys)).1, .arr k.dst (commit k H1 a (.arr ys)).2)
          | none => none
        | _ => none
      else foreign k H r
    | .obj f a =>
      if f = k.src then
        match H[a]? with
        | some (.obj kvs) =>
          match forEachKv (conv k n (k.mapOpt opt)) (omits k opt) H kvs with
          | some (H1, ys) => some ((commit k H1 a (.obj ys)).1, .obj k.dst (commit k H1 a (.obj ys)).2)
          | none => none
        | _ => none
      else foreign k H r
    | r =>
      match scalar k r with
      | some r' => some (H, r')
      | none => none

/-- run a pipeline of conversions, each on the result of the previous one -/
def pipeline (n : Nat) : List (Kind × Opt) → Heap → Ref → Option (Heap × Ref)
  | [], H, r => some (H, r)
  | (k, opt) :: rest, H, r =>
    match conv k n opt H r with
    | none => none
    | some (H1, r1) => pipeline n rest H1 r1

/-! ## writers (dispatch on the root only)

`oj.Writer.appendJSON` and `sen.Writer.appendSEN` have clauses for the simple types and reach a node
of package gen only in their `case alt.Simplifier:` clause, which writes `td.Simplify()` (both facts
are read from the source: `ojWriterViaSimplify`, `senWriterViaSimplify`). `w` stands for whatever the
writer does with simple data. -/

inductive WriterPkg where
  | oj | sen
  deriving DecidableEq, Repr

def WriterPkg.viaSimplify : WriterPkg → Bool
  | .oj => ojWriterViaSimplify
  | .sen => senWriterViaSimplify

def writeRoot {α : Type} (p : WriterPkg) (w : T → α) (n : Nat) (H : Heap) (r : Ref) : Option α :=
  match denote n H r with
  | none => none
  | some t =>
    if t.pure .simple then some (w t)
    else if p.viaSimplify then
      match conv .simplify n ⟨false, false⟩ H r with
      | some (H', r') =>
        match denote n H' r' with
        | some t' => some (w t')
        | none => none
      | none => none
    else none   -- a clause of its own for generic data: not modelled

/-! ## which members survive (tree level)

`T.keeps k opt t`: no member of an object anywhere in `t` is left out when `t` is converted by `k`
under `opt`, following the options exactly as the recursive calls receive them. With
`omitEmpty = false` the only values ever left out are nulls. -/

def Kind.dropsNil (k : Kind) (opt : Opt) : Bool :=
  match k with
  | .generify | .genAlter => opt.omitNil
  | .decompose | .altAlter => opt.omitNil || opt.omitEmpty
  | _ => false

mutual
  def T.keeps (k : Kind) (opt : Opt) : T → Bool
    | .arr _ xs => T.keepsList k (k.arrOpt opt) xs
    | .obj _ kvs => T.keepsKvs k opt kvs
    | _ => true
  def T.keepsList (k : Kind) (opt : Opt) : List T → Bool
    | [] => true
    | x :: xs => T.keeps k opt x && T.keepsList k opt xs
  /-- `opt` are the options of the object itself: the drop test uses them, the recursion `mapOpt` -/
  def T.keepsKvs (k : Kind) (opt : Opt) : List (String × T) → Bool
    | [] => true
    | (_, x) :: xs => !(x.isNull && k.dropsNil opt) && T.keeps k (k.mapOpt opt) x && T.keepsKvs k opt xs
end

end OjgVerif.Conv
