import OjgVerif.Common.Driver
import OjgVerif.Conv.Model
/-! Driver ops of the `conv` family (line protocol, see `Common/Driver.lean`).

`run <ops> <opts> <heap> <root>`
* `<ops>`  conversions joined by `+`, each applied to the result of the previous one:
           `generify genAlter simplify nodeAlter genDup decompose altAlter`
* `<opts>` `d` (no options passed: the package defaults) or two digits `<omitNil><omitEmpty>`
* `<heap>` cells joined by `;` (`-` for the empty heap); a cell is `a:` + references joined by `,`
           or `o:` + `<hexkey>=<reference>` joined by `,`
* `<root>` a reference: `n`; `b0 b1 B0 B1`; `i<int> I<int>`; `d<hex> D<hex>`; `s<hex> S<hex>`;
           `g<hex> G<hex>` (big-number text); `x X` nil slice; `y Y` nil map; `a<addr> A<addr>`;
           `o<addr> O<addr>` — lower case: simple form, upper case: generic form

Answer: `ok|<result tree>|<value of the input root in the final heap or ->|<occurrences of
containers below the input root in the initial heap>|<occurrences below the result root in the final
heap>` or `none` (depth bound exhausted / outside the model). An occurrence is
`<path>@<addr>@<a|o><length>`, a path is a sequence of `/i<index>` and `/k<hexkey>`. -/
namespace OjgVerif.Conv
open OjgVerif

def parseForm (c : Char) (lo : Char) : Option Form :=
  if c = lo then some .simple else if c = lo.toUpper then some .gen else none

def parseRef (s : String) : Option Ref :=
  match s.toList with
  | [] => none
  | c :: rest =>
    let body := String.ofList rest
    if c = 'n' then (if rest.isEmpty then some .null else none)
    else match parseForm c 'b' with
    | some f => if body = "1" then some (.bool f true) else if body = "0" then some (.bool f false) else none
    | none =>
    match parseForm c 'i' with
    | some f => body.toInt?.map (.int f)
    | none =>
    match parseForm c 'd' with
    | some f => some (.flt f body)
    | none =>
    match parseForm c 's' with
    | some f => some (.str f body)
    | none =>
    match parseForm c 'g' with
    | some f => some (.big f body)
    | none =>
    match parseForm c 'x' with
    | some f => if rest.isEmpty then some (.nilArr f) else none
    | none =>
    match parseForm c 'y' with
    | some f => if rest.isEmpty then some (.nilObj f) else none
    | none =>
    match parseForm c 'a' with
    | some f => body.toNat?.map (.arr f)
    | none =>
    match parseForm c 'o' with
    | some f => body.toNat?.map (.obj f)
    | none => none

def splitList (s : String) (sep : String) : List String :=
  if s = "" then [] else s.splitOn sep

def parseKv (s : String) : Option (String × Ref) :=
  match s.splitOn "=" with
  | [k, v] => (parseRef v).map fun r => (k, r)
  | _ => none

def parseCell (s : String) : Option Cell :=
  if s.startsWith "a:" then (mapOpt parseRef (splitList (s.drop 2).toString ",")).map .arr
  else if s.startsWith "o:" then (mapOpt parseKv (splitList (s.drop 2).toString ",")).map .obj
  else none

def parseHeap (s : String) : Option Heap :=
  if s = "-" then some [] else mapOpt parseCell (s.splitOn ";")

def parseKind (s : String) : Option Kind :=
  if s = "generify" then some .generify
  else if s = "genAlter" then some .genAlter
  else if s = "simplify" then some .simplify
  else if s = "nodeAlter" then some .nodeAlter
  else if s = "genDup" then some .genDup
  else if s = "decompose" then some .decompose
  else if s = "altAlter" then some .altAlter
  else none

def parseOpt (s : String) : Option Opt :=
  if s = "d" then some altDefault
  else match s.toList with
  | [a, b] =>
    if (a = '0' ∨ a = '1') ∧ (b = '0' ∨ b = '1') then some ⟨a = '1', b = '1'⟩ else none
  | _ => none

/-- container occurrences below a root, depth first, members in cell order -/
def occsList (rec : Ref → String → List String) (p : String) : Nat → List Ref → List String
  | _, [] => []
  | i, x :: xs => rec x (p ++ "/i" ++ toString i) ++ occsList rec p (i + 1) xs

def occsKvs (rec : Ref → String → List String) (p : String) : List (String × Ref) → List String
  | [] => []
  | (k, x) :: xs => rec x (p ++ "/k" ++ k) ++ occsKvs rec p xs

def occs : Nat → Heap → Ref → String → List String
  | 0, _, _, _ => []
  | n + 1, H, r, p =>
    match r with
    | .arr _ a =>
      match H[a]? with
      | some (.arr xs) =>
        (p ++ "@" ++ toString a ++ "@a" ++ toString xs.length) :: occsList (occs n H) p 0 xs
      | _ => []
    | .obj _ a =>
      match H[a]? with
      | some (.obj kvs) =>
        (p ++ "@" ++ toString a ++ "@o" ++ toString kvs.length) :: occsKvs (occs n H) p kvs
      | _ => []
    | _ => []

def joinOr (xs : List String) : String := if xs.isEmpty then "-" else String.intercalate "," xs

def runOp (ops opts heap root : String) : String :=
  match mapOpt parseKind (ops.splitOn "+"), parseOpt opts, parseHeap heap, parseRef root with
  | some ks, some opt, some H, some r =>
    let n := H.length + 2
    match pipeline n (ks.map fun k => (k, opt)) H r with
    | none => "none"
    | some (H', r') =>
      match denote n H' r' with
      | none => "none"
      | some t =>
        let orig := match denote n H' r with
          | some t0 => t0.render
          | none => "-"
        "ok|" ++ t.render ++ "|" ++ orig ++ "|" ++ joinOr (occs n H r "") ++ "|" ++ joinOr (occs n H' r' "")
  | _, _, _, _ => "bad-op"

def handle : List String → String
  | ["run", ops, opts, heap, root] => runOp ops opts heap root
  | ["denote", heap, root] =>
    match parseHeap heap, parseRef root with
    | some H, some r =>
      match denote (H.length + 2) H r with
      | some t => "ok|" ++ t.render
      | none => "none"
    | _, _ => "bad-op"
  | _ => "bad-op"

end OjgVerif.Conv
