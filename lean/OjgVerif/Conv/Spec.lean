/-! Specification side of the `conv` family (property C18): a heap of mutable container cells, the
value a root denotes, the set of cells a root can reach. Nothing here refers to the code under
verification.

A *reference* is what a Go interface value holds: an immutable scalar (carried inline — scalars have
no mutable state, so whether two of them share storage cannot be observed), a nil slice or nil map
(no storage at all), or a pointer to a container cell together with the static type through which
the cell is seen (`Form`: the plain `[]any`/`map[string]any`/`bool`/`int64`/… family or the typed
node family). A *cell* is the mutable backing store of a slice or of a map. Two references alias iff
they carry the same address.

Formalisation choices
* payloads of floats, strings, big-number texts and member names are opaque `String`s (the harness
  sends hex); nothing computes with them except the emptiness test of a string;
* a nil slice and a nil map are values of their own (`T.nilArr`, `T.nilObj`), different from the empty
  array and the empty object: strict writers print `null` for them and `reflect.DeepEqual` tells them
  apart, so "preserved exactly" has to tell them apart too. No parser delivers them; `T.noNil` says
  that a value holds none;
* a map is an association list with distinct keys; iteration order is list order (results are
  compared up to member order by the harness, and the theorems hold for every order);
* times, structs and other non-JSON-like values are outside the model. -/
namespace OjgVerif.Conv

/-- the two families of Go types a JSON-like value can be written in -/
inductive Form where
  | simple   -- nil, bool, int64, float64, string, json.Number, []any, map[string]any
  | gen      -- nil, Bool, Int, Float, String, Big, Array, Object of the node package
  deriving DecidableEq, Repr, Inhabited

abbrev Addr := Nat

inductive Ref where
  | null
  | bool (f : Form) (b : Bool)
  | int (f : Form) (i : Int)
  | flt (f : Form) (x : String)
  | str (f : Form) (s : String)
  | big (f : Form) (s : String)
  | nilArr (f : Form)
  | nilObj (f : Form)
  | arr (f : Form) (a : Addr)
  | obj (f : Form) (a : Addr)
  deriving DecidableEq, Repr, Inhabited

inductive Cell where
  | arr (xs : List Ref)
  | obj (kvs : List (String × Ref))
  deriving DecidableEq, Repr, Inhabited

/-- address = index; allocation appends -/
abbrev Heap := List Cell

/-- value trees: what a root denotes (types included: "numbers by type and value") -/
inductive T where
  | null
  | bool (f : Form) (b : Bool)
  | int (f : Form) (i : Int)
  | flt (f : Form) (x : String)
  | str (f : Form) (s : String)
  | big (f : Form) (s : String)
  | nilArr (f : Form)
  | nilObj (f : Form)
  | arr (f : Form) (xs : List T)
  | obj (f : Form) (kvs : List (String × T))
  deriving Inhabited

def Ref.addr? : Ref → Option Addr
  | .arr _ a => some a
  | .obj _ a => some a
  | _ => none

def Cell.refs : Cell → List Ref
  | .arr xs => xs
  | .obj kvs => kvs.map (·.2)

/-- `mapM` for `Option`, written out -/
def mapOpt {α β : Type} (d : α → Option β) : List α → Option (List β)
  | [] => some []
  | x :: xs =>
    match d x with
    | none => none
    | some y =>
      match mapOpt d xs with
      | none => none
      | some ys => some (y :: ys)

def mapOptKv {α β : Type} (d : α → Option β) : List (String × α) → Option (List (String × β))
  | [] => some []
  | (k, x) :: xs =>
    match d x with
    | none => none
    | some y =>
      match mapOptKv d xs with
      | none => none
      | some ys => some ((k, y) :: ys)

/-- scalars denote themselves -/
def denoteScalar : Ref → Option T
  | .null => some .null
  | .bool f b => some (.bool f b)
  | .int f i => some (.int f i)
  | .flt f x => some (.flt f x)
  | .str f s => some (.str f s)
  | .big f s => some (.big f s)
  | _ => none

/-- the value a root denotes, unfolding at most `n` levels of containers: `some t` is the explicit
finite-depth (acyclicity) hypothesis of the theorems. Sharing is allowed (a DAG unfolds to a tree). -/
def denote : Nat → Heap → Ref → Option T
  | 0, _, r => denoteScalar r
  | n + 1, H, r =>
    match r with
    | .nilArr f => some (.nilArr f)
    | .nilObj f => some (.nilObj f)
    | .arr f a =>
      match H[a]? with
      | some (.arr xs) =>
        match mapOpt (denote n H) xs with
        | some ts => some (.arr f ts)
        | none => none
      | _ => none
    | .obj f a =>
      match H[a]? with
      | some (.obj kvs) =>
        match mapOptKv (denote n H) kvs with
        | some ts => some (.obj f ts)
        | none => none
      | _ => none
    | r => denoteScalar r

/-- `Reach H r a`: the cell at `a` can be reached from root `r` -/
inductive Reach (H : Heap) : Ref → Addr → Prop where
  | here {r : Ref} {a : Addr} : r.addr? = some a → Reach H r a
  | step {r r' : Ref} {a b : Addr} {c : Cell} :
      r.addr? = some a → H[a]? = some c → r' ∈ c.refs → Reach H r' b → Reach H r b

/-- the cells visited by a full traversal from `r`, with multiplicity (executable `Reach`); no
duplicates = the structure below `r` is a tree (no cell is shared) -/
def owns : Nat → Heap → Ref → Option (List Addr)
  | 0, _, r => (denoteScalar r).map fun _ => []
  | n + 1, H, r =>
    match r with
    | .nilArr _ => some []
    | .nilObj _ => some []
    | .arr _ a =>
      match H[a]? with
      | some (.arr xs) =>
        match mapOpt (owns n H) xs with
        | some ss => some (a :: ss.flatten)
        | none => none
      | _ => none
    | .obj _ a =>
      match H[a]? with
      | some (.obj kvs) =>
        match mapOpt (owns n H) (kvs.map (·.2)) with
        | some ss => some (a :: ss.flatten)
        | none => none
      | _ => none
    | r => (denoteScalar r).map fun _ => []

/-! ## predicates and functions on value trees -/

mutual
  /-- every node is written in form `f`, and there is no big-number text (JSON-like data) -/
  def T.pure (f : Form) : T → Bool
    | .null => true
    | .bool g _ => g = f
    | .int g _ => g = f
    | .flt g _ => g = f
    | .str g _ => g = f
    | .big _ _ => false
    | .nilArr g => g = f
    | .nilObj g => g = f
    | .arr g xs => g = f && T.pureList f xs
    | .obj g kvs => g = f && T.pureKvs f kvs
  def T.pureList (f : Form) : List T → Bool
    | [] => true
    | x :: xs => T.pure f x && T.pureList f xs
  def T.pureKvs (f : Form) : List (String × T) → Bool
    | [] => true
    | (_, x) :: xs => T.pure f x && T.pureKvs f xs
end

mutual
  /-- the same value written in form `f`; with `fill` a nil slice / nil map becomes an empty one
  (what a conversion that `make`s its result does), otherwise it stays nil -/
  def T.toForm (f : Form) (fill : Bool) : T → T
    | .null => .null
    | .bool _ b => .bool f b
    | .int _ i => .int f i
    | .flt _ x => .flt f x
    | .str _ s => .str f s
    | .big _ s => .big f s
    | .nilArr _ => if fill then .arr f [] else .nilArr f
    | .nilObj _ => if fill then .obj f [] else .nilObj f
    | .arr _ xs => .arr f (T.toFormList f fill xs)
    | .obj _ kvs => .obj f (T.toFormKvs f fill kvs)
  def T.toFormList (f : Form) (fill : Bool) : List T → List T
    | [] => []
    | x :: xs => T.toForm f fill x :: T.toFormList f fill xs
  def T.toFormKvs (f : Form) (fill : Bool) : List (String × T) → List (String × T)
    | [] => []
    | (k, x) :: xs => (k, T.toForm f fill x) :: T.toFormKvs f fill xs
end

mutual
  /-- no nil slice and no nil map anywhere -/
  def T.noNil : T → Bool
    | .nilArr _ => false
    | .nilObj _ => false
    | .arr _ xs => T.noNilList xs
    | .obj _ kvs => T.noNilKvs kvs
    | _ => true
  def T.noNilList : List T → Bool
    | [] => true
    | x :: xs => T.noNil x && T.noNilList xs
  def T.noNilKvs : List (String × T) → Bool
    | [] => true
    | (_, x) :: xs => T.noNil x && T.noNilKvs xs
end

def T.isNull : T → Bool
  | .null => true
  | _ => false

/-- simple data (nil containers allowed) -/
abbrev T.Simple (t : T) : Prop := t.pure .simple = true

/-- JSON-like simple data, the domain of the property: what a JSON text can denote -/
def T.JsonLike (t : T) : Prop := t.pure .simple = true ∧ t.noNil = true

/-! ## rendering (driver output) -/

def Form.tag (f : Form) (lo up : String) : String :=
  match f with
  | .simple => lo
  | .gen => up

mutual
  def T.render : T → String
    | .null => "n"
    | .bool f b => f.tag "b" "B" ++ (if b then "1" else "0")
    | .int f i => f.tag "i" "I" ++ toString i
    | .flt f x => f.tag "d" "D" ++ x
    | .str f s => f.tag "s" "S" ++ s
    | .big f s => f.tag "g" "G" ++ s
    | .nilArr f => f.tag "x" "X"
    | .nilObj f => f.tag "y" "Y"
    | .arr f xs => f.tag "[" "<" ++ T.renderList xs ++ f.tag "]" ">"
    | .obj f kvs => f.tag "{" "(" ++ T.renderKvs kvs ++ f.tag "}" ")"
  def T.renderList : List T → String
    | [] => ""
    | [x] => x.render
    | x :: r => x.render ++ "," ++ T.renderList r
  def T.renderKvs : List (String × T) → String
    | [] => ""
    | [(k, x)] => k ++ ":" ++ x.render
    | (k, x) :: r => k ++ ":" ++ x.render ++ "," ++ T.renderKvs r
end

end OjgVerif.Conv
