import OjgVerif.Conv.LemmasConv
/-! The value clause for EVERY option setting (OmitNil and/or OmitEmpty on): what a copying conversion
returns is `T.prune k opt t` — the input written in the target form less exactly the object members
the options name.

* `alt.Generify` (and `GenAlter`): `if g != nil || !opt.OmitNil` — a member is left out iff its
  converted value is nil and OmitNil is set; OmitEmpty is not looked at.
* `alt.Decompose` = `alt.Dup` (and `alt.Alter`): `condMapSet` — with OmitNil or OmitEmpty a nil member
  is left out; with OmitEmpty also `""`, `false`, `int64(0)`, a nil or empty `[]any`, a nil or empty
  `map[string]any` (NOT `float64(0)`: condMapSet has no float clause). The test is made on the
  CONVERTED member, so emptiness is hereditary: an object all of whose members are left out is empty
  and is left out in turn (`T.pruneKvs` prunes the member first and tests the pruned value).
* elements of slices are never left out (only converted).
* `Node.Simplify`, `Node.Dup`: no options, nothing is left out. -/
namespace OjgVerif.Conv
open OjgVerif.Gen.Conv

/-- `condOmit` on value trees: the member value `y` (already converted) counts as empty under `opt` -/
def T.isEmptyFor (opt : Opt) : T → Bool
  | .null => opt.omitNil || opt.omitEmpty
  | .str .simple s => opt.omitEmpty && s.isEmpty
  | .nilArr .simple => opt.omitEmpty
  | .nilObj .simple => opt.omitEmpty
  | .arr .simple xs => opt.omitEmpty && xs.isEmpty
  | .obj .simple kvs => opt.omitEmpty && kvs.isEmpty
  | .bool .simple b => opt.omitEmpty && !b
  | .int .simple i => opt.omitEmpty && i == 0
  | _ => false

/-- `omits` on value trees -/
def T.omitted (k : Kind) (opt : Opt) (y : T) : Bool :=
  match k with
  | .generify | .genAlter => y.isNull && opt.omitNil
  | .decompose | .altAlter => y.isEmptyFor opt
  | _ => false

mutual
  /-- the value `k` returns for input `t` under `opt`: target form, nil containers filled or not as
  `k` does, members left out bottom-up, options flowing as the recursive calls hand them on -/
  def T.prune (k : Kind) (opt : Opt) : T → T
    | .null => .null
    | .bool _ b => .bool k.dst b
    | .int _ i => .int k.dst i
    | .flt _ x => .flt k.dst x
    | .str _ s => .str k.dst s
    | .big _ s => .big k.dst s
    | .nilArr _ => if k.fillsNil then .arr k.dst [] else .nilArr k.dst
    | .nilObj _ => if k.fillsNil then .obj k.dst [] else .nilObj k.dst
    | .arr _ xs => .arr k.dst (T.pruneList k (k.arrOpt opt) xs)
    | .obj _ kvs => .obj k.dst (T.pruneKvs k opt kvs)
  def T.pruneList (k : Kind) (opt : Opt) : List T → List T
    | [] => []
    | x :: xs => T.prune k opt x :: T.pruneList k opt xs
  /-- `opt` are the options of the object itself: the test uses them, the recursion `mapOpt` -/
  def T.pruneKvs (k : Kind) (opt : Opt) : List (String × T) → List (String × T)
    | [] => []
    | (key, x) :: xs =>
      if T.omitted k opt (T.prune k (k.mapOpt opt) x) then T.pruneKvs k opt xs
      else (key, T.prune k (k.mapOpt opt) x) :: T.pruneKvs k opt xs
end

theorem prune_of_scalar {k : Kind} {opt : Opt} {r : Ref} {t : T} (h : denoteScalar r = some t) :
    t.prune k opt = t.toForm k.dst k.fillsNil := by
  cases r <;> simp [denoteScalar] at h <;> subst h <;> simp [T.prune, T.toForm]

theorem mapOpt_isEmpty {α β : Type} {d : α → Option β} {xs : List α} {ys : List β}
    (h : mapOpt d xs = some ys) : xs.isEmpty = ys.isEmpty := by
  cases xs with
  | nil => simp [mapOpt] at h; subst h; rfl
  | cons x xs => obtain ⟨_, _, _, _, rfl⟩ := mapOpt_cons_some.1 h; rfl

theorem mapOptKv_isEmpty {α β : Type} {d : α → Option β} {xs : List (String × α)}
    {ys : List (String × β)} (h : mapOptKv d xs = some ys) : xs.isEmpty = ys.isEmpty := by
  cases xs with
  | nil => simp [mapOptKv] at h; subst h; rfl
  | cons x xs => obtain ⟨key, x⟩ := x; obtain ⟨_, _, _, _, rfl⟩ := mapOptKv_cons_some.1 h; rfl

/-- the heap-level test of the model and the tree-level test agree on every value -/
theorem condOmit_eq {opt : Opt} {n : Nat} {H : Heap} {y : Ref} {t : T} (hd : denote n H y = some t) :
    condOmit opt H y = t.isEmptyFor opt := by
  cases n with
  | zero =>
    cases y <;> simp [denote, denoteScalar] at hd <;> subst hd <;>
      first | rfl | (rename_i f _; cases f <;> rfl)
  | succ n =>
    cases y with
    | arr f a =>
      obtain ⟨xs, ts, hc, hm, rfl⟩ := denote_arr_some.1 hd
      cases f <;> simp [condOmit, T.isEmptyFor, hc, mapOpt_isEmpty hm]
    | obj f a =>
      obtain ⟨kvs, ts, hc, hm, rfl⟩ := denote_obj_some.1 hd
      cases f <;> simp [condOmit, T.isEmptyFor, hc, mapOptKv_isEmpty hm]
    | nilArr f => simp [denote] at hd; subst hd; cases f <;> rfl
    | nilObj f => simp [denote] at hd; subst hd; cases f <;> rfl
    | null => simp [denote, denoteScalar] at hd; subst hd; rfl
    | bool f b => simp [denote, denoteScalar] at hd; subst hd; cases f <;> rfl
    | int f b => simp [denote, denoteScalar] at hd; subst hd; cases f <;> rfl
    | flt f b => simp [denote, denoteScalar] at hd; subst hd; cases f <;> rfl
    | str f b => simp [denote, denoteScalar] at hd; subst hd; cases f <;> rfl
    | big f b => simp [denote, denoteScalar] at hd; subst hd; cases f <;> rfl

theorem isNull_of_denote {n : Nat} {H : Heap} {y : Ref} {t : T} (hd : denote n H y = some t) :
    (y == Ref.null) = t.isNull := by
  cases n with
  | zero => cases y <;> simp [denote, denoteScalar] at hd <;> subst hd <;> simp [T.isNull]
  | succ n =>
    cases y with
    | arr f a => obtain ⟨_, _, _, _, rfl⟩ := denote_arr_some.1 hd; simp [T.isNull]
    | obj f a => obtain ⟨_, _, _, _, rfl⟩ := denote_obj_some.1 hd; simp [T.isNull]
    | nilArr f => simp [denote] at hd; subst hd; simp [T.isNull]
    | nilObj f => simp [denote] at hd; subst hd; simp [T.isNull]
    | null => simp [denote, denoteScalar] at hd; subst hd; simp [T.isNull]
    | bool f b => simp [denote, denoteScalar] at hd; subst hd; simp [T.isNull]
    | int f b => simp [denote, denoteScalar] at hd; subst hd; simp [T.isNull]
    | flt f b => simp [denote, denoteScalar] at hd; subst hd; simp [T.isNull]
    | str f b => simp [denote, denoteScalar] at hd; subst hd; simp [T.isNull]
    | big f b => simp [denote, denoteScalar] at hd; subst hd; simp [T.isNull]

theorem omits_eq {k : Kind} {opt : Opt} {n : Nat} {H : Heap} {y : Ref} {t : T}
    (hd : denote n H y = some t) : omits k opt H y = t.omitted k opt := by
  cases k <;> simp only [omits, T.omitted]
  case generify => rw [isNull_of_denote hd]
  case genAlter => rw [isNull_of_denote hd]
  case decompose => exact condOmit_eq hd
  case altAlter => exact condOmit_eq hd

/-! ## copying variants, any options: the value is `prune` -/

def PruneSpec (k : Kind) (n : Nat) : Prop :=
  ∀ (opt : Opt) (H : Heap) (r : Ref) (t : T), denote n H r = some t → t.pure k.src = true →
    ∃ H' r', conv k n opt H r = some (H', r') ∧ Ext H H' ∧ denote n H' r' = some (t.prune k opt)

theorem forEach_prune {k : Kind} {n : Nat} (ih : PruneSpec k n) (opt : Opt) :
    ∀ (xs : List Ref) (H : Heap) (ts : List T), mapOpt (denote n H) xs = some ts →
      T.pureList k.src ts = true →
      ∃ H' ys, forEach (conv k n opt) H xs = some (H', ys) ∧ Ext H H' ∧
        mapOpt (denote n H') ys = some (T.pruneList k opt ts)
  | [], H, ts, hm, _ => by
    simp [mapOpt] at hm; subst hm
    exact ⟨H, [], rfl, Ext.refl H, rfl⟩
  | x :: xs, H, ts, hm, hp => by
    obtain ⟨t, ts', hx, hr, rfl⟩ := mapOpt_cons_some.1 hm
    simp only [T.pureList, Bool.and_eq_true] at hp
    obtain ⟨H1, y, hc1, e1, hd1⟩ := ih opt H x t hx hp.1
    have hr1 : mapOpt (denote n H1) xs = some ts' := mapOpt_mono (fun x y _ h => denote_ext e1 n x y h) hr
    obtain ⟨H2, ys, hc2, e2, hd2⟩ := forEach_prune ih opt xs H1 ts' hr1 hp.2
    refine ⟨H2, y :: ys, by simp [forEach, hc1, hc2], e1.trans e2, ?_⟩
    exact mapOpt_cons_some.2 ⟨_, _, denote_ext e2 n y _ hd1, hd2, rfl⟩

theorem forEachKv_prune {k : Kind} {n : Nat} (ih : PruneSpec k n) (opt : Opt) :
    ∀ (kvs : List (String × Ref)) (H : Heap) (ts : List (String × T)),
      mapOptKv (denote n H) kvs = some ts → T.pureKvs k.src ts = true →
      ∃ H' ys, forEachKv (conv k n (k.mapOpt opt)) (omits k opt) H kvs = some (H', ys) ∧ Ext H H' ∧
        mapOptKv (denote n H') ys = some (T.pruneKvs k opt ts)
  | [], H, ts, hm, _ => by
    simp [mapOptKv] at hm; subst hm
    exact ⟨H, [], rfl, Ext.refl H, rfl⟩
  | (key, x) :: kvs, H, ts, hm, hp => by
    obtain ⟨t, ts', hx, hr, rfl⟩ := mapOptKv_cons_some.1 hm
    simp only [T.pureKvs, Bool.and_eq_true] at hp
    obtain ⟨H1, y, hc1, e1, hd1⟩ := ih (k.mapOpt opt) H x t hx hp.1
    have hom : omits k opt H1 y = (t.prune k (k.mapOpt opt)).omitted k opt := omits_eq hd1
    have hr1 : mapOptKv (denote n H1) kvs = some ts' :=
      mapOptKv_mono (fun x y _ h => denote_ext e1 n x y h) hr
    obtain ⟨H2, ys, hc2, e2, hd2⟩ := forEachKv_prune ih opt kvs H1 ts' hr1 hp.2
    cases hb : (t.prune k (k.mapOpt opt)).omitted k opt with
    | true =>
      rw [hb] at hom
      exact ⟨H2, ys, by simp [forEachKv, hc1, hc2, hom], e1.trans e2, by simp [T.pruneKvs, hb, hd2]⟩
    | false =>
      rw [hb] at hom
      refine ⟨H2, (key, y) :: ys, by simp [forEachKv, hc1, hc2, hom], e1.trans e2, ?_⟩
      simp only [T.pruneKvs, hb, Bool.false_eq_true, if_false]
      exact mapOptKv_cons_some.2 ⟨_, _, denote_ext e2 n y _ hd1, hd2, rfl⟩

theorem prune_scalar {k : Kind} {n : Nat} {opt : Opt} {H : Heap} {r : Ref} {t : T}
    (hs : denoteScalar r = some t) (hp : t.pure k.src = true) :
    ∃ H' r', conv k n opt H r = some (H', r') ∧ Ext H H' ∧ denote n H' r' = some (t.prune k opt) := by
  obtain ⟨H', r', hc, e, hd, _⟩ := copy_scalar (k := k) (n := n) (opt := opt) (H := H) hs hp
  exact ⟨H', r', hc, e, by rw [prune_of_scalar hs]; exact hd⟩

/-- what a copying conversion returns, for every option setting -/
theorem prune_spec (k : Kind) (hk : k.inPlace = false) : ∀ n, PruneSpec k n
  | 0 => by
    intro opt H r t hd hp
    exact prune_scalar (by simpa [denote] using hd) hp
  | n + 1 => by
    have ih := prune_spec k hk n
    intro opt H r t hd hp
    cases r with
    | nilArr f =>
      simp only [denote, Option.some.injEq] at hd; subst hd
      have hf : f = k.src := by simpa [T.pure] using hp
      cases hfill : k.fillsNil with
      | true =>
        refine ⟨H ++ [.arr []], .arr k.dst H.length, by simp [conv, hf, nilContainer, hfill],
          Ext.append H _, ?_⟩
        exact denote_arr_some.2 ⟨[], [], get_append_new H _, rfl, by simp [T.prune, hfill]⟩
      | false =>
        exact ⟨H, .nilArr k.dst, by simp [conv, hf, nilContainer, hfill], Ext.refl H,
          by simp [denote, T.prune, hfill]⟩
    | nilObj f =>
      simp only [denote, Option.some.injEq] at hd; subst hd
      have hf : f = k.src := by simpa [T.pure] using hp
      cases hfill : k.fillsNil with
      | true =>
        refine ⟨H ++ [.obj []], .obj k.dst H.length, by simp [conv, hf, nilContainer, hfill],
          Ext.append H _, ?_⟩
        exact denote_obj_some.2 ⟨[], [], get_append_new H _, rfl, by simp [T.prune, hfill]⟩
      | false =>
        exact ⟨H, .nilObj k.dst, by simp [conv, hf, nilContainer, hfill], Ext.refl H,
          by simp [denote, T.prune, hfill]⟩
    | arr f a =>
      obtain ⟨xs, ts, hc, hm, rfl⟩ := denote_arr_some.1 hd
      simp only [T.pure, Bool.and_eq_true, decide_eq_true_eq] at hp
      obtain ⟨hf, hpl⟩ := hp
      obtain ⟨H1, ys, hfe, e1, hd1⟩ := forEach_prune ih (k.arrOpt opt) xs H ts hm hpl
      have ea := Ext.append H1 [Cell.arr ys]
      refine ⟨H1 ++ [.arr ys], .arr k.dst H1.length, ?_, e1.trans ea, ?_⟩
      · simp [conv, hf, hc, hfe, commit_copy hk]
      · exact denote_arr_some.2 ⟨ys, _, get_append_new H1 _,
          mapOpt_mono (fun x y _ h => denote_ext ea n x y h) hd1, by simp [T.prune]⟩
    | obj f a =>
      obtain ⟨kvs, ts, hc, hm, rfl⟩ := denote_obj_some.1 hd
      simp only [T.pure, Bool.and_eq_true, decide_eq_true_eq] at hp
      obtain ⟨hf, hpl⟩ := hp
      obtain ⟨H1, ys, hfe, e1, hd1⟩ := forEachKv_prune ih opt kvs H ts hm hpl
      have ea := Ext.append H1 [Cell.obj ys]
      refine ⟨H1 ++ [.obj ys], .obj k.dst H1.length, ?_, e1.trans ea, ?_⟩
      · simp [conv, hf, hc, hfe, commit_copy hk]
      · exact denote_obj_some.2 ⟨ys, _, get_append_new H1 _,
          mapOptKv_mono (fun x y _ h => denote_ext ea n x y h) hd1, by simp [T.prune]⟩
    | null => exact prune_scalar (by simpa [denote] using hd) hp
    | bool f b => exact prune_scalar (by simpa [denote] using hd) hp
    | int f i => exact prune_scalar (by simpa [denote] using hd) hp
    | flt f x => exact prune_scalar (by simpa [denote] using hd) hp
    | str f s => exact prune_scalar (by simpa [denote] using hd) hp
    | big f s => exact prune_scalar (by simpa [denote] using hd) hp

/-! ## in-place variants, any options

A member that is left out takes its cells out of the footprint: the result owns a subset `S'` of the
cells `S` the input owned (still without sharing), everything outside `S` is untouched, the root cell
is the same. -/

def AlterPruneSpec (k : Kind) (n : Nat) : Prop :=
  ∀ (opt : Opt) (H : Heap) (r : Ref) (t : T) (S : List Addr),
    denote n H r = some t → owns n H r = some S → S.Nodup → t.pure k.src = true →
    ∃ H' r', conv k n opt H r = some (H', r') ∧ H'.length = H.length ∧ (∀ a, a ∉ S → H'[a]? = H[a]?) ∧
      denote n H' r' = some (t.prune k opt) ∧ r'.addr? = r.addr? ∧
      ∃ S', owns n H' r' = some S' ∧ S'.Nodup ∧ ∀ a, a ∈ S' → a ∈ S

theorem forEach_alterPrune {k : Kind} {n : Nat} (ih : AlterPruneSpec k n) (opt : Opt) :
    ∀ (xs : List Ref) (H : Heap) (ts : List T) (Ss : List (List Addr)),
      mapOpt (denote n H) xs = some ts → mapOpt (owns n H) xs = some Ss → Ss.flatten.Nodup →
      T.pureList k.src ts = true →
      ∃ H' ys, forEach (conv k n opt) H xs = some (H', ys) ∧ H'.length = H.length ∧
        (∀ a, a ∉ Ss.flatten → H'[a]? = H[a]?) ∧
        mapOpt (denote n H') ys = some (T.pruneList k opt ts) ∧
        ∃ Ss', mapOpt (owns n H') ys = some Ss' ∧ Ss'.flatten.Nodup ∧ ∀ a, a ∈ Ss'.flatten → a ∈ Ss.flatten
  | [], H, ts, Ss, hm, ho, _, _ => by
    simp [mapOpt] at hm ho; subst hm; subst ho
    exact ⟨H, [], rfl, rfl, fun _ _ => rfl, rfl, [], rfl, by simp, by simp⟩
  | x :: xs, H, ts, Ss, hm, ho, hnd, hp => by
    obtain ⟨t, ts', hx, hr, rfl⟩ := mapOpt_cons_some.1 hm
    obtain ⟨S1, Ss0, hox, hor, rfl⟩ := mapOpt_cons_some.1 ho
    simp only [T.pureList, Bool.and_eq_true] at hp
    rw [List.flatten_cons, List.nodup_append] at hnd
    obtain ⟨hn1, hn2, hdis⟩ := hnd
    obtain ⟨H1, y, hc1, hl1, hf1, hd1, _, S1', ho1, hn1', hsub1⟩ := ih opt H x t S1 hx hox hn1 hp.1
    obtain ⟨hor1, hdeq⟩ := frame_list (H := H) (H2 := H1) hor
      (fun a ha => hf1 a fun ha1 => hdis a ha1 a ha rfl)
    have hr1 : mapOpt (denote n H1) xs = some ts' := by rw [hdeq]; exact hr
    obtain ⟨H2, ys, hc2, hl2, hf2, hd2, Ss2, ho2, hn2', hsub2⟩ :=
      forEach_alterPrune ih opt xs H1 ts' Ss0 hr1 hor1 hn2 hp.2
    obtain ⟨ho1', hd1'⟩ := frame (H := H1) (H2 := H2) n y S1' ho1
      (fun a ha => hf2 a fun ha2 => hdis a (hsub1 a ha) a ha2 rfl)
    refine ⟨H2, y :: ys, by simp [forEach, hc1, hc2], hl2.trans hl1, ?_, ?_, S1' :: Ss2, ?_, ?_, ?_⟩
    · intro a ha
      rw [List.flatten_cons, List.mem_append, not_or] at ha
      rw [hf2 a ha.2, hf1 a ha.1]
    · exact mapOpt_cons_some.2 ⟨_, _, by rw [hd1', hd1], hd2, rfl⟩
    · exact mapOpt_cons_some.2 ⟨_, _, ho1', ho2, rfl⟩
    · rw [List.flatten_cons, List.nodup_append]
      exact ⟨hn1', hn2', fun a ha b hb => hdis a (hsub1 a ha) b (hsub2 b hb)⟩
    · intro a ha
      rw [List.flatten_cons, List.mem_append] at ha ⊢
      rcases ha with ha | ha
      · exact Or.inl (hsub1 a ha)
      · exact Or.inr (hsub2 a ha)

theorem forEachKv_alterPrune {k : Kind} {n : Nat} (ih : AlterPruneSpec k n) (opt : Opt) :
    ∀ (kvs : List (String × Ref)) (H : Heap) (ts : List (String × T)) (Ss : List (List Addr)),
      mapOptKv (denote n H) kvs = some ts → mapOpt (owns n H) (kvs.map (·.2)) = some Ss →
      Ss.flatten.Nodup → T.pureKvs k.src ts = true →
      ∃ H' ys, forEachKv (conv k n (k.mapOpt opt)) (omits k opt) H kvs = some (H', ys) ∧
        H'.length = H.length ∧ (∀ a, a ∉ Ss.flatten → H'[a]? = H[a]?) ∧
        mapOptKv (denote n H') ys = some (T.pruneKvs k opt ts) ∧
        ∃ Ss', mapOpt (owns n H') (ys.map (·.2)) = some Ss' ∧ Ss'.flatten.Nodup ∧
          ∀ a, a ∈ Ss'.flatten → a ∈ Ss.flatten
  | [], H, ts, Ss, hm, ho, _, _ => by
    simp [mapOptKv] at hm; simp [mapOpt] at ho; subst hm; subst ho
    exact ⟨H, [], rfl, rfl, fun _ _ => rfl, rfl, [], rfl, by simp, by simp⟩
  | (key, x) :: kvs, H, ts, Ss, hm, ho, hnd, hp => by
    obtain ⟨t, ts', hx, hr, rfl⟩ := mapOptKv_cons_some.1 hm
    simp only [List.map_cons] at ho
    obtain ⟨S1, Ss0, hox, hor, rfl⟩ := mapOpt_cons_some.1 ho
    simp only [T.pureKvs, Bool.and_eq_true] at hp
    rw [List.flatten_cons, List.nodup_append] at hnd
    obtain ⟨hn1, hn2, hdis⟩ := hnd
    obtain ⟨H1, y, hc1, hl1, hf1, hd1, _, S1', ho1, hn1', hsub1⟩ :=
      ih (k.mapOpt opt) H x t S1 hx hox hn1 hp.1
    have hom : omits k opt H1 y = (t.prune k (k.mapOpt opt)).omitted k opt := omits_eq hd1
    obtain ⟨hor1, hdeq⟩ := frame_kvs (H := H) (H2 := H1) hor
      (fun a ha => hf1 a fun ha1 => hdis a ha1 a ha rfl)
    have hr1 : mapOptKv (denote n H1) kvs = some ts' := by rw [hdeq]; exact hr
    obtain ⟨H2, ys, hc2, hl2, hf2, hd2, Ss2, ho2, hn2', hsub2⟩ :=
      forEachKv_alterPrune ih opt kvs H1 ts' Ss0 hr1 hor1 hn2 hp.2
    obtain ⟨ho1', hd1'⟩ := frame (H := H1) (H2 := H2) n y S1' ho1
      (fun a ha => hf2 a fun ha2 => hdis a (hsub1 a ha) a ha2 rfl)
    have hfr : ∀ a, a ∉ (S1 :: Ss0).flatten → H2[a]? = H[a]? := by
      intro a ha
      rw [List.flatten_cons, List.mem_append, not_or] at ha
      rw [hf2 a ha.2, hf1 a ha.1]
    cases hb : (t.prune k (k.mapOpt opt)).omitted k opt with
    | true =>
      rw [hb] at hom
      refine ⟨H2, ys, by simp [forEachKv, hc1, hc2, hom], hl2.trans hl1, hfr,
        by simp [T.pruneKvs, hb, hd2], Ss2, ho2, hn2', ?_⟩
      intro a ha
      rw [List.flatten_cons, List.mem_append]
      exact Or.inr (hsub2 a ha)
    | false =>
      rw [hb] at hom
      refine ⟨H2, (key, y) :: ys, by simp [forEachKv, hc1, hc2, hom], hl2.trans hl1, hfr, ?_,
        S1' :: Ss2, ?_, ?_, ?_⟩
      · simp only [T.pruneKvs, hb, Bool.false_eq_true, if_false]
        exact mapOptKv_cons_some.2 ⟨_, _, by rw [hd1', hd1], hd2, rfl⟩
      · exact mapOpt_cons_some.2 ⟨_, _, ho1', ho2, rfl⟩
      · rw [List.flatten_cons, List.nodup_append]
        exact ⟨hn1', hn2', fun a ha b hb => hdis a (hsub1 a ha) b (hsub2 b hb)⟩
      · intro a ha
        rw [List.flatten_cons, List.mem_append] at ha ⊢
        rcases ha with ha | ha
        · exact Or.inl (hsub1 a ha)
        · exact Or.inr (hsub2 a ha)

theorem alterPrune_scalar {k : Kind} {n : Nat} {opt : Opt} {H : Heap} {r : Ref} {t : T} {S : List Addr}
    (hs : denoteScalar r = some t) (ho : owns n H r = some S) (hp : t.pure k.src = true) :
    ∃ H' r', conv k n opt H r = some (H', r') ∧ H'.length = H.length ∧ (∀ a, a ∉ S → H'[a]? = H[a]?) ∧
      denote n H' r' = some (t.prune k opt) ∧ r'.addr? = r.addr? ∧
      ∃ S', owns n H' r' = some S' ∧ S'.Nodup ∧ ∀ a, a ∈ S' → a ∈ S := by
  obtain ⟨H', r', hc, hl, hf, hd, hown, had⟩ :=
    alter_scalar (k := k) (n := n) (opt := opt) (H := H) hs ho hp
  have hS : S = [] := by rw [owns_of_scalar hs] at ho; cases ho; rfl
  subst hS
  exact ⟨H', r', hc, hl, hf, by rw [prune_of_scalar hs]; exact hd, had, [], hown, by simp, by simp⟩

/-- what an in-place conversion does, for every option setting -/
theorem alterPrune_spec (k : Kind) (hk : k.inPlace = true) : ∀ n, AlterPruneSpec k n
  | 0 => by
    intro opt H r t S hd ho _ hp
    exact alterPrune_scalar (by simpa [denote] using hd) ho hp
  | n + 1 => by
    have ih := alterPrune_spec k hk n
    intro opt H r t S hd ho hnd hp
    have hfill : k.fillsNil = false := by cases k <;> simp [Kind.inPlace] at hk <;> rfl
    cases r with
    | nilArr f =>
      simp only [denote, Option.some.injEq] at hd; subst hd
      simp only [owns, Option.some.injEq] at ho; subst ho
      have hf : f = k.src := by simpa [T.pure] using hp
      exact ⟨H, .nilArr k.dst, by simp [conv, hf, nilContainer, hfill], rfl, fun _ _ => rfl,
        by simp [denote, T.prune, hfill], rfl, [], by simp [owns], by simp, by simp⟩
    | nilObj f =>
      simp only [denote, Option.some.injEq] at hd; subst hd
      simp only [owns, Option.some.injEq] at ho; subst ho
      have hf : f = k.src := by simpa [T.pure] using hp
      exact ⟨H, .nilObj k.dst, by simp [conv, hf, nilContainer, hfill], rfl, fun _ _ => rfl,
        by simp [denote, T.prune, hfill], rfl, [], by simp [owns], by simp, by simp⟩
    | arr f a =>
      obtain ⟨xs, ts, hc, hm, rfl⟩ := denote_arr_some.1 hd
      obtain ⟨xs', Ss, hc', hmo, rfl⟩ := owns_arr_some.1 ho
      rw [hc] at hc'; cases hc'
      simp only [T.pure, Bool.and_eq_true, decide_eq_true_eq] at hp
      obtain ⟨hf, hpl⟩ := hp
      obtain ⟨hna, hnS⟩ := List.nodup_cons.1 hnd
      obtain ⟨H1, ys, hfe, hl1, hf1, hd1, Ss', ho1, hn1, hsub⟩ :=
        forEach_alterPrune ih (k.arrOpt opt) xs H ts Ss hm hmo hnS hpl
      have ha1 : a < H1.length := by rw [hl1]; exact getElem?_lt hc
      have hget : (H1.set a (.arr ys))[a]? = some (.arr ys) := List.getElem?_set_self ha1
      obtain ⟨ho2, hdeq⟩ := frame_list (H := H1) (H2 := H1.set a (.arr ys)) ho1
        (fun b hb => List.getElem?_set_ne (fun (hab : a = b) => hna (by rw [hab]; exact hsub b hb)))
      refine ⟨H1.set a (.arr ys), .arr k.dst a, ?_, by rw [List.length_set, hl1], ?_, ?_, rfl,
        a :: Ss'.flatten, ?_, ?_, ?_⟩
      · simp [conv, hf, hc, hfe, commit_alter hk]
      · intro b hb
        rw [List.mem_cons, not_or] at hb
        rw [List.getElem?_set_ne (fun hab => hb.1 hab.symm), hf1 b hb.2]
      · exact denote_arr_some.2 ⟨ys, _, hget, by rw [hdeq]; exact hd1, by simp [T.prune]⟩
      · exact owns_arr_some.2 ⟨ys, Ss', hget, ho2, rfl⟩
      · exact List.nodup_cons.2 ⟨fun hin => hna (hsub a hin), hn1⟩
      · intro b hb
        rcases List.mem_cons.1 hb with rfl | hb'
        · exact List.mem_cons_self
        · exact List.mem_cons_of_mem _ (hsub b hb')
    | obj f a =>
      obtain ⟨kvs, ts, hc, hm, rfl⟩ := denote_obj_some.1 hd
      obtain ⟨kvs', Ss, hc', hmo, rfl⟩ := owns_obj_some.1 ho
      rw [hc] at hc'; cases hc'
      simp only [T.pure, Bool.and_eq_true, decide_eq_true_eq] at hp
      obtain ⟨hf, hpl⟩ := hp
      obtain ⟨hna, hnS⟩ := List.nodup_cons.1 hnd
      obtain ⟨H1, ys, hfe, hl1, hf1, hd1, Ss', ho1, hn1, hsub⟩ :=
        forEachKv_alterPrune ih opt kvs H ts Ss hm hmo hnS hpl
      have ha1 : a < H1.length := by rw [hl1]; exact getElem?_lt hc
      have hget : (H1.set a (.obj ys))[a]? = some (.obj ys) := List.getElem?_set_self ha1
      obtain ⟨ho2, hdeq⟩ := frame_kvs (H := H1) (H2 := H1.set a (.obj ys)) ho1
        (fun b hb => List.getElem?_set_ne (fun (hab : a = b) => hna (by rw [hab]; exact hsub b hb)))
      refine ⟨H1.set a (.obj ys), .obj k.dst a, ?_, by rw [List.length_set, hl1], ?_, ?_, rfl,
        a :: Ss'.flatten, ?_, ?_, ?_⟩
      · simp [conv, hf, hc, hfe, commit_alter hk]
      · intro b hb
        rw [List.mem_cons, not_or] at hb
        rw [List.getElem?_set_ne (fun hab => hb.1 hab.symm), hf1 b hb.2]
      · exact denote_obj_some.2 ⟨ys, _, hget, by rw [hdeq]; exact hd1, by simp [T.prune]⟩
      · exact owns_obj_some.2 ⟨ys, Ss', hget, ho2, rfl⟩
      · exact List.nodup_cons.2 ⟨fun hin => hna (hsub a hin), hn1⟩
      · intro b hb
        rcases List.mem_cons.1 hb with rfl | hb'
        · exact List.mem_cons_self
        · exact List.mem_cons_of_mem _ (hsub b hb')
    | null => exact alterPrune_scalar (by simpa [denote] using hd) ho hp
    | bool f b => exact alterPrune_scalar (by simpa [denote] using hd) ho hp
    | int f i => exact alterPrune_scalar (by simpa [denote] using hd) ho hp
    | flt f x => exact alterPrune_scalar (by simpa [denote] using hd) ho hp
    | str f s => exact alterPrune_scalar (by simpa [denote] using hd) ho hp
    | big f s => exact alterPrune_scalar (by simpa [denote] using hd) ho hp

end OjgVerif.Conv
