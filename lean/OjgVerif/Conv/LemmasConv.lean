import OjgVerif.Conv.Lemmas
import OjgVerif.Conv.LemmasTree
/-! What one conversion does to a heap: `copy_spec` for the allocating variants, `alter_spec` for the
in-place variants (induction on the depth bound). -/
namespace OjgVerif.Conv
open OjgVerif.Gen.Conv

/-! ## small facts about the tables -/

theorem altDefault_omitEmpty : altDefault.omitEmpty = false := rfl

theorem arrOpt_omitEmpty (k : Kind) {opt : Opt} (h : opt.omitEmpty = false) :
    (k.arrOpt opt).omitEmpty = false := by
  cases k <;> simp only [Kind.arrOpt] <;> first | exact h | (split <;> first | exact h | exact altDefault_omitEmpty)

theorem mapOpt_omitEmpty (k : Kind) {opt : Opt} (h : opt.omitEmpty = false) :
    (k.mapOpt opt).omitEmpty = false := by
  cases k <;> simp only [Kind.mapOpt] <;> first | exact h | (split <;> first | exact h | exact altDefault_omitEmpty)

theorem denote_null (n : Nat) (H : Heap) : denote n H .null = some .null := by
  cases n <;> simp [denote, denoteScalar]

theorem denote_scalar {n : Nat} {H : Heap} {r : Ref} {t : T} (h : denoteScalar r = some t) :
    denote n H r = some t := by
  cases n <;> cases r <;> simp_all [denote, denoteScalar]

theorem owns_of_scalar {n : Nat} {H : Heap} {r : Ref} {t : T} (h : denoteScalar r = some t) :
    owns n H r = some [] := by
  cases n <;> cases r <;> simp_all [owns, denoteScalar]

theorem commit_copy {k : Kind} (h : k.inPlace = false) (H : Heap) (a : Addr) (c : Cell) :
    commit k H a c = (H ++ [c], H.length) := by simp [commit, h]

theorem commit_alter {k : Kind} (h : k.inPlace = true) (H : Heap) (a : Addr) (c : Cell) :
    commit k H a c = (H.set a c, a) := by simp [commit, h]

/-- the scalar clauses convert a scalar of the source form to the same scalar in the target form -/
theorem scalar_spec {k : Kind} {r : Ref} {t : T} (hd : denoteScalar r = some t)
    (hp : t.pure k.src = true) :
    ∃ r', scalar k r = some r' ∧ denoteScalar r' = some (t.toForm k.dst k.fillsNil) := by
  cases r with
  | null => cases hd; cases k <;> simp [scalar, denoteScalar, T.toForm]
  | bool f b =>
    cases hd; cases k <;> cases f <;> simp_all [scalar, denoteScalar, T.toForm, T.pure, Kind.src, Kind.dst]
  | int f b =>
    cases hd; cases k <;> cases f <;> simp_all [scalar, denoteScalar, T.toForm, T.pure, Kind.src, Kind.dst]
  | flt f b =>
    cases hd; cases k <;> cases f <;> simp_all [scalar, denoteScalar, T.toForm, T.pure, Kind.src, Kind.dst]
  | str f b =>
    cases hd; cases k <;> cases f <;> simp_all [scalar, denoteScalar, T.toForm, T.pure, Kind.src, Kind.dst]
  | big f b => cases hd; simp [T.pure] at hp
  | nilArr f => simp [denoteScalar] at hd
  | nilObj f => simp [denoteScalar] at hd
  | arr f a => simp [denoteScalar] at hd
  | obj f a => simp [denoteScalar] at hd

theorem condOmit_false {opt : Opt} {H : Heap} {y : Ref} (hoe : opt.omitEmpty = false) (hy : y ≠ .null) :
    condOmit opt H y = false := by
  cases y with
  | null => exact absurd rfl hy
  | bool f b => cases f <;> simp [condOmit, hoe]
  | int f b => cases f <;> simp [condOmit, hoe]
  | flt f b => simp [condOmit]
  | str f b => cases f <;> simp [condOmit, hoe]
  | big f b => simp [condOmit]
  | nilArr f => cases f <;> simp [condOmit, hoe]
  | nilObj f => cases f <;> simp [condOmit, hoe]
  | arr f a => cases f <;> simp [condOmit, hoe]
  | obj f a => cases f <;> simp [condOmit, hoe]

/-- with `omitEmpty` off only nulls are ever left out, and only if `dropsNil` -/
theorem omits_false {k : Kind} {opt : Opt} {H : Heap} {y : Ref} {t : T} {n : Nat}
    (hoe : opt.omitEmpty = false) (hd : denote n H y = some t)
    (hk : (t.isNull && k.dropsNil opt) = false) : omits k opt H y = false := by
  by_cases hy : y = .null
  · subst hy
    rw [denote_null] at hd
    cases hd
    cases k <;> simp_all [omits, condOmit, Kind.dropsNil, T.isNull]
  · cases k <;> simp only [omits]
    case decompose => exact condOmit_false hoe hy
    case altAlter => exact condOmit_false hoe hy
    all_goals simp [hy]

theorem owns_list_lt {n : Nat} {H : Heap} {xs : List Ref} {Ss : List (List Addr)}
    (h : mapOpt (owns n H) xs = some Ss) : ∀ a, a ∈ Ss.flatten → a < H.length := by
  intro a ha
  obtain ⟨S, hS, haS⟩ := List.mem_flatten.1 ha
  obtain ⟨x, _, hx⟩ := mapOpt_mem_inv h S hS
  exact owns_lt n H x S hx a haS

/-! ## copying variants -/

def CopySpec (k : Kind) (n : Nat) : Prop :=
  ∀ (opt : Opt) (H : Heap) (r : Ref) (t : T), opt.omitEmpty = false → denote n H r = some t →
    t.pure k.src = true → t.keeps k opt = true →
    ∃ H' r', conv k n opt H r = some (H', r') ∧ Ext H H' ∧ denote n H' r' = some (t.toForm k.dst k.fillsNil) ∧
      ∃ S, owns n H' r' = some S ∧ S.Nodup ∧ ∀ a, a ∈ S → H.length ≤ a

theorem forEach_copy {k : Kind} {n : Nat} (ih : CopySpec k n) (opt : Opt) (hoe : opt.omitEmpty = false) :
    ∀ (xs : List Ref) (H : Heap) (ts : List T), mapOpt (denote n H) xs = some ts →
      T.pureList k.src ts = true → T.keepsList k opt ts = true →
      ∃ H' ys, forEach (conv k n opt) H xs = some (H', ys) ∧ Ext H H' ∧
        mapOpt (denote n H') ys = some (T.toFormList k.dst k.fillsNil ts) ∧
        ∃ Ss, mapOpt (owns n H') ys = some Ss ∧ Ss.flatten.Nodup ∧ ∀ a, a ∈ Ss.flatten → H.length ≤ a
  | [], H, ts, hm, _, _ => by
    simp [mapOpt] at hm; subst hm
    exact ⟨H, [], rfl, Ext.refl H, rfl, [], rfl, by simp, by simp⟩
  | x :: xs, H, ts, hm, hp, hk => by
    obtain ⟨t, ts', hx, hr, rfl⟩ := mapOpt_cons_some.1 hm
    simp only [T.pureList, Bool.and_eq_true] at hp
    simp only [T.keepsList, Bool.and_eq_true] at hk
    obtain ⟨H1, y, hc1, e1, hd1, S1, ho1, hn1, hg1⟩ := ih opt H x t hoe hx hp.1 hk.1
    have hr1 : mapOpt (denote n H1) xs = some ts' := mapOpt_mono (fun x y _ h => denote_ext e1 n x y h) hr
    obtain ⟨H2, ys, hc2, e2, hd2, Ss, ho2, hn2, hg2⟩ := forEach_copy ih opt hoe xs H1 ts' hr1 hp.2 hk.2
    refine ⟨H2, y :: ys, by simp [forEach, hc1, hc2], e1.trans e2, ?_, S1 :: Ss, ?_, ?_, ?_⟩
    · exact mapOpt_cons_some.2 ⟨_, _, denote_ext e2 n y _ hd1, hd2, rfl⟩
    · exact mapOpt_cons_some.2 ⟨_, _, owns_ext e2 n y _ ho1, ho2, rfl⟩
    · rw [List.flatten_cons, List.nodup_append]
      refine ⟨hn1, hn2, fun a ha b hb hab => ?_⟩
      have h1 : a < H1.length := owns_lt n H1 y S1 ho1 a ha
      have h2 : H1.length ≤ b := hg2 b hb
      subst hab
      exact Nat.lt_irrefl _ (Nat.lt_of_lt_of_le h1 h2)
    · intro a ha
      rw [List.flatten_cons, List.mem_append] at ha
      rcases ha with ha | ha
      · exact hg1 a ha
      · exact Nat.le_trans e1.len (hg2 a ha)

theorem forEachKv_copy {k : Kind} {n : Nat} (ih : CopySpec k n) (opt : Opt) (hoe : opt.omitEmpty = false) :
    ∀ (kvs : List (String × Ref)) (H : Heap) (ts : List (String × T)),
      mapOptKv (denote n H) kvs = some ts → T.pureKvs k.src ts = true → T.keepsKvs k opt ts = true →
      ∃ H' ys, forEachKv (conv k n (k.mapOpt opt)) (omits k opt) H kvs = some (H', ys) ∧ Ext H H' ∧
        mapOptKv (denote n H') ys = some (T.toFormKvs k.dst k.fillsNil ts) ∧
        ∃ Ss, mapOpt (owns n H') (ys.map (·.2)) = some Ss ∧ Ss.flatten.Nodup ∧
          ∀ a, a ∈ Ss.flatten → H.length ≤ a
  | [], H, ts, hm, _, _ => by
    simp [mapOptKv] at hm; subst hm
    exact ⟨H, [], rfl, Ext.refl H, rfl, [], rfl, by simp, by simp⟩
  | (key, x) :: kvs, H, ts, hm, hp, hk => by
    obtain ⟨t, ts', hx, hr, rfl⟩ := mapOptKv_cons_some.1 hm
    simp only [T.pureKvs, Bool.and_eq_true] at hp
    simp only [T.keepsKvs, Bool.and_eq_true, Bool.not_eq_true'] at hk
    obtain ⟨H1, y, hc1, e1, hd1, S1, ho1, hn1, hg1⟩ :=
      ih (k.mapOpt opt) H x t (mapOpt_omitEmpty k hoe) hx hp.1 hk.1.2
    have hom : omits k opt H1 y = false :=
      omits_false hoe hd1 (by rw [toForm_isNull]; exact hk.1.1)
    have hr1 : mapOptKv (denote n H1) kvs = some ts' :=
      mapOptKv_mono (fun x y _ h => denote_ext e1 n x y h) hr
    obtain ⟨H2, ys, hc2, e2, hd2, Ss, ho2, hn2, hg2⟩ := forEachKv_copy ih opt hoe kvs H1 ts' hr1 hp.2 hk.2
    refine ⟨H2, (key, y) :: ys, by simp [forEachKv, hc1, hc2, hom], e1.trans e2, ?_, S1 :: Ss, ?_, ?_, ?_⟩
    · exact mapOptKv_cons_some.2 ⟨_, _, denote_ext e2 n y _ hd1, hd2, rfl⟩
    · exact mapOpt_cons_some.2 ⟨_, _, owns_ext e2 n y _ ho1, ho2, rfl⟩
    · rw [List.flatten_cons, List.nodup_append]
      refine ⟨hn1, hn2, fun a ha b hb hab => ?_⟩
      have h1 : a < H1.length := owns_lt n H1 y S1 ho1 a ha
      have h2 : H1.length ≤ b := hg2 b hb
      subst hab
      exact Nat.lt_irrefl _ (Nat.lt_of_lt_of_le h1 h2)
    · intro a ha
      rw [List.flatten_cons, List.mem_append] at ha
      rcases ha with ha | ha
      · exact hg1 a ha
      · exact Nat.le_trans e1.len (hg2 a ha)

theorem copy_scalar {k : Kind} {n : Nat} {opt : Opt} {H : Heap} {r : Ref} {t : T}
    (hs : denoteScalar r = some t) (hp : t.pure k.src = true) :
    ∃ H' r', conv k n opt H r = some (H', r') ∧ Ext H H' ∧ denote n H' r' = some (t.toForm k.dst k.fillsNil) ∧
      ∃ S, owns n H' r' = some S ∧ S.Nodup ∧ ∀ a, a ∈ S → H.length ≤ a := by
  obtain ⟨r', hsc, hd'⟩ := scalar_spec hs hp
  refine ⟨H, r', ?_, Ext.refl H, denote_scalar hd', [], owns_of_scalar hd', by simp, by simp⟩
  cases n with
  | zero => simp [conv, hsc]
  | succ n => cases r <;> simp_all [conv, denoteScalar]

theorem copy_spec (k : Kind) (hk : k.inPlace = false) : ∀ n, CopySpec k n
  | 0 => by
    intro opt H r t _ hd hp _
    exact copy_scalar (by simpa [denote] using hd) hp
  | n + 1 => by
    have ih := copy_spec k hk n
    intro opt H r t hoe hd hp hkp
    cases r with
    | nilArr f =>
      simp only [denote, Option.some.injEq] at hd; subst hd
      have hf : f = k.src := by simpa [T.pure] using hp
      cases hfill : k.fillsNil with
      | true =>
        refine ⟨H ++ [.arr []], .arr k.dst H.length, by simp [conv, hf, nilContainer, hfill],
          Ext.append H _, ?_, [H.length], ?_, by simp, by simp⟩
        · exact denote_arr_some.2 ⟨[], [], get_append_new H _, rfl, by simp [T.toForm]⟩
        · exact owns_arr_some.2 ⟨[], [], get_append_new H _, rfl, by simp⟩
      | false =>
        exact ⟨H, .nilArr k.dst, by simp [conv, hf, nilContainer, hfill], Ext.refl H,
          by simp [denote, T.toForm], [], by simp [owns], by simp, by simp⟩
    | nilObj f =>
      simp only [denote, Option.some.injEq] at hd; subst hd
      have hf : f = k.src := by simpa [T.pure] using hp
      cases hfill : k.fillsNil with
      | true =>
        refine ⟨H ++ [.obj []], .obj k.dst H.length, by simp [conv, hf, nilContainer, hfill],
          Ext.append H _, ?_, [H.length], ?_, by simp, by simp⟩
        · exact denote_obj_some.2 ⟨[], [], get_append_new H _, rfl, by simp [T.toForm]⟩
        · exact owns_obj_some.2 ⟨[], [], get_append_new H _, rfl, by simp⟩
      | false =>
        exact ⟨H, .nilObj k.dst, by simp [conv, hf, nilContainer, hfill], Ext.refl H,
          by simp [denote, T.toForm], [], by simp [owns], by simp, by simp⟩
    | arr f a =>
      obtain ⟨xs, ts, hc, hm, rfl⟩ := denote_arr_some.1 hd
      simp only [T.pure, Bool.and_eq_true, decide_eq_true_eq] at hp
      simp only [T.keeps] at hkp
      obtain ⟨hf, hpl⟩ := hp
      obtain ⟨H1, ys, hfe, e1, hd1, Ss, ho1, hn1, hg1⟩ :=
        forEach_copy ih (k.arrOpt opt) (arrOpt_omitEmpty k hoe) xs H ts hm hpl hkp
      have ea := Ext.append H1 [Cell.arr ys]
      refine ⟨H1 ++ [.arr ys], .arr k.dst H1.length, ?_, e1.trans ea, ?_, H1.length :: Ss.flatten, ?_, ?_, ?_⟩
      · simp [conv, hf, hc, hfe, commit_copy hk]
      · exact denote_arr_some.2 ⟨ys, _, get_append_new H1 _,
          mapOpt_mono (fun x y _ h => denote_ext ea n x y h) hd1, by simp [T.toForm]⟩
      · exact owns_arr_some.2 ⟨ys, Ss, get_append_new H1 _,
          mapOpt_mono (fun x y _ h => owns_ext ea n x y h) ho1, rfl⟩
      · refine List.nodup_cons.2 ⟨fun hin => ?_, hn1⟩
        exact Nat.lt_irrefl _ (owns_list_lt ho1 _ hin)
      · intro b hb
        rcases List.mem_cons.1 hb with rfl | hb'
        · exact e1.len
        · exact hg1 b hb'
    | obj f a =>
      obtain ⟨kvs, ts, hc, hm, rfl⟩ := denote_obj_some.1 hd
      simp only [T.pure, Bool.and_eq_true, decide_eq_true_eq] at hp
      simp only [T.keeps] at hkp
      obtain ⟨hf, hpl⟩ := hp
      obtain ⟨H1, ys, hfe, e1, hd1, Ss, ho1, hn1, hg1⟩ := forEachKv_copy ih opt hoe kvs H ts hm hpl hkp
      have ea := Ext.append H1 [Cell.obj ys]
      refine ⟨H1 ++ [.obj ys], .obj k.dst H1.length, ?_, e1.trans ea, ?_, H1.length :: Ss.flatten, ?_, ?_, ?_⟩
      · simp [conv, hf, hc, hfe, commit_copy hk]
      · exact denote_obj_some.2 ⟨ys, _, get_append_new H1 _,
          mapOptKv_mono (fun x y _ h => denote_ext ea n x y h) hd1, by simp [T.toForm]⟩
      · exact owns_obj_some.2 ⟨ys, Ss, get_append_new H1 _,
          mapOpt_mono (fun x y _ h => owns_ext ea n x y h) ho1, rfl⟩
      · refine List.nodup_cons.2 ⟨fun hin => ?_, hn1⟩
        exact Nat.lt_irrefl _ (owns_list_lt ho1 _ hin)
      · intro b hb
        rcases List.mem_cons.1 hb with rfl | hb'
        · exact e1.len
        · exact hg1 b hb'
    | null => exact copy_scalar (by simpa [denote] using hd) hp
    | bool f b => exact copy_scalar (by simpa [denote] using hd) hp
    | int f i => exact copy_scalar (by simpa [denote] using hd) hp
    | flt f x => exact copy_scalar (by simpa [denote] using hd) hp
    | str f s => exact copy_scalar (by simpa [denote] using hd) hp
    | big f s => exact copy_scalar (by simpa [denote] using hd) hp

/-! ## copying variants, any options: the result is fresh whatever is left out -/

def FreshSpec (k : Kind) (n : Nat) : Prop :=
  ∀ (opt : Opt) (H : Heap) (r : Ref) (t : T), denote n H r = some t → t.pure k.src = true →
    ∃ H' r', conv k n opt H r = some (H', r') ∧ Ext H H' ∧
      ∃ S, owns n H' r' = some S ∧ S.Nodup ∧ ∀ a, a ∈ S → H.length ≤ a

theorem forEach_fresh {k : Kind} {n : Nat} (ih : FreshSpec k n) (opt : Opt) :
    ∀ (xs : List Ref) (H : Heap) (ts : List T), mapOpt (denote n H) xs = some ts →
      T.pureList k.src ts = true →
      ∃ H' ys, forEach (conv k n opt) H xs = some (H', ys) ∧ Ext H H' ∧
        ∃ Ss, mapOpt (owns n H') ys = some Ss ∧ Ss.flatten.Nodup ∧ ∀ a, a ∈ Ss.flatten → H.length ≤ a
  | [], H, ts, _, _ => ⟨H, [], rfl, Ext.refl H, [], rfl, by simp, by simp⟩
  | x :: xs, H, ts, hm, hp => by
    obtain ⟨t, ts', hx, hr, rfl⟩ := mapOpt_cons_some.1 hm
    simp only [T.pureList, Bool.and_eq_true] at hp
    obtain ⟨H1, y, hc1, e1, S1, ho1, hn1, hg1⟩ := ih opt H x t hx hp.1
    have hr1 : mapOpt (denote n H1) xs = some ts' := mapOpt_mono (fun x y _ h => denote_ext e1 n x y h) hr
    obtain ⟨H2, ys, hc2, e2, Ss, ho2, hn2, hg2⟩ := forEach_fresh ih opt xs H1 ts' hr1 hp.2
    refine ⟨H2, y :: ys, by simp [forEach, hc1, hc2], e1.trans e2, S1 :: Ss, ?_, ?_, ?_⟩
    · exact mapOpt_cons_some.2 ⟨_, _, owns_ext e2 n y _ ho1, ho2, rfl⟩
    · rw [List.flatten_cons, List.nodup_append]
      refine ⟨hn1, hn2, fun a ha b hb hab => ?_⟩
      have h1 : a < H1.length := owns_lt n H1 y S1 ho1 a ha
      have h2 : H1.length ≤ b := hg2 b hb
      subst hab
      exact Nat.lt_irrefl _ (Nat.lt_of_lt_of_le h1 h2)
    · intro a ha
      rw [List.flatten_cons, List.mem_append] at ha
      rcases ha with ha | ha
      · exact hg1 a ha
      · exact Nat.le_trans e1.len (hg2 a ha)

theorem forEachKv_fresh {k : Kind} {n : Nat} (ih : FreshSpec k n) (opt opt' : Opt)
    (om : Heap → Ref → Bool) :
    ∀ (kvs : List (String × Ref)) (H : Heap) (ts : List (String × T)),
      mapOptKv (denote n H) kvs = some ts → T.pureKvs k.src ts = true →
      ∃ H' ys, forEachKv (conv k n opt') om H kvs = some (H', ys) ∧ Ext H H' ∧
        ∃ Ss, mapOpt (owns n H') (ys.map (·.2)) = some Ss ∧ Ss.flatten.Nodup ∧
          ∀ a, a ∈ Ss.flatten → H.length ≤ a
  | [], H, ts, _, _ => ⟨H, [], rfl, Ext.refl H, [], rfl, by simp, by simp⟩
  | (key, x) :: kvs, H, ts, hm, hp => by
    obtain ⟨t, ts', hx, hr, rfl⟩ := mapOptKv_cons_some.1 hm
    simp only [T.pureKvs, Bool.and_eq_true] at hp
    obtain ⟨H1, y, hc1, e1, S1, ho1, hn1, hg1⟩ := ih opt' H x t hx hp.1
    have hr1 : mapOptKv (denote n H1) kvs = some ts' :=
      mapOptKv_mono (fun x y _ h => denote_ext e1 n x y h) hr
    obtain ⟨H2, ys, hc2, e2, Ss, ho2, hn2, hg2⟩ := forEachKv_fresh ih opt opt' om kvs H1 ts' hr1 hp.2
    by_cases hom : om H1 y = true
    · -- the member is left out: its cells stay behind, unreferenced
      exact ⟨H2, ys, by simp [forEachKv, hc1, hc2, hom], e1.trans e2, Ss, ho2, hn2,
        fun a ha => Nat.le_trans e1.len (hg2 a ha)⟩
    · refine ⟨H2, (key, y) :: ys, by simp [forEachKv, hc1, hc2, hom], e1.trans e2, S1 :: Ss, ?_, ?_, ?_⟩
      · exact mapOpt_cons_some.2 ⟨_, _, owns_ext e2 n y _ ho1, ho2, rfl⟩
      · rw [List.flatten_cons, List.nodup_append]
        refine ⟨hn1, hn2, fun a ha b hb hab => ?_⟩
        have h1 : a < H1.length := owns_lt n H1 y S1 ho1 a ha
        have h2 : H1.length ≤ b := hg2 b hb
        subst hab
        exact Nat.lt_irrefl _ (Nat.lt_of_lt_of_le h1 h2)
      · intro a ha
        rw [List.flatten_cons, List.mem_append] at ha
        rcases ha with ha | ha
        · exact hg1 a ha
        · exact Nat.le_trans e1.len (hg2 a ha)

theorem fresh_scalar {k : Kind} {n : Nat} {opt : Opt} {H : Heap} {r : Ref} {t : T}
    (hs : denoteScalar r = some t) (hp : t.pure k.src = true) :
    ∃ H' r', conv k n opt H r = some (H', r') ∧ Ext H H' ∧
      ∃ S, owns n H' r' = some S ∧ S.Nodup ∧ ∀ a, a ∈ S → H.length ≤ a := by
  obtain ⟨H', r', hc, e, _, S, h⟩ := copy_scalar (k := k) (n := n) (opt := opt) (H := H) hs hp
  exact ⟨H', r', hc, e, S, h⟩

theorem fresh_spec (k : Kind) (hk : k.inPlace = false) : ∀ n, FreshSpec k n
  | 0 => by
    intro opt H r t hd hp
    exact fresh_scalar (by simpa [denote] using hd) hp
  | n + 1 => by
    have ih := fresh_spec k hk n
    intro opt H r t hd hp
    cases r with
    | nilArr f =>
      simp only [denote, Option.some.injEq] at hd; subst hd
      have hf : f = k.src := by simpa [T.pure] using hp
      cases hfill : k.fillsNil with
      | true =>
        exact ⟨H ++ [.arr []], .arr k.dst H.length, by simp [conv, hf, nilContainer, hfill],
          Ext.append H _, [H.length], owns_arr_some.2 ⟨[], [], get_append_new H _, rfl, by simp⟩,
          by simp, by simp⟩
      | false =>
        exact ⟨H, .nilArr k.dst, by simp [conv, hf, nilContainer, hfill], Ext.refl H,
          [], by simp [owns], by simp, by simp⟩
    | nilObj f =>
      simp only [denote, Option.some.injEq] at hd; subst hd
      have hf : f = k.src := by simpa [T.pure] using hp
      cases hfill : k.fillsNil with
      | true =>
        exact ⟨H ++ [.obj []], .obj k.dst H.length, by simp [conv, hf, nilContainer, hfill],
          Ext.append H _, [H.length], owns_obj_some.2 ⟨[], [], get_append_new H _, rfl, by simp⟩,
          by simp, by simp⟩
      | false =>
        exact ⟨H, .nilObj k.dst, by simp [conv, hf, nilContainer, hfill], Ext.refl H,
          [], by simp [owns], by simp, by simp⟩
    | arr f a =>
      obtain ⟨xs, ts, hc, hm, rfl⟩ := denote_arr_some.1 hd
      simp only [T.pure, Bool.and_eq_true, decide_eq_true_eq] at hp
      obtain ⟨hf, hpl⟩ := hp
      obtain ⟨H1, ys, hfe, e1, Ss, ho1, hn1, hg1⟩ := forEach_fresh ih (k.arrOpt opt) xs H ts hm hpl
      have ea := Ext.append H1 [Cell.arr ys]
      refine ⟨H1 ++ [.arr ys], .arr k.dst H1.length, ?_, e1.trans ea, H1.length :: Ss.flatten, ?_, ?_, ?_⟩
      · simp [conv, hf, hc, hfe, commit_copy hk]
      · exact owns_arr_some.2 ⟨ys, Ss, get_append_new H1 _,
          mapOpt_mono (fun x y _ h => owns_ext ea n x y h) ho1, rfl⟩
      · refine List.nodup_cons.2 ⟨fun hin => ?_, hn1⟩
        exact Nat.lt_irrefl _ (owns_list_lt ho1 _ hin)
      · intro b hb
        rcases List.mem_cons.1 hb with rfl | hb'
        · exact e1.len
        · exact hg1 b hb'
    | obj f a =>
      obtain ⟨kvs, ts, hc, hm, rfl⟩ := denote_obj_some.1 hd
      simp only [T.pure, Bool.and_eq_true, decide_eq_true_eq] at hp
      obtain ⟨hf, hpl⟩ := hp
      obtain ⟨H1, ys, hfe, e1, Ss, ho1, hn1, hg1⟩ :=
        forEachKv_fresh ih opt (k.mapOpt opt) (omits k opt) kvs H ts hm hpl
      have ea := Ext.append H1 [Cell.obj ys]
      refine ⟨H1 ++ [.obj ys], .obj k.dst H1.length, ?_, e1.trans ea, H1.length :: Ss.flatten, ?_, ?_, ?_⟩
      · simp [conv, hf, hc, hfe, commit_copy hk]
      · exact owns_obj_some.2 ⟨ys, Ss, get_append_new H1 _,
          mapOpt_mono (fun x y _ h => owns_ext ea n x y h) ho1, rfl⟩
      · refine List.nodup_cons.2 ⟨fun hin => ?_, hn1⟩
        exact Nat.lt_irrefl _ (owns_list_lt ho1 _ hin)
      · intro b hb
        rcases List.mem_cons.1 hb with rfl | hb'
        · exact e1.len
        · exact hg1 b hb'
    | null => exact fresh_scalar (by simpa [denote] using hd) hp
    | bool f b => exact fresh_scalar (by simpa [denote] using hd) hp
    | int f i => exact fresh_scalar (by simpa [denote] using hd) hp
    | flt f x => exact fresh_scalar (by simpa [denote] using hd) hp
    | str f s => exact fresh_scalar (by simpa [denote] using hd) hp
    | big f s => exact fresh_scalar (by simpa [denote] using hd) hp

/-! ## in-place variants -/

theorem addr_none_of_scalar {r : Ref} {t : T} (h : denoteScalar r = some t) : r.addr? = none := by
  cases r <;> simp_all [denoteScalar, Ref.addr?]

def AlterSpec (k : Kind) (n : Nat) : Prop :=
  ∀ (opt : Opt) (H : Heap) (r : Ref) (t : T) (S : List Addr), opt.omitEmpty = false →
    denote n H r = some t → owns n H r = some S → S.Nodup → t.pure k.src = true → t.keeps k opt = true →
    ∃ H' r', conv k n opt H r = some (H', r') ∧ H'.length = H.length ∧ (∀ a, a ∉ S → H'[a]? = H[a]?) ∧
      denote n H' r' = some (t.toForm k.dst k.fillsNil) ∧ owns n H' r' = some S ∧ r'.addr? = r.addr?

theorem forEach_alter {k : Kind} {n : Nat} (ih : AlterSpec k n) (opt : Opt) (hoe : opt.omitEmpty = false) :
    ∀ (xs : List Ref) (H : Heap) (ts : List T) (Ss : List (List Addr)),
      mapOpt (denote n H) xs = some ts → mapOpt (owns n H) xs = some Ss → Ss.flatten.Nodup →
      T.pureList k.src ts = true → T.keepsList k opt ts = true →
      ∃ H' ys, forEach (conv k n opt) H xs = some (H', ys) ∧ H'.length = H.length ∧
        (∀ a, a ∉ Ss.flatten → H'[a]? = H[a]?) ∧
        mapOpt (denote n H') ys = some (T.toFormList k.dst k.fillsNil ts) ∧ mapOpt (owns n H') ys = some Ss
  | [], H, ts, Ss, hm, ho, _, _, _ => by
    simp [mapOpt] at hm ho; subst hm; subst ho
    exact ⟨H, [], rfl, rfl, fun _ _ => rfl, rfl, rfl⟩
  | x :: xs, H, ts, Ss, hm, ho, hnd, hp, hk => by
    obtain ⟨t, ts', hx, hr, rfl⟩ := mapOpt_cons_some.1 hm
    obtain ⟨S1, Ss', hox, hor, rfl⟩ := mapOpt_cons_some.1 ho
    simp only [T.pureList, Bool.and_eq_true] at hp
    simp only [T.keepsList, Bool.and_eq_true] at hk
    rw [List.flatten_cons, List.nodup_append] at hnd
    obtain ⟨hn1, hn2, hdis⟩ := hnd
    obtain ⟨H1, y, hc1, hl1, hf1, hd1, ho1, _⟩ := ih opt H x t S1 hoe hx hox hn1 hp.1 hk.1
    obtain ⟨hor1, hdeq⟩ := frame_list (H := H) (H2 := H1) hor
      (fun a ha => hf1 a fun ha1 => hdis a ha1 a ha rfl)
    have hr1 : mapOpt (denote n H1) xs = some ts' := by rw [hdeq]; exact hr
    obtain ⟨H2, ys, hc2, hl2, hf2, hd2, ho2⟩ := forEach_alter ih opt hoe xs H1 ts' Ss' hr1 hor1 hn2 hp.2 hk.2
    obtain ⟨ho1', hd1'⟩ := frame (H := H1) (H2 := H2) n y S1 ho1
      (fun a ha => hf2 a fun ha2 => hdis a ha a ha2 rfl)
    refine ⟨H2, y :: ys, by simp [forEach, hc1, hc2], hl2.trans hl1, ?_, ?_, ?_⟩
    · intro a ha
      rw [List.flatten_cons, List.mem_append, not_or] at ha
      rw [hf2 a ha.2, hf1 a ha.1]
    · exact mapOpt_cons_some.2 ⟨_, _, by rw [hd1', hd1], hd2, rfl⟩
    · exact mapOpt_cons_some.2 ⟨_, _, ho1', ho2, rfl⟩

theorem forEachKv_alter {k : Kind} {n : Nat} (ih : AlterSpec k n) (opt : Opt) (hoe : opt.omitEmpty = false) :
    ∀ (kvs : List (String × Ref)) (H : Heap) (ts : List (String × T)) (Ss : List (List Addr)),
      mapOptKv (denote n H) kvs = some ts → mapOpt (owns n H) (kvs.map (·.2)) = some Ss →
      Ss.flatten.Nodup → T.pureKvs k.src ts = true → T.keepsKvs k opt ts = true →
      ∃ H' ys, forEachKv (conv k n (k.mapOpt opt)) (omits k opt) H kvs = some (H', ys) ∧
        H'.length = H.length ∧ (∀ a, a ∉ Ss.flatten → H'[a]? = H[a]?) ∧
        mapOptKv (denote n H') ys = some (T.toFormKvs k.dst k.fillsNil ts) ∧
        mapOpt (owns n H') (ys.map (·.2)) = some Ss
  | [], H, ts, Ss, hm, ho, _, _, _ => by
    simp [mapOptKv] at hm; simp [mapOpt] at ho; subst hm; subst ho
    exact ⟨H, [], rfl, rfl, fun _ _ => rfl, rfl, rfl⟩
  | (key, x) :: kvs, H, ts, Ss, hm, ho, hnd, hp, hk => by
    obtain ⟨t, ts', hx, hr, rfl⟩ := mapOptKv_cons_some.1 hm
    simp only [List.map_cons] at ho
    obtain ⟨S1, Ss', hox, hor, rfl⟩ := mapOpt_cons_some.1 ho
    simp only [T.pureKvs, Bool.and_eq_true] at hp
    simp only [T.keepsKvs, Bool.and_eq_true, Bool.not_eq_true'] at hk
    rw [List.flatten_cons, List.nodup_append] at hnd
    obtain ⟨hn1, hn2, hdis⟩ := hnd
    obtain ⟨H1, y, hc1, hl1, hf1, hd1, ho1, _⟩ :=
      ih (k.mapOpt opt) H x t S1 (mapOpt_omitEmpty k hoe) hx hox hn1 hp.1 hk.1.2
    have hom : omits k opt H1 y = false :=
      omits_false hoe hd1 (by rw [toForm_isNull]; exact hk.1.1)
    obtain ⟨hor1, hdeq⟩ := frame_kvs (H := H) (H2 := H1) hor
      (fun a ha => hf1 a fun ha1 => hdis a ha1 a ha rfl)
    have hr1 : mapOptKv (denote n H1) kvs = some ts' := by rw [hdeq]; exact hr
    obtain ⟨H2, ys, hc2, hl2, hf2, hd2, ho2⟩ :=
      forEachKv_alter ih opt hoe kvs H1 ts' Ss' hr1 hor1 hn2 hp.2 hk.2
    obtain ⟨ho1', hd1'⟩ := frame (H := H1) (H2 := H2) n y S1 ho1
      (fun a ha => hf2 a fun ha2 => hdis a ha a ha2 rfl)
    refine ⟨H2, (key, y) :: ys, by simp [forEachKv, hc1, hc2, hom], hl2.trans hl1, ?_, ?_, ?_⟩
    · intro a ha
      rw [List.flatten_cons, List.mem_append, not_or] at ha
      rw [hf2 a ha.2, hf1 a ha.1]
    · exact mapOptKv_cons_some.2 ⟨_, _, by rw [hd1', hd1], hd2, rfl⟩
    · exact mapOpt_cons_some.2 ⟨_, _, ho1', ho2, rfl⟩

theorem alter_scalar {k : Kind} {n : Nat} {opt : Opt} {H : Heap} {r : Ref} {t : T} {S : List Addr}
    (hs : denoteScalar r = some t) (ho : owns n H r = some S) (hp : t.pure k.src = true) :
    ∃ H' r', conv k n opt H r = some (H', r') ∧ H'.length = H.length ∧ (∀ a, a ∉ S → H'[a]? = H[a]?) ∧
      denote n H' r' = some (t.toForm k.dst k.fillsNil) ∧ owns n H' r' = some S ∧ r'.addr? = r.addr? := by
  obtain ⟨r', hsc, hd'⟩ := scalar_spec hs hp
  have hS : S = [] := by rw [owns_of_scalar hs] at ho; cases ho; rfl
  subst hS
  refine ⟨H, r', ?_, rfl, fun _ _ => rfl, denote_scalar hd', owns_of_scalar hd', ?_⟩
  · cases n with
    | zero => simp [conv, hsc]
    | succ n => cases r <;> simp_all [conv, denoteScalar]
  · rw [addr_none_of_scalar hd', addr_none_of_scalar hs]

theorem alter_spec (k : Kind) (hk : k.inPlace = true) : ∀ n, AlterSpec k n
  | 0 => by
    intro opt H r t S _ hd ho _ hp _
    exact alter_scalar (by simpa [denote] using hd) ho hp
  | n + 1 => by
    have ih := alter_spec k hk n
    intro opt H r t S hoe hd ho hnd hp hkp
    cases r with
    | nilArr f =>
      simp only [denote, Option.some.injEq] at hd; subst hd
      simp only [owns, Option.some.injEq] at ho; subst ho
      have hf : f = k.src := by simpa [T.pure] using hp
      have hfill : k.fillsNil = false := by cases k <;> simp [Kind.inPlace] at hk <;> rfl
      exact ⟨H, .nilArr k.dst, by simp [conv, hf, nilContainer, hfill], rfl, fun _ _ => rfl,
        by simp [denote, T.toForm, hfill], by simp [owns], rfl⟩
    | nilObj f =>
      simp only [denote, Option.some.injEq] at hd; subst hd
      simp only [owns, Option.some.injEq] at ho; subst ho
      have hf : f = k.src := by simpa [T.pure] using hp
      have hfill : k.fillsNil = false := by cases k <;> simp [Kind.inPlace] at hk <;> rfl
      exact ⟨H, .nilObj k.dst, by simp [conv, hf, nilContainer, hfill], rfl, fun _ _ => rfl,
        by simp [denote, T.toForm, hfill], by simp [owns], rfl⟩
    | arr f a =>
      obtain ⟨xs, ts, hc, hm, rfl⟩ := denote_arr_some.1 hd
      obtain ⟨xs', Ss, hc', hmo, rfl⟩ := owns_arr_some.1 ho
      rw [hc] at hc'; cases hc'
      simp only [T.pure, Bool.and_eq_true, decide_eq_true_eq] at hp
      simp only [T.keeps] at hkp
      obtain ⟨hf, hpl⟩ := hp
      obtain ⟨hna, hnS⟩ := List.nodup_cons.1 hnd
      obtain ⟨H1, ys, hfe, hl1, hf1, hd1, ho1⟩ :=
        forEach_alter ih (k.arrOpt opt) (arrOpt_omitEmpty k hoe) xs H ts Ss hm hmo hnS hpl hkp
      have ha1 : a < H1.length := by rw [hl1]; exact getElem?_lt hc
      have hget : (H1.set a (.arr ys))[a]? = some (.arr ys) := List.getElem?_set_self ha1
      obtain ⟨ho2, hdeq⟩ := frame_list (H := H1) (H2 := H1.set a (.arr ys)) ho1
        (fun b hb => List.getElem?_set_ne (fun (hab : a = b) => hna (by rw [hab]; exact hb)))
      refine ⟨H1.set a (.arr ys), .arr k.dst a, ?_, by rw [List.length_set, hl1], ?_, ?_, ?_, rfl⟩
      · simp [conv, hf, hc, hfe, commit_alter hk]
      · intro b hb
        rw [List.mem_cons, not_or] at hb
        rw [List.getElem?_set_ne (fun hab => hb.1 hab.symm), hf1 b hb.2]
      · exact denote_arr_some.2 ⟨ys, _, hget, by rw [hdeq]; exact hd1, by simp [T.toForm]⟩
      · exact owns_arr_some.2 ⟨ys, Ss, hget, ho2, rfl⟩
    | obj f a =>
      obtain ⟨kvs, ts, hc, hm, rfl⟩ := denote_obj_some.1 hd
      obtain ⟨kvs', Ss, hc', hmo, rfl⟩ := owns_obj_some.1 ho
      rw [hc] at hc'; cases hc'
      simp only [T.pure, Bool.and_eq_true, decide_eq_true_eq] at hp
      simp only [T.keeps] at hkp
      obtain ⟨hf, hpl⟩ := hp
      obtain ⟨hna, hnS⟩ := List.nodup_cons.1 hnd
      obtain ⟨H1, ys, hfe, hl1, hf1, hd1, ho1⟩ :=
        forEachKv_alter ih opt hoe kvs H ts Ss hm hmo hnS hpl hkp
      have ha1 : a < H1.length := by rw [hl1]; exact getElem?_lt hc
      have hget : (H1.set a (.obj ys))[a]? = some (.obj ys) := List.getElem?_set_self ha1
      obtain ⟨ho2, hdeq⟩ := frame_kvs (H := H1) (H2 := H1.set a (.obj ys)) ho1
        (fun b hb => List.getElem?_set_ne (fun (hab : a = b) => hna (by rw [hab]; exact hb)))
      refine ⟨H1.set a (.obj ys), .obj k.dst a, ?_, by rw [List.length_set, hl1], ?_, ?_, ?_, rfl⟩
      · simp [conv, hf, hc, hfe, commit_alter hk]
      · intro b hb
        rw [List.mem_cons, not_or] at hb
        rw [List.getElem?_set_ne (fun hab => hb.1 hab.symm), hf1 b hb.2]
      · exact denote_obj_some.2 ⟨ys, _, hget, by rw [hdeq]; exact hd1, by simp [T.toForm]⟩
      · exact owns_obj_some.2 ⟨ys, Ss, hget, ho2, rfl⟩
    | null => exact alter_scalar (by simpa [denote] using hd) ho hp
    | bool f b => exact alter_scalar (by simpa [denote] using hd) ho hp
    | int f i => exact alter_scalar (by simpa [denote] using hd) ho hp
    | flt f x => exact alter_scalar (by simpa [denote] using hd) ho hp
    | str f s => exact alter_scalar (by simpa [denote] using hd) ho hp
    | big f s => exact alter_scalar (by simpa [denote] using hd) ho hp

end OjgVerif.Conv
