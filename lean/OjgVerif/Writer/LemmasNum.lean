import OjgVerif.Writer.JsonSpec
/-! Lemmas about number literals: the digits printed for an integer, and "a number literal followed
by a byte that cannot continue it is read as that literal". -/
set_option linter.unusedSimpArgs false
namespace OjgVerif.Writer
open OjgVerif OjgVerif.Json

/-! ### digits of a natural number -/

theorem digit_toNat (n : Nat) (h : n < 10) : (UInt8.ofNat (48 + n)).toNat = 48 + n := by
  simp [UInt8.toNat_ofNat']; omega

theorem digit_isDigit (n : Nat) (h : n < 10) : Spec.isDigit (UInt8.ofNat (48 + n)) = true := by
  have := digit_toNat n h
  simp [Spec.isDigit, UInt8.le_iff_toNat_le, this]; omega

theorem digit_isDigit19 (n : Nat) (h : n < 10) (h0 : 0 < n) : Spec.isDigit19 (UInt8.ofNat (48 + n)) = true := by
  have := digit_toNat n h
  simp [Spec.isDigit19, UInt8.le_iff_toNat_le, this]; omega

/-- shape of `fmtNatAux`: a first digit (non-zero unless the number is 0), more digits, then `acc` -/
theorem fmtNatAux_shape (fuel : Nat) : ∀ (n : Nat) (acc : Bytes), n < fuel →
    ∃ d ds, fmtNatAux fuel n acc = d :: (ds ++ acc) ∧ (ds.all Spec.isDigit) = true ∧
      (n = 0 → d = 48 ∧ ds = []) ∧ (0 < n → Spec.isDigit19 d = true) := by
  induction fuel with
  | zero => intro n acc h; omega
  | succ fuel ih =>
    intro n acc h
    by_cases hn : n < 10
    · refine ⟨UInt8.ofNat (48 + n), [], by simp only [fmtNatAux, hn, ↓reduceIte, List.nil_append], rfl, ?_, ?_⟩
      · intro h0; subst h0; exact ⟨rfl, rfl⟩
      · intro h0; exact digit_isDigit19 n hn h0
    · have hlt : n / 10 < fuel := by omega
      obtain ⟨d, ds, he, hds, -, h19⟩ := ih (n / 10) (UInt8.ofNat (48 + n % 10) :: acc) hlt
      refine ⟨d, ds ++ [UInt8.ofNat (48 + n % 10)], ?_, ?_, ?_, ?_⟩
      · simp only [fmtNatAux, hn, ↓reduceIte, he, List.append_assoc, List.cons_append, List.nil_append]
      · simp only [List.all_append, hds, List.all_cons, List.all_nil, digit_isDigit (n % 10) (by omega), Bool.and_self]
      · intro h0; omega
      · intro _; exact h19 (by omega)

theorem fmtNat_shape (n : Nat) :
    ∃ d ds, fmtNat n = d :: ds ∧ (ds.all Spec.isDigit) = true ∧
      (n = 0 → d = 48 ∧ ds = []) ∧ (0 < n → Spec.isDigit19 d = true) := by
  obtain ⟨d, ds, he, h1, h2, h3⟩ := fmtNatAux_shape (n + 1) n [] (by omega)
  exact ⟨d, ds, by simpa [fmtNat] using he, h1, h2, h3⟩

theorem takeDigits_all (ds : Bytes) (h : (ds.all Spec.isDigit) = true) : Spec.takeDigits ds = (ds, []) := by
  induction ds with
  | nil => rfl
  | cons c r ih =>
    simp only [List.all_cons, Bool.and_eq_true] at h
    simp [Spec.takeDigits, h.1, ih h.2]

theorem isDigit19_ne (d : UInt8) (h : Spec.isDigit19 d = true) : d ≠ 48 ∧ d ≠ 45 := by
  constructor <;> (intro e; subst e; simp [Spec.isDigit19] at h)

theorem pNumber_fmtNat (n : Nat) : Spec.pNumber (fmtNat n) = some (fmtNat n, []) := by
  obtain ⟨d, ds, he, hds, h0, h19⟩ := fmtNat_shape n
  rw [he]
  by_cases hn : n = 0
  · obtain ⟨rfl, rfl⟩ := h0 hn
    simp [Spec.pNumber, Spec.pUnsigned, Spec.pInt, Spec.pFrac, Spec.pExp]
  · have h := h19 (by omega)
    obtain ⟨n48, n45⟩ := isDigit19_ne d h
    simp [Spec.pNumber, Spec.pUnsigned, Spec.pInt, Spec.pFrac, Spec.pExp, n48, n45, h, takeDigits_all ds hds]


/-! ### a literal in front of other text -/

/-- the head of the rest cannot continue a number literal -/
def stopHead : Bytes → Bool
  | [] => true
  | c :: _ => !Spec.isDigit c && c != 46 && c != 101 && c != 69

theorem takeDigits_append (a r : Bytes) (h : stopHead r = true) :
    Spec.takeDigits (a ++ r) = ((Spec.takeDigits a).1, (Spec.takeDigits a).2 ++ r) := by
  induction a with
  | nil =>
    cases r with
    | nil => rfl
    | cons c t =>
      simp only [stopHead, Bool.and_eq_true, Bool.not_eq_true'] at h
      simp [Spec.takeDigits, h.1.1.1]
  | cons c a ih =>
    by_cases hc : Spec.isDigit c = true
    · simp [Spec.takeDigits, hc, ih]
    · simp [Spec.takeDigits, hc]

theorem pInt_append (a r x y : Bytes) (h : stopHead r = true) (hp : Spec.pInt a = some (x, y)) :
    Spec.pInt (a ++ r) = some (x, y ++ r) := by
  cases a with
  | nil => simp [Spec.pInt] at hp
  | cons d a =>
    by_cases h0 : d = 48
    · subst h0
      simp [Spec.pInt] at hp ⊢
      obtain ⟨rfl, rfl⟩ := hp; exact ⟨rfl, rfl⟩
    · by_cases h19 : Spec.isDigit19 d = true
      · simp [Spec.pInt, h0, h19] at hp ⊢
        obtain ⟨rfl, rfl⟩ := hp
        simp [takeDigits_append a r h]
      · simp [Spec.pInt, h0, h19] at hp

theorem pFrac_append (a r x y : Bytes) (h : stopHead r = true) (hp : Spec.pFrac a = some (x, y)) :
    Spec.pFrac (a ++ r) = some (x, y ++ r) := by
  cases a with
  | nil =>
    simp [Spec.pFrac] at hp
    obtain ⟨rfl, rfl⟩ := hp
    cases r with
    | nil => rfl
    | cons c t =>
      simp only [stopHead, Bool.and_eq_true, Bool.not_eq_true', bne_iff_ne, ne_eq] at h
      simp [Spec.pFrac, h.1.1.2]
  | cons c a =>
    by_cases hc : c = 46
    · subst hc
      simp only [Spec.pFrac, ↓reduceIte, List.cons_append] at hp ⊢
      rw [takeDigits_append a r h]
      by_cases he : (Spec.takeDigits a).1.isEmpty = true
      · simp [he] at hp
      · simp [he] at hp ⊢
        obtain ⟨rfl, rfl⟩ := hp; exact ⟨rfl, rfl⟩
    · simp [Spec.pFrac, hc] at hp ⊢
      obtain ⟨rfl, rfl⟩ := hp; exact ⟨rfl, rfl⟩

theorem pExp_append (a r x y : Bytes) (h : stopHead r = true) (hp : Spec.pExp a = some (x, y)) :
    Spec.pExp (a ++ r) = some (x, y ++ r) := by
  cases a with
  | nil =>
    simp [Spec.pExp] at hp
    obtain ⟨rfl, rfl⟩ := hp
    cases r with
    | nil => rfl
    | cons c t =>
      simp only [stopHead, Bool.and_eq_true, Bool.not_eq_true', bne_iff_ne, ne_eq] at h
      simp [Spec.pExp, h.1.2, h.2]
  | cons c a =>
    by_cases hc : (c = 101 || c = 69) = true
    · cases a with
      | nil => simp [Spec.pExp, hc, Spec.pExpSign, Spec.takeDigits] at hp
      | cons s a =>
        have hs : Spec.pExpSign (s :: a ++ r) = ((Spec.pExpSign (s :: a)).1, (Spec.pExpSign (s :: a)).2 ++ r) := by
          by_cases h2 : (s = 43 || s = 45) = true
          · simp [Spec.pExpSign, h2]
          · simp [Spec.pExpSign, h2]
        simp only [Spec.pExp, hc, ↓reduceIte, List.cons_append] at hp ⊢
        rw [show s :: (a ++ r) = s :: a ++ r from rfl, hs]
        simp only
        rw [takeDigits_append _ r h]
        by_cases he : (Spec.takeDigits (Spec.pExpSign (s :: a)).2).1.isEmpty = true
        · simp [he] at hp
        · simp [he] at hp ⊢
          obtain ⟨rfl, rfl⟩ := hp; exact ⟨rfl, rfl⟩
    · simp [Spec.pExp, hc] at hp ⊢
      obtain ⟨rfl, rfl⟩ := hp; exact ⟨rfl, rfl⟩

theorem pUnsigned_append (a r x y : Bytes) (h : stopHead r = true) (hp : Spec.pUnsigned a = some (x, y)) :
    Spec.pUnsigned (a ++ r) = some (x, y ++ r) := by
  unfold Spec.pUnsigned at hp ⊢
  cases h1 : Spec.pInt a with
  | none => simp [h1] at hp
  | some p1 =>
    obtain ⟨ip, r1⟩ := p1
    rw [pInt_append a r ip r1 h h1]
    simp only [h1] at hp ⊢
    cases h2 : Spec.pFrac r1 with
    | none => simp [h2] at hp
    | some p2 =>
      obtain ⟨fp, r2⟩ := p2
      rw [pFrac_append r1 r fp r2 h h2]
      simp only [h2] at hp ⊢
      cases h3 : Spec.pExp r2 with
      | none => simp [h3] at hp
      | some p3 =>
        obtain ⟨ep, r3⟩ := p3
        rw [pExp_append r2 r ep r3 h h3]
        simp only [h3] at hp ⊢
        simp at hp ⊢
        obtain ⟨rfl, rfl⟩ := hp; exact ⟨rfl, rfl⟩

theorem pNumber_append (a r x y : Bytes) (h : stopHead r = true) (hp : Spec.pNumber a = some (x, y)) :
    Spec.pNumber (a ++ r) = some (x, y ++ r) := by
  cases a with
  | nil => simp [Spec.pNumber] at hp
  | cons b a =>
    by_cases hb : b = 45
    · subst hb
      simp only [Spec.pNumber, ↓reduceIte, List.cons_append] at hp ⊢
      cases h1 : Spec.pUnsigned a with
      | none => simp [h1] at hp
      | some p =>
        obtain ⟨u, v⟩ := p
        rw [pUnsigned_append a r u v h h1]
        simp [h1] at hp ⊢
        obtain ⟨rfl, rfl⟩ := hp; exact ⟨rfl, rfl⟩
    · simp only [List.cons_append, Spec.pNumber, hb, ↓reduceIte] at hp ⊢
      exact pUnsigned_append (b :: a) r x y h hp

/-- a number literal followed by something that cannot continue it is read as that literal -/
theorem numLit_append (t r : Bytes) (ht : isNumLit t) (h : stopHead r = true) :
    Spec.pNumber (t ++ r) = some (t, r) := by
  have := pNumber_append t r t [] h ht
  simpa using this

/-- a number literal starts with `-` or a digit -/
theorem numLit_head (t : Bytes) (ht : isNumLit t) : ∃ b t', t = b :: t' ∧ (b = 45 ∨ Spec.isDigit b = true) := by
  unfold isNumLit at ht
  cases t with
  | nil => simp [Spec.pNumber] at ht
  | cons b a =>
    refine ⟨b, a, rfl, ?_⟩
    by_cases hb : b = 45
    · exact Or.inl hb
    · right
      simp only [Spec.pNumber, hb, ↓reduceIte, Spec.pUnsigned] at ht
      by_cases h0 : b = 48
      · subst h0; decide
      · by_cases h19 : Spec.isDigit19 b = true
        · simp [Spec.isDigit19] at h19
          simp [Spec.isDigit, h19.2, UInt8.le_iff_toNat_le] at h19 ⊢
          omega
        · simp [Spec.pInt, h0, h19] at ht

/-! ### integers -/

theorem digitsVal_fmtNatAux (fuel : Nat) : ∀ (n : Nat) (acc : Bytes), n < fuel →
    digitsVal (fmtNatAux fuel n acc) 0 = digitsVal acc n := by
  induction fuel with
  | zero => intro n acc h; omega
  | succ fuel ih =>
    intro n acc h
    by_cases hn : n < 10
    · simp only [fmtNatAux, hn, ↓reduceIte, digitsVal, digit_toNat n hn]
      congr 1; omega
    · simp only [fmtNatAux, hn, ↓reduceIte]
      rw [ih (n / 10) _ (by omega)]
      simp only [digitsVal, digit_toNat (n % 10) (by omega)]
      congr 1; omega

theorem digitsVal_fmtNat (n : Nat) : digitsVal (fmtNat n) 0 = n := by
  simpa [fmtNat, digitsVal] using digitsVal_fmtNatAux (n + 1) n [] (by omega)

theorem fmtNat_head_ne_minus (n : Nat) : ∃ d ds, fmtNat n = d :: ds ∧ d ≠ 45 := by
  obtain ⟨d, ds, he, -, h0, h19⟩ := fmtNat_shape n
  refine ⟨d, ds, he, ?_⟩
  by_cases hn : n = 0
  · rw [(h0 hn).1]; decide
  · exact (isDigit19_ne d (h19 (by omega))).2

/-- integer round trip: the value of the literal printed for `i` is `i` -/
theorem intVal_fmtInt (i : Int) : intVal (fmtInt i) = i := by
  unfold fmtInt
  by_cases hi : i < 0
  · simp only [hi, ↓reduceIte, intVal, digitsVal_fmtNat]
    omega
  · obtain ⟨d, ds, he, hd⟩ := fmtNat_head_ne_minus i.natAbs
    simp only [hi, ↓reduceIte]
    have := digitsVal_fmtNat i.natAbs
    rw [he] at this ⊢
    simp only [intVal, hd, ↓reduceIte, this]
    omega

/-- the literal printed for an integer is an RFC 8259 number -/
theorem isNumLit_fmtInt (i : Int) : isNumLit (fmtInt i) := by
  unfold isNumLit fmtInt
  by_cases hi : i < 0
  · simp only [hi, ↓reduceIte]
    obtain ⟨d, ds, he, hd⟩ := fmtNat_head_ne_minus i.natAbs
    have hp := pNumber_fmtNat i.natAbs
    rw [he] at hp ⊢
    simp only [Spec.pNumber, hd, ↓reduceIte] at hp ⊢
    simp [hp]
  · simp only [hi, ↓reduceIte]
    exact pNumber_fmtNat _

/-! ### documents -/

theorem stripBOM_of_ne (b : UInt8) (t : Bytes) (h : b ≠ 0xEF) : Spec.stripBOM (b :: t) = b :: t := by
  unfold Spec.stripBOM
  split
  · rename_i heq
    simp at heq
    exact absurd heq.1 h
  · rfl

theorem parseDoc_of_pValue (b : UInt8) (t : Bytes) (v : JV) (h1 : b ≠ 0xEF) (h2 : Spec.isWs b = false)
    (hp : Spec.pValue ((b :: t).length + 1) (b :: t) = some (v, [])) : Spec.parseDoc (b :: t) = .one v := by
  have hp' : Spec.pValue (t.length + 1 + 1) (b :: t) = some (v, []) := by simpa using hp
  simp only [Spec.parseDoc, stripBOM_of_ne b t h1, Spec.parseText, Spec.skipWs, h2]
  simp [hp', Spec.skipWs]

theorem accepts_of_one (bs : Bytes) (v : JV) (h : Spec.parseDoc bs = .one v) : Spec.accepts bs = true := by
  simp [Spec.accepts, h]

end OjgVerif.Writer
