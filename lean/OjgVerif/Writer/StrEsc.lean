import OjgVerif.Writer.Utf8
import OjgVerif.Gen.Root
/-! # Model of `ojg.AppendJSONString` (string.go)

One branch per `case` of the Go `switch` over the class read from the GENERATED table `jMap`.
The Go loop keeps two indices: `start` (beginning of the run of bytes still to be copied verbatim)
and `skip` (bytes of a multi-byte sequence already dealt with). Copying runs instead of bytes is
not observable; what is observable is whether the skipped bytes of a sequence are copied (ordinary
rune: `start` stays) or dropped (U+2028, U+2029, U+FFFD / ill-formed: `start = i + cnt`). The model
keeps the number of bytes still to skip and that flag. -/
namespace OjgVerif.Writer
open OjgVerif

/-- `hex[n]` -/
def hexDigit (n : UInt8) : UInt8 := Gen.Root.hex.getD n.toNat 0

/-- `\u00` followed by the two hex digits of the byte -/
def u00 (b : UInt8) : Bytes := [92, 117, 48, 48, hexDigit ((b >>> 4) &&& 0x0f), hexDigit (b &&& 0x0f)]

def esc2028 : Bytes := [92, 117, 50, 48, 50, 56]
def esc2029 : Bytes := [92, 117, 50, 48, 50, 57]
def escFFFD : Bytes := [92, 117, 102, 102, 102, 100]

/-- the body of the loop; `skip` = bytes of the current sequence still to pass over, `copy` = whether
they are part of the verbatim run -/
def escLoop (tbl : Array UInt8) (html : Bool) : Nat → Bool → Bytes → Bytes
  | _, _, [] => []
  | skip+1, copy, b :: r =>
    if copy then b :: escLoop tbl html skip copy r else escLoop tbl html skip copy r
  | 0, _, b :: r =>
    if tbl.getD b.toNat 0 = 111 then b :: escLoop tbl html 0 true r                  -- 'o'
    else if tbl.getD b.toNat 0 = 46 then u00 b ++ escLoop tbl html 0 true r           -- '.'
    else if tbl.getD b.toNat 0 = 104 then                                             -- 'h'
      if html then u00 b ++ escLoop tbl html 0 true r else b :: escLoop tbl html 0 true r
    else if tbl.getD b.toNat 0 = 56 then                                              -- '8'
      if (utf8Decode (b :: r)).1 = 0x2028 then
        esc2028 ++ escLoop tbl html ((utf8Decode (b :: r)).2 - 1) false r
      else if (utf8Decode (b :: r)).1 = 0x2029 then
        esc2029 ++ escLoop tbl html ((utf8Decode (b :: r)).2 - 1) false r
      else if (utf8Decode (b :: r)).1 = runeError then
        escFFFD ++ escLoop tbl html ((utf8Decode (b :: r)).2 - 1) false r
      else b :: escLoop tbl html ((utf8Decode (b :: r)).2 - 1) true r
    else [92, tbl.getD b.toNat 0] ++ escLoop tbl html 0 true r                        -- default

/-- `ojg.AppendJSONString(buf, s, htmlSafe)` without the buffer: the quoted, escaped text -/
def jsonString (s : Bytes) (html : Bool) : Bytes :=
  34 :: (escLoop Gen.Root.jMap html 0 true s ++ [34])

/-- `ojg.AppendJSONString(buf, s, htmlSafe)` -/
def appendJSONString (buf : Bytes) (s : Bytes) (html : Bool) : Bytes := buf ++ jsonString s html

end OjgVerif.Writer
