import OjgVerif.Writer.StrEsc
/-! # The real loop of `ojg.AppendJSONString` (string.go) with its `start` / `skip` indices

`StrEsc.escLoop` models the loop per byte with a skip counter and a copy flag. This file
transcribes the loop the way the Go code runs it — a buffer, the index `start` of the run of bytes
still to be copied verbatim (`buf = append(buf, s[start:i]...)` before every escape, `s[start:]`
after the loop) and the index `skip` below which bytes were dealt with already — and proves that
both give the same text for every byte string (`appendJSONStringReal_eq`). -/
namespace OjgVerif.Writer
open OjgVerif

/-- `buf`, `start`, `skip` of the Go loop -/
structure LoopSt where
  buf : Bytes
  start : Nat
  skip : Nat

/-- `s[a:b]` -/
def slice (s : Bytes) (a b : Nat) : Bytes := (s.drop a).take (b - a)

/-- `if start < i { buf = append(buf, s[start:i]...) }` -/
def flushRun (s : Bytes) (st : LoopSt) (i : Nat) : Bytes :=
  if st.start < i then st.buf ++ slice s st.start i else st.buf

/-- one iteration `for i, b := range []byte(s)` -/
def loopStep (tbl : Array UInt8) (html : Bool) (s : Bytes) (st : LoopSt) (i : Nat) (b : UInt8) : LoopSt :=
  if i < st.skip then st                                                     -- `continue`
  else if tbl.getD b.toNat 0 = 111 then st                                   -- 'o': `continue`
  else if tbl.getD b.toNat 0 = 46 then                                       -- '.'
    { buf := flushRun s st i ++ u00 b, start := i + 1, skip := st.skip }
  else if tbl.getD b.toNat 0 = 104 then                                      -- 'h'
    if html then { buf := flushRun s st i ++ u00 b, start := i + 1, skip := st.skip } else st
  else if tbl.getD b.toNat 0 = 56 then                                       -- '8': `utf8.DecodeRuneInString(s[i:])`
    if (utf8Decode (s.drop i)).1 = 0x2028 then
      { buf := flushRun s st i ++ esc2028, start := i + (utf8Decode (s.drop i)).2, skip := i + (utf8Decode (s.drop i)).2 }
    else if (utf8Decode (s.drop i)).1 = 0x2029 then
      { buf := flushRun s st i ++ esc2029, start := i + (utf8Decode (s.drop i)).2, skip := i + (utf8Decode (s.drop i)).2 }
    else if (utf8Decode (s.drop i)).1 = runeError then
      { buf := flushRun s st i ++ escFFFD, start := i + (utf8Decode (s.drop i)).2, skip := i + (utf8Decode (s.drop i)).2 }
    else { st with skip := i + (utf8Decode (s.drop i)).2 }
  else { buf := flushRun s st i ++ [92, tbl.getD b.toNat 0], start := i + 1, skip := st.skip }

/-- the loop from index `i` over the bytes still to visit -/
def realLoop (tbl : Array UInt8) (html : Bool) (s : Bytes) : Nat → Bytes → LoopSt → LoopSt
  | _, [], st => st
  | i, b :: r, st => realLoop tbl html s (i + 1) r (loopStep tbl html s st i b)

/-- `if start < len(s) { buf = append(buf, s[start:]...) }; return append(buf, '"')` -/
def finishLoop (s : Bytes) (st : LoopSt) : Bytes :=
  (if st.start < s.length then st.buf ++ s.drop st.start else st.buf) ++ [34]

/-- `ojg.AppendJSONString(buf, s, htmlSafe)` as the Go code runs it -/
def appendJSONStringRealT (tbl : Array UInt8) (buf s : Bytes) (html : Bool) : Bytes :=
  finishLoop s (realLoop tbl html s 0 s { buf := buf ++ [34], start := 0, skip := 0 })

def appendJSONStringReal (buf s : Bytes) (html : Bool) : Bytes :=
  appendJSONStringRealT Gen.Root.jMap buf s html

/-! ## equality with the per-byte model -/

theorem utf8Decode_width_pos (b : UInt8) (r : Bytes) : 1 ≤ (utf8Decode (b :: r)).2 := by
  unfold utf8Decode
  repeat' split
  all_goals simp_all

theorem escLoop_zero_copy (tbl : Array UInt8) (html : Bool) (c : Bool) (r : Bytes) :
    escLoop tbl html 0 c r = escLoop tbl html 0 true r := by
  cases r with
  | nil => simp [escLoop]
  | cons b r => simp only [escLoop]

/-- the bytes of the verbatim run not yet in the buffer -/
def pend (s : Bytes) (st : LoopSt) (i : Nat) : Bytes := if st.start < i then slice s st.start i else []

theorem flushRun_eq (s : Bytes) (st : LoopSt) (i : Nat) : flushRun s st i = st.buf ++ pend s st i := by
  unfold flushRun pend; split <;> simp

theorem drop_at (pre : Bytes) (b : UInt8) (r : Bytes) : (pre ++ b :: r).drop pre.length = b :: r := by
  simp

theorem slice_snoc (pre : Bytes) (b : UInt8) (r : Bytes) (a : Nat) (ha : a ≤ pre.length) :
    slice (pre ++ b :: r) a (pre.length + 1) = slice (pre ++ b :: r) a pre.length ++ [b] := by
  unfold slice
  have h1 : (pre ++ b :: r).drop a = pre.drop a ++ b :: r := by
    rw [List.drop_append_of_le_length ha]
  rw [h1]
  generalize hd : pre.drop a = d
  have hl : d.length = pre.length - a := by rw [← hd]; simp
  have e1 : pre.length + 1 - a = d.length + 1 := by omega
  have e2 : pre.length - a = d.length := by omega
  rw [e1, e2]
  simp [List.take_append]
  exact List.take_of_length_le (by omega)

theorem pend_snoc (pre : Bytes) (b : UInt8) (r : Bytes) (st : LoopSt) (h : st.start ≤ pre.length) :
    pend (pre ++ b :: r) st (pre.length + 1) = pend (pre ++ b :: r) st pre.length ++ [b] := by
  unfold pend
  rw [if_pos (by omega), slice_snoc pre b r st.start h]
  split
  · rfl
  · have : st.start = pre.length := by omega
    simp [slice, this]

theorem escLoop_copy_irrel (tbl : Array UInt8) (html : Bool) (k : Nat) (c c' : Bool) (r : Bytes)
    (h : k = 0 ∨ c = c') : escLoop tbl html k c r = escLoop tbl html k c' r := by
  rcases h with h | h
  · subst h; rw [escLoop_zero_copy tbl html c, escLoop_zero_copy tbl html c']
  · subst h; rfl

theorem pend_nil (s : Bytes) (st : LoopSt) (i : Nat) (h : i ≤ st.start) : pend s st i = [] := by
  unfold pend; rw [if_neg (by omega)]

/-- the run starts at or before `i`, or a dropped sequence is being passed over: `start = skip` lies ahead -/
def LoopInv (st : LoopSt) (i : Nat) : Prop := st.start ≤ i ∨ (st.start = st.skip ∧ i < st.skip)

/-- what is still to come from state `st` at index `i` with the bytes `r` left, per the per-byte model -/
def restOf (tbl : Array UInt8) (html : Bool) (s : Bytes) (st : LoopSt) (i : Nat) (r : Bytes) : Bytes :=
  st.buf ++ pend s st i ++ escLoop tbl html (st.skip - i) (decide (st.start ≤ i)) r

/-- a step that appends an escape `e` and moves `start` (and possibly `skip`) past the byte -/
theorem restOf_emit (tbl : Array UInt8) (html : Bool) (s : Bytes) (st : LoopSt) (i : Nat) (r e : Bytes)
    (st' : LoopSt) (k : Nat) (c : Bool)
    (hb : st'.buf = flushRun s st i ++ e) (hs : i + 1 ≤ st'.start)
    (hk : st'.skip - (i + 1) = k) (hc : k = 0 ∨ decide (st'.start ≤ i + 1) = c) :
    restOf tbl html s st' (i + 1) r = st.buf ++ pend s st i ++ (e ++ escLoop tbl html k c r) := by
  unfold restOf
  rw [hb, flushRun_eq, pend_nil s st' (i + 1) hs, hk, escLoop_copy_irrel tbl html k _ c r hc]
  simp

theorem loopStep_spec (tbl : Array UInt8) (html : Bool) (pre : Bytes) (b : UInt8) (r : Bytes) (st : LoopSt)
    (hinv : LoopInv st pre.length) :
    LoopInv (loopStep tbl html (pre ++ b :: r) st pre.length b) (pre.length + 1) ∧
    restOf tbl html (pre ++ b :: r) (loopStep tbl html (pre ++ b :: r) st pre.length b) (pre.length + 1) r
      = restOf tbl html (pre ++ b :: r) st pre.length (b :: r) := by
  by_cases hsk : pre.length < st.skip
  · -- `continue`: a byte of a sequence dealt with already
    have hst : loopStep tbl html (pre ++ b :: r) st pre.length b = st := by
      unfold loopStep; rw [if_pos hsk]
    rw [hst]
    obtain ⟨k, hk⟩ : ∃ k, st.skip - pre.length = k + 1 := ⟨st.skip - pre.length - 1, by omega⟩
    have hk' : st.skip - (pre.length + 1) = k := by omega
    by_cases hle : st.start ≤ pre.length
    · refine ⟨Or.inl (by omega), ?_⟩
      unfold restOf
      rw [hk, hk', pend_snoc pre b r st hle]
      have h1 : decide (st.start ≤ pre.length + 1) = true := by simp; omega
      have h2 : decide (st.start ≤ pre.length) = true := by simp; omega
      rw [h1, h2]
      simp [escLoop]
    · have hss : st.start = st.skip := by
        rcases hinv with h | h
        · omega
        · exact h.1
      refine ⟨by unfold LoopInv; omega, ?_⟩
      unfold restOf
      rw [hk, hk', pend_nil _ st (pre.length + 1) (by omega), pend_nil _ st pre.length (by omega)]
      have h2 : decide (st.start ≤ pre.length) = false := by simp; omega
      rw [h2]
      simp only [escLoop]
      rw [escLoop_copy_irrel tbl html k _ false r]
      · simp
      · by_cases hk0 : k = 0
        · exact Or.inl hk0
        · right; simp; omega
  · -- a byte the switch looks at
    have hle : st.start ≤ pre.length := by
      rcases hinv with h | h
      · exact h
      · omega
    have hk : st.skip - pre.length = 0 := by omega
    have hk' : st.skip - (pre.length + 1) = 0 := by omega
    have hdrop : (pre ++ b :: r).drop pre.length = b :: r := drop_at pre b r
    have hkeep : restOf tbl html (pre ++ b :: r) st (pre.length + 1) r
        = st.buf ++ pend (pre ++ b :: r) st pre.length ++ (b :: escLoop tbl html 0 true r) := by
      unfold restOf
      rw [hk', pend_snoc pre b r st hle, escLoop_zero_copy]
      simp
    have hrhs : restOf tbl html (pre ++ b :: r) st pre.length (b :: r)
        = st.buf ++ pend (pre ++ b :: r) st pre.length ++ escLoop tbl html 0 true (b :: r) := by
      unfold restOf
      rw [hk, escLoop_zero_copy]
    rw [hrhs]
    unfold loopStep
    rw [if_neg hsk, hdrop]
    simp only [escLoop]
    have hw := utf8Decode_width_pos b r
    split
    · exact ⟨Or.inl (by omega), hkeep⟩
    split
    · refine ⟨Or.inl (by simp), ?_⟩
      exact restOf_emit tbl html _ st _ r (u00 b) _ 0 true rfl (by simp) (by simpa using hk') (Or.inl rfl)
    split
    · split
      · refine ⟨Or.inl (by simp), ?_⟩
        exact restOf_emit tbl html _ st _ r (u00 b) _ 0 true rfl (by simp) (by simpa using hk') (Or.inl rfl)
      · exact ⟨Or.inl (by omega), hkeep⟩
    split
    · split
      · refine ⟨by unfold LoopInv; simp; omega, ?_⟩
        refine restOf_emit tbl html _ st _ r esc2028 _ _ false rfl (by simp; omega) (by simp; omega) ?_
        by_cases h1 : (utf8Decode (b :: r)).2 - 1 = 0
        · exact Or.inl h1
        · right; simp; omega
      split
      · refine ⟨by unfold LoopInv; simp; omega, ?_⟩
        refine restOf_emit tbl html _ st _ r esc2029 _ _ false rfl (by simp; omega) (by simp; omega) ?_
        by_cases h1 : (utf8Decode (b :: r)).2 - 1 = 0
        · exact Or.inl h1
        · right; simp; omega
      split
      · refine ⟨by unfold LoopInv; simp; omega, ?_⟩
        refine restOf_emit tbl html _ st _ r escFFFD _ _ false rfl (by simp; omega) (by simp; omega) ?_
        by_cases h1 : (utf8Decode (b :: r)).2 - 1 = 0
        · exact Or.inl h1
        · right; simp; omega
      · refine ⟨Or.inl (by simp; omega), ?_⟩
        unfold restOf
        simp only []
        rw [pend_snoc pre b r { st with skip := pre.length + (utf8Decode (b :: r)).2 } hle]
        have h1 : decide (st.start ≤ pre.length + 1) = true := by simp; omega
        rw [h1]
        have h2 : pre.length + (utf8Decode (b :: r)).2 - (pre.length + 1) = (utf8Decode (b :: r)).2 - 1 := by omega
        rw [h2]
        simp [pend]
    · refine ⟨Or.inl (by simp), ?_⟩
      exact restOf_emit tbl html _ st _ r [92, tbl.getD b.toNat 0] _ 0 true rfl (by simp) (by simpa using hk') (Or.inl rfl)

theorem realLoop_eq (tbl : Array UInt8) (html : Bool) : ∀ (r pre : Bytes) (st : LoopSt),
    LoopInv st pre.length →
    finishLoop (pre ++ r) (realLoop tbl html (pre ++ r) pre.length r st)
      = restOf tbl html (pre ++ r) st pre.length r ++ [34] := by
  intro r
  induction r with
  | nil =>
    intro pre st _
    simp only [realLoop, finishLoop, restOf, escLoop, List.append_nil, pend, slice]
    split
    · rw [List.take_of_length_le (by simp)]
    · simp
  | cons b r ih =>
    intro pre st hinv
    obtain ⟨hinv', heq⟩ := loopStep_spec tbl html pre b r st hinv
    have hs : pre ++ b :: r = (pre ++ [b]) ++ r := by simp
    have hl : pre.length + 1 = (pre ++ [b]).length := by simp
    rw [← heq]
    simp only [realLoop]
    rw [hs, hl] at hinv' ⊢
    exact ih (pre ++ [b]) _ hinv'

/-- THE LOOP AS WRITTEN = THE PER-BYTE MODEL: for every table, buffer, byte string and html flag the
transcription of the Go loop with its `start` / `skip` indices (runs copied by `s[start:i]`, the
rest by `s[start:]`) gives exactly the text of the per-byte model -/
theorem appendJSONStringRealT_eq (tbl : Array UInt8) (buf s : Bytes) (html : Bool) :
    appendJSONStringRealT tbl buf s html = buf ++ (34 :: (escLoop tbl html 0 true s ++ [34])) := by
  have h := realLoop_eq tbl html s [] { buf := buf ++ [34], start := 0, skip := 0 } (Or.inl (by simp))
  simp only [List.nil_append, List.length_nil] at h
  unfold appendJSONStringRealT
  rw [h]
  simp [restOf, pend]

theorem appendJSONStringReal_eq (buf s : Bytes) (html : Bool) :
    appendJSONStringReal buf s html = appendJSONString buf s html :=
  appendJSONStringRealT_eq Gen.Root.jMap buf s html

end OjgVerif.Writer
