import OjgVerif.Writer.Pretty
import OjgVerif.Writer.LemmasParse
/-! Lemmas about `pretty`'s alignment tables, for tables of ARRAYS (`alignArray`, `updateArrayTable`):
the text `alignArray`/`alignMap` write as a function of node and table (`nodeT`) when no padding is out
of range (`nodeOK`); what `updateArrayTable` builds (columns 0, 1, 2, … in order, every row covered,
sizes that bound the paddings: `TableA`, `Cov`); and the RFC 8259 reading of an aligned array row. -/
set_option linter.unusedSimpArgs false
set_option linter.unusedVariables false
namespace OjgVerif.Writer.Pretty
open OjgVerif OjgVerif.Json OjgVerif.Writer

/-! ### the state -/

def PSt.flat (s : PSt) : Bytes := s.st.flat

theorem push_ok (s : PSt) (bs : Bytes) (h : s.bad = false) :
    (s.push bs).bad = false ∧ (s.push bs).flat = s.flat ++ bs := by
  simp [PSt.push, h, PSt.flat]

theorem push1_ok (s : PSt) (b : UInt8) (h : s.bad = false) :
    (s.push1 b).bad = false ∧ (s.push1 b).flat = s.flat ++ [b] := by
  simp [PSt.push1, h, PSt.flat]

theorem flush_ok (lim : Option Nat) (s : PSt) (h : s.bad = false) :
    (s.flush lim).bad = false ∧ (s.flush lim).flat = s.flat := by
  simp [PSt.flush, h, PSt.flat]

theorem pad_zero (s : PSt) : s.pad 0 = s := rfl

/-! ### what `build` produces -/

/-- the members `buildMapNode` keeps, with their encoded keys -/
theorem buildMembers_fst (o : POpts) (bv : JV → PNode) : ∀ (kvs : Kvs) (acc : List (Bytes × PNode)) (sz dp : Nat),
    (buildMembers o bv kvs acc sz dp).1 =
      acc.reverse ++ (kvs.filter fun kv => !(bv kv.2).skip).map fun kv => (jsonString kv.1 (!o.htmlUnsafe), bv kv.2) := by
  intro kvs
  induction kvs with
  | nil => intro acc sz dp; simp [buildMembers]
  | cons kv r ih =>
    intro acc sz dp
    obtain ⟨k, v⟩ := kv
    simp only [buildMembers]
    by_cases h : (bv v).skip = true
    · simp [h, ih]
    · simp [h, ih]

/-- the generated separators and the indentation constant are white space -/
structure SepWs : Prop where
  spaces : (Gen.Pretty.spaces.toList.all Spec.isWs) = true
  flat : (Gen.PrettyFill.flatCs.toList.all Spec.isWs) = true
  deep : (Gen.PrettyFill.deepFlatCs.toList.all Spec.isWs) = true


/-! ### the aligned rows as text -/

/-- `spaces[1:hi]` when `lt` -/
def padT (lt : Bool) (hi : Nat) : Bytes := if lt then sliceOf Gen.Pretty.spaces 1 hi else []

/-- text of `alignCell` -/
def cellT (aaT amT : PNode → Table → Bytes) (m : PNode) (col : Table) : Bytes :=
  match m with
  | .leaf kind buf _ =>
    if kind = Gen.Pretty.strNode then buf ++ padT (buf.length < col.size) (col.size - buf.length + 1)
    else if kind = Gen.Pretty.numNode then padT (buf.length < col.size) (col.size - buf.length + 1) ++ buf
    else []
  | .arr .. => aaT m col
  | .map .. => amT m col

/-- no slice of `alignCell` is out of range -/
def cellOK (aaOK amOK : PNode → Table → Prop) (m : PNode) (col : Table) : Prop :=
  match m with
  | .leaf _ buf _ => buf.length < col.size → col.size - buf.length + 1 ≤ Gen.Pretty.spaces.size
  | .arr .. => aaOK m col
  | .map .. => amOK m col

def arrColsT (aaT amT : PNode → Table → Bytes) : List Table → List PNode → Nat → Bytes
  | [], _, _ => []
  | _ :: _, [], _ => []
  | col :: cr, m :: mr, k =>
    (if 0 < k then [44, 32] else []) ++ cellT aaT amT m col ++ arrColsT aaT amT cr mr (k + 1)

def arrColsOK (aaOK amOK : PNode → Table → Prop) : List Table → List PNode → Prop
  | [], _ => True
  | _ :: _, [] => True
  | col :: cr, m :: mr => cellOK aaOK amOK m col ∧ arrColsOK aaOK amOK cr mr

def mapColsT (aaT amT : PNode → Table → Bytes) (ms : List (Bytes × PNode)) (n : Nat) :
    List Table → Nat → Bool → Bytes
  | [], _, _ => []
  | col :: cr, i, prevExist =>
    (if prevExist then [44, 32] else []) ++
    match findMember col.key.string ms with
    | none =>
      sliceOf Gen.Pretty.spaces 1
        ((if i + 1 < n then col.key.string.length + 2 + col.size + 2 else col.key.string.length + 2 + col.size) + 1)
        ++ mapColsT aaT amT ms n cr (i + 1) false
    | some m => col.key.string ++ [58, 32] ++ cellT aaT amT m col ++ mapColsT aaT amT ms n cr (i + 1) true

def mapColsOK (aaOK amOK : PNode → Table → Prop) (ms : List (Bytes × PNode)) (n : Nat) :
    List Table → Nat → Prop
  | [], _ => True
  | col :: cr, i =>
    (match findMember col.key.string ms with
     | none => (if i + 1 < n then col.key.string.length + 2 + col.size + 2 else col.key.string.length + 2 + col.size) + 1
          ≤ Gen.Pretty.spaces.size
     | some m => cellOK aaOK amOK m col) ∧ mapColsOK aaOK amOK ms n cr (i + 1)

/-- text of `alignArray` / `alignMap` -/
def nodeT : Nat → PNode → Table → Bytes
  | 0, _, _ => []
  | f+1, n, t =>
    match n with
    | .leaf .. => []
    | .arr ms _ _ _ => 91 :: (arrColsT (nodeT f) (nodeT f) t.cols ms 0 ++ [93])
    | .map ms _ _ _ => 123 :: (mapColsT (nodeT f) (nodeT f) ms t.cols.length t.cols 0 false ++ [125])

def nodeOK : Nat → PNode → Table → Prop
  | 0, _, _ => True
  | f+1, n, t =>
    match n with
    | .leaf .. => True
    | .arr ms _ _ _ => arrColsOK (nodeOK f) (nodeOK f) t.cols ms
    | .map ms _ _ _ => mapColsOK (nodeOK f) (nodeOK f) ms t.cols.length t.cols 0

theorem pushSpaces_ok (s : PSt) (lo hi : Nat) (h : s.bad = false) (h1 : hi ≤ Gen.Pretty.spaces.size) (h2 : lo ≤ hi) :
    (s.pushSpaces lo hi).bad = false ∧ (s.pushSpaces lo hi).flat = s.flat ++ sliceOf Gen.Pretty.spaces lo hi := by
  have c : (Gen.Pretty.spaces.size < hi || hi < lo) = false := by simp; omega
  simp only [PSt.pushSpaces, c, Bool.false_eq_true, ↓reduceIte]
  exact push_ok s _ h

/-- what a sub-aligner has to satisfy -/
def AlignSpec (a : PNode → Table → PSt → PSt) (aT : PNode → Table → Bytes) (aOK : PNode → Table → Prop) : Prop :=
  ∀ m t s, aOK m t → s.bad = false → (a m t s).bad = false ∧ (a m t s).flat = s.flat ++ aT m t

theorem alignCell_flat (aa am : PNode → Table → PSt → PSt) (aaT amT : PNode → Table → Bytes)
    (aaOK amOK : PNode → Table → Prop) (haa : AlignSpec aa aaT aaOK) (ham : AlignSpec am amT amOK)
    (m : PNode) (col : Table) (s : PSt) (hok : cellOK aaOK amOK m col) (hs : s.bad = false) :
    (alignCell aa am m col s).bad = false ∧
      (alignCell aa am m col s).flat = s.flat ++ cellT aaT amT m col := by
  cases m with
  | leaf kind buf sk =>
    simp only [cellOK] at hok
    simp only [alignCell, cellT, padT]
    by_cases hk : kind = Gen.Pretty.strNode
    · simp only [hk, ↓reduceIte]
      have h1 := push_ok s buf hs
      by_cases hlt : buf.length < col.size
      · have h2 := pushSpaces_ok (s.push buf) 1 (col.size - buf.length + 1) h1.1 (hok hlt) (by omega)
        simp only [hlt, ↓reduceIte, decide_true]
        exact ⟨h2.1, by rw [h2.2, h1.2]; simp⟩
      · simp only [hlt, ↓reduceIte, decide_false, Bool.false_eq_true, List.append_nil]
        exact h1
    · by_cases hn : kind = Gen.Pretty.numNode
      · simp only [hk, hn, ↓reduceIte]
        have hne : ¬ (Gen.Pretty.numNode = Gen.Pretty.strNode) := by decide
        simp only [hne, ↓reduceIte]
        by_cases hlt : buf.length < col.size
        · have h2 := pushSpaces_ok s 1 (col.size - buf.length + 1) hs (hok hlt) (by omega)
          have h1 := push_ok _ buf h2.1
          simp only [hlt, ↓reduceIte, decide_true]
          exact ⟨h1.1, by rw [h1.2, h2.2]; simp⟩
        · simp only [hlt, ↓reduceIte, decide_false, Bool.false_eq_true, List.nil_append]
          exact push_ok s buf hs
      · simp only [hk, hn, ↓reduceIte, List.append_nil]
        exact ⟨hs, trivial⟩
  | arr ms sz dp sk => exact haa _ _ _ hok hs
  | map ms sz dp sk => exact ham _ _ _ hok hs

theorem alignArrCols_flat (aa am : PNode → Table → PSt → PSt) (aaT amT : PNode → Table → Bytes)
    (aaOK amOK : PNode → Table → Prop) (haa : AlignSpec aa aaT aaOK) (ham : AlignSpec am amT amOK) :
    ∀ (cols : List Table) (ms : List PNode) (k : Nat) (s : PSt), arrColsOK aaOK amOK cols ms → s.bad = false →
      (alignArrCols aa am cols ms k s).bad = false ∧
      (alignArrCols aa am cols ms k s).flat = s.flat ++ arrColsT aaT amT cols ms k := by
  intro cols
  induction cols with
  | nil => intro ms k s _ hs; simp [alignArrCols, arrColsT, hs]
  | cons col cr ih =>
    intro ms k s hok hs
    cases ms with
    | nil => simp [alignArrCols, arrColsT, hs]
    | cons m mr =>
      simp only [arrColsOK] at hok
      simp only [alignArrCols, arrColsT]
      by_cases hk : 0 < k
      · have h1 := push1_ok s 44 hs
        have h2 := push1_ok _ 32 h1.1
        have h3 := alignCell_flat aa am aaT amT aaOK amOK haa ham m col _ hok.1 h2.1
        have h4 := ih mr (k + 1) _ hok.2 h3.1
        simp only [hk, ↓reduceIte]
        exact ⟨h4.1, by rw [h4.2, h3.2, h2.2, h1.2]; simp⟩
      · have h3 := alignCell_flat aa am aaT amT aaOK amOK haa ham m col s hok.1 hs
        have h4 := ih mr (k + 1) _ hok.2 h3.1
        simp only [hk, ↓reduceIte]
        exact ⟨h4.1, by rw [h4.2, h3.2]; simp⟩

theorem alignMapCols_flat (aa am : PNode → Table → PSt → PSt) (aaT amT : PNode → Table → Bytes)
    (aaOK amOK : PNode → Table → Prop) (haa : AlignSpec aa aaT aaOK) (ham : AlignSpec am amT amOK)
    (ms : List (Bytes × PNode)) (n : Nat) :
    ∀ (cols : List Table) (i : Nat) (pe : Bool) (s : PSt), mapColsOK aaOK amOK ms n cols i → s.bad = false →
      (alignMapCols aa am ms n cols i pe s).bad = false ∧
      (alignMapCols aa am ms n cols i pe s).flat = s.flat ++ mapColsT aaT amT ms n cols i pe := by
  intro cols
  induction cols with
  | nil => intro i pe s _ hs; simp [alignMapCols, mapColsT, hs]
  | cons col cr ih =>
    intro i pe s hok hs
    simp only [mapColsOK] at hok
    -- the separator
    have hsep : ∃ s1 : PSt, (if pe = true then (s.push1 44).push1 32 else s) = s1 ∧ s1.bad = false ∧
        s1.flat = s.flat ++ (if pe = true then [44, 32] else []) := by
      cases pe with
      | true =>
        have h1 := push1_ok s 44 hs
        have h2 := push1_ok _ 32 h1.1
        exact ⟨_, rfl, by simpa using h2.1, by simp only [↓reduceIte]; rw [h2.2, h1.2]; simp⟩
      | false => exact ⟨_, rfl, by simpa using hs, by simp⟩
    obtain ⟨s1, he, hb1, hf1⟩ := hsep
    simp only [alignMapCols, mapColsT, he]
    cases hfm : findMember col.key.string ms with
    | none =>
      simp only [hfm] at hok
      have h2 := pushSpaces_ok s1 1 _ hb1 hok.1 (by omega)
      have h3 := ih (i + 1) false _ hok.2 h2.1
      simp only
      by_cases hlast : i + 1 < n
      · simp only [hlast, ↓reduceIte] at h2 h3 ⊢
        exact ⟨h3.1, by rw [h3.2, h2.2, hf1]; simp⟩
      · simp only [hlast, ↓reduceIte] at h2 h3 ⊢
        exact ⟨h3.1, by rw [h3.2, h2.2, hf1]; simp⟩
    | some m =>
      simp only [hfm] at hok
      have h2 := push_ok s1 col.key.string hb1
      have h3 := push1_ok _ 58 h2.1
      have h4 := push1_ok _ 32 h3.1
      have h5 := alignCell_flat aa am aaT amT aaOK amOK haa ham m col _ hok.1 h4.1
      have h6 := ih (i + 1) true _ hok.2 h5.1
      simp only
      exact ⟨h6.1, by rw [h6.2, h5.2, h4.2, h3.2, h2.2, hf1]; simp⟩

theorem alignNode_flat : ∀ f : Nat, AlignSpec (alignNode f) (nodeT f) (nodeOK f) := by
  intro f
  induction f with
  | zero => intro m t s _ hs; simp [alignNode, nodeT, hs]
  | succ f ih =>
    intro m t s hok hs
    cases m with
    | leaf k buf sk => simp [alignNode, nodeT, hs]
    | arr ms sz dp sk =>
      simp only [nodeOK] at hok
      have h1 := push1_ok s 91 hs
      have h2 := alignArrCols_flat _ _ _ _ _ _ ih ih t.cols ms 0 _ hok h1.1
      have h3 := push1_ok _ 93 h2.1
      simp only [alignNode, nodeT]
      exact ⟨h3.1, by rw [h3.2, h2.2, h1.2]; simp⟩
    | map ms sz dp sk =>
      simp only [nodeOK] at hok
      have h1 := push1_ok s 123 hs
      have h2 := alignMapCols_flat _ _ _ _ _ _ ih ih ms t.cols.length t.cols 0 false _ hok h1.1
      have h3 := push1_ok _ 125 h2.1
      simp only [alignNode, nodeT]
      exact ⟨h3.1, by rw [h3.2, h2.2, h1.2]; simp⟩

/-- text of the rows of `checkAlign` -/
def rowsT (fuel : Nat) (c : Table) (cs : Bytes) : List PNode → Nat → Bytes
  | [], _ => []
  | m :: r, i => (if 0 < i then [44] else []) ++ cs ++ nodeT fuel m c ++ rowsT fuel c cs r (i + 1)

theorem alignRows_flat (fuel : Nat) (c : Table) (cs : Bytes) : ∀ (ms : List PNode) (i : Nat) (s : PSt),
    (∀ m ∈ ms, nodeOK fuel m c) → s.bad = false →
    (alignRows fuel c cs ms i s).bad = false ∧
      (alignRows fuel c cs ms i s).flat = s.flat ++ rowsT fuel c cs ms i := by
  intro ms
  induction ms with
  | nil => intro i s _ hs; simp [alignRows, rowsT, hs]
  | cons m r ih =>
    intro i s hok hs
    simp only [alignRows, rowsT]
    by_cases hi : 0 < i
    · have h1 := push1_ok s 44 hs
      have h2 := push_ok _ cs h1.1
      have h3 := alignNode_flat fuel m c _ (hok m (by simp)) h2.1
      have h4 := ih (i + 1) _ (fun x hx => hok x (by simp [hx])) h3.1
      simp only [hi, ↓reduceIte]
      exact ⟨h4.1, by rw [h4.2, h3.2, h2.2, h1.2]; simp⟩
    · have h2 := push_ok s cs hs
      have h3 := alignNode_flat fuel m c _ (hok m (by simp)) h2.1
      have h4 := ih (i + 1) _ (fun x hx => hok x (by simp [hx])) h3.1
      simp only [hi, ↓reduceIte]
      exact ⟨h4.1, by rw [h4.2, h3.2, h2.2]; simp⟩


/-! ### tables of arrays: what `update*Table` builds -/

mutual
  /-- no map node inside -/
  def AOnly : PNode → Prop
    | .leaf .. => True
    | .arr ms _ _ _ => AOnlyL ms
    | .map .. => False
  def AOnlyL : List PNode → Prop
    | [] => True
    | m :: r => AOnly m ∧ AOnlyL r
end

mutual
  def PNode.height : PNode → Nat
    | .leaf .. => 0
    | .arr ms _ _ _ => PNode.heightL ms + 1
    | .map ms _ _ _ => PNode.heightM ms + 1
  def PNode.heightL : List PNode → Nat
    | [] => 0
    | m :: r => max m.height (PNode.heightL r)
  def PNode.heightM : List (Bytes × PNode) → Nat
    | [] => 0
    | (_, m) :: r => max m.height (PNode.heightM r)
end

mutual
  /-- invariant of a table that only ever saw array rows: columns `0, 1, 2, …` in order, and the size
  is at least the sum of the column sizes -/
  def TableA : Table → Prop
    | .mk _ size cols _ => sumSizes cols ≤ size ∧ TableAL cols 0
  def TableAL : List Table → Nat → Prop
    | [], _ => True
    | c :: r, base => c.key = .idx base ∧ TableA c ∧ TableAL r (base + 1)
end

mutual
  /-- the table has a column for every member of the (array) node, at the member's position, and so on
  for the members that are arrays -/
  def Cov : PNode → Table → Prop
    | .arr ms _ _ _, t => CovL ms t.cols
    | .leaf .., _ => True
    | .map .., _ => True
  def CovL : List PNode → List Table → Prop
    | [], _ => True
    | m :: mr, cols =>
      match cols with
      | [] => False
      | c :: cr => Cov m c ∧ CovL mr cr
end

/-- `updateArrayTable` over columns `i, i+1, …`: member by member, column by column -/
def zipApply (u : PNode → Table → Table) : Nat → List PNode → List Table → List Table
  | _, [], cs => cs
  | i, m :: mr, [] => applyMember u m (.mk (.idx i) 0 [] 0) :: zipApply u (i + 1) mr []
  | i, m :: mr, c :: cr => applyMember u m c :: zipApply u (i + 1) mr cr

theorem findLast_none_of_keys (key : TKey) : ∀ (cols : List Table) (j : Nat) (found : Option Nat),
    (∀ c ∈ cols, c.key ≠ key) → findLast key cols j found = found := by
  intro cols
  induction cols with
  | nil => intro j found _; rfl
  | cons c r ih =>
    intro j found h
    simp only [findLast, h c (by simp), ↓reduceIte]
    exact ih _ _ (fun x hx => h x (by simp [hx]))

theorem TableAL_keys : ∀ (cols : List Table) (base : Nat), TableAL cols base →
    ∀ c ∈ cols, ∃ k, c.key = .idx k ∧ base ≤ k ∧ k < base + cols.length := by
  intro cols
  induction cols with
  | nil => intro base _ c hc; simp at hc
  | cons x r ih =>
    intro base h c hc
    simp only [TableAL] at h
    simp only [List.mem_cons] at hc
    rcases hc with rfl | hc
    · exact ⟨base, h.1, Nat.le_refl _, by simp⟩
    · obtain ⟨k, h1, h2, h3⟩ := ih (base + 1) h.2.2 c hc
      exact ⟨k, h1, by omega, by simp; omega⟩

theorem modifyAt_append (f : Table → Table) : ∀ (pre : List Table) (c : Table) (cr : List Table),
    modifyAt f (pre ++ c :: cr) pre.length = pre ++ f c :: cr := by
  intro pre
  induction pre with
  | nil => intro c cr; rfl
  | cons p r ih => intro c cr; simp [modifyAt, ih]

theorem TableAL_append : ∀ (pre suf : List Table) (base : Nat),
    TableAL (pre ++ suf) base ↔ TableAL pre base ∧ TableAL suf (base + pre.length) := by
  intro pre
  induction pre with
  | nil => intro suf base; simp [TableAL]
  | cons p r ih =>
    intro suf base
    simp only [List.cons_append, TableAL, ih, List.length_cons]
    have : base + 1 + r.length = base + (r.length + 1) := by omega
    rw [this]
    constructor
    · rintro ⟨h1, h2, h3, h4⟩; exact ⟨⟨h1, h2, h3⟩, h4⟩
    · rintro ⟨⟨h1, h2, h3⟩, h4⟩; exact ⟨h1, h2, h3, h4⟩

/-- the last column with key `i` in columns `0 … n-1` is column `i` -/
theorem findLast_contig (pre suf : List Table) (i : Nat) (hi : pre.length = i) (h : TableAL (pre ++ suf) 0) :
    findLast (.idx i) (pre ++ suf) 0 none = (match suf with | [] => none | _ :: _ => some i) := by
  have hsplit := (TableAL_append pre suf 0).mp h
  -- nothing in `pre` has the key
  have hpre : ∀ c ∈ pre, c.key ≠ .idx i := by
    intro c hc e
    obtain ⟨k, h1, _, h3⟩ := TableAL_keys pre 0 hsplit.1 c hc
    rw [h1] at e
    injection e with e
    omega
  -- walk through `pre`
  have hwalk : ∀ (p : List Table) (j : Nat) (found : Option Nat) (rest : List Table),
      (∀ c ∈ p, c.key ≠ .idx i) → findLast (.idx i) (p ++ rest) j found = findLast (.idx i) rest (j + p.length) found := by
    intro p
    induction p with
    | nil => intro j found rest _; simp
    | cons c r ih =>
      intro j found rest hp
      simp only [List.cons_append, findLast, hp c (by simp), ↓reduceIte, List.length_cons]
      rw [ih _ _ _ (fun x hx => hp x (by simp [hx]))]
      congr 1; omega
  rw [hwalk pre 0 none suf hpre]
  cases suf with
  | nil => rfl
  | cons c cr =>
    have hs := hsplit.2
    simp only [TableAL, Nat.zero_add] at hs
    have hcr : ∀ x ∈ cr, x.key ≠ .idx i := by
      intro x hx e
      obtain ⟨k, h1, h2, _⟩ := TableAL_keys cr (pre.length + 1) hs.2.2 x hx
      rw [h1] at e
      injection e with e
      omega
    simp only [findLast, hs.1, hi, ↓reduceIte, Nat.zero_add]
    rw [findLast_none_of_keys _ cr _ _ hcr]

theorem upd_key : ∀ (g : Nat) (n : PNode) (t : Table), (upd g n t).key = t.key := by
  intro g n t
  cases g with
  | zero => rfl
  | succ g => cases n <;> simp [upd, Table.key]

theorem applyMember_key (u : PNode → Table → Table) (hu : ∀ m t, (u m t).key = t.key) (m : PNode) (c : Table) :
    (applyMember u m c).key = c.key := by
  cases m with
  | leaf k buf sk => simp only [applyMember]; split <;> simp [Table.key]
  | arr ms sz dp sk => simp only [applyMember]; rw [hu]; rfl
  | map ms sz dp sk => simp only [applyMember]; rw [hu]; rfl

theorem TableA_fresh (i : Nat) : TableA (.mk (.idx i) 0 [] 0) := by simp [TableA, TableAL, sumSizes]

/-- `updArrCols` on contiguous columns is `zipApply` -/
theorem updArrCols_eq (u : PNode → Table → Table) (hu : ∀ m t, (u m t).key = t.key) :
    ∀ (ms : List PNode) (i : Nat) (pre suf : List Table), pre.length = i → TableAL (pre ++ suf) 0 →
      (∀ m ∈ ms, ∀ c, TableA c → TableA (applyMember u m c)) →
      updArrCols u ms i (pre ++ suf) = pre ++ zipApply u i ms suf ∧ TableAL (pre ++ zipApply u i ms suf) 0 := by
  intro ms
  induction ms with
  | nil => intro i pre suf _ h _; exact ⟨by simp [updArrCols, zipApply], by simpa [zipApply] using h⟩
  | cons m mr ih =>
    intro i pre suf hi h hA
    have hfl := findLast_contig pre suf i hi h
    have hsplit := (TableAL_append pre suf 0).mp h
    cases suf with
    | nil =>
      simp only [List.append_nil] at hfl
      have hx : TableA (applyMember u m (.mk (.idx i) 0 [] 0)) := hA m (by simp) _ (TableA_fresh i)
      have hk : (applyMember u m (.mk (.idx i) 0 [] 0)).key = .idx i := by
        rw [applyMember_key u hu]; rfl
      have h' : TableAL ((pre ++ [applyMember u m (.mk (.idx i) 0 [] 0)]) ++ []) 0 := by
        rw [List.append_nil]
        apply (TableAL_append _ _ 0).mpr
        refine ⟨by simpa using hsplit.1, ?_⟩
        simp only [TableAL, Nat.zero_add, hi, hk, hx, and_self]
      have := ih (i + 1) (pre ++ [applyMember u m (.mk (.idx i) 0 [] 0)]) [] (by simp [hi]) h'
        (fun x hx => hA x (by simp [hx]))
      simp only [updArrCols, updateCol, hfl, zipApply, List.append_nil] at this ⊢
      simp only [List.append_assoc, List.singleton_append] at this
      exact this
    | cons c cr =>
      simp only at hfl
      have hs := hsplit.2
      simp only [TableAL, Nat.zero_add] at hs
      have hx : TableA (applyMember u m c) := hA m (by simp) _ hs.2.1
      have hk : (applyMember u m c).key = .idx i := by
        rw [applyMember_key u hu, hs.1, hi]
      have h' : TableAL ((pre ++ [applyMember u m c]) ++ cr) 0 := by
        apply (TableAL_append _ _ 0).mpr
        constructor
        · apply (TableAL_append _ _ 0).mpr
          refine ⟨hsplit.1, ?_⟩
          simp only [TableAL, Nat.zero_add, hi, hk, hx, and_self]
        · simpa [hi, Nat.add_comm] using hs.2.2
      have := ih (i + 1) (pre ++ [applyMember u m c]) cr (by simp [hi]) h' (fun x hx => hA x (by simp [hx]))
      have hmod : modifyAt (applyMember u m) (pre ++ c :: cr) i = pre ++ applyMember u m c :: cr := by
        rw [← hi]; exact modifyAt_append _ pre c cr
      simp only [updArrCols, updateCol, hfl, hmod, zipApply]
      simp only [List.append_assoc, List.singleton_append] at this
      exact this

/-- columns `0, 1, 2, …` are already sorted -/
theorem sortBy_contig : ∀ (cols acc : List Table) (base : Nat), TableAL cols base →
    (∀ a ∈ acc, ∃ k, a.key = .idx k ∧ k < base) →
    sortBy (fun a b => decide (a.key.int < b.key.int)) cols acc = acc ++ cols := by
  intro cols
  induction cols with
  | nil => intro acc base _ _; simp [sortBy]
  | cons c r ih =>
    intro acc base h hacc
    simp only [TableAL] at h
    have hins : insertBy (fun a b => decide (a.key.int < b.key.int)) c acc = acc ++ [c] := by
      clear ih
      induction acc with
      | nil => rfl
      | cons a ar iha =>
        obtain ⟨k, hk1, hk2⟩ := hacc a (by simp)
        have : ¬ (c.key.int < a.key.int) := by rw [h.1, hk1]; simp [TKey.int]; omega
        simp only [insertBy, this, decide_false, Bool.false_eq_true, ↓reduceIte, List.cons_append]
        rw [iha (fun x hx => hacc x (by simp [hx]))]
    simp only [sortBy, hins]
    rw [ih (acc ++ [c]) (base + 1) h.2.2]
    · simp
    · intro a ha
      simp only [List.mem_append, List.mem_singleton] at ha
      rcases ha with ha | rfl
      · obtain ⟨k, hk1, hk2⟩ := hacc a ha; exact ⟨k, hk1, by omega⟩
      · exact ⟨base, h.1, by omega⟩

theorem Cov_congr (n : PNode) (t t' : Table) (h : t.cols = t'.cols) : Cov n t = Cov n t' := by
  cases n <;> simp [Cov, h]

theorem TableAL_all : ∀ (cols : List Table) (base : Nat), TableAL cols base → ∀ c ∈ cols, TableA c := by
  intro cols
  induction cols with
  | nil => intro _ _ c hc; simp at hc
  | cons x r ih =>
    intro base h c hc
    simp only [TableAL] at h
    simp only [List.mem_cons] at hc
    rcases hc with rfl | hc
    · exact h.2.1
    · exact ih _ h.2.2 c hc

theorem zipApply_cov_self (u : PNode → Table → Table) : ∀ (ms : List PNode) (i : Nat) (cols : List Table),
    (∀ c ∈ cols, TableA c) → (∀ m ∈ ms, ∀ c, TableA c → Cov m (applyMember u m c)) →
    CovL ms (zipApply u i ms cols) := by
  intro ms
  induction ms with
  | nil => intro i cols _ _; simp [CovL]
  | cons m mr ih =>
    intro i cols hc hm
    cases cols with
    | nil =>
      simp only [zipApply, CovL]
      exact ⟨hm m (by simp) _ (TableA_fresh i), ih _ _ (by simp) (fun x hx => hm x (by simp [hx]))⟩
    | cons c cr =>
      simp only [zipApply, CovL]
      exact ⟨hm m (by simp) _ (hc c (by simp)), ih _ _ (fun x hx => hc x (by simp [hx])) (fun x hx => hm x (by simp [hx]))⟩

theorem zipApply_cov_mono (u : PNode → Table → Table) : ∀ (ms' : List PNode) (ms : List PNode) (i : Nat) (cols : List Table),
    CovL ms' cols → (∀ c ∈ cols, TableA c) → (∀ m ∈ ms, ∀ n' c, TableA c → Cov n' c → Cov n' (applyMember u m c)) →
    CovL ms' (zipApply u i ms cols) := by
  intro ms'
  induction ms' with
  | nil => intro ms i cols _ _ _; simp [CovL]
  | cons m' mr' ih =>
    intro ms i cols hc hta hm
    cases cols with
    | nil => simp [CovL] at hc
    | cons c cr =>
      simp only [CovL] at hc
      cases ms with
      | nil => simpa [zipApply, CovL] using hc
      | cons m mr =>
        simp only [zipApply, CovL]
        exact ⟨hm m (by simp) _ _ (hta c (by simp)) hc.1,
          ih mr (i + 1) cr hc.2 (fun x hx => hta x (by simp [hx])) (fun x hx => hm x (by simp [hx]))⟩

theorem AOnlyL_mem : ∀ (ms : List PNode), AOnlyL ms → ∀ m ∈ ms, AOnly m := by
  intro ms
  induction ms with
  | nil => intro _ m hm; simp at hm
  | cons x r ih =>
    intro h m hm
    simp only [AOnlyL] at h
    simp only [List.mem_cons] at hm
    rcases hm with rfl | hm
    · exact h.1
    · exact ih h.2 m hm

theorem heightL_mem : ∀ (ms : List PNode) (m : PNode), m ∈ ms → m.height ≤ PNode.heightL ms := by
  intro ms
  induction ms with
  | nil => intro m hm; simp at hm
  | cons x r ih =>
    intro m hm
    simp only [List.mem_cons] at hm
    simp only [PNode.heightL]
    rcases hm with rfl | hm
    · omega
    · have := ih m hm; omega

theorem applyMember_leaf (u : PNode → Table → Table) (k : UInt8) (buf : Bytes) (sk : Bool) (ck : TKey) (cs : Nat)
    (cc : List Table) (ckd : Nat) :
    applyMember u (.leaf k buf sk) (.mk ck cs cc ckd) =
      if cs < buf.length then .mk ck buf.length cc ckd else .mk ck cs cc ckd := rfl

theorem applyMember_arr (u : PNode → Table → Table) (ms : List PNode) (sz dp : Nat) (sk : Bool) (ck : TKey) (cs : Nat)
    (cc : List Table) (ckd : Nat) :
    applyMember u (.arr ms sz dp sk) (.mk ck cs cc ckd) = u (.arr ms sz dp sk) (.mk ck cs cc (ckd ||| 1)) := rfl

/-- what one `updateArrayTable` does to a table that only saw arrays: the invariant stays, the node
is covered, and whatever was covered stays covered -/
theorem upd_arr : ∀ (g : Nat) (n : PNode) (t : Table), AOnly n → n.height ≤ g → TableA t →
    TableA (upd g n t) ∧ Cov n (upd g n t) ∧ (∀ n', Cov n' t → Cov n' (upd g n t)) := by
  intro g
  induction g with
  | zero =>
    intro n t ha hh ht
    cases n with
    | leaf k buf sk => exact ⟨ht, by simp [Cov], fun _ h => h⟩
    | arr ms sz dp sk => simp [PNode.height] at hh
    | map ms sz dp sk => simp [AOnly] at ha
  | succ g ih =>
    intro n t ha hh ht
    cases n with
    | leaf k buf sk => exact ⟨by simpa [upd] using ht, by simp [Cov], fun _ h => by simpa [upd] using h⟩
    | map ms sz dp sk => simp [AOnly] at ha
    | arr ms sz dp sk =>
      obtain ⟨key, size, cols, kinds⟩ := t
      simp only [AOnly] at ha
      simp only [PNode.height] at hh
      simp only [TableA] at ht
      have hmem : ∀ m ∈ ms, AOnly m ∧ m.height ≤ g := fun m hm =>
        ⟨AOnlyL_mem ms ha m hm, by have := heightL_mem ms m hm; omega⟩
      -- the three facts about one cell
      have hP2 : ∀ m ∈ ms, ∀ c, TableA c → TableA (applyMember (upd g) m c) := by
        intro m hm c hc
        obtain ⟨ck, cs, cc, ckd⟩ := c
        cases m with
        | leaf k buf sk =>
          rw [applyMember_leaf]
          by_cases hlt : cs < buf.length
          · rw [if_pos hlt]; simp only [TableA] at hc ⊢; exact ⟨by omega, hc.2⟩
          · rw [if_neg hlt]; exact hc
        | arr ms2 sz2 dp2 sk2 =>
          rw [applyMember_arr]
          exact (ih _ _ (hmem _ hm).1 (hmem _ hm).2 (by simpa [TableA] using hc)).1
        | map ms2 sz2 dp2 sk2 => exact absurd (hmem _ hm).1 (by simp [AOnly])
      have hP3 : ∀ m ∈ ms, ∀ c, TableA c → Cov m (applyMember (upd g) m c) := by
        intro m hm c hc
        obtain ⟨ck, cs, cc, ckd⟩ := c
        cases m with
        | leaf k buf sk => simp [Cov]
        | arr ms2 sz2 dp2 sk2 =>
          rw [applyMember_arr]
          exact (ih _ _ (hmem _ hm).1 (hmem _ hm).2 (by simpa [TableA] using hc)).2.1
        | map ms2 sz2 dp2 sk2 => simp [Cov]
      have hP4 : ∀ m ∈ ms, ∀ n' c, TableA c → Cov n' c → Cov n' (applyMember (upd g) m c) := by
        intro m hm n' c hta hc
        obtain ⟨ck, cs, cc, ckd⟩ := c
        cases m with
        | leaf k buf sk =>
          rw [applyMember_leaf]
          by_cases hlt : cs < buf.length
          · rw [if_pos hlt, Cov_congr n' (.mk ck buf.length cc ckd) (.mk ck cs cc ckd) rfl]; exact hc
          · rw [if_neg hlt]; exact hc
        | arr ms2 sz2 dp2 sk2 =>
          rw [applyMember_arr]
          apply (ih _ _ (hmem _ hm).1 (hmem _ hm).2 ?_).2.2 n'
          · rw [Cov_congr n' (.mk ck cs cc (ckd ||| 1)) (.mk ck cs cc ckd) rfl]; exact hc
          · simpa [TableA] using hta
        | map ms2 sz2 dp2 sk2 => exact absurd (hmem _ hm).1 (by simp [AOnly])
      -- the columns after the update
      have hu : ∀ m t, (upd g m t).key = t.key := upd_key g
      have heq := updArrCols_eq (upd g) hu ms 0 [] cols rfl (by simpa using ht.2) hP2
      simp only [List.nil_append] at heq
      have hsort := sortBy_contig (zipApply (upd g) 0 ms cols) [] 0 heq.2 (by simp)
      simp only [List.nil_append] at hsort
      have hupd : upd (g + 1) (.arr ms sz dp sk) (.mk key size cols kinds) =
          .mk key (sumSizes (zipApply (upd g) 0 ms cols) + (zipApply (upd g) 0 ms cols).length * 2)
            (zipApply (upd g) 0 ms cols) kinds := by
        have h0 : upd (g + 1) (.arr ms sz dp sk) (.mk key size cols kinds) =
            .mk key (sumSizes (sortBy (fun a b => decide (a.key.int < b.key.int)) (updArrCols (upd g) ms 0 cols) []) +
              (sortBy (fun a b => decide (a.key.int < b.key.int)) (updArrCols (upd g) ms 0 cols) []).length * 2)
              (sortBy (fun a b => decide (a.key.int < b.key.int)) (updArrCols (upd g) ms 0 cols) []) kinds := rfl
        rw [h0, heq.1, hsort]
      rw [hupd]
      refine ⟨?_, ?_, ?_⟩
      · simp only [TableA]; exact ⟨by omega, heq.2⟩
      · simp only [Cov, Table.cols]
        exact zipApply_cov_self (upd g) ms 0 cols (TableAL_all cols 0 ht.2) hP3
      · intro n' hn'
        cases n' with
        | leaf k buf sk => simp [Cov]
        | map ms2 sz2 dp2 sk2 => simp [Cov]
        | arr ms' sz' dp' sk' =>
          simp only [Cov, Table.cols] at hn' ⊢
          exact zipApply_cov_mono (upd g) ms' ms 0 cols hn' (TableAL_all cols 0 ht.2) hP4


theorem foldUpd_arr (g : Nat) : ∀ (rows : List PNode) (t : Table), (∀ r ∈ rows, AOnly r ∧ r.height ≤ g) → TableA t →
    TableA (foldUpd g rows t) ∧ (∀ r ∈ rows, Cov r (foldUpd g rows t)) ∧ (∀ n', Cov n' t → Cov n' (foldUpd g rows t)) := by
  intro rows
  induction rows with
  | nil => intro t _ ht; exact ⟨ht, fun r hr => by simp at hr, fun _ h => h⟩
  | cons r rs ih =>
    intro t hr ht
    obtain ⟨h1, h2, h3⟩ := upd_arr g r t (hr r (by simp)).1 (hr r (by simp)).2 ht
    obtain ⟨k1, k2, k3⟩ := ih (upd g r t) (fun x hx => hr x (by simp [hx])) h1
    simp only [foldUpd]
    refine ⟨k1, ?_, fun n' hn' => k3 n' (h3 n' hn')⟩
    intro x hx
    simp only [List.mem_cons] at hx
    rcases hx with rfl | hx
    · exact k3 _ h2
    · exact k2 x hx

theorem spaces_size : Gen.Pretty.spaces.size = 129 := by decide +kernel

theorem sumSizes_mem_le : ∀ (cols : List Table) (c : Table), c ∈ cols → c.size ≤ sumSizes cols := by
  intro cols
  induction cols with
  | nil => intro c hc; simp at hc
  | cons x r ih =>
    intro c hc
    simp only [List.mem_cons] at hc
    simp only [sumSizes]
    rcases hc with rfl | hc
    · omega
    · have := ih c hc; omega

/-- in a table of arrays no padding is out of range once the table fits 128 columns -/
theorem nodeOK_of_TableA : ∀ (f : Nat) (n : PNode) (t : Table), AOnly n → TableA t → t.size ≤ 128 → nodeOK f n t := by
  intro f
  induction f with
  | zero => intro n t _ _ _; simp [nodeOK]
  | succ f ih =>
    intro n t ha ht hs
    cases n with
    | leaf k buf sk => simp [nodeOK]
    | map ms sz dp sk => simp [AOnly] at ha
    | arr ms sz dp sk =>
      obtain ⟨key, size, cols, kinds⟩ := t
      simp only [AOnly] at ha
      simp only [TableA] at ht
      simp only [Table.size] at hs
      simp only [nodeOK, Table.cols]
      have hgen : ∀ (cols : List Table) (ms : List PNode) (base : Nat), TableAL cols base → sumSizes cols ≤ 128 →
          AOnlyL ms → arrColsOK (nodeOK f) (nodeOK f) cols ms := by
        intro cols
        induction cols with
        | nil => intro ms base _ _ _; simp [arrColsOK]
        | cons col cr ihc =>
          intro ms base hta hsum ham
          cases ms with
          | nil => simp [arrColsOK]
          | cons m mr =>
            simp only [TableAL] at hta
            simp only [AOnlyL] at ham
            simp only [sumSizes] at hsum
            simp only [arrColsOK]
            refine ⟨?_, ihc mr (base + 1) hta.2.2 (by omega) ham.2⟩
            cases m with
            | leaf k buf sk => simp only [cellOK, spaces_size]; intro _; omega
            | arr ms2 sz2 dp2 sk2 => simp only [cellOK]; exact ih _ _ ham.1 hta.2.1 (by omega)
            | map ms2 sz2 dp2 sk2 => simp [AOnly] at ham
      exact hgen cols ms 0 ht.2 (by omega) ha


/-! ### trees in tables of arrays -/

theorem arrOnlyL_mem : ∀ (xs : List JV), arrOnlyL xs → ∀ x ∈ xs, arrOnly x := by
  intro xs
  induction xs with
  | nil => intro _ x hx; simp at hx
  | cons y r ih =>
    intro h x hx
    simp only [arrOnlyL] at h
    simp only [List.mem_cons] at hx
    rcases hx with rfl | hx
    · exact h.1
    · exact ih h.2 x hx

theorem AOnlyL_of_mem : ∀ (ms : List PNode), (∀ m ∈ ms, AOnly m) → AOnlyL ms := by
  intro ms
  induction ms with
  | nil => intro _; simp [AOnlyL]
  | cons m r ih => intro h; exact ⟨h m (by simp), ih (fun x hx => h x (by simp [hx]))⟩

theorem heightL_le (B : Nat) : ∀ (ms : List PNode), (∀ m ∈ ms, m.height ≤ B) → PNode.heightL ms ≤ B := by
  intro ms
  induction ms with
  | nil => intro _; simp [PNode.heightL]
  | cons m r ih =>
    intro h
    have h1 := h m (by simp)
    have h2 := ih (fun x hx => h x (by simp [hx]))
    simp only [PNode.heightL]; omega

theorem heightM_le (B : Nat) : ∀ (ms : List (Bytes × PNode)), (∀ m ∈ ms, m.2.height ≤ B) → PNode.heightM ms ≤ B := by
  intro ms
  induction ms with
  | nil => intro _; simp [PNode.heightM]
  | cons m r ih =>
    intro h
    obtain ⟨k, n⟩ := m
    have h1 := h (k, n) (by simp)
    have h2 := ih (fun x hx => h x (by simp [hx]))
    simp only [PNode.heightM] at h1 ⊢; omega

theorem AOnly_build (o : POpts) (ord : Kvs → Kvs) : ∀ (f : Nat) (x : JV), arrOnly x → AOnly (build o ord f x) := by
  intro f
  induction f with
  | zero => intro x _; simp [build, AOnly]
  | succ f ih =>
    intro x hx
    cases x with
    | bool b => cases b <;> simp [build, AOnly]
    | arr xs =>
      simp only [arrOnly] at hx
      simp only [build, AOnly]
      apply AOnlyL_of_mem
      intro m hm
      simp only [List.mem_map] at hm
      obtain ⟨y, hy, rfl⟩ := hm
      exact ih y (arrOnlyL_mem xs hx y hy)
    | obj kvs => simp [arrOnly] at hx
    | _ => simp [build, AOnly]

theorem height_build (o : POpts) (ord : Kvs → Kvs) : ∀ (f : Nat) (x : JV), (build o ord f x).height ≤ f := by
  intro f
  induction f with
  | zero => intro x; simp [build, PNode.height]
  | succ f ih =>
    intro x
    cases x with
    | bool b => cases b <;> simp [build, PNode.height]
    | arr xs =>
      simp only [build, PNode.height]
      have := heightL_le f (xs.map (build o ord f)) (by
        intro m hm
        simp only [List.mem_map] at hm
        obtain ⟨y, _, rfl⟩ := hm
        exact ih y)
      omega
    | obj kvs =>
      simp only [build, PNode.height]
      have := heightM_le f (buildMembers o (build o ord f) (sortKvs (ord kvs)) [] 2 0).1 (by
        rw [buildMembers_fst]
        intro m hm
        simp only [List.reverse_nil, List.nil_append, List.mem_map] at hm
        obtain ⟨y, _, rfl⟩ := hm
        exact ih y.2)
      omega
    | _ => simp [build, PNode.height]


/-! ### reading the aligned rows back -/

theorem pElems_skip (pv : Bytes → Option (JV × Bytes)) (k : Nat) (w X : Bytes) (acc : List JV)
    (hw : (w.all Spec.isWs) = true) : Spec.pElems pv k (w ++ X) acc = Spec.pElems pv k X acc := by
  cases k with
  | zero => rfl
  | succ k => simp only [Spec.pElems, skipWs_ws_append w X hw]

/-- a cell: white space, one value, white space -/
def CellParse (pv : Bytes → Option (JV × Bytes)) (txt : Bytes) (nv : JV) : Prop :=
  ∃ pre tok post, txt = pre ++ tok ++ post ∧ (pre.all Spec.isWs) = true ∧ (post.all Spec.isWs) = true ∧
    (∃ b t, tok = b :: t ∧ startByte b = true) ∧ ∀ rest', follows rest' = true → pv (tok ++ rest') = some (nv, rest')

theorem arrColsT_tail_head (T : PNode → Table → Bytes) (cols : List Table) (ms : List PNode) (k : Nat) (rest : Bytes)
    (hk : 0 < k) : ∃ c t, arrColsT T T cols ms k ++ 93 :: rest = c :: t ∧ follows [c] = true := by
  cases cols with
  | nil => exact ⟨93, rest, by simp [arrColsT], by decide⟩
  | cons col cr =>
    cases ms with
    | nil => exact ⟨93, rest, by simp [arrColsT], by decide⟩
    | cons m mr => exact ⟨44, _, by simp only [arrColsT, hk, ↓reduceIte, List.cons_append, List.append_assoc]; rfl, by decide⟩

theorem arrColsT_length (T : PNode → Table → Bytes) : ∀ (ms : List PNode) (cols : List Table) (k : Nat),
    CovL ms cols → 0 < k → ms.length ≤ (arrColsT T T cols ms k).length := by
  intro ms
  induction ms with
  | nil => intro cols k _ _; simp
  | cons m mr ih =>
    intro cols k hc hk
    cases cols with
    | nil => simp [CovL] at hc
    | cons col cr =>
      simp only [CovL] at hc
      have := ih cr (k + 1) hc.2 (by omega)
      simp only [arrColsT, hk, ↓reduceIte, List.length_append, List.length_cons, List.length_nil]
      omega

theorem arrCols_parse (pv : Bytes → Option (JV × Bytes)) (T : PNode → Table → Bytes) (bv : JV → PNode) (nvv : JV → JV)
    (rest : Bytes) (G : Nat) :
    ∀ (cells : List JV) (cols : List Table) (k : Nat) (acc : List JV) (fuel : Nat), cells.length < fuel → 0 < k →
      CovL (cells.map bv) cols → (arrColsT T T cols (cells.map bv) k).length < G →
      (∀ y ∈ cells, ∀ col, Cov (bv y) col → (cellT T T (bv y) col).length < G →
        CellParse pv (cellT T T (bv y) col) (nvv y)) →
      Spec.pElems pv fuel (arrColsT T T cols (cells.map bv) k ++ 93 :: rest) acc =
        some (.arr (acc.reverse ++ cells.map nvv), rest) := by
  intro cells
  induction cells with
  | nil =>
    intro cols k acc fuel hf hk _ _ _
    obtain ⟨fuel', rfl⟩ : ∃ f', fuel = f' + 1 := ⟨fuel - 1, by omega⟩
    have : arrColsT T T cols ([] : List PNode) k = [] := by cases cols <;> simp [arrColsT]
    simp only [List.map_nil, this, List.nil_append, Spec.pElems]
    rw [skipWs_nonws 93 rest (by decide)]
    simp
  | cons y r ih =>
    intro cols k acc fuel hf hk hcov hlen hcell
    obtain ⟨fuel', rfl⟩ : ∃ f', fuel = f' + 1 := ⟨fuel - 1, by omega⟩
    cases cols with
    | nil => simp [CovL] at hcov
    | cons col cr =>
      simp only [List.map_cons, CovL] at hcov
      simp only [List.map_cons, arrColsT, hk, ↓reduceIte] at hlen ⊢
      have hl1 : (cellT T T (bv y) col).length < G := by
        simp only [List.length_append, List.length_cons] at hlen; omega
      obtain ⟨pre, tok, post, htxt, hpre, hpost, ⟨b, t, hb, hsb⟩, hpv⟩ := hcell y (by simp) col hcov.1 hl1
      obtain ⟨c, tl, htl, hfc⟩ := arrColsT_tail_head T cr (r.map bv) (k + 1) rest (by omega)
      have hws := (startByte_facts b hsb).1
      have hfol : follows (post ++ (arrColsT T T cr (r.map bv) (k + 1) ++ 93 :: rest)) = true := by
        rw [htl]; exact follows_ws_append post c tl hpost hfc
      have h1 := hpv _ hfol
      rw [htxt]
      simp only [List.cons_append, List.append_assoc, List.nil_append, Spec.pElems]
      rw [skipWs_nonws 44 _ (by decide)]
      simp only [show ¬ ((44 : UInt8) = 93) by decide, ↓reduceIte]
      have hsk : Spec.skipWs (32 :: (pre ++ (tok ++ (post ++ (arrColsT T T cr (r.map bv) (k + 1) ++ 93 :: rest))))) =
          tok ++ (post ++ (arrColsT T T cr (r.map bv) (k + 1) ++ 93 :: rest)) := by
        have : Spec.skipWs (32 :: (pre ++ (tok ++ (post ++ (arrColsT T T cr (r.map bv) (k + 1) ++ 93 :: rest))))) =
            Spec.skipWs (pre ++ (tok ++ (post ++ (arrColsT T T cr (r.map bv) (k + 1) ++ 93 :: rest)))) := by
          simp [Spec.skipWs, show Spec.isWs 32 = true by decide]
        rw [this, skipWs_ws_append pre _ hpre, hb, List.cons_append, skipWs_nonws b _ hws]
      rw [hsk, h1]
      simp only
      rw [pElems_skip pv fuel' post _ _ hpost]
      have hlen' : (arrColsT T T cr (r.map bv) (k + 1)).length < G := by
        simp only [List.length_append, List.length_cons] at hlen; omega
      rw [ih cr (k + 1) (nvv y :: acc) fuel' (by simp at hf; omega) (by omega) hcov.2 hlen'
        (fun z hz => hcell z (by simp [hz]))]
      simp


/-- the text of a value that is neither array nor object -/
def scalarT (o : POpts) : JV → Bytes
  | .null => Gen.Pretty.nullStr.toList
  | .bool b => if b then Gen.Pretty.trueStr.toList else Gen.Pretty.falseStr.toList
  | .int i => fmtInt i
  | .flt t => t
  | .str x => jsonString x (!o.htmlUnsafe)
  | _ => []

theorem nullStr_eq : Gen.Pretty.nullStr.toList = [110, 117, 108, 108] := by decide
theorem trueStr_eq : Gen.Pretty.trueStr.toList = [116, 114, 117, 101] := by decide
theorem falseStr_eq : Gen.Pretty.falseStr.toList = [102, 97, 108, 115, 101] := by decide

theorem scalar_head (o : POpts) (y : JV) (hok : okW y) (h1 : isArr y = false) (h2 : isObj y = false) :
    ∃ b t, scalarT o y = b :: t ∧ startByte b = true := by
  cases y with
  | null => exact ⟨110, _, by simp only [scalarT, nullStr_eq]; rfl, by decide⟩
  | bool b =>
    cases b
    · exact ⟨102, _, by simp only [scalarT, falseStr_eq]; rfl, by decide⟩
    · exact ⟨116, _, by simp only [scalarT, trueStr_eq]; rfl, by decide⟩
  | int i =>
    obtain ⟨b, t, he, hb⟩ := numLit_head _ (isNumLit_fmtInt i)
    exact ⟨b, t, by simp [scalarT, he], (numStart_facts b hb).2.2.2.2⟩
  | flt x =>
    simp only [okW] at hok
    obtain ⟨b, t, he, hb⟩ := numLit_head _ hok
    exact ⟨b, t, by simp [scalarT, he], (numStart_facts b hb).2.2.2.2⟩
  | big x => simp [okW] at hok
  | num x => simp [okW] at hok
  | str x => exact ⟨34, _, by simp only [scalarT, jsonString]; rfl, by decide⟩
  | arr xs => simp [isArr] at h1
  | obj kvs => simp [isObj] at h2

theorem parse_scalar (hs : TableSafe Gen.Root.jMap) (o : POpts) (drop : JV → Bool) (srt : Bool) (ord : Kvs → Kvs)
    (f g : Nat) (y : JV) (rest : Bytes) (hok : okW y) (h1 : isArr y = false) (h2 : isObj y = false)
    (hr : follows rest = true) :
    Spec.pValue (g + 1) (scalarT o y ++ rest) = some (normG drop srt ord (f + 1) y, rest) := by
  cases y with
  | null => simpa [scalarT, normG, nullStr_eq] using pValue_null g rest
  | bool b =>
    cases b
    · simpa [scalarT, normG, falseStr_eq] using pValue_false g rest
    · simpa [scalarT, normG, trueStr_eq] using pValue_true g rest
  | int i => simpa [scalarT, normG] using pValue_num g (fmtInt i) rest (isNumLit_fmtInt i) hr
  | flt t =>
    simp only [okW] at hok
    simpa [scalarT, normG] using pValue_num g t rest hok hr
  | big t => simp [okW] at hok
  | num t => simp [okW] at hok
  | str x => simpa [scalarT, normG] using pValue_str hs g x rest (!o.htmlUnsafe)
  | arr xs => simp [isArr] at h1
  | obj kvs => simp [isObj] at h2

/-- a value that is neither array nor object and that the property speaks about is built as a leaf
holding its text -/
theorem build_scalar (o : POpts) (ord : Kvs → Kvs) (f : Nat) (y : JV) (hok : okW y)
    (h1 : isArr y = false) (h2 : isObj y = false) :
    ∃ kind sk, build o ord (f + 1) y = .leaf kind (scalarT o y) sk ∧
      (kind = Gen.Pretty.strNode ∨ kind = Gen.Pretty.numNode) := by
  cases y with
  | null => exact ⟨_, _, rfl, Or.inl rfl⟩
  | bool b =>
    cases b
    · exact ⟨Gen.Pretty.strNode, false, by simp [build, scalarT], Or.inl rfl⟩
    · exact ⟨Gen.Pretty.strNode, false, by simp [build, scalarT], Or.inl rfl⟩
  | int i => exact ⟨_, _, rfl, Or.inr rfl⟩
  | flt t => exact ⟨_, _, rfl, Or.inr rfl⟩
  | big t => simp [okW] at hok
  | num t => simp [okW] at hok
  | str x => exact ⟨_, _, rfl, Or.inl rfl⟩
  | arr xs => simp [isArr] at h1
  | obj kvs => simp [isObj] at h2

theorem padT_ws (hsp : SepWs) (lt : Bool) (hi : Nat) : ((padT lt hi).all Spec.isWs) = true := by
  unfold padT
  split
  · exact all_take_drop _ _ hsp.spaces _ _
  · rfl

/-- the aligned text of an array row reads back as the row -/
theorem parse_nodeT (hs : TableSafe Gen.Root.jMap) (hsp : SepWs) (w : PW) (ord : Kvs → Kvs) (hord : IsOrder ord) :
    ∀ (f : Nat) (x : JV) (t : Table) (fu g : Nat) (rest : Bytes), okW x → arrOnly x → isArr x = true →
      depth x < f → Cov (build w.o ord f x) t → f ≤ fu → (nodeT fu (build w.o ord f x) t).length < g →
      follows rest = true →
      Spec.pValue g (nodeT fu (build w.o ord f x) t ++ rest) =
        some (normG (omits (ojOptsOf w.o)) true ord f x, rest) := by
  intro f
  induction f with
  | zero => intro x t fu g rest _ _ _ h; omega
  | succ f ih =>
    intro x t fu g rest hok hao hia hf hcov hfu hg hrest
    obtain ⟨fu, rfl⟩ : ∃ fu', fu = fu' + 1 := ⟨fu - 1, by omega⟩
    obtain ⟨g, rfl⟩ : ∃ g', g = g' + 1 := ⟨g - 1, by omega⟩
    cases x with
    | arr xs =>
      simp only [okW] at hok
      simp only [arrOnly] at hao
      simp only [depth] at hf
      have hbuild : build w.o ord (f + 1) (.arr xs) = .arr (xs.map (build w.o ord f))
          (arrSize (xs.map (build w.o ord f)) 0 2) (arrDepth (xs.map (build w.o ord f)) 0)
          (w.o.omitEmpty && xs.length = 0) := by simp [build]
      rw [hbuild] at hcov hg ⊢
      simp only [Cov] at hcov
      simp only [nodeT] at hg ⊢
      simp only [normG]
      -- every cell
      have hcell : ∀ y ∈ xs, ∀ col, Cov (build w.o ord f y) col →
          (cellT (nodeT fu) (nodeT fu) (build w.o ord f y) col).length < g →
          CellParse (Spec.pValue g) (cellT (nodeT fu) (nodeT fu) (build w.o ord f y) col)
            (normG (omits (ojOptsOf w.o)) true ord f y) := by
        intro y hy col hcv hlen
        have hoky := okW_mem_list _ hok y hy
        have hdy : depth y < f := by have := depth_mem_list xs y hy; omega
        obtain ⟨f', rfl⟩ : ∃ f', f = f' + 1 := ⟨f - 1, by omega⟩
        have haoy := arrOnlyL_mem xs hao y hy
        by_cases hya : isArr y = true
        · -- a nested array
          obtain ⟨fu', rfl⟩ : ∃ fu', fu = fu' + 1 := ⟨fu - 1, by omega⟩
          have hb : ∃ ms sz dp sk, build w.o ord (f' + 1) y = .arr ms sz dp sk := by
            cases y with
            | arr ys => exact ⟨_, _, _, _, rfl⟩
            | _ => simp [isArr] at hya
          obtain ⟨ms, sz, dp, sk, hb⟩ := hb
          have hct : cellT (nodeT (fu' + 1)) (nodeT (fu' + 1)) (build w.o ord (f' + 1) y) col =
              nodeT (fu' + 1) (build w.o ord (f' + 1) y) col := by rw [hb]; rfl
          rw [hct] at hlen ⊢
          have hhd : ∃ tl, nodeT (fu' + 1) (build w.o ord (f' + 1) y) col = 91 :: tl := by rw [hb]; exact ⟨_, rfl⟩
          obtain ⟨tl, hhd⟩ := hhd
          refine ⟨[], nodeT (fu' + 1) (build w.o ord (f' + 1) y) col, [], by simp, rfl, rfl, ⟨91, tl, hhd, by decide⟩, ?_⟩
          intro rest' hr'
          exact ih y col (fu' + 1) g rest' hoky haoy hya hdy hcv (by omega) hlen hr'
        · -- a scalar
          have hyo : isObj y = false := by
            cases y with
            | obj kvs => simp [arrOnly] at haoy
            | _ => rfl
          obtain ⟨kind, sk, hb, hkind⟩ := build_scalar w.o ord f' y hoky (by simpa using hya) hyo
          obtain ⟨b, tt, hhead, hsb⟩ := scalar_head w.o y hoky (by simpa using hya) hyo
          rw [hb] at hlen ⊢
          obtain ⟨g', rfl⟩ : ∃ g', g = g' + 1 := ⟨g - 1, by omega⟩
          have hpv : ∀ rest', follows rest' = true →
              Spec.pValue (g' + 1) (scalarT w.o y ++ rest') =
                some (normG (omits (ojOptsOf w.o)) true ord (f' + 1) y, rest') :=
            fun rest' hr' => parse_scalar hs w.o _ _ ord f' g' y rest' hoky (by simpa using hya) hyo hr'
          rcases hkind with rfl | rfl
          · simp only [cellT, ↓reduceIte] at hlen ⊢
            exact ⟨[], scalarT w.o y, padT (decide ((scalarT w.o y).length < col.size))
              (col.size - (scalarT w.o y).length + 1), by simp, rfl, padT_ws hsp _ _, ⟨b, tt, hhead, hsb⟩, hpv⟩
          · have hne : ¬ (Gen.Pretty.numNode = Gen.Pretty.strNode) := by decide
            simp only [cellT, hne, ↓reduceIte] at hlen ⊢
            exact ⟨padT (decide ((scalarT w.o y).length < col.size))
              (col.size - (scalarT w.o y).length + 1), scalarT w.o y, [], by simp,
              padT_ws hsp _ _, rfl, ⟨b, tt, hhead, hsb⟩, hpv⟩
      cases xs with
      | nil =>
        have : arrColsT (nodeT fu) (nodeT fu) t.cols ([] : List PNode) 0 = [] := by cases t.cols <;> simp [arrColsT]
        simp only [List.map_nil, this, List.nil_append]
        exact pValue_empty_arr g rest
      | cons y r =>
        cases hc : t.cols with
        | nil => rw [hc] at hcov; simp [CovL] at hcov
        | cons col cr =>
          rw [hc] at hcov hg
          simp only [List.map_cons, CovL] at hcov
          simp only [List.map_cons, arrColsT, Nat.lt_irrefl, ↓reduceIte, List.nil_append, Nat.zero_add] at hg ⊢
          have hl1 : (cellT (nodeT fu) (nodeT fu) (build w.o ord f y) col).length < g := by
            simp only [List.length_cons, List.length_append] at hg; omega
          obtain ⟨pre, tok, post, htxt, hpre, hpost, ⟨b, tt, hb, hsb⟩, hpv⟩ := hcell y (by simp) col hcov.1 hl1
          obtain ⟨hws, hn93, -, -⟩ := startByte_facts b hsb
          obtain ⟨c, tl, htl, hfc⟩ := arrColsT_tail_head (nodeT fu) cr (r.map (build w.o ord f)) 1 rest (by omega)
          have hfol : follows (post ++ (arrColsT (nodeT fu) (nodeT fu) cr (r.map (build w.o ord f)) 1 ++ 93 :: rest)) = true := by
            rw [htl]; exact follows_ws_append post c tl hpost hfc
          have h1 := hpv _ hfol
          have hsk : Spec.skipWs (pre ++ (tok ++ (post ++ (arrColsT (nodeT fu) (nodeT fu) cr (r.map (build w.o ord f)) 1 ++ 93 :: rest)))) =
              b :: (tt ++ (post ++ (arrColsT (nodeT fu) (nodeT fu) cr (r.map (build w.o ord f)) 1 ++ 93 :: rest))) := by
            rw [skipWs_ws_append pre _ hpre, hb, List.cons_append, skipWs_nonws b _ hws]
          have h1' : Spec.pValue g (b :: (tt ++ (post ++ (arrColsT (nodeT fu) (nodeT fu) cr (r.map (build w.o ord f)) 1 ++ 93 :: rest)))) =
              some (normG (omits (ojOptsOf w.o)) true ord f y,
                post ++ (arrColsT (nodeT fu) (nodeT fu) cr (r.map (build w.o ord f)) 1 ++ 93 :: rest)) := by
            rw [← List.cons_append, ← hb]; exact h1
          have hopen := pValue_open_arr g _ _ _ b _ hsk hn93 h1'
          have hlen' : (arrColsT (nodeT fu) (nodeT fu) cr (r.map (build w.o ord f)) 1).length < g := by
            simp only [List.length_cons, List.length_append] at hg; omega
          have htail := arrCols_parse (Spec.pValue g) (nodeT fu) (build w.o ord f)
            (normG (omits (ojOptsOf w.o)) true ord f) rest g r cr 1 [normG (omits (ojOptsOf w.o)) true ord f y]
            ((post ++ (arrColsT (nodeT fu) (nodeT fu) cr (r.map (build w.o ord f)) 1 ++ 93 :: rest)).length + 1)
            (by
              have : r.length ≤ (arrColsT (nodeT fu) (nodeT fu) cr (r.map (build w.o ord f)) 1 ++ 93 :: rest).length := by
                have := arrColsT_length (nodeT fu) (r.map (build w.o ord f)) cr 1 hcov.2 (by omega)
                simp only [List.length_map] at this
                simp only [List.length_append]; omega
              simp only [List.length_append] at this ⊢; omega)
            (by omega) hcov.2 hlen' (fun z hz => hcell z (by simp [hz]))
          rw [htxt]
          simp only [List.append_assoc, List.cons_append, List.nil_append]
          rw [hopen, pElems_skip _ _ post _ _ hpost, htail]
          simp
    | _ => simp [isArr] at hia


end OjgVerif.Writer.Pretty
