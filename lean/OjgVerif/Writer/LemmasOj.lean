import OjgVerif.Writer.OjModel
/-! Lemmas about the buffer discipline of the `oj` writer model: every append, overwrite and flush
amounts to appending a text that is a function of the tree alone (`text`). -/
set_option linter.unusedSimpArgs false
namespace OjgVerif.Writer
open OjgVerif OjgVerif.Json

/-! ### the buffer as a byte string -/

/-- everything written so far: the chunks handed over, then the buffer -/
def St.flat (s : St) : Bytes := s.sent.reverse.flatten ++ s.rbuf.reverse

@[simp] theorem flat_push (s : St) (bs : Bytes) : (s.push bs).flat = s.flat ++ bs := by
  simp [St.flat, St.push]

@[simp] theorem flat_push1 (s : St) (b : UInt8) : (s.push1 b).flat = s.flat ++ [b] := by
  simp [St.flat, St.push1]

@[simp] theorem flat_flush (lim : Option Nat) (s : St) : (s.flush lim).flat = s.flat := by
  unfold St.flush
  cases lim with
  | none => rfl
  | some l =>
    simp only
    split
    · simp [St.flat]
    · rfl

/-- the overwrite always hits the comma pushed just before -/
@[simp] theorem setLast_push1 (s : St) (b c : UInt8) : (s.push1 b).setLast c = s.push1 c := by
  simp [St.setLast, St.push1]

/-! ### the text as a function of the tree -/

/-- white space around the tokens: before each element of a container at depth `d`, before its
closing bracket, after a key; `next` is the depth handed to the elements -/
structure Layout where
  cs : Nat → Bytes
  cl : Nat → Bytes
  colon : Bytes
  next : Nat → Nat

def tightL : Layout := { cs := fun _ => [], cl := fun _ => [], colon := [58], next := fun _ => 0 }

def indentL (o : Opts) : Layout :=
  { cs := fun d => indentCs o (d + 1), cl := fun d => 10 :: indentIs o d, colon := [58, 32], next := fun d => d + 1 }

def layoutOf (o : Opts) : Layout := if o.indented then indentL o else tightL

/-- elements after the first: `, cs element` -/
def tElems (tv : JV → Bytes) (cs : Bytes) : List JV → Bytes
  | [] => []
  | x :: r => 44 :: (cs ++ tv x ++ tElems tv cs r)

/-- members after the first -/
def tMembers (html : Bool) (tv : JV → Bytes) (cs colon : Bytes) : Kvs → Bytes
  | [] => []
  | (k, x) :: r => 44 :: (cs ++ jsonString k html ++ colon ++ tv x ++ tMembers html tv cs colon r)

/-- the members that are written -/
def kept (o : Opts) (kvs : Kvs) : Kvs := kvs.filter fun kv => !skipMember o kv.2

/-- the text the writer produces, without buffers, overwrites and flushes -/
def text (o : Opts) (ord : Kvs → Kvs) (L : Layout) : Nat → JV → Nat → Bytes
  | 0, _, _ => []
  | f+1, v, d =>
    match v with
    | .null => [110, 117, 108, 108]
    | .bool b => if b then [116, 114, 117, 101] else [102, 97, 108, 115, 101]
    | .int i => fmtInt i
    | .flt t => t
    | .big _ => []
    | .num _ => []
    | .str x => jsonString x (!o.htmlUnsafe)
    | .arr xs =>
      match xs with
      | [] => [91, 93]
      | x :: r =>
        91 :: (L.cs d ++ text o ord L f x (L.next d) ++ tElems (fun y => text o ord L f y (L.next d)) (L.cs d) r
          ++ L.cl d ++ [93])
    | .obj kvs =>
      match kept o (order o.sort ord kvs) with
      | [] => [123, 125]
      | (k, x) :: r =>
        123 :: (L.cs d ++ jsonString k (!o.htmlUnsafe) ++ L.colon ++ text o ord L f x (L.next d)
          ++ tMembers (!o.htmlUnsafe) (fun y => text o ord L f y (L.next d)) (L.cs d) L.colon r ++ L.cl d ++ [125])

/-! ### the loops -/

theorem appendElems_spec (wv : JV → Nat → St → St) (tv : JV → Bytes) (cs : Bytes) (d2 : Nat)
    (hwv : ∀ m s, (wv m d2 s).flat = s.flat ++ tv m) :
    ∀ (r : List JV) (x : JV) (s0 : St), ∃ s' : St, appendElems wv cs d2 (x :: r) s0 = s'.push1 44 ∧
      s'.flat = s0.flat ++ cs ++ tv x ++ tElems tv cs r := by
  intro r
  induction r with
  | nil =>
    intro x s0
    exact ⟨wv x d2 (s0.push cs), by simp [appendElems], by simp [hwv, tElems]⟩
  | cons y r ih =>
    intro x s0
    obtain ⟨s', h1, h2⟩ := ih y ((wv x d2 (s0.push cs)).push1 44)
    refine ⟨s', ?_, ?_⟩
    · rw [← h1]; simp [appendElems]
    · rw [h2]; simp [hwv, tElems]

theorem tightElems_eq (wv : JV → Nat → St → St) : ∀ (xs : List JV) (s : St),
    tightElems wv xs s = appendElems wv [] 0 xs s := by
  intro xs
  induction xs with
  | nil => intro s; rfl
  | cons x r ih =>
    intro s
    simp only [tightElems, appendElems, ih]
    rfl

theorem kept_cons_skip (o : Opts) (k : Bytes) (m : JV) (r : Kvs) (h : skipMember o m = true) :
    kept o ((k, m) :: r) = kept o r := by simp [kept, h]

theorem kept_cons_keep (o : Opts) (k : Bytes) (m : JV) (r : Kvs) (h : ¬ skipMember o m = true) :
    kept o ((k, m) :: r) = (k, m) :: kept o r := by simp [kept, h]

theorem appendMembers_spec (o : Opts) (wv : JV → Nat → St → St) (tv : JV → Bytes) (cs : Bytes) (d2 : Nat)
    (hwv : ∀ m s, (wv m d2 s).flat = s.flat ++ tv m) :
    ∀ (kvs : Kvs) (s : St) (e : Bool),
      (kept o kvs = [] → appendMembers o wv cs d2 kvs s e = (s, e)) ∧
      (∀ k x r, kept o kvs = (k, x) :: r → ∃ s' : St,
        appendMembers o wv cs d2 kvs s e = (s'.push1 44, false) ∧
        s'.flat = s.flat ++ cs ++ jsonString k (!o.htmlUnsafe) ++ [58, 32] ++ tv x ++
          tMembers (!o.htmlUnsafe) tv cs [58, 32] r) := by
  intro kvs
  induction kvs with
  | nil =>
    intro s e
    exact ⟨fun _ => rfl, fun k x r h => by simp [kept] at h⟩
  | cons kv rest ih =>
    intro s e
    obtain ⟨k0, m0⟩ := kv
    by_cases hsk : skipMember o m0 = true
    · rw [kept_cons_skip o k0 m0 rest hsk]
      simp only [appendMembers, hsk, ↓reduceIte]
      exact ih s e
    · rw [kept_cons_keep o k0 m0 rest hsk]
      simp only [appendMembers, hsk, Bool.false_eq_true, ↓reduceIte]
      refine ⟨fun h => by simp at h, ?_⟩
      intro k x r h
      simp only [List.cons.injEq, Prod.mk.injEq] at h
      obtain ⟨⟨rfl, rfl⟩, hr⟩ := h
      have ih' := ih ((wv m0 d2 ((((s.push cs).push (jsonString k0 (!o.htmlUnsafe))).push1 58).push1 32)).push1 44) false
      cases hk : kept o rest with
      | nil =>
        rw [hk] at hr; subst hr
        refine ⟨wv m0 d2 ((((s.push cs).push (jsonString k0 (!o.htmlUnsafe))).push1 58).push1 32), ih'.1 hk, ?_⟩
        simp [hwv, tMembers]
      | cons kv1 r1 =>
        obtain ⟨k1, x1⟩ := kv1
        rw [hk] at hr; subst hr
        obtain ⟨s', h1, h2⟩ := ih'.2 k1 x1 r1 hk
        refine ⟨s', h1, ?_⟩
        rw [h2]; simp [hwv, tMembers]

theorem tightMembers_spec (o : Opts) (wv : JV → Nat → St → St) (tv : JV → Bytes)
    (hwv : ∀ m s, (wv m 0 s).flat = s.flat ++ tv m) :
    ∀ (kvs : Kvs) (s : St) (c : Bool),
      (kept o kvs = [] → tightMembers o wv kvs s c = (s, c)) ∧
      (∀ k x r, kept o kvs = (k, x) :: r → ∃ s' : St,
        tightMembers o wv kvs s c = (s'.push1 44, true) ∧
        s'.flat = s.flat ++ jsonString k (!o.htmlUnsafe) ++ [58] ++ tv x ++
          tMembers (!o.htmlUnsafe) tv [] [58] r) := by
  intro kvs
  induction kvs with
  | nil =>
    intro s c
    exact ⟨fun _ => rfl, fun k x r h => by simp [kept] at h⟩
  | cons kv rest ih =>
    intro s c
    obtain ⟨k0, m0⟩ := kv
    by_cases hsk : skipMember o m0 = true
    · rw [kept_cons_skip o k0 m0 rest hsk]
      simp only [tightMembers, hsk, ↓reduceIte]
      exact ih s c
    · rw [kept_cons_keep o k0 m0 rest hsk]
      simp only [tightMembers, hsk, Bool.false_eq_true, ↓reduceIte]
      refine ⟨fun h => by simp at h, ?_⟩
      intro k x r h
      simp only [List.cons.injEq, Prod.mk.injEq] at h
      obtain ⟨⟨rfl, rfl⟩, hr⟩ := h
      have ih' := ih ((wv m0 0 ((s.push (jsonString k0 (!o.htmlUnsafe))).push1 58)).push1 44) true
      cases hk : kept o rest with
      | nil =>
        rw [hk] at hr; subst hr
        refine ⟨wv m0 0 ((s.push (jsonString k0 (!o.htmlUnsafe))).push1 58), ih'.1 hk, ?_⟩
        simp [hwv, tMembers]
      | cons kv1 r1 =>
        obtain ⟨k1, x1⟩ := kv1
        rw [hk] at hr; subst hr
        obtain ⟨s', h1, h2⟩ := ih'.2 k1 x1 r1 hk
        refine ⟨s', h1, ?_⟩
        rw [h2]; simp [hwv, tMembers]

/-- everything `appendJSON` does to the state — appends, the comma overwrite, flushes — amounts to
appending `text` to what was written before; with or without an `io.Writer`, for every limit -/
theorem appendJSON_flat (o : Opts) (ord : Kvs → Kvs) (lim : Option Nat) :
    ∀ (f : Nat) (v : JV) (d : Nat) (s : St),
      (appendJSON o ord lim f v d s).flat = s.flat ++ text o ord (layoutOf o) f v d := by
  intro f
  induction f with
  | zero => intro v d s; simp [appendJSON, text]
  | succ f ih =>
    intro v d s
    simp only [appendJSON, flat_flush]
    cases v with
    | null => simp [text]
    | bool b => cases b <;> simp [text]
    | int i => simp [text]
    | flt t => simp [text]
    | big t => simp [text]
    | num t => simp [text]
    | str x => simp [text]
    | arr xs =>
      by_cases hind : o.indented = true
      · have hL : layoutOf o = indentL o := by simp [layoutOf, hind]
        simp only [hind, ↓reduceIte, hL]
        cases xs with
        | nil => simp [appendArray, text]
        | cons x r =>
          have hwv : ∀ m s, (appendJSON o ord lim f m (d + 1) s).flat =
              s.flat ++ text o ord (indentL o) f m (d + 1) := by
            intro m s; rw [ih m (d + 1) s, hL]
          obtain ⟨s', h1, h2⟩ := appendElems_spec (appendJSON o ord lim f)
            (fun m => text o ord (indentL o) f m (d + 1)) (indentCs o (d + 1)) (d + 1) hwv r x (s.push1 91)
          simp only [appendArray, List.length_cons, Nat.zero_lt_succ, ↓reduceIte, h1, setLast_push1,
            flat_push1, flat_push, h2, text, indentL]
          simp
      · have hL : layoutOf o = tightL := by simp [layoutOf, hind]
        simp only [hind, Bool.false_eq_true, ↓reduceIte, hL]
        cases xs with
        | nil => simp [tightArray, text]
        | cons x r =>
          have hwv : ∀ m s, (appendJSON o ord lim f m 0 s).flat = s.flat ++ text o ord tightL f m 0 := by
            intro m s; rw [ih m 0 s, hL]
          obtain ⟨s', h1, h2⟩ := appendElems_spec (appendJSON o ord lim f)
            (fun m => text o ord tightL f m 0) [] 0 hwv r x (s.push1 91)
          simp only [tightArray, List.length_cons, Nat.zero_lt_succ, ↓reduceIte, tightElems_eq, h1, setLast_push1,
            flat_push1, h2, text, tightL]
          simp
    | obj kvs =>
      by_cases hind : o.indented = true
      · have hL : layoutOf o = indentL o := by simp [layoutOf, hind]
        simp only [hind, ↓reduceIte, hL]
        have hwv : ∀ m s, (appendJSON o ord lim f m (d + 1) s).flat =
            s.flat ++ text o ord (indentL o) f m (d + 1) := by
          intro m s; rw [ih m (d + 1) s, hL]
        have sp := appendMembers_spec o (appendJSON o ord lim f) (fun m => text o ord (indentL o) f m (d + 1))
          (indentCs o (d + 1)) (d + 1) hwv (order o.sort ord kvs) (s.push1 123) true
        cases hk : kept o (order o.sort ord kvs) with
        | nil =>
          simp only [appendObject, sp.1 hk, text, hk]
          simp
        | cons kv r =>
          obtain ⟨k, x⟩ := kv
          obtain ⟨s', h1, h2⟩ := sp.2 k x r hk
          simp only [appendObject, h1, text, hk, setLast_push1, Bool.not_false, ↓reduceIte, flat_push1, flat_push]
          rw [h2]
          simp [indentL]
      · have hL : layoutOf o = tightL := by simp [layoutOf, hind]
        simp only [hind, Bool.false_eq_true, ↓reduceIte, hL]
        have hwv : ∀ m s, (appendJSON o ord lim f m 0 s).flat = s.flat ++ text o ord tightL f m 0 := by
          intro m s; rw [ih m 0 s, hL]
        have sp := tightMembers_spec o (appendJSON o ord lim f) (fun m => text o ord tightL f m 0)
          hwv (order o.sort ord kvs) (s.push1 123) false
        cases hk : kept o (order o.sort ord kvs) with
        | nil =>
          simp only [tightObject, sp.1 hk, text, hk]
          simp
        | cons kv r =>
          obtain ⟨k, x⟩ := kv
          obtain ⟨s', h1, h2⟩ := sp.2 k x r hk
          simp only [tightObject, h1, text, hk, setLast_push1, ↓reduceIte, flat_push1]
          rw [h2]
          simp [tightL]


/-! ### without an `io.Writer` nothing is handed over -/

theorem appendElems_sent (wv : JV → Nat → St → St) (cs : Bytes) (d2 : Nat)
    (hwv : ∀ m d s, (wv m d s).sent = s.sent) :
    ∀ (xs : List JV) (s : St), (appendElems wv cs d2 xs s).sent = s.sent := by
  intro xs
  induction xs with
  | nil => intro s; rfl
  | cons x r ih => intro s; simp [appendElems, ih, hwv, St.push1, St.push]

theorem appendMembers_sent (o : Opts) (wv : JV → Nat → St → St) (cs : Bytes) (d2 : Nat)
    (hwv : ∀ m d s, (wv m d s).sent = s.sent) :
    ∀ (kvs : Kvs) (s : St) (e : Bool), (appendMembers o wv cs d2 kvs s e).1.sent = s.sent := by
  intro kvs
  induction kvs with
  | nil => intro s e; rfl
  | cons kv r ih =>
    intro s e
    obtain ⟨k, m⟩ := kv
    simp only [appendMembers]
    split
    · exact ih s e
    · rw [ih]; simp [hwv, St.push1, St.push]

theorem tightMembers_sent (o : Opts) (wv : JV → Nat → St → St)
    (hwv : ∀ m d s, (wv m d s).sent = s.sent) :
    ∀ (kvs : Kvs) (s : St) (c : Bool), (tightMembers o wv kvs s c).1.sent = s.sent := by
  intro kvs
  induction kvs with
  | nil => intro s c; rfl
  | cons kv r ih =>
    intro s c
    obtain ⟨k, m⟩ := kv
    simp only [tightMembers]
    split
    · exact ih s c
    · rw [ih]; simp [hwv, St.push1, St.push]

theorem appendJSON_sent (o : Opts) (ord : Kvs → Kvs) :
    ∀ (f : Nat) (v : JV) (d : Nat) (s : St), (appendJSON o ord none f v d s).sent = s.sent := by
  intro f
  induction f with
  | zero => intro v d s; rfl
  | succ f ih =>
    intro v d s
    simp only [appendJSON, St.flush]
    cases v with
    | null => simp [St.push]
    | bool b => cases b <;> simp [St.push]
    | int i => simp [St.push]
    | flt t => simp [St.push]
    | big t => rfl
    | num t => rfl
    | str x => simp [St.push]
    | arr xs =>
      simp only
      split
      · simp only [appendArray]
        split
        · simp [St.push1, St.push, St.setLast, appendElems_sent _ _ _ ih]
        · simp [St.push]
      · simp only [tightArray]
        split
        · simp [St.push1, St.setLast, tightElems_eq, appendElems_sent _ _ _ ih]
        · simp [St.push]
    | obj kvs =>
      simp only
      split
      · simp only [appendObject]
        split
        · simp [St.push1, St.push, St.setLast, appendMembers_sent o _ _ _ ih]
        · simp [St.push1, appendMembers_sent o _ _ _ ih]
      · simp only [tightObject]
        split
        · simp [St.push1, St.setLast, tightMembers_sent o _ ih]
        · simp [St.push1, tightMembers_sent o _ ih]

/-- the text of the in-memory call -/
theorem ojWrite_eq_text (o : Opts) (ord : Kvs → Kvs) (v : JV) :
    ojWrite o ord v = text o ord (layoutOf o) (depth v + 1) v 0 := by
  have h1 := appendJSON_flat o ord none (depth v + 1) v 0 {}
  have h2 := appendJSON_sent o ord (depth v + 1) v 0 {}
  simp only [St.flat, h2] at h1
  simpa [ojWrite, ojWriteSt, St.bytes] using h1

theorem chunks_flatten (st : St) :
    (if 0 < st.rbuf.length then (st.bytes :: st.sent).reverse else st.sent.reverse).flatten = st.flat := by
  by_cases hz : 0 < st.rbuf.length
  · rw [if_pos hz]; simp [St.flat, St.bytes]
  · have : st.rbuf = [] := by
      cases hr : st.rbuf with
      | nil => rfl
      | cons a t => simp [hr] at hz
    rw [if_neg hz]; simp [St.flat, this]

/-- the chunks handed to the `io.Writer`, joined, are the same text -/
theorem ojWriteTo_flatten (o : Opts) (ord : Kvs → Kvs) (limit : Nat) (v : JV) :
    (ojWriteTo o ord limit v).flatten = text o ord (layoutOf o) (depth v + 1) v 0 := by
  have h1 : (ojWriteSt o ord (some (effLimit limit)) v).flat = text o ord (layoutOf o) (depth v + 1) v 0 := by
    have := appendJSON_flat o ord (some (effLimit limit)) (depth v + 1) v 0 {}
    have h0 : ({} : St).flat = [] := rfl
    rw [h0, List.nil_append] at this
    exact this
  show (if 0 < (ojWriteSt o ord (some (effLimit limit)) v).rbuf.length then
      ((ojWriteSt o ord (some (effLimit limit)) v).bytes :: (ojWriteSt o ord (some (effLimit limit)) v).sent).reverse
    else (ojWriteSt o ord (some (effLimit limit)) v).sent.reverse).flatten = _
  rw [chunks_flatten, h1]


end OjgVerif.Writer
