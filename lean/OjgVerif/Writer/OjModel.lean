import OjgVerif.Writer.StrEsc
import OjgVerif.Writer.JsonSpec
import OjgVerif.Gen.Oj
/-! # Model of the `oj` JSON writer (oj/writer.go, oj/tight.go, oj/oj.go)

Same operations on the same data as the Go code: bytes are appended to `wr.buf`, the last byte (the
comma written after the final element) is overwritten when a container is closed, indentation is a
slice of the generated constants `spaces` / `tabs` clamped to their length, and — when an
`io.Writer` is attached — the buffer is handed over and emptied at the end of every `appendJSON`
call that leaves more than `WriteLimit` bytes in it.

`wr.buf` is kept REVERSED (`rbuf`, last byte first) so that the compiled driver appends in constant
time; `St.bytes` is the buffer as Go sees it.

Not modelled (outside C04's quantifier): colour, reflection (`appendDefault`, structs, typed maps
and slices), `time.Time`, `[]byte`, `json.Number`/`gen.Big`, `FloatFormat`, marshaler interfaces,
`strict` (a nil `[]any` as `null`). A `gen` tree reaches this code through `Simplify()`, i.e. as the
equal simple tree. Float text is an input (`JV.flt`): `strconv.AppendFloat(buf, f, 'g', -1, 64)`. -/
namespace OjgVerif.Writer
open OjgVerif

/-- writer state: chunks already handed to the `io.Writer` (most recent first) and `wr.buf`
reversed -/
structure St where
  sent : List Bytes := []
  rbuf : Bytes := []
  deriving Inhabited

/-- `wr.buf` as Go sees it -/
def St.bytes (s : St) : Bytes := s.rbuf.reverse

/-- `wr.buf = append(wr.buf, bs...)` -/
def St.push (s : St) (bs : Bytes) : St := { s with rbuf := bs.reverse ++ s.rbuf }

/-- `wr.buf = append(wr.buf, b)` -/
def St.push1 (s : St) (b : UInt8) : St := { s with rbuf := b :: s.rbuf }

/-- `wr.buf[len(wr.buf)-1] = c`. On an empty buffer Go panics (index -1); in every use the byte is
the comma pushed just before (`Lemmas`: `setLast_push1`), so the empty case is never reached. -/
def St.setLast (s : St) (c : UInt8) : St := { s with rbuf := c :: s.rbuf.tail }

/-- end of `appendJSON`: `if wr.w != nil && wr.WriteLimit < len(wr.buf) { wr.w.Write(wr.buf); wr.buf = wr.buf[:0] }` -/
def St.flush (lim : Option Nat) (s : St) : St :=
  match lim with
  | none => s
  | some l => if l < s.rbuf.length then { sent := s.rbuf.reverse :: s.sent, rbuf := [] } else s

/-- Go slice `a[lo:hi]` of a constant string (callers clamp `hi` to the length first) -/
def sliceOf (a : Array UInt8) (lo hi : Nat) : Bytes := (a.toList.take hi).drop lo

/-- `is`: indentation before the closing bracket of a container at `depth` (without the newline) -/
def indentIs (o : Opts) (depth : Nat) : Bytes :=
  if o.tab then sliceOf Gen.Oj.tabs 1 (if Gen.Oj.tabs.size < depth + 1 then Gen.Oj.tabs.size else depth + 1)
  else sliceOf Gen.Oj.spaces 1
    (if Gen.Oj.spaces.size < depth * o.indent + 1 then Gen.Oj.spaces.size else depth * o.indent + 1)

/-- `cs`: newline and indentation before every element of a container whose elements are at `d2` -/
def indentCs (o : Opts) (d2 : Nat) : Bytes :=
  if o.tab then sliceOf Gen.Oj.tabs 0 (if Gen.Oj.tabs.size < d2 + 1 then Gen.Oj.tabs.size else d2 + 1)
  else sliceOf Gen.Oj.spaces 0
    (if Gen.Oj.spaces.size < d2 * o.indent + 1 then Gen.Oj.spaces.size else d2 * o.indent + 1)

/-- the `switch tm := m.(type)` at the head of every object loop -/
def skipMember (o : Opts) (m : JV) : Bool :=
  match m with
  | .null => o.omitNil
  | .str s => o.omitEmpty && s.length = 0
  | .obj kvs => o.omitEmpty && kvs.length = 0
  | .arr xs => o.omitEmpty && xs.length = 0
  | _ => false

/-! ## tight.go -/

/-- loop of `tightArray` -/
def tightElems (wv : JV → Nat → St → St) : List JV → St → St
  | [], s => s
  | m :: r, s => tightElems wv r ((wv m 0 s).push1 44)

/-- `tightArray` -/
def tightArray (wv : JV → Nat → St → St) (xs : List JV) (s : St) : St :=
  if 0 < xs.length then (tightElems wv xs (s.push1 91)).setLast 93
  else s.push [91, 93]

/-- loop of `tightObject` / `tightSortObject` (they differ in the key order only); the flag is
`comma` -/
def tightMembers (o : Opts) (wv : JV → Nat → St → St) : Kvs → St → Bool → St × Bool
  | [], s, c => (s, c)
  | (k, m) :: r, s, c =>
    if skipMember o m then tightMembers o wv r s c
    else
      tightMembers o wv r
        ((wv m 0 ((s.push (jsonString k (!o.htmlUnsafe))).push1 58)).push1 44) true

/-- `tightObject` (members as the map iterates) and `tightSortObject` (keys sorted first) -/
def tightObject (o : Opts) (ord : Kvs → Kvs) (wv : JV → Nat → St → St) (kvs : Kvs) (s : St) : St :=
  let p := tightMembers o wv (order o.sort ord kvs) (s.push1 123) false
  if p.2 then p.1.setLast 125 else p.1.push1 125

/-! ## writer.go -/

/-- loop of `appendArray` -/
def appendElems (wv : JV → Nat → St → St) (cs : Bytes) (d2 : Nat) : List JV → St → St
  | [], s => s
  | m :: r, s => appendElems wv cs d2 r ((wv m d2 (s.push cs)).push1 44)

/-- `appendArray` -/
def appendArray (o : Opts) (wv : JV → Nat → St → St) (xs : List JV) (depth : Nat) (s : St) : St :=
  if 0 < xs.length then
    (((appendElems wv (indentCs o (depth + 1)) (depth + 1) xs (s.push1 91)).setLast 10).push
      (indentIs o depth)).push1 93
  else s.push [91, 93]

/-- loop of `appendObject` / `appendSortObject`; the flag is `empty` -/
def appendMembers (o : Opts) (wv : JV → Nat → St → St) (cs : Bytes) (d2 : Nat) :
    Kvs → St → Bool → St × Bool
  | [], s, e => (s, e)
  | (k, m) :: r, s, e =>
    if skipMember o m then appendMembers o wv cs d2 r s e
    else
      appendMembers o wv cs d2 r
        ((wv m d2 ((((s.push cs).push (jsonString k (!o.htmlUnsafe))).push1 58).push1 32)).push1 44) false

/-- `appendObject` and `appendSortObject` -/
def appendObject (o : Opts) (ord : Kvs → Kvs) (wv : JV → Nat → St → St) (kvs : Kvs) (depth : Nat)
    (s : St) : St :=
  let p := appendMembers o wv (indentCs o (depth + 1)) (depth + 1) (order o.sort ord kvs) (s.push1 123) true
  if !p.2 then ((p.1.setLast 10).push (indentIs o depth)).push1 125 else p.1.push1 125

/-- `MustJSON` / `MustWrite` choose the indented functions when `wr.Tab || 0 < wr.Indent` -/
def Opts.indented (o : Opts) : Bool := o.tab || 0 < o.indent

/-- `(*Writer).appendJSON`. Fuel = nesting depth + 1 (see `ojWriteSt`); `lim` is `none` when no
`io.Writer` is attached (`wr.w == nil`). -/
def appendJSON (o : Opts) (ord : Kvs → Kvs) (lim : Option Nat) : Nat → JV → Nat → St → St
  | 0, _, _, s => s
  | f+1, v, depth, s =>
    St.flush lim <|
      match v with
      | .null => s.push [110, 117, 108, 108]
      | .bool b => if b then s.push [116, 114, 117, 101] else s.push [102, 97, 108, 115, 101]
      | .int i => s.push (fmtInt i)
      | .flt t => s.push t
      | .big _ => s          -- not a value C04 speaks about
      | .num _ => s          -- not a value C04 speaks about
      | .str x => s.push (jsonString x (!o.htmlUnsafe))
      | .arr xs =>
        if o.indented then appendArray o (appendJSON o ord lim f) xs depth s
        else tightArray (appendJSON o ord lim f) xs s
      | .obj kvs =>
        if o.indented then appendObject o ord (appendJSON o ord lim f) kvs depth s
        else tightObject o ord (appendJSON o ord lim f) kvs s

/-- state after `wr.appendJSON(data, 0)` on a fresh buffer -/
def ojWriteSt (o : Opts) (ord : Kvs → Kvs) (lim : Option Nat) (v : JV) : St :=
  appendJSON o ord lim (depth v + 1) v 0 {}

/-- `oj.JSON(data, &o)` / `oj.Marshal(data, &o)`: the text -/
def ojWrite (o : Opts) (ord : Kvs → Kvs) (v : JV) : Bytes := (ojWriteSt o ord none v).bytes

/-- `MustWrite`: `if wr.WriteLimit <= 0 { wr.WriteLimit = 1024 }` -/
def effLimit (limit : Nat) : Nat := if limit = 0 then 1024 else limit

/-- `oj.Write(w, data, &o)` with `o.WriteLimit = limit`: the chunks handed to `w.Write`, in order
(the last one is `if 0 < len(wr.buf) { wr.w.Write(wr.buf) }`) -/
def ojWriteTo (o : Opts) (ord : Kvs → Kvs) (limit : Nat) (v : JV) : List Bytes :=
  let s := ojWriteSt o ord (some (effLimit limit)) v
  if 0 < s.rbuf.length then (s.bytes :: s.sent).reverse else s.sent.reverse

end OjgVerif.Writer
