import OjgVerif.Writer.JsonSpec
/-! Lemmas about `sort.Strings` on the keys: the result is a permutation, ascending when the keys are
distinct, and the same for every order the map was iterated in. -/
set_option linter.unusedSimpArgs false
namespace OjgVerif.Writer
open OjgVerif OjgVerif.Json

/-! ### the byte-wise order -/

theorem bytesLt_irrefl : ∀ a : Bytes, bytesLt a a = false := by
  intro a
  induction a with
  | nil => rfl
  | cons x r ih => simp [bytesLt, ih]

theorem bytesLt_trans : ∀ a b c : Bytes, bytesLt a b = true → bytesLt b c = true → bytesLt a c = true := by
  intro a
  induction a with
  | nil =>
    intro b c h1 h2
    cases b with
    | nil => simp [bytesLt] at h1
    | cons y s =>
      cases c with
      | nil => simp [bytesLt] at h2
      | cons z t => simp [bytesLt]
  | cons x r ih =>
    intro b c h1 h2
    cases b with
    | nil => simp [bytesLt] at h1
    | cons y s =>
      cases c with
      | nil => simp [bytesLt] at h2
      | cons z t =>
        simp only [bytesLt] at h1 h2 ⊢
        by_cases hxy : x < y
        · by_cases hyz : y < z
          · have : x < z := by simp [UInt8.lt_iff_toNat_lt] at *; omega
            simp [this]
          · by_cases hzy : z < y
            · simp [hyz, hzy] at h2
            · have : y = z := by
                apply UInt8.toNat_inj.mp; simp [UInt8.lt_iff_toNat_lt] at *; omega
              subst this; simp [hxy]
        · by_cases hyx : y < x
          · simp [hxy, hyx] at h1
          · have hxy' : x = y := by
              apply UInt8.toNat_inj.mp; simp [UInt8.lt_iff_toNat_lt] at *; omega
            subst hxy'
            simp [hxy] at h1
            by_cases hyz : x < z
            · simp [hyz]
            · by_cases hzy : z < x
              · simp [hyz, hzy] at h2
              · simp [hyz, hzy] at h2 ⊢
                exact ih s t h1 h2

theorem bytesLt_total : ∀ a b : Bytes, bytesLt a b = false → a ≠ b → bytesLt b a = true := by
  intro a
  induction a with
  | nil =>
    intro b h hne
    cases b with
    | nil => exact absurd rfl hne
    | cons y s => simp [bytesLt] at h
  | cons x r ih =>
    intro b h hne
    cases b with
    | nil => simp [bytesLt]
    | cons y s =>
      simp only [bytesLt] at h ⊢
      by_cases hxy : x < y
      · simp [hxy] at h
      · by_cases hyx : y < x
        · simp [hyx]
        · have hxy' : x = y := by
            apply UInt8.toNat_inj.mp; simp [UInt8.lt_iff_toNat_lt] at *; omega
          subst hxy'
          simp [hxy] at h ⊢
          exact ih s h (fun e => hne (by rw [e]))

theorem bytesLt_asymm (a b : Bytes) (h1 : bytesLt a b = true) (h2 : bytesLt b a = true) : False := by
  have := bytesLt_trans a b a h1 h2
  rw [bytesLt_irrefl] at this
  cases this

/-! ### insertion sort on the keys -/

/-- strictly ascending keys -/
def Ascending (l : Kvs) : Prop := l.Pairwise fun a b => bytesLt a.1 b.1 = true

theorem insertKv_perm (k : Bytes) (v : JV) : ∀ l : Kvs, (insertKv k v l).Perm ((k, v) :: l) := by
  intro l
  induction l with
  | nil => exact List.Perm.refl _
  | cons kv r ih =>
    obtain ⟨k', v'⟩ := kv
    simp only [insertKv]
    split
    · exact List.Perm.refl _
    · exact ((List.Perm.cons _ ih).trans (List.Perm.swap _ _ _))

theorem sortKvs_perm : ∀ l : Kvs, (sortKvs l).Perm l := by
  intro l
  induction l with
  | nil => exact List.Perm.refl _
  | cons kv r ih =>
    obtain ⟨k, v⟩ := kv
    simp only [sortKvs]
    exact (insertKv_perm k v _).trans (List.Perm.cons _ ih)

theorem insertKv_ascending (k : Bytes) (v : JV) : ∀ l : Kvs, Ascending l → (∀ kv ∈ l, kv.1 ≠ k) →
    Ascending (insertKv k v l) := by
  intro l
  induction l with
  | nil => intro _ _; simp [insertKv, Ascending]
  | cons kv r ih =>
    intro hs hne
    obtain ⟨k', v'⟩ := kv
    simp only [Ascending, List.pairwise_cons] at hs
    simp only [insertKv]
    by_cases hlt : bytesLt k k' = true
    · simp only [hlt, ↓reduceIte, Ascending, List.pairwise_cons]
      refine ⟨?_, hs⟩
      intro b hb
      simp only [List.mem_cons] at hb
      rcases hb with rfl | hb
      · exact hlt
      · exact bytesLt_trans _ _ _ hlt (hs.1 b hb)
    · simp only [hlt, Bool.false_eq_true, ↓reduceIte, Ascending, List.pairwise_cons]
      have hk' : bytesLt k' k = true :=
        bytesLt_total k k' (by simpa using hlt) (fun e => hne (k', v') (by simp) e.symm)
      refine ⟨?_, ih hs.2 (fun kv hkv => hne kv (by simp [hkv]))⟩
      intro b hb
      have := (insertKv_perm k v r).mem_iff.mp hb
      simp only [List.mem_cons] at this
      rcases this with rfl | hb'
      · exact hk'
      · exact hs.1 b hb'

theorem sortKvs_ascending : ∀ l : Kvs, (l.map fun kv => kv.1).Nodup → Ascending (sortKvs l) := by
  intro l
  induction l with
  | nil => intro _; simp [sortKvs, Ascending]
  | cons kv r ih =>
    intro hnd
    obtain ⟨k, v⟩ := kv
    simp only [List.map_cons, List.nodup_cons] at hnd
    simp only [sortKvs]
    apply insertKv_ascending k v _ (ih hnd.2)
    intro kv hkv e
    have hm := (sortKvs_perm r).mem_iff.mp hkv
    exact hnd.1 (by rw [← e]; exact List.mem_map_of_mem hm)

/-- an ascending arrangement of a set of members is unique -/
theorem ascending_unique : ∀ (l₁ l₂ : Kvs), l₁.Perm l₂ → Ascending l₁ → Ascending l₂ → l₁ = l₂ := by
  intro l₁
  induction l₁ with
  | nil => intro l₂ hp _ _; exact (List.Perm.nil_eq hp)
  | cons a t₁ ih =>
    intro l₂ hp h₁ h₂
    cases l₂ with
    | nil => exact absurd hp.symm (by simp)
    | cons b t₂ =>
      simp only [Ascending, List.pairwise_cons] at h₁ h₂
      have hab : a = b := by
        have ha : a ∈ b :: t₂ := hp.mem_iff.mp (by simp)
        have hb : b ∈ a :: t₁ := hp.mem_iff.mpr (by simp)
        simp only [List.mem_cons] at ha hb
        rcases ha with e | ha
        · exact e
        · rcases hb with e | hb
          · exact e.symm
          · exact (bytesLt_asymm _ _ (h₁.1 b hb) (h₂.1 a ha)).elim
      subst hab
      rw [ih t₂ (List.Perm.cons_inv hp) h₁.2 h₂.2]

/-- with Sort the members written do not depend on the order the map was iterated in -/
theorem sortKvs_perm_eq (l₁ l₂ : Kvs) (hp : l₁.Perm l₂) (hnd : (l₁.map fun kv => kv.1).Nodup) :
    sortKvs l₁ = sortKvs l₂ := by
  have hnd₂ : (l₂.map fun kv => kv.1).Nodup := (hp.map _).nodup_iff.mp hnd
  exact ascending_unique _ _ ((sortKvs_perm l₁).trans (hp.trans (sortKvs_perm l₂).symm))
    (sortKvs_ascending l₁ hnd) (sortKvs_ascending l₂ hnd₂)


end OjgVerif.Writer
