import OjgVerif.Writer.OjModel
import OjgVerif.Gen.Pretty
import OjgVerif.Gen.PrettyFill
/-! # Model of `pretty.Writer` for JSON (pretty/writer.go, build.go, node.go)

`encode` = `build` (a tree of nodes with the encoded leaf text, `size`, `depth`, `skip`) followed by
`fill` (flat / multi-line per node, optional alignment tables). Statement for statement; `SEN` and
`Color` are off. A slice of `spaces` beyond its length is a Go run-time panic, which `encode`
recovers into an error and an empty result: the model records it in `bad`.

Deviations of the Go code from property C04 that the model carries on purpose (known findings, see
/verif/known_findings.json):
* `alignMap` writes the comma after a member when a later COLUMN exists, not when a later MEMBER
  exists: a row that lacks its last column(s) ends in `, }` (C04-pretty-align-comma).
(The `skip` marks follow the options since fix aa799cb; a table with a column that holds an array in
one row and a map in another is not used for alignment since fix 2c87bea: `Table.mixed`.)

`sort.Slice` in `update*Table` is modelled by a stable insertion sort (what the library runs for at
most 12 elements); for tables whose keys are all distinct — every table whose rows have one kind —
any sort gives the same result. -/
namespace OjgVerif.Writer.Pretty
open OjgVerif OjgVerif.Writer

structure POpts where
  width : Nat := 80
  maxDepth : Nat := 3
  align : Bool := false
  omitNil : Bool := false
  omitEmpty : Bool := false
  htmlUnsafe : Bool := true
  deriving Inhabited

/-- the `oj` options with the same meaning: `pretty` always sorts -/
def ojOptsOf (p : POpts) : Opts :=
  { sort := true, omitNil := p.omitNil, omitEmpty := p.omitEmpty, htmlUnsafe := p.htmlUnsafe }

inductive PNode where
  | leaf (kind : UInt8) (buf : Bytes) (skip : Bool)
  | arr (members : List PNode) (size depth : Nat) (skip : Bool)
  | map (members : List (Bytes × PNode)) (size depth : Nat) (skip : Bool)
  deriving Inhabited

def PNode.size : PNode → Nat
  | .leaf _ buf _ => buf.length
  | .arr _ sz _ _ => sz
  | .map _ sz _ _ => sz

def PNode.depth : PNode → Nat
  | .leaf .. => 0
  | .arr _ _ d _ => d
  | .map _ _ d _ => d

def PNode.skip : PNode → Bool
  | .leaf _ _ s => s
  | .arr _ _ _ s => s
  | .map _ _ _ s => s

def PNode.kind : PNode → UInt8
  | .leaf k _ _ => k
  | .arr .. => Gen.Pretty.arrayNode
  | .map .. => Gen.Pretty.mapNode

/-! ## build.go -/

/-- size of an array node: `2`, each member, and `, ` between members -/
def arrSize : List PNode → Nat → Nat → Nat
  | [], _, sz => sz
  | m :: r, i, sz => arrSize r (i + 1) ((if 0 < i then sz + 2 else sz) + m.size)

def arrDepth : List PNode → Nat → Nat
  | [], d => d
  | m :: r, d => arrDepth r (if d < m.depth + 1 then m.depth + 1 else d)

/-- loop of `buildMapNode` over the sorted keys: members (reversed), size, depth -/
def buildMembers (o : POpts) (bv : JV → PNode) : Kvs → List (Bytes × PNode) → Nat → Nat →
    List (Bytes × PNode) × Nat × Nat
  | [], acc, sz, dp => (acc.reverse, sz, dp)
  | (k, v) :: r, acc, sz, dp =>
    let mn := bv v
    if mn.skip then buildMembers o bv r acc sz dp
    else
      let key := jsonString k (!o.htmlUnsafe)
      let sz1 := if 2 < sz then sz + 2 else sz
      buildMembers o bv r ((key, mn) :: acc) (sz1 + key.length + 2 + mn.size)
        (if dp < mn.depth + 1 then mn.depth + 1 else dp)

/-- `(*Writer).build` (fuel = nesting depth + 1) -/
def build (o : POpts) (ord : Kvs → Kvs) : Nat → JV → PNode
  | 0, _ => .leaf Gen.Pretty.strNode [] false
  | f+1, v =>
    match v with
    | .null => .leaf Gen.Pretty.strNode Gen.Pretty.nullStr.toList o.omitNil
    | .bool b =>
      if b then .leaf Gen.Pretty.strNode Gen.Pretty.trueStr.toList false
      else .leaf Gen.Pretty.strNode Gen.Pretty.falseStr.toList false
    | .int i => .leaf Gen.Pretty.numNode (fmtInt i) false
    | .flt t => .leaf Gen.Pretty.numNode t false
    | .big _ => .leaf Gen.Pretty.strNode [] false
    | .num _ => .leaf Gen.Pretty.strNode [] false
    | .str x => .leaf Gen.Pretty.strNode (jsonString x (!o.htmlUnsafe)) (o.omitEmpty && x.length = 0)
    | .arr xs =>
      let ms := xs.map (build o ord f)
      .arr ms (arrSize ms 0 2) (arrDepth ms 0) (o.omitEmpty && xs.length = 0)
    | .obj kvs =>
      let r := buildMembers o (build o ord f) (sortKvs (ord kvs)) [] 2 0
      .map r.1 r.2.1 r.2.2 (o.omitEmpty && kvs.length = 0)

/-! ## node.go: alignment tables -/

inductive TKey where
  | idx (i : Nat)
  | str (k : Bytes)
  deriving DecidableEq, Inhabited

/-- `kinds`: bit 1 = an array cell was filed under this column, bit 2 = a map cell -/
inductive Table where
  | mk (key : TKey) (size : Nat) (cols : List Table) (kinds : Nat)
  deriving Inhabited

def Table.key : Table → TKey | .mk k _ _ _ => k
def Table.size : Table → Nat | .mk _ s _ _ => s
def Table.cols : Table → List Table | .mk _ _ c _ => c
def Table.kinds : Table → Nat | .mk _ _ _ k => k

mutual
  /-- `(*table).mixed`: some column holds an array in one row and a map in another -/
  def Table.mixed : Table → Bool
    | .mk _ _ cols kinds => kinds = 3 || Table.mixedAny cols
  def Table.mixedAny : List Table → Bool
    | [] => false
    | c :: r => c.mixed || Table.mixedAny r
end

/-- `key.(int)` with the zero value for a string key -/
def TKey.int : TKey → Nat | .idx i => i | .str _ => 0
/-- `key.(string)` with the zero value for an int key -/
def TKey.string : TKey → Bytes | .idx _ => [] | .str k => k

/-- index of the LAST column with the key (the Go loop does not break) -/
def findLast (key : TKey) : List Table → Nat → Option Nat → Option Nat
  | [], _, found => found
  | c :: r, i, found => findLast key r (i + 1) (if c.key = key then some i else found)

def modifyAt (f : Table → Table) : List Table → Nat → List Table
  | [], _ => []
  | c :: r, 0 => f c :: r
  | c :: r, i+1 => c :: modifyAt f r i

/-- the `switch m.kind` inside `update*Table` -/
def applyMember (u : PNode → Table → Table) (m : PNode) (col : Table) : Table :=
  match m with
  | .leaf _ buf _ => if col.size < buf.length then .mk col.key buf.length col.cols col.kinds else col
  | .arr .. => u m (.mk col.key col.size col.cols (col.kinds ||| 1))      -- `col.kinds |= 1`
  | .map .. => u m (.mk col.key col.size col.cols (col.kinds ||| 2))      -- `col.kinds |= 2`

def updateCol (u : PNode → Table → Table) (key : TKey) (m : PNode) (cols : List Table) : List Table :=
  match findLast key cols 0 none with
  | some j => modifyAt (applyMember u m) cols j
  | none => cols ++ [applyMember u m (.mk key 0 [] 0)]

def insertBy (lt : Table → Table → Bool) (x : Table) : List Table → List Table
  | [] => [x]
  | c :: r => if lt x c then x :: c :: r else c :: insertBy lt x r

/-- stable insertion sort (see the header) -/
def sortBy (lt : Table → Table → Bool) : List Table → List Table → List Table
  | [], acc => acc
  | c :: r, acc => sortBy lt r (insertBy lt c acc)

def updArrCols (u : PNode → Table → Table) : List PNode → Nat → List Table → List Table
  | [], _, cols => cols
  | m :: r, i, cols => updArrCols u r (i + 1) (updateCol u (.idx i) m cols)

def updMapCols (u : PNode → Table → Table) : List (Bytes × PNode) → List Table → List Table
  | [], cols => cols
  | (k, m) :: r, cols => updMapCols u r (updateCol u (.str k) m cols)

def sumSizes : List Table → Nat
  | [] => 0
  | c :: r => c.size + sumSizes r

def sumSizesKeys : List Table → Nat
  | [] => 0
  | c :: r => c.size + c.key.string.length + sumSizesKeys r

/-- `updateArrayTable` / `updateMapTable` (JSON: `lazy = false`), chosen by the node kind as every
caller does -/
def upd : Nat → PNode → Table → Table
  | 0, _, t => t
  | f+1, n, t =>
    match n with
    | .leaf .. => t
    | .arr ms _ _ _ =>
      let cols := sortBy (fun a b => a.key.int < b.key.int) (updArrCols (upd f) ms 0 t.cols) []
      .mk t.key (sumSizes cols + cols.length * 2) cols t.kinds
    | .map ms _ _ _ =>
      let cols := sortBy (fun a b => bytesLt a.key.string b.key.string) (updMapCols (upd f) ms t.cols) []
      .mk t.key (sumSizesKeys cols + cols.length * 4) cols t.kinds

/-- `subKind`: the common kind of the members, 0 if there is none -/
def subKind : List UInt8 → UInt8 → UInt8
  | [], kind => kind
  | k :: r, kind => if kind ≠ k then (if kind ≠ 0 then 0 else subKind r k) else subKind r kind

def memberKinds : PNode → List UInt8
  | .leaf .. => []
  | .arr ms _ _ _ => ms.map PNode.kind
  | .map ms _ _ _ => ms.map fun m => m.2.kind

def memberNodes : PNode → List PNode
  | .leaf .. => []
  | .arr ms _ _ _ => ms
  | .map ms _ _ _ => ms.map fun m => m.2

def foldUpd (fuel : Nat) : List PNode → Table → Table
  | [], t => t
  | m :: r, t => foldUpd fuel r (upd fuel m t)

/-- `genTables(false)` -/
def genTables (fuel : Nat) (n : PNode) : Option Table :=
  let k := subKind (memberKinds n) 0
  if k = Gen.Pretty.arrayNode || k = Gen.Pretty.mapNode then
    some (foldUpd fuel (memberNodes n) (.mk (.idx 0) 0 [] 0))
  else none

/-! ## writer.go -/

structure PSt where
  st : St := {}
  bad : Bool := false
  deriving Inhabited

/-- after a panic nothing more happens -/
def PSt.push (s : PSt) (bs : Bytes) : PSt := if s.bad then s else { s with st := s.st.push bs }
def PSt.push1 (s : PSt) (b : UInt8) : PSt := if s.bad then s else { s with st := s.st.push1 b }

/-- append `spaces[lo:hi]`; out of range is a run-time panic -/
def PSt.pushSpaces (s : PSt) (lo hi : Nat) : PSt :=
  if Gen.Pretty.spaces.size < hi || hi < lo then { s with bad := true }
  else s.push (sliceOf Gen.Pretty.spaces lo hi)

/-- `for i := n; 0 < i; i-- { w.buf = append(w.buf, ' ') }` -/
def PSt.pad : PSt → Nat → PSt
  | s, 0 => s
  | s, n+1 => PSt.pad (s.push1 32) n

/-- the writer's settings while `fill` runs: the options, `Width` after the clamp of `encode`, the
`Indent` chosen by `encode`; `fuel` bounds the recursion of the table functions -/
structure PW where
  o : POpts
  width : Nat
  indent : Nat
  fuel : Nat

/-- the `switch m.kind` shared by `alignArray` and `alignMap` -/
def alignCell (aa am : PNode → Table → PSt → PSt) (m : PNode) (col : Table) (s : PSt) : PSt :=
  match m with
  | .leaf kind buf _ =>
    if kind = Gen.Pretty.strNode then
      let s1 := s.push buf
      if buf.length < col.size then s1.pushSpaces 1 (col.size - buf.length + 1) else s1
    else if kind = Gen.Pretty.numNode then
      let s1 := if buf.length < col.size then s.pushSpaces 1 (col.size - buf.length + 1) else s
      s1.push buf
    else s
  | .arr .. => aa m col s
  | .map .. => am m col s

/-- loop of `alignArray`: column `k` goes with member `k` -/
def alignArrCols (aa am : PNode → Table → PSt → PSt) : List Table → List PNode → Nat → PSt → PSt
  | [], _, _, s => s
  | _ :: _, [], _, s => s                        -- `if len(n.members) <= k { break }`
  | col :: cr, m :: mr, k, s =>
    let s1 := if 0 < k then (s.push1 44).push1 32 else s
    alignArrCols aa am cr mr (k + 1) (alignCell aa am m col s1)

def findMember (k : Bytes) : List (Bytes × PNode) → Option PNode
  | [] => none
  | (key, m) :: r => if key = k then some m else findMember k r

/-- loop of `alignMap`; `i`/`n` are the column index and count. The comma is written when the
PREVIOUS column had a member, whether or not any later column has one (C04-pretty-align-comma). -/
def alignMapCols (aa am : PNode → Table → PSt → PSt) (ms : List (Bytes × PNode)) (n : Nat) :
    List Table → Nat → Bool → PSt → PSt
  | [], _, _, s => s
  | col :: cr, i, prevExist, s =>
    let k := col.key.string
    let s1 := if prevExist then (s.push1 44).push1 32 else s
    match findMember k ms with
    | none =>
      let pad := k.length + 2 + col.size
      let pad := if i + 1 < n then pad + 2 else pad
      alignMapCols aa am ms n cr (i + 1) false (s1.pushSpaces 1 (pad + 1))
    | some m =>
      alignMapCols aa am ms n cr (i + 1) true (alignCell aa am m col (((s1.push k).push1 58).push1 32))

/-- `alignArray` / `alignMap`, chosen by the node kind -/
def alignNode : Nat → PNode → Table → PSt → PSt
  | 0, _, _, s => s
  | f+1, n, t, s =>
    match n with
    | .leaf .. => s
    | .arr ms _ _ _ =>
      (alignArrCols (alignNode f) (alignNode f) t.cols ms 0 (s.push1 91)).push1 93
    | .map ms _ _ _ =>
      (alignMapCols (alignNode f) (alignNode f) ms t.cols.length t.cols 0 false (s.push1 123)).push1 125

/-- the rows of `checkAlign` once the table is accepted -/
def alignRows (fuel : Nat) (c : Table) (cs : Bytes) : List PNode → Nat → PSt → PSt
  | [], _, s => s
  | m :: r, i, s =>
    let s1 := if 0 < i then s.push1 44 else s
    alignRows fuel c cs r (i + 1) (alignNode fuel m c (s1.push cs))

/-- member loop of the array case of `fill` -/
def fillElems (fv : PNode → Nat → Bool → PSt → PSt) (cs : Bytes) (flat : Bool) (d2 : Nat) :
    List PNode → Nat → PSt → PSt
  | [], _, s => s
  | m :: r, i, s =>
    let s1 := if 0 < i then (s.push1 44).push cs else if !flat then s.push cs else s
    fillElems fv cs flat d2 r (i + 1) (fv m d2 flat s1)

/-- member loop of the map case of `fill` -/
def fillMembers (fv : PNode → Nat → Bool → PSt → PSt) (cs : Bytes) (flat : Bool) (d2 keyWidth : Nat) :
    List (Bytes × PNode) → Nat → PSt → PSt
  | [], _, s => s
  | (key, m) :: r, i, s =>
    let s1 := if 0 < i then (s.push1 44).push cs else if !flat then s.push cs else s
    let s2 := ((s1.push key).push1 58).push1 32
    fillMembers fv cs flat d2 keyWidth r (i + 1) (fv m d2 flat (s2.pad (keyWidth - key.length)))

def maxKeyLen : List (Bytes × PNode) → Nat → Nat
  | [], w => w
  | (key, _) :: r, w => maxKeyLen r (if w < key.length then key.length else w)

/-- the three results of the `if flat {…} else {…}` block: `cs`, `is`, `flat` -/
def layoutOf (w : PW) (depth : Nat) (flat : Bool) : Bytes × Bytes × Bool :=
  if flat then (Gen.PrettyFill.flatCs.toList, [], true)                 -- `cs = []byte{' '}`
  else if Gen.Pretty.spaces.size < (depth + 1) * w.indent + 1 then
    (Gen.PrettyFill.deepFlatCs.toList, [], true)          -- `flat = true; cs = []byte{' '}` (since 6d73487)
  else (sliceOf Gen.Pretty.spaces 0 ((depth + 1) * w.indent + 1),
        sliceOf Gen.Pretty.spaces 0 (depth * w.indent + 1), false)

def PSt.flush (lim : Option Nat) (s : PSt) : PSt := if s.bad then s else { s with st := s.st.flush lim }

/-- `(*Writer).fill`; `lim` is `none` without an `io.Writer` (`w.w == nil`) -/
def fill (w : PW) (lim : Option Nat) : Nat → PNode → Nat → Bool → PSt → PSt
  | 0, _, _, _, s => s
  | f+1, n, depth, flat, s =>
    PSt.flush lim <|
      match n with
      | .leaf _ buf _ => s.push buf
      | .arr ms size ndepth _ =>
        let flat1 := flat || (depth * w.indent + size < w.width && ndepth < w.o.maxDepth)
        let l := layoutOf w depth flat1
        let s1 := s.push1 91
        let tbl := if !w.o.align || w.o.maxDepth < ndepth || ms.length < 2 then none
                   else genTables w.fuel n
        let s2 :=
          match tbl with
          | none => fillElems (fill w lim f) l.1 l.2.2 (depth + 1) ms 0 s1
          | some c =>
            if c.mixed || w.width < depth * w.indent + c.size then fillElems (fill w lim f) l.1 l.2.2 (depth + 1) ms 0 s1
            else alignRows w.fuel c l.1 ms 0 s1
        (s2.push l.2.1).push1 93
      | .map ms size ndepth _ =>
        let flat1 := flat || (depth * w.indent + size < w.width && ndepth < w.o.maxDepth)
        let l := layoutOf w depth flat1
        let s1 := s.push1 123
        let keyWidth := if w.o.align then maxKeyLen ms 1 else 1
        ((fillMembers (fill w lim f) l.1 l.2.2 (depth + 1) keyWidth ms 0 s1).push l.2.1).push1 125

/-- what `encode` sets up before `fill`: `Width` clamped to `len(spaces)-1`, `Indent` 2 or, for deep
trees, 1 -/
def pwOf (o : POpts) (ord : Kvs → Kvs) (v : JV) : PW :=
  { o := o,
    width := if Gen.Pretty.spaces.size - 1 < o.width then Gen.Pretty.spaces.size - 1 else o.width,
    indent :=
      if (if Gen.Pretty.spaces.size - 1 < o.width then Gen.Pretty.spaces.size - 1 else o.width) * 3 / 8 <
          (build o ord (Writer.depth v + 1) v).depth then 1 else 2,
    fuel := Writer.depth v + 2 }

/-- `(*Writer).encode` up to the final write: state after `fill(tree, 0, false)` -/
def encodeSt (o : POpts) (ord : Kvs → Kvs) (lim : Option Nat) (v : JV) : PSt :=
  fill (pwOf o ord v) lim (Writer.depth v + 1) (build o ord (Writer.depth v + 1) v) 0 false {}

/-- `pretty.JSON(data, …)`: the text (empty after a recovered panic) -/
def prettyWrite (o : POpts) (ord : Kvs → Kvs) (v : JV) : Bytes :=
  if (encodeSt o ord none v).bad then [] else (encodeSt o ord none v).st.bytes

/-- `pretty.WriteJSON(w, data, …)` with `WriteLimit = limit`: the chunks, in order. A panic after some
chunks were written leaves those chunks. -/
def prettyWriteTo (o : POpts) (ord : Kvs → Kvs) (limit : Nat) (v : JV) : List Bytes :=
  let s := encodeSt o ord (some (effLimit limit)) v
  if s.bad then s.st.sent.reverse
  else if 0 < s.st.rbuf.length then (s.st.bytes :: s.st.sent).reverse else s.st.sent.reverse

end OjgVerif.Writer.Pretty
