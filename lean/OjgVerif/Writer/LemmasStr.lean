import OjgVerif.Writer.StrEsc
import OjgVerif.Json.Spec
/-! Lemmas for `C04_string`: the escaping table against the RFC 8259 string reader. -/
set_option linter.unusedSimpArgs false
namespace OjgVerif.Writer
open OjgVerif OjgVerif.Json

/-! ### table facts, row-wise -/

/-- a predicate on (index, cell) checked along a list -/
def allIdx (P : Nat → UInt8 → Bool) : Nat → List UInt8 → Bool
  | _, [] => true
  | k, c :: r => P k c && allIdx P (k + 1) r

theorem allIdx_get (P : Nat → UInt8 → Bool) (l : List UInt8) (k : Nat) (h : allIdx P k l = true)
    (i : Nat) (hi : i < l.length) : P (k + i) l[i] = true := by
  induction l generalizing k i with
  | nil => simp at hi
  | cons c r ih =>
    simp only [allIdx, Bool.and_eq_true] at h
    cases i with
    | zero => simpa using h.1
    | succ j =>
      have := ih (k + 1) h.2 j (by simpa using hi)
      simpa [Nat.add_assoc, Nat.add_comm 1 j] using this

theorem getD_of_allIdx (P : Nat → UInt8 → Bool) (a : Array UInt8) (n : Nat) (hs : a.size = n)
    (h : allIdx P 0 a.toList = true) (i : Nat) (hi : i < n) : P i (a.getD i 0) = true := by
  have hlt : i < a.size := by omega
  have := allIdx_get P a.toList 0 h i (by simpa using hlt)
  rw [Array.getD, dif_pos hlt]
  simpa using this

/-- what `escLoop` needs of a cell of the class table to be read back correctly -/
def cellSafe (b c : UInt8) : Bool :=
  if c = 111 then 32 ≤ b && b != 34 && b != 92 && b < 128             -- 'o': copied
  else if c = 46 then b < 128                                          -- '.': \u00XX
  else if c = 104 then 32 ≤ b && b != 34 && b != 92 && b < 128        -- 'h': either
  else if c = 56 then 128 ≤ b                                          -- '8': decoded
  else Spec.escByte c == some b                                        -- two-character escape

/-- a class table all of whose cells are safe -/
def TableSafe (tbl : Array UInt8) : Prop := ∀ b : UInt8, cellSafe b (tbl.getD b.toNat 0) = true

theorem tableSafe_of_check (tbl : Array UInt8) (hs : tbl.size = 256)
    (h : allIdx (fun i c => cellSafe (UInt8.ofNat i) c) 0 tbl.toList = true) : TableSafe tbl := by
  intro b
  have := getD_of_allIdx _ tbl 256 hs h b.toNat b.toNat_lt
  simpa using this

/-- the hex digits: each reads back as its value -/
def hexOK (b : UInt8) : Bool :=
  Spec.isHex (hexDigit ((b >>> 4) &&& 0x0f)) && Spec.isHex (hexDigit (b &&& 0x0f)) &&
    Spec.hexNib (hexDigit ((b >>> 4) &&& 0x0f)) * 16 + Spec.hexNib (hexDigit (b &&& 0x0f)) == b.toNat

theorem hexOK_all : ∀ i : Fin 256, hexOK (UInt8.ofNat i.val) = true := by decide +kernel

theorem hexOK_byte (b : UInt8) : hexOK b = true := by
  have := hexOK_all ⟨b.toNat, b.toNat_lt⟩
  simpa using this


/-! ### steps of the string reader -/

theorem pChars_plain (f : Nat) (b : UInt8) (t : Bytes) (h1 : 32 ≤ b) (h2 : b ≠ 34) (h3 : b ≠ 92) :
    Spec.pChars (f + 1) (b :: t) = (Spec.pChars f t).map fun p => (b :: p.1, p.2) := by
  have h4 : ¬ b < 32 := by
    intro h; exact absurd h1 (by simpa [UInt8.not_le] using h)
  simp [Spec.pChars, h2, h3, h4]

theorem pChars_esc2 (f : Nat) (c b : UInt8) (t : Bytes) (h : Spec.escByte c = some b) :
    Spec.pChars (f + 1) (92 :: c :: t) = (Spec.pChars f t).map fun p => (b :: p.1, p.2) := by
  have hc : c ≠ 117 := by
    intro hc; subst hc; simp [Spec.escByte] at h
  simp [Spec.pChars, hc, h]

theorem utf8Enc_ascii (n : Nat) (h : n < 128) : Spec.utf8Enc n = [UInt8.ofNat n] := by
  simp [Spec.utf8Enc, h]

theorem pChars_u00 (f : Nat) (b : UInt8) (t : Bytes) (h : b < 128) :
    Spec.pChars (f + 1) (u00 b ++ t) = (Spec.pChars f t).map fun p => (b :: p.1, p.2) := by
  have hk := hexOK_byte b
  simp only [hexOK, Bool.and_eq_true, beq_iff_eq] at hk
  obtain ⟨⟨h1, h2⟩, h3⟩ := hk
  have hb : b.toNat < 128 := by simpa [UInt8.lt_iff_toNat_lt] using h
  have hh : Spec.hex4 (48 :: 48 :: hexDigit ((b >>> 4) &&& 0x0f) :: hexDigit (b &&& 0x0f) :: t) = some (b.toNat, t) := by
    have e0 : Spec.isHex 48 = true := by decide
    have n0 : Spec.hexNib 48 = 0 := by decide
    simp [Spec.hex4, e0, n0, h1, h2, h3]
  have hs : ¬ (0xD800 ≤ b.toNat ∧ b.toNat < 0xDC00) := by omega
  simp only [u00, List.cons_append, List.nil_append, Spec.pChars]
  simp [hh, hs, utf8Enc_ascii _ hb]

theorem pChars_uni (f : Nat) (a b c d : UInt8) (u : Nat) (t : Bytes)
    (hh : Spec.hex4 (a :: b :: c :: d :: t) = some (u, t)) (hs : ¬ (0xD800 ≤ u ∧ u < 0xDC00)) :
    Spec.pChars (f + 1) (92 :: 117 :: a :: b :: c :: d :: t) =
      (Spec.pChars f t).map fun p => (Spec.utf8Enc u ++ p.1, p.2) := by
  simp only [Spec.pChars]
  simp [hh, hs]

theorem pChars_2028 (f : Nat) (t : Bytes) :
    Spec.pChars (f + 1) (esc2028 ++ t) = (Spec.pChars f t).map fun p => ([0xE2, 0x80, 0xA8] ++ p.1, p.2) := by
  have hh : Spec.hex4 (50 :: 48 :: 50 :: 56 :: t) = some (0x2028, t) := by
    simp [Spec.hex4, Spec.isHex, Spec.hexNib]
  have := pChars_uni f 50 48 50 56 0x2028 t hh (by omega)
  have he : Spec.utf8Enc 0x2028 = [0xE2, 0x80, 0xA8] := by decide
  simpa [esc2028, he] using this

theorem pChars_2029 (f : Nat) (t : Bytes) :
    Spec.pChars (f + 1) (esc2029 ++ t) = (Spec.pChars f t).map fun p => ([0xE2, 0x80, 0xA9] ++ p.1, p.2) := by
  have hh : Spec.hex4 (50 :: 48 :: 50 :: 57 :: t) = some (0x2029, t) := by
    simp [Spec.hex4, Spec.isHex, Spec.hexNib]
  have := pChars_uni f 50 48 50 57 0x2029 t hh (by omega)
  have he : Spec.utf8Enc 0x2029 = [0xE2, 0x80, 0xA9] := by decide
  simpa [esc2029, he] using this

theorem pChars_fffd (f : Nat) (t : Bytes) :
    Spec.pChars (f + 1) (escFFFD ++ t) = (Spec.pChars f t).map fun p => (fffd ++ p.1, p.2) := by
  have hh : Spec.hex4 (102 :: 102 :: 102 :: 100 :: t) = some (0xFFFD, t) := by
    simp [Spec.hex4, Spec.isHex, Spec.hexNib]
  have := pChars_uni f 102 102 102 100 0xFFFD t hh (by omega)
  have he : Spec.utf8Enc 0xFFFD = fffd := by decide
  simpa [escFFFD, he] using this


/-! ### UTF-8 decoding -/

theorem u8_ne_toNat {a b : UInt8} (h : a ≠ b) : a.toNat ≠ b.toNat := fun e => h (UInt8.toNat_inj.mp e)

theorem ofNat_toNat_add (b : UInt8) (k : Nat) (h : k ≤ b.toNat) : UInt8.ofNat (k + (b.toNat - k)) = b := by
  have : k + (b.toNat - k) = b.toNat := by omega
  rw [this]; exact UInt8.ofNat_toNat

/-- the 3-byte case: decoding then encoding gives the bytes back -/
theorem enc3 (b b1 b2 : UInt8) (h0 : 224 ≤ b.toNat) (h0' : b.toNat < 240)
    (h1 : (lo3 b).toNat ≤ b1.toNat) (h1' : b1.toNat ≤ (hi3 b).toNat)
    (h2 : 128 ≤ b2.toNat) (h2' : b2.toNat ≤ 191) :
    Spec.utf8Enc ((b.toNat - 224) * 4096 + (b1.toNat - 128) * 64 + (b2.toNat - 128)) = [b, b1, b2] := by
  have hlo : 128 ≤ b1.toNat ∧ (b.toNat = 224 → 160 ≤ b1.toNat) := by
    unfold lo3 at h1
    by_cases he : b = 0xE0
    · subst he; simp at h1; omega
    · have := u8_ne_toNat he
      simp [he] at h1 this
      omega
  have hhi : b1.toNat ≤ 191 ∧ (b.toNat = 237 → b1.toNat ≤ 159) := by
    unfold hi3 at h1'
    by_cases he : b = 0xED
    · subst he; simp at h1'; omega
    · have := u8_ne_toNat he
      simp [he] at h1' this
      omega
  generalize hn : (b.toNat - 224) * 4096 + (b1.toNat - 128) * 64 + (b2.toNat - 128) = n
  have g1 : ¬ n < 128 := by omega
  have g2 : ¬ n < 2048 := by omega
  have g3 : ¬ ((55296 ≤ n ∧ n < 57344) ∨ 1114111 < n) := by omega
  have g4 : n < 65536 := by omega
  have d1 : n / 4096 = b.toNat - 224 := by omega
  have d2 : n / 64 % 64 = b1.toNat - 128 := by omega
  have d3 : n % 64 = b2.toNat - 128 := by omega
  simp only [Spec.utf8Enc, g1, g2, g3, g4, ↓reduceIte, d1, d2, d3]
  rw [ofNat_toNat_add b 224 h0, ofNat_toNat_add b1 128 hlo.1, ofNat_toNat_add b2 128 h2]
theorem lo3_ge (b : UInt8) : 128 ≤ (lo3 b).toNat := by unfold lo3; split <;> decide
theorem lo4_ge (b : UInt8) : 128 ≤ (lo4 b).toNat := by unfold lo4; split <;> decide
theorem lo4_f0 (b : UInt8) (h : b.toNat = 240) : (lo4 b).toNat = 144 := by
  have : b = 240 := UInt8.toNat_inj.mp h
  subst this; decide

/-- what `utf8Decode` can answer at a byte ≥ 0x80 -/
theorem decode_cases (b : UInt8) (r : Bytes) (hb : 128 ≤ b) :
    utf8Decode (b :: r) = (runeError, 1) ∨
    (∃ b1 r' n, r = b1 :: r' ∧ 128 ≤ b1 ∧ utf8Decode (b :: r) = (n, 2) ∧ n < 0x800) ∨
    (∃ b1 b2 r' n, r = b1 :: b2 :: r' ∧ 128 ≤ b1 ∧ 128 ≤ b2 ∧ utf8Decode (b :: r) = (n, 3) ∧
        Spec.utf8Enc n = [b, b1, b2]) ∨
    (∃ b1 b2 b3 r' n, r = b1 :: b2 :: b3 :: r' ∧ 128 ≤ b1 ∧ 128 ≤ b2 ∧ 128 ≤ b3 ∧
        utf8Decode (b :: r) = (n, 4) ∧ 0x10000 ≤ n) := by
  have hb' : ¬ b < 128 := by simpa [UInt8.not_lt] using hb
  by_cases c1 : b < 0xC2
  · left; simp [utf8Decode, hb', c1]
  by_cases c2 : b < 0xE0
  · cases r with
    | nil => left; simp [utf8Decode, hb', c1, c2]
    | cons b1 r' =>
      by_cases hc : isCont b1 = true
      · right; left
        refine ⟨b1, r', (b.toNat - 0xC0) * 64 + (b1.toNat - 0x80), rfl, ?_, by simp [utf8Decode, hb', c1, c2, hc], ?_⟩
        · simp only [isCont, Bool.and_eq_true, decide_eq_true_eq] at hc; exact hc.1
        · simp [isCont, UInt8.le_iff_toNat_le, UInt8.lt_iff_toNat_lt] at hc c1 c2
          omega
      · left; simp [utf8Decode, hb', c1, c2, hc]
  by_cases c3 : b < 0xF0
  · match r with
    | [] => left; simp [utf8Decode, hb', c1, c2, c3]
    | [_] => left; simp [utf8Decode, hb', c1, c2, c3]
    | b1 :: b2 :: r' =>
      by_cases hc : (lo3 b ≤ b1 && b1 ≤ hi3 b && isCont b2) = true
      · right; right; left
        refine ⟨b1, b2, r', (b.toNat - 0xE0) * 4096 + (b1.toNat - 0x80) * 64 + (b2.toNat - 0x80), rfl, ?_, ?_,
          by simp [utf8Decode, hb', c1, c2, c3, hc], ?_⟩
        · simp [isCont, UInt8.le_iff_toNat_le] at hc ⊢
          have := lo3_ge b; omega
        · simp [isCont, UInt8.le_iff_toNat_le] at hc ⊢
          omega
        · simp [isCont, UInt8.le_iff_toNat_le, UInt8.lt_iff_toNat_lt] at hc c2 c3
          exact enc3 b b1 b2 (by omega) (by omega) hc.1.1 hc.1.2 hc.2.1 hc.2.2
      · left; simp [utf8Decode, hb', c1, c2, c3, hc]
  by_cases c4 : b < 0xF5
  · match r with
    | [] => left; simp [utf8Decode, hb', c1, c2, c3, c4]
    | [_] => left; simp [utf8Decode, hb', c1, c2, c3, c4]
    | [_, _] => left; simp [utf8Decode, hb', c1, c2, c3, c4]
    | b1 :: b2 :: b3 :: r' =>
      by_cases hc : (lo4 b ≤ b1 && b1 ≤ hi4 b && isCont b2 && isCont b3) = true
      · right; right; right
        refine ⟨b1, b2, b3, r', (b.toNat - 0xF0) * 262144 + (b1.toNat - 0x80) * 4096 + (b2.toNat - 0x80) * 64 + (b3.toNat - 0x80),
          rfl, ?_, ?_, ?_, by simp [utf8Decode, hb', c1, c2, c3, c4, hc], ?_⟩
        · simp [isCont, UInt8.le_iff_toNat_le] at hc ⊢
          have := lo4_ge b; omega
        · simp [isCont, UInt8.le_iff_toNat_le] at hc ⊢
          omega
        · simp [isCont, UInt8.le_iff_toNat_le] at hc ⊢
          omega
        · simp [isCont, UInt8.le_iff_toNat_le, UInt8.lt_iff_toNat_lt] at hc c3 c4
          have := lo4_ge b
          have := lo4_f0 b
          omega
      · left; simp [utf8Decode, hb', c1, c2, c3, c4, hc]
  · left; simp [utf8Decode, hb', c1, c2, c3, c4]

/-! ### the loop -/
theorem escByte_all : ∀ i : Fin 256, ((Spec.escByte (UInt8.ofNat i.val)).all fun b => b < 128) = true := by decide +kernel
theorem escByte_lt (c b : UInt8) (h : Spec.escByte c = some b) : b < 128 := by
  have := escByte_all ⟨c.toNat, c.toNat_lt⟩
  simp [h] at this
  exact this

theorem pChars_quote (f : Nat) (rest : Bytes) : Spec.pChars (f + 1) (34 :: rest) = some ([], rest) := by
  simp [Spec.pChars]

/-- bytes ≥ 0x80 pass the string reader unchanged -/
theorem pChars_high (f : Nat) (b : UInt8) (t : Bytes) (h : 128 ≤ b) :
    Spec.pChars (f + 1) (b :: t) = (Spec.pChars f t).map fun p => (b :: p.1, p.2) := by
  have hn : 128 ≤ b.toNat := by simpa [UInt8.le_iff_toNat_le] using h
  apply pChars_plain
  · simp [UInt8.le_iff_toNat_le]; omega
  · intro e; subst e; simp at hn
  · intro e; subst e; simp at hn

theorem san_ascii (b : UInt8) (r : Bytes) (h : b < 128) : sanLoop 0 (b :: r) = b :: sanLoop 0 r := by
  have hn : b.toNat < 128 := by simpa [UInt8.lt_iff_toNat_lt] using h
  have hd : utf8Decode (b :: r) = (b.toNat, 1) := by simp [utf8Decode, h]
  have : illFormedHead (b :: r) = false := by
    simp [illFormedHead, hd, runeError]; omega
  simp [sanLoop, this, hd]

theorem escLoop_cons8 (tbl : Array UInt8) (html c : Bool) (b : UInt8) (r : Bytes) (h : tbl.getD b.toNat 0 = 56) :
    escLoop tbl html 0 c (b :: r) =
      if (utf8Decode (b :: r)).1 = 0x2028 then
        esc2028 ++ escLoop tbl html ((utf8Decode (b :: r)).2 - 1) false r
      else if (utf8Decode (b :: r)).1 = 0x2029 then
        esc2029 ++ escLoop tbl html ((utf8Decode (b :: r)).2 - 1) false r
      else if (utf8Decode (b :: r)).1 = runeError then
        escFFFD ++ escLoop tbl html ((utf8Decode (b :: r)).2 - 1) false r
      else b :: escLoop tbl html ((utf8Decode (b :: r)).2 - 1) true r := by
  simp only [escLoop, h, ↓reduceIte] <;> rfl

theorem esc_parse_aux (tbl : Array UInt8) (hs : TableSafe tbl) (html : Bool) (n : Nat) :
    ∀ (s : Bytes) (c : Bool) (rest : Bytes) (f : Nat), s.length ≤ n →
      (escLoop tbl html 0 c s).length < f →
      Spec.pChars f (escLoop tbl html 0 c s ++ 34 :: rest) = some (sanLoop 0 s, rest) := by
  induction n with
  | zero =>
    intro s c rest f hl hf
    have : s = [] := by cases s <;> simp_all
    subst this
    obtain ⟨f', rfl⟩ : ∃ f', f = f' + 1 := ⟨f - 1, by simp [escLoop] at hf; omega⟩
    simp [escLoop, sanLoop, pChars_quote]
  | succ n ih =>
    intro s c rest f hl hf
    cases s with
    | nil =>
      obtain ⟨f', rfl⟩ : ∃ f', f = f' + 1 := ⟨f - 1, by simp [escLoop] at hf; omega⟩
      simp [escLoop, sanLoop, pChars_quote]
    | cons b r =>
      have hr : r.length ≤ n := by simpa using hl
      have hsafe := hs b
      unfold cellSafe at hsafe
      by_cases k1 : tbl.getD b.toNat 0 = 111
      · simp only [k1, ↓reduceIte, Bool.and_eq_true, decide_eq_true_eq, bne_iff_ne, ne_eq] at hsafe
        obtain ⟨⟨⟨h1, h2⟩, h3⟩, h4⟩ := hsafe
        have e : escLoop tbl html 0 c (b :: r) = b :: escLoop tbl html 0 true r := by simp only [escLoop, k1, ↓reduceIte]
        rw [e] at hf ⊢
        obtain ⟨f', rfl⟩ : ∃ f', f = f' + 1 := ⟨f - 1, by simp at hf; omega⟩
        rw [List.cons_append, pChars_plain f' b _ h1 h2 h3, ih r true rest f' hr (by simpa using hf), san_ascii b r h4]
        rfl
      by_cases k2 : tbl.getD b.toNat 0 = 46
      · simp only [k2, ↓reduceIte, decide_eq_true_eq] at hsafe
        simp only [show ¬ ((46 : UInt8) = 111) by decide, ↓reduceIte, decide_eq_true_eq] at hsafe
        have e : escLoop tbl html 0 c (b :: r) = u00 b ++ escLoop tbl html 0 true r := by simp only [escLoop, k1, k2, ↓reduceIte] <;> rfl
        rw [e] at hf ⊢
        obtain ⟨f', rfl⟩ : ∃ f', f = f' + 1 := ⟨f - 1, by simp [u00] at hf; omega⟩
        rw [List.append_assoc, pChars_u00 f' b _ hsafe, ih r true rest f' hr (by simp [u00] at hf; omega), san_ascii b r hsafe]
        rfl
      by_cases k3 : tbl.getD b.toNat 0 = 104
      · simp only [k3, ↓reduceIte, show ¬ ((104 : UInt8) = 111) by decide, show ¬ ((104 : UInt8) = 46) by decide,
          Bool.and_eq_true, decide_eq_true_eq, bne_iff_ne, ne_eq] at hsafe
        obtain ⟨⟨⟨h1, h2⟩, h3⟩, h4⟩ := hsafe
        cases html with
        | true =>
          have e : escLoop tbl true 0 c (b :: r) = u00 b ++ escLoop tbl true 0 true r := by simp only [escLoop, k1, k2, k3, ↓reduceIte] <;> rfl
          rw [e] at hf ⊢
          obtain ⟨f', rfl⟩ : ∃ f', f = f' + 1 := ⟨f - 1, by simp [u00] at hf; omega⟩
          rw [List.append_assoc, pChars_u00 f' b _ h4, ih r true rest f' hr (by simp [u00] at hf; omega), san_ascii b r h4]
          rfl
        | false =>
          have e : escLoop tbl false 0 c (b :: r) = b :: escLoop tbl false 0 true r := by simp only [escLoop, k1, k2, k3, ↓reduceIte] <;> rfl
          rw [e] at hf ⊢
          obtain ⟨f', rfl⟩ : ∃ f', f = f' + 1 := ⟨f - 1, by simp at hf; omega⟩
          rw [List.cons_append, pChars_plain f' b _ h1 h2 h3, ih r true rest f' hr (by simpa using hf), san_ascii b r h4]
          rfl
      by_cases k4 : tbl.getD b.toNat 0 = 56
      · simp only [k4, ↓reduceIte, show ¬ ((56 : UInt8) = 111) by decide, show ¬ ((56 : UInt8) = 46) by decide,
          show ¬ ((56 : UInt8) = 104) by decide, decide_eq_true_eq] at hsafe
        rw [escLoop_cons8 tbl html c b r k4] at hf ⊢
        rcases decode_cases b r hsafe with hA | ⟨b1, r', m, rfl, hb1, hdm, hm⟩ |
          ⟨b1, b2, r', m, rfl, hb1, hb2, hdm, henc⟩ | ⟨b1, b2, b3, r', m, rfl, hb1, hb2, hb3, hdm, hm⟩
        · -- ill-formed: \ufffd for one byte
          have es : sanLoop 0 (b :: r) = fffd ++ sanLoop 0 r := by simp [sanLoop, illFormedHead, hA]
          simp only [hA, runeError, Nat.reduceEqDiff, ↓reduceIte, Nat.sub_self] at hf ⊢
          obtain ⟨f', rfl⟩ : ∃ f', f = f' + 1 := ⟨f - 1, by simp [escFFFD] at hf; omega⟩
          rw [List.append_assoc, pChars_fffd, ih r false rest f' hr (by simp [escFFFD] at hf; omega), es]
          rfl
        · -- two bytes: never special, copied
          have hr' : r'.length ≤ n := by simp at hr; omega
          have es : sanLoop 0 (b :: b1 :: r') = b :: b1 :: sanLoop 0 r' := by
            simp [sanLoop, illFormedHead, hdm]
          have n1 : ¬ m = 8232 := by omega
          have n2 : ¬ m = 8233 := by omega
          have n3 : ¬ m = runeError := by simp [runeError]; omega
          simp only [hdm, n1, n2, n3, ↓reduceIte, Nat.add_one_sub_one, escLoop] at hf ⊢
          obtain ⟨f', rfl⟩ : ∃ f', f = f' + 2 := ⟨f - 2, by simp at hf; omega⟩
          rw [List.cons_append, List.cons_append, pChars_high (f' + 1) b _ hsafe, pChars_high f' b1 _ hb1,
            ih r' true rest f' hr' (by simp at hf; omega), es]
          rfl
        · -- three bytes: U+2028, U+2029, U+FFFD are escaped, the rest is copied
          have hr' : r'.length ≤ n := by simp at hr; omega
          have es : sanLoop 0 (b :: b1 :: b2 :: r') = b :: b1 :: b2 :: sanLoop 0 r' := by
            simp [sanLoop, illFormedHead, hdm]
          by_cases n1 : m = 8232
          · subst n1
            have hbytes : [b, b1, b2] = [0xE2, 0x80, 0xA8] := by rw [← henc]; decide
            simp only [hdm, ↓reduceIte, escLoop, Nat.add_one_sub_one, Bool.false_eq_true] at hf ⊢
            obtain ⟨f', rfl⟩ : ∃ f', f = f' + 1 := ⟨f - 1, by simp [esc2028] at hf; omega⟩
            rw [List.append_assoc, pChars_2028, ih r' false rest f' hr' (by simp [esc2028] at hf; omega), es]
            simp only [List.cons.injEq] at hbytes
            obtain ⟨rfl, rfl, rfl, -⟩ := hbytes
            rfl
          by_cases n2 : m = 8233
          · subst n2
            have hbytes : [b, b1, b2] = [0xE2, 0x80, 0xA9] := by rw [← henc]; decide
            simp only [hdm, ↓reduceIte, escLoop, Nat.add_one_sub_one, Nat.reduceEqDiff, Bool.false_eq_true] at hf ⊢
            obtain ⟨f', rfl⟩ : ∃ f', f = f' + 1 := ⟨f - 1, by simp [esc2029] at hf; omega⟩
            rw [List.append_assoc, pChars_2029, ih r' false rest f' hr' (by simp [esc2029] at hf; omega), es]
            simp only [List.cons.injEq] at hbytes
            obtain ⟨rfl, rfl, rfl, -⟩ := hbytes
            rfl
          by_cases n3 : m = runeError
          · subst n3
            have hbytes : [b, b1, b2] = fffd := by rw [← henc]; decide
            simp only [hdm, ↓reduceIte, escLoop, Nat.add_one_sub_one, runeError, Nat.reduceEqDiff, Bool.false_eq_true] at hf ⊢
            obtain ⟨f', rfl⟩ : ∃ f', f = f' + 1 := ⟨f - 1, by simp [escFFFD] at hf; omega⟩
            rw [List.append_assoc, pChars_fffd, ih r' false rest f' hr' (by simp [escFFFD] at hf; omega), es]
            simp only [fffd, List.cons.injEq] at hbytes
            obtain ⟨rfl, rfl, rfl, -⟩ := hbytes
            rfl
          · simp only [hdm, n1, n2, n3, ↓reduceIte, Nat.add_one_sub_one, escLoop] at hf ⊢
            obtain ⟨f', rfl⟩ : ∃ f', f = f' + 3 := ⟨f - 3, by simp at hf; omega⟩
            rw [List.cons_append, List.cons_append, List.cons_append, pChars_high (f' + 2) b _ hsafe,
              pChars_high (f' + 1) b1 _ hb1, pChars_high f' b2 _ hb2,
              ih r' true rest f' hr' (by simp at hf; omega), es]
            rfl
        · -- four bytes: copied
          have hr' : r'.length ≤ n := by simp at hr; omega
          have es : sanLoop 0 (b :: b1 :: b2 :: b3 :: r') = b :: b1 :: b2 :: b3 :: sanLoop 0 r' := by
            simp [sanLoop, illFormedHead, hdm]
          have n1 : ¬ m = 8232 := by omega
          have n2 : ¬ m = 8233 := by omega
          have n3 : ¬ m = runeError := by simp [runeError]; omega
          simp only [hdm, n1, n2, n3, ↓reduceIte, Nat.add_one_sub_one, escLoop] at hf ⊢
          obtain ⟨f', rfl⟩ : ∃ f', f = f' + 4 := ⟨f - 4, by simp at hf; omega⟩
          rw [List.cons_append, List.cons_append, List.cons_append, List.cons_append,
            pChars_high (f' + 3) b _ hsafe, pChars_high (f' + 2) b1 _ hb1, pChars_high (f' + 1) b2 _ hb2,
            pChars_high f' b3 _ hb3, ih r' true rest f' hr' (by simp at hf; omega), es]
          rfl
      · simp only [k1, k2, k3, k4, ↓reduceIte, beq_iff_eq] at hsafe
        have hlt : b < 128 := escByte_lt _ _ hsafe
        have e : escLoop tbl html 0 c (b :: r) = 92 :: tbl.getD b.toNat 0 :: escLoop tbl html 0 true r := by
          simp only [escLoop, k1, k2, k3, k4, ↓reduceIte, List.cons_append, List.nil_append]
        rw [e] at hf ⊢
        obtain ⟨f', rfl⟩ : ∃ f', f = f' + 1 := ⟨f - 1, by simp at hf; omega⟩
        rw [List.cons_append, List.cons_append, pChars_esc2 f' _ b _ hsafe, ih r true rest f' hr (by simp at hf; omega), san_ascii b r hlt]
        rfl

/-- the escaped body of a string, followed by the closing quote, reads back as the sanitised string -/
theorem esc_parse (tbl : Array UInt8) (hs : TableSafe tbl) (html c : Bool) (s rest : Bytes) (f : Nat)
    (hf : (escLoop tbl html 0 c s).length < f) :
    Spec.pChars f (escLoop tbl html 0 c s ++ 34 :: rest) = some (sanitize s, rest) :=
  esc_parse_aux tbl hs html s.length s c rest f (Nat.le_refl _) hf

end OjgVerif.Writer
