import OjgVerif.Json.Spec
import OjgVerif.Writer.Utf8
/-! # Specification side of C04: what a JSON writer has to produce (repo-independent)

The judge of "valid JSON whose parse equals the input tree" is `OjgVerif.Json.Spec` (RFC 8259).
This file says which tree the text has to denote: `norm`.

*Formalisation choices.*
* A Go map has no order; the run-time picks one each time the map is ranged over. That choice is the
  parameter `ord` (any function that returns a permutation of the members). With `Sort` the
  members are the ascending rearrangement (byte-wise, as `sort.Strings`) of the *input* keys.
* `OmitNil` drops the members whose input value is nil, `OmitEmpty` those whose input value is an
  empty string, slice or map (options.go: "maps with all empty members will not be skipped on
  writing"). Zero numbers and `false` are kept (the "zero values" of the comment are struct fields,
  which are not part of this property). Array elements are never dropped.
* Numbers are compared by value: an integer denotes its decimal literal, a float the literal the
  harness supplies (`strconv.AppendFloat(…, 'g', -1, 64)`), which must be an RFC 8259 number.
* Two distinct keys of one object that become equal once invalid bytes are U+FFFD collide in the
  text; "the parse equals the input tree" has no meaning there, so `okW` asks for the sanitised
  keys of an object to be pairwise distinct. -/
namespace OjgVerif.Writer
open OjgVerif

/-- the formatting options the property ranges over (`ojg.Options`) -/
structure Opts where
  indent : Nat := 0
  tab : Bool := false
  sort : Bool := false
  omitNil : Bool := false
  omitEmpty : Bool := false
  htmlUnsafe : Bool := false
  deriving Inhabited

abbrev Kvs := List (Bytes × JV)

/-- the members OmitNil / OmitEmpty say to drop -/
def omits (o : Opts) : JV → Bool
  | .null => o.omitNil
  | .str s => o.omitEmpty && s.isEmpty
  | .arr xs => o.omitEmpty && xs.isEmpty
  | .obj kvs => o.omitEmpty && kvs.isEmpty
  | _ => false

/-- ordered insertion by key (byte-wise) -/
def insertKv (k : Bytes) (v : JV) : Kvs → Kvs
  | [] => [(k, v)]
  | (k', v') :: r => if bytesLt k k' then (k, v) :: (k', v') :: r else (k', v') :: insertKv k v r

/-- `sort.Strings` on the keys -/
def sortKvs : Kvs → Kvs
  | [] => []
  | (k, v) :: r => insertKv k v (sortKvs r)

/-- the order in which the members of a map are visited -/
def order (sort : Bool) (ord : Kvs → Kvs) (kvs : Kvs) : Kvs :=
  if sort then sortKvs (ord kvs) else ord kvs

mutual
  def depth : JV → Nat
    | .arr xs => depthList xs + 1
    | .obj kvs => depthKvs kvs + 1
    | _ => 0
  def depthList : List JV → Nat
    | [] => 0
    | x :: r => max (depth x) (depthList r)
  def depthKvs : Kvs → Nat
    | [] => 0
    | (_, x) :: r => max (depth x) (depthKvs r)
end

/-- decimal digits of a natural number, most significant first -/
def fmtNatAux : Nat → Nat → Bytes → Bytes
  | 0, _, acc => acc
  | fuel+1, n, acc =>
    if n < 10 then UInt8.ofNat (48 + n) :: acc
    else fmtNatAux fuel (n / 10) (UInt8.ofNat (48 + n % 10) :: acc)

def fmtNat (n : Nat) : Bytes := fmtNatAux (n + 1) n []

/-- the decimal literal of an integer (`strconv.AppendInt(…, 10)`) -/
def fmtInt (i : Int) : Bytes :=
  if i < 0 then 45 :: fmtNat i.natAbs else fmtNat i.natAbs

/-- value of a run of decimal digits -/
def digitsVal : Bytes → Nat → Nat
  | [], acc => acc
  | b :: r, acc => digitsVal r (acc * 10 + (b.toNat - 48))

/-- value of a plain integer literal `-? digits` -/
def intVal : Bytes → Int
  | [] => 0
  | b :: r => if b = 45 then - (digitsVal r 0 : Nat) else (digitsVal (b :: r) 0 : Nat)

/-- the text is exactly one RFC 8259 number literal -/
def isNumLit (t : Bytes) : Prop := Json.Spec.pNumber t = some (t, [])

instance (t : Bytes) : Decidable (isNumLit t) := by unfold isNumLit; exact inferInstance

/-- members kept, in writing order: `(key as read back, value)`; `drop` says which values are left out -/
def normMembers (drop : JV → Bool) (nv : JV → JV) : Kvs → Kvs
  | [] => []
  | (k, v) :: r => if drop v then normMembers drop nv r else (sanitize k, nv v) :: normMembers drop nv r

/-- the tree a text has to denote when object members whose value satisfies `drop` are left out and
the members are visited in the order `order srt ord` (fuel = nesting depth + 1) -/
def normG (drop : JV → Bool) (srt : Bool) (ord : Kvs → Kvs) : Nat → JV → JV
  | 0, v => v
  | f+1, v =>
    match v with
    | .null => .null
    | .bool b => .bool b
    | .int i => .num (fmtInt i)
    | .flt t => .num t
    | .big t => .num t
    | .num t => .num t
    | .str s => .str (sanitize s)
    | .arr xs => .arr (xs.map (normG drop srt ord f))
    | .obj kvs => .obj (normMembers drop (normG drop srt ord f) (order srt ord kvs))

/-- the tree the text of an `oj` writer has to denote -/
def normF (o : Opts) (ord : Kvs → Kvs) (f : Nat) (v : JV) : JV := normG (omits o) o.sort ord f v

def norm (o : Opts) (ord : Kvs → Kvs) (v : JV) : JV := normF o ord (depth v + 1) v

/-- a legitimate map iteration: the members, each once, in some order -/
def IsOrder (ord : Kvs → Kvs) : Prop := ∀ l, (ord l).Perm l

mutual
  /-- the keys of every object are pairwise distinct (true of every Go map) -/
  def distinctKeys : JV → Prop
    | .arr xs => distinctKeysList xs
    | .obj kvs => (kvs.map fun kv => kv.1).Nodup ∧ distinctKeysKvs kvs
    | _ => True
  def distinctKeysList : List JV → Prop
    | [] => True
    | x :: r => distinctKeys x ∧ distinctKeysList r
  def distinctKeysKvs : Kvs → Prop
    | [] => True
    | (_, x) :: r => distinctKeys x ∧ distinctKeysKvs r
end

mutual
  /-- trees the property speaks about: simple/gen values (no big-number text), float text that is
  a number literal, keys of one object distinct after sanitising -/
  def okW : JV → Prop
    | .null => True
    | .bool _ => True
    | .int _ => True
    | .flt t => isNumLit t
    | .big _ => False
    | .num _ => False
    | .str _ => True
    | .arr xs => okList xs
    | .obj kvs => (kvs.map fun kv => sanitize kv.1).Nodup ∧ okKvs kvs
  def okList : List JV → Prop
    | [] => True
    | x :: r => okW x ∧ okList r
  def okKvs : Kvs → Prop
    | [] => True
    | (_, x) :: r => okW x ∧ okKvs r
end

/-! ### `pretty`: trees without alignment tables -/

def isArr : JV → Bool | .arr _ => true | _ => false
def isObj : JV → Bool | .obj _ => true | _ => false

mutual
  /-- no array of the tree is a table for `pretty`'s alignment: none has two or more members that are
  all arrays or all objects -/
  def noTable : JV → Prop
    | .arr xs => (xs.length < 2 ∨ ¬ (xs.all isArr = true ∨ xs.all isObj = true)) ∧ noTableList xs
    | .obj kvs => noTableKvs kvs
    | _ => True
  def noTableList : List JV → Prop
    | [] => True
    | x :: r => noTable x ∧ noTableList r
  def noTableKvs : Kvs → Prop
    | [] => True
    | (_, x) :: r => noTable x ∧ noTableKvs r
end

mutual
  /-- no object anywhere inside -/
  def arrOnly : JV → Prop
    | .arr xs => arrOnlyL xs
    | .obj _ => False
    | _ => True
  def arrOnlyL : List JV → Prop
    | [] => True
    | x :: r => arrOnly x ∧ arrOnlyL r
end

mutual
  /-- every alignment table of the tree is a table of ARRAYS without objects inside: an array with two
  or more members has not only objects as members, and if it has only arrays they contain no object
  at any depth -/
  def tablesArr : JV → Prop
    | .arr xs => (2 ≤ xs.length → xs.all isObj = false ∧ (xs.all isArr = true → arrOnlyL xs)) ∧ tablesArrL xs
    | .obj kvs => tablesArrK kvs
    | _ => True
  def tablesArrL : List JV → Prop
    | [] => True
    | x :: r => tablesArr x ∧ tablesArrL r
  def tablesArrK : Kvs → Prop
    | [] => True
    | (_, x) :: r => tablesArr x ∧ tablesArrK r
end

/-! ### `pretty`: tables of flat objects -/

/-- neither array nor object -/
def isScalar (v : JV) : Bool := !isArr v && !isObj v

/-- an object all of whose members are scalars -/
def flatObj : JV → Bool
  | .obj kvs => kvs.all fun kv => isScalar kv.2
  | _ => false

/-- the keys a row shows in an aligned table: the encoded keys of the members that are written -/
def rowKeys (drop : JV → Bool) (enc : Bytes → Bytes) : JV → List Bytes
  | .obj kvs => (kvs.filter fun kv => !drop kv.2).map fun kv => enc kv.1
  | _ => []

/-- no row of a table of objects lacks its last column: every row shows no key at all, or shows the
greatest (byte-wise, encoded) key shown by any row -/
def rowsComplete (drop : JV → Bool) (enc : Bytes → Bytes) (xs : List JV) : Prop :=
  ∀ x ∈ xs, rowKeys drop enc x = [] ∨
    ∃ k ∈ rowKeys drop enc x, ∀ y ∈ xs, ∀ k' ∈ rowKeys drop enc y, bytesLt k k' = false

/-- the encoded keys of the members written are ordered like the keys themselves -/
def keysEncOrdered (drop : JV → Bool) (enc : Bytes → Bytes) : JV → Prop
  | .obj kvs => ∀ a ∈ kvs, ∀ b ∈ kvs, drop a.2 = false → drop b.2 = false → bytesLt a.1 b.1 = true →
      bytesLt (enc a.1) (enc b.1) = true
  | _ => True

mutual
  /-- every alignment table of the tree is a table of arrays without objects inside, or a table of
  flat objects with complete rows and keys ordered like their encodings -/
  def tablesAO (drop : JV → Bool) (enc : Bytes → Bytes) : JV → Prop
    | .arr xs =>
      (2 ≤ xs.length → (xs.all isArr = true → arrOnlyL xs) ∧
        (xs.all isObj = true → (∀ x ∈ xs, flatObj x = true ∧ keysEncOrdered drop enc x) ∧ rowsComplete drop enc xs)) ∧
      tablesAOL drop enc xs
    | .obj kvs => tablesAOK drop enc kvs
    | _ => True
  def tablesAOL (drop : JV → Bool) (enc : Bytes → Bytes) : List JV → Prop
    | [] => True
    | x :: r => tablesAO drop enc x ∧ tablesAOL drop enc r
  def tablesAOK (drop : JV → Bool) (enc : Bytes → Bytes) : Kvs → Prop
    | [] => True
    | (_, x) :: r => tablesAO drop enc x ∧ tablesAOK drop enc r
end

end OjgVerif.Writer
