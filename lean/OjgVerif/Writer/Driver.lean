import OjgVerif.Common.Driver
import OjgVerif.Writer.Pretty
/-! Driver ops of the JSON writer family (C04).

Trees travel in the canonical text of `JV.render`, but with the members of an object in the order
given (it is the order the model iterates in): `n t f I(<dec>[:<go type>]) F(<hex text>) S(<hex>) [v,…] {K(<hex>)v,…}`. -/
namespace OjgVerif.Writer
open OjgVerif

/-! ### reading a tree -/

def takeParen : List Char → List Char → Option (List Char × List Char)
  | [], _ => none
  | c :: r, acc => if c = ')' then some (acc.reverse, r) else takeParen r (c :: acc)

/-- `<dec>` or `<dec>:<go type>` (the type only tells the harness which Go type to build: the model
writes an integer leaf by its value) -/
def decOfChars (cs0 : List Char) : Option Int :=
  let cs := cs0.takeWhile (· ≠ ':')
  match cs with
  | '-' :: r => (String.ofList r).toNat?.map fun n => - (n : Int)
  | _ => (String.ofList cs).toNat?.map fun n => (n : Int)

def readElems (rv : List Char → Option (JV × List Char)) : Nat → List Char → List JV → Option (JV × List Char)
  | 0, _, _ => none
  | k+1, cs, acc =>
    match rv cs with
    | none => none
    | some (v, rest) =>
      match rest with
      | ',' :: r => readElems rv k r (v :: acc)
      | ']' :: r => some (.arr (v :: acc).reverse, r)
      | _ => none

def readMembers (rv : List Char → Option (JV × List Char)) : Nat → List Char → Kvs → Option (JV × List Char)
  | 0, _, _ => none
  | k+1, cs, acc =>
    match cs with
    | 'K' :: '(' :: r =>
      match takeParen r [] with
      | none => none
      | some (hx, r1) =>
        match ofHex (String.ofList hx), rv r1 with
        | some key, some (v, rest) =>
          match rest with
          | ',' :: r2 => readMembers rv k r2 ((key, v) :: acc)
          | '}' :: r2 => some (.obj ((key, v) :: acc).reverse, r2)
          | _ => none
        | _, _ => none
    | _ => none

def readTree : Nat → List Char → Option (JV × List Char)
  | 0, _ => none
  | f+1, cs =>
    match cs with
    | 'n' :: r => some (.null, r)
    | 't' :: r => some (.bool true, r)
    | 'f' :: r => some (.bool false, r)
    | 'I' :: '(' :: r =>
      match takeParen r [] with
      | some (d, r1) => (decOfChars d).map fun i => (.int i, r1)
      | none => none
    | 'F' :: '(' :: r =>
      match takeParen r [] with
      | some (h, r1) => (ofHex (String.ofList h)).map fun t => (.flt t, r1)
      | none => none
    | 'S' :: '(' :: r =>
      match takeParen r [] with
      | some (h, r1) => (ofHex (String.ofList h)).map fun t => (.str t, r1)
      | none => none
    | '[' :: ']' :: r => some (.arr [], r)
    | '[' :: r => readElems (readTree f) (r.length + 1) r []
    | '{' :: '}' :: r => some (.obj [], r)
    | '{' :: r => readMembers (readTree f) (r.length + 1) r []
    | _ => none

def parseTree (s : String) : Option JV :=
  match readTree (s.length + 1) s.toList with
  | some (v, []) => some v
  | _ => none

/-! ### options -/

def flagsOK (s : String) (allowed : List Char) : Bool := s.toList.all fun c => c = '-' || allowed.contains c

/-- `<indent>:<flags>` with flags among `t` Tab, `s` Sort, `n` OmitNil, `e` OmitEmpty, `u` HTMLUnsafe -/
def parseOpts (s : String) : Option Opts :=
  match s.splitOn ":" with
  | [i, fl] =>
    match i.toNat? with
    | some n =>
      if flagsOK fl ['t', 's', 'n', 'e', 'u'] then
        some { indent := n, tab := fl.contains 't', sort := fl.contains 's', omitNil := fl.contains 'n',
               omitEmpty := fl.contains 'e', htmlUnsafe := fl.contains 'u' }
      else none
    | none => none
  | _ => none

/-- `<width>:<maxDepth>:<flags>` with flags among `a` Align, `n`, `e`, `u` -/
def parsePOpts (s : String) : Option Pretty.POpts :=
  match s.splitOn ":" with
  | [w, d, fl] =>
    match w.toNat?, d.toNat? with
    | some wn, some dn =>
      if flagsOK fl ['a', 'n', 'e', 'u'] then
        some { width := wn, maxDepth := dn, align := fl.contains 'a', omitNil := fl.contains 'n',
               omitEmpty := fl.contains 'e', htmlUnsafe := fl.contains 'u' }
      else none
    | _, _ => none
  | _ => none

def parseLimits (s : String) : Option (List Nat) :=
  if s = "-" then some [] else (s.splitOn ",").mapM fun t => t.toNat?

def chunksText (cs : List Bytes) : String :=
  if cs.isEmpty then "-" else String.intercalate "," (cs.map toHexF)

def specText (bs : Bytes) : String :=
  match Json.Spec.parseDoc bs with
  | .none => "none"
  | .one v => "one " ++ v.render
  | .bad => "bad"

/-- ops:
* `spec <hex>`: RFC 8259 reading of a text
* `str <0|1> <hex>`: `AppendJSONString` (1 = htmlSafe) and what the specification reads back from it
* `decode <hex>`: `utf8.DecodeRuneInString`
* `sanitize <hex>`
* `oj <opts> <limits> <tree>`: text of `oj.JSON`, then the chunk list of `oj.Write` for every limit
* `pretty <popts> <limits> <tree>`: the same for `pretty.JSON` / `pretty.WriteJSON`
* `norm <opts> <tree>`: the tree the text has to denote
* `normp <popts> <tree>`: the tree the text of `pretty` has to denote (`norm` under the options with the same meaning) -/
def handle : List String → String
  | ["spec", hx] =>
    match ofHex hx with
    | some bs => specText bs
    | none => "bad-op"
  | ["str", h, hx] =>
    match ofHex hx with
    | some bs =>
      if h ≠ "0" && h ≠ "1" then "bad-op"
      else toHexF (jsonString bs (h = "1")) ++ " " ++ specText (jsonString bs (h = "1"))
    | none => "bad-op"
  | ["decode", hx] =>
    match ofHex hx with
    | some bs => toString (utf8Decode bs).1 ++ " " ++ toString (utf8Decode bs).2
    | none => "bad-op"
  | ["sanitize", hx] =>
    match ofHex hx with
    | some bs => toHexF (sanitize bs)
    | none => "bad-op"
  | ["oj", os, ls, tr] =>
    match parseOpts os, parseLimits ls, parseTree tr with
    | some o, some lims, some v =>
      String.intercalate " " (toHexF (ojWrite o id v) :: lims.map fun l => chunksText (ojWriteTo o id l v))
    | _, _, _ => "bad-op"
  | ["pretty", os, ls, tr] =>
    match parsePOpts os, parseLimits ls, parseTree tr with
    | some o, some lims, some v =>
      String.intercalate " "
        (toHexF (Pretty.prettyWrite o id v) :: lims.map fun l => chunksText (Pretty.prettyWriteTo o id l v))
    | _, _, _ => "bad-op"
  | ["norm", os, tr] =>
    match parseOpts os, parseTree tr with
    | some o, some v => (norm o id v).render
    | _, _ => "bad-op"
  | ["normp", os, tr] =>
    match parsePOpts os, parseTree tr with
    | some o, some v => (norm (Pretty.ojOptsOf o) id v).render
    | _, _ => "bad-op"
  | _ => "bad-op"

end OjgVerif.Writer
