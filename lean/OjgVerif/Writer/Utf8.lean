import OjgVerif.Common.Bytes
/-! # UTF-8 decoding and the U+FFFD sanitiser (repo-independent)

`utf8Decode` is the well-formedness table of the Unicode standard (Table 3-7) read the way
`utf8.DecodeRuneInString` of the Go standard library reads it: the head of the input is either a
well-formed sequence of 1–4 bytes (result: code point and width) or it is not, and then exactly ONE
byte is reported as U+FFFD with width 1. The Go function is not part of the repository; the
correspondence run compares this function with it on every 1–3 byte string and on structured 4-byte
strings (driver op `decode`).

*Formalisation choice* (property C04/C10, "invalid UTF-8 bytes replaced by U+FFFD"): every byte that
does not start a well-formed sequence is replaced by one U+FFFD on its own (Go's convention, which
the code implements consistently), not one U+FFFD per maximal ill-formed subsequence. -/
namespace OjgVerif.Writer
open OjgVerif

/-- continuation byte `10xxxxxx` -/
def isCont (b : UInt8) : Bool := 0x80 ≤ b && b ≤ 0xBF

/-- lower bound of the second byte of a 3-byte sequence -/
def lo3 (b0 : UInt8) : UInt8 := if b0 = 0xE0 then 0xA0 else 0x80
/-- upper bound of the second byte of a 3-byte sequence (no surrogates) -/
def hi3 (b0 : UInt8) : UInt8 := if b0 = 0xED then 0x9F else 0xBF
/-- lower bound of the second byte of a 4-byte sequence -/
def lo4 (b0 : UInt8) : UInt8 := if b0 = 0xF0 then 0x90 else 0x80
/-- upper bound of the second byte of a 4-byte sequence (≤ U+10FFFF) -/
def hi4 (b0 : UInt8) : UInt8 := if b0 = 0xF4 then 0x8F else 0xBF

/-- the replacement character and its encoding -/
def runeError : Nat := 0xFFFD
def fffd : Bytes := [0xEF, 0xBF, 0xBD]

/-- `(rune, width)` of the sequence at the head; `(U+FFFD, 0)` for the empty input and
`(U+FFFD, 1)` for an ill-formed head -/
def utf8Decode : Bytes → Nat × Nat
  | [] => (runeError, 0)
  | b0 :: r =>
    if b0 < 0x80 then (b0.toNat, 1)
    else if b0 < 0xC2 then (runeError, 1)
    else if b0 < 0xE0 then
      match r with
      | b1 :: _ =>
        if isCont b1 then ((b0.toNat - 0xC0) * 64 + (b1.toNat - 0x80), 2) else (runeError, 1)
      | [] => (runeError, 1)
    else if b0 < 0xF0 then
      match r with
      | b1 :: b2 :: _ =>
        if lo3 b0 ≤ b1 && b1 ≤ hi3 b0 && isCont b2 then
          ((b0.toNat - 0xE0) * 4096 + (b1.toNat - 0x80) * 64 + (b2.toNat - 0x80), 3)
        else (runeError, 1)
      | _ => (runeError, 1)
    else if b0 < 0xF5 then
      match r with
      | b1 :: b2 :: b3 :: _ =>
        if lo4 b0 ≤ b1 && b1 ≤ hi4 b0 && isCont b2 && isCont b3 then
          ((b0.toNat - 0xF0) * 262144 + (b1.toNat - 0x80) * 4096 + (b2.toNat - 0x80) * 64 + (b3.toNat - 0x80), 4)
        else (runeError, 1)
      | _ => (runeError, 1)
    else (runeError, 1)

/-- the head of the input is not the start of a well-formed sequence -/
def illFormedHead (bs : Bytes) : Bool :=
  (utf8Decode bs).1 = runeError && (utf8Decode bs).2 = 1

/-- copy well-formed sequences, replace every other byte by U+FFFD. The counter is the number of
bytes still to copy of the sequence just recognised. -/
def sanLoop : Nat → Bytes → Bytes
  | _, [] => []
  | k+1, b :: r => b :: sanLoop k r
  | 0, b :: r =>
    if illFormedHead (b :: r) then fffd ++ sanLoop 0 r
    else b :: sanLoop ((utf8Decode (b :: r)).2 - 1) r

/-- what a reader gets back for a string written with invalid UTF-8 in it -/
def sanitize (bs : Bytes) : Bytes := sanLoop 0 bs

end OjgVerif.Writer
