import OjgVerif.Writer.Pretty
import OjgVerif.Writer.LemmasParse
/-! Lemmas about the `pretty` model WITHOUT alignment: `fill` appends a text that is a function of
the tree (`ptext`: the same tokens as the `oj` writers, other white space), and the RFC 8259 reader
gives back the tree minus the members OmitNil / OmitEmpty name. -/
set_option linter.unusedSimpArgs false
set_option linter.unusedVariables false
namespace OjgVerif.Writer.Pretty
open OjgVerif OjgVerif.Json OjgVerif.Writer

/-! ### the state -/

def PSt.flat (s : PSt) : Bytes := s.st.flat

theorem push_ok (s : PSt) (bs : Bytes) (h : s.bad = false) :
    (s.push bs).bad = false ∧ (s.push bs).flat = s.flat ++ bs := by
  simp [PSt.push, h, PSt.flat]

theorem push1_ok (s : PSt) (b : UInt8) (h : s.bad = false) :
    (s.push1 b).bad = false ∧ (s.push1 b).flat = s.flat ++ [b] := by
  simp [PSt.push1, h, PSt.flat]

theorem flush_ok (lim : Option Nat) (s : PSt) (h : s.bad = false) :
    (s.flush lim).bad = false ∧ (s.flush lim).flat = s.flat := by
  simp [PSt.flush, h, PSt.flat]

theorem pad_zero (s : PSt) : s.pad 0 = s := rfl

/-! ### what `build` produces -/

/-- the members `buildMapNode` keeps, with their encoded keys -/
theorem buildMembers_fst (o : POpts) (bv : JV → PNode) : ∀ (kvs : Kvs) (acc : List (Bytes × PNode)) (sz dp : Nat),
    (buildMembers o bv kvs acc sz dp).1 =
      acc.reverse ++ (kvs.filter fun kv => !(bv kv.2).skip).map fun kv => (jsonString kv.1 (!o.htmlUnsafe), bv kv.2) := by
  intro kvs
  induction kvs with
  | nil => intro acc sz dp; simp [buildMembers]
  | cons kv r ih =>
    intro acc sz dp
    obtain ⟨k, v⟩ := kv
    simp only [buildMembers]
    by_cases h : (bv v).skip = true
    · simp [h, ih]
    · simp [h, ih]

/-! ### the text as a function of the tree -/

/-- `cs`, `is`, `flat` for the members of the node built from `v` -/
def lay (w : PW) (ord : Kvs → Kvs) (f : Nat) (v : JV) (depth : Nat) (flat : Bool) : Bytes × Bytes × Bool :=
  layoutOf w depth (flat || (depth * w.indent + (build w.o ord f v).size < w.width &&
    (build w.o ord f v).depth < w.o.maxDepth))

/-- the members `pretty` writes -/
def keptP (w : PW) (ord : Kvs → Kvs) (f : Nat) (kvs : Kvs) : Kvs :=
  (sortKvs (ord kvs)).filter fun kv => !(build w.o ord f kv.2).skip

/-- the text `fill` produces when nothing is aligned -/
def ptext (w : PW) (ord : Kvs → Kvs) : Nat → JV → Nat → Bool → Bytes
  | 0, _, _, _ => []
  | f+1, v, d, flat =>
    match v with
    | .null => Gen.Pretty.nullStr.toList
    | .bool b => if b then Gen.Pretty.trueStr.toList else Gen.Pretty.falseStr.toList
    | .int i => fmtInt i
    | .flt t => t
    | .big _ => []
    | .num _ => []
    | .str x => jsonString x (!w.o.htmlUnsafe)
    | .arr xs =>
      match xs with
      | [] => 91 :: ((lay w ord (f + 1) (.arr []) d flat).2.1 ++ [93])
      | x :: r =>
        91 :: ((if (lay w ord (f + 1) (.arr (x :: r)) d flat).2.2 then [] else (lay w ord (f + 1) (.arr (x :: r)) d flat).1)
          ++ ptext w ord f x (d + 1) (lay w ord (f + 1) (.arr (x :: r)) d flat).2.2
          ++ tElems (fun y => ptext w ord f y (d + 1) (lay w ord (f + 1) (.arr (x :: r)) d flat).2.2)
              (lay w ord (f + 1) (.arr (x :: r)) d flat).1 r
          ++ (lay w ord (f + 1) (.arr (x :: r)) d flat).2.1 ++ [93])
    | .obj kvs =>
      match keptP w ord f kvs with
      | [] => 123 :: ((lay w ord (f + 1) (.obj kvs) d flat).2.1 ++ [125])
      | (k, x) :: r =>
        123 :: ((if (lay w ord (f + 1) (.obj kvs) d flat).2.2 then [] else (lay w ord (f + 1) (.obj kvs) d flat).1)
          ++ jsonString k (!w.o.htmlUnsafe) ++ [58, 32]
          ++ ptext w ord f x (d + 1) (lay w ord (f + 1) (.obj kvs) d flat).2.2
          ++ tMembers (!w.o.htmlUnsafe) (fun y => ptext w ord f y (d + 1) (lay w ord (f + 1) (.obj kvs) d flat).2.2)
              (lay w ord (f + 1) (.obj kvs) d flat).1 [58, 32] r
          ++ (lay w ord (f + 1) (.obj kvs) d flat).2.1 ++ [125])

/-! ### the loops of `fill` -/

theorem fillElems_spec (fv : PNode → Nat → Bool → PSt → PSt) (bv : JV → PNode) (tv : JV → Bytes)
    (cs : Bytes) (flat : Bool) (d2 : Nat)
    (hfv : ∀ y s, s.bad = false → (fv (bv y) d2 flat s).bad = false ∧ (fv (bv y) d2 flat s).flat = s.flat ++ tv y) :
    ∀ (r : List JV) (x : JV) (i : Nat) (s : PSt), s.bad = false →
      (fillElems fv cs flat d2 ((x :: r).map bv) i s).bad = false ∧
      (fillElems fv cs flat d2 ((x :: r).map bv) i s).flat =
        s.flat ++ (if 0 < i then 44 :: cs else if flat then [] else cs) ++ tv x ++ tElems tv cs r := by
  intro r
  induction r with
  | nil =>
    intro x i s hs
    simp only [List.map_cons, List.map_nil, fillElems, tElems, List.append_nil]
    by_cases hi : 0 < i
    · have h1 := push1_ok s 44 hs
      have h2 := push_ok (s.push1 44) cs h1.1
      have h3 := hfv x _ h2.1
      simp only [hi, ↓reduceIte]
      exact ⟨h3.1, by rw [h3.2, h2.2, h1.2]; simp⟩
    · cases flat with
      | true =>
        have h3 := hfv x s hs
        simp only [hi, ↓reduceIte, Bool.not_true, Bool.false_eq_true]
        exact ⟨h3.1, by rw [h3.2]; simp⟩
      | false =>
        have h2 := push_ok s cs hs
        have h3 := hfv x _ h2.1
        simp only [hi, ↓reduceIte, Bool.not_false]
        exact ⟨h3.1, by rw [h3.2, h2.2]; simp⟩
  | cons y r ih =>
    intro x i s hs
    -- state after the first element
    have hfirst : ∃ s1 : PSt, fillElems fv cs flat d2 ((x :: y :: r).map bv) i s =
        fillElems fv cs flat d2 ((y :: r).map bv) (i + 1) s1 ∧ s1.bad = false ∧
        s1.flat = s.flat ++ (if 0 < i then 44 :: cs else if flat then [] else cs) ++ tv x := by
      simp only [List.map_cons, fillElems]
      by_cases hi : 0 < i
      · have h1 := push1_ok s 44 hs
        have h2 := push_ok (s.push1 44) cs h1.1
        have h3 := hfv x _ h2.1
        simp only [hi, ↓reduceIte]
        exact ⟨_, rfl, h3.1, by rw [h3.2, h2.2, h1.2]; simp⟩
      · cases flat with
        | true =>
          have h3 := hfv x s hs
          simp only [hi, ↓reduceIte, Bool.not_true, Bool.false_eq_true]
          exact ⟨_, rfl, h3.1, by rw [h3.2]; simp⟩
        | false =>
          have h2 := push_ok s cs hs
          have h3 := hfv x _ h2.1
          simp only [hi, ↓reduceIte, Bool.not_false]
          exact ⟨_, rfl, h3.1, by rw [h3.2, h2.2]; simp⟩
    obtain ⟨s1, he, hb1, hf1⟩ := hfirst
    have := ih y (i + 1) s1 hb1
    rw [he]
    refine ⟨this.1, ?_⟩
    rw [this.2, hf1]
    simp [tElems]

theorem fillMembers_spec (fv : PNode → Nat → Bool → PSt → PSt) (bv : JV → PNode) (tv : JV → Bytes) (html : Bool)
    (cs : Bytes) (flat : Bool) (d2 : Nat)
    (hfv : ∀ y s, s.bad = false → (fv (bv y) d2 flat s).bad = false ∧ (fv (bv y) d2 flat s).flat = s.flat ++ tv y) :
    ∀ (r : Kvs) (kx : Bytes × JV) (i : Nat) (s : PSt), s.bad = false →
      (fillMembers fv cs flat d2 1 ((kx :: r).map fun kv => (jsonString kv.1 html, bv kv.2)) i s).bad = false ∧
      (fillMembers fv cs flat d2 1 ((kx :: r).map fun kv => (jsonString kv.1 html, bv kv.2)) i s).flat =
        s.flat ++ (if 0 < i then 44 :: cs else if flat then [] else cs) ++ jsonString kx.1 html ++ [58, 32] ++
          tv kx.2 ++ tMembers html tv cs [58, 32] r := by
  have hpad : ∀ (k : Bytes) (s : PSt), s.pad (1 - (jsonString k html).length) = s := by
    intro k s
    have : 1 - (jsonString k html).length = 0 := by have := jsonString_length k html; omega
    rw [this]; rfl
  -- one member
  have hone : ∀ (kx : Bytes × JV) (i : Nat) (s : PSt), s.bad = false →
      ∃ s1 : PSt, (∀ rest, fillMembers fv cs flat d2 1 ((jsonString kx.1 html, bv kx.2) :: rest) i s =
          fillMembers fv cs flat d2 1 rest (i + 1) s1) ∧ s1.bad = false ∧
        s1.flat = s.flat ++ (if 0 < i then 44 :: cs else if flat then [] else cs) ++ jsonString kx.1 html ++ [58, 32] ++ tv kx.2 := by
    intro kx i s hs
    -- the state before the key
    have hpre : ∃ s0 : PSt, (if 0 < i then (s.push1 44).push cs else if !flat then s.push cs else s) = s0 ∧
        s0.bad = false ∧ s0.flat = s.flat ++ (if 0 < i then 44 :: cs else if flat then [] else cs) := by
      by_cases hi : 0 < i
      · have h1 := push1_ok s 44 hs
        have h2 := push_ok (s.push1 44) cs h1.1
        simp only [hi, ↓reduceIte]
        exact ⟨_, rfl, h2.1, by rw [h2.2, h1.2]; simp⟩
      · cases flat with
        | true => simp only [hi, ↓reduceIte, Bool.not_true, Bool.false_eq_true]; exact ⟨_, rfl, hs, by simp⟩
        | false =>
          have h2 := push_ok s cs hs
          simp only [hi, ↓reduceIte, Bool.not_false, Bool.false_eq_true]
          exact ⟨_, rfl, h2.1, by rw [h2.2]⟩
    obtain ⟨s0, he0, hb0, hf0⟩ := hpre
    have h1 := push_ok s0 (jsonString kx.1 html) hb0
    have h2 := push1_ok _ 58 h1.1
    have h3 := push1_ok _ 32 h2.1
    have h4 := hfv kx.2 _ h3.1
    refine ⟨fv (bv kx.2) d2 flat (((s0.push (jsonString kx.1 html)).push1 58).push1 32), ?_, h4.1, ?_⟩
    · intro rest
      simp only [fillMembers, he0, hpad]
    · rw [h4.2, h3.2, h2.2, h1.2, hf0]; simp
  intro r
  induction r with
  | nil =>
    intro kx i s hs
    obtain ⟨s1, he, hb1, hf1⟩ := hone kx i s hs
    simp only [List.map_cons, List.map_nil, he, fillMembers, tMembers, List.append_nil]
    exact ⟨hb1, hf1⟩
  | cons y r ih =>
    intro kx i s hs
    obtain ⟨s1, he, hb1, hf1⟩ := hone kx i s hs
    have := ih y (i + 1) s1 hb1
    simp only [List.map_cons] at this ⊢
    rw [he]
    refine ⟨this.1, ?_⟩
    rw [this.2, hf1]
    simp [tMembers]

/-- without alignment, everything `fill` does amounts to appending `ptext`; no slice is ever out of
range (`bad` stays off) -/
theorem fill_flat (w : PW) (lim : Option Nat) (ord : Kvs → Kvs) (ha : w.o.align = false) :
    ∀ (f : Nat) (v : JV) (d : Nat) (flat : Bool) (s : PSt), s.bad = false →
      (fill w lim f (build w.o ord f v) d flat s).bad = false ∧
      (fill w lim f (build w.o ord f v) d flat s).flat = s.flat ++ ptext w ord f v d flat := by
  intro f
  induction f with
  | zero => intro v d flat s hs; simp [fill, ptext, hs]
  | succ f ih =>
    intro v d flat s hs
    have leaf : ∀ (k : UInt8) (buf : Bytes) (sk : Bool),
        (fill w lim (f + 1) (.leaf k buf sk) d flat s).bad = false ∧
        (fill w lim (f + 1) (.leaf k buf sk) d flat s).flat = s.flat ++ buf := by
      intro k buf sk
      have h1 := push_ok s buf hs
      have h2 := flush_ok lim _ h1.1
      simp only [fill]
      exact ⟨h2.1, by rw [h2.2, h1.2]⟩
    cases v with
    | null => simpa [build, ptext] using leaf _ _ _
    | bool b => cases b <;> simpa [build, ptext] using leaf _ _ _
    | int i => simpa [build, ptext] using leaf _ _ _
    | flt t => simpa [build, ptext] using leaf _ _ _
    | big t => simpa [build, ptext] using leaf Gen.Pretty.strNode [] false
    | num t => simpa [build, ptext] using leaf Gen.Pretty.strNode [] false
    | str x => simpa [build, ptext] using leaf _ _ _
    | arr xs =>
      have hb : build w.o ord (f + 1) (.arr xs) = .arr (xs.map (build w.o ord f))
          (arrSize (xs.map (build w.o ord f)) 0 2) (arrDepth (xs.map (build w.o ord f)) 0)
          (w.o.omitEmpty && xs.length = 0) := by simp [build]
      have hl : layoutOf w d (flat || (d * w.indent + arrSize (xs.map (build w.o ord f)) 0 2 < w.width &&
          arrDepth (xs.map (build w.o ord f)) 0 < w.o.maxDepth)) = lay w ord (f + 1) (.arr xs) d flat := by
        simp [lay, hb, PNode.size, PNode.depth]
      rw [hb]
      simp only [fill, ha, Bool.not_false, Bool.true_or, ↓reduceIte, hl]
      have h1 := push1_ok s 91 hs
      cases xs with
      | nil =>
        have h2 := push_ok (s.push1 91) (lay w ord (f + 1) (.arr []) d flat).2.1 h1.1
        have h3 := push1_ok _ 93 h2.1
        have h4 := flush_ok lim _ h3.1
        simp only [List.map_nil, fillElems, ptext]
        exact ⟨h4.1, by rw [h4.2, h3.2, h2.2, h1.2]; simp⟩
      | cons x r =>
        have hsp := fillElems_spec (fill w lim f) (build w.o ord f)
          (fun y => ptext w ord f y (d + 1) (lay w ord (f + 1) (.arr (x :: r)) d flat).2.2)
          (lay w ord (f + 1) (.arr (x :: r)) d flat).1 (lay w ord (f + 1) (.arr (x :: r)) d flat).2.2 (d + 1)
          (fun y s hs => ih y (d + 1) _ s hs) r x 0 (s.push1 91) h1.1
        have h2 := push_ok _ (lay w ord (f + 1) (.arr (x :: r)) d flat).2.1 hsp.1
        have h3 := push1_ok _ 93 h2.1
        have h4 := flush_ok lim _ h3.1
        simp only [ptext]
        exact ⟨h4.1, by rw [h4.2, h3.2, h2.2, hsp.2, h1.2]; simp⟩
    | obj kvs =>
      have hm : (buildMembers w.o (build w.o ord f) (sortKvs (ord kvs)) [] 2 0).1 =
          (keptP w ord f kvs).map fun kv => (jsonString kv.1 (!w.o.htmlUnsafe), build w.o ord f kv.2) := by
        rw [buildMembers_fst]; simp [keptP]
      have hb : build w.o ord (f + 1) (.obj kvs) = .map
          ((keptP w ord f kvs).map fun kv => (jsonString kv.1 (!w.o.htmlUnsafe), build w.o ord f kv.2))
          (buildMembers w.o (build w.o ord f) (sortKvs (ord kvs)) [] 2 0).2.1
          (buildMembers w.o (build w.o ord f) (sortKvs (ord kvs)) [] 2 0).2.2
          (w.o.omitEmpty && kvs.length = 0) := by
        simp only [build, hm]
      have hl : layoutOf w d (flat || (d * w.indent + (buildMembers w.o (build w.o ord f) (sortKvs (ord kvs)) [] 2 0).2.1 < w.width &&
          (buildMembers w.o (build w.o ord f) (sortKvs (ord kvs)) [] 2 0).2.2 < w.o.maxDepth)) =
          lay w ord (f + 1) (.obj kvs) d flat := by
        simp [lay, hb, PNode.size, PNode.depth]
      rw [hb]
      simp only [fill, ha, Bool.false_eq_true, ↓reduceIte, hl]
      have h1 := push1_ok s 123 hs
      simp only [ptext]
      cases hk : keptP w ord f kvs with
      | nil =>
        have h2 := push_ok (s.push1 123) (lay w ord (f + 1) (.obj kvs) d flat).2.1 h1.1
        have h3 := push1_ok _ 125 h2.1
        have h4 := flush_ok lim _ h3.1
        simp only [List.map_nil, fillMembers]
        exact ⟨h4.1, by rw [h4.2, h3.2, h2.2, h1.2]; simp⟩
      | cons kx r =>
        have hsp := fillMembers_spec (fill w lim f) (build w.o ord f)
          (fun y => ptext w ord f y (d + 1) (lay w ord (f + 1) (.obj kvs) d flat).2.2) (!w.o.htmlUnsafe)
          (lay w ord (f + 1) (.obj kvs) d flat).1 (lay w ord (f + 1) (.obj kvs) d flat).2.2 (d + 1)
          (fun y s hs => ih y (d + 1) _ s hs) r kx 0 (s.push1 123) h1.1
        have h2 := push_ok _ (lay w ord (f + 1) (.obj kvs) d flat).2.1 hsp.1
        have h3 := push1_ok _ 125 h2.1
        have h4 := flush_ok lim _ h3.1
        obtain ⟨k, x⟩ := kx
        exact ⟨h4.1, by rw [h4.2, h3.2, h2.2, hsp.2, h1.2]; simp⟩

/-! ### `skip` marks against the specification-side rule -/

/-- the `skip` mark of a node is the documented rule: nil under OmitNil; empty string, slice, map
under OmitEmpty -/
theorem build_skip (o : POpts) (ord : Kvs → Kvs) (f : Nat) (v : JV) :
    (build o ord (f + 1) v).skip = omits (ojOptsOf o) v := by
  cases v with
  | null => simp [build, PNode.skip, omits, ojOptsOf]
  | bool b => cases b <;> simp [build, PNode.skip, omits]
  | int i => simp [build, PNode.skip, omits]
  | flt t => simp [build, PNode.skip, omits]
  | big t => simp [build, PNode.skip, omits]
  | num t => simp [build, PNode.skip, omits]
  | str x => cases x <;> simp [build, PNode.skip, omits, ojOptsOf]
  | arr xs => cases xs <;> simp [build, PNode.skip, omits, ojOptsOf]
  | obj kvs => cases kvs <;> simp [build, PNode.skip, omits, ojOptsOf]

/-- the members `pretty` writes are those the options keep -/
theorem keptP_eq (w : PW) (ord : Kvs → Kvs) (f : Nat) (kvs : Kvs) (hf : 0 < f) :
    keptP w ord f kvs = (sortKvs (ord kvs)).filter fun kv => !omits (ojOptsOf w.o) kv.2 := by
  obtain ⟨f', rfl⟩ : ∃ f', f = f' + 1 := ⟨f - 1, by omega⟩
  simp only [keptP]
  apply List.filter_congr
  intro kv _
  rw [build_skip]

/-! ### reading `ptext` back -/

theorem nullStr_eq : Gen.Pretty.nullStr.toList = [110, 117, 108, 108] := by decide
theorem trueStr_eq : Gen.Pretty.trueStr.toList = [116, 114, 117, 101] := by decide
theorem falseStr_eq : Gen.Pretty.falseStr.toList = [102, 97, 108, 115, 101] := by decide

theorem layoutOf_ws (hsp : (Gen.Pretty.spaces.toList.all Spec.isWs) = true) (w : PW) (d : Nat) (flat : Bool) :
    ((layoutOf w d flat).1.all Spec.isWs) = true ∧ ((layoutOf w d flat).2.1.all Spec.isWs) = true := by
  unfold layoutOf
  split
  · exact ⟨by decide, rfl⟩
  · split
    · exact ⟨rfl, rfl⟩
    · exact ⟨all_take_drop _ _ hsp _ _, all_take_drop _ _ hsp _ _⟩

theorem lay_ws (hsp : (Gen.Pretty.spaces.toList.all Spec.isWs) = true) (w : PW) (ord : Kvs → Kvs) (f : Nat) (v : JV)
    (d : Nat) (flat : Bool) :
    ((lay w ord f v d flat).1.all Spec.isWs) = true ∧ ((lay w ord f v d flat).2.1.all Spec.isWs) = true :=
  layoutOf_ws hsp w d _

theorem tElems_mem_le (tv : JV → Bytes) (cs : Bytes) : ∀ (r : List JV) (y : JV),
    y ∈ r → (tv y).length ≤ (tElems tv cs r).length := by
  intro r
  induction r with
  | nil => intro y h; simp at h
  | cons z r ih =>
    intro y h
    simp only [List.mem_cons] at h
    rcases h with rfl | h
    · simp [tElems]; omega
    · have := ih y h; simp [tElems]; omega

theorem pValue_empty_arr_ws (g : Nat) (ws rest : Bytes) (h : (ws.all Spec.isWs) = true) :
    Spec.pValue (g + 1) (91 :: (ws ++ 93 :: rest)) = some (.arr [], rest) := by
  have : Spec.skipWs (ws ++ 93 :: rest) = 93 :: rest := by
    rw [skipWs_ws_append _ _ h, skipWs_nonws 93 _ (by decide)]
  simp [Spec.pValue, show Spec.isDigit 91 = false by decide, this]

theorem pValue_empty_obj_ws (g : Nat) (ws rest : Bytes) (h : (ws.all Spec.isWs) = true) :
    Spec.pValue (g + 1) (123 :: (ws ++ 125 :: rest)) = some (.obj [], rest) := by
  have : Spec.skipWs (ws ++ 125 :: rest) = 125 :: rest := by
    rw [skipWs_ws_append _ _ h, skipWs_nonws 125 _ (by decide)]
  simp [Spec.pValue, show Spec.isDigit 123 = false by decide, this]

theorem ptext_head (w : PW) (ord : Kvs → Kvs) (f : Nat) (v : JV) (d : Nat) (flat : Bool) (hok : okW v) :
    ∃ b t, ptext w ord (f + 1) v d flat = b :: t ∧ startByte b = true := by
  cases v with
  | null => exact ⟨110, _, by simp only [ptext, nullStr_eq]; rfl, by decide⟩
  | bool b =>
    cases b
    · exact ⟨102, _, by simp only [ptext, falseStr_eq]; rfl, by decide⟩
    · exact ⟨116, _, by simp only [ptext, trueStr_eq]; rfl, by decide⟩
  | int i =>
    obtain ⟨b, t, he, hb⟩ := numLit_head _ (isNumLit_fmtInt i)
    exact ⟨b, t, by simp [ptext, he], (numStart_facts b hb).2.2.2.2⟩
  | flt x =>
    simp only [okW] at hok
    obtain ⟨b, t, he, hb⟩ := numLit_head _ hok
    exact ⟨b, t, by simp [ptext, he], (numStart_facts b hb).2.2.2.2⟩
  | big x => simp [okW] at hok
  | num x => simp [okW] at hok
  | str x => exact ⟨34, _, by simp only [ptext, jsonString]; rfl, by decide⟩
  | arr xs =>
    cases xs with
    | nil => exact ⟨91, _, by simp only [ptext]; rfl, by decide⟩
    | cons x r => exact ⟨91, _, by simp only [ptext]; rfl, by decide⟩
  | obj kvs =>
    simp only [ptext]
    split
    · exact ⟨123, _, rfl, by decide⟩
    · exact ⟨123, _, rfl, by decide⟩

/-- the RFC 8259 reader applied to `ptext` gives the tree minus the members the options name, members in
ascending key order; the reader's fuel only has to exceed the length of the text -/
theorem parse_ptext (hs : TableSafe Gen.Root.jMap) (hsp : (Gen.Pretty.spaces.toList.all Spec.isWs) = true)
    (w : PW) (ord : Kvs → Kvs) (hord : IsOrder ord) :
    ∀ (f : Nat) (v : JV) (d : Nat) (flat : Bool) (g : Nat) (rest : Bytes), okW v → depth v < f →
      (ptext w ord f v d flat).length < g → follows rest = true →
      Spec.pValue g (ptext w ord f v d flat ++ rest) =
        some (normG (omits (ojOptsOf w.o)) true ord f v, rest) := by
  intro f
  induction f with
  | zero => intro v d flat g rest _ h; omega
  | succ f ih =>
    intro v d flat g rest hok hf hg hrest
    obtain ⟨g, rfl⟩ : ∃ g', g = g' + 1 := ⟨g - 1, by omega⟩
    cases v with
    | null => simpa [ptext, normG, nullStr_eq] using pValue_null g rest
    | bool b =>
      cases b
      · simpa [ptext, normG, falseStr_eq] using pValue_false g rest
      · simpa [ptext, normG, trueStr_eq] using pValue_true g rest
    | int i => simpa [ptext, normG] using pValue_num g (fmtInt i) rest (isNumLit_fmtInt i) hrest
    | flt t =>
      simp only [okW] at hok
      simpa [ptext, normG] using pValue_num g t rest hok hrest
    | big t => simp [okW] at hok
    | num t => simp [okW] at hok
    | str x => simpa [ptext, normG] using pValue_str hs g x rest (!w.o.htmlUnsafe)
    | arr xs =>
      simp only [okW] at hok
      simp only [depth] at hf
      cases xs with
      | nil =>
        have hw := (lay_ws hsp w ord (f + 1) (.arr []) d flat).2
        simpa [ptext, normG] using pValue_empty_arr_ws g _ rest hw
      | cons x r =>
        have hlw := lay_ws hsp w ord (f + 1) (.arr (x :: r)) d flat
        generalize hl : lay w ord (f + 1) (.arr (x :: r)) d flat = l at hlw
        simp only [ptext, hl] at hg ⊢
        have hokx : okW x := okW_mem_list _ hok x (by simp)
        have hdx : depth x ≤ depthList (x :: r) := depth_mem_list _ x (by simp)
        have hth : ∀ y, okW y → ∃ b t, ptext w ord f y (d + 1) l.2.2 = b :: t ∧ startByte b = true := by
          intro y hy
          obtain ⟨f', rfl⟩ : ∃ f', f = f' + 1 := ⟨f - 1, by omega⟩
          exact ptext_head w ord f' y (d + 1) l.2.2 hy
        obtain ⟨b, t, hb, hsb⟩ := hth x hokx
        obtain ⟨hws, hn93, -, -⟩ := startByte_facts b hsb
        have hcs0 : ((if l.2.2 = true then [] else l.1).all Spec.isWs) = true := by
          split
          · rfl
          · exact hlw.1
        let tv := fun y => ptext w ord f y (d + 1) l.2.2
        have hfol : follows (tElems tv l.1 r ++ l.2.1 ++ 93 :: rest) = true := by
          cases r with
          | nil =>
            simp only [tElems, List.nil_append]
            cases hcl : l.2.1 with
            | nil => rfl
            | cons c cl' =>
              have := hlw.2
              rw [hcl] at this
              simp only [List.all_cons, Bool.and_eq_true] at this
              simp [follows, this.1]
          | cons z r' => simp [tElems, follows]
        have hlen1 : (ptext w ord f x (d + 1) l.2.2).length < g := by
          simp only [List.length_cons, List.length_append] at hg; omega
        have h1 := ih x (d + 1) l.2.2 g (tElems tv l.1 r ++ l.2.1 ++ 93 :: rest) hokx (by omega) hlen1 hfol
        have hsk : Spec.skipWs ((if l.2.2 = true then [] else l.1) ++ (ptext w ord f x (d + 1) l.2.2 ++
            (tElems tv l.1 r ++ l.2.1 ++ 93 :: rest))) = b :: (t ++ (tElems tv l.1 r ++ l.2.1 ++ 93 :: rest)) := by
          rw [skipWs_ws_append _ _ hcs0, hb, List.cons_append, skipWs_nonws b _ hws]
        have h1' : Spec.pValue g (b :: (t ++ (tElems tv l.1 r ++ l.2.1 ++ 93 :: rest))) =
            some (normG (omits (ojOptsOf w.o)) true ord f x, tElems tv l.1 r ++ l.2.1 ++ 93 :: rest) := by
          rw [← List.cons_append, ← hb]; exact h1
        have hopen := pValue_open_arr g _ _ _ b _ hsk hn93 h1'
        have htail := pElems_tail (Spec.pValue g) tv (normG (omits (ojOptsOf w.o)) true ord f) l.1 l.2.1 rest
          hlw.1 hlw.2 r [normG (omits (ojOptsOf w.o)) true ord f x]
          ((tElems tv l.1 r ++ l.2.1 ++ 93 :: rest).length + 1)
          (by have := tElems_length tv l.1 r; simp; omega)
          (fun y hy => hth y (okW_mem_list _ hok y (by simp [hy])))
          (fun y hy rest' hr' => ih y (d + 1) l.2.2 g rest' (okW_mem_list _ hok y (by simp [hy]))
            (by have := depth_mem_list (x :: r) y (by simp [hy]); omega)
            (by
              have := tElems_mem_le (fun y => ptext w ord f y (d + 1) l.2.2) l.1 r y hy
              simp only [List.length_cons, List.length_append] at hg
              show (ptext w ord f y (d + 1) l.2.2).length < g
              omega) hr')
        simp only [normG, List.cons_append, List.append_assoc, List.map_cons, List.nil_append]
        simp only [List.append_assoc, List.cons_append, List.nil_append] at hopen htail
        exact hopen.trans (by simpa using htail)
    | obj kvs =>
      simp only [okW] at hok
      simp only [depth] at hf
      have hperm : (sortKvs (ord kvs)).Perm kvs := (sortKvs_perm _).trans (hord kvs)
      have hkeq := keptP_eq w ord f kvs (by omega)
      have hsub : (keptP w ord f kvs).Sublist (sortKvs (ord kvs)) := List.filter_sublist
      have hmem : ∀ kv ∈ keptP w ord f kvs, kv ∈ kvs := fun kv h => hperm.mem_iff.mp (hsub.subset h)
      have hnd : ((keptP w ord f kvs).map (fun kv => sanitize kv.1)).Nodup :=
        (hsub.map _).nodup ((hperm.map _).nodup_iff.mpr hok.1)
      have hlw := lay_ws hsp w ord (f + 1) (.obj kvs) d flat
      generalize hl : lay w ord (f + 1) (.obj kvs) d flat = l at hlw
      have hnorm : normG (omits (ojOptsOf w.o)) true ord (f + 1) (.obj kvs) =
          .obj ((keptP w ord f kvs).map fun kv =>
            (sanitize kv.1, normG (omits (ojOptsOf w.o)) true ord f kv.2)) := by
        simp only [normG, normMembers_eq, order, ↓reduceIte, hkeq]
      rw [hnorm]
      simp only [ptext, hl] at hg ⊢
      cases hk : keptP w ord f kvs with
      | nil =>
        simp only [List.map_nil]
        simpa using pValue_empty_obj_ws g _ rest hlw.2
      | cons kv r =>
        obtain ⟨k, x⟩ := kv
        rw [hk] at hmem hnd hg
        simp only at hg
        have hth : ∀ y, okW y → ∃ b t, ptext w ord f y (d + 1) l.2.2 = b :: t ∧ startByte b = true := by
          intro y hy
          obtain ⟨f', rfl⟩ : ∃ f', f = f' + 1 := ⟨f - 1, by omega⟩
          exact ptext_head w ord f' y (d + 1) l.2.2 hy
        have hokm : ∀ kv ∈ (k, x) :: r, okW kv.2 := fun kv h => okW_mem_kvs _ hok.2 kv (hmem kv h)
        have hdm : ∀ kv ∈ (k, x) :: r, depth kv.2 ≤ depthKvs kvs := fun kv h => depth_mem_kvs _ kv (hmem kv h)
        have hokx : okW x := hokm (k, x) (by simp)
        have hdx := hdm (k, x) (by simp)
        have hcs0 : ((if l.2.2 = true then [] else l.1).all Spec.isWs) = true := by
          split
          · rfl
          · exact hlw.1
        let tv := fun y => ptext w ord f y (d + 1) l.2.2
        have hfol : follows (tMembers (!w.o.htmlUnsafe) tv l.1 [58, 32] r ++ l.2.1 ++ 125 :: rest) = true := by
          cases r with
          | nil =>
            simp only [tMembers, List.nil_append]
            cases hcl : l.2.1 with
            | nil => rfl
            | cons c cl' =>
              have := hlw.2
              rw [hcl] at this
              simp only [List.all_cons, Bool.and_eq_true] at this
              simp [follows, this.1]
          | cons z r' => obtain ⟨kz, vz⟩ := z; simp [tMembers, follows]
        have hlen1 : (ptext w ord f x (d + 1) l.2.2).length < g := by
          simp only [List.length_cons, List.length_append] at hg; omega
        have h1 := ih x (d + 1) l.2.2 g (tMembers (!w.o.htmlUnsafe) tv l.1 [58, 32] r ++ l.2.1 ++ 125 :: rest)
          hokx (by simp at hdx; omega) hlen1 hfol
        have hm := pMember_text hs (Spec.pValue g) k (!w.o.htmlUnsafe) [32] (ptext w ord f x (d + 1) l.2.2)
          (tMembers (!w.o.htmlUnsafe) tv l.1 [58, 32] r ++ l.2.1 ++ 125 :: rest)
          (normG (omits (ojOptsOf w.o)) true ord f x) (by decide) (hth x hokx) h1
        have hsk : Spec.skipWs ((if l.2.2 = true then [] else l.1) ++ (jsonString k (!w.o.htmlUnsafe) ++ [58, 32] ++
            ptext w ord f x (d + 1) l.2.2 ++
            (tMembers (!w.o.htmlUnsafe) tv l.1 [58, 32] r ++ l.2.1 ++ 125 :: rest))) =
            34 :: ((escLoop Gen.Root.jMap (!w.o.htmlUnsafe) 0 true k ++ [34]) ++ [58, 32] ++ ptext w ord f x (d + 1) l.2.2 ++
            (tMembers (!w.o.htmlUnsafe) tv l.1 [58, 32] r ++ l.2.1 ++ 125 :: rest)) := by
          rw [skipWs_ws_append _ _ hcs0]
          simp only [jsonString, List.cons_append]
          rw [skipWs_nonws 34 _ (by decide)]
        have hm' : Spec.pMember (Spec.pValue g) (34 :: ((escLoop Gen.Root.jMap (!w.o.htmlUnsafe) 0 true k ++ [34]) ++ [58, 32] ++
            ptext w ord f x (d + 1) l.2.2 ++
            (tMembers (!w.o.htmlUnsafe) tv l.1 [58, 32] r ++ l.2.1 ++ 125 :: rest))) =
            some ((sanitize k, normG (omits (ojOptsOf w.o)) true ord f x),
              tMembers (!w.o.htmlUnsafe) tv l.1 [58, 32] r ++ l.2.1 ++ 125 :: rest) := by
          simpa only [jsonString, List.cons_append] using hm
        have hopen := pValue_open_obj g _ _ _ 34 _ _ hsk (by decide) hm'
        have htail := pMembers_tail hs (Spec.pValue g) tv (normG (omits (ojOptsOf w.o)) true ord f)
          (!w.o.htmlUnsafe) l.1 l.2.1 [32] rest hlw.1 hlw.2 (by decide) r
          [(sanitize k, normG (omits (ojOptsOf w.o)) true ord f x)]
          ((tMembers (!w.o.htmlUnsafe) tv l.1 [58, 32] r ++ l.2.1 ++ 125 :: rest).length + 1)
          (by have := tMembers_length (!w.o.htmlUnsafe) tv l.1 [58, 32] r; simp; omega)
          (fun kv hkv => hth kv.2 (hokm kv (by simp [hkv])))
          (fun kv hkv rest' hr' => ih kv.2 (d + 1) l.2.2 g rest' (hokm kv (by simp [hkv]))
            (by have := hdm kv (by simp [hkv]); omega)
            (by
              have := tMembers_mem_le (!w.o.htmlUnsafe) (fun y => ptext w ord f y (d + 1) l.2.2) l.1 [58, 32] r kv hkv
              simp only [List.length_cons, List.length_append] at hg
              show (ptext w ord f kv.2 (d + 1) l.2.2).length < g
              omega) hr')
          (by simpa using hnd)
        simp only [List.cons_append, List.append_assoc, List.map_cons, List.nil_append]
        simp only [List.append_assoc, List.cons_append, List.nil_append] at hopen htail
        exact hopen.trans (by simpa using htail)

/-! ### without an `io.Writer` nothing is handed over -/

@[simp] theorem push_sent (s : PSt) (bs : Bytes) : (s.push bs).st.sent = s.st.sent := by
  unfold PSt.push; split <;> simp [St.push]

@[simp] theorem push1_sent (s : PSt) (b : UInt8) : (s.push1 b).st.sent = s.st.sent := by
  unfold PSt.push1; split <;> simp [St.push1]

@[simp] theorem flush_none_sent (s : PSt) : (s.flush none).st.sent = s.st.sent := by
  unfold PSt.flush; split <;> simp [St.flush]

@[simp] theorem pad_sent : ∀ (n : Nat) (s : PSt), (s.pad n).st.sent = s.st.sent := by
  intro n
  induction n with
  | zero => intro s; rfl
  | succ n ih => intro s; simp [PSt.pad, ih]

theorem fillElems_sent (fv : PNode → Nat → Bool → PSt → PSt) (cs : Bytes) (flat : Bool) (d2 : Nat)
    (hfv : ∀ m d fl s, (fv m d fl s).st.sent = s.st.sent) :
    ∀ (ms : List PNode) (i : Nat) (s : PSt), (fillElems fv cs flat d2 ms i s).st.sent = s.st.sent := by
  intro ms
  induction ms with
  | nil => intro i s; rfl
  | cons m r ih =>
    intro i s
    simp only [fillElems, ih, hfv]
    split
    · simp
    · split <;> simp

theorem fillMembers_sent (fv : PNode → Nat → Bool → PSt → PSt) (cs : Bytes) (flat : Bool) (d2 kw : Nat)
    (hfv : ∀ m d fl s, (fv m d fl s).st.sent = s.st.sent) :
    ∀ (ms : List (Bytes × PNode)) (i : Nat) (s : PSt), (fillMembers fv cs flat d2 kw ms i s).st.sent = s.st.sent := by
  intro ms
  induction ms with
  | nil => intro i s; rfl
  | cons m r ih =>
    intro i s
    obtain ⟨k, n⟩ := m
    simp only [fillMembers, ih, hfv, pad_sent, push1_sent, push_sent]
    split
    · simp
    · split <;> simp

theorem fill_sent (w : PW) (ha : w.o.align = false) :
    ∀ (f : Nat) (n : PNode) (d : Nat) (flat : Bool) (s : PSt), (fill w none f n d flat s).st.sent = s.st.sent := by
  intro f
  induction f with
  | zero => intro n d flat s; rfl
  | succ f ih =>
    intro n d flat s
    cases n with
    | leaf k buf sk => simp [fill]
    | arr ms sz dp sk =>
      simp only [fill, ha, Bool.not_false, Bool.true_or, ↓reduceIte, flush_none_sent, push1_sent, push_sent]
      rw [fillElems_sent _ _ _ _ ih]; simp
    | map ms sz dp sk =>
      simp only [fill, flush_none_sent, push1_sent, push_sent]
      rw [fillMembers_sent _ _ _ _ _ ih]; simp


/-! ### `encode` -/

theorem pwOf_o (o : POpts) (ord : Kvs → Kvs) (v : JV) : (pwOf o ord v).o = o := rfl

/-- without alignment the in-memory text is `ptext` -/
theorem prettyWrite_eq_ptext (o : POpts) (ord : Kvs → Kvs) (v : JV) (ha : o.align = false) :
    prettyWrite o ord v = ptext (pwOf o ord v) ord (depth v + 1) v 0 false := by
  have h := fill_flat (pwOf o ord v) none ord ha (depth v + 1) v 0 false {} rfl
  have hs := fill_sent (pwOf o ord v) ha (depth v + 1) (build o ord (depth v + 1) v) 0 false {}
  have hf : ({} : PSt).flat = [] := rfl
  rw [hf, List.nil_append] at h
  have hs0 : ({} : PSt).st.sent = [] := rfl
  rw [hs0] at hs
  rw [pwOf_o] at h
  have hb : (encodeSt o ord none v).bad = false := h.1
  have hfl : (encodeSt o ord none v).flat = ptext (pwOf o ord v) ord (depth v + 1) v 0 false := h.2
  have hs' : (encodeSt o ord none v).st.sent = [] := hs
  unfold prettyWrite
  rw [hb]
  simp only [Bool.false_eq_true, ↓reduceIte]
  rw [← hfl]
  simp [PSt.flat, St.flat, St.bytes, hs']

/-- … and so are the chunks handed to the `io.Writer`, joined, for every WriteLimit -/
theorem prettyWriteTo_flatten (o : POpts) (ord : Kvs → Kvs) (limit : Nat) (v : JV) (ha : o.align = false) :
    (prettyWriteTo o ord limit v).flatten = ptext (pwOf o ord v) ord (depth v + 1) v 0 false := by
  have h := fill_flat (pwOf o ord v) (some (effLimit limit)) ord ha (depth v + 1) v 0 false {} rfl
  have hf : ({} : PSt).flat = [] := rfl
  rw [hf, List.nil_append, pwOf_o] at h
  show (if (encodeSt o ord (some (effLimit limit)) v).bad then (encodeSt o ord (some (effLimit limit)) v).st.sent.reverse
    else if 0 < (encodeSt o ord (some (effLimit limit)) v).st.rbuf.length then
      ((encodeSt o ord (some (effLimit limit)) v).st.bytes :: (encodeSt o ord (some (effLimit limit)) v).st.sent).reverse
    else (encodeSt o ord (some (effLimit limit)) v).st.sent.reverse).flatten = _
  have hb : (encodeSt o ord (some (effLimit limit)) v).bad = false := h.1
  rw [hb]
  simp only [Bool.false_eq_true, ↓reduceIte]
  rw [chunks_flatten]
  exact h.2

end OjgVerif.Writer.Pretty
