import OjgVerif.Writer.LemmasAlignMap
/-! Lemmas about the `pretty` model when the alignment tables used are tables of arrays without objects
inside or tables of flat objects with complete rows (`tablesAO`; or Align off; keys of a map may be
aligned): `fill` appends a text that is a function of the tree (`ptext`: the same tokens as the `oj`
writers, other white space), and the RFC 8259 reader gives back the tree minus the members
OmitNil / OmitEmpty name. The table functions themselves are in `LemmasAlign.lean` (arrays) and
`LemmasAlignMap.lean` (flat objects). -/
set_option linter.unusedSimpArgs false
set_option linter.unusedVariables false
namespace OjgVerif.Writer.Pretty
open OjgVerif OjgVerif.Json OjgVerif.Writer

/-! ### the text as a function of the tree -/

/-- `cs`, `is`, `flat` for the members of the node built from `v` -/
def lay (w : PW) (ord : Kvs → Kvs) (f : Nat) (v : JV) (depth : Nat) (flat : Bool) : Bytes × Bytes × Bool :=
  layoutOf w depth (flat || (depth * w.indent + (build w.o ord f v).size < w.width &&
    (build w.o ord f v).depth < w.o.maxDepth))

/-- the members `pretty` writes -/
def keptP (w : PW) (ord : Kvs → Kvs) (f : Nat) (kvs : Kvs) : Kvs :=
  (sortKvs (ord kvs)).filter fun kv => !(build w.o ord f kv.2).skip

/-! ### tables -/

theorem noTable_mem_list : ∀ (xs : List JV), noTableList xs → ∀ x ∈ xs, noTable x := by
  intro xs
  induction xs with
  | nil => intro _ x h; simp at h
  | cons y r ih =>
    intro hok x h
    simp only [noTableList] at hok
    simp only [List.mem_cons] at h
    rcases h with rfl | h
    · exact hok.1
    · exact ih hok.2 x h

theorem noTable_mem_kvs : ∀ (kvs : Kvs), noTableKvs kvs → ∀ kv ∈ kvs, noTable kv.2 := by
  intro kvs
  induction kvs with
  | nil => intro _ x h; simp at h
  | cons y r ih =>
    intro hok x h
    obtain ⟨k, v⟩ := y
    simp only [noTableKvs] at hok
    simp only [List.mem_cons] at h
    rcases h with rfl | h
    · exact hok.1
    · exact ih hok.2 x h

/-- `subKind` started from a kind stays there or falls to 0 -/
theorem subKind_from (l : List UInt8) (kind : UInt8) (hk : kind ≠ 0) :
    (subKind l kind = kind ∧ ∀ x ∈ l, x = kind) ∨ subKind l kind = 0 := by
  induction l with
  | nil => left; exact ⟨rfl, fun x h => by simp at h⟩
  | cons k r ih =>
    simp only [subKind]
    by_cases h : kind ≠ k
    · right; simp [h, hk]
    · have hk' : kind = k := by simpa using h
      simp only [h, ↓reduceIte]
      rcases ih with ⟨h1, h2⟩ | h1
      · left; exact ⟨h1, fun x hx => by simp only [List.mem_cons] at hx; rcases hx with rfl | hx; exact hk'.symm; exact h2 x hx⟩
      · right; exact h1

/-- a common kind other than 0 is the kind of every member -/
theorem subKind_all (l : List UInt8) (c : UInt8) (hc : c ≠ 0) (hnz : ∀ x ∈ l, x ≠ 0) (h : subKind l 0 = c) :
    ∀ x ∈ l, x = c := by
  cases l with
  | nil => intro x hx; simp at hx
  | cons k r =>
    have hk : k ≠ 0 := hnz k (by simp)
    have h0 : (0 : UInt8) ≠ k := fun e => hk e.symm
    simp only [subKind, h0, ne_eq, not_false_eq_true, ↓reduceIte, not_true_eq_false] at h
    rcases subKind_from r k hk with ⟨h1, h2⟩ | h1
    · have : k = c := by rw [← h1]; exact h
      subst this
      intro x hx
      simp only [List.mem_cons] at hx
      rcases hx with rfl | hx
      · rfl
      · exact h2 x hx
    · rw [h1] at h; exact absurd h.symm hc

theorem build_kind_ne_zero (o : POpts) (ord : Kvs → Kvs) (f : Nat) (v : JV) : (build o ord f v).kind ≠ 0 := by
  cases f with
  | zero => simp only [build, PNode.kind]; decide
  | succ f =>
    cases v with
    | bool b => cases b <;> (simp only [build, PNode.kind, ↓reduceIte, Bool.false_eq_true]; decide)
    | _ => simp only [build, PNode.kind] <;> decide

theorem build_kind_arr (o : POpts) (ord : Kvs → Kvs) (f : Nat) (v : JV)
    (h : (build o ord f v).kind = Gen.Pretty.arrayNode) : isArr v = true := by
  cases f with
  | zero => simp only [build, PNode.kind] at h; exact absurd h (by decide)
  | succ f =>
    cases v with
    | arr xs => rfl
    | bool b => cases b <;> (simp only [build, PNode.kind, ↓reduceIte, Bool.false_eq_true] at h; exact absurd h (by decide))
    | _ => simp only [build, PNode.kind] at h <;> exact absurd h (by decide)

theorem build_kind_obj (o : POpts) (ord : Kvs → Kvs) (f : Nat) (v : JV)
    (h : (build o ord f v).kind = Gen.Pretty.mapNode) : isObj v = true := by
  cases f with
  | zero => simp only [build, PNode.kind] at h; exact absurd h (by decide)
  | succ f =>
    cases v with
    | obj kvs => rfl
    | bool b => cases b <;> (simp only [build, PNode.kind, ↓reduceIte, Bool.false_eq_true] at h; exact absurd h (by decide))
    | _ => simp only [build, PNode.kind] at h <;> exact absurd h (by decide)

/-- rows that are not all arrays and not all objects give no table -/
theorem genTables_none (o : POpts) (ord : Kvs → Kvs) (fuel f : Nat) (xs : List JV) (sz dp : Nat) (sk : Bool)
    (h : ¬ (xs.all isArr = true ∨ xs.all isObj = true)) (hne : xs ≠ []) :
    genTables fuel (.arr (xs.map (build o ord f)) sz dp sk) = none := by
  have hnz : ∀ x ∈ (xs.map (build o ord f)).map PNode.kind, x ≠ 0 := by
    intro x hx
    simp only [List.map_map, List.mem_map, Function.comp] at hx
    obtain ⟨y, _, rfl⟩ := hx
    exact build_kind_ne_zero o ord f y
  simp only [genTables, memberKinds]
  by_cases hk : (subKind ((xs.map (build o ord f)).map PNode.kind) 0 = Gen.Pretty.arrayNode ||
      subKind ((xs.map (build o ord f)).map PNode.kind) 0 = Gen.Pretty.mapNode) = true
  · exfalso
    simp only [Bool.or_eq_true, decide_eq_true_eq] at hk
    rcases hk with hk | hk
    · have hall := subKind_all _ _ (by decide) hnz hk
      apply h; left
      simp only [List.all_eq_true]
      intro y hy
      exact build_kind_arr o ord f y (hall _ (by simp only [List.map_map, List.mem_map, Function.comp]; exact ⟨y, hy, rfl⟩))
    · have hall := subKind_all _ _ (by decide) hnz hk
      apply h; right
      simp only [List.all_eq_true]
      intro y hy
      exact build_kind_obj o ord f y (hall _ (by simp only [List.map_map, List.mem_map, Function.comp]; exact ⟨y, hy, rfl⟩))
  · simp only [Bool.not_eq_true, Bool.or_eq_false_iff, decide_eq_false_iff_not] at hk
    simp only [List.map_map] at hk
    simp [hk.1, hk.2]

/-! ### keys aligned -/

/-- `: ` and the blanks that bring the value to the common column -/
def colonPad (html : Bool) (kw : Nat) (k : Bytes) : Bytes :=
  58 :: 32 :: List.replicate (kw - (jsonString k html).length) 32

theorem colonPad_ws (html : Bool) (kw : Nat) (k : Bytes) :
    ((32 :: List.replicate (kw - (jsonString k html).length) 32).all Spec.isWs) = true := by
  simp only [List.all_cons, List.all_eq_true, List.mem_replicate, Bool.and_eq_true]
  exact ⟨by decide, fun x hx => by rw [hx.2]; decide⟩

/-- members after the first, each value at the common column -/
def tMembersK (html : Bool) (tv : JV → Bytes) (cs : Bytes) (kw : Nat) : Kvs → Bytes
  | [] => []
  | (k, x) :: r => 44 :: (cs ++ jsonString k html ++ colonPad html kw k ++ tv x ++ tMembersK html tv cs kw r)

theorem tMembersK_length (html : Bool) (tv : JV → Bytes) (cs : Bytes) (kw : Nat) :
    ∀ r : Kvs, r.length ≤ (tMembersK html tv cs kw r).length := by
  intro r
  induction r with
  | nil => simp [tMembersK]
  | cons x r ih => obtain ⟨k, v⟩ := x; simp [tMembersK]; omega

theorem tMembersK_mem_le (html : Bool) (tv : JV → Bytes) (cs : Bytes) (kw : Nat) : ∀ (r : Kvs) (kv : Bytes × JV),
    kv ∈ r → (tv kv.2).length ≤ (tMembersK html tv cs kw r).length := by
  intro r
  induction r with
  | nil => intro kv h; simp at h
  | cons z r ih =>
    intro kv h
    obtain ⟨kz, vz⟩ := z
    simp only [List.mem_cons] at h
    rcases h with rfl | h
    · simp [tMembersK]; omega
    · have := ih kv h; simp [tMembersK]; omega

theorem pad_ok : ∀ (n : Nat) (s : PSt), s.bad = false →
    (s.pad n).bad = false ∧ (s.pad n).flat = s.flat ++ List.replicate n 32 := by
  intro n
  induction n with
  | zero => intro s hs; exact ⟨hs, by simp [PSt.pad]⟩
  | succ n ih =>
    intro s hs
    have h1 := push1_ok s 32 hs
    have h2 := ih (s.push1 32) h1.1
    simp only [PSt.pad]
    exact ⟨h2.1, by rw [h2.2, h1.2]; simp [List.replicate_succ]⟩

/-- the column the values of a map start in: the longest encoded key when aligning -/
def kwOf (w : PW) (ord : Kvs → Kvs) (f : Nat) (kvs : Kvs) : Nat :=
  if w.o.align then
    maxKeyLen ((keptP w ord f kvs).map fun kv => (jsonString kv.1 (!w.o.htmlUnsafe), build w.o ord f kv.2)) 1
  else 1

/-- the table `fill` aligns the rows of an array node with — if it does: Align is on, the node is not
deeper than MaxDepth, has two rows or more, all arrays or all maps, the table is not mixed and fits
the width -/
def tableOf (w : PW) (n : PNode) (ms : List PNode) (ndepth depth : Nat) : Option Table :=
  match (if !w.o.align || w.o.maxDepth < ndepth || ms.length < 2 then none else genTables w.fuel n) with
  | none => none
  | some c => if c.mixed || w.width < depth * w.indent + c.size then none else some c

/-- the table for the node built from an array value -/
def tableOfV (w : PW) (ord : Kvs → Kvs) (f : Nat) (xs : List JV) (depth : Nat) : Option Table :=
  tableOf w (build w.o ord (f + 1) (.arr xs)) (xs.map (build w.o ord f)) (arrDepth (xs.map (build w.o ord f)) 0) depth

theorem fill_arr_eq (w : PW) (lim : Option Nat) (f : Nat) (ms : List PNode) (size ndepth : Nat) (sk : Bool)
    (depth : Nat) (flat : Bool) (s : PSt) :
    fill w lim (f + 1) (.arr ms size ndepth sk) depth flat s =
      PSt.flush lim
        (((match tableOf w (.arr ms size ndepth sk) ms ndepth depth with
            | none => fillElems (fill w lim f)
                (layoutOf w depth (flat || (depth * w.indent + size < w.width && ndepth < w.o.maxDepth))).1
                (layoutOf w depth (flat || (depth * w.indent + size < w.width && ndepth < w.o.maxDepth))).2.2
                (depth + 1) ms 0 (s.push1 91)
            | some c => alignRows w.fuel c
                (layoutOf w depth (flat || (depth * w.indent + size < w.width && ndepth < w.o.maxDepth))).1 ms 0
                (s.push1 91)).push
          (layoutOf w depth (flat || (depth * w.indent + size < w.width && ndepth < w.o.maxDepth))).2.1).push1 93) := by
  simp only [fill, tableOf]
  cases htb : (if (!w.o.align || decide (w.o.maxDepth < ndepth) || decide (ms.length < 2)) = true then none
      else genTables w.fuel (.arr ms size ndepth sk)) with
  | none => rfl
  | some c =>
    simp only
    by_cases hbad : (c.mixed || decide (w.width < depth * w.indent + c.size)) = true
    · simp only [hbad, ↓reduceIte]
    · simp only [hbad, Bool.false_eq_true, ↓reduceIte]

theorem tablesArr_mem_list : ∀ (xs : List JV), tablesArrL xs → ∀ x ∈ xs, tablesArr x := by
  intro xs
  induction xs with
  | nil => intro _ x h; simp at h
  | cons y r ih =>
    intro hok x h
    simp only [tablesArrL] at hok
    simp only [List.mem_cons] at h
    rcases h with rfl | h
    · exact hok.1
    · exact ih hok.2 x h

theorem tablesArr_mem_kvs : ∀ (kvs : Kvs), tablesArrK kvs → ∀ kv ∈ kvs, tablesArr kv.2 := by
  intro kvs
  induction kvs with
  | nil => intro _ x h; simp at h
  | cons y r ih =>
    intro hok x h
    obtain ⟨k, v⟩ := y
    simp only [tablesArrK] at hok
    simp only [List.mem_cons] at h
    rcases h with rfl | h
    · exact hok.1
    · exact ih hok.2 x h

theorem tableOf_some (w : PW) (n : PNode) (ms : List PNode) (ndepth depth : Nat) (c : Table)
    (h : tableOf w n ms ndepth depth = some c) :
    w.o.align = true ∧ 2 ≤ ms.length ∧ genTables w.fuel n = some c ∧ depth * w.indent + c.size ≤ w.width := by
  unfold tableOf at h
  split at h
  · cases h
  · rename_i c0 heq
    split at h
    · cases h
    · rename_i hbad
      injection h with h
      subst h
      split at heq
      · cases heq
      · rename_i hcond
        simp only [Bool.or_eq_true, Bool.not_eq_true', decide_eq_true_eq, not_or, Bool.not_eq_false, Nat.not_lt] at hcond hbad
        exact ⟨hcond.1.1, hcond.2, heq, hbad.2⟩

theorem genTables_some (fuel : Nat) (ms : List PNode) (sz dp : Nat) (sk : Bool) (c : Table)
    (h : genTables fuel (.arr ms sz dp sk) = some c) :
    (subKind (ms.map PNode.kind) 0 = Gen.Pretty.arrayNode ∨ subKind (ms.map PNode.kind) 0 = Gen.Pretty.mapNode) ∧
      c = foldUpd fuel ms (.mk (.idx 0) 0 [] 0) := by
  have e : genTables fuel (.arr ms sz dp sk) =
      (if (decide (subKind (List.map PNode.kind ms) 0 = Gen.Pretty.arrayNode) ||
          decide (subKind (List.map PNode.kind ms) 0 = Gen.Pretty.mapNode)) = true then
        some (foldUpd fuel ms (.mk (.idx 0) 0 [] 0)) else none) := rfl
  rw [e] at h
  by_cases hk : (decide (subKind (List.map PNode.kind ms) 0 = Gen.Pretty.arrayNode) ||
      decide (subKind (List.map PNode.kind ms) 0 = Gen.Pretty.mapNode)) = true
  · rw [if_pos hk] at h
    injection h with h
    simp only [Bool.or_eq_true, decide_eq_true_eq] at hk
    exact ⟨hk, h.symm⟩
  · rw [if_neg hk] at h; cases h

/-- when `fill` aligns the rows of an array of a tree whose tables are tables of arrays: the rows are
arrays without objects, the table satisfies the invariant, covers every row and fits the width -/
theorem tableOfV_facts (w : PW) (ord : Kvs → Kvs) (f : Nat) (xs : List JV) (d : Nat) (c : Table)
    (hfu : f ≤ w.fuel) (hnt : tablesArr (.arr xs)) (h : tableOfV w ord f xs d = some c) :
    xs.all isArr = true ∧ arrOnlyL xs ∧ TableA c ∧ (∀ y ∈ xs, Cov (build w.o ord f y) c) ∧
      d * w.indent + c.size ≤ w.width := by
  have hb : build w.o ord (f + 1) (.arr xs) = .arr (xs.map (build w.o ord f))
      (arrSize (xs.map (build w.o ord f)) 0 2) (arrDepth (xs.map (build w.o ord f)) 0)
      (w.o.omitEmpty && xs.length = 0) := by simp [build]
  unfold tableOfV at h
  rw [hb] at h
  obtain ⟨hal, hlen, hg, hfit⟩ := tableOf_some _ _ _ _ _ _ h
  simp only [List.length_map] at hlen
  obtain ⟨hk, hc⟩ := genTables_some _ _ _ _ _ _ hg
  simp only [tablesArr] at hnt
  obtain ⟨hno, harr⟩ := hnt.1 hlen
  have hnz : ∀ x ∈ (xs.map (build w.o ord f)).map PNode.kind, x ≠ 0 := by
    intro x hx
    simp only [List.map_map, List.mem_map, Function.comp] at hx
    obtain ⟨y, _, rfl⟩ := hx
    exact build_kind_ne_zero w.o ord f y
  have hallarr : xs.all isArr = true := by
    rcases hk with hk | hk
    · have hall := subKind_all _ _ (by decide) hnz hk
      simp only [List.all_eq_true]
      intro y hy
      exact build_kind_arr w.o ord f y (hall _ (by
        simp only [List.map_map, List.mem_map, Function.comp]; exact ⟨y, hy, rfl⟩))
    · exfalso
      have hall := subKind_all _ _ (by decide) hnz hk
      have : xs.all isObj = true := by
        simp only [List.all_eq_true]
        intro y hy
        exact build_kind_obj w.o ord f y (hall _ (by
          simp only [List.map_map, List.mem_map, Function.comp]; exact ⟨y, hy, rfl⟩))
      rw [this] at hno; cases hno
  have hao := harr hallarr
  have hrows : ∀ r ∈ xs.map (build w.o ord f), AOnly r ∧ r.height ≤ w.fuel := by
    intro r hr
    simp only [List.mem_map] at hr
    obtain ⟨y, hy, rfl⟩ := hr
    exact ⟨AOnly_build w.o ord f y (arrOnlyL_mem xs hao y hy), by have := height_build w.o ord f y; omega⟩
  obtain ⟨k1, k2, _⟩ := foldUpd_arr w.fuel (xs.map (build w.o ord f)) (.mk (.idx 0) 0 [] 0) hrows (TableA_fresh 0)
  rw [← hc] at k1 k2
  exact ⟨hallarr, hao, k1, fun y hy => k2 _ (List.mem_map_of_mem hy), hfit⟩

/-! ### `skip` marks against the specification-side rule -/

/-- the `skip` mark of a node is the documented rule: nil under OmitNil; empty string, slice, map
under OmitEmpty -/
theorem build_skip (o : POpts) (ord : Kvs → Kvs) (f : Nat) (v : JV) :
    (build o ord (f + 1) v).skip = omits (ojOptsOf o) v := by
  cases v with
  | null => simp [build, PNode.skip, omits, ojOptsOf]
  | bool b => cases b <;> simp [build, PNode.skip, omits]
  | int i => simp [build, PNode.skip, omits]
  | flt t => simp [build, PNode.skip, omits]
  | big t => simp [build, PNode.skip, omits]
  | num t => simp [build, PNode.skip, omits]
  | str x => cases x <;> simp [build, PNode.skip, omits, ojOptsOf]
  | arr xs => cases xs <;> simp [build, PNode.skip, omits, ojOptsOf]
  | obj kvs => cases kvs <;> simp [build, PNode.skip, omits, ojOptsOf]

/-- the members `pretty` writes are those the options keep -/
theorem keptP_eq (w : PW) (ord : Kvs → Kvs) (f : Nat) (kvs : Kvs) (hf : 0 < f) :
    keptP w ord f kvs = (sortKvs (ord kvs)).filter fun kv => !omits (ojOptsOf w.o) kv.2 := by
  obtain ⟨f', rfl⟩ : ∃ f', f = f' + 1 := ⟨f - 1, by omega⟩
  simp only [keptP]
  apply List.filter_congr
  intro kv _
  rw [build_skip]

/-! ### tables of flat objects -/

/-- the writer's key encoding and omission rule -/
def encW (w : PW) : Bytes → Bytes := fun k => jsonString k (!w.o.htmlUnsafe)
def dropW (w : PW) : JV → Bool := omits (ojOptsOf w.o)

theorem build_obj_row (w : PW) (ord : Kvs → Kvs) (f : Nat) (kvs : Kvs) :
    ∃ sz dp sk, build w.o ord (f + 1) (.obj kvs) = .map (rowMs (encW w) (build w.o ord f) (keptP w ord f kvs)) sz dp sk := by
  have hm : (buildMembers w.o (build w.o ord f) (sortKvs (ord kvs)) [] 2 0).1 =
      (keptP w ord f kvs).map fun kv => (jsonString kv.1 (!w.o.htmlUnsafe), build w.o ord f kv.2) := by
    rw [buildMembers_fst]; simp [keptP]
  exact ⟨_, _, _, by simp only [build, hm]; rfl⟩

theorem build_leaf_scalar (o : POpts) (ord : Kvs → Kvs) (f : Nat) (v : JV) (h1 : isArr v = false) (h2 : isObj v = false) :
    ∃ k buf sk, build o ord f v = .leaf k buf sk := by
  cases f with
  | zero => exact ⟨_, _, _, rfl⟩
  | succ f =>
    cases v with
    | arr xs => simp [isArr] at h1
    | obj kvs => simp [isObj] at h2
    | bool b =>
      cases b
      · exact ⟨Gen.Pretty.strNode, Gen.Pretty.falseStr.toList, false, by simp [build]⟩
      · exact ⟨Gen.Pretty.strNode, Gen.Pretty.trueStr.toList, false, by simp [build]⟩
    | _ => exact ⟨_, _, _, rfl⟩

theorem flat_row (w : PW) (ord : Kvs → Kvs) (hord : IsOrder ord) (f : Nat) (kvs : Kvs) (h : flatObj (.obj kvs) = true) :
    FlatMap (build w.o ord (f + 1) (.obj kvs)) := by
  obtain ⟨sz, dp, sk, hb⟩ := build_obj_row w ord f kvs
  rw [hb]
  simp only [FlatMap, rowMs, List.mem_map]
  rintro km ⟨kv, hkv, rfl⟩
  have hperm : (sortKvs (ord kvs)).Perm kvs := (sortKvs_perm _).trans (hord kvs)
  have hmem : kv ∈ kvs := hperm.mem_iff.mp ((List.filter_sublist).subset hkv)
  simp only [flatObj, List.all_eq_true, isScalar, Bool.and_eq_true, Bool.not_eq_true'] at h
  exact build_leaf_scalar w.o ord f kv.2 (h kv hmem).1 (h kv hmem).2

theorem keptP_mem (w : PW) (ord : Kvs → Kvs) (hord : IsOrder ord) (f : Nat) (kvs : Kvs) (hf : 0 < f) (kv : Bytes × JV) :
    kv ∈ keptP w ord f kvs ↔ (kv ∈ kvs ∧ dropW w kv.2 = false) := by
  have hperm : (sortKvs (ord kvs)).Perm kvs := (sortKvs_perm _).trans (hord kvs)
  rw [keptP_eq w ord f kvs hf]
  simp only [List.mem_filter, hperm.mem_iff, dropW, Bool.not_eq_true']

theorem rowKeys_mem (drop : JV → Bool) (enc : Bytes → Bytes) (kvs : Kvs) (k : Bytes) :
    k ∈ rowKeys drop enc (.obj kvs) ↔ ∃ kv ∈ kvs, drop kv.2 = false ∧ enc kv.1 = k := by
  simp only [rowKeys, List.mem_map, List.mem_filter, Bool.not_eq_true']
  constructor
  · rintro ⟨kv, ⟨h1, h2⟩, h3⟩; exact ⟨kv, h1, h2, h3⟩
  · rintro ⟨kv, h1, h2, h3⟩; exact ⟨kv, ⟨h1, h2⟩, h3⟩

theorem findKv_isSome (enc : Bytes → Bytes) (key : Bytes) : ∀ kept : Kvs, (∃ kv ∈ kept, enc kv.1 = key) →
    (findKv enc key kept).isSome = true := by
  intro kept
  induction kept with
  | nil => rintro ⟨kv, h, _⟩; simp at h
  | cons x r ih =>
    rintro ⟨kv, h, e⟩
    simp only [findKv]
    by_cases hx : enc x.1 = key
    · simp [hx]
    · simp only [hx, ↓reduceIte]
      simp only [List.mem_cons] at h
      rcases h with rfl | h
      · exact absurd e hx
      · exact ih ⟨kv, h, e⟩

theorem lastPres_of_last (enc : Bytes → Bytes) (kept : Kvs) : ∀ cols : List Table,
    (∀ pre c0, cols = pre ++ [c0] → (findKv enc c0.key.string kept).isSome = true) → lastPres enc kept cols := by
  intro cols
  induction cols with
  | nil => intro _; simp [lastPres]
  | cons c r ih =>
    intro h
    cases r with
    | nil => simp only [lastPres]; exact h [] c rfl
    | cons d r' =>
      simp only [lastPres]
      exact ih (fun pre c0 e => h (c :: pre) c0 (by rw [e]; rfl))

/-- what the kind of the rows and the table are when `fill` aligns the rows of an array -/
theorem tableOfV_kind (w : PW) (ord : Kvs → Kvs) (f : Nat) (xs : List JV) (d : Nat) (c : Table)
    (h : tableOfV w ord f xs d = some c) :
    w.o.align = true ∧ 2 ≤ xs.length ∧ d * w.indent + c.size ≤ w.width ∧
      c = foldUpd w.fuel (xs.map (build w.o ord f)) (.mk (.idx 0) 0 [] 0) ∧
      (xs.all isArr = true ∨ (xs.all isObj = true ∧ 0 < f)) := by
  have hb : build w.o ord (f + 1) (.arr xs) = .arr (xs.map (build w.o ord f))
      (arrSize (xs.map (build w.o ord f)) 0 2) (arrDepth (xs.map (build w.o ord f)) 0)
      (w.o.omitEmpty && xs.length = 0) := by simp [build]
  unfold tableOfV at h
  rw [hb] at h
  obtain ⟨hal, hlen, hg, hfit⟩ := tableOf_some _ _ _ _ _ _ h
  simp only [List.length_map] at hlen
  obtain ⟨hk, hc⟩ := genTables_some _ _ _ _ _ _ hg
  have hnz : ∀ x ∈ (xs.map (build w.o ord f)).map PNode.kind, x ≠ 0 := by
    intro x hx
    simp only [List.map_map, List.mem_map, Function.comp] at hx
    obtain ⟨y, _, rfl⟩ := hx
    exact build_kind_ne_zero w.o ord f y
  refine ⟨hal, hlen, hfit, hc, ?_⟩
  rcases hk with hk | hk
  · left
    have hall := subKind_all _ _ (by decide) hnz hk
    simp only [List.all_eq_true]
    intro y hy
    exact build_kind_arr w.o ord f y (hall _ (by
      simp only [List.map_map, List.mem_map, Function.comp]; exact ⟨y, hy, rfl⟩))
  · right
    have hall := subKind_all _ _ (by decide) hnz hk
    refine ⟨?_, ?_⟩
    · simp only [List.all_eq_true]
      intro y hy
      exact build_kind_obj w.o ord f y (hall _ (by
        simp only [List.map_map, List.mem_map, Function.comp]; exact ⟨y, hy, rfl⟩))
    · cases f with
      | succ f => omega
      | zero =>
        exfalso
        cases xs with
        | nil => simp at hlen
        | cons y r =>
          have := hall (build w.o ord 0 y).kind (by simp)
          simp only [build, PNode.kind] at this
          exact absurd this (by decide)

/-- the table of two or more flat object rows -/
theorem mapTable_facts (w : PW) (ord : Kvs → Kvs) (hord : IsOrder ord) (f : Nat) (xs : List JV) (c : Table)
    (hfu : 1 ≤ w.fuel) (hobj : xs.all isObj = true) (hflat : ∀ x ∈ xs, flatObj x = true) (hlen : 2 ≤ xs.length)
    (hc : c = foldUpd w.fuel (xs.map (build w.o ord (f + 1))) (.mk (.idx 0) 0 [] 0)) :
    (∀ r ∈ xs.map (build w.o ord (f + 1)), FlatMap r) ∧ MCols c.cols ∧ MGood c ∧
      ∀ key', key' ∈ c.cols.map Table.key ↔
        ∃ x ∈ xs.map (build w.o ord (f + 1)), ∃ k ∈ x.mkeys, key' = .str k := by
  have hrows : ∀ r ∈ xs.map (build w.o ord (f + 1)), FlatMap r := by
    intro r hr
    simp only [List.mem_map] at hr
    obtain ⟨y, hy, rfl⟩ := hr
    have hyo : isObj y = true := by simp only [List.all_eq_true] at hobj; exact hobj y hy
    cases y with
    | obj kvs => exact flat_row w ord hord f kvs (hflat _ hy)
    | _ => simp [isObj] at hyo
  obtain ⟨fu, hfue⟩ : ∃ fu, w.fuel = fu + 1 := ⟨w.fuel - 1, by omega⟩
  cases xs with
  | nil => simp at hlen
  | cons y r =>
    rw [hfue] at hc
    simp only [List.map_cons] at hc hrows ⊢
    obtain ⟨a1, a2, a3⟩ := foldUpd_flat fu (build w.o ord (f + 1) y) (r.map (build w.o ord (f + 1))) hrows
    rw [← hc] at a1 a2 a3
    exact ⟨hrows, a1, a2, a3⟩

theorem nodup_of_map {α β : Type} (g : α → β) : ∀ l : List α, (l.map g).Nodup → l.Nodup := by
  intro l
  induction l with
  | nil => intro _; simp
  | cons a r ih =>
    intro h
    simp only [List.map_cons, List.nodup_cons] at h ⊢
    exact ⟨fun hm => h.1 (List.mem_map_of_mem hm), ih h.2⟩

theorem mkeys_nonobj (o : POpts) (ord : Kvs → Kvs) (f : Nat) (y : JV) (h : isObj y = false) :
    (build o ord f y).mkeys = [] := by
  cases f with
  | zero => rfl
  | succ f =>
    cases y with
    | obj kvs => simp [isObj] at h
    | bool b => cases b <;> simp [build, PNode.mkeys]
    | _ => rfl

theorem mkeys_row (w : PW) (ord : Kvs → Kvs) (f : Nat) (kvs : Kvs) :
    (build w.o ord (f + 1) (.obj kvs)).mkeys = (keptP w ord f kvs).map fun kv => encW w kv.1 := by
  obtain ⟨sz, dp, sk, hb⟩ := build_obj_row w ord f kvs
  rw [hb]
  simp [PNode.mkeys, rowMs]

/-- everything `parse_flatRow` asks of a row of a table of flat objects with complete rows -/
theorem flatRow_facts (w : PW) (ord : Kvs → Kvs) (hord : IsOrder ord) (f : Nat) (xs : List JV) (c : Table) (hf : 0 < f)
    (hsorted : MSorted c.cols)
    (hkeys : ∀ key', key' ∈ c.cols.map Table.key ↔
        ∃ x ∈ xs.map (build w.o ord (f + 1)), ∃ k ∈ x.mkeys, key' = .str k)
    (hcomp : rowsComplete (dropW w) (encW w) xs) (kvs : Kvs) (hy : JV.obj kvs ∈ xs) (hok : okW (.obj kvs))
    (hordk : keysEncOrdered (dropW w) (encW w) (.obj kvs)) (hflat : flatObj (.obj kvs) = true) :
    (∀ kv ∈ keptP w ord f kvs, okW kv.2 ∧ isArr kv.2 = false ∧ isObj kv.2 = false) ∧
    ((keptP w ord f kvs).map fun kv => sanitize kv.1).Nodup ∧
    ((keptP w ord f kvs).map fun kv => jsonString kv.1 (!w.o.htmlUnsafe)).Pairwise (fun a b => bytesLt a b = true) ∧
    (∀ kv ∈ keptP w ord f kvs, ∃ col ∈ c.cols, col.key.string = jsonString kv.1 (!w.o.htmlUnsafe)) ∧
    (keptP w ord f kvs = [] ∨ lastPres (fun k => jsonString k (!w.o.htmlUnsafe)) (keptP w ord f kvs) c.cols) := by
  have hperm : (sortKvs (ord kvs)).Perm kvs := (sortKvs_perm _).trans (hord kvs)
  have hsub : (keptP w ord f kvs).Sublist (sortKvs (ord kvs)) := List.filter_sublist
  simp only [okW] at hok
  have hmemk := keptP_mem w ord hord f kvs hf
  -- the row shows exactly the keys of its kept members
  have hrk : ∀ k, k ∈ rowKeys (dropW w) (encW w) (.obj kvs) ↔ ∃ kv ∈ keptP w ord f kvs, encW w kv.1 = k := by
    intro k
    rw [rowKeys_mem]
    constructor
    · rintro ⟨kv, h1, h2, h3⟩; exact ⟨kv, (hmemk kv).mpr ⟨h1, h2⟩, h3⟩
    · rintro ⟨kv, h1, h3⟩; exact ⟨kv, ((hmemk kv).mp h1).1, ((hmemk kv).mp h1).2, h3⟩
  -- every key of the row is a column
  have hcov : ∀ kv ∈ keptP w ord f kvs, ∃ col ∈ c.cols, col.key.string = jsonString kv.1 (!w.o.htmlUnsafe) := by
    intro kv hkv
    have : TKey.str (encW w kv.1) ∈ c.cols.map Table.key := by
      rw [hkeys]
      exact ⟨build w.o ord (f + 1) (.obj kvs), List.mem_map_of_mem hy, encW w kv.1,
        by rw [mkeys_row]; exact List.mem_map_of_mem (f := fun kv => encW w kv.1) hkv, rfl⟩
    simp only [List.mem_map] at this
    obtain ⟨col, hc, e⟩ := this
    exact ⟨col, hc, by rw [e]; rfl⟩
  refine ⟨?_, ?_, ?_, hcov, ?_⟩
  · intro kv hkv
    have hm := ((hmemk kv).mp hkv).1
    simp only [flatObj, List.all_eq_true, isScalar, Bool.and_eq_true, Bool.not_eq_true'] at hflat
    exact ⟨okW_mem_kvs _ hok.2 kv hm, (hflat kv hm).1, (hflat kv hm).2⟩
  · exact (hsub.map _).nodup ((hperm.map _).nodup_iff.mpr hok.1)
  · -- sorted by key, and the encodings are ordered like the keys
    have hraw : (kvs.map fun kv => kv.1).Nodup := by
      have := hok.1
      have e : kvs.map (fun kv => sanitize kv.1) = (kvs.map fun kv => kv.1).map sanitize := by simp
      rw [e] at this
      exact nodup_of_map _ _ this
    have hasc := sortKvs_ascending (ord kvs) (((hord kvs).map _).nodup_iff.mpr hraw)
    have hasc2 : (keptP w ord f kvs).Pairwise (fun a b => bytesLt a.1 b.1 = true) := List.Pairwise.sublist hsub hasc
    rw [List.pairwise_map]
    have hall : ∀ a ∈ keptP w ord f kvs, ∀ b ∈ keptP w ord f kvs, bytesLt a.1 b.1 = true →
        bytesLt (jsonString a.1 (!w.o.htmlUnsafe)) (jsonString b.1 (!w.o.htmlUnsafe)) = true := by
      intro a ha b hb hlt
      simp only [keysEncOrdered] at hordk
      exact hordk a ((hmemk a).mp ha).1 b ((hmemk b).mp hb).1 ((hmemk a).mp ha).2 ((hmemk b).mp hb).2 hlt
    exact List.Pairwise.imp_of_mem (fun {a b} ha hb h => hall a ha b hb h) hasc2
  · -- the row is empty or has a member under the last column
    rcases hcomp _ hy with hnone | ⟨k, hk, hmax⟩
    · left
      cases hkp : keptP w ord f kvs with
      | nil => rfl
      | cons kv r =>
        exfalso
        have : encW w kv.1 ∈ rowKeys (dropW w) (encW w) (.obj kvs) := (hrk _).mpr ⟨kv, by rw [hkp]; simp, rfl⟩
        rw [hnone] at this; simp at this
    · right
      apply lastPres_of_last
      intro pre c0 hcols
      obtain ⟨kv0, hkv0, hek⟩ := (hrk k).mp hk
      -- the last column's key is shown by some row
      have hc0 : c0.key ∈ c.cols.map Table.key := by rw [hcols]; simp
      obtain ⟨x, hx, kl, hkl, hkey0⟩ := (hkeys _).mp hc0
      simp only [List.mem_map] at hx
      obtain ⟨y', hy', rfl⟩ := hx
      have hkl' : kl ∈ rowKeys (dropW w) (encW w) y' := by
        cases y' with
        | obj kvs' =>
          rw [mkeys_row] at hkl
          simp only [List.mem_map] at hkl
          obtain ⟨kv', hkv', rfl⟩ := hkl
          rw [rowKeys_mem]
          have := (keptP_mem w ord hord f kvs' hf kv').mp hkv'
          exact ⟨kv', this.1, this.2, rfl⟩
        | _ => rw [mkeys_nonobj _ _ _ _ rfl] at hkl; simp at hkl
      have hnlt : bytesLt k kl = false := hmax y' hy' kl hkl'
      -- the column of `k` is the last one
      obtain ⟨col, hcol, hcolk⟩ := hcov kv0 hkv0
      have hc0s : c0.key.string = kl := by rw [hkey0]; rfl
      have hcoleq : col.key.string = k := by rw [hcolk]; exact hek
      rw [hcols] at hcol hsorted
      simp only [List.mem_append, List.mem_singleton] at hcol
      have hkeq : kl = k := by
        rcases hcol with hpre | rfl
        · exfalso
          have := (List.pairwise_append.mp hsorted).2.2 col hpre c0 (by simp)
          rw [hcoleq, hc0s, hnlt] at this; cases this
        · rw [← hc0s, hcoleq]
      apply findKv_isSome
      exact ⟨kv0, hkv0, by rw [hc0s, hkeq]; exact hek⟩

theorem tablesAO_mem_list (drop : JV → Bool) (enc : Bytes → Bytes) : ∀ (xs : List JV), tablesAOL drop enc xs →
    ∀ x ∈ xs, tablesAO drop enc x := by
  intro xs
  induction xs with
  | nil => intro _ x h; simp at h
  | cons y r ih =>
    intro hok x h
    simp only [tablesAOL] at hok
    simp only [List.mem_cons] at h
    rcases h with rfl | h
    · exact hok.1
    · exact ih hok.2 x h

theorem tablesAO_mem_kvs (drop : JV → Bool) (enc : Bytes → Bytes) : ∀ (kvs : Kvs), tablesAOK drop enc kvs →
    ∀ kv ∈ kvs, tablesAO drop enc kv.2 := by
  intro kvs
  induction kvs with
  | nil => intro _ x h; simp at h
  | cons y r ih =>
    intro hok x h
    obtain ⟨k, v⟩ := y
    simp only [tablesAOK] at hok
    simp only [List.mem_cons] at h
    rcases h with rfl | h
    · exact hok.1
    · exact ih hok.2 x h

/-- the table of rows that are arrays without objects -/
theorem arrTable_facts (w : PW) (ord : Kvs → Kvs) (f : Nat) (xs : List JV) (c : Table) (hfu : f ≤ w.fuel)
    (hao : arrOnlyL xs) (hc : c = foldUpd w.fuel (xs.map (build w.o ord f)) (.mk (.idx 0) 0 [] 0)) :
    TableA c ∧ ∀ y ∈ xs, Cov (build w.o ord f y) c := by
  have hrows : ∀ r ∈ xs.map (build w.o ord f), AOnly r ∧ r.height ≤ w.fuel := by
    intro r hr
    simp only [List.mem_map] at hr
    obtain ⟨y, hy, rfl⟩ := hr
    exact ⟨AOnly_build w.o ord f y (arrOnlyL_mem xs hao y hy), by have := height_build w.o ord f y; omega⟩
  obtain ⟨k1, k2, _⟩ := foldUpd_arr w.fuel (xs.map (build w.o ord f)) (.mk (.idx 0) 0 [] 0) hrows (TableA_fresh 0)
  rw [← hc] at k1 k2
  exact ⟨k1, fun y hy => k2 _ (List.mem_map_of_mem hy)⟩

/-- the rows of `checkAlign` as the elements of an array text -/
theorem rowsT_eq (fuel : Nat) (c : Table) (cs : Bytes) (bv : JV → PNode) : ∀ (r : List JV) (i : Nat),
    rowsT fuel c cs (r.map bv) (i + 1) = tElems (fun y => nodeT fuel (bv y) c) cs r := by
  intro r
  induction r with
  | nil => intro i; rfl
  | cons y r ih => intro i; simp [rowsT, tElems, ih]

/-- the text `fill` produces when the only tables aligned are tables of arrays -/
def ptext (w : PW) (ord : Kvs → Kvs) : Nat → JV → Nat → Bool → Bytes
  | 0, _, _, _ => []
  | f+1, v, d, flat =>
    match v with
    | .null => Gen.Pretty.nullStr.toList
    | .bool b => if b then Gen.Pretty.trueStr.toList else Gen.Pretty.falseStr.toList
    | .int i => fmtInt i
    | .flt t => t
    | .big _ => []
    | .num _ => []
    | .str x => jsonString x (!w.o.htmlUnsafe)
    | .arr xs =>
      match xs with
      | [] => 91 :: ((lay w ord (f + 1) (.arr []) d flat).2.1 ++ [93])
      | x :: r =>
        match tableOfV w ord f (x :: r) d with
        | some c =>
          91 :: ((lay w ord (f + 1) (.arr (x :: r)) d flat).1 ++ nodeT w.fuel (build w.o ord f x) c
            ++ tElems (fun y => nodeT w.fuel (build w.o ord f y) c) (lay w ord (f + 1) (.arr (x :: r)) d flat).1 r
            ++ (lay w ord (f + 1) (.arr (x :: r)) d flat).2.1 ++ [93])
        | none =>
        91 :: ((if (lay w ord (f + 1) (.arr (x :: r)) d flat).2.2 then [] else (lay w ord (f + 1) (.arr (x :: r)) d flat).1)
          ++ ptext w ord f x (d + 1) (lay w ord (f + 1) (.arr (x :: r)) d flat).2.2
          ++ tElems (fun y => ptext w ord f y (d + 1) (lay w ord (f + 1) (.arr (x :: r)) d flat).2.2)
              (lay w ord (f + 1) (.arr (x :: r)) d flat).1 r
          ++ (lay w ord (f + 1) (.arr (x :: r)) d flat).2.1 ++ [93])
    | .obj kvs =>
      match keptP w ord f kvs with
      | [] => 123 :: ((lay w ord (f + 1) (.obj kvs) d flat).2.1 ++ [125])
      | (k, x) :: r =>
        123 :: ((if (lay w ord (f + 1) (.obj kvs) d flat).2.2 then [] else (lay w ord (f + 1) (.obj kvs) d flat).1)
          ++ jsonString k (!w.o.htmlUnsafe) ++ colonPad (!w.o.htmlUnsafe) (kwOf w ord f kvs) k
          ++ ptext w ord f x (d + 1) (lay w ord (f + 1) (.obj kvs) d flat).2.2
          ++ tMembersK (!w.o.htmlUnsafe) (fun y => ptext w ord f y (d + 1) (lay w ord (f + 1) (.obj kvs) d flat).2.2)
              (lay w ord (f + 1) (.obj kvs) d flat).1 (kwOf w ord f kvs) r
          ++ (lay w ord (f + 1) (.obj kvs) d flat).2.1 ++ [125])

/-! ### the loops of `fill` -/

theorem fillElems_spec (fv : PNode → Nat → Bool → PSt → PSt) (bv : JV → PNode) (tv : JV → Bytes)
    (cs : Bytes) (flat : Bool) (d2 : Nat) :
    ∀ (r : List JV) (x : JV) (i : Nat) (s : PSt),
      (∀ y ∈ x :: r, ∀ s, s.bad = false →
        (fv (bv y) d2 flat s).bad = false ∧ (fv (bv y) d2 flat s).flat = s.flat ++ tv y) →
      s.bad = false →
      (fillElems fv cs flat d2 ((x :: r).map bv) i s).bad = false ∧
      (fillElems fv cs flat d2 ((x :: r).map bv) i s).flat =
        s.flat ++ (if 0 < i then 44 :: cs else if flat then [] else cs) ++ tv x ++ tElems tv cs r := by
  intro r
  induction r with
  | nil =>
    intro x i s hfv' hs
    have hfv := fun s => hfv' x (by simp) s
    simp only [List.map_cons, List.map_nil, fillElems, tElems, List.append_nil]
    by_cases hi : 0 < i
    · have h1 := push1_ok s 44 hs
      have h2 := push_ok (s.push1 44) cs h1.1
      have h3 := hfv _ h2.1
      simp only [hi, ↓reduceIte]
      exact ⟨h3.1, by rw [h3.2, h2.2, h1.2]; simp⟩
    · cases flat with
      | true =>
        have h3 := hfv s hs
        simp only [hi, ↓reduceIte, Bool.not_true, Bool.false_eq_true]
        exact ⟨h3.1, by rw [h3.2]; simp⟩
      | false =>
        have h2 := push_ok s cs hs
        have h3 := hfv _ h2.1
        simp only [hi, ↓reduceIte, Bool.not_false]
        exact ⟨h3.1, by rw [h3.2, h2.2]; simp⟩
  | cons y r ih =>
    intro x i s hfv' hs
    have hfv := fun s => hfv' x (by simp) s
    -- state after the first element
    have hfirst : ∃ s1 : PSt, fillElems fv cs flat d2 ((x :: y :: r).map bv) i s =
        fillElems fv cs flat d2 ((y :: r).map bv) (i + 1) s1 ∧ s1.bad = false ∧
        s1.flat = s.flat ++ (if 0 < i then 44 :: cs else if flat then [] else cs) ++ tv x := by
      simp only [List.map_cons, fillElems]
      by_cases hi : 0 < i
      · have h1 := push1_ok s 44 hs
        have h2 := push_ok (s.push1 44) cs h1.1
        have h3 := hfv _ h2.1
        simp only [hi, ↓reduceIte]
        exact ⟨_, rfl, h3.1, by rw [h3.2, h2.2, h1.2]; simp⟩
      · cases flat with
        | true =>
          have h3 := hfv s hs
          simp only [hi, ↓reduceIte, Bool.not_true, Bool.false_eq_true]
          exact ⟨_, rfl, h3.1, by rw [h3.2]; simp⟩
        | false =>
          have h2 := push_ok s cs hs
          have h3 := hfv _ h2.1
          simp only [hi, ↓reduceIte, Bool.not_false]
          exact ⟨_, rfl, h3.1, by rw [h3.2, h2.2]; simp⟩
    obtain ⟨s1, he, hb1, hf1⟩ := hfirst
    have := ih y (i + 1) s1 (fun z hz => hfv' z (by simp [hz])) hb1
    rw [he]
    refine ⟨this.1, ?_⟩
    rw [this.2, hf1]
    simp [tElems]

theorem fillMembers_spec (fv : PNode → Nat → Bool → PSt → PSt) (bv : JV → PNode) (tv : JV → Bytes) (html : Bool)
    (cs : Bytes) (flat : Bool) (d2 kw : Nat) :
    ∀ (r : Kvs) (kx : Bytes × JV) (i : Nat) (s : PSt),
      (∀ kv ∈ kx :: r, ∀ s, s.bad = false →
        (fv (bv kv.2) d2 flat s).bad = false ∧ (fv (bv kv.2) d2 flat s).flat = s.flat ++ tv kv.2) →
      s.bad = false →
      (fillMembers fv cs flat d2 kw ((kx :: r).map fun kv => (jsonString kv.1 html, bv kv.2)) i s).bad = false ∧
      (fillMembers fv cs flat d2 kw ((kx :: r).map fun kv => (jsonString kv.1 html, bv kv.2)) i s).flat =
        s.flat ++ (if 0 < i then 44 :: cs else if flat then [] else cs) ++ jsonString kx.1 html ++ colonPad html kw kx.1 ++
          tv kx.2 ++ tMembersK html tv cs kw r := by
  -- one member
  have hone : ∀ (kx : Bytes × JV) (i : Nat) (s : PSt),
      (∀ s, s.bad = false →
        (fv (bv kx.2) d2 flat s).bad = false ∧ (fv (bv kx.2) d2 flat s).flat = s.flat ++ tv kx.2) →
      s.bad = false →
      ∃ s1 : PSt, (∀ rest, fillMembers fv cs flat d2 kw ((jsonString kx.1 html, bv kx.2) :: rest) i s =
          fillMembers fv cs flat d2 kw rest (i + 1) s1) ∧ s1.bad = false ∧
        s1.flat = s.flat ++ (if 0 < i then 44 :: cs else if flat then [] else cs) ++ jsonString kx.1 html ++ colonPad html kw kx.1 ++ tv kx.2 := by
    intro kx i s hfv hs
    -- the state before the key
    have hpre : ∃ s0 : PSt, (if 0 < i then (s.push1 44).push cs else if !flat then s.push cs else s) = s0 ∧
        s0.bad = false ∧ s0.flat = s.flat ++ (if 0 < i then 44 :: cs else if flat then [] else cs) := by
      by_cases hi : 0 < i
      · have h1 := push1_ok s 44 hs
        have h2 := push_ok (s.push1 44) cs h1.1
        simp only [hi, ↓reduceIte]
        exact ⟨_, rfl, h2.1, by rw [h2.2, h1.2]; simp⟩
      · cases flat with
        | true => simp only [hi, ↓reduceIte, Bool.not_true, Bool.false_eq_true]; exact ⟨_, rfl, hs, by simp⟩
        | false =>
          have h2 := push_ok s cs hs
          simp only [hi, ↓reduceIte, Bool.not_false, Bool.false_eq_true]
          exact ⟨_, rfl, h2.1, by rw [h2.2]⟩
    obtain ⟨s0, he0, hb0, hf0⟩ := hpre
    have h1 := push_ok s0 (jsonString kx.1 html) hb0
    have h2 := push1_ok _ 58 h1.1
    have h3 := push1_ok _ 32 h2.1
    have h3' := pad_ok (kw - (jsonString kx.1 html).length) _ h3.1
    have h4 := hfv _ h3'.1
    refine ⟨fv (bv kx.2) d2 flat ((((s0.push (jsonString kx.1 html)).push1 58).push1 32).pad
      (kw - (jsonString kx.1 html).length)), ?_, h4.1, ?_⟩
    · intro rest
      simp only [fillMembers, he0]
    · rw [h4.2, h3'.2, h3.2, h2.2, h1.2, hf0]; simp [colonPad]
  intro r
  induction r with
  | nil =>
    intro kx i s hfv' hs
    obtain ⟨s1, he, hb1, hf1⟩ := hone kx i s (hfv' kx (by simp)) hs
    simp only [List.map_cons, List.map_nil, he, fillMembers, tMembersK, List.append_nil]
    exact ⟨hb1, hf1⟩
  | cons y r ih =>
    intro kx i s hfv' hs
    obtain ⟨s1, he, hb1, hf1⟩ := hone kx i s (hfv' kx (by simp)) hs
    have := ih y (i + 1) s1 (fun z hz => hfv' z (by simp [hz])) hb1
    simp only [List.map_cons] at this ⊢
    rw [he]
    refine ⟨this.1, ?_⟩
    rw [this.2, hf1]
    simp [tMembersK]

/-- when no table is aligned (Align off, or no array of the tree is a table), everything `fill` does
amounts to appending `ptext`; no slice is ever out of range (`bad` stays off) -/
theorem fill_flat (w : PW) (lim : Option Nat) (ord : Kvs → Kvs) (hord : IsOrder ord) (hw : w.width ≤ 128) :
    ∀ (f : Nat) (v : JV) (d : Nat) (flat : Bool) (s : PSt), (w.o.align = true → tablesAO (dropW w) (encW w) v) → f ≤ w.fuel →
      s.bad = false →
      (fill w lim f (build w.o ord f v) d flat s).bad = false ∧
      (fill w lim f (build w.o ord f v) d flat s).flat = s.flat ++ ptext w ord f v d flat := by
  intro f
  induction f with
  | zero => intro v d flat s _ _ hs; simp [fill, ptext, hs]
  | succ f ih =>
    intro v d flat s hnt hfu hs
    have leaf : ∀ (k : UInt8) (buf : Bytes) (sk : Bool),
        (fill w lim (f + 1) (.leaf k buf sk) d flat s).bad = false ∧
        (fill w lim (f + 1) (.leaf k buf sk) d flat s).flat = s.flat ++ buf := by
      intro k buf sk
      have h1 := push_ok s buf hs
      have h2 := flush_ok lim _ h1.1
      simp only [fill]
      exact ⟨h2.1, by rw [h2.2, h1.2]⟩
    cases v with
    | null => simpa [build, ptext] using leaf _ _ _
    | bool b => cases b <;> simpa [build, ptext] using leaf _ _ _
    | int i => simpa [build, ptext] using leaf _ _ _
    | flt t => simpa [build, ptext] using leaf _ _ _
    | big t => simpa [build, ptext] using leaf Gen.Pretty.strNode [] false
    | num t => simpa [build, ptext] using leaf Gen.Pretty.strNode [] false
    | str x => simpa [build, ptext] using leaf _ _ _
    | arr xs =>
      have hb : build w.o ord (f + 1) (.arr xs) = .arr (xs.map (build w.o ord f))
          (arrSize (xs.map (build w.o ord f)) 0 2) (arrDepth (xs.map (build w.o ord f)) 0)
          (w.o.omitEmpty && xs.length = 0) := by simp [build]
      have hl : layoutOf w d (flat || (d * w.indent + arrSize (xs.map (build w.o ord f)) 0 2 < w.width &&
          arrDepth (xs.map (build w.o ord f)) 0 < w.o.maxDepth)) = lay w ord (f + 1) (.arr xs) d flat := by
        simp [lay, hb, PNode.size, PNode.depth]
      have hnm : ∀ y ∈ xs, (w.o.align = true → tablesAO (dropW w) (encW w) y) := by
        intro y hy hal
        have hn := hnt hal
        simp only [tablesAO] at hn
        exact tablesAO_mem_list _ _ _ hn.2 y hy
      rw [hb, fill_arr_eq, hl]
      have h1 := push1_ok s 91 hs
      cases xs with
      | nil =>
        have htn : tableOf w (.arr (([] : List JV).map (build w.o ord f)) (arrSize (([] : List JV).map (build w.o ord f)) 0 2)
            (arrDepth (([] : List JV).map (build w.o ord f)) 0) (w.o.omitEmpty && ([] : List JV).length = 0))
            (([] : List JV).map (build w.o ord f)) (arrDepth (([] : List JV).map (build w.o ord f)) 0) d = none := by
          simp [tableOf]
        rw [htn]
        have h2 := push_ok (s.push1 91) (lay w ord (f + 1) (.arr []) d flat).2.1 h1.1
        have h3 := push1_ok _ 93 h2.1
        have h4 := flush_ok lim _ h3.1
        simp only [List.map_nil, fillElems, ptext]
        exact ⟨h4.1, by rw [h4.2, h3.2, h2.2, h1.2]; simp⟩
      | cons x r =>
        have htv : tableOf w (.arr ((x :: r).map (build w.o ord f)) (arrSize ((x :: r).map (build w.o ord f)) 0 2)
            (arrDepth ((x :: r).map (build w.o ord f)) 0) (w.o.omitEmpty && (x :: r).length = 0))
            ((x :: r).map (build w.o ord f)) (arrDepth ((x :: r).map (build w.o ord f)) 0) d =
            tableOfV w ord f (x :: r) d := by
          simp only [tableOfV, hb]
        rw [htv]
        simp only [ptext]
        cases htab : tableOfV w ord f (x :: r) d with
        | none =>
          have hsp := fillElems_spec (fill w lim f) (build w.o ord f)
            (fun y => ptext w ord f y (d + 1) (lay w ord (f + 1) (.arr (x :: r)) d flat).2.2)
            (lay w ord (f + 1) (.arr (x :: r)) d flat).1 (lay w ord (f + 1) (.arr (x :: r)) d flat).2.2 (d + 1)
            r x 0 (s.push1 91) (fun y hy s hs => ih y (d + 1) _ s (hnm y hy) (by omega) hs) h1.1
          have h2 := push_ok _ (lay w ord (f + 1) (.arr (x :: r)) d flat).2.1 hsp.1
          have h3 := push1_ok _ 93 h2.1
          have h4 := flush_ok lim _ h3.1
          simp only
          exact ⟨h4.1, by rw [h4.2, h3.2, h2.2, hsp.2, h1.2]; simp⟩
        | some c =>
          obtain ⟨hal, hlen, hfit, hc, hkind⟩ := tableOfV_kind w ord f (x :: r) d c htab
          have hn := hnt hal
          simp only [tablesAO] at hn
          obtain ⟨harr, hobj⟩ := hn.1 hlen
          have hrok : ∀ m ∈ (x :: r).map (build w.o ord f), nodeOK w.fuel m c := by
            rcases hkind with hk | ⟨hk, hf0⟩
            · have hao := harr hk
              obtain ⟨hta, _⟩ := arrTable_facts w ord f (x :: r) c (by omega) hao hc
              intro m hm
              simp only [List.mem_map] at hm
              obtain ⟨y, hy, rfl⟩ := hm
              exact nodeOK_of_TableA w.fuel _ c (AOnly_build w.o ord f y (arrOnlyL_mem _ hao y hy)) hta (by omega)
            · obtain ⟨f', rfl⟩ : ∃ f', f = f' + 1 := ⟨f - 1, by omega⟩
              obtain ⟨fu, hfue⟩ : ∃ fu, w.fuel = fu + 1 := ⟨w.fuel - 1, by omega⟩
              obtain ⟨hrows, _, hgood, _⟩ := mapTable_facts w ord hord f' (x :: r) c (by omega) hk
                (fun y hy => ((hobj hk).1 y hy).1) hlen hc
              intro m hm
              rw [hfue]
              exact nodeOK_flat fu m c (hrows m hm) hgood (by omega)
          have hsp := alignRows_flat w.fuel c (lay w ord (f + 1) (.arr (x :: r)) d flat).1
            ((x :: r).map (build w.o ord f)) 0 (s.push1 91) hrok h1.1
          have h2 := push_ok _ (lay w ord (f + 1) (.arr (x :: r)) d flat).2.1 hsp.1
          have h3 := push1_ok _ 93 h2.1
          have h4 := flush_ok lim _ h3.1
          simp only
          refine ⟨h4.1, ?_⟩
          rw [h4.2, h3.2, h2.2, hsp.2, h1.2]
          simp only [List.map_cons, rowsT, Nat.lt_irrefl, ↓reduceIte, List.nil_append, Nat.zero_add, rowsT_eq]
          simp
    | obj kvs =>
      have hm : (buildMembers w.o (build w.o ord f) (sortKvs (ord kvs)) [] 2 0).1 =
          (keptP w ord f kvs).map fun kv => (jsonString kv.1 (!w.o.htmlUnsafe), build w.o ord f kv.2) := by
        rw [buildMembers_fst]; simp [keptP]
      have hb : build w.o ord (f + 1) (.obj kvs) = .map
          ((keptP w ord f kvs).map fun kv => (jsonString kv.1 (!w.o.htmlUnsafe), build w.o ord f kv.2))
          (buildMembers w.o (build w.o ord f) (sortKvs (ord kvs)) [] 2 0).2.1
          (buildMembers w.o (build w.o ord f) (sortKvs (ord kvs)) [] 2 0).2.2
          (w.o.omitEmpty && kvs.length = 0) := by
        simp only [build, hm]
      have hl : layoutOf w d (flat || (d * w.indent + (buildMembers w.o (build w.o ord f) (sortKvs (ord kvs)) [] 2 0).2.1 < w.width &&
          (buildMembers w.o (build w.o ord f) (sortKvs (ord kvs)) [] 2 0).2.2 < w.o.maxDepth)) =
          lay w ord (f + 1) (.obj kvs) d flat := by
        simp [lay, hb, PNode.size, PNode.depth]
      have hkw : (if w.o.align = true then
            maxKeyLen ((keptP w ord f kvs).map fun kv => (jsonString kv.1 (!w.o.htmlUnsafe), build w.o ord f kv.2)) 1
          else 1) = kwOf w ord f kvs := rfl
      have hnm : ∀ kv ∈ keptP w ord f kvs, (w.o.align = true → tablesAO (dropW w) (encW w) kv.2) := by
        intro kv hkv hal
        have hn := hnt hal
        simp only [tablesAO] at hn
        have hperm : (sortKvs (ord kvs)).Perm kvs := (sortKvs_perm _).trans (hord kvs)
        exact tablesAO_mem_kvs _ _ _ hn kv (hperm.mem_iff.mp ((List.filter_sublist).subset hkv))
      rw [hb]
      simp only [fill, hl, hkw]
      have h1 := push1_ok s 123 hs
      simp only [ptext]
      cases hk : keptP w ord f kvs with
      | nil =>
        have h2 := push_ok (s.push1 123) (lay w ord (f + 1) (.obj kvs) d flat).2.1 h1.1
        have h3 := push1_ok _ 125 h2.1
        have h4 := flush_ok lim _ h3.1
        simp only [List.map_nil, fillMembers]
        exact ⟨h4.1, by rw [h4.2, h3.2, h2.2, h1.2]; simp⟩
      | cons kx r =>
        have hsp := fillMembers_spec (fill w lim f) (build w.o ord f)
          (fun y => ptext w ord f y (d + 1) (lay w ord (f + 1) (.obj kvs) d flat).2.2) (!w.o.htmlUnsafe)
          (lay w ord (f + 1) (.obj kvs) d flat).1 (lay w ord (f + 1) (.obj kvs) d flat).2.2 (d + 1) (kwOf w ord f kvs)
          r kx 0 (s.push1 123) (fun y hy s hs => ih y.2 (d + 1) _ s (hnm y (by rw [hk]; exact hy)) (by omega) hs) h1.1
        have h2 := push_ok _ (lay w ord (f + 1) (.obj kvs) d flat).2.1 hsp.1
        have h3 := push1_ok _ 125 h2.1
        have h4 := flush_ok lim _ h3.1
        obtain ⟨k, x⟩ := kx
        exact ⟨h4.1, by rw [h4.2, h3.2, h2.2, hsp.2, h1.2]; simp⟩

/-! ### reading `ptext` back -/


theorem layoutOf_ws (hsp : SepWs) (w : PW) (d : Nat) (flat : Bool) :
    ((layoutOf w d flat).1.all Spec.isWs) = true ∧ ((layoutOf w d flat).2.1.all Spec.isWs) = true := by
  unfold layoutOf
  split
  · exact ⟨hsp.flat, rfl⟩
  · split
    · exact ⟨hsp.deep, rfl⟩
    · exact ⟨all_take_drop _ _ hsp.spaces _ _, all_take_drop _ _ hsp.spaces _ _⟩

theorem lay_ws (hsp : SepWs) (w : PW) (ord : Kvs → Kvs) (f : Nat) (v : JV)
    (d : Nat) (flat : Bool) :
    ((lay w ord f v d flat).1.all Spec.isWs) = true ∧ ((lay w ord f v d flat).2.1.all Spec.isWs) = true :=
  layoutOf_ws hsp w d _

theorem tElems_mem_le (tv : JV → Bytes) (cs : Bytes) : ∀ (r : List JV) (y : JV),
    y ∈ r → (tv y).length ≤ (tElems tv cs r).length := by
  intro r
  induction r with
  | nil => intro y h; simp at h
  | cons z r ih =>
    intro y h
    simp only [List.mem_cons] at h
    rcases h with rfl | h
    · simp [tElems]; omega
    · have := ih y h; simp [tElems]; omega

theorem pValue_empty_arr_ws (g : Nat) (ws rest : Bytes) (h : (ws.all Spec.isWs) = true) :
    Spec.pValue (g + 1) (91 :: (ws ++ 93 :: rest)) = some (.arr [], rest) := by
  have : Spec.skipWs (ws ++ 93 :: rest) = 93 :: rest := by
    rw [skipWs_ws_append _ _ h, skipWs_nonws 93 _ (by decide)]
  simp [Spec.pValue, show Spec.isDigit 91 = false by decide, this]

theorem ptext_head (w : PW) (ord : Kvs → Kvs) (f : Nat) (v : JV) (d : Nat) (flat : Bool) (hok : okW v) :
    ∃ b t, ptext w ord (f + 1) v d flat = b :: t ∧ startByte b = true := by
  cases v with
  | null => exact ⟨110, _, by simp only [ptext, nullStr_eq]; rfl, by decide⟩
  | bool b =>
    cases b
    · exact ⟨102, _, by simp only [ptext, falseStr_eq]; rfl, by decide⟩
    · exact ⟨116, _, by simp only [ptext, trueStr_eq]; rfl, by decide⟩
  | int i =>
    obtain ⟨b, t, he, hb⟩ := numLit_head _ (isNumLit_fmtInt i)
    exact ⟨b, t, by simp [ptext, he], (numStart_facts b hb).2.2.2.2⟩
  | flt x =>
    simp only [okW] at hok
    obtain ⟨b, t, he, hb⟩ := numLit_head _ hok
    exact ⟨b, t, by simp [ptext, he], (numStart_facts b hb).2.2.2.2⟩
  | big x => simp [okW] at hok
  | num x => simp [okW] at hok
  | str x => exact ⟨34, _, by simp only [ptext, jsonString]; rfl, by decide⟩
  | arr xs =>
    cases xs with
    | nil => exact ⟨91, _, by simp only [ptext]; rfl, by decide⟩
    | cons x r =>
      simp only [ptext]
      split
      · exact ⟨91, _, rfl, by decide⟩
      · exact ⟨91, _, rfl, by decide⟩
  | obj kvs =>
    simp only [ptext]
    split
    · exact ⟨123, _, rfl, by decide⟩
    · exact ⟨123, _, rfl, by decide⟩

/-- members after the first, each value at the common column, up to the closing brace -/
theorem pMembers_tailK (hs : TableSafe Gen.Root.jMap) (pv : Bytes → Option (JV × Bytes)) (tv : JV → Bytes) (nvv : JV → JV)
    (html : Bool) (cs cl : Bytes) (kw : Nat) (rest : Bytes)
    (hcs : (cs.all Spec.isWs) = true) (hcl : (cl.all Spec.isWs) = true) :
    ∀ (r : Kvs) (acc : Kvs) (k : Nat), r.length < k →
      (∀ kv ∈ r, ∃ b t, tv kv.2 = b :: t ∧ startByte b = true) →
      (∀ kv ∈ r, ∀ rest', follows rest' = true → pv (tv kv.2 ++ rest') = some (nvv kv.2, rest')) →
      (acc.map (fun kv => kv.1) ++ r.map (fun kv => sanitize kv.1)).Nodup →
      Spec.pMembers pv k (tMembersK html tv cs kw r ++ cl ++ 125 :: rest) acc =
        some (.obj (acc ++ r.map fun kv => (sanitize kv.1, nvv kv.2)), rest) := by
  intro r
  induction r with
  | nil =>
    intro acc k hk _ _ _
    obtain ⟨k', rfl⟩ : ∃ k', k = k' + 1 := ⟨k - 1, by omega⟩
    simp only [tMembersK, List.nil_append, Spec.pMembers]
    rw [skipWs_ws_append cl _ hcl, skipWs_nonws 125 rest (by decide)]
    simp
  | cons kv r ih =>
    intro acc k hk hst hpv hnd
    obtain ⟨key, y⟩ := kv
    obtain ⟨k', rfl⟩ : ∃ k', k = k' + 1 := ⟨k - 1, by omega⟩
    have hfol : follows (tMembersK html tv cs kw r ++ cl ++ 125 :: rest) = true := by
      cases r with
      | nil =>
        simp only [tMembersK, List.nil_append]
        cases cl with
        | nil => rfl
        | cons c cl' =>
          simp only [List.all_cons, Bool.and_eq_true] at hcl
          simp [follows, hcl.1]
      | cons z r' => obtain ⟨kz, vz⟩ := z; simp [tMembersK, follows]
    have h1 := hpv (key, y) (by simp) (tMembersK html tv cs kw r ++ cl ++ 125 :: rest) hfol
    have hm := pMember_text hs pv key html (32 :: List.replicate (kw - (jsonString key html).length) 32) (tv y)
      (tMembersK html tv cs kw r ++ cl ++ 125 :: rest) (nvv y) (colonPad_ws html kw key)
      (hst (key, y) (by simp)) h1
    simp only [tMembersK, colonPad, List.cons_append, List.append_assoc, Spec.pMembers]
    rw [skipWs_nonws 44 _ (by decide)]
    simp only [show ¬ ((44 : UInt8) = 125) by decide, ↓reduceIte]
    have hq : Spec.isWs 34 = false := by decide
    rw [skipWs_ws_append cs _ hcs]
    simp only [jsonString, List.cons_append] at hm ⊢
    rw [skipWs_nonws 34 _ hq]
    simp only [List.append_assoc, List.cons_append, List.nil_append] at hm ⊢
    rw [hm]
    simp only
    have hnew : sanitize key ∉ acc.map (fun kv => kv.1) := by
      intro hmem
      have := List.nodup_append.mp hnd
      exact this.2.2 _ hmem _ (by simp) rfl
    rw [kvInsert_new _ _ acc hnew]
    have hnd' : ((acc ++ [(sanitize key, nvv y)]).map (fun kv => kv.1) ++ r.map (fun kv => sanitize kv.1)).Nodup := by
      simpa [List.map_append, List.append_assoc] using hnd
    have := ih (acc ++ [(sanitize key, nvv y)]) k' (by simp at hk; omega) (fun z hz => hst z (by simp [hz]))
      (fun z hz => hpv z (by simp [hz])) hnd'
    simp only [List.append_assoc] at this
    rw [this]
    simp

/-- the RFC 8259 reader applied to `ptext` gives the tree minus the members the options name, members in
ascending key order; the reader's fuel only has to exceed the length of the text -/
theorem parse_ptext (hs : TableSafe Gen.Root.jMap) (hsp : SepWs)
    (w : PW) (ord : Kvs → Kvs) (hord : IsOrder ord) :
    ∀ (f : Nat) (v : JV) (d : Nat) (flat : Bool) (g : Nat) (rest : Bytes), okW v →
      (w.o.align = true → tablesAO (dropW w) (encW w) v) → f ≤ w.fuel → depth v < f →
      (ptext w ord f v d flat).length < g → follows rest = true →
      Spec.pValue g (ptext w ord f v d flat ++ rest) =
        some (normG (omits (ojOptsOf w.o)) true ord f v, rest) := by
  intro f
  induction f with
  | zero => intro v d flat g rest _ _ _ h; omega
  | succ f ih =>
    intro v d flat g rest hok hnt hfu hf hg hrest
    obtain ⟨g, rfl⟩ : ∃ g', g = g' + 1 := ⟨g - 1, by omega⟩
    cases v with
    | null => simpa [ptext, normG, nullStr_eq] using pValue_null g rest
    | bool b =>
      cases b
      · simpa [ptext, normG, falseStr_eq] using pValue_false g rest
      · simpa [ptext, normG, trueStr_eq] using pValue_true g rest
    | int i => simpa [ptext, normG] using pValue_num g (fmtInt i) rest (isNumLit_fmtInt i) hrest
    | flt t =>
      simp only [okW] at hok
      simpa [ptext, normG] using pValue_num g t rest hok hrest
    | big t => simp [okW] at hok
    | num t => simp [okW] at hok
    | str x => simpa [ptext, normG] using pValue_str hs g x rest (!w.o.htmlUnsafe)
    | arr xs =>
      simp only [okW] at hok
      simp only [depth] at hf
      cases xs with
      | nil =>
        have hw := (lay_ws hsp w ord (f + 1) (.arr []) d flat).2
        simpa [ptext, normG] using pValue_empty_arr_ws g _ rest hw
      | cons x r =>
        have hlw := lay_ws hsp w ord (f + 1) (.arr (x :: r)) d flat
        generalize hl : lay w ord (f + 1) (.arr (x :: r)) d flat = l at hlw
        have hokx : okW x := okW_mem_list _ hok x (by simp)
        have hdx : depth x ≤ depthList (x :: r) := depth_mem_list _ x (by simp)
        have hnm : ∀ y ∈ x :: r, (w.o.align = true → tablesAO (dropW w) (encW w) y) := by
          intro y hy hal
          have hn := hnt hal
          simp only [tablesAO] at hn
          exact tablesAO_mem_list _ _ _ hn.2 y hy
        by_cases htab : ∃ c, tableOfV w ord f (x :: r) d = some c
        · -- the rows are aligned
          obtain ⟨c, htab⟩ := htab
          simp only [ptext, hl, htab] at hg ⊢
          obtain ⟨hal, hlen, hfit, hc, hkind⟩ := tableOfV_kind w ord f (x :: r) d c htab
          have hn := hnt hal
          simp only [tablesAO] at hn
          obtain ⟨harr, hobj⟩ := hn.1 hlen
          obtain ⟨fu, hfue⟩ : ∃ fu, w.fuel = fu + 1 := ⟨w.fuel - 1, by omega⟩
          let tv := fun y => nodeT w.fuel (build w.o ord f y) c
          have hrowfacts : (∀ y ∈ x :: r, ∃ b t, tv y = b :: t ∧ startByte b = true) ∧
              (∀ y ∈ x :: r, ∀ rest', (tv y).length < g → follows rest' = true →
                Spec.pValue g (tv y ++ rest') = some (normG (omits (ojOptsOf w.o)) true ord f y, rest')) := by
            rcases hkind with hia | ⟨hio, hf0⟩
            · -- rows are arrays without objects
              have hao := harr hia
              obtain ⟨hta, hcov⟩ := arrTable_facts w ord f (x :: r) c (by omega) hao hc
              have hrow : ∀ y ∈ x :: r, isArr y = true ∧ arrOnly y ∧ okW y ∧ depth y < f := by
                intro y hy
                refine ⟨?_, arrOnlyL_mem _ hao y hy, okW_mem_list _ hok y hy, ?_⟩
                · simp only [List.all_eq_true] at hia; exact hia y hy
                · have := depth_mem_list (x :: r) y hy; omega
              refine ⟨?_, ?_⟩
              · intro y hy
                obtain ⟨hya, _, _, hdy⟩ := hrow y hy
                have : ∃ tl, nodeT w.fuel (build w.o ord f y) c = 91 :: tl := by
                  obtain ⟨f', rfl⟩ : ∃ f', f = f' + 1 := ⟨f - 1, by omega⟩
                  cases y with
                  | arr ys => rw [hfue]; exact ⟨_, rfl⟩
                  | _ => simp [isArr] at hya
                obtain ⟨tl, htl⟩ := this
                exact ⟨91, tl, htl, by decide⟩
              · intro y hy rest' hl' hr'
                obtain ⟨hya, haoy, hoky, hdy⟩ := hrow y hy
                exact parse_nodeT hs hsp w ord hord f y c w.fuel g rest' hoky haoy hya hdy (hcov y hy) (by omega) hl' hr'
            · -- rows are flat objects, complete
              obtain ⟨hfo, hcomp⟩ := hobj hio
              obtain ⟨f', rfl⟩ : ∃ f', f = f' + 1 := ⟨f - 1, by omega⟩
              obtain ⟨_, hmc, hgood, hkeys⟩ := mapTable_facts w ord hord f' (x :: r) c (by omega) hio
                (fun y hy => (hfo y hy).1) hlen hc
              have hrowobj : ∀ y ∈ x :: r, ∃ kvs, y = .obj kvs := by
                intro y hy
                have : isObj y = true := by simp only [List.all_eq_true] at hio; exact hio y hy
                cases y with
                | obj kvs => exact ⟨kvs, rfl⟩
                | _ => simp [isObj] at this
              refine ⟨?_, ?_⟩
              · intro y hy
                obtain ⟨kvs, rfl⟩ := hrowobj y hy
                obtain ⟨sz, dp, sk, hby⟩ := build_obj_row w ord f' kvs
                have : ∃ tl, nodeT w.fuel (build w.o ord (f' + 1) (.obj kvs)) c = 123 :: tl := by
                  rw [hby, hfue]; exact ⟨_, rfl⟩
                obtain ⟨tl, htl⟩ := this
                exact ⟨123, tl, htl, by decide⟩
              · intro y hy rest' hl' hr'
                obtain ⟨kvs, rfl⟩ := hrowobj y hy
                have hoky : okW (.obj kvs) := okW_mem_list _ hok _ hy
                have hdy : depth (.obj kvs) < f' + 1 := by have := depth_mem_list (x :: r) _ hy; omega
                simp only [depth] at hdy
                obtain ⟨f'', rfl⟩ : ∃ f'', f' = f'' + 1 := ⟨f' - 1, by omega⟩
                obtain ⟨sz, dp, sk, hby⟩ := build_obj_row w ord (f'' + 1) kvs
                obtain ⟨q1, q2, q3, q4, q5⟩ := flatRow_facts w ord hord (f'' + 1) (x :: r) c (by omega) hgood.1 hkeys hcomp
                  kvs hy hoky (hfo _ hy).2 (hfo _ hy).1
                have hlen2 : 2 ≤ (tv (.obj kvs)).length := by
                  show 2 ≤ (nodeT w.fuel (build w.o ord (f'' + 1 + 1) (.obj kvs)) c).length
                  rw [hby, hfue]; simp [nodeT]
                obtain ⟨g0, rfl⟩ : ∃ g0, g = g0 + 1 + 1 := ⟨g - 2, by omega⟩
                have hp := parse_flatRow hs hsp (!w.o.htmlUnsafe) w.o ord f'' (omits (ojOptsOf w.o)) true
                  (keptP w ord (f'' + 1) kvs) c fu g0 rest' sz dp sk q1 q2 hgood.1 q3 q4 q5 hr'
                have hnorm : normG (omits (ojOptsOf w.o)) true ord (f'' + 1 + 1) (.obj kvs) =
                    .obj ((keptP w ord (f'' + 1) kvs).map fun kv =>
                      (sanitize kv.1, normG (omits (ojOptsOf w.o)) true ord (f'' + 1) kv.2)) := by
                  simp only [normG, normMembers_eq, order, ↓reduceIte, keptP_eq w ord (f'' + 1) kvs (by omega)]
                show Spec.pValue (g0 + 1 + 1) (nodeT w.fuel (build w.o ord (f'' + 1 + 1) (.obj kvs)) c ++ rest') = _
                rw [hby, hfue, hnorm]
                exact hp
          obtain ⟨hth, hpvrow⟩ := hrowfacts
          obtain ⟨b, t, hb, hsb⟩ := hth x (by simp)
          obtain ⟨hws, hn93, -, -⟩ := startByte_facts b hsb
          have hfol : follows (tElems tv l.1 r ++ l.2.1 ++ 93 :: rest) = true := by
            cases r with
            | nil =>
              simp only [tElems, List.nil_append]
              cases hcl : l.2.1 with
              | nil => rfl
              | cons c' cl' =>
                have := hlw.2
                rw [hcl] at this
                simp only [List.all_cons, Bool.and_eq_true] at this
                simp [follows, this.1]
            | cons z r' => simp [tElems, follows]
          have hlen1 : (tv x).length < g := by
            simp only [List.length_cons, List.length_append] at hg
            show (nodeT w.fuel (build w.o ord f x) c).length < g
            omega
          have h1 := hpvrow x (by simp) (tElems tv l.1 r ++ l.2.1 ++ 93 :: rest) hlen1 hfol
          have hsk : Spec.skipWs (l.1 ++ (tv x ++ (tElems tv l.1 r ++ l.2.1 ++ 93 :: rest))) =
              b :: (t ++ (tElems tv l.1 r ++ l.2.1 ++ 93 :: rest)) := by
            rw [skipWs_ws_append _ _ hlw.1, hb, List.cons_append, skipWs_nonws b _ hws]
          have h1' : Spec.pValue g (b :: (t ++ (tElems tv l.1 r ++ l.2.1 ++ 93 :: rest))) =
              some (normG (omits (ojOptsOf w.o)) true ord f x, tElems tv l.1 r ++ l.2.1 ++ 93 :: rest) := by
            rw [← List.cons_append, ← hb]; exact h1
          have hopen := pValue_open_arr g _ _ _ b _ hsk hn93 h1'
          have htail := pElems_tail (Spec.pValue g) tv (normG (omits (ojOptsOf w.o)) true ord f) l.1 l.2.1 rest
            hlw.1 hlw.2 r [normG (omits (ojOptsOf w.o)) true ord f x]
            ((tElems tv l.1 r ++ l.2.1 ++ 93 :: rest).length + 1)
            (by have := tElems_length tv l.1 r; simp; omega)
            (fun y hy => hth y (by simp [hy]))
            (fun y hy rest' hr' => hpvrow y (by simp [hy]) rest' (by
                have := tElems_mem_le (fun y => nodeT w.fuel (build w.o ord f y) c) l.1 r y hy
                simp only [List.length_cons, List.length_append] at hg
                show (nodeT w.fuel (build w.o ord f y) c).length < g
                omega) hr')
          simp only [normG, List.cons_append, List.append_assoc, List.map_cons, List.nil_append]
          simp only [List.append_assoc, List.cons_append, List.nil_append] at hopen htail
          exact hopen.trans (by simpa using htail)
        have htab : tableOfV w ord f (x :: r) d = none := by
          cases h : tableOfV w ord f (x :: r) d with
          | none => rfl
          | some c => exact absurd ⟨c, h⟩ htab
        simp only [ptext, hl, htab] at hg ⊢
        have hth : ∀ y, okW y → ∃ b t, ptext w ord f y (d + 1) l.2.2 = b :: t ∧ startByte b = true := by
          intro y hy
          obtain ⟨f', rfl⟩ : ∃ f', f = f' + 1 := ⟨f - 1, by omega⟩
          exact ptext_head w ord f' y (d + 1) l.2.2 hy
        obtain ⟨b, t, hb, hsb⟩ := hth x hokx
        obtain ⟨hws, hn93, -, -⟩ := startByte_facts b hsb
        have hcs0 : ((if l.2.2 = true then [] else l.1).all Spec.isWs) = true := by
          split
          · rfl
          · exact hlw.1
        let tv := fun y => ptext w ord f y (d + 1) l.2.2
        have hfol : follows (tElems tv l.1 r ++ l.2.1 ++ 93 :: rest) = true := by
          cases r with
          | nil =>
            simp only [tElems, List.nil_append]
            cases hcl : l.2.1 with
            | nil => rfl
            | cons c cl' =>
              have := hlw.2
              rw [hcl] at this
              simp only [List.all_cons, Bool.and_eq_true] at this
              simp [follows, this.1]
          | cons z r' => simp [tElems, follows]
        have hlen1 : (ptext w ord f x (d + 1) l.2.2).length < g := by
          simp only [List.length_cons, List.length_append] at hg; omega
        have h1 := ih x (d + 1) l.2.2 g (tElems tv l.1 r ++ l.2.1 ++ 93 :: rest) hokx (hnm x (by simp)) (by omega) (by omega) hlen1 hfol
        have hsk : Spec.skipWs ((if l.2.2 = true then [] else l.1) ++ (ptext w ord f x (d + 1) l.2.2 ++
            (tElems tv l.1 r ++ l.2.1 ++ 93 :: rest))) = b :: (t ++ (tElems tv l.1 r ++ l.2.1 ++ 93 :: rest)) := by
          rw [skipWs_ws_append _ _ hcs0, hb, List.cons_append, skipWs_nonws b _ hws]
        have h1' : Spec.pValue g (b :: (t ++ (tElems tv l.1 r ++ l.2.1 ++ 93 :: rest))) =
            some (normG (omits (ojOptsOf w.o)) true ord f x, tElems tv l.1 r ++ l.2.1 ++ 93 :: rest) := by
          rw [← List.cons_append, ← hb]; exact h1
        have hopen := pValue_open_arr g _ _ _ b _ hsk hn93 h1'
        have htail := pElems_tail (Spec.pValue g) tv (normG (omits (ojOptsOf w.o)) true ord f) l.1 l.2.1 rest
          hlw.1 hlw.2 r [normG (omits (ojOptsOf w.o)) true ord f x]
          ((tElems tv l.1 r ++ l.2.1 ++ 93 :: rest).length + 1)
          (by have := tElems_length tv l.1 r; simp; omega)
          (fun y hy => hth y (okW_mem_list _ hok y (by simp [hy])))
          (fun y hy rest' hr' => ih y (d + 1) l.2.2 g rest' (okW_mem_list _ hok y (by simp [hy]))
            (hnm y (by simp [hy])) (by omega)
            (by have := depth_mem_list (x :: r) y (by simp [hy]); omega)
            (by
              have := tElems_mem_le (fun y => ptext w ord f y (d + 1) l.2.2) l.1 r y hy
              simp only [List.length_cons, List.length_append] at hg
              show (ptext w ord f y (d + 1) l.2.2).length < g
              omega) hr')
        simp only [normG, List.cons_append, List.append_assoc, List.map_cons, List.nil_append]
        simp only [List.append_assoc, List.cons_append, List.nil_append] at hopen htail
        exact hopen.trans (by simpa using htail)
    | obj kvs =>
      simp only [okW] at hok
      simp only [depth] at hf
      have hperm : (sortKvs (ord kvs)).Perm kvs := (sortKvs_perm _).trans (hord kvs)
      have hkeq := keptP_eq w ord f kvs (by omega)
      have hsub : (keptP w ord f kvs).Sublist (sortKvs (ord kvs)) := List.filter_sublist
      have hmem : ∀ kv ∈ keptP w ord f kvs, kv ∈ kvs := fun kv h => hperm.mem_iff.mp (hsub.subset h)
      have hnd : ((keptP w ord f kvs).map (fun kv => sanitize kv.1)).Nodup :=
        (hsub.map _).nodup ((hperm.map _).nodup_iff.mpr hok.1)
      have hlw := lay_ws hsp w ord (f + 1) (.obj kvs) d flat
      generalize hl : lay w ord (f + 1) (.obj kvs) d flat = l at hlw
      have hnorm : normG (omits (ojOptsOf w.o)) true ord (f + 1) (.obj kvs) =
          .obj ((keptP w ord f kvs).map fun kv =>
            (sanitize kv.1, normG (omits (ojOptsOf w.o)) true ord f kv.2)) := by
        simp only [normG, normMembers_eq, order, ↓reduceIte, hkeq]
      rw [hnorm]
      simp only [ptext, hl] at hg ⊢
      cases hk : keptP w ord f kvs with
      | nil =>
        simp only [List.map_nil]
        simpa using pValue_empty_obj_ws g _ rest hlw.2
      | cons kv r =>
        obtain ⟨k, x⟩ := kv
        rw [hk] at hmem hnd hg
        simp only at hg
        have hth : ∀ y, okW y → ∃ b t, ptext w ord f y (d + 1) l.2.2 = b :: t ∧ startByte b = true := by
          intro y hy
          obtain ⟨f', rfl⟩ : ∃ f', f = f' + 1 := ⟨f - 1, by omega⟩
          exact ptext_head w ord f' y (d + 1) l.2.2 hy
        have hokm : ∀ kv ∈ (k, x) :: r, okW kv.2 := fun kv h => okW_mem_kvs _ hok.2 kv (hmem kv h)
        have hnmk : ∀ kv ∈ (k, x) :: r, (w.o.align = true → tablesAO (dropW w) (encW w) kv.2) := by
          intro kv hkv hal
          have hn := hnt hal
          simp only [tablesAO] at hn
          exact tablesAO_mem_kvs _ _ _ hn kv (hmem kv hkv)
        have hdm : ∀ kv ∈ (k, x) :: r, depth kv.2 ≤ depthKvs kvs := fun kv h => depth_mem_kvs _ kv (hmem kv h)
        have hokx : okW x := hokm (k, x) (by simp)
        have hdx := hdm (k, x) (by simp)
        have hcs0 : ((if l.2.2 = true then [] else l.1).all Spec.isWs) = true := by
          split
          · rfl
          · exact hlw.1
        let tv := fun y => ptext w ord f y (d + 1) l.2.2
        have hfol : follows (tMembersK (!w.o.htmlUnsafe) tv l.1 (kwOf w ord f kvs) r ++ l.2.1 ++ 125 :: rest) = true := by
          cases r with
          | nil =>
            simp only [tMembersK, List.nil_append]
            cases hcl : l.2.1 with
            | nil => rfl
            | cons c cl' =>
              have := hlw.2
              rw [hcl] at this
              simp only [List.all_cons, Bool.and_eq_true] at this
              simp [follows, this.1]
          | cons z r' => obtain ⟨kz, vz⟩ := z; simp [tMembersK, follows]
        have hlen1 : (ptext w ord f x (d + 1) l.2.2).length < g := by
          simp only [List.length_cons, List.length_append] at hg; omega
        have h1 := ih x (d + 1) l.2.2 g (tMembersK (!w.o.htmlUnsafe) tv l.1 (kwOf w ord f kvs) r ++ l.2.1 ++ 125 :: rest)
          hokx (hnmk (k, x) (by simp)) (by omega) (by simp at hdx; omega) hlen1 hfol
        have hm := pMember_text hs (Spec.pValue g) k (!w.o.htmlUnsafe)
          (32 :: List.replicate (kwOf w ord f kvs - (jsonString k (!w.o.htmlUnsafe)).length) 32) (ptext w ord f x (d + 1) l.2.2)
          (tMembersK (!w.o.htmlUnsafe) tv l.1 (kwOf w ord f kvs) r ++ l.2.1 ++ 125 :: rest)
          (normG (omits (ojOptsOf w.o)) true ord f x) (colonPad_ws _ _ _) (hth x hokx) h1
        have hsk : Spec.skipWs ((if l.2.2 = true then [] else l.1) ++ (jsonString k (!w.o.htmlUnsafe) ++ colonPad (!w.o.htmlUnsafe) (kwOf w ord f kvs) k ++
            ptext w ord f x (d + 1) l.2.2 ++
            (tMembersK (!w.o.htmlUnsafe) tv l.1 (kwOf w ord f kvs) r ++ l.2.1 ++ 125 :: rest))) =
            34 :: ((escLoop Gen.Root.jMap (!w.o.htmlUnsafe) 0 true k ++ [34]) ++ colonPad (!w.o.htmlUnsafe) (kwOf w ord f kvs) k ++ ptext w ord f x (d + 1) l.2.2 ++
            (tMembersK (!w.o.htmlUnsafe) tv l.1 (kwOf w ord f kvs) r ++ l.2.1 ++ 125 :: rest)) := by
          rw [skipWs_ws_append _ _ hcs0]
          simp only [jsonString, List.cons_append]
          rw [skipWs_nonws 34 _ (by decide)]
        have hm' : Spec.pMember (Spec.pValue g) (34 :: ((escLoop Gen.Root.jMap (!w.o.htmlUnsafe) 0 true k ++ [34]) ++ colonPad (!w.o.htmlUnsafe) (kwOf w ord f kvs) k ++
            ptext w ord f x (d + 1) l.2.2 ++
            (tMembersK (!w.o.htmlUnsafe) tv l.1 (kwOf w ord f kvs) r ++ l.2.1 ++ 125 :: rest))) =
            some ((sanitize k, normG (omits (ojOptsOf w.o)) true ord f x),
              tMembersK (!w.o.htmlUnsafe) tv l.1 (kwOf w ord f kvs) r ++ l.2.1 ++ 125 :: rest) := by
          simpa only [jsonString, colonPad, List.cons_append] using hm
        have hopen := pValue_open_obj g _ _ _ 34 _ _ hsk (by decide) hm'
        have htail := pMembers_tailK hs (Spec.pValue g) tv (normG (omits (ojOptsOf w.o)) true ord f)
          (!w.o.htmlUnsafe) l.1 l.2.1 (kwOf w ord f kvs) rest hlw.1 hlw.2 r
          [(sanitize k, normG (omits (ojOptsOf w.o)) true ord f x)]
          ((tMembersK (!w.o.htmlUnsafe) tv l.1 (kwOf w ord f kvs) r ++ l.2.1 ++ 125 :: rest).length + 1)
          (by have := tMembersK_length (!w.o.htmlUnsafe) tv l.1 (kwOf w ord f kvs) r; simp; omega)
          (fun kv hkv => hth kv.2 (hokm kv (by simp [hkv])))
          (fun kv hkv rest' hr' => ih kv.2 (d + 1) l.2.2 g rest' (hokm kv (by simp [hkv]))
            (hnmk kv (by simp [hkv])) (by omega)
            (by have := hdm kv (by simp [hkv]); omega)
            (by
              have := tMembersK_mem_le (!w.o.htmlUnsafe) (fun y => ptext w ord f y (d + 1) l.2.2) l.1 (kwOf w ord f kvs) r kv hkv
              simp only [List.length_cons, List.length_append] at hg
              show (ptext w ord f kv.2 (d + 1) l.2.2).length < g
              omega) hr')
          (by simpa using hnd)
        simp only [List.cons_append, List.append_assoc, List.map_cons, List.nil_append]
        simp only [List.append_assoc, List.cons_append, List.nil_append] at hopen htail
        exact hopen.trans (by simpa using htail)

/-! ### without an `io.Writer` nothing is handed over -/

@[simp] theorem push_sent (s : PSt) (bs : Bytes) : (s.push bs).st.sent = s.st.sent := by
  unfold PSt.push; split <;> simp [St.push]

@[simp] theorem push1_sent (s : PSt) (b : UInt8) : (s.push1 b).st.sent = s.st.sent := by
  unfold PSt.push1; split <;> simp [St.push1]

@[simp] theorem flush_none_sent (s : PSt) : (s.flush none).st.sent = s.st.sent := by
  unfold PSt.flush; split <;> simp [St.flush]

@[simp] theorem pad_sent : ∀ (n : Nat) (s : PSt), (s.pad n).st.sent = s.st.sent := by
  intro n
  induction n with
  | zero => intro s; rfl
  | succ n ih => intro s; simp [PSt.pad, ih]

theorem fillElems_sent (fv : PNode → Nat → Bool → PSt → PSt) (cs : Bytes) (flat : Bool) (d2 : Nat)
    (hfv : ∀ m d fl s, (fv m d fl s).st.sent = s.st.sent) :
    ∀ (ms : List PNode) (i : Nat) (s : PSt), (fillElems fv cs flat d2 ms i s).st.sent = s.st.sent := by
  intro ms
  induction ms with
  | nil => intro i s; rfl
  | cons m r ih =>
    intro i s
    simp only [fillElems, ih, hfv]
    split
    · simp
    · split <;> simp

theorem fillMembers_sent (fv : PNode → Nat → Bool → PSt → PSt) (cs : Bytes) (flat : Bool) (d2 kw : Nat)
    (hfv : ∀ m d fl s, (fv m d fl s).st.sent = s.st.sent) :
    ∀ (ms : List (Bytes × PNode)) (i : Nat) (s : PSt), (fillMembers fv cs flat d2 kw ms i s).st.sent = s.st.sent := by
  intro ms
  induction ms with
  | nil => intro i s; rfl
  | cons m r ih =>
    intro i s
    obtain ⟨k, n⟩ := m
    simp only [fillMembers, ih, hfv, pad_sent, push1_sent, push_sent]
    split
    · simp
    · split <;> simp

@[simp] theorem pushSpaces_sent (s : PSt) (lo hi : Nat) : (s.pushSpaces lo hi).st.sent = s.st.sent := by
  unfold PSt.pushSpaces; split <;> simp

theorem alignCell_sent (aa am : PNode → Table → PSt → PSt)
    (haa : ∀ m t s, (aa m t s).st.sent = s.st.sent) (ham : ∀ m t s, (am m t s).st.sent = s.st.sent)
    (m : PNode) (col : Table) (s : PSt) : (alignCell aa am m col s).st.sent = s.st.sent := by
  cases m with
  | leaf k buf sk =>
    simp only [alignCell]
    split
    · split <;> simp
    · split
      · split <;> simp
      · rfl
  | arr ms sz dp sk => simp only [alignCell, haa]
  | map ms sz dp sk => simp only [alignCell, ham]

theorem alignArrCols_sent (aa am : PNode → Table → PSt → PSt)
    (haa : ∀ m t s, (aa m t s).st.sent = s.st.sent) (ham : ∀ m t s, (am m t s).st.sent = s.st.sent) :
    ∀ (cols : List Table) (ms : List PNode) (k : Nat) (s : PSt),
      (alignArrCols aa am cols ms k s).st.sent = s.st.sent := by
  intro cols
  induction cols with
  | nil => intro ms k s; simp [alignArrCols]
  | cons c cr ih =>
    intro ms k s
    cases ms with
    | nil => simp [alignArrCols]
    | cons m mr =>
      simp only [alignArrCols, ih, alignCell_sent aa am haa ham]
      split <;> simp

theorem alignMapCols_sent (aa am : PNode → Table → PSt → PSt)
    (haa : ∀ m t s, (aa m t s).st.sent = s.st.sent) (ham : ∀ m t s, (am m t s).st.sent = s.st.sent)
    (ms : List (Bytes × PNode)) (n : Nat) :
    ∀ (cols : List Table) (i : Nat) (pe : Bool) (s : PSt),
      (alignMapCols aa am ms n cols i pe s).st.sent = s.st.sent := by
  intro cols
  induction cols with
  | nil => intro i pe s; simp [alignMapCols]
  | cons c cr ih =>
    intro i pe s
    simp only [alignMapCols]
    split
    · rw [ih]; simp only [pushSpaces_sent]; split <;> simp
    · rw [ih, alignCell_sent aa am haa ham]; simp only [push1_sent, push_sent]; split <;> simp

theorem alignNode_sent : ∀ (f : Nat) (n : PNode) (t : Table) (s : PSt), (alignNode f n t s).st.sent = s.st.sent := by
  intro f
  induction f with
  | zero => intro n t s; rfl
  | succ f ih =>
    intro n t s
    cases n with
    | leaf k buf sk => rfl
    | arr ms sz dp sk => simp [alignNode, alignArrCols_sent _ _ ih ih]
    | map ms sz dp sk => simp [alignNode, alignMapCols_sent _ _ ih ih]

theorem alignRows_sent (fuel : Nat) (c : Table) (cs : Bytes) : ∀ (ms : List PNode) (i : Nat) (s : PSt),
    (alignRows fuel c cs ms i s).st.sent = s.st.sent := by
  intro ms
  induction ms with
  | nil => intro i s; rfl
  | cons m r ih =>
    intro i s
    simp only [alignRows, ih, alignNode_sent, push_sent]
    split <;> simp

theorem fill_sent (w : PW) :
    ∀ (f : Nat) (n : PNode) (d : Nat) (flat : Bool) (s : PSt), (fill w none f n d flat s).st.sent = s.st.sent := by
  intro f
  induction f with
  | zero => intro n d flat s; rfl
  | succ f ih =>
    intro n d flat s
    cases n with
    | leaf k buf sk => simp [fill]
    | arr ms sz dp sk =>
      simp only [fill, flush_none_sent, push1_sent, push_sent]
      split
      · rw [fillElems_sent _ _ _ _ ih]; simp
      · split
        · rw [fillElems_sent _ _ _ _ ih]; simp
        · rw [alignRows_sent]; simp
    | map ms sz dp sk =>
      simp only [fill, flush_none_sent, push1_sent, push_sent]
      rw [fillMembers_sent _ _ _ _ _ ih]; simp

/-! ### `encode` -/

theorem pwOf_o (o : POpts) (ord : Kvs → Kvs) (v : JV) : (pwOf o ord v).o = o := rfl

theorem pwOf_fuel (o : POpts) (ord : Kvs → Kvs) (v : JV) : (pwOf o ord v).fuel = depth v + 2 := rfl

/-- `encode` clamps the width to the length of the `spaces` constant -/
theorem pwOf_width (o : POpts) (ord : Kvs → Kvs) (v : JV) : (pwOf o ord v).width ≤ 128 := by
  have h := spaces_size
  simp only [pwOf, h]
  split <;> omega

/-- when no table is aligned the in-memory text is `ptext` -/
theorem prettyWrite_eq_ptext (o : POpts) (ord : Kvs → Kvs) (hord : IsOrder ord) (v : JV)
    (hnt : o.align = true → tablesAO (omits (ojOptsOf o)) (fun k => jsonString k (!o.htmlUnsafe)) v) :
    prettyWrite o ord v = ptext (pwOf o ord v) ord (depth v + 1) v 0 false := by
  have h := fill_flat (pwOf o ord v) none ord hord (pwOf_width o ord v) (depth v + 1) v 0 false {} hnt
    (by rw [pwOf_fuel]; omega) rfl
  have hs := fill_sent (pwOf o ord v) (depth v + 1) (build o ord (depth v + 1) v) 0 false {}
  have hf : ({} : PSt).flat = [] := rfl
  rw [hf, List.nil_append] at h
  have hs0 : ({} : PSt).st.sent = [] := rfl
  rw [hs0] at hs
  rw [pwOf_o] at h
  have hb : (encodeSt o ord none v).bad = false := h.1
  have hfl : (encodeSt o ord none v).flat = ptext (pwOf o ord v) ord (depth v + 1) v 0 false := h.2
  have hs' : (encodeSt o ord none v).st.sent = [] := hs
  unfold prettyWrite
  rw [hb]
  simp only [Bool.false_eq_true, ↓reduceIte]
  rw [← hfl]
  simp [PSt.flat, St.flat, St.bytes, hs']

/-- … and so are the chunks handed to the `io.Writer`, joined, for every WriteLimit -/
theorem prettyWriteTo_flatten (o : POpts) (ord : Kvs → Kvs) (hord : IsOrder ord) (limit : Nat) (v : JV)
    (hnt : o.align = true → tablesAO (omits (ojOptsOf o)) (fun k => jsonString k (!o.htmlUnsafe)) v) :
    (prettyWriteTo o ord limit v).flatten = ptext (pwOf o ord v) ord (depth v + 1) v 0 false := by
  have h := fill_flat (pwOf o ord v) (some (effLimit limit)) ord hord (pwOf_width o ord v) (depth v + 1) v 0 false {} hnt
    (by rw [pwOf_fuel]; omega) rfl
  have hf : ({} : PSt).flat = [] := rfl
  rw [hf, List.nil_append, pwOf_o] at h
  show (if (encodeSt o ord (some (effLimit limit)) v).bad then (encodeSt o ord (some (effLimit limit)) v).st.sent.reverse
    else if 0 < (encodeSt o ord (some (effLimit limit)) v).st.rbuf.length then
      ((encodeSt o ord (some (effLimit limit)) v).st.bytes :: (encodeSt o ord (some (effLimit limit)) v).st.sent).reverse
    else (encodeSt o ord (some (effLimit limit)) v).st.sent.reverse).flatten = _
  have hb : (encodeSt o ord (some (effLimit limit)) v).bad = false := h.1
  rw [hb]
  simp only [Bool.false_eq_true, ↓reduceIte]
  rw [chunks_flatten]
  exact h.2


/-! ### trees without tables are trees whose tables are tables of arrays -/

theorem tablesArr_of_noTable : ∀ (n : Nat) (v : JV), depth v < n → noTable v → tablesArr v := by
  intro n
  induction n with
  | zero => intro v h; omega
  | succ n ih =>
    intro v hd hv
    cases v with
    | arr xs =>
      simp only [noTable] at hv
      simp only [depth] at hd
      simp only [tablesArr]
      refine ⟨?_, ?_⟩
      · intro h2
        rcases hv.1 with h | h
        · omega
        · refine ⟨?_, fun ha => absurd (Or.inl ha) h⟩
          cases ho : xs.all isObj with
          | false => rfl
          | true => exact absurd (Or.inr ho) h
      · have hl : ∀ (ys : List JV), (∀ y ∈ ys, y ∈ xs) → noTableList ys → tablesArrL ys := by
          intro ys
          induction ys with
          | nil => intro _ _; simp [tablesArrL]
          | cons y r ihr =>
            intro hm hn
            simp only [noTableList] at hn
            simp only [tablesArrL]
            exact ⟨ih y (by have := depth_mem_list xs y (hm y (by simp)); omega) hn.1,
              ihr (fun z hz => hm z (by simp [hz])) hn.2⟩
        exact hl xs (fun _ h => h) hv.2
    | obj kvs =>
      simp only [noTable] at hv
      simp only [depth] at hd
      simp only [tablesArr]
      have hl : ∀ (ys : Kvs), (∀ y ∈ ys, y ∈ kvs) → noTableKvs ys → tablesArrK ys := by
        intro ys
        induction ys with
        | nil => intro _ _; simp [tablesArrK]
        | cons y r ihr =>
          intro hm hn
          obtain ⟨k, x⟩ := y
          simp only [noTableKvs] at hn
          simp only [tablesArrK]
          exact ⟨ih x (by have := depth_mem_kvs kvs (k, x) (hm _ (by simp)); simp at this; omega) hn.1,
            ihr (fun z hz => hm z (by simp [hz])) hn.2⟩
      exact hl kvs (fun _ h => h) hv
    | _ => simp [tablesArr]


/-- tables of arrays only are a special case -/
theorem tablesAO_of_tablesArr (drop : JV → Bool) (enc : Bytes → Bytes) : ∀ (n : Nat) (v : JV), depth v < n →
    tablesArr v → tablesAO drop enc v := by
  intro n
  induction n with
  | zero => intro v h; omega
  | succ n ih =>
    intro v hd hv
    cases v with
    | arr xs =>
      simp only [tablesArr] at hv
      simp only [depth] at hd
      simp only [tablesAO]
      refine ⟨?_, ?_⟩
      · intro h2
        obtain ⟨hno, harr⟩ := hv.1 h2
        exact ⟨harr, fun ho => by rw [ho] at hno; cases hno⟩
      · have hl : ∀ (ys : List JV), (∀ y ∈ ys, y ∈ xs) → tablesArrL ys → tablesAOL drop enc ys := by
          intro ys
          induction ys with
          | nil => intro _ _; simp [tablesAOL]
          | cons y r ihr =>
            intro hm hn
            simp only [tablesArrL] at hn
            simp only [tablesAOL]
            exact ⟨ih y (by have := depth_mem_list xs y (hm y (by simp)); omega) hn.1,
              ihr (fun z hz => hm z (by simp [hz])) hn.2⟩
        exact hl xs (fun _ h => h) hv.2
    | obj kvs =>
      simp only [tablesArr] at hv
      simp only [depth] at hd
      simp only [tablesAO]
      have hl : ∀ (ys : Kvs), (∀ y ∈ ys, y ∈ kvs) → tablesArrK ys → tablesAOK drop enc ys := by
        intro ys
        induction ys with
        | nil => intro _ _; simp [tablesAOK]
        | cons y r ihr =>
          intro hm hn
          obtain ⟨k, x⟩ := y
          simp only [tablesArrK] at hn
          simp only [tablesAOK]
          exact ⟨ih x (by have := depth_mem_kvs kvs (k, x) (hm _ (by simp)); simp at this; omega) hn.1,
            ihr (fun z hz => hm z (by simp [hz])) hn.2⟩
      exact hl kvs (fun _ h => h) hv
    | _ => simp [tablesAO]

end OjgVerif.Writer.Pretty
