import OjgVerif.Writer.LemmasAlign
/-! Lemmas about `pretty`'s alignment tables, for tables of FLAT OBJECTS (`alignMap`, `updateMapTable`; rows
are objects whose members are scalars): what `updateMapTable` builds (string-keyed columns, no key twice,
in ascending order of the encoded key, exactly the keys of the rows, a size that bounds every
padding), and the RFC 8259 reading of an aligned object row that has a member under the last column
(`lastPres`) and whose members are ordered like the columns. -/
set_option linter.unusedSimpArgs false
set_option linter.unusedVariables false
namespace OjgVerif.Writer.Pretty
open OjgVerif OjgVerif.Json OjgVerif.Writer

theorem pValue_empty_obj_ws (g : Nat) (ws rest : Bytes) (h : (ws.all Spec.isWs) = true) :
    Spec.pValue (g + 1) (123 :: (ws ++ 125 :: rest)) = some (.obj [], rest) := by
  have : Spec.skipWs (ws ++ 125 :: rest) = 125 :: rest := by
    rw [skipWs_ws_append _ _ h, skipWs_nonws 125 _ (by decide)]
  simp [Spec.pValue, show Spec.isDigit 123 = false by decide, this]

/-! ### tables of flat objects: what `updateMapTable` builds -/

/-- a map node all of whose members are leaves -/
def FlatMap : PNode → Prop
  | .map ms _ _ _ => ∀ km ∈ ms, ∃ k buf sk, km.2 = .leaf k buf sk
  | _ => False

/-- the columns of a table that only saw flat map rows: string keys, no key twice -/
def MCols (cols : List Table) : Prop := (∀ c ∈ cols, ∃ k, c.key = .str k) ∧ (cols.map Table.key).Nodup

/-- columns in ascending order of the (encoded) key -/
def MSorted (cols : List Table) : Prop := cols.Pairwise fun a b => bytesLt a.key.string b.key.string = true

theorem findLast_walk (key : TKey) : ∀ (p : List Table) (j : Nat) (found : Option Nat) (rest : List Table),
    (∀ c ∈ p, c.key ≠ key) → findLast key (p ++ rest) j found = findLast key rest (j + p.length) found := by
  intro p
  induction p with
  | nil => intro j found rest _; simp
  | cons c r ih =>
    intro j found rest hp
    simp only [List.cons_append, findLast, hp c (by simp), ↓reduceIte, List.length_cons]
    rw [ih _ _ _ (fun x hx => hp x (by simp [hx]))]
    congr 1; omega

/-- with no key twice, `updateCol` changes the one column with the key, or appends a new one -/
theorem updateCol_spec (u : PNode → Table → Table) (key : TKey) (m : PNode) (cols : List Table)
    (hnd : (cols.map Table.key).Nodup) :
    (key ∉ cols.map Table.key ∧ updateCol u key m cols = cols ++ [applyMember u m (.mk key 0 [] 0)]) ∨
    (∃ pre c suf, cols = pre ++ c :: suf ∧ c.key = key ∧ updateCol u key m cols = pre ++ applyMember u m c :: suf) := by
  by_cases hmem : key ∈ cols.map Table.key
  · right
    simp only [List.mem_map] at hmem
    obtain ⟨c, hc, hk⟩ := hmem
    obtain ⟨pre, suf, rfl⟩ := List.append_of_mem hc
    have hnd' := hnd
    simp only [List.map_append, List.map_cons] at hnd'
    have hpre : ∀ x ∈ pre, x.key ≠ key := by
      intro x hx e
      have := (List.nodup_append.mp hnd').2.2 x.key (List.mem_map_of_mem hx) c.key (by simp)
      exact this (by rw [e, hk])
    have hsuf : ∀ x ∈ suf, x.key ≠ key := by
      intro x hx e
      have h2 := (List.nodup_append.mp hnd').2.1
      simp only [List.nodup_cons] at h2
      exact h2.1 (by rw [hk, ← e]; exact List.mem_map_of_mem hx)
    refine ⟨pre, c, suf, rfl, hk, ?_⟩
    have hfl : findLast key (pre ++ c :: suf) 0 none = some pre.length := by
      rw [findLast_walk key pre 0 none (c :: suf) hpre]
      simp only [findLast, hk, ↓reduceIte, Nat.zero_add]
      rw [findLast_none_of_keys key suf _ _ hsuf]
    simp only [updateCol, hfl]
    exact modifyAt_append _ pre c suf
  · left
    refine ⟨hmem, ?_⟩
    have : findLast key cols 0 none = none :=
      findLast_none_of_keys key cols 0 none (fun c hc e => hmem (by rw [← e]; exact List.mem_map_of_mem hc))
    simp only [updateCol, this]

theorem applyMember_leaf_key (u : PNode → Table → Table) (k : UInt8) (buf : Bytes) (sk : Bool) (c : Table) :
    (applyMember u (.leaf k buf sk) c).key = c.key := by
  obtain ⟨ck, cs, cc, ckd⟩ := c
  rw [applyMember_leaf]
  by_cases h : cs < buf.length
  · rw [if_pos h]; rfl
  · rw [if_neg h]

theorem updateCol_leaf (u : PNode → Table → Table) (key : Bytes) (k : UInt8) (buf : Bytes) (sk : Bool) (cols : List Table)
    (h : MCols cols) :
    MCols (updateCol u (.str key) (.leaf k buf sk) cols) ∧
      ∀ key', key' ∈ (updateCol u (.str key) (.leaf k buf sk) cols).map Table.key ↔
        (key' ∈ cols.map Table.key ∨ key' = .str key) := by
  rcases updateCol_spec u (.str key) (.leaf k buf sk) cols h.2 with ⟨hn, he⟩ | ⟨pre, c, suf, hc, hk, he⟩
  · rw [he]
    have hkey : (applyMember u (.leaf k buf sk) (.mk (.str key) 0 [] 0)).key = .str key := by
      rw [applyMember_leaf_key]; rfl
    refine ⟨⟨?_, ?_⟩, ?_⟩
    · intro c hc
      simp only [List.mem_append, List.mem_singleton] at hc
      rcases hc with hc | rfl
      · exact h.1 c hc
      · exact ⟨key, hkey⟩
    · simp only [List.map_append, List.map_cons, List.map_nil, hkey]
      exact List.nodup_append.mpr ⟨h.2, by simp, fun a ha b hb => by
        simp only [List.mem_singleton] at hb; rw [hb]; intro e; exact hn (by rw [← e]; exact ha)⟩
    · intro key'
      simp only [List.map_append, List.map_cons, List.map_nil, hkey, List.mem_append, List.mem_singleton]
  · have hkeys : (pre ++ applyMember u (.leaf k buf sk) c :: suf).map Table.key = cols.map Table.key := by
      rw [hc]; simp only [List.map_append, List.map_cons, applyMember_leaf_key]
    rw [he]
    refine ⟨⟨?_, by rw [hkeys]; exact h.2⟩, ?_⟩
    · intro x hx
      simp only [List.mem_append, List.mem_cons] at hx
      rcases hx with hx | rfl | hx
      · exact h.1 x (by rw [hc]; simp [hx])
      · obtain ⟨kk, hkk⟩ := h.1 c (by rw [hc]; simp)
        exact ⟨kk, by rw [applyMember_leaf_key, hkk]⟩
      · exact h.1 x (by rw [hc]; simp [hx])
    · intro key'
      rw [hkeys]
      constructor
      · intro h1; exact Or.inl h1
      · rintro (h1 | h1)
        · exact h1
        · rw [h1, ← hk, hc]; simp

/-- the loop of `updateMapTable` over a flat row -/
theorem updMapCols_flat (u : PNode → Table → Table) : ∀ (ms : List (Bytes × PNode)) (cols : List Table),
    (∀ km ∈ ms, ∃ k buf sk, km.2 = .leaf k buf sk) → MCols cols →
    MCols (updMapCols u ms cols) ∧
      ∀ key', key' ∈ (updMapCols u ms cols).map Table.key ↔
        (key' ∈ cols.map Table.key ∨ ∃ km ∈ ms, key' = .str km.1) := by
  intro ms
  induction ms with
  | nil => intro cols _ h; exact ⟨h, fun key' => by simp [updMapCols]⟩
  | cons km r ih =>
    intro cols hfl h
    obtain ⟨key, m⟩ := km
    obtain ⟨k, buf, sk, hm⟩ := hfl (key, m) (by simp)
    simp only at hm
    subst hm
    obtain ⟨h1, h2⟩ := updateCol_leaf u key k buf sk cols h
    obtain ⟨h3, h4⟩ := ih _ (fun x hx => hfl x (by simp [hx])) h1
    simp only [updMapCols]
    refine ⟨h3, ?_⟩
    intro key'
    rw [h4, h2]
    constructor
    · rintro ((h5 | h5) | ⟨x, hx, h5⟩)
      · exact Or.inl h5
      · exact Or.inr ⟨(key, .leaf k buf sk), by simp, h5⟩
      · exact Or.inr ⟨x, by simp [hx], h5⟩
    · rintro (h5 | ⟨x, hx, h5⟩)
      · exact Or.inl (Or.inl h5)
      · simp only [List.mem_cons] at hx
        rcases hx with rfl | hx
        · exact Or.inl (Or.inr h5)
        · exact Or.inr ⟨x, hx, h5⟩

/-- the order `updateMapTable` sorts the columns by -/
def ltS (a b : Table) : Bool := bytesLt a.key.string b.key.string

theorem insertBy_perm (lt : Table → Table → Bool) (x : Table) : ∀ l : List Table, (insertBy lt x l).Perm (x :: l) := by
  intro l
  induction l with
  | nil => exact List.Perm.refl _
  | cons c r ih =>
    simp only [insertBy]
    split
    · exact List.Perm.refl _
    · exact ((List.Perm.cons _ ih).trans (List.Perm.swap _ _ _))

theorem sortBy_perm (lt : Table → Table → Bool) : ∀ (l acc : List Table), (sortBy lt l acc).Perm (l ++ acc) := by
  intro l
  induction l with
  | nil => intro acc; exact List.Perm.refl _
  | cons c r ih =>
    intro acc
    simp only [sortBy]
    refine (ih _).trans ?_
    refine (List.Perm.append_left r (insertBy_perm lt c acc)).trans ?_
    simp only [List.cons_append]
    exact List.perm_middle

theorem insertBy_sorted (x : Table) : ∀ l : List Table, MSorted l → (∀ c ∈ l, c.key.string ≠ x.key.string) →
    MSorted (insertBy ltS x l) := by
  intro l
  induction l with
  | nil => intro _ _; simp [insertBy, MSorted]
  | cons c r ih =>
    intro hs hne
    simp only [MSorted, List.pairwise_cons] at hs
    simp only [insertBy]
    by_cases hlt : ltS x c = true
    · simp only [hlt, ↓reduceIte, MSorted, List.pairwise_cons]
      refine ⟨?_, hs⟩
      intro b hb
      simp only [List.mem_cons] at hb
      rcases hb with rfl | hb
      · exact hlt
      · exact bytesLt_trans _ _ _ hlt (hs.1 b hb)
    · simp only [hlt, Bool.false_eq_true, ↓reduceIte, MSorted, List.pairwise_cons]
      have hk' : bytesLt c.key.string x.key.string = true :=
        bytesLt_total x.key.string c.key.string (by simpa [ltS] using hlt) (fun e => hne c (by simp) e.symm)
      refine ⟨?_, ih hs.2 (fun y hy => hne y (by simp [hy]))⟩
      intro b hb
      have := (insertBy_perm ltS x r).mem_iff.mp hb
      simp only [List.mem_cons] at this
      rcases this with rfl | hb'
      · exact hk'
      · exact hs.1 b hb'

theorem sortBy_sorted : ∀ (l acc : List Table), MSorted acc →
    ((l ++ acc).map fun c => c.key.string).Nodup → MSorted (sortBy ltS l acc) := by
  intro l
  induction l with
  | nil => intro acc h _; exact h
  | cons c r ih =>
    intro acc hs hnd
    simp only [sortBy]
    simp only [List.cons_append, List.map_cons, List.nodup_cons, List.map_append, List.mem_append, not_or] at hnd
    apply ih
    · apply insertBy_sorted c acc hs
      intro y hy e
      exact hnd.1.2 (by rw [← e]; exact List.mem_map_of_mem (f := fun c => c.key.string) hy)
    · have hp := (insertBy_perm ltS c acc)
      have hp2 : ((r ++ insertBy ltS c acc).map fun c => c.key.string).Perm ((r ++ c :: acc).map fun c => c.key.string) :=
        (List.Perm.append_left r hp).map _
      rw [hp2.nodup_iff]
      simp only [List.map_append, List.map_cons]
      apply List.nodup_append.mpr
      refine ⟨(List.nodup_append.mp hnd.2).1, ?_, ?_⟩
      · simp only [List.nodup_cons]
        exact ⟨hnd.1.2, (List.nodup_append.mp hnd.2).2.1⟩
      · intro a ha b hb
        simp only [List.mem_cons] at hb
        rcases hb with rfl | hb
        · intro e; exact hnd.1.1 (by rw [← e]; exact ha)
        · exact (List.nodup_append.mp hnd.2).2.2 a ha b hb

/-- distinct string keys have distinct strings -/
theorem MCols_strings : ∀ (cols : List Table), MCols cols → (cols.map fun c => c.key.string).Nodup := by
  intro cols
  induction cols with
  | nil => intro _; simp
  | cons c r ih =>
    intro h
    have hr : MCols r := ⟨fun x hx => h.1 x (by simp [hx]), by have := h.2; simp only [List.map_cons, List.nodup_cons] at this; exact this.2⟩
    simp only [List.map_cons, List.nodup_cons]
    refine ⟨?_, ih hr⟩
    intro hmem
    simp only [List.mem_map] at hmem
    obtain ⟨x, hx, e⟩ := hmem
    obtain ⟨kc, hkc⟩ := h.1 c (by simp)
    obtain ⟨kx, hkx⟩ := h.1 x (by simp [hx])
    have h2 := h.2
    simp only [List.map_cons, List.nodup_cons] at h2
    apply h2.1
    rw [hkc, hkx] at e
    simp only [TKey.string] at e
    rw [hkc, ← e, ← hkx]
    exact List.mem_map_of_mem hx

/-- the (encoded) keys of a map node -/
def PNode.mkeys : PNode → List Bytes
  | .map ms _ _ _ => ms.map fun km => km.1
  | _ => []

/-- columns sorted and the size the sum `updateMapTable` computes -/
def MGood (t : Table) : Prop := MSorted t.cols ∧ t.size = sumSizesKeys t.cols + t.cols.length * 4

/-- one `updateMapTable` with a flat row -/
theorem upd_flat (g : Nat) (n : PNode) (t : Table) (hn : FlatMap n) (ht : MCols t.cols) :
    MCols (upd (g + 1) n t).cols ∧ MGood (upd (g + 1) n t) ∧
      ∀ key', key' ∈ (upd (g + 1) n t).cols.map Table.key ↔
        (key' ∈ t.cols.map Table.key ∨ ∃ k ∈ n.mkeys, key' = .str k) := by
  cases n with
  | leaf k buf sk => simp [FlatMap] at hn
  | arr ms sz dp sk => simp [FlatMap] at hn
  | map ms sz dp sk =>
    simp only [FlatMap] at hn
    obtain ⟨key, size, cols, kinds⟩ := t
    simp only [Table.cols] at ht
    obtain ⟨h1, h2⟩ := updMapCols_flat (upd g) ms cols hn ht
    have h0 : upd (g + 1) (.map ms sz dp sk) (.mk key size cols kinds) =
        .mk key (sumSizesKeys (sortBy ltS (updMapCols (upd g) ms cols) []) +
          (sortBy ltS (updMapCols (upd g) ms cols) []).length * 4)
          (sortBy ltS (updMapCols (upd g) ms cols) []) kinds := rfl
    have hp := sortBy_perm ltS (updMapCols (upd g) ms cols) []
    simp only [List.append_nil] at hp
    rw [h0]
    simp only [Table.cols, MGood, Table.size]
    refine ⟨⟨?_, ?_⟩, ⟨?_, trivial⟩, ?_⟩
    · intro c hc; exact h1.1 c (hp.mem_iff.mp hc)
    · exact ((hp.map Table.key).nodup_iff).mpr h1.2
    · apply sortBy_sorted _ [] (by simp [MSorted])
      simpa using MCols_strings _ h1
    · intro key'
      rw [(hp.map Table.key).mem_iff, h2]
      simp only [PNode.mkeys, List.mem_map]
      constructor
      · rintro (h | ⟨km, hkm, e⟩)
        · exact Or.inl h
        · exact Or.inr ⟨km.1, ⟨km, hkm, rfl⟩, e⟩
      · rintro (h | ⟨k, ⟨km, hkm, rfl⟩, e⟩)
        · exact Or.inl h
        · exact Or.inr ⟨km, hkm, e⟩

theorem foldUpd_flat_aux (g : Nat) : ∀ (rows : List PNode) (t : Table), (∀ r ∈ rows, FlatMap r) → MCols t.cols → MGood t →
    MCols (foldUpd (g + 1) rows t).cols ∧ MGood (foldUpd (g + 1) rows t) ∧
      ∀ key', key' ∈ (foldUpd (g + 1) rows t).cols.map Table.key ↔
        (key' ∈ t.cols.map Table.key ∨ ∃ r ∈ rows, ∃ k ∈ r.mkeys, key' = .str k) := by
  intro rows
  induction rows with
  | nil => intro t _ h1 h2; exact ⟨h1, h2, fun key' => by simp [foldUpd]⟩
  | cons r rs ih =>
    intro t hr h1 h2
    obtain ⟨a1, a2, a3⟩ := upd_flat g r t (hr r (by simp)) h1
    obtain ⟨b1, b2, b3⟩ := ih (upd (g + 1) r t) (fun x hx => hr x (by simp [hx])) a1 a2
    simp only [foldUpd]
    refine ⟨b1, b2, ?_⟩
    intro key'
    rw [b3, a3]
    constructor
    · rintro ((h | ⟨k, hk, e⟩) | ⟨x, hx, k, hk, e⟩)
      · exact Or.inl h
      · exact Or.inr ⟨r, by simp, k, hk, e⟩
      · exact Or.inr ⟨x, by simp [hx], k, hk, e⟩
    · rintro (h | ⟨x, hx, k, hk, e⟩)
      · exact Or.inl (Or.inl h)
      · simp only [List.mem_cons] at hx
        rcases hx with rfl | hx
        · exact Or.inl (Or.inr ⟨k, hk, e⟩)
        · exact Or.inr ⟨x, hx, k, hk, e⟩

/-- the table of a non-empty list of flat map rows -/
theorem foldUpd_flat (g : Nat) (r : PNode) (rs : List PNode) (hr : ∀ x ∈ r :: rs, FlatMap x) :
    MCols (foldUpd (g + 1) (r :: rs) (.mk (.idx 0) 0 [] 0)).cols ∧ MGood (foldUpd (g + 1) (r :: rs) (.mk (.idx 0) 0 [] 0)) ∧
      ∀ key', key' ∈ (foldUpd (g + 1) (r :: rs) (.mk (.idx 0) 0 [] 0)).cols.map Table.key ↔
        ∃ x ∈ r :: rs, ∃ k ∈ x.mkeys, key' = .str k := by
  have h0 : MCols (Table.mk (.idx 0) 0 [] 0).cols := ⟨by simp [Table.cols], by simp [Table.cols]⟩
  obtain ⟨a1, a2, a3⟩ := upd_flat g r _ (hr r (by simp)) h0
  obtain ⟨b1, b2, b3⟩ := foldUpd_flat_aux g rs _ (fun x hx => hr x (by simp [hx])) a1 a2
  simp only [foldUpd]
  refine ⟨b1, b2, ?_⟩
  intro key'
  rw [b3, a3]
  simp only [Table.cols, List.map_nil, List.not_mem_nil, false_or]
  constructor
  · rintro (⟨k, hk, e⟩ | ⟨x, hx, k, hk, e⟩)
    · exact ⟨r, by simp, k, hk, e⟩
    · exact ⟨x, by simp [hx], k, hk, e⟩
  · rintro ⟨x, hx, k, hk, e⟩
    simp only [List.mem_cons] at hx
    rcases hx with rfl | hx
    · exact Or.inl ⟨k, hk, e⟩
    · exact Or.inr ⟨x, hx, k, hk, e⟩

/-! ### no padding out of range -/

theorem sumSizesKeys_mem : ∀ (cols : List Table) (c : Table), c ∈ cols →
    c.size + c.key.string.length + 4 ≤ sumSizesKeys cols + cols.length * 4 := by
  intro cols
  induction cols with
  | nil => intro c hc; simp at hc
  | cons x r ih =>
    intro c hc
    simp only [List.mem_cons] at hc
    simp only [sumSizesKeys, List.length_cons]
    rcases hc with rfl | hc
    · omega
    · have := ih c hc; omega

theorem findMember_mem (k : Bytes) : ∀ (ms : List (Bytes × PNode)) (m : PNode), findMember k ms = some m → (k, m) ∈ ms := by
  intro ms
  induction ms with
  | nil => intro m h; simp [findMember] at h
  | cons km r ih =>
    intro m h
    obtain ⟨key, n⟩ := km
    simp only [findMember] at h
    by_cases hk : key = k
    · simp only [hk, ↓reduceIte, Option.some.injEq] at h; subst h; simp [hk]
    · simp only [hk, ↓reduceIte] at h; exact List.mem_cons_of_mem _ (ih m h)

theorem mapColsOK_flat (aaOK amOK : PNode → Table → Prop) (ms : List (Bytes × PNode)) (n : Nat)
    (hfl : ∀ km ∈ ms, ∃ k buf sk, km.2 = .leaf k buf sk) : ∀ (rem : List Table) (i : Nat),
    (∀ c ∈ rem, c.size + c.key.string.length + 4 ≤ 128) → mapColsOK aaOK amOK ms n rem i := by
  intro rem
  induction rem with
  | nil => intro i _; simp [mapColsOK]
  | cons col cr ih =>
    intro i h
    have hc := h col (by simp)
    simp only [mapColsOK]
    refine ⟨?_, ih (i + 1) (fun c hc => h c (by simp [hc]))⟩
    cases hfm : findMember col.key.string ms with
    | none => simp only [spaces_size]; split <;> omega
    | some m =>
      obtain ⟨k, buf, sk, hm⟩ := hfl _ (findMember_mem _ ms m hfm)
      simp only at hm
      subst hm
      simp only [cellOK, spaces_size]
      intro _; omega

/-- in a table of flat objects no padding is out of range once the table fits 128 columns -/
theorem nodeOK_flat (fu : Nat) (n : PNode) (t : Table) (hn : FlatMap n) (hg : MGood t) (hs : t.size ≤ 128) :
    nodeOK (fu + 1) n t := by
  cases n with
  | leaf k buf sk => simp [nodeOK]
  | arr ms sz dp sk => simp [FlatMap] at hn
  | map ms sz dp sk =>
    simp only [FlatMap] at hn
    simp only [nodeOK]
    apply mapColsOK_flat _ _ ms _ hn
    intro c hc
    have := sumSizesKeys_mem t.cols c hc
    have h2 := hg.2
    omega

/-! ### the text of a flat row -/

/-- the member of a row with the (encoded) key -/
def findKv (enc : Bytes → Bytes) (key : Bytes) : Kvs → Option (Bytes × JV)
  | [] => none
  | kv :: r => if enc kv.1 = key then some kv else findKv enc key r

/-- the members of a row in the order of the columns -/
def presV (enc : Bytes → Bytes) (kept : Kvs) : List Table → Kvs
  | [] => []
  | col :: cr =>
    match findKv enc col.key.string kept with
    | none => presV enc kept cr
    | some kv => kv :: presV enc kept cr

theorem findMember_map (enc : Bytes → Bytes) (bv : JV → PNode) (key : Bytes) : ∀ kept : Kvs,
    findMember key (kept.map fun kv => (enc kv.1, bv kv.2)) = (findKv enc key kept).map fun kv => bv kv.2 := by
  intro kept
  induction kept with
  | nil => rfl
  | cons kv r ih =>
    simp only [List.map_cons, findMember, findKv]
    by_cases h : enc kv.1 = key
    · simp [h]
    · simp [h, ih]

theorem findKv_mem (enc : Bytes → Bytes) (key : Bytes) : ∀ (kept : Kvs) (kv : Bytes × JV),
    findKv enc key kept = some kv → kv ∈ kept ∧ enc kv.1 = key := by
  intro kept
  induction kept with
  | nil => intro kv h; simp [findKv] at h
  | cons x r ih =>
    intro kv h
    simp only [findKv] at h
    by_cases hx : enc x.1 = key
    · simp only [hx, ↓reduceIte, Option.some.injEq] at h; subst h; exact ⟨by simp, hx⟩
    · simp only [hx, ↓reduceIte] at h
      obtain ⟨h1, h2⟩ := ih kv h
      exact ⟨List.mem_cons_of_mem _ h1, h2⟩

/-- the last column, if there is one, has a member in the row -/
def lastPres (enc : Bytes → Bytes) (kept : Kvs) : List Table → Prop
  | [] => True
  | c :: r =>
    match r with
    | [] => (findKv enc c.key.string kept).isSome = true
    | _ :: _ => lastPres enc kept r

theorem lastPres_tail (enc : Bytes → Bytes) (kept : Kvs) (c : Table) (r : List Table) (h : lastPres enc kept (c :: r)) :
    lastPres enc kept r := by
  cases r with
  | nil => simp [lastPres]
  | cons d r' => simpa [lastPres] using h

theorem lastPres_pres (enc : Bytes → Bytes) (kept : Kvs) : ∀ (rem : List Table), rem ≠ [] → lastPres enc kept rem →
    presV enc kept rem ≠ [] := by
  intro rem
  induction rem with
  | nil => intro h; exact absurd rfl h
  | cons c r ih =>
    intro _ hl
    cases r with
    | nil =>
      simp only [lastPres] at hl
      simp only [presV]
      cases hf : findKv enc c.key.string kept with
      | none => simp [hf] at hl
      | some kv => simp
    | cons d r' =>
      have := ih (by simp) (lastPres_tail enc kept c _ hl)
      simp only [presV] at this ⊢
      cases hf : findKv enc c.key.string kept with
      | none => simpa [hf] using this
      | some kv => simp

section FlatRow
variable (enc : Bytes → Bytes) (bv : JV → PNode) (kept : Kvs) (T : PNode → Table → Bytes) (n : Nat)

/-- the row as `alignMap` sees it -/
def rowMs : List (Bytes × PNode) := kept.map fun kv => (enc kv.1, bv kv.2)

theorem mapColsT_true (col : Table) (cr : List Table) (i : Nat) :
    mapColsT T T (rowMs enc bv kept) n (col :: cr) i true = 44 :: 32 :: mapColsT T T (rowMs enc bv kept) n (col :: cr) i false := by
  simp [mapColsT]

theorem presV_length_le : ∀ (rem : List Table) (i : Nat) (pe : Bool),
    (presV enc kept rem).length ≤ (mapColsT T T (rowMs enc bv kept) n rem i pe).length := by
  intro rem
  induction rem with
  | nil => intro i pe; simp [presV]
  | cons col cr ih =>
    intro i pe
    simp only [presV, mapColsT, rowMs, findMember_map]
    cases hf : findKv enc col.key.string kept with
    | none =>
      have := ih (i + 1) false
      simp only [Option.map_none, List.length_append, rowMs] at this ⊢
      omega
    | some kv =>
      have := ih (i + 1) true
      simp only [Option.map_some, List.length_append, List.length_cons, rowMs] at this ⊢
      omega

/-- from a column on, with no separator pending: only padding, or padding and then the next member
of the row -/
theorem mapColsT_first (hsp : SepWs) : ∀ (rem : List Table) (i : Nat),
    (presV enc kept rem = [] ∧ ((mapColsT T T (rowMs enc bv kept) n rem i false).all Spec.isWs) = true) ∨
    (∃ W kv col' rem' i', (W.all Spec.isWs) = true ∧ findKv enc col'.key.string kept = some kv ∧
      presV enc kept rem = kv :: presV enc kept rem' ∧ rem'.length < rem.length ∧
      (lastPres enc kept rem → lastPres enc kept rem') ∧
      mapColsT T T (rowMs enc bv kept) n rem i false =
        W ++ (col'.key.string ++ [58, 32] ++ cellT T T (bv kv.2) col' ++ mapColsT T T (rowMs enc bv kept) n rem' i' true)) := by
  intro rem
  induction rem with
  | nil => intro i; left; exact ⟨rfl, rfl⟩
  | cons col cr ih =>
    intro i
    cases hf : findKv enc col.key.string kept with
    | none =>
      have hpad : ((sliceOf Gen.Pretty.spaces 1 ((if i + 1 < n then col.key.string.length + 2 + col.size + 2
          else col.key.string.length + 2 + col.size) + 1)).all Spec.isWs) = true := all_take_drop _ _ hsp.spaces _ _
      have htxt : mapColsT T T (rowMs enc bv kept) n (col :: cr) i false =
          sliceOf Gen.Pretty.spaces 1 ((if i + 1 < n then col.key.string.length + 2 + col.size + 2
            else col.key.string.length + 2 + col.size) + 1) ++ mapColsT T T (rowMs enc bv kept) n cr (i + 1) false := by
        simp [mapColsT, rowMs, findMember_map, hf]
      rcases ih (i + 1) with ⟨h1, h2⟩ | ⟨W, kv, col', rem', i', hW, hfk, hp, hlen, hlp, htx⟩
      · left
        refine ⟨by simp [presV, hf, h1], ?_⟩
        rw [htxt, List.all_append, hpad, h2]; rfl
      · right
        refine ⟨_ ++ W, kv, col', rem', i', by rw [List.all_append, hpad, hW]; rfl, hfk, by simp [presV, hf, hp],
          by simp; omega, fun hl => hlp (lastPres_tail enc kept col cr hl), ?_⟩
        rw [htxt, htx]; simp
    | some kv =>
      right
      refine ⟨[], kv, col, cr, i + 1, rfl, hf, by simp [presV, hf], by simp, lastPres_tail enc kept col cr, ?_⟩
      simp [mapColsT, rowMs, findMember_map, hf]

theorem pMembers_skip (pv : Bytes → Option (JV × Bytes)) (k : Nat) (w X : Bytes) (acc : Kvs)
    (hw : (w.all Spec.isWs) = true) : Spec.pMembers pv k (w ++ X) acc = Spec.pMembers pv k X acc := by
  cases k with
  | zero => rfl
  | succ k => simp only [Spec.pMembers, skipWs_ws_append w X hw]

theorem mapColsT_true_head (rem : List Table) (i : Nat) (rest : Bytes) :
    ∃ c t, mapColsT T T (rowMs enc bv kept) n rem i true ++ 125 :: rest = c :: t ∧ follows [c] = true := by
  cases rem with
  | nil => exact ⟨125, rest, by simp [mapColsT], by decide⟩
  | cons col cr => exact ⟨44, _, by rw [mapColsT_true]; rfl, by decide⟩

/-- the members after a member, up to the closing brace -/
theorem mapCols_parse (hs : TableSafe Gen.Root.jMap) (hsp : SepWs) (html : Bool) (pv : Bytes → Option (JV × Bytes))
    (nvv : JV → JV) (rest : Bytes) (G : Nat)
    (henc : ∀ kv ∈ kept, enc kv.1 = jsonString kv.1 html)
    (hcell : ∀ kv ∈ kept, ∀ col, (cellT T T (bv kv.2) col).length < G → CellParse pv (cellT T T (bv kv.2) col) (nvv kv.2)) :
    ∀ (N : Nat) (rem : List Table), rem.length ≤ N → ∀ (i : Nat) (acc : Kvs) (fuel : Nat),
      (presV enc kept rem).length < fuel → lastPres enc kept rem →
      (acc.map (fun kv => kv.1) ++ (presV enc kept rem).map (fun kv => sanitize kv.1)).Nodup →
      (mapColsT T T (rowMs enc bv kept) n rem i true).length < G →
      Spec.pMembers pv fuel (mapColsT T T (rowMs enc bv kept) n rem i true ++ 125 :: rest) acc =
        some (.obj (acc ++ (presV enc kept rem).map fun kv => (sanitize kv.1, nvv kv.2)), rest) := by
  intro N
  induction N with
  | zero =>
    intro rem hN i acc fuel hf _ _ _
    have : rem = [] := by cases rem <;> simp_all
    subst this
    obtain ⟨fuel', rfl⟩ : ∃ f', fuel = f' + 1 := ⟨fuel - 1, by omega⟩
    simp only [mapColsT, presV, List.nil_append, List.map_nil, List.append_nil, Spec.pMembers]
    rw [skipWs_nonws 125 rest (by decide)]
    simp
  | succ N ih =>
    intro rem hN i acc fuel hf hlp hnd hlen
    obtain ⟨fuel', rfl⟩ : ∃ f', fuel = f' + 1 := ⟨fuel - 1, by omega⟩
    cases rem with
    | nil =>
      simp only [mapColsT, presV, List.nil_append, List.map_nil, List.append_nil, Spec.pMembers]
      rw [skipWs_nonws 125 rest (by decide)]
      simp
    | cons col cr =>
      have hne := lastPres_pres enc kept (col :: cr) (by simp) hlp
      rcases mapColsT_first enc bv kept T n hsp (col :: cr) i with ⟨h1, _⟩ | ⟨W, kv, col', rem', i', hW, hfk, hp, hl', hlp', htx⟩
      · exact absurd h1 hne
      · obtain ⟨hkvm, hkey⟩ := findKv_mem enc _ kept kv hfk
        rw [mapColsT_true, htx] at hlen ⊢
        rw [hp] at hf hnd ⊢
        have hl1 : (cellT T T (bv kv.2) col').length < G := by
          simp only [List.length_cons, List.length_append] at hlen; omega
        obtain ⟨pre, tok, post, htxt, hpre, hpost, hst, hpv⟩ := hcell kv hkvm col' hl1
        obtain ⟨c, tl, htl, hfc⟩ := mapColsT_true_head enc bv kept T n rem' i' rest
        have hfol : follows (post ++ (mapColsT T T (rowMs enc bv kept) n rem' i' true ++ 125 :: rest)) = true := by
          rw [htl]; exact follows_ws_append post c tl hpost hfc
        have h1 := hpv _ hfol
        have hw : ((32 :: pre).all Spec.isWs) = true := by
          simp only [List.all_cons, hpre, Bool.and_true]; decide
        have hm := pMember_text hs pv kv.1 html (32 :: pre) tok
          (post ++ (mapColsT T T (rowMs enc bv kept) n rem' i' true ++ 125 :: rest)) (nvv kv.2) hw hst h1
        have hk2 : col'.key.string = jsonString kv.1 html := by rw [← hkey]; exact henc kv hkvm
        rw [hk2, htxt]
        simp only [List.cons_append, List.append_assoc, List.nil_append, Spec.pMembers]
        rw [skipWs_nonws 44 _ (by decide)]
        simp only [show ¬ ((44 : UInt8) = 125) by decide, ↓reduceIte]
        have hsk : Spec.skipWs (32 :: (W ++ (jsonString kv.1 html ++ (58 :: 32 :: (pre ++ (tok ++ (post ++
            (mapColsT T T (rowMs enc bv kept) n rem' i' true ++ 125 :: rest)))))))) =
            jsonString kv.1 html ++ (58 :: 32 :: (pre ++ (tok ++ (post ++
            (mapColsT T T (rowMs enc bv kept) n rem' i' true ++ 125 :: rest))))) := by
          have e1 : Spec.skipWs (32 :: (W ++ (jsonString kv.1 html ++ (58 :: 32 :: (pre ++ (tok ++ (post ++
              (mapColsT T T (rowMs enc bv kept) n rem' i' true ++ 125 :: rest)))))))) =
              Spec.skipWs (W ++ (jsonString kv.1 html ++ (58 :: 32 :: (pre ++ (tok ++ (post ++
              (mapColsT T T (rowMs enc bv kept) n rem' i' true ++ 125 :: rest))))))) := by
            simp [Spec.skipWs, show Spec.isWs 32 = true by decide]
          rw [e1, skipWs_ws_append W _ hW]
          simp only [jsonString, List.cons_append]
          rw [skipWs_nonws 34 _ (by decide)]
        rw [hsk]
        simp only [List.append_assoc, List.cons_append, List.nil_append] at hm
        rw [hm]
        simp only
        have hnew : sanitize kv.1 ∉ acc.map (fun kv => kv.1) := by
          intro hmem
          have := List.nodup_append.mp hnd
          exact this.2.2 _ hmem _ (by simp) rfl
        rw [kvInsert_new _ _ acc hnew, pMembers_skip pv fuel' post _ _ hpost]
        have hnd' : ((acc ++ [(sanitize kv.1, nvv kv.2)]).map (fun kv => kv.1) ++
            (presV enc kept rem').map (fun kv => sanitize kv.1)).Nodup := by
          simpa [List.map_append, List.append_assoc] using hnd
        have hlen' : (mapColsT T T (rowMs enc bv kept) n rem' i' true).length < G := by
          simp only [List.length_cons, List.length_append] at hlen; omega
        rw [ih rem' (by simp only [List.length_cons] at hN hl'; omega) i' (acc ++ [(sanitize kv.1, nvv kv.2)]) fuel'
          (by simp only [List.length_cons] at hf; omega)
          (hlp' hlp) hnd' hlen']
        simp

end FlatRow


/-- a cell holding a scalar: its padded text is white space, the value, white space -/
theorem cellParse_scalar (hs : TableSafe Gen.Root.jMap) (hsp : SepWs) (o : POpts) (drop : JV → Bool) (srt : Bool)
    (ord : Kvs → Kvs) (f g : Nat) (y : JV) (col : Table) (T : PNode → Table → Bytes) (hok : okW y)
    (h1 : isArr y = false) (h2 : isObj y = false) :
    CellParse (Spec.pValue (g + 1)) (cellT T T (build o ord (f + 1) y) col) (normG drop srt ord (f + 1) y) := by
  obtain ⟨kind, sk, hb, hkind⟩ := build_scalar o ord f y hok h1 h2
  obtain ⟨b, tt, hhead, hsb⟩ := scalar_head o y hok h1 h2
  rw [hb]
  have hpv : ∀ rest', follows rest' = true →
      Spec.pValue (g + 1) (scalarT o y ++ rest') = some (normG drop srt ord (f + 1) y, rest') :=
    fun rest' hr' => parse_scalar hs o drop srt ord f g y rest' hok h1 h2 hr'
  rcases hkind with rfl | rfl
  · simp only [cellT, ↓reduceIte]
    exact ⟨[], scalarT o y, padT (decide ((scalarT o y).length < col.size))
      (col.size - (scalarT o y).length + 1), by simp, rfl, padT_ws hsp _ _, ⟨b, tt, hhead, hsb⟩, hpv⟩
  · have hne : ¬ (Gen.Pretty.numNode = Gen.Pretty.strNode) := by decide
    simp only [cellT, hne, ↓reduceIte]
    exact ⟨padT (decide ((scalarT o y).length < col.size))
      (col.size - (scalarT o y).length + 1), scalarT o y, [], by simp,
      padT_ws hsp _ _, rfl, ⟨b, tt, hhead, hsb⟩, hpv⟩

theorem presV_nil (enc : Bytes → Bytes) : ∀ cols : List Table, presV enc [] cols = [] := by
  intro cols
  induction cols with
  | nil => rfl
  | cons c r ih => simp [presV, findKv, ih]

theorem presV_drop_head (enc : Bytes → Bytes) (kv : Bytes × JV) (kr : Kvs) : ∀ cr : List Table,
    (∀ c ∈ cr, c.key.string ≠ enc kv.1) → presV enc (kv :: kr) cr = presV enc kr cr := by
  intro cr
  induction cr with
  | nil => intro _; rfl
  | cons c r ih =>
    intro h
    have hc : ¬ (enc kv.1 = c.key.string) := fun e => h c (by simp) e.symm
    simp only [presV, findKv, hc, ↓reduceIte]
    rw [ih (fun x hx => h x (by simp [hx]))]

theorem bytesLt_ne (a b : Bytes) (h : bytesLt a b = true) : a ≠ b := by
  intro e; subst e; rw [bytesLt_irrefl] at h; cases h

theorem findKv_none (enc : Bytes → Bytes) (key : Bytes) : ∀ kept : Kvs, (∀ kv ∈ kept, enc kv.1 ≠ key) →
    findKv enc key kept = none := by
  intro kept
  induction kept with
  | nil => intro _; rfl
  | cons kv r ih =>
    intro h
    simp only [findKv, h kv (by simp), ↓reduceIte]
    exact ih (fun x hx => h x (by simp [hx]))

/-- columns and members in the same ascending order, every member under a column: walking the
columns finds the members in their own order -/
theorem presV_eq (enc : Bytes → Bytes) : ∀ (cols : List Table) (kept : Kvs), MSorted cols →
    (kept.map fun kv => enc kv.1).Pairwise (fun a b => bytesLt a b = true) →
    (∀ kv ∈ kept, ∃ col ∈ cols, col.key.string = enc kv.1) → presV enc kept cols = kept := by
  intro cols
  induction cols with
  | nil =>
    intro kept _ _ hcov
    cases kept with
    | nil => rfl
    | cons kv kr => obtain ⟨col, hc, _⟩ := hcov kv (by simp); simp at hc
  | cons col cr ih =>
    intro kept hs hk hcov
    simp only [MSorted, List.pairwise_cons] at hs
    cases kept with
    | nil => exact presV_nil enc _
    | cons kv kr =>
      simp only [List.map_cons, List.pairwise_cons] at hk
      by_cases he : enc kv.1 = col.key.string
      · -- this column is the first member's
        have hcr : ∀ c ∈ cr, c.key.string ≠ enc kv.1 := by
          intro c hc e
          exact bytesLt_ne _ _ (hs.1 c hc) (by rw [e, he])
        have hkr : ∀ kv' ∈ kr, ∃ col' ∈ cr, col'.key.string = enc kv'.1 := by
          intro kv' hkv'
          obtain ⟨col', hc', e'⟩ := hcov kv' (by simp [hkv'])
          simp only [List.mem_cons] at hc'
          rcases hc' with rfl | hc'
          · exfalso
            have := hk.1 (enc kv'.1) (List.mem_map_of_mem (f := fun kv => enc kv.1) hkv')
            exact bytesLt_ne _ _ this (by rw [he, e'])
          · exact ⟨col', hc', e'⟩
        simp only [presV, findKv, he, ↓reduceIte]
        rw [presV_drop_head enc kv kr cr hcr, ih kr hs.2 hk.2 hkr]
      · -- this column belongs to no member of the row
        obtain ⟨col0, hc0, e0⟩ := hcov kv (by simp)
        simp only [List.mem_cons] at hc0
        have hc0' : col0 ∈ cr := by
          rcases hc0 with rfl | h
          · exact absurd e0.symm he
          · exact h
        have hlt : bytesLt col.key.string (enc kv.1) = true := by rw [← e0]; exact hs.1 col0 hc0'
        have hnone : findKv enc col.key.string (kv :: kr) = none := by
          apply findKv_none
          intro kv' hkv' e
          simp only [List.mem_cons] at hkv'
          rcases hkv' with rfl | hkv'
          · exact he e
          · have h2 := hk.1 (enc kv'.1) (List.mem_map_of_mem (f := fun kv => enc kv.1) hkv')
            rw [e] at h2
            exact bytesLt_asymm _ _ hlt h2
        have hcov' : ∀ kv' ∈ kv :: kr, ∃ col' ∈ cr, col'.key.string = enc kv'.1 := by
          intro kv' hkv'
          obtain ⟨col', hc', e'⟩ := hcov kv' hkv'
          simp only [List.mem_cons] at hc'
          rcases hc' with rfl | hc'
          · exfalso
            simp only [List.mem_cons] at hkv'
            rcases hkv' with rfl | hkv'
            · exact he e'.symm
            · have h2 := hk.1 (enc kv'.1) (List.mem_map_of_mem (f := fun kv => enc kv.1) hkv')
              rw [← e'] at h2
              exact bytesLt_asymm _ _ hlt h2
          · exact ⟨col', hc', e'⟩
        simp only [presV, hnone]
        exact ih (kv :: kr) hs.2 (by simp only [List.map_cons, List.pairwise_cons]; exact hk) hcov'


/-- the aligned text of a flat object row reads back as the row, when the row has a member under the
last column (or no member at all) and its encoded keys are ordered like the columns -/
theorem parse_flatRow (hs : TableSafe Gen.Root.jMap) (hsp : SepWs) (html : Bool) (o : POpts) (ord : Kvs → Kvs) (f : Nat)
    (drop : JV → Bool) (srt : Bool) (kept : Kvs) (t : Table) (fu g : Nat) (rest : Bytes) (sz dp : Nat) (sk : Bool)
    (hsc : ∀ kv ∈ kept, okW kv.2 ∧ isArr kv.2 = false ∧ isObj kv.2 = false)
    (hnd : (kept.map fun kv => sanitize kv.1).Nodup)
    (hsorted : MSorted t.cols)
    (hasc : (kept.map fun kv => jsonString kv.1 html).Pairwise (fun a b => bytesLt a b = true))
    (hcov : ∀ kv ∈ kept, ∃ col ∈ t.cols, col.key.string = jsonString kv.1 html)
    (hlast : kept = [] ∨ lastPres (fun k => jsonString k html) kept t.cols)
    (hr : follows rest = true) :
    Spec.pValue (g + 1 + 1)
        (nodeT (fu + 1) (.map (rowMs (fun k => jsonString k html) (build o ord (f + 1)) kept) sz dp sk) t ++ rest) =
      some (.obj (kept.map fun kv => (sanitize kv.1, normG drop srt ord (f + 1) kv.2)), rest) := by
  have hpres := presV_eq (fun k => jsonString k html) t.cols kept hsorted hasc hcov
  have hcell : ∀ kv ∈ kept, ∀ col,
      (cellT (nodeT fu) (nodeT fu) (build o ord (f + 1) kv.2) col).length <
        (nodeT (fu + 1) (.map (rowMs (fun k => jsonString k html) (build o ord (f + 1)) kept) sz dp sk) t).length + 1 →
      CellParse (Spec.pValue (g + 1)) (cellT (nodeT fu) (nodeT fu) (build o ord (f + 1) kv.2) col)
        (normG drop srt ord (f + 1) kv.2) := by
    intro kv hkv col _
    obtain ⟨h1, h2, h3⟩ := hsc kv hkv
    exact cellParse_scalar hs hsp o drop srt ord f g kv.2 col _ h1 h2 h3
  simp only [nodeT]
  rcases mapColsT_first (fun k => jsonString k html) (build o ord (f + 1)) kept (nodeT fu) t.cols.length hsp t.cols 0 with
    ⟨h1, h2⟩ | ⟨W, kv, col', rem', i', hW, hfk, hp, hl', hlp', htx⟩
  · -- nothing but padding
    rw [hpres] at h1
    subst h1
    simp only [List.map_nil]
    have := pValue_empty_obj_ws (g + 1) _ rest h2
    simpa using this
  · obtain ⟨hkvm, hkey⟩ := findKv_mem _ _ kept kv hfk
    have hkne : kept ≠ [] := by intro e; rw [e] at hkvm; simp at hkvm
    have hlp : lastPres (fun k => jsonString k html) kept t.cols := by
      rcases hlast with h | h
      · exact absurd h hkne
      · exact h
    obtain ⟨pre, tok, post, htxt, hpre, hpost, hst, hpv⟩ := hcell kv hkvm col' (by
      rw [show nodeT (fu + 1) (.map (rowMs (fun k => jsonString k html) (build o ord (f + 1)) kept) sz dp sk) t =
        123 :: (mapColsT (nodeT fu) (nodeT fu) (rowMs (fun k => jsonString k html) (build o ord (f + 1)) kept)
          t.cols.length t.cols 0 false ++ [125]) from rfl, htx]
      simp only [List.length_cons, List.length_append]; omega)
    obtain ⟨c, tl, htl, hfc⟩ := mapColsT_true_head (fun k => jsonString k html) (build o ord (f + 1)) kept (nodeT fu)
      t.cols.length rem' i' rest
    have hfol : follows (post ++ (mapColsT (nodeT fu) (nodeT fu) (rowMs (fun k => jsonString k html) (build o ord (f + 1)) kept)
        t.cols.length rem' i' true ++ 125 :: rest)) = true := by
      rw [htl]; exact follows_ws_append post c tl hpost hfc
    have h1 := hpv _ hfol
    have hw : ((32 :: pre).all Spec.isWs) = true := by
      simp only [List.all_cons, hpre, Bool.and_true]; decide
    have hm := pMember_text hs (Spec.pValue (g + 1)) kv.1 html (32 :: pre) tok
      (post ++ (mapColsT (nodeT fu) (nodeT fu) (rowMs (fun k => jsonString k html) (build o ord (f + 1)) kept)
        t.cols.length rem' i' true ++ 125 :: rest)) (normG drop srt ord (f + 1) kv.2) hw hst h1
    have hk2 : col'.key.string = jsonString kv.1 html := hkey.symm
    rw [htx, hk2, htxt]
    have hsk : Spec.skipWs (W ++ (jsonString kv.1 html ++ (58 :: 32 :: (pre ++ (tok ++ (post ++
        (mapColsT (nodeT fu) (nodeT fu) (rowMs (fun k => jsonString k html) (build o ord (f + 1)) kept)
          t.cols.length rem' i' true ++ 125 :: rest))))))) =
        34 :: ((escLoop Gen.Root.jMap html 0 true kv.1 ++ [34]) ++ (58 :: 32 :: (pre ++ (tok ++ (post ++
        (mapColsT (nodeT fu) (nodeT fu) (rowMs (fun k => jsonString k html) (build o ord (f + 1)) kept)
          t.cols.length rem' i' true ++ 125 :: rest)))))) := by
      rw [skipWs_ws_append W _ hW]
      simp only [jsonString, List.cons_append]
      rw [skipWs_nonws 34 _ (by decide)]
    have hm' : Spec.pMember (Spec.pValue (g + 1)) (34 :: ((escLoop Gen.Root.jMap html 0 true kv.1 ++ [34]) ++
        (58 :: 32 :: (pre ++ (tok ++ (post ++
        (mapColsT (nodeT fu) (nodeT fu) (rowMs (fun k => jsonString k html) (build o ord (f + 1)) kept)
          t.cols.length rem' i' true ++ 125 :: rest))))))) =
        some ((sanitize kv.1, normG drop srt ord (f + 1) kv.2), post ++
          (mapColsT (nodeT fu) (nodeT fu) (rowMs (fun k => jsonString k html) (build o ord (f + 1)) kept)
            t.cols.length rem' i' true ++ 125 :: rest)) := by
      simpa only [jsonString, List.cons_append, List.append_assoc, List.nil_append] using hm
    have hopen := pValue_open_obj (g + 1) _ _ _ 34 _ _ hsk (by decide) hm'
    have hnd2 : (([(sanitize kv.1, normG drop srt ord (f + 1) kv.2)] : Kvs).map (fun kv => kv.1) ++
        (presV (fun k => jsonString k html) kept rem').map (fun kv => sanitize kv.1)).Nodup := by
      have : (presV (fun k => jsonString k html) kept t.cols).map (fun kv => sanitize kv.1) =
          sanitize kv.1 :: (presV (fun k => jsonString k html) kept rem').map (fun kv => sanitize kv.1) := by
        rw [hp]; rfl
      rw [hpres] at this
      rw [this] at hnd
      simpa using hnd
    have htail := mapCols_parse (fun k => jsonString k html) (build o ord (f + 1)) kept (nodeT fu) t.cols.length hs hsp html
      (Spec.pValue (g + 1)) (normG drop srt ord (f + 1)) rest
      ((nodeT (fu + 1) (.map (rowMs (fun k => jsonString k html) (build o ord (f + 1)) kept) sz dp sk) t).length + 1)
      (fun kv _ => rfl) hcell rem'.length rem' (Nat.le_refl _) i' [(sanitize kv.1, normG drop srt ord (f + 1) kv.2)]
      ((post ++ (mapColsT (nodeT fu) (nodeT fu) (rowMs (fun k => jsonString k html) (build o ord (f + 1)) kept)
        t.cols.length rem' i' true ++ 125 :: rest)).length + 1)
      (by
        have := presV_length_le (fun k => jsonString k html) (build o ord (f + 1)) kept (nodeT fu) t.cols.length rem' i' true
        simp only [List.length_append]; omega)
      (hlp' hlp) hnd2
      (by
        rw [show nodeT (fu + 1) (.map (rowMs (fun k => jsonString k html) (build o ord (f + 1)) kept) sz dp sk) t =
          123 :: (mapColsT (nodeT fu) (nodeT fu) (rowMs (fun k => jsonString k html) (build o ord (f + 1)) kept)
            t.cols.length t.cols 0 false ++ [125]) from rfl, htx]
        simp only [List.length_cons, List.length_append]; omega)
    simp only [List.append_assoc, List.cons_append, List.nil_append] at hopen ⊢
    rw [hopen, pMembers_skip _ _ post _ _ hpost, htail]
    have hk : kept = kv :: presV (fun k => jsonString k html) kept rem' := by rw [← hp]; exact hpres.symm
    have e : kept.map (fun kv => (sanitize kv.1, normG drop srt ord (f + 1) kv.2)) =
        (kv :: presV (fun k => jsonString k html) kept rem').map (fun kv => (sanitize kv.1, normG drop srt ord (f + 1) kv.2)) :=
      congrArg _ hk
    rw [e]
    simp

end OjgVerif.Writer.Pretty
