import OjgVerif.Writer.LemmasOj
import OjgVerif.Writer.LemmasNum
import OjgVerif.Writer.LemmasStr
import OjgVerif.Writer.LemmasSort
/-! Lemmas for `C04_oj`: the RFC 8259 reader applied to `text`. -/
set_option linter.unusedSimpArgs false
set_option linter.unusedVariables false
namespace OjgVerif.Writer
open OjgVerif OjgVerif.Json

/-! ### white space -/

theorem skipWs_ws_append (w t : Bytes) (h : (w.all Spec.isWs) = true) : Spec.skipWs (w ++ t) = Spec.skipWs t := by
  induction w with
  | nil => rfl
  | cons b r ih =>
    simp only [List.all_cons, Bool.and_eq_true] at h
    simp [Spec.skipWs, h.1, ih h.2]

theorem skipWs_nonws (b : UInt8) (t : Bytes) (h : Spec.isWs b = false) : Spec.skipWs (b :: t) = b :: t := by
  simp [Spec.skipWs, h]

/-- the first byte of a value -/
def startByte (b : UInt8) : Bool :=
  b = 110 || b = 116 || b = 102 || b = 45 || Spec.isDigit b || b = 34 || b = 91 || b = 123

theorem startByte_facts_all : ∀ i : Fin 256, startByte (UInt8.ofNat i.val) = true →
    (Spec.isWs (UInt8.ofNat i.val) = false ∧ UInt8.ofNat i.val ≠ 93 ∧ UInt8.ofNat i.val ≠ 125 ∧ UInt8.ofNat i.val ≠ 44) := by
  decide +kernel

theorem startByte_facts (b : UInt8) (h : startByte b = true) :
    Spec.isWs b = false ∧ b ≠ 93 ∧ b ≠ 125 ∧ b ≠ 44 := by
  have := startByte_facts_all ⟨b.toNat, b.toNat_lt⟩
  simpa using this (by simpa using h)

theorem startByte_ne_bom_all : ∀ i : Fin 256, startByte (UInt8.ofNat i.val) = true → UInt8.ofNat i.val ≠ 0xEF := by
  decide +kernel

theorem startByte_ne_bom (b : UInt8) (h : startByte b = true) : b ≠ 0xEF := by
  have := startByte_ne_bom_all ⟨b.toNat, b.toNat_lt⟩
  simpa using this (by simpa using h)

theorem numStart_facts_all : ∀ i : Fin 256, (UInt8.ofNat i.val = 45 ∨ Spec.isDigit (UInt8.ofNat i.val) = true) →
    (UInt8.ofNat i.val ≠ 110 ∧ UInt8.ofNat i.val ≠ 116 ∧ UInt8.ofNat i.val ≠ 102 ∧ UInt8.ofNat i.val ≠ 34 ∧
      startByte (UInt8.ofNat i.val) = true) := by
  decide +kernel

theorem numStart_facts (b : UInt8) (h : b = 45 ∨ Spec.isDigit b = true) :
    b ≠ 110 ∧ b ≠ 116 ∧ b ≠ 102 ∧ b ≠ 34 ∧ startByte b = true := by
  have := numStart_facts_all ⟨b.toNat, b.toNat_lt⟩
  simpa using this (by simpa using h)

/-- what may follow a value: nothing, a comma, a closing bracket, white space -/
def follows : Bytes → Bool
  | [] => true
  | c :: _ => c = 44 || c = 93 || c = 125 || Spec.isWs c

theorem follows_stop_all : ∀ i : Fin 256, follows [UInt8.ofNat i.val] = true → stopHead [UInt8.ofNat i.val] = true := by
  decide +kernel

theorem follows_stop (r : Bytes) (h : follows r = true) : stopHead r = true := by
  cases r with
  | nil => rfl
  | cons c t =>
    have := follows_stop_all ⟨c.toNat, c.toNat_lt⟩
    simpa [follows, stopHead] using this (by simpa [follows] using h)

theorem follows_ws_append (w : Bytes) (c : UInt8) (t : Bytes) (hw : (w.all Spec.isWs) = true)
    (hc : follows [c] = true) : follows (w ++ c :: t) = true := by
  cases w with
  | nil => simpa [follows] using hc
  | cons b r =>
    simp only [List.all_cons, Bool.and_eq_true] at hw
    simp [follows, hw.1]

/-! ### one value at a time -/

theorem pValue_null (g : Nat) (rest : Bytes) :
    Spec.pValue (g + 1) ([110, 117, 108, 108] ++ rest) = some (.null, rest) := by
  simp [Spec.pValue, Spec.startsWith]

theorem pValue_true (g : Nat) (rest : Bytes) :
    Spec.pValue (g + 1) ([116, 114, 117, 101] ++ rest) = some (.bool true, rest) := by
  simp [Spec.pValue, Spec.startsWith]

theorem pValue_false (g : Nat) (rest : Bytes) :
    Spec.pValue (g + 1) ([102, 97, 108, 115, 101] ++ rest) = some (.bool false, rest) := by
  simp [Spec.pValue, Spec.startsWith]

theorem pValue_num (g : Nat) (t rest : Bytes) (ht : isNumLit t) (hr : follows rest = true) :
    Spec.pValue (g + 1) (t ++ rest) = some (.num t, rest) := by
  obtain ⟨b, t', rfl, hb⟩ := numLit_head t ht
  obtain ⟨n1, n2, n3, n4, -⟩ := numStart_facts b hb
  have hcond : (b = 45 || Spec.isDigit b) = true := by
    rcases hb with h | h <;> simp [h]
  have := numLit_append (b :: t') rest ht (follows_stop rest hr)
  simp only [List.cons_append] at this ⊢
  simp only [Spec.pValue, n1, n2, n3, n4, ↓reduceIte, hcond, this]
  rfl

theorem pValue_str (hs : TableSafe Gen.Root.jMap) (g : Nat) (s rest : Bytes) (html : Bool) :
    Spec.pValue (g + 1) (jsonString s html ++ rest) = some (.str (sanitize s), rest) := by
  have h := esc_parse Gen.Root.jMap hs html true s rest
    ((escLoop Gen.Root.jMap html 0 true s ++ 34 :: rest).length) (by simp)
  simp only [List.length_append, List.length_cons] at h
  simp only [jsonString, List.cons_append, List.append_assoc, List.nil_append, Spec.pValue]
  simp [h]

/-- elements after the first, up to the closing bracket -/
theorem pElems_tail (pv : Bytes → Option (JV × Bytes)) (tv : JV → Bytes) (nvv : JV → JV) (cs cl : Bytes) (rest : Bytes)
    (hcs : (cs.all Spec.isWs) = true) (hcl : (cl.all Spec.isWs) = true) :
    ∀ (r : List JV) (acc : List JV) (k : Nat), r.length < k →
      (∀ y ∈ r, ∃ b t, tv y = b :: t ∧ startByte b = true) →
      (∀ y ∈ r, ∀ rest', follows rest' = true → pv (tv y ++ rest') = some (nvv y, rest')) →
      Spec.pElems pv k (tElems tv cs r ++ cl ++ 93 :: rest) acc = some (.arr (acc.reverse ++ r.map nvv), rest) := by
  intro r
  induction r with
  | nil =>
    intro acc k hk _ _
    obtain ⟨k', rfl⟩ : ∃ k', k = k' + 1 := ⟨k - 1, by omega⟩
    simp only [tElems, List.nil_append, Spec.pElems]
    rw [skipWs_ws_append cl _ hcl, skipWs_nonws 93 rest (by decide)]
    simp
  | cons y r ih =>
    intro acc k hk hst hpv
    obtain ⟨k', rfl⟩ : ∃ k', k = k' + 1 := ⟨k - 1, by omega⟩
    obtain ⟨b, t, hb, hsb⟩ := hst y (by simp)
    have hws := (startByte_facts b hsb).1
    have hfol : follows (tElems tv cs r ++ cl ++ 93 :: rest) = true := by
      cases r with
      | nil =>
        simp only [tElems, List.nil_append]
        cases cl with
        | nil => rfl
        | cons c cl' =>
          simp only [List.all_cons, Bool.and_eq_true] at hcl
          simp [follows, hcl.1]
      | cons z r' => simp [tElems, follows]
    have h1 := hpv y (by simp) (tElems tv cs r ++ cl ++ 93 :: rest) hfol
    simp only [tElems, List.cons_append, List.append_assoc, Spec.pElems]
    rw [skipWs_nonws 44 _ (by decide)]
    simp only [show ¬ ((44 : UInt8) = 93) by decide, ↓reduceIte]
    rw [skipWs_ws_append cs _ hcs, hb, List.cons_append, skipWs_nonws b _ hws, ← List.cons_append, ← hb]
    simp only [List.append_assoc] at h1
    rw [h1]
    simp only
    have := ih (nvv y :: acc) k' (by simp at hk; omega) (fun z hz => hst z (by simp [hz]))
      (fun z hz => hpv z (by simp [hz]))
    simp only [List.append_assoc] at this
    rw [this]
    simp

theorem kvInsert_new {α : Type} (key : Bytes) (v : α) : ∀ acc : List (Bytes × α),
    key ∉ acc.map (fun kv => kv.1) → kvInsert key v acc = acc ++ [(key, v)] := by
  intro acc
  induction acc with
  | nil => intro _; rfl
  | cons kv r ih =>
    intro h
    obtain ⟨k', v'⟩ := kv
    simp only [List.map_cons, List.mem_cons, not_or] at h
    simp only [kvInsert, List.cons_append]
    rw [if_neg (fun e => h.1 e.symm), ih h.2]

/-- one member: key, colon, value -/
theorem pMember_text (hs : TableSafe Gen.Root.jMap) (pv : Bytes → Option (JV × Bytes)) (k : Bytes) (html : Bool)
    (w tx rest' : Bytes) (nx : JV) (hw : (w.all Spec.isWs) = true)
    (hst : ∃ b t, tx = b :: t ∧ startByte b = true)
    (hpv : pv (tx ++ rest') = some (nx, rest')) :
    Spec.pMember pv (jsonString k html ++ (58 :: w) ++ tx ++ rest') = some ((sanitize k, nx), rest') := by
  obtain ⟨b, t, hb, hsb⟩ := hst
  have hws := (startByte_facts b hsb).1
  have h := esc_parse Gen.Root.jMap hs html true k (58 :: (w ++ (tx ++ rest')))
    ((escLoop Gen.Root.jMap html 0 true k ++ 34 :: 58 :: (w ++ (tx ++ rest'))).length) (by simp)
  simp only [jsonString, List.cons_append, List.append_assoc, List.nil_append, Spec.pMember, ↓reduceIte]
  rw [h]
  simp only
  rw [skipWs_nonws 58 _ (by decide)]
  simp only [↓reduceIte]
  rw [skipWs_ws_append w _ hw, hb, List.cons_append, skipWs_nonws b _ hws, ← List.cons_append, ← hb, hpv]

/-- members after the first, up to the closing brace -/
theorem pMembers_tail (hs : TableSafe Gen.Root.jMap) (pv : Bytes → Option (JV × Bytes)) (tv : JV → Bytes) (nvv : JV → JV)
    (html : Bool) (cs cl w : Bytes) (rest : Bytes)
    (hcs : (cs.all Spec.isWs) = true) (hcl : (cl.all Spec.isWs) = true) (hw : (w.all Spec.isWs) = true) :
    ∀ (r : Kvs) (acc : Kvs) (k : Nat), r.length < k →
      (∀ kv ∈ r, ∃ b t, tv kv.2 = b :: t ∧ startByte b = true) →
      (∀ kv ∈ r, ∀ rest', follows rest' = true → pv (tv kv.2 ++ rest') = some (nvv kv.2, rest')) →
      (acc.map (fun kv => kv.1) ++ r.map (fun kv => sanitize kv.1)).Nodup →
      Spec.pMembers pv k (tMembers html tv cs (58 :: w) r ++ cl ++ 125 :: rest) acc =
        some (.obj (acc ++ r.map fun kv => (sanitize kv.1, nvv kv.2)), rest) := by
  intro r
  induction r with
  | nil =>
    intro acc k hk _ _ _
    obtain ⟨k', rfl⟩ : ∃ k', k = k' + 1 := ⟨k - 1, by omega⟩
    simp only [tMembers, List.nil_append, Spec.pMembers]
    rw [skipWs_ws_append cl _ hcl, skipWs_nonws 125 rest (by decide)]
    simp
  | cons kv r ih =>
    intro acc k hk hst hpv hnd
    obtain ⟨key, y⟩ := kv
    obtain ⟨k', rfl⟩ : ∃ k', k = k' + 1 := ⟨k - 1, by omega⟩
    have hfol : follows (tMembers html tv cs (58 :: w) r ++ cl ++ 125 :: rest) = true := by
      cases r with
      | nil =>
        simp only [tMembers, List.nil_append]
        cases cl with
        | nil => rfl
        | cons c cl' =>
          simp only [List.all_cons, Bool.and_eq_true] at hcl
          simp [follows, hcl.1]
      | cons z r' => obtain ⟨kz, vz⟩ := z; simp [tMembers, follows]
    have h1 := hpv (key, y) (by simp) (tMembers html tv cs (58 :: w) r ++ cl ++ 125 :: rest) hfol
    have hm := pMember_text hs pv key html w (tv y) (tMembers html tv cs (58 :: w) r ++ cl ++ 125 :: rest) (nvv y) hw
      (hst (key, y) (by simp)) h1
    simp only [tMembers, List.cons_append, List.append_assoc, Spec.pMembers]
    rw [skipWs_nonws 44 _ (by decide)]
    simp only [show ¬ ((44 : UInt8) = 125) by decide, ↓reduceIte]
    have hq : Spec.isWs 34 = false := by decide
    rw [skipWs_ws_append cs _ hcs]
    simp only [jsonString, List.cons_append] at hm ⊢
    rw [skipWs_nonws 34 _ hq]
    simp only [List.append_assoc, List.cons_append, List.nil_append] at hm ⊢
    rw [hm]
    simp only
    have hnew : sanitize key ∉ acc.map (fun kv => kv.1) := by
      intro hmem
      have := List.nodup_append.mp hnd
      exact this.2.2 _ hmem _ (by simp) rfl
    rw [kvInsert_new _ _ acc hnew]
    have hnd' : ((acc ++ [(sanitize key, nvv y)]).map (fun kv => kv.1) ++ r.map (fun kv => sanitize kv.1)).Nodup := by
      simpa [List.map_append, List.append_assoc] using hnd
    have := ih (acc ++ [(sanitize key, nvv y)]) k' (by simp at hk; omega) (fun z hz => hst z (by simp [hz]))
      (fun z hz => hpv z (by simp [hz])) hnd'
    simp only [List.append_assoc] at this
    rw [this]
    simp

theorem pValue_open_arr (g : Nat) (R r' rest : Bytes) (c : UInt8) (v : JV) (h : Spec.skipWs R = c :: r')
    (hc : c ≠ 93) (hv : Spec.pValue g (c :: r') = some (v, rest)) :
    Spec.pValue (g + 1) (91 :: R) = Spec.pElems (Spec.pValue g) (rest.length + 1) rest [v] := by
  simp [Spec.pValue, show Spec.isDigit 91 = false by decide, h, hc, hv]

theorem pValue_open_obj (g : Nat) (R r' rest : Bytes) (c : UInt8) (k : Bytes) (v : JV) (h : Spec.skipWs R = c :: r')
    (hc : c ≠ 125) (hv : Spec.pMember (Spec.pValue g) (c :: r') = some ((k, v), rest)) :
    Spec.pValue (g + 1) (123 :: R) = Spec.pMembers (Spec.pValue g) (rest.length + 1) rest [(k, v)] := by
  simp [Spec.pValue, show Spec.isDigit 123 = false by decide, h, hc, hv]

theorem pValue_empty_arr (g : Nat) (rest : Bytes) : Spec.pValue (g + 1) (91 :: 93 :: rest) = some (.arr [], rest) := by
  simp [Spec.pValue, show Spec.isDigit 91 = false by decide, Spec.skipWs, show Spec.isWs 93 = false by decide]

theorem pValue_empty_obj (g : Nat) (rest : Bytes) : Spec.pValue (g + 1) (123 :: 125 :: rest) = some (.obj [], rest) := by
  simp [Spec.pValue, show Spec.isDigit 123 = false by decide, Spec.skipWs, show Spec.isWs 125 = false by decide]

/-- white space only where the layout puts bytes; the colon may be followed by white space -/
structure Layout.WF (L : Layout) : Prop where
  cs : ∀ d, ((L.cs d).all Spec.isWs) = true
  cl : ∀ d, ((L.cl d).all Spec.isWs) = true
  colon : ∃ w, L.colon = 58 :: w ∧ (w.all Spec.isWs) = true

theorem tightL_wf : tightL.WF := ⟨fun _ => rfl, fun _ => rfl, ⟨[], rfl, rfl⟩⟩

theorem all_take_drop (l : Bytes) (p : UInt8 → Bool) (h : (l.all p) = true) (a b : Nat) :
    (((l.take a).drop b).all p) = true := by
  simp only [List.all_eq_true] at h ⊢
  intro x hx
  exact h x (List.mem_of_mem_take (List.mem_of_mem_drop hx))

theorem indentL_wf (o : Opts) (hsp : (Gen.Oj.spaces.toList.all Spec.isWs) = true)
    (htb : (Gen.Oj.tabs.toList.all Spec.isWs) = true) : (indentL o).WF := by
  refine ⟨?_, ?_, ⟨[32], rfl, rfl⟩⟩
  · intro d
    simp only [indentL, indentCs, sliceOf]
    split <;> exact all_take_drop _ _ (by assumption) _ _
  · intro d
    simp only [indentL, indentIs, sliceOf, List.all_cons]
    have : Spec.isWs 10 = true := by decide
    rw [this, Bool.true_and]
    split <;> exact all_take_drop _ _ (by assumption) _ _

theorem tElems_length (tv : JV → Bytes) (cs : Bytes) : ∀ r : List JV, r.length ≤ (tElems tv cs r).length := by
  intro r
  induction r with
  | nil => simp [tElems]
  | cons x r ih => simp [tElems]; omega

theorem tMembers_length (html : Bool) (tv : JV → Bytes) (cs colon : Bytes) :
    ∀ r : Kvs, r.length ≤ (tMembers html tv cs colon r).length := by
  intro r
  induction r with
  | nil => simp [tMembers]
  | cons x r ih => obtain ⟨k, v⟩ := x; simp [tMembers]; omega

/-! ### members of a container -/

theorem depth_mem_list : ∀ (xs : List JV) (x : JV), x ∈ xs → depth x ≤ depthList xs := by
  intro xs
  induction xs with
  | nil => intro x h; simp at h
  | cons y r ih =>
    intro x h
    simp only [List.mem_cons] at h
    simp only [depthList]
    rcases h with rfl | h
    · omega
    · have := ih x h; omega

theorem depth_mem_kvs : ∀ (kvs : Kvs) (kv : Bytes × JV), kv ∈ kvs → depth kv.2 ≤ depthKvs kvs := by
  intro kvs
  induction kvs with
  | nil => intro x h; simp at h
  | cons y r ih =>
    intro x h
    obtain ⟨k, v⟩ := y
    simp only [List.mem_cons] at h
    simp only [depthKvs]
    rcases h with rfl | h
    · simp; omega
    · have := ih x h; omega

theorem okW_mem_list : ∀ (xs : List JV), okList xs → ∀ x ∈ xs, okW x := by
  intro xs
  induction xs with
  | nil => intro _ x h; simp at h
  | cons y r ih =>
    intro hok x h
    simp only [okList] at hok
    simp only [List.mem_cons] at h
    rcases h with rfl | h
    · exact hok.1
    · exact ih hok.2 x h

theorem okW_mem_kvs : ∀ (kvs : Kvs), okKvs kvs → ∀ kv ∈ kvs, okW kv.2 := by
  intro kvs
  induction kvs with
  | nil => intro _ x h; simp at h
  | cons y r ih =>
    intro hok x h
    obtain ⟨k, v⟩ := y
    simp only [okKvs] at hok
    simp only [List.mem_cons] at h
    rcases h with rfl | h
    · exact hok.1
    · exact ih hok.2 x h

theorem skipMember_eq_omits (o : Opts) (v : JV) : skipMember o v = omits o v := by
  cases v with
  | str s => cases s <;> simp [skipMember, omits]
  | arr s => cases s <;> simp [skipMember, omits]
  | obj s => cases s <;> simp [skipMember, omits]
  | _ => simp [skipMember, omits]

theorem normMembers_eq (drop : JV → Bool) (nv : JV → JV) : ∀ kvs : Kvs,
    normMembers drop nv kvs = (kvs.filter fun kv => !drop kv.2).map fun kv => (sanitize kv.1, nv kv.2) := by
  intro kvs
  induction kvs with
  | nil => rfl
  | cons kv r ih =>
    obtain ⟨k, v⟩ := kv
    by_cases h : drop v = true
    · simp [normMembers, h, ih]
    · simp [normMembers, h, ih]

theorem kept_eq_filter (o : Opts) (kvs : Kvs) : kept o kvs = kvs.filter fun kv => !omits o kv.2 := by
  simp only [kept, skipMember_eq_omits]

/-! ### the whole tree -/

theorem order_perm (srt : Bool) (ord : Kvs → Kvs) (h : IsOrder ord) (kvs : Kvs) : (order srt ord kvs).Perm kvs := by
  unfold order
  split
  · exact (sortKvs_perm _).trans (h kvs)
  · exact h kvs

theorem kept_sublist (o : Opts) (kvs : Kvs) : (kept o kvs).Sublist kvs := List.filter_sublist

theorem text_head (o : Opts) (ord : Kvs → Kvs) (L : Layout) (f : Nat) (v : JV) (d : Nat) (hok : okW v) :
    ∃ b t, text o ord L (f + 1) v d = b :: t ∧ startByte b = true := by
  cases v with
  | null => exact ⟨110, _, rfl, by decide⟩
  | bool b => cases b <;> simp [text, startByte]
  | int i =>
    obtain ⟨b, t, he, hb⟩ := numLit_head _ (isNumLit_fmtInt i)
    exact ⟨b, t, by simp [text, he], (numStart_facts b hb).2.2.2.2⟩
  | flt x =>
    simp only [okW] at hok
    obtain ⟨b, t, he, hb⟩ := numLit_head _ hok
    exact ⟨b, t, by simp [text, he], (numStart_facts b hb).2.2.2.2⟩
  | big x => simp [okW] at hok
  | num x => simp [okW] at hok
  | str x => exact ⟨34, _, by simp only [text, jsonString]; rfl, by decide⟩
  | arr xs =>
    cases xs with
    | nil => exact ⟨91, _, by simp only [text]; rfl, by decide⟩
    | cons x r => exact ⟨91, _, by simp only [text]; rfl, by decide⟩
  | obj kvs =>
    simp only [text]
    split
    · exact ⟨123, _, rfl, by decide⟩
    · exact ⟨123, _, rfl, by decide⟩

/-- the RFC 8259 reader applied to the writer's text gives back `norm` of the tree, and leaves
whatever follows untouched -/
theorem parse_text (hs : TableSafe Gen.Root.jMap) (o : Opts) (ord : Kvs → Kvs) (hord : IsOrder ord)
    (L : Layout) (hL : L.WF) :
    ∀ (f : Nat) (v : JV) (d g : Nat) (rest : Bytes), okW v → depth v < f → depth v < g →
      follows rest = true →
      Spec.pValue g (text o ord L f v d ++ rest) = some (normG (omits o) o.sort ord f v, rest) := by
  intro f
  induction f with
  | zero => intro v d g rest _ h; omega
  | succ f ih =>
    intro v d g rest hok hf hg hrest
    obtain ⟨g, rfl⟩ : ∃ g', g = g' + 1 := ⟨g - 1, by omega⟩
    cases v with
    | null => simpa [text, normG] using pValue_null g rest
    | bool b =>
      cases b
      · simpa [text, normG] using pValue_false g rest
      · simpa [text, normG] using pValue_true g rest
    | int i => simpa [text, normG] using pValue_num g (fmtInt i) rest (isNumLit_fmtInt i) hrest
    | flt t =>
      simp only [okW] at hok
      simpa [text, normG] using pValue_num g t rest hok hrest
    | big t => simp [okW] at hok
    | num t => simp [okW] at hok
    | str x => simpa [text, normG] using pValue_str hs g x rest (!o.htmlUnsafe)
    | arr xs =>
      simp only [okW] at hok
      simp only [depth] at hf hg
      cases xs with
      | nil => simpa [text, normG] using pValue_empty_arr g rest
      | cons x r =>
        have hokx : okW x := okW_mem_list _ hok x (by simp)
        have hdx : depth x ≤ depthList (x :: r) := depth_mem_list _ x (by simp)
        have hth : ∀ y, okW y → ∃ b t, text o ord L f y (L.next d) = b :: t ∧ startByte b = true := by
          intro y hy
          obtain ⟨f', rfl⟩ : ∃ f', f = f' + 1 := ⟨f - 1, by omega⟩
          exact text_head o ord L f' y (L.next d) hy
        obtain ⟨b, t, hb, hsb⟩ := hth x hokx
        obtain ⟨hws, hn93, -, -⟩ := startByte_facts b hsb
        -- the tail after the first element
        let tv := fun y => text o ord L f y (L.next d)
        have hfol : follows (tElems tv (L.cs d) r ++ L.cl d ++ 93 :: rest) = true := by
          cases r with
          | nil =>
            simp only [tElems, List.nil_append]
            cases hcl : L.cl d with
            | nil => rfl
            | cons c cl' =>
              have := hL.cl d
              rw [hcl] at this
              simp only [List.all_cons, Bool.and_eq_true] at this
              simp [follows, this.1]
          | cons z r' => simp [tElems, follows]
        have h1 := ih x (L.next d) g (tElems tv (L.cs d) r ++ L.cl d ++ 93 :: rest) hokx (by omega) (by omega) hfol
        have hsk : Spec.skipWs (L.cs d ++ (text o ord L f x (L.next d) ++
            (tElems tv (L.cs d) r ++ L.cl d ++ 93 :: rest))) = b :: (t ++ (tElems tv (L.cs d) r ++ L.cl d ++ 93 :: rest)) := by
          rw [skipWs_ws_append _ _ (hL.cs d), hb, List.cons_append, skipWs_nonws b _ hws]
        have h1' : Spec.pValue g (b :: (t ++ (tElems tv (L.cs d) r ++ L.cl d ++ 93 :: rest))) =
            some (normG (omits o) o.sort ord f x, tElems tv (L.cs d) r ++ L.cl d ++ 93 :: rest) := by
          rw [← List.cons_append, ← hb]; exact h1
        have hopen := pValue_open_arr g _ _ _ b _ hsk hn93 h1'
        have htail := pElems_tail (Spec.pValue g) tv (normG (omits o) o.sort ord f) (L.cs d) (L.cl d) rest
          (hL.cs d) (hL.cl d) r [normG (omits o) o.sort ord f x]
          ((tElems tv (L.cs d) r ++ L.cl d ++ 93 :: rest).length + 1)
          (by have := tElems_length tv (L.cs d) r; simp; omega)
          (fun y hy => hth y (okW_mem_list _ hok y (by simp [hy])))
          (fun y hy rest' hr' => ih y (L.next d) g rest' (okW_mem_list _ hok y (by simp [hy]))
            (by have := depth_mem_list (x :: r) y (by simp [hy]); omega)
            (by have := depth_mem_list (x :: r) y (by simp [hy]); omega) hr')
        simp only [text, normG, List.cons_append, List.append_assoc, List.map_cons, List.nil_append]
        simp only [List.append_assoc, List.cons_append, List.nil_append] at hopen htail
        exact hopen.trans (by simpa using htail)
    | obj kvs =>
      simp only [okW] at hok
      simp only [depth] at hf hg
      have hperm := order_perm o.sort ord hord kvs
      have hsub := kept_sublist o (order o.sort ord kvs)
      have hmem : ∀ kv ∈ kept o (order o.sort ord kvs), kv ∈ kvs :=
        fun kv h => hperm.mem_iff.mp (hsub.subset h)
      have hnd : ((kept o (order o.sort ord kvs)).map (fun kv => sanitize kv.1)).Nodup :=
        (hsub.map _).nodup ((hperm.map _).nodup_iff.mpr hok.1)
      have hth : ∀ y, okW y → ∃ b t, text o ord L f y (L.next d) = b :: t ∧ startByte b = true := by
        intro y hy
        obtain ⟨f', rfl⟩ : ∃ f', f = f' + 1 := ⟨f - 1, by omega⟩
        exact text_head o ord L f' y (L.next d) hy
      simp only [text, normG, normMembers_eq, ← kept_eq_filter]
      cases hk : kept o (order o.sort ord kvs) with
      | nil => simpa using pValue_empty_obj g rest
      | cons kv r =>
        obtain ⟨k, x⟩ := kv
        rw [hk] at hmem hnd
        obtain ⟨w, hcolon, hw⟩ := hL.colon
        have hokm : ∀ kv ∈ (k, x) :: r, okW kv.2 := fun kv h => okW_mem_kvs _ hok.2 kv (hmem kv h)
        have hdm : ∀ kv ∈ (k, x) :: r, depth kv.2 ≤ depthKvs kvs := fun kv h => depth_mem_kvs _ kv (hmem kv h)
        have hokx : okW x := hokm (k, x) (by simp)
        have hdx := hdm (k, x) (by simp)
        let tv := fun y => text o ord L f y (L.next d)
        have hfol : follows (tMembers (!o.htmlUnsafe) tv (L.cs d) (58 :: w) r ++ L.cl d ++ 125 :: rest) = true := by
          cases r with
          | nil =>
            simp only [tMembers, List.nil_append]
            cases hcl : L.cl d with
            | nil => rfl
            | cons c cl' =>
              have := hL.cl d
              rw [hcl] at this
              simp only [List.all_cons, Bool.and_eq_true] at this
              simp [follows, this.1]
          | cons z r' => obtain ⟨kz, vz⟩ := z; simp [tMembers, follows]
        have h1 := ih x (L.next d) g (tMembers (!o.htmlUnsafe) tv (L.cs d) (58 :: w) r ++ L.cl d ++ 125 :: rest)
          hokx (by simp at hdx; omega) (by simp at hdx; omega) hfol
        have hm := pMember_text hs (Spec.pValue g) k (!o.htmlUnsafe) w (text o ord L f x (L.next d))
          (tMembers (!o.htmlUnsafe) tv (L.cs d) (58 :: w) r ++ L.cl d ++ 125 :: rest) (normG (omits o) o.sort ord f x) hw
          (hth x hokx) h1
        have hsk : Spec.skipWs (L.cs d ++ (jsonString k (!o.htmlUnsafe) ++ (58 :: w) ++ text o ord L f x (L.next d) ++
            (tMembers (!o.htmlUnsafe) tv (L.cs d) (58 :: w) r ++ L.cl d ++ 125 :: rest))) =
            34 :: ((escLoop Gen.Root.jMap (!o.htmlUnsafe) 0 true k ++ [34]) ++ (58 :: w) ++ text o ord L f x (L.next d) ++
            (tMembers (!o.htmlUnsafe) tv (L.cs d) (58 :: w) r ++ L.cl d ++ 125 :: rest)) := by
          rw [skipWs_ws_append _ _ (hL.cs d)]
          simp only [jsonString, List.cons_append]
          rw [skipWs_nonws 34 _ (by decide)]
        have hm' : Spec.pMember (Spec.pValue g) (34 :: ((escLoop Gen.Root.jMap (!o.htmlUnsafe) 0 true k ++ [34]) ++ (58 :: w) ++
            text o ord L f x (L.next d) ++
            (tMembers (!o.htmlUnsafe) tv (L.cs d) (58 :: w) r ++ L.cl d ++ 125 :: rest))) =
            some ((sanitize k, normG (omits o) o.sort ord f x), tMembers (!o.htmlUnsafe) tv (L.cs d) (58 :: w) r ++ L.cl d ++ 125 :: rest) := by
          simpa only [jsonString, List.cons_append] using hm
        have hopen := pValue_open_obj g _ _ _ 34 _ _ hsk (by decide) hm'
        have htail := pMembers_tail hs (Spec.pValue g) tv (normG (omits o) o.sort ord f) (!o.htmlUnsafe) (L.cs d) (L.cl d) w rest
          (hL.cs d) (hL.cl d) hw r [(sanitize k, normG (omits o) o.sort ord f x)]
          ((tMembers (!o.htmlUnsafe) tv (L.cs d) (58 :: w) r ++ L.cl d ++ 125 :: rest).length + 1)
          (by have := tMembers_length (!o.htmlUnsafe) tv (L.cs d) (58 :: w) r; simp; omega)
          (fun kv hkv => hth kv.2 (hokm kv (by simp [hkv])))
          (fun kv hkv rest' hr' => ih kv.2 (L.next d) g rest' (hokm kv (by simp [hkv]))
            (by have := hdm kv (by simp [hkv]); omega) (by have := hdm kv (by simp [hkv]); omega) hr')
          (by simpa using hnd)
        rw [hcolon]
        simp only [List.cons_append, List.append_assoc, List.map_cons, List.nil_append]
        simp only [List.append_assoc, List.cons_append, List.nil_append] at hopen htail
        exact hopen.trans (by simpa using htail)



/-! ### the text is at least as long as the tree is deep (fuel of the reader) -/

theorem depthList_le (tv : JV → Bytes) (cs : Bytes) : ∀ r : List JV,
    (∀ y ∈ r, depth y ≤ (tv y).length) → depthList r ≤ (tElems tv cs r).length := by
  intro r
  induction r with
  | nil => intro _; simp [depthList]
  | cons y r ih =>
    intro h
    have h1 := h y (by simp)
    have h2 := ih (fun z hz => h z (by simp [hz]))
    simp [depthList, tElems]; omega

theorem depthKvs_le (B : Nat) : ∀ kvs : Kvs, (∀ kv ∈ kvs, depth kv.2 ≤ B) → depthKvs kvs ≤ B := by
  intro kvs
  induction kvs with
  | nil => intro _; simp [depthKvs]
  | cons kv r ih =>
    intro h
    obtain ⟨k, v⟩ := kv
    have h1 := h (k, v) (by simp)
    have h2 := ih (fun z hz => h z (by simp [hz]))
    simp [depthKvs] at h1 ⊢; omega

theorem tMembers_mem_le (html : Bool) (tv : JV → Bytes) (cs colon : Bytes) : ∀ (r : Kvs) (kv : Bytes × JV),
    kv ∈ r → (tv kv.2).length ≤ (tMembers html tv cs colon r).length := by
  intro r
  induction r with
  | nil => intro kv h; simp at h
  | cons z r ih =>
    intro kv h
    obtain ⟨kz, vz⟩ := z
    simp only [List.mem_cons] at h
    rcases h with rfl | h
    · simp [tMembers]; omega
    · have := ih kv h; simp [tMembers]; omega

theorem skipMember_depth (o : Opts) (v : JV) (h : skipMember o v = true) : depth v ≤ 1 := by
  cases v with
  | arr xs =>
    cases xs with
    | nil => simp [depth, depthList]
    | cons x r => simp [skipMember] at h
  | obj kvs =>
    cases kvs with
    | nil => simp [depth, depthKvs]
    | cons x r => simp [skipMember] at h
  | _ => simp [depth]

theorem jsonString_length (s : Bytes) (html : Bool) : 2 ≤ (jsonString s html).length := by
  simp [jsonString]

theorem depth_le_text (o : Opts) (ord : Kvs → Kvs) (hord : IsOrder ord) (L : Layout) :
    ∀ (f : Nat) (v : JV) (d : Nat), depth v < f → depth v ≤ (text o ord L f v d).length := by
  intro f
  induction f with
  | zero => intro v d h; omega
  | succ f ih =>
    intro v d hf
    cases v with
    | arr xs =>
      simp only [depth] at hf ⊢
      cases xs with
      | nil => simp [text, depthList]
      | cons x r =>
        have hx := ih x (L.next d) (by have := depth_mem_list (x :: r) x (by simp); omega)
        have hr := depthList_le (fun y => text o ord L f y (L.next d)) (L.cs d) r
          (fun y hy => ih y (L.next d) (by have := depth_mem_list (x :: r) y (by simp [hy]); omega))
        simp only [text, depthList, List.length_cons, List.length_append, List.length_nil]
        omega
    | obj kvs =>
      simp only [depth] at hf ⊢
      have hperm := order_perm o.sort ord hord kvs
      simp only [text]
      cases hk : kept o (order o.sort ord kvs) with
      | nil =>
        have : depthKvs kvs ≤ 1 := by
          apply depthKvs_le
          intro kv hkv
          apply skipMember_depth o
          have hm : kv ∈ order o.sort ord kvs := hperm.mem_iff.mpr hkv
          by_cases hns : skipMember o kv.2 = true
          · exact hns
          · exfalso
            have : kv ∈ kept o (order o.sort ord kvs) := by simp [kept, hm, hns]
            rw [hk] at this; simp at this
        simp; omega
      | cons kv0 r =>
        obtain ⟨k, x⟩ := kv0
        have hB : depthKvs kvs ≤ max 1 ((text o ord L f x (L.next d)).length +
            (tMembers (!o.htmlUnsafe) (fun y => text o ord L f y (L.next d)) (L.cs d) L.colon r).length) := by
          apply depthKvs_le
          intro kv hkv
          by_cases hsk : skipMember o kv.2 = true
          · have := skipMember_depth o kv.2 hsk; omega
          · have hm : kv ∈ order o.sort ord kvs := hperm.mem_iff.mpr hkv
            have hin : kv ∈ (k, x) :: r := by rw [← hk]; simp [kept, hm, hsk]
            have hd := ih kv.2 (L.next d) (by have := depth_mem_kvs kvs kv hkv; omega)
            simp only [List.mem_cons] at hin
            rcases hin with rfl | hin
            · simp at hd ⊢; omega
            · have := tMembers_mem_le (!o.htmlUnsafe) (fun y => text o ord L f y (L.next d)) (L.cs d) L.colon r kv hin
              omega
        have hj := jsonString_length k (!o.htmlUnsafe)
        simp only [List.length_cons, List.length_append, List.length_nil]
        omega
    | _ => simp [depth]



/-! ### Sort -/

theorem tElems_congr (tv₁ tv₂ : JV → Bytes) (cs : Bytes) : ∀ r : List JV, (∀ y ∈ r, tv₁ y = tv₂ y) →
    tElems tv₁ cs r = tElems tv₂ cs r := by
  intro r
  induction r with
  | nil => intro _; rfl
  | cons y r ih =>
    intro h
    simp only [tElems, h y (by simp), ih (fun z hz => h z (by simp [hz]))]

theorem tMembers_congr (html : Bool) (tv₁ tv₂ : JV → Bytes) (cs colon : Bytes) : ∀ r : Kvs,
    (∀ kv ∈ r, tv₁ kv.2 = tv₂ kv.2) → tMembers html tv₁ cs colon r = tMembers html tv₂ cs colon r := by
  intro r
  induction r with
  | nil => intro _; rfl
  | cons y r ih =>
    intro h
    obtain ⟨k, v⟩ := y
    have h1 := h (k, v) (by simp)
    simp only at h1
    simp only [tMembers, h1, ih (fun z hz => h z (by simp [hz]))]

theorem distinctKeys_mem_list : ∀ (xs : List JV), distinctKeysList xs → ∀ x ∈ xs, distinctKeys x := by
  intro xs
  induction xs with
  | nil => intro _ x h; simp at h
  | cons y r ih =>
    intro hok x h
    simp only [distinctKeysList] at hok
    simp only [List.mem_cons] at h
    rcases h with rfl | h
    · exact hok.1
    · exact ih hok.2 x h

theorem distinctKeys_mem_kvs : ∀ (kvs : Kvs), distinctKeysKvs kvs → ∀ kv ∈ kvs, distinctKeys kv.2 := by
  intro kvs
  induction kvs with
  | nil => intro _ x h; simp at h
  | cons y r ih =>
    intro hok x h
    obtain ⟨k, v⟩ := y
    simp only [distinctKeysKvs] at hok
    simp only [List.mem_cons] at h
    rcases h with rfl | h
    · exact hok.1
    · exact ih hok.2 x h

/-- with Sort the text does not depend on the order the maps were iterated in -/
theorem text_sort_indep (o : Opts) (hsort : o.sort = true) (ord₁ ord₂ : Kvs → Kvs)
    (h₁ : IsOrder ord₁) (h₂ : IsOrder ord₂) (L : Layout) :
    ∀ (f : Nat) (v : JV) (d : Nat), distinctKeys v → text o ord₁ L f v d = text o ord₂ L f v d := by
  intro f
  induction f with
  | zero => intro v d _; rfl
  | succ f ih =>
    intro v d hv
    cases v with
    | arr xs =>
      simp only [distinctKeys] at hv
      cases xs with
      | nil => rfl
      | cons x r =>
        have hx := ih x (L.next d) (distinctKeys_mem_list _ hv x (by simp))
        have hr := tElems_congr (fun y => text o ord₁ L f y (L.next d)) (fun y => text o ord₂ L f y (L.next d)) (L.cs d) r
          (fun y hy => ih y (L.next d) (distinctKeys_mem_list _ hv y (by simp [hy])))
        simp only [text, hx, hr]
    | obj kvs =>
      simp only [distinctKeys] at hv
      have hnd₁ : ((ord₁ kvs).map fun kv => kv.1).Nodup := ((h₁ kvs).map _).nodup_iff.mpr hv.1
      have hs : order o.sort ord₁ kvs = order o.sort ord₂ kvs := by
        simp only [order, hsort, ↓reduceIte]
        exact sortKvs_perm_eq _ _ ((h₁ kvs).trans (h₂ kvs).symm) hnd₁
      have hperm := order_perm o.sort ord₂ h₂ kvs
      simp only [text, hs]
      cases hk : kept o (order o.sort ord₂ kvs) with
      | nil => rfl
      | cons kv r =>
        obtain ⟨k, x⟩ := kv
        have hmem : ∀ kv ∈ (k, x) :: r, kv ∈ kvs := by
          intro kv h
          rw [← hk] at h
          exact hperm.mem_iff.mp ((kept_sublist o _).subset h)
        have hx := ih x (L.next d) (distinctKeys_mem_kvs _ hv.2 (k, x) (hmem _ (by simp)))
        have hr := tMembers_congr (!o.htmlUnsafe) (fun y => text o ord₁ L f y (L.next d))
          (fun y => text o ord₂ L f y (L.next d)) (L.cs d) L.colon r
          (fun kv hkv => ih kv.2 (L.next d) (distinctKeys_mem_kvs _ hv.2 kv (hmem kv (by simp [hkv]))))
        simp only [hx, hr]
    | _ => rfl


end OjgVerif.Writer
