import OjgVerif.Writer.Utf8
/-! Well-formed UTF-8 (Table 3-7 of the Unicode standard, as an inductive predicate that does not mention
the decoder) is left unchanged by the U+FFFD sanitiser: `sanitize_valid`. -/
namespace OjgVerif.Sen
open OjgVerif OjgVerif.Writer

/-- **well-formed UTF-8 byte sequences** (Unicode standard, Table 3-7): a concatenation of
`00..7F` | `C2..DF 80..BF` | `E0 A0..BF 80..BF` | `E1..EC 80..BF 80..BF` | `ED 80..9F 80..BF` |
`EE..EF 80..BF 80..BF` | `F0 90..BF 80..BF 80..BF` | `F1..F3 80..BF 80..BF 80..BF` | `F4 80..8F 80..BF 80..BF`
(`lo3`/`hi3`/`lo4`/`hi4` are the bounds of the second byte that depend on the first) -/
inductive WellFormedUtf8 : Bytes → Prop
  | nil : WellFormedUtf8 []
  | one (b : UInt8) (r : Bytes) (h : b < 0x80) : WellFormedUtf8 r → WellFormedUtf8 (b :: r)
  | two (b0 b1 : UInt8) (r : Bytes) (h0 : 0xC2 ≤ b0 ∧ b0 < 0xE0) (h1 : isCont b1 = true) :
      WellFormedUtf8 r → WellFormedUtf8 (b0 :: b1 :: r)
  | three (b0 b1 b2 : UInt8) (r : Bytes) (h0 : 0xE0 ≤ b0 ∧ b0 < 0xF0) (h1 : lo3 b0 ≤ b1 ∧ b1 ≤ hi3 b0)
      (h2 : isCont b2 = true) : WellFormedUtf8 r → WellFormedUtf8 (b0 :: b1 :: b2 :: r)
  | four (b0 b1 b2 b3 : UInt8) (r : Bytes) (h0 : 0xF0 ≤ b0 ∧ b0 < 0xF5) (h1 : lo4 b0 ≤ b1 ∧ b1 ≤ hi4 b0)
      (h2 : isCont b2 = true) (h3 : isCont b3 = true) : WellFormedUtf8 r → WellFormedUtf8 (b0 :: b1 :: b2 :: b3 :: r)

theorem sanLoop_one (b : UInt8) (r : Bytes) (h : b < 0x80) : sanLoop 0 (b :: r) = b :: sanLoop 0 r := by
  have hd : utf8Decode (b :: r) = (b.toNat, 1) := by simp [utf8Decode, h]
  have hn : b.toNat ≠ runeError := by
    have : b.toNat < 128 := by simpa [UInt8.lt_iff_toNat_lt] using h
    unfold runeError; omega
  simp [sanLoop, illFormedHead, hd, hn]

theorem sanLoop_two (b0 b1 : UInt8) (r : Bytes) (h0 : 0xC2 ≤ b0 ∧ b0 < 0xE0) (h1 : isCont b1 = true) :
    sanLoop 0 (b0 :: b1 :: r) = b0 :: b1 :: sanLoop 0 r := by
  have c0 : ¬ b0 < 0x80 := by
    have := h0.1; simp [UInt8.le_iff_toNat_le, UInt8.lt_iff_toNat_lt] at this ⊢; omega
  have c1 : ¬ b0 < 0xC2 := by
    have := h0.1; simp [UInt8.le_iff_toNat_le, UInt8.lt_iff_toNat_lt] at this ⊢; omega
  have hd : (utf8Decode (b0 :: b1 :: r)).2 = 2 := by simp [utf8Decode, c0, c1, h0.2, h1]
  simp [sanLoop, illFormedHead, hd]

theorem sanLoop_three (b0 b1 b2 : UInt8) (r : Bytes) (h0 : 0xE0 ≤ b0 ∧ b0 < 0xF0) (h1 : lo3 b0 ≤ b1 ∧ b1 ≤ hi3 b0)
    (h2 : isCont b2 = true) : sanLoop 0 (b0 :: b1 :: b2 :: r) = b0 :: b1 :: b2 :: sanLoop 0 r := by
  have c0 : ¬ b0 < 0x80 := by
    have := h0.1; simp [UInt8.le_iff_toNat_le, UInt8.lt_iff_toNat_lt] at this ⊢; omega
  have c1 : ¬ b0 < 0xC2 := by
    have := h0.1; simp [UInt8.le_iff_toNat_le, UInt8.lt_iff_toNat_lt] at this ⊢; omega
  have c2 : ¬ b0 < 0xE0 := by
    have := h0.1; simp [UInt8.le_iff_toNat_le, UInt8.lt_iff_toNat_lt] at this ⊢; omega
  have hd : (utf8Decode (b0 :: b1 :: b2 :: r)).2 = 3 := by simp [utf8Decode, c0, c1, c2, h0.2, h1.1, h1.2, h2]
  simp [sanLoop, illFormedHead, hd]

theorem sanLoop_four (b0 b1 b2 b3 : UInt8) (r : Bytes) (h0 : 0xF0 ≤ b0 ∧ b0 < 0xF5) (h1 : lo4 b0 ≤ b1 ∧ b1 ≤ hi4 b0)
    (h2 : isCont b2 = true) (h3 : isCont b3 = true) :
    sanLoop 0 (b0 :: b1 :: b2 :: b3 :: r) = b0 :: b1 :: b2 :: b3 :: sanLoop 0 r := by
  have c0 : ¬ b0 < 0x80 := by
    have := h0.1; simp [UInt8.le_iff_toNat_le, UInt8.lt_iff_toNat_lt] at this ⊢; omega
  have c1 : ¬ b0 < 0xC2 := by
    have := h0.1; simp [UInt8.le_iff_toNat_le, UInt8.lt_iff_toNat_lt] at this ⊢; omega
  have c2 : ¬ b0 < 0xE0 := by
    have := h0.1; simp [UInt8.le_iff_toNat_le, UInt8.lt_iff_toNat_lt] at this ⊢; omega
  have c3 : ¬ b0 < 0xF0 := by
    have := h0.1; simp [UInt8.le_iff_toNat_le, UInt8.lt_iff_toNat_lt] at this ⊢; omega
  have hd : (utf8Decode (b0 :: b1 :: b2 :: b3 :: r)).2 = 4 := by
    simp [utf8Decode, c0, c1, c2, c3, h0.2, h1.1, h1.2, h2, h3]
  simp [sanLoop, illFormedHead, hd]

/-- **well-formed UTF-8 is left unchanged by the sanitiser** -/
theorem sanitize_valid (s : Bytes) (h : WellFormedUtf8 s) : sanitize s = s := by
  unfold sanitize
  induction h with
  | nil => rfl
  | one b r hb _ ih => rw [sanLoop_one b r hb, ih]
  | two b0 b1 r h0 h1 _ ih => rw [sanLoop_two b0 b1 r h0 h1, ih]
  | three b0 b1 b2 r h0 h1 h2 _ ih => rw [sanLoop_three b0 b1 b2 r h0 h1 h2, ih]
  | four b0 b1 b2 b3 r h0 h1 h2 h3 _ ih => rw [sanLoop_four b0 b1 b2 b3 r h0 h1 h2 h3, ih]

/-- and a byte that does not start a well-formed sequence becomes U+FFFD (EF BF BD): the lone
continuation byte 0x80, the truncated lead 0xC3, the overlong C0 80 (two replacements) -/
example : sanitize [97, 0x80, 98] = [97, 0xEF, 0xBF, 0xBD, 98] := by decide
example : sanitize [0xC3] = [0xEF, 0xBF, 0xBD] := by decide
example : sanitize [0xC0, 0x80] = [0xEF, 0xBF, 0xBD, 0xEF, 0xBF, 0xBD] := by decide

/-- non-vacuity: "é€😀a" is well-formed -/
example : WellFormedUtf8 [0xC3, 0xA9, 0xE2, 0x82, 0xAC, 0xF0, 0x9F, 0x98, 0x80, 97] :=
  .two _ _ _ (by decide) (by decide) (.three _ _ _ _ (by decide) (by decide) (by decide)
    (.four _ _ _ _ _ (by decide) (by decide) (by decide) (by decide) (.one _ _ (by decide) .nil)))

end OjgVerif.Sen
