import OjgVerif.Sen.LemmasReset
import OjgVerif.Sen.LemmasSafe
/-! A stale `lastKey` is harmless (sen.Parser profile, the code as it is): `call_lastKey_ref`.

`Parse`/`ParseReader` do not reset `lastKey` (the key of the member stored last). It is read by the `valPlus`
case only, which copies it into `lastStrKey`; the string that follows the `+` looks that copy up in the map
on top of the build stack. The proof is a simulation between a run and the same run started with other
values in the two key fields, with the relation `KRel`: the states agree except for `lastKey` while every
open map on the stack is empty (`allEmpty`) and for `lastStrKey` unless a `+` is pending over a non-empty
map — the states in which the fields are dead. Storing a member overwrites `lastKey` in both runs before a
map becomes non-empty; a lookup in an empty map fails whatever the key. The unary invariant `KInv` (a
pending `+` is followed by white space and a quoted string only; which cases can occur in those modes is
read off the reference tables by kernel evaluation) excludes that a member is stored between a `+` and its
string. -/
set_option linter.unusedSimpArgs false
set_option linter.unusedVariables false
set_option linter.unusedSectionVars false
namespace OjgVerif.Sen
open OjgVerif

/-- every map that is still open on the build stack is empty -/
def allEmpty : List Item → Bool
  | [] => true
  | .obj kvs :: r => kvs.isEmpty && allEmpty r
  | _ :: r => allEmpty r

def St.setKeys (s : St) (k l : Bytes) : St := { s with lastKey := k, lastStrKey := l }

/-- `s'` is `s` with other values in the two key fields where they are dead: `lastKey` while every open map
is empty, `lastStrKey` unless a `+` is pending over a non-empty map -/
def KRel (s s' : St) : Prop :=
  ∃ k l, s' = s.setKeys k l ∧ (allEmpty s.stack = false → k = s.lastKey) ∧
    (s.plus = true → allEmpty s.stack = false → l = s.lastStrKey)

/-- the modes between a `+` and the end of the string that follows it -/
def pm : Mode → Bool
  | .plus | .string | .esc | .u => true
  | _ => false

/-- a pending `+` is followed by white space and a quoted string only -/
def KInv (s : St) : Prop := s.plus = true → pm s.mode = true

def RE (r r' : Except ErrKind St) : Prop :=
  match r, r' with
  | .error e, .error e' => e = e'
  | .ok a, .ok a' => KRel a a'
  | _, _ => False

def inPlusActs : Act → Bool
  | .charErr | .skipChar | .skipNewline | .valQuote | .strOk | .strQuote | .strSlash | .escOk | .escU | .uOk => true
  | _ => false

theorem pm_facts (m : Mode) (b : UInt8) (h : pm m = true) : inPlusActs (expected m b) = true := by
  have := forall_mode_byte (fun m b => !pm m || inPlusActs (expected m b)) (by decide +kernel) m b
  simpa [h] using this

theorem kvInsert_ne (k : Bytes) (v : JV) (kvs : List (Bytes × JV)) : (kvInsert k v kvs).isEmpty = false := by
  induction kvs with
  | nil => simp [kvInsert]
  | cons p r ih =>
    obtain ⟨k', v'⟩ := p
    simp only [kvInsert]
    split <;> simp

theorem KRel.refl (s : St) : KRel s s := ⟨s.lastKey, s.lastStrKey, rfl, fun _ => rfl, fun _ _ => rfl⟩

macro "krel" : tactic => `(tactic| (refine ⟨_, _, rfl, ?_, ?_⟩ <;> simp_all [allEmpty, kvInsert_ne]))

/-! ### the helpers, with no `+` pending -/

theorem add_KRel (s : St) (n : JV) (k l : Bytes) (hp : s.plus = false) (hk : allEmpty s.stack = false → k = s.lastKey) :
    RE (s.add n) ((s.setKeys k l).add n) := by
  obtain ⟨mode, starts, stack, docs, evs, exkey, tmp, ri, rn, num, qd, plus, lk, lsk, feat⟩ := s
  simp only at hp hk; subst hp
  unfold St.add St.setMember
  simp only [St.setKeys, RE]
  rcases starts with _ | ⟨_ | i, rest⟩
  · simp only []; krel
  · rcases stack with _ | ⟨it, below⟩
    · simp [fault]
    · cases it with
      | key kk =>
        rcases below with _ | ⟨it2, r⟩
        · simp [topIsKey, fault]
        · cases it2 <;> simp only [topIsKey, ↓reduceIte, fault]
          krel
      | _ => simp [topIsKey]
  · simp only []; krel

theorem addTokenP_KRel (s : St) (t : Bytes) (k l : Bytes) (hp : s.plus = false)
    (hk : allEmpty s.stack = false → k = s.lastKey) : RE (s.addTokenP t) ((s.setKeys k l).addTokenP t) := by
  obtain ⟨mode, starts, stack, docs, evs, exkey, tmp, ri, rn, num, qd, plus, lk, lsk, feat⟩ := s
  simp only at hp hk; subst hp
  unfold St.addTokenP St.setMember
  simp only [St.setKeys, RE]
  rcases starts with _ | ⟨_ | i, rest⟩
  · simp only []; krel
  · rcases stack with _ | ⟨it, below⟩
    · simp [fault]
    · cases it with
      | key kk =>
        rcases below with _ | ⟨it2, r⟩
        · simp [topIsKey, fault]
        · cases it2 <;> simp only [topIsKey, ↓reduceIte, fault]
          krel
      | _ => simp only [topIsKey, Bool.false_eq_true, ↓reduceIte]; krel
  · simp only []; krel

theorem addIgnore_KRel (s : St) (n : JV) (k l : Bytes) (hp : s.plus = false)
    (hk : allEmpty s.stack = false → k = s.lastKey) : RE (s.addIgnore n) ((s.setKeys k l).addIgnore n) := by
  have h := add_KRel s n k l hp hk
  unfold St.addIgnore
  cases h1 : s.add n with
  | ok a =>
    cases h2 : (s.setKeys k l).add n with
    | ok a' => rw [h1, h2] at h; exact h
    | error e => rw [h1, h2] at h; exact h.elim
  | error e =>
    cases h2 : (s.setKeys k l).add n with
    | ok a' => rw [h1, h2] at h; exact h.elim
    | error e' =>
      rw [h1, h2] at h
      have : e = e' := h
      subst this
      simp only []
      split
      · rfl
      · simp only [RE]
        refine ⟨k, l, rfl, hk, ?_⟩
        intro hpp; rw [show ({ s with mode := Mode.value } : St).plus = s.plus from rfl, hp] at hpp; cases hpp

/-- `addString`: the only reader of `lastStrKey` -/
theorem addStringP_KRel (s : St) (t : Bytes) (k l : Bytes) (hk : allEmpty s.stack = false → k = s.lastKey)
    (hl : s.plus = true → allEmpty s.stack = false → l = s.lastStrKey) :
    RE (s.addStringP t) ((s.setKeys k l).addStringP t) := by
  obtain ⟨mode, starts, stack, docs, evs, exkey, tmp, ri, rn, num, qd, plus, lk, lsk, feat⟩ := s
  simp only at hk hl
  unfold St.addStringP St.setMember
  simp only [St.setKeys, RE]
  cases plus with
  | true =>
    simp only [↓reduceIte, forall_const] at hl ⊢
    rcases starts with _ | ⟨_ | i, rest⟩
    · rcases stack with _ | ⟨it, below⟩
      · simp
      · cases it with
        | val v => cases v <;> simp only [] <;> krel
        | _ => simp
    · rcases stack with _ | ⟨it, below⟩
      · simp [fault]
      · cases it with
        | obj kvs =>
          simp only []
          cases kvs with
          | nil => simp [kvLookup]
          | cons p r =>
            have hne : allEmpty (Item.obj (p :: r) :: below) = false := by simp [allEmpty]
            have hl' := hl hne
            subst hl'
            cases hlk : kvLookup l (p :: r) with
            | none => simp
            | some v =>
              cases v <;> simp only []
              krel
        | _ => simp
    · rcases stack with _ | ⟨it, below⟩
      · simp
      · cases it with
        | val v => cases v <;> simp only [] <;> krel
        | _ => simp
  | false =>
    simp only [Bool.false_eq_true, ↓reduceIte]
    rcases starts with _ | ⟨_ | i, rest⟩
    · simp only []; krel
    · rcases stack with _ | ⟨it, below⟩
      · simp [fault]
      · cases it with
        | key kk =>
          rcases below with _ | ⟨it2, r⟩
          · simp [topIsKey, fault]
          · cases it2 <;> simp only [topIsKey, ↓reduceIte, fault]
            krel
        | _ => simp only [topIsKey, Bool.false_eq_true, ↓reduceIte]; krel
    · simp only []; krel

theorem flushP_KRel (s : St) (k l : Bytes) (hp : s.plus = false) (hk : allEmpty s.stack = false → k = s.lastKey) :
    RE (s.flushP refTables) ((s.setKeys k l).flushP refTables) := by
  unfold St.flushP
  have hm : (s.setKeys k l).mode = s.mode := rfl
  rw [hm]
  split
  · exact add_KRel s _ k l hp hk
  · exact addTokenP_KRel s _ k l hp hk
  · exact ⟨k, l, rfl, hk, fun h => by rw [hp] at h; cases h⟩

theorem flushCloseP_KRel (s : St) (k l : Bytes) (hp : s.plus = false) (hk : allEmpty s.stack = false → k = s.lastKey) :
    RE (s.flushCloseP refTables) ((s.setKeys k l).flushCloseP refTables) := by
  unfold St.flushCloseP
  have hm : (s.setKeys k l).mode = s.mode := rfl
  rw [hm]
  split
  · rfl
  · exact addIgnore_KRel s _ k l hp hk
  · exact addTokenP_KRel s _ k l hp hk
  · exact ⟨k, l, rfl, hk, fun h => by rw [hp] at h; cases h⟩

/-! ### `plus` through the helpers -/

theorem setMember_plus (s a : St) (n : JV) (h : s.setMember n = .ok a) : a.plus = s.plus := by
  unfold St.setMember at h
  split at h
  · split at h
    · cases h; rfl
    · cases h
    · cases h
  · cases h

theorem add_plus (s a : St) (n : JV) (h : s.add n = .ok a) : a.plus = s.plus := by
  unfold St.add at h
  split at h
  · split at h
    · cases h
    · split at h
      · exact setMember_plus ({ s with mode := .value } : St) a n h
      · cases h
  · cases h; rfl

theorem addTokenP_plus (s a : St) (t : Bytes) (h : s.addTokenP t = .ok a) : a.plus = s.plus := by
  unfold St.addTokenP at h
  split at h
  · split at h
    · cases h
    · split at h
      · exact setMember_plus ({ s with mode := .value } : St) a _ h
      · cases h; rfl
  · cases h; rfl

theorem addIgnore_plus (s a : St) (n : JV) (h : s.addIgnore n = .ok a) : a.plus = s.plus := by
  unfold St.addIgnore at h
  cases h1 : s.add n with
  | ok a1 => rw [h1] at h; cases h; exact add_plus s _ n h1
  | error e =>
    rw [h1] at h
    simp only [] at h
    split at h
    · cases h
    · cases h; rfl

theorem flushP_plus (s a : St) (h : s.flushP refTables = .ok a) : a.plus = s.plus := by
  unfold St.flushP at h
  split at h
  · exact add_plus s a _ h
  · exact addTokenP_plus s a _ h
  · cases h; rfl

theorem flushCloseP_plus (s a : St) (h : s.flushCloseP refTables = .ok a) : a.plus = s.plus := by
  unfold St.flushCloseP at h
  split at h
  · cases h
  · exact addIgnore_plus s a _ h
  · exact addTokenP_plus s a _ h
  · cases h; rfl

theorem addStringP_plus (s a : St) (t : Bytes) (h : s.addStringP t = .ok a) : a.plus = false := by
  obtain ⟨mode, starts, stack, docs, evs, exkey, tmp, ri, rn, num, qd, plus, lk, lsk, feat⟩ := s
  unfold St.addStringP at h
  cases plus with
  | true =>
    simp only [↓reduceIte] at h
    repeat' split at h
    all_goals first | (cases h; rfl) | cases h
  | false =>
    simp only [Bool.false_eq_true, ↓reduceIte] at h
    split at h
    · split at h
      · cases h
      · split at h
        · exact setMember_plus _ a _ h
        · cases h; rfl
    · cases h; rfl

/-! ### the switch -/

def R3 (r r' : Except ErrKind (St × Bool × Bool)) : Prop :=
  match r, r' with
  | .error e, .error e' => e = e'
  | .ok (a, c, n), .ok (a', c', n') => KRel a a' ∧ c = c' ∧ n = n'
  | _, _ => False

/-- a helper, then a step that neither reads nor writes the key fields and `plus`, and does not turn an
all-empty stack into one with a non-empty map -/
theorem R3_after {x x' : Except ErrKind St} (h : RE x x') (p : Bool)
    (hpl : ∀ a, x = .ok a → a.plus = false)
    (g : St → St) (c n : Bool)
    (hg : ∀ (a : St) (k l : Bytes), g (a.setKeys k l) = (g a).setKeys k l)
    (hst : ∀ a : St, allEmpty (g a).stack = false → allEmpty a.stack = false)
    (hgl : ∀ a : St, (g a).lastKey = a.lastKey) (hgp : ∀ a : St, (g a).plus = a.plus) :
    R3 (x >>= fun a => pure (g a, c, n)) (x' >>= fun a => pure (g a, c, n)) := by
  cases x with
  | error e =>
    cases x' with
    | error e' => exact h
    | ok a' => exact h.elim
  | ok a =>
    cases x' with
    | error e' => exact h.elim
    | ok a' =>
      obtain ⟨k, l, rfl, h1, h2⟩ := (h : KRel a a')
      simp only [bind, Except.bind, pure, Except.pure, R3]
      refine ⟨⟨k, l, hg a k l, ?_, ?_⟩, trivial, trivial⟩
      · intro he; rw [hgl]; exact h1 (hst a he)
      · intro hp; rw [hgp, hpl a rfl] at hp; cases hp

theorem R3_bind {x x' : Except ErrKind St} (h : RE x x') (hpl : ∀ a, x = .ok a → a.plus = false)
    (f : St → Except ErrKind (St × Bool × Bool))
    (hf : ∀ (a : St) (k l : Bytes), a.plus = false → (allEmpty a.stack = false → k = a.lastKey) →
      R3 (f a) (f (a.setKeys k l))) : R3 (x >>= f) (x' >>= f) := by
  cases x with
  | error e =>
    cases x' with
    | error e' => exact h
    | ok a' => exact h.elim
  | ok a =>
    cases x' with
    | error e' => exact h.elim
    | ok a' =>
      obtain ⟨k, l, rfl, h1, h2⟩ := (h : KRel a a')
      exact hf a k l (hpl a rfl) h1

theorem addFeat_setKeys (a : St) (c : Char) (k l : Bytes) : (a.setKeys k l).addFeat c = (a.addFeat c).setKeys k l := by
  unfold St.addFeat
  have : (a.setKeys k l).feat = a.feat := rfl
  rw [this]
  split <;> rfl

theorem addFeat_lastKey (a : St) (c : Char) : (a.addFeat c).lastKey = a.lastKey := by
  unfold St.addFeat; split <;> rfl

theorem addFeat_lastStrKey (a : St) (c : Char) : (a.addFeat c).lastStrKey = a.lastStrKey := by
  unfold St.addFeat; split <;> rfl

theorem undelivered_setKeys (a : St) (k l : Bytes) : (a.setKeys k l).undelivered = a.undelivered.setKeys k l := by
  unfold St.undelivered
  have h1 : (a.setKeys k l).starts = a.starts := rfl
  have h2 : (a.setKeys k l).stack = a.stack := rfl
  rw [h1, h2]
  split
  · exact addFeat_setKeys a 's' k l
  · rfl

theorem undelivered_stack (a : St) : a.undelivered.stack = a.stack := by
  unfold St.undelivered; split
  · exact addFeat_stack a 's'
  · rfl

theorem undelivered_starts (a : St) : a.undelivered.starts = a.starts := by
  unfold St.undelivered; split
  · exact addFeat_starts a 's'
  · rfl

theorem undelivered_plus (a : St) : a.undelivered.plus = a.plus := by
  unfold St.undelivered; split
  · exact addFeat_plus a 's'
  · rfl

theorem undelivered_lastKey (a : St) : a.undelivered.lastKey = a.lastKey := by
  unfold St.undelivered; split
  · exact addFeat_lastKey a 's'
  · rfl

theorem allEmpty_cons (it : Item) (r : List Item) (h : allEmpty r = false) : allEmpty (it :: r) = false := by
  cases it <;> simp [allEmpty, h]

theorem allEmpty_append (pre r : List Item) (h : allEmpty r = false) : allEmpty (pre ++ r) = false := by
  induction pre with
  | nil => exact h
  | cons it p ih => exact allEmpty_cons it _ ih

theorem splitStack_below (stack : List Item) (idx : Nat) (e : List JV) (mk : Item) (below : List Item)
    (h : splitStack stack idx = some (e, mk, below)) (hb : allEmpty below = false) : allEmpty stack = false := by
  unfold splitStack at h
  split at h
  · cases h
  · split at h
    · rename_i m bl heq
      simp only [Option.some.injEq, Prod.mk.injEq] at h
      obtain ⟨_, _, rfl⟩ := h
      have := List.take_append_drop (stack.length - (idx + 1)) stack
      rw [heq] at this
      rw [← this]
      exact allEmpty_append _ _ (allEmpty_cons _ _ hb)
    · cases h

section switchK
variable (cfg : Cfg) (hpf : cfg.plusFault = false) (hmv : cfg.missingValue = false)
include hpf hmv

theorem stepActP_KRel (s : St) (k l : Bytes) (i : Bool) (b : UInt8) (hI : KInv s)
    (hk : allEmpty s.stack = false → k = s.lastKey)
    (hl : s.plus = true → allEmpty s.stack = false → l = s.lastStrKey) :
    R3 (stepActP refTables cfg s i b) (stepActP refTables cfg (s.setKeys k l) i b) := by
  have hm : (s.setKeys k l).mode = s.mode := rfl
  -- no `+` is pending in a case that does not belong to the plus / string modes
  have hnp : inPlusActs (expected s.mode b) = false → s.plus = false := by
    intro h
    cases hp : s.plus with
    | false => rfl
    | true => have := pm_facts s.mode b (hI hp); rw [h] at this; cases this
  have base : KRel s (s.setKeys k l) := ⟨k, l, rfl, hk, hl⟩
  unfold stepActP
  simp only [refTables, hm]
  cases hact : expected s.mode b <;> simp only []
  case skipNewline => exact ⟨base, rfl, rfl⟩
  case cskipNewline => exact ⟨⟨k, l, rfl, hk, hl⟩, rfl, rfl⟩
  case tokenStart =>
    by_cases hc : expected Mode.token b = Act.tokenOk
    · simp only [hc, ↓reduceIte]; exact ⟨⟨k, l, rfl, hk, hl⟩, rfl, rfl⟩
    · simp only [hc, ↓reduceIte]; rfl
  case strOk => exact ⟨⟨k, l, rfl, hk, hl⟩, rfl, rfl⟩
  case colonColon => exact ⟨⟨k, l, rfl, hk, hl⟩, rfl, rfl⟩
  case skipChar => exact ⟨base, rfl, rfl⟩
  case cskipChar => exact ⟨⟨k, l, rfl, hk, hl⟩, rfl, rfl⟩
  case valDigit => exact ⟨⟨k, l, rfl, hk, hl⟩, rfl, rfl⟩
  case valQuote => exact ⟨⟨k, l, rfl, hk, hl⟩, rfl, rfl⟩
  case strSlash => exact ⟨⟨k, l, rfl, hk, hl⟩, rfl, rfl⟩
  case escOk => exact ⟨⟨k, l, rfl, hk, hl⟩, rfl, rfl⟩
  case val0 => exact ⟨⟨k, l, rfl, hk, hl⟩, rfl, rfl⟩
  case valNeg => exact ⟨⟨k, l, rfl, hk, hl⟩, rfl, rfl⟩
  case escU => exact ⟨⟨k, l, rfl, hk, hl⟩, rfl, rfl⟩
  case numDot =>
    have hn : (s.setKeys k l).num = s.num := rfl
    rw [hn]
    by_cases hc : 0 < s.num.big.length
    · simp only [hc, ↓reduceIte]; exact ⟨⟨k, l, rfl, hk, hl⟩, rfl, rfl⟩
    · simp only [hc, ↓reduceIte]; exact ⟨⟨k, l, rfl, hk, hl⟩, rfl, rfl⟩
  case numFrac => exact ⟨⟨k, l, rfl, hk, hl⟩, rfl, rfl⟩
  case fracE => exact ⟨⟨k, l, rfl, hk, hl⟩, rfl, rfl⟩
  case tokenOk => exact ⟨⟨k, l, rfl, hk, hl⟩, rfl, rfl⟩
  case numZero => exact ⟨⟨k, l, rfl, hk, hl⟩, rfl, rfl⟩
  case negDigit => exact ⟨⟨k, l, rfl, hk, hl⟩, rfl, rfl⟩
  case expSign => exact ⟨⟨k, l, rfl, hk, hl⟩, rfl, rfl⟩
  case expDigit => exact ⟨⟨k, l, rfl, hk, hl⟩, rfl, rfl⟩
  case uOk => exact ⟨⟨k, l, rfl, hk, hl⟩, rfl, rfl⟩
  case commentStart => exact ⟨⟨k, l, rfl, hk, hl⟩, rfl, rfl⟩
  case commentEnd => exact ⟨⟨k, l, rfl, hk, hl⟩, rfl, rfl⟩
  case ccommentStart => exact ⟨⟨k, l, rfl, hk, hl⟩, rfl, rfl⟩
  case ccommentEnd => exact ⟨⟨k, l, rfl, hk, hl⟩, rfl, rfl⟩
  case charErr => rfl
  case unknown => exact ⟨base, rfl, rfl⟩
  case numDigit =>
    have hf : ((s.setKeys k l).addFeat 'i').feat = (s.addFeat 'i').feat := by rw [addFeat_setKeys]; rfl
    rw [hf]
    exact ⟨⟨k, l, rfl, hk, hl⟩, rfl, rfl⟩
  case valPlus =>
    have hp := hnp (by rw [hact]; rfl)
    rw [show ({ s.setKeys k l with mode := Mode.plus, plus := true, lastStrKey := (s.setKeys k l).lastKey } : St) =
      ({ s with mode := Mode.plus, plus := true, lastStrKey := s.lastKey } : St).setKeys k k from rfl, addFeat_setKeys]
    refine ⟨⟨k, k, rfl, ?_, ?_⟩, rfl, rfl⟩
    · intro he; rw [addFeat_stack] at he; rw [addFeat_lastKey]; exact hk he
    · intro _ he; rw [addFeat_stack] at he; rw [addFeat_lastStrKey]; exact hk he
  case openParen =>
    rw [show startP (s.setKeys k l) (s.setKeys k l).stack.length (Item.fnMark (s.setKeys k l).tmp.reverse) =
      (startP s s.stack.length (Item.fnMark s.tmp.reverse)).setKeys k l from rfl, addFeat_setKeys]
    refine ⟨⟨k, l, rfl, ?_, ?_⟩, rfl, rfl⟩
    · intro he; rw [addFeat_stack] at he; rw [addFeat_lastKey]; exact hk he
    · intro hp he; rw [addFeat_stack] at he; rw [addFeat_plus] at hp; rw [addFeat_lastStrKey]; exact hl hp he
  case numSpc =>
    have hp := hnp (by rw [hact]; rfl)
    exact R3_after (add_KRel s _ k l hp hk) false (fun a ha => by rw [add_plus s a _ ha, hp]) id false false
      (fun _ _ _ => rfl) (fun _ h => h) (fun _ => rfl) (fun _ => rfl)
  case numNewline =>
    have hp := hnp (by rw [hact]; rfl)
    exact R3_after (add_KRel s _ k l hp hk) false (fun a ha => by rw [add_plus s a _ ha, hp])
      (fun a => { a with mode := .value }) false true
      (fun _ _ _ => rfl) (fun _ h => h) (fun _ => rfl) (fun _ => rfl)
  case tokenSpc =>
    have hp := hnp (by rw [hact]; rfl)
    exact R3_after (addTokenP_KRel s _ k l hp hk) false (fun a ha => by rw [addTokenP_plus s a _ ha, hp]) id false false
      (fun _ _ _ => rfl) (fun _ h => h) (fun _ => rfl) (fun _ => rfl)
  case tokenNlColon =>
    have hp := hnp (by rw [hact]; rfl)
    exact R3_after (addTokenP_KRel s _ k l hp hk) false (fun a ha => by rw [addTokenP_plus s a _ ha, hp]) id false true
      (fun _ _ _ => rfl) (fun _ h => h) (fun _ => rfl) (fun _ => rfl)
  case tokenColon =>
    have hp := hnp (by rw [hact]; rfl)
    exact R3_after (addTokenP_KRel s _ k l hp hk) false (fun a ha => by rw [addTokenP_plus s a _ ha, hp])
      (fun a => { a with mode := .value }) false false
      (fun _ _ _ => rfl) (fun _ h => h) (fun _ => rfl) (fun _ => rfl)
  case valSlash =>
    have hp := hnp (by rw [hact]; rfl)
    exact R3_after (flushP_KRel s k l hp hk) false (fun a ha => by rw [flushP_plus s a ha, hp])
      (fun a => { a.undelivered with mode := .commentStart }) false false
      (fun a k l => by simp only [undelivered_setKeys]; rfl)
      (fun a h => by rw [← undelivered_stack a]; exact h)
      (fun a => undelivered_lastKey a) (fun a => undelivered_plus a)
  case openObject =>
    have hp := hnp (by rw [hact]; rfl)
    exact R3_after (flushP_KRel s k l hp hk) false (fun a ha => by rw [flushP_plus s a ha, hp])
      (fun a => { a.undelivered with starts := none :: a.undelivered.starts, stack := .obj [] :: a.undelivered.stack }) true false
      (fun a k l => by simp only [undelivered_setKeys]; rfl)
      (fun a h => by
        have : allEmpty (Item.obj [] :: a.undelivered.stack) = false := h
        simpa [allEmpty, undelivered_stack] using this)
      (fun a => undelivered_lastKey a) (fun a => undelivered_plus a)
  case openArray =>
    have hp := hnp (by rw [hact]; rfl)
    exact R3_after (flushP_KRel s k l hp hk) false (fun a ha => by rw [flushP_plus s a ha, hp])
      (fun a => startP a.undelivered a.undelivered.stack.length .arrMark) true false
      (fun a k l => by simp only [undelivered_setKeys]; rfl)
      (fun a h => by
        have : allEmpty (Item.arrMark :: a.undelivered.stack) = false := h
        simpa [allEmpty, undelivered_stack] using this)
      (fun a => undelivered_lastKey a) (fun a => undelivered_plus a)
  case strQuote =>
    have hq : (s.setKeys k l).quoteDelim = s.quoteDelim := rfl
    have ht : (s.setKeys k l).tmp = s.tmp := rfl
    simp only [hq, ht, hpf, Bool.false_eq_true, ↓reduceIte]
    split
    · exact R3_after (addStringP_KRel s _ k l hk hl) false (fun a ha => addStringP_plus s a _ ha) id false false
        (fun _ _ _ => rfl) (fun _ h => h) (fun _ => rfl) (fun _ => rfl)
    · exact ⟨⟨k, l, rfl, hk, hl⟩, rfl, rfl⟩
  case closeObject =>
    have hp := hnp (by rw [hact]; rfl)
    have hst : (s.setKeys k l).starts = s.starts := rfl
    rw [hst]
    split
    · rename_i rest _
      refine R3_bind (flushP_KRel s k l hp hk) (fun a ha => by rw [flushP_plus s a ha, hp]) _ ?_
      intro a k l hpa hka
      have hs : (a.setKeys k l).stack = a.stack := rfl
      rw [hs]
      cases hstk : a.stack with
      | nil => rfl
      | cons top below =>
        simp only [hmv, Bool.not_false, Bool.and_true]
        split
        · rfl
        · rename_i htk
          have htk' : topIsKey (top :: below) = false := by simpa using htk
          have hk' : allEmpty below = false → k = a.lastKey := fun h => hka (by rw [hstk]; exact allEmpty_cons _ _ h)
          exact R3_after (add_KRel ({ a with starts := rest, stack := below } : St) top.toJV k l hpa hk') false
            (fun x hx => by rw [add_plus _ x _ hx]; exact hpa) id false false
            (fun _ _ _ => rfl) (fun _ h => h) (fun _ => rfl) (fun _ => rfl)
    · rfl
  case closeArray =>
    have hp := hnp (by rw [hact]; rfl)
    have hst : (s.setKeys k l).starts = s.starts := rfl
    rw [hst]
    split
    · rename_i idx rest _
      refine R3_bind (flushCloseP_KRel s k l hp hk) (fun a ha => by rw [flushCloseP_plus s a ha, hp]) _ ?_
      intro a k l hpa hka
      have hs : (a.setKeys k l).stack = a.stack := rfl
      rw [hs]
      cases hsp : splitStack a.stack idx with
      | none => rfl
      | some x =>
        obtain ⟨elems, mk, below⟩ := x
        simp only []
        have hk' : allEmpty below = false → k = a.lastKey := fun h => hka (splitStack_below _ _ _ _ _ hsp h)
        exact R3_after (add_KRel ({ a with starts := rest, stack := below } : St) (.arr elems) k l hpa hk') false
          (fun x hx => by rw [add_plus _ x _ hx]; exact hpa) (fun a => { a with mode := .value }) false false
          (fun _ _ _ => rfl) (fun _ h => h) (fun _ => rfl) (fun _ => rfl)
    · rfl
  case closeParen =>
    have hp := hnp (by rw [hact]; rfl)
    have hst : (s.setKeys k l).starts = s.starts := rfl
    rw [hst]
    split
    · rename_i idx rest _
      refine R3_bind (flushCloseP_KRel s k l hp hk) (fun a ha => by rw [flushCloseP_plus s a ha, hp]) _ ?_
      intro a k l hpa hka
      have hs : (a.setKeys k l).stack = a.stack := rfl
      rw [hs]
      cases hsp : splitStack a.stack idx with
      | none => rfl
      | some x =>
        obtain ⟨args, mk, below⟩ := x
        cases mk with
        | fnMark name =>
          simp only []
          have hk' : allEmpty below = false → k = a.lastKey := fun h => hka (splitStack_below _ _ _ _ _ hsp h)
          exact R3_after (addIgnore_KRel ({ a with starts := rest, stack := below } : St) _ k l hpa hk') false
            (fun x hx => by rw [addIgnore_plus _ x _ hx]; exact hpa)
            (fun a => ({ a with mode := .value } : St).addFeat 'f') false false
            (fun a k l => addFeat_setKeys ({ a with mode := Mode.value } : St) 'f' k l)
            (fun a h => by rw [addFeat_stack] at h; exact h)
            (fun a => addFeat_lastKey _ 'f') (fun a => addFeat_plus _ 'f')
        | _ => rfl
    · rfl

end switchK

/-! ### the invariant: a pending `+` is only followed by white space and a quoted string -/

theorem bind_ok {α β : Type} {x : Except ErrKind α} {f : α → Except ErrKind β} {r : β} (h : (x >>= f) = .ok r) :
    ∃ a, x = .ok a ∧ f a = .ok r := by
  cases x with
  | error e => cases h
  | ok a => exact ⟨a, rfl, h⟩

theorem stepActP_KInv (cfg : Cfg) (hpf : cfg.plusFault = false) (s : St) (i : Bool) (b : UInt8) (hI : KInv s)
    (a : St) (c n : Bool) (h : stepActP refTables cfg s i b = .ok (a, c, n)) : KInv a := by
  have hnp : inPlusActs (expected s.mode b) = false → s.plus = false := by
    intro h
    cases hp : s.plus with
    | false => rfl
    | true => have := pm_facts s.mode b (hI hp); rw [h] at this; cases this
  -- results with `plus` clear satisfy the invariant
  have clear : ∀ x : St, x.plus = false → KInv x := fun x hx hp => by rw [hx] at hp; cases hp
  unfold stepActP at h
  simp only [refTables] at h
  cases hact : expected s.mode b <;> simp only [hact] at h
  case skipNewline => cases h; exact hI
  case skipChar => cases h; exact hI
  case unknown => cases h; exact hI
  case strOk => cases h; exact hI
  case valQuote => cases h; exact fun _ => rfl
  case strSlash => cases h; exact fun _ => rfl
  case escOk => cases h; exact fun _ => rfl
  case escU => cases h; exact fun _ => rfl
  case uOk =>
    cases h
    intro hp
    show pm (if s.ri + 1 = 4 then Mode.string else s.mode) = true
    split
    · rfl
    · exact hI hp
  case charErr => cases h
  case valPlus => cases h; intro _; rw [addFeat_mode']; rfl
  case strQuote =>
    simp only [hpf, Bool.false_eq_true, ↓reduceIte] at h
    split at h
    · obtain ⟨x, hx, hr⟩ := bind_ok h
      cases hr
      exact clear _ (addStringP_plus s _ _ hx)
    · cases h; exact hI
  case tokenStart =>
    have hp := hnp (by rw [hact]; rfl)
    by_cases hc : expected Mode.token b = Act.tokenOk
    · simp only [hc, ↓reduceIte] at h; cases h; exact clear _ hp
    · simp only [hc, ↓reduceIte] at h; cases h
  case numDot =>
    have hp := hnp (by rw [hact]; rfl)
    by_cases hc : 0 < s.num.big.length
    · simp only [hc, ↓reduceIte] at h; cases h; exact clear _ hp
    · simp only [hc, ↓reduceIte] at h; cases h; exact clear _ hp
  case numSpc =>
    have hp := hnp (by rw [hact]; rfl)
    obtain ⟨x, hx, hr⟩ := bind_ok h; cases hr
    exact clear _ (by rw [add_plus s _ _ hx]; exact hp)
  case numNewline =>
    have hp := hnp (by rw [hact]; rfl)
    obtain ⟨x, hx, hr⟩ := bind_ok h; cases hr
    exact clear _ (by show x.plus = false; rw [add_plus s _ _ hx]; exact hp)
  case tokenSpc =>
    have hp := hnp (by rw [hact]; rfl)
    obtain ⟨x, hx, hr⟩ := bind_ok h; cases hr
    exact clear _ (by rw [addTokenP_plus s _ _ hx]; exact hp)
  case tokenNlColon =>
    have hp := hnp (by rw [hact]; rfl)
    obtain ⟨x, hx, hr⟩ := bind_ok h; cases hr
    exact clear _ (by rw [addTokenP_plus s _ _ hx]; exact hp)
  case tokenColon =>
    have hp := hnp (by rw [hact]; rfl)
    obtain ⟨x, hx, hr⟩ := bind_ok h; cases hr
    exact clear _ (by show x.plus = false; rw [addTokenP_plus s _ _ hx]; exact hp)
  case valSlash =>
    have hp := hnp (by rw [hact]; rfl)
    obtain ⟨x, hx, hr⟩ := bind_ok h; cases hr
    exact clear _ (by show x.undelivered.plus = false; rw [undelivered_plus, flushP_plus s _ hx]; exact hp)
  case openObject =>
    have hp := hnp (by rw [hact]; rfl)
    obtain ⟨x, hx, hr⟩ := bind_ok h; cases hr
    exact clear _ (by show x.undelivered.plus = false; rw [undelivered_plus, flushP_plus s _ hx]; exact hp)
  case openArray =>
    have hp := hnp (by rw [hact]; rfl)
    obtain ⟨x, hx, hr⟩ := bind_ok h; cases hr
    exact clear _ (by show x.undelivered.plus = false; rw [undelivered_plus, flushP_plus s _ hx]; exact hp)
  case openParen =>
    have hp := hnp (by rw [hact]; rfl)
    cases h
    exact clear _ (by rw [addFeat_plus]; exact hp)
  case closeObject =>
    have hp := hnp (by rw [hact]; rfl)
    split at h
    · obtain ⟨x, hx, hr⟩ := bind_ok h
      have hxp : x.plus = false := by rw [flushP_plus s _ hx]; exact hp
      split at hr
      · cases hr
      · split at hr
        · cases hr
        · obtain ⟨y, hy, hr2⟩ := bind_ok hr
          cases hr2
          refine clear _ ?_
          rw [add_plus _ _ _ hy]
          show (if _ then x.addFeat 'v' else x).plus = false
          split
          · rw [addFeat_plus]; exact hxp
          · exact hxp
    · cases h
  case closeArray =>
    have hp := hnp (by rw [hact]; rfl)
    split at h
    · obtain ⟨x, hx, hr⟩ := bind_ok h
      have hxp : x.plus = false := by rw [flushCloseP_plus s _ hx]; exact hp
      split at hr
      · cases hr
      · obtain ⟨y, hy, hr2⟩ := bind_ok hr
        cases hr2
        refine clear _ ?_
        show y.plus = false
        rw [add_plus _ _ _ hy]; exact hxp
    · cases h
  case closeParen =>
    have hp := hnp (by rw [hact]; rfl)
    split at h
    · obtain ⟨x, hx, hr⟩ := bind_ok h
      have hxp : x.plus = false := by rw [flushCloseP_plus s _ hx]; exact hp
      split at hr
      · cases hr
      · obtain ⟨y, hy, hr2⟩ := bind_ok hr
        cases hr2
        refine clear _ ?_
        rw [addFeat_plus]
        show y.plus = false
        rw [addIgnore_plus _ _ _ hy]; exact hxp
      · cases hr
    · cases h
  all_goals (have hp := hnp (by rw [hact]; rfl); cases h; exact clear _ hp)

/-! ### from the switch to the entry point -/

theorem pm_fin (m : Mode) (h : pm m = true) : expectedFin m ≠ .v := by
  cases m <;> simp [pm] at h <;> simp [expectedFin]

def RF (r r' : Except ErrKind (St × Fast × Bool)) : Prop :=
  match r, r' with
  | .error e, .error e' => e = e'
  | .ok (a, f, n), .ok (a', f', n') => KRel a a' ∧ f = f' ∧ n = n'
  | _, _ => False

section chainK
variable (cfg : Cfg) (hc : cfg.tokenizer = false) (hpf : cfg.plusFault = false) (hmv : cfg.missingValue = false)
include hc hpf hmv

theorem deliver_KRel (s : St) (k l : Bytes) :
    RE (deliver refTables cfg s) (deliver refTables cfg (s.setKeys k l)) ∨
    (deliver refTables cfg s = .ok s ∧ deliver refTables cfg (s.setKeys k l) = .ok (s.setKeys k l)) := by
  unfold deliver deliverP
  simp only [hc, Bool.false_eq_true, ↓reduceIte]
  have h1 : (s.setKeys k l).starts = s.starts := rfl
  have h2 : (s.setKeys k l).mode = s.mode := rfl
  have h3 : (s.setKeys k l).stack = s.stack := rfl
  rw [h1, h2, h3]
  split
  · left
    cases s.stack.getLast? with
    | none => rfl
    | some it => exact ⟨k, l, rfl, (fun h => by cases h), (fun _ h => by cases h)⟩
  · right; exact ⟨rfl, rfl⟩

theorem deliver_KInv (s a : St) (hI : KInv s) (h : deliver refTables cfg s = .ok a) : KInv a := by
  unfold deliver deliverP at h
  simp only [hc, Bool.false_eq_true, ↓reduceIte] at h
  split at h
  · rename_i hcond
    have hfin : expectedFin s.mode = .v := by
      simp only [Bool.and_eq_true, decide_eq_true_eq] at hcond
      exact hcond.2
    have hp : s.plus = false := by
      cases hp : s.plus with
      | false => rfl
      | true => exact absurd hfin (pm_fin _ (hI hp))
    split at h
    · cases h
    · cases h
      intro hpp
      rw [show ({ s with docs := _, stack := [], mode := _ } : St).plus = s.plus from rfl, hp] at hpp
      cases hpp
  · cases h; exact hI

theorem stepCore_KRel (s : St) (f : Fast) (k l : Bytes) (b : UInt8) (hI : KInv s)
    (hk : allEmpty s.stack = false → k = s.lastKey)
    (hl : s.plus = true → allEmpty s.stack = false → l = s.lastStrKey) :
    RF (stepCore refTables cfg s f b) (stepCore refTables cfg (s.setKeys k l) f b) := by
  have hA := stepActP_KRel cfg hpf hmv s k l f.inFast b hI hk hl
  unfold stepCore stepAct
  simp only [hc, Bool.false_eq_true, ↓reduceIte]
  have hm : (s.setKeys k l).mode = s.mode := rfl
  have hn : (s.setKeys k l).num = s.num := rfl
  rw [hm, hn]
  cases h1 : stepActP refTables cfg s f.inFast b with
  | error e =>
    cases h2 : stepActP refTables cfg (s.setKeys k l) f.inFast b with
    | error e' => rw [h1, h2] at hA; exact hA
    | ok r' => rw [h1, h2] at hA; exact hA.elim
  | ok r =>
    cases h2 : stepActP refTables cfg (s.setKeys k l) f.inFast b with
    | error e' => rw [h1, h2] at hA; exact hA.elim
    | ok r' =>
      rw [h1, h2] at hA
      obtain ⟨a, c, n⟩ := r
      obtain ⟨a', c', n'⟩ := r'
      obtain ⟨⟨k', l', rfl, hk', hl'⟩, rfl, rfl⟩ := hA
      simp only []
      cases c with
      | true => exact ⟨⟨k', l', rfl, hk', hl'⟩, rfl, rfl⟩
      | false =>
        simp only [Bool.false_eq_true, ↓reduceIte]
        rcases deliver_KRel cfg hc hpf hmv a k' l' with hd | ⟨hd1, hd2⟩
        · cases h3 : deliver refTables cfg a with
          | error e =>
            cases h4 : deliver refTables cfg (a.setKeys k' l') with
            | error e' => rw [h3, h4] at hd; exact hd
            | ok x' => rw [h3, h4] at hd; exact hd.elim
          | ok x =>
            cases h4 : deliver refTables cfg (a.setKeys k' l') with
            | error e' => rw [h3, h4] at hd; exact hd.elim
            | ok x' => rw [h3, h4] at hd; exact ⟨hd, rfl, rfl⟩
        · rw [hd1, hd2]
          exact ⟨⟨k', l', rfl, hk', hl'⟩, rfl, rfl⟩

theorem stepCore_KInv (s : St) (f : Fast) (b : UInt8) (hI : KInv s) (a : St) (f' : Fast) (n : Bool)
    (h : stepCore refTables cfg s f b = .ok (a, f', n)) : KInv a := by
  unfold stepCore stepAct at h
  simp only [hc, Bool.false_eq_true, ↓reduceIte] at h
  cases h1 : stepActP refTables cfg s f.inFast b with
  | error e => rw [h1] at h; cases h
  | ok r =>
    obtain ⟨a1, c, n1⟩ := r
    have hI1 := stepActP_KInv cfg hpf s f.inFast b hI a1 c n1 h1
    rw [h1] at h
    simp only [] at h
    cases c with
    | true => simp only [↓reduceIte] at h; cases h; exact hI1
    | false =>
      simp only [Bool.false_eq_true, ↓reduceIte] at h
      cases h2 : deliver refTables cfg a1 with
      | error e => rw [h2] at h; cases h
      | ok a2 => rw [h2] at h; cases h; exact deliver_KInv cfg hc hpf hmv a1 _ hI1 h2

theorem tokenEndFast_KRel (s : St) (f : Fast) (k l : Bytes) (b : UInt8) (hp : s.plus = false)
    (hk : allEmpty s.stack = false → k = s.lastKey) :
    RF (tokenEndFast refTables cfg s f b) (tokenEndFast refTables cfg (s.setKeys k l) f b) := by
  unfold tokenEndFast
  simp only [hc, Bool.not_false, Bool.and_true, Bool.false_eq_true, ↓reduceIte]
  by_cases hb : b = 40
  · simp only [hb, decide_true, ↓reduceIte]
    rw [show startP (s.setKeys k l) (s.setKeys k l).stack.length (Item.fnMark (s.setKeys k l).tmp.reverse) =
      (startP s s.stack.length (Item.fnMark s.tmp.reverse)).setKeys k l from rfl, addFeat_setKeys]
    refine ⟨⟨k, l, rfl, ?_, ?_⟩, rfl, rfl⟩
    · intro he; rw [addFeat_stack] at he; rw [addFeat_lastKey]; exact hk he
    · intro hpp; rw [addFeat_plus] at hpp; rw [show (startP s s.stack.length (Item.fnMark s.tmp.reverse)).plus = s.plus from rfl, hp] at hpp; cases hpp
  · simp only [hb, decide_false, Bool.false_eq_true, ↓reduceIte]
    have ht : (s.setKeys k l).tmp = s.tmp := rfl
    rw [ht]
    have hA := addTokenP_KRel s s.tmp.reverse k l hp hk
    cases h1 : s.addTokenP s.tmp.reverse with
    | error e =>
      cases h2 : (s.setKeys k l).addTokenP s.tmp.reverse with
      | error e' => rw [h1, h2] at hA; exact hA
      | ok r' => rw [h1, h2] at hA; exact hA.elim
    | ok a =>
      cases h2 : (s.setKeys k l).addTokenP s.tmp.reverse with
      | error e' => rw [h1, h2] at hA; exact hA.elim
      | ok a' =>
        rw [h1, h2] at hA
        obtain ⟨k', l', rfl, hk', hl'⟩ := (hA : KRel a a')
        have hpa : a.plus = false := by rw [addTokenP_plus s a _ h1]; exact hp
        simp only []
        have fin : ∀ x : St, x.plus = false → ∀ k2 l2, (allEmpty x.stack = false → k2 = x.lastKey) →
            RF (stepCore refTables cfg x { f with tokFast := false } b)
              (stepCore refTables cfg (x.setKeys k2 l2) { f with tokFast := false } b) := by
          intro x hx k2 l2 hk2
          exact stepCore_KRel cfg hc hpf hmv x _ k2 l2 b (fun h => by rw [hx] at h; cases h) hk2
            (fun h => by rw [hx] at h; cases h)
        rcases deliver_KRel cfg hc hpf hmv a k' l' with hd | ⟨hd1, hd2⟩
        · cases h3 : deliver refTables cfg a with
          | error e =>
            cases h4 : deliver refTables cfg (a.setKeys k' l') with
            | error e' => rw [h3, h4] at hd; exact hd
            | ok x' => rw [h3, h4] at hd; exact hd.elim
          | ok x =>
            cases h4 : deliver refTables cfg (a.setKeys k' l') with
            | error e' => rw [h3, h4] at hd; exact hd.elim
            | ok x' =>
              rw [h3, h4] at hd
              obtain ⟨k2, l2, rfl, hk2, hl2⟩ := (hd : KRel x x')
              simp only []
              have hxp : x.plus = false := by
                unfold deliver deliverP at h3
                simp only [hc, Bool.false_eq_true, ↓reduceIte] at h3
                split at h3
                · split at h3
                  · cases h3
                  · cases h3; exact hpa
                · cases h3; exact hpa
              exact fin x hxp k2 l2 hk2
        · rw [hd1, hd2]
          exact fin a hpa k' l' hk'

theorem tokenEndFast_KInv (s : St) (f : Fast) (b : UInt8) (hp : s.plus = false) (a : St) (f' : Fast) (n : Bool)
    (h : tokenEndFast refTables cfg s f b = .ok (a, f', n)) : KInv a := by
  unfold tokenEndFast at h
  simp only [hc, Bool.not_false, Bool.and_true, Bool.false_eq_true, ↓reduceIte] at h
  by_cases hb : b = 40
  · simp only [hb, decide_true, ↓reduceIte] at h
    cases h
    intro hpp
    rw [addFeat_plus, show (startP s s.stack.length (Item.fnMark s.tmp.reverse)).plus = s.plus from rfl, hp] at hpp
    cases hpp
  · simp only [hb, decide_false, Bool.false_eq_true, ↓reduceIte] at h
    cases h1 : s.addTokenP s.tmp.reverse with
    | error e => rw [h1] at h; cases h
    | ok a1 =>
      rw [h1] at h
      simp only [] at h
      have hpa : a1.plus = false := by rw [addTokenP_plus s a1 _ h1]; exact hp
      have hI1 : KInv a1 := fun hh => by rw [hpa] at hh; cases hh
      cases h2 : deliver refTables cfg a1 with
      | error e => rw [h2] at h; cases h
      | ok a2 =>
        rw [h2] at h
        simp only [] at h
        exact stepCore_KInv cfg hc hpf hmv a2 _ b (deliver_KInv cfg hc hpf hmv a1 a2 hI1 h2) a f' n h

theorem step_KRel (s : St) (f : Fast) (k l : Bytes) (b : UInt8) (lb : Bool) (hI : KInv s)
    (hk : allEmpty s.stack = false → k = s.lastKey)
    (hl : s.plus = true → allEmpty s.stack = false → l = s.lastStrKey) :
    RF (step refTables cfg s f b lb) (step refTables cfg (s.setKeys k l) f b lb) := by
  unfold step
  have hm : (s.setKeys k l).mode = s.mode := rfl
  rw [hm]
  split
  · split
    · exact ⟨⟨k, l, rfl, hk, hl⟩, rfl, rfl⟩
    · rw [addFeat_setKeys]
      refine ⟨⟨k, l, rfl, ?_, ?_⟩, rfl, rfl⟩
      · intro he; rw [addFeat_stack] at he; rw [addFeat_lastKey]; exact hk he
      · intro hp he; rw [addFeat_stack] at he; rw [addFeat_plus] at hp; rw [addFeat_lastStrKey]; exact hl hp he
  · split
    · rename_i hcond
      have hmt : s.mode = .token := by
        simp only [Bool.and_eq_true, decide_eq_true_eq] at hcond
        exact hcond.1.1
      have hp : s.plus = false := by
        cases hp : s.plus with
        | false => rfl
        | true => have := hI hp; rw [hmt] at this; cases this
      exact tokenEndFast_KRel cfg hc hpf hmv s _ k l b hp hk
    · split
      · rw [addFeat_setKeys]
        refine stepCore_KRel cfg hc hpf hmv (s.addFeat 'k') _ k l b ?_ ?_ ?_
        · intro hp; rw [addFeat_plus] at hp; rw [addFeat_mode']; exact hI hp
        · intro he; rw [addFeat_stack] at he; rw [addFeat_lastKey]; exact hk he
        · intro hp he; rw [addFeat_stack] at he; rw [addFeat_plus] at hp; rw [addFeat_lastStrKey]; exact hl hp he
      · exact stepCore_KRel cfg hc hpf hmv s _ k l b hI hk hl

theorem step_KInv (s : St) (f : Fast) (b : UInt8) (lb : Bool) (hI : KInv s) (a : St) (f' : Fast) (n : Bool)
    (h : step refTables cfg s f b lb = .ok (a, f', n)) : KInv a := by
  unfold step at h
  split at h
  · split at h
    · cases h; exact hI
    · cases h; intro hp; rw [addFeat_plus] at hp; rw [addFeat_mode']; exact hI hp
  · split at h
    · rename_i hcond
      have hmt : s.mode = .token := by
        simp only [Bool.and_eq_true, decide_eq_true_eq] at hcond
        exact hcond.1.1
      have hp : s.plus = false := by
        cases hp : s.plus with
        | false => rfl
        | true => have := hI hp; rw [hmt] at this; cases this
      exact tokenEndFast_KInv cfg hc hpf hmv s _ b hp a f' n h
    · split at h
      · refine stepCore_KInv cfg hc hpf hmv (s.addFeat 'k') _ b ?_ a f' n h
        intro hp; rw [addFeat_plus] at hp; rw [addFeat_mode']; exact hI hp
      · exact stepCore_KInv cfg hc hpf hmv s _ b hI a f' n h

end chainK

/-! ### runs -/

/-- an error / a result without the two key fields (what the instance is left with, not what it answers) -/
def Err.noKeys (e : Err) : Err := { e with lastStrKey := [], lastKey := [] }
def Out.noKeys (o : Out) : Out := { o with lastStrKey := [], lastKey := [] }

def answer (r : Except Err Out) : Except Err Out :=
  match r with
  | .error e => .error e.noKeys
  | .ok o => .ok o.noKeys

def RB (r r' : Except Err (St × Fast × Pos)) : Prop :=
  match r, r' with
  | .error e, .error e' => e.noKeys = e'.noKeys
  | .ok (a, f, p), .ok (a', f', p') => KRel a a' ∧ KInv a ∧ f = f' ∧ p = p'
  | _, _ => False

def RC (r r' : Except Err (St × Pos)) : Prop :=
  match r, r' with
  | .error e, .error e' => e.noKeys = e'.noKeys
  | .ok (a, p), .ok (a', p') => KRel a a' ∧ KInv a ∧ p = p'
  | _, _ => False

theorem cellFeat_setKeys (cfg : Cfg) (s : St) (k l : Bytes) (b : UInt8) :
    (cellFeat refTables cfg (s.setKeys k l) b).feat = (cellFeat refTables cfg s b).feat := by
  unfold cellFeat
  have hm : (s.setKeys k l).mode = s.mode := rfl
  rw [hm]
  split <;> (try split) <;> first | rfl | (rw [addFeat_setKeys]; rfl)

theorem pm_absent (m : Mode) (h : pm m = true) : expectedFin m = .absent := by
  cases m <;> simp [pm] at h <;> rfl

section chainK2
variable (cfg : Cfg) (hc : cfg.tokenizer = false) (hpf : cfg.plusFault = false) (hmv : cfg.missingValue = false)
include hc hpf hmv

theorem runBytes_KRel (bs : Bytes) : ∀ (s : St) (f : Fast) (p : Pos) (k l : Bytes), KInv s →
    (allEmpty s.stack = false → k = s.lastKey) → (s.plus = true → allEmpty s.stack = false → l = s.lastStrKey) →
    RB (runBytes refTables cfg s f p bs) (runBytes refTables cfg (s.setKeys k l) f p bs) := by
  induction bs with
  | nil => intro s f p k l hI hk hl; exact ⟨⟨k, l, rfl, hk, hl⟩, hI, rfl, rfl⟩
  | cons b r ih =>
    intro s f p k l hI hk hl
    have hS := step_KRel cfg hc hpf hmv s f k l b r.isEmpty hI hk hl
    simp only [runBytes]
    cases h1 : step refTables cfg s f b r.isEmpty with
    | error e =>
      cases h2 : step refTables cfg (s.setKeys k l) f b r.isEmpty with
      | error e' =>
        rw [h1, h2] at hS
        have : e = e' := hS
        subst this
        simp only [RB, Pos.err, Err.noKeys, cellFeat_setKeys]
        rfl
      | ok x' => rw [h1, h2] at hS; exact hS.elim
    | ok x =>
      cases h2 : step refTables cfg (s.setKeys k l) f b r.isEmpty with
      | error e' => rw [h1, h2] at hS; exact hS.elim
      | ok x' =>
        rw [h1, h2] at hS
        obtain ⟨a, f1, n⟩ := x
        obtain ⟨a', f1', n'⟩ := x'
        obtain ⟨⟨k', l', rfl, hk', hl'⟩, rfl, rfl⟩ := hS
        exact ih a f1 _ k' l' (step_KInv cfg hc hpf hmv s f b r.isEmpty hI a f1 n h1) hk' hl'

theorem runChunks_KRel (cs : List Bytes) : ∀ (s : St) (p : Pos) (k l : Bytes), KInv s →
    (allEmpty s.stack = false → k = s.lastKey) → (s.plus = true → allEmpty s.stack = false → l = s.lastStrKey) →
    RC (runChunks refTables cfg s p cs) (runChunks refTables cfg (s.setKeys k l) p cs) := by
  induction cs with
  | nil => intro s p k l hI hk hl; exact ⟨⟨k, l, rfl, hk, hl⟩, hI, rfl⟩
  | cons c rest ih =>
    intro s p k l hI hk hl
    have hB := runBytes_KRel cfg hc hpf hmv c s {} { p with off := 0 } k l hI hk hl
    simp only [runChunks]
    cases h1 : runBytes refTables cfg s {} { p with off := 0 } c with
    | error e =>
      cases h2 : runBytes refTables cfg (s.setKeys k l) {} { p with off := 0 } c with
      | error e' => rw [h1, h2] at hB; exact hB
      | ok x' => rw [h1, h2] at hB; exact hB.elim
    | ok x =>
      cases h2 : runBytes refTables cfg (s.setKeys k l) {} { p with off := 0 } c with
      | error e' => rw [h1, h2] at hB; exact hB.elim
      | ok x' =>
        rw [h1, h2] at hB
        obtain ⟨a, f1, p1⟩ := x
        obtain ⟨a', f1', p1'⟩ := x'
        obtain ⟨⟨k', l', rfl, hk', hl'⟩, hI', rfl, rfl⟩ := hB
        exact ih a p1 k' l' hI' hk' hl'

theorem finish_KRel (s : St) (p : Pos) (k l : Bytes) (hI : KInv s) (hk : allEmpty s.stack = false → k = s.lastKey) :
    answer (finish refTables cfg s p) = answer (finish refTables cfg (s.setKeys k l) p) := by
  unfold finish
  simp only [hc, Bool.false_eq_true, ↓reduceIte]
  have h1 : (s.setKeys k l).starts = s.starts := rfl
  have h2 : (s.setKeys k l).mode = s.mode := rfl
  have h3 : (s.setKeys k l).feat = s.feat := rfl
  have h4 : (s.setKeys k l).plus = s.plus := rfl
  have h5 : (s.setKeys k l).num = s.num := rfl
  have h6 : (s.setKeys k l).tmp = s.tmp := rfl
  have h7 : (s.setKeys k l).docs = s.docs := rfl
  have h8 : (s.setKeys k l).evs = s.evs := rfl
  rw [h1, h2, h3, h4, h5, h6, h7, h8]
  have hp : expectedFin s.mode ≠ .absent → s.plus = false := by
    intro hne
    cases hp : s.plus with
    | false => rfl
    | true => exact absurd (pm_absent _ (hI hp)) hne
  split
  · rfl
  · cases hfin : refTables.fin s.mode with
    | absent => rfl
    | n =>
      have hpl := hp (by rw [show expectedFin s.mode = refTables.fin s.mode from rfl, hfin]; simp)
      have hA := addIgnore_KRel s s.num.asNum.toJV k l hpl hk
      simp only []
      cases e1 : s.addIgnore s.num.asNum.toJV with
      | error e =>
        cases e2 : (s.setKeys k l).addIgnore s.num.asNum.toJV with
        | error e' => rw [e1, e2] at hA; have : e = e' := hA; subst this; rfl
        | ok a' => rw [e1, e2] at hA; exact hA.elim
      | ok a =>
        cases e2 : (s.setKeys k l).addIgnore s.num.asNum.toJV with
        | error e' => rw [e1, e2] at hA; exact hA.elim
        | ok a' =>
          rw [e1, e2] at hA
          obtain ⟨k', l', rfl, _, _⟩ := (hA : KRel a a')
          simp only []
          have : (a.setKeys k' l').stack = a.stack := rfl
          rw [this]
          cases a.stack.getLast? <;> rfl
    | t =>
      have hpl := hp (by rw [show expectedFin s.mode = refTables.fin s.mode from rfl, hfin]; simp)
      have hA := addTokenP_KRel s s.tmp.reverse k l hpl hk
      simp only []
      cases e1 : s.addTokenP s.tmp.reverse with
      | error e =>
        cases e2 : (s.setKeys k l).addTokenP s.tmp.reverse with
        | error e' => rw [e1, e2] at hA; have : e = e' := hA; subst this; rfl
        | ok a' => rw [e1, e2] at hA; exact hA.elim
      | ok a =>
        cases e2 : (s.setKeys k l).addTokenP s.tmp.reverse with
        | error e' => rw [e1, e2] at hA; exact hA.elim
        | ok a' =>
          rw [e1, e2] at hA
          obtain ⟨k', l', rfl, _, _⟩ := (hA : KRel a a')
          simp only []
          have : (a.setKeys k' l').stack = a.stack := rfl
          rw [this]
          cases a.stack.getLast? <;> rfl
    | _ => rfl

/-- **a stale `lastKey` is harmless** (sen.Parser profile, the code as it is): what a call answers —
documents, error kind, line and column, deviation marks — does not depend on the `lastKey` the previous
calls left on the instance. (`lastKey` is read by a `+` only; the string that follows looks the copy up in
the map on top of the stack, and while no member of this call has been stored — which overwrites
`lastKey` — every open map is empty.) -/
theorem call_lastKey_ref (hkp : cfg.keepPlus = false) (prev : St) (k : Bytes) (chunks : List Bytes) :
    answer (call refTables cfg prev chunks) = answer (call refTables cfg { prev with lastKey := k } chunks) := by
  have he : ({ prev with lastKey := k } : St).entry cfg = (prev.entry cfg).setKeys k (prev.entry cfg).lastStrKey := by
    simp only [St.entry, hkp, Bool.false_eq_true, ↓reduceIte, St.setKeys]
  have hI : KInv (prev.entry cfg) := by
    intro hp
    have : (prev.entry cfg).plus = false := by simp [St.entry, hkp]
    rw [this] at hp; cases hp
  have hk0 : allEmpty (prev.entry cfg).stack = false → k = (prev.entry cfg).lastKey := by
    intro h; have : (prev.entry cfg).stack = [] := rfl; rw [this] at h; cases h
  have hl0 : (prev.entry cfg).plus = true → allEmpty (prev.entry cfg).stack = false →
      (prev.entry cfg).lastStrKey = (prev.entry cfg).lastStrKey := fun _ _ => rfl
  have tail : ∀ cs, answer (match runChunks refTables cfg (prev.entry cfg) {} cs with
        | .error e => (.error e : Except Err Out)
        | .ok (s, p) => finish refTables cfg s p) =
      answer (match runChunks refTables cfg ((prev.entry cfg).setKeys k (prev.entry cfg).lastStrKey) {} cs with
        | .error e => (.error e : Except Err Out)
        | .ok (s, p) => finish refTables cfg s p) := by
    intro cs
    have hR := runChunks_KRel cfg hc hpf hmv cs (prev.entry cfg) {} k _ hI hk0 hl0
    cases h1 : runChunks refTables cfg (prev.entry cfg) {} cs with
    | error e =>
      cases h2 : runChunks refTables cfg ((prev.entry cfg).setKeys k (prev.entry cfg).lastStrKey) {} cs with
      | error e' => rw [h1, h2] at hR; simp only [answer]; exact congrArg _ hR
      | ok x' => rw [h1, h2] at hR; exact hR.elim
    | ok x =>
      cases h2 : runChunks refTables cfg ((prev.entry cfg).setKeys k (prev.entry cfg).lastStrKey) {} cs with
      | error e' => rw [h1, h2] at hR; exact hR.elim
      | ok x' =>
        rw [h1, h2] at hR
        obtain ⟨a, p1⟩ := x
        obtain ⟨a', p1'⟩ := x'
        obtain ⟨⟨k', l', rfl, hk', hl'⟩, hI', rfl⟩ := hR
        exact finish_KRel cfg hc hpf hmv a p1 k' l' hI' hk'
  rw [call_ref, call_ref]
  unfold callWith
  rw [he]
  simp only []
  split
  · exact finish_KRel cfg hc hpf hmv _ _ k _ hI hk0
  · split
    · rfl
    · exact tail _
    · exact tail _

end chainK2

end OjgVerif.Sen
